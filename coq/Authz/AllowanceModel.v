(** Property C04, part 2: the allowance state machine behind the staking and
    ICS-20 precompiles: x/authz grants keyed by (granter, grantee, message type),
    with expiration, a StakeAuthorization (optional limit, validator allow / deny
    list) or a TransferAuthorization (allocations per channel with a spend limit
    per denomination and a receiver allow list).

    Transcribed from
      cosmos-sdk x/authz/keeper/keeper.go  (GetAuthorization, SaveGrant, DeleteGrant, NewGrant)
      cosmos-sdk x/staking/types/authz.go  (StakeAuthorization.Accept)
      ibc-go modules/apps/transfer/types/transfer_authorization.go (TransferAuthorization.Accept)
      /repo/precompiles/authorization/types.go (CheckAuthzAndAllowanceForGranter, CheckAuthzExists)
      /repo/precompiles/staking/approve.go, /repo/precompiles/ics20/approve_common.go, types.go.
    Definitions only. *)
From stdpp Require Import gmap.
From Coq Require Import ZArith List.
Import ListNotations.
Local Open Scope Z_scope.

Inductive mtype := MDelegate | MUndelegate | MRedelegate | MCancel | MTransfer | MSend.
Global Instance mtype_eq_dec : EqDecision mtype.
Proof. solve_decision. Defined.
Definition mtype_to_N (m : mtype) : N :=
  match m with MDelegate => 0 | MUndelegate => 1 | MRedelegate => 2 | MCancel => 3 | MTransfer => 4 | MSend => 5 end%N.
Definition mtype_of_N (n : N) : option mtype :=
  match n with 0 => Some MDelegate | 1 => Some MUndelegate | 2 => Some MRedelegate | 3 => Some MCancel
             | 4 => Some MTransfer | 5 => Some MSend | _ => None end%N.
Global Instance mtype_countable : Countable mtype.
Proof. apply (inj_countable mtype_to_N mtype_of_N). intros []; reflexivity. Defined.
Definition all_mtypes : list mtype := [MDelegate; MUndelegate; MRedelegate; MCancel; MTransfer; MSend].
Definition is_stake_ty (t : mtype) : bool :=
  match t with MDelegate | MUndelegate | MRedelegate | MCancel => true | _ => false end.

Definition YEAR : Z := 31536000.            (* cmn.DefaultExpirationDuration, seconds *)
Definition MAXU : Z := 2 ^ 256 - 1.          (* abi.MaxUint256 = transfertypes.UnboundedSpendLimit *)

Record alloc := mkalloc { a_chan : N; a_limits : list (N * Z); a_allow : list N }.
Inductive auth :=
| AStake (limit : option Z) (allow deny : list N)
| ATransfer (allocs : list alloc)
| AGeneric.      (* any other Authorization implementation stored under the message type *)
Record grant := mkgrant { g_auth : auth; g_exp : option Z }.
Global Instance alloc_eq_dec : EqDecision alloc.
Proof. solve_decision. Defined.
Global Instance auth_eq_dec : EqDecision auth.
Proof. solve_decision. Defined.
Global Instance grant_eq_dec : EqDecision grant.
Proof. solve_decision. Defined.

Notation gkey := (N * N * mtype)%type.       (* granter, grantee, message type *)
Notation gstore := (gmap gkey grant).

Inductive status := SOk | SErr | SPanic.
Global Instance status_eq_dec : EqDecision status.
Proof. solve_decision. Defined.

(** * x/authz keeper *)
Definition expired (now : Z) (g : grant) : bool :=
  match g_exp g with Some e => e <? now | None => false end.        (* Expiration.Before(blockTime) *)
Definition get_auth (now : Z) (G : gstore) (k : gkey) : option grant :=
  match G !! k with Some g => if expired now g then None else Some g | None => None end.
(** NewGrant refuses an expiration that is not after the block time *)
Definition save_grant (now : Z) (G : gstore) (k : gkey) (a : auth) (exp : option Z) : option gstore :=
  match exp with
  | Some e => if e <=? now then None else Some (<[k := mkgrant a exp]> G)
  | None => Some (<[k := mkgrant a None]> G)
  end.
Definition delete_grant (G : gstore) (k : gkey) : option gstore :=
  match G !! k with Some _ => Some (delete k G) | None => None end.

Definition mem (v : N) (l : list N) : bool := existsb (N.eqb v) l.
Definition is_nil {A} (l : list A) : bool := match l with [] => true | _ => false end.

(** * staking: approve / increaseAllowance / decreaseAllowance / revoke for one message type
    [vals]: the validators that are not jailed (the allow list every approve writes);
    [amt = None] is the MaxUint256 sentinel (coin = nil). *)
Definition stake_approve1 (now : Z) (vals : list N) (G : gstore) (k : gkey) (amt : option Z) : gstore * status :=
  let r :=
    if is_nil vals then None else
    match amt with
    | None => save_grant now G k (AStake None vals []) (Some (now + YEAR))
    | Some a => if a <=? 0 then delete_grant G k
                else save_grant now G k (AStake (Some a) vals []) (Some (now + YEAR))
    end in
  match r with Some G1 => (G1, SOk) | None => (G, SErr) end.

Definition stake_increase1 (now : Z) (G : gstore) (k : gkey) (amt : option Z) : gstore * status :=
  match get_auth now G k with
  | None => (G, SErr)
  | Some g =>
      match g_auth g with
      | AStake None _ _ => (G, SOk)                                       (* no limit: no-op *)
      | AStake (Some l) al dl =>
          match amt with
          | None => (G, SPanic)                                            (* coin == nil is dereferenced *)
          | Some a =>
              if MAXU <? l + a then (G, SPanic) else                       (* math.Int overflow *)
              match save_grant now G k (AStake (Some (l + a)) al dl) (g_exp g) with
              | Some G1 => (G1, SOk) | None => (G, SErr) end
          end
      | _ => (G, SErr)
      end
  end.

Definition stake_decrease1 (now : Z) (G : gstore) (k : gkey) (amt : option Z) : gstore * status :=
  match get_auth now G k with
  | None => (G, SErr)
  | Some g =>
      match g_auth g with
      | AStake None _ _ => (G, SOk)
      | AStake (Some l) al dl =>
          match amt with
          | None => (G, SPanic)
          | Some a =>
              if l <? a then (G, SErr) else
              match save_grant now G k (AStake (Some (l - a)) al dl) (g_exp g) with
              | Some G1 => (G1, SOk) | None => (G, SErr) end
          end
      | _ => (G, SErr)
      end
  end.

Definition stake_revoke1 (G : gstore) (k : gkey) : gstore * status :=
  match delete_grant G k with Some G1 => (G1, SOk) | None => (G, SErr) end.   (* expiry is not looked at *)

(** the methods take a list of message type URLs ([None] = a URL that is no
    staking message): processed left to right, the writes made before a failing
    entry stay *)
Fixpoint over_types (f : gstore -> mtype -> gstore * status) (ok : mtype -> bool)
         (G : gstore) (tys : list (option mtype)) : gstore * status :=
  match tys with
  | [] => (G, SOk)
  | None :: _ => (G, SErr)
  | Some t :: r =>
      if ok t then
        let '(G1, st) := f G t in
        match st with SOk => over_types f ok G1 r | _ => (G1, st) end
      else (G, SErr)
  end.

Definition inc_ty (t : mtype) : bool := match t with MDelegate | MUndelegate | MRedelegate => true | _ => false end.

Definition stake_approve (now : Z) (vals : list N) (G : gstore) (granter grantee : N) (amt : option Z)
           (tys : list (option mtype)) : gstore * status :=
  if is_nil tys then (G, SErr) else
  over_types (fun G t => stake_approve1 now vals G (granter, grantee, t) amt) is_stake_ty G tys.
Definition stake_increase (now : Z) (G : gstore) (granter grantee : N) (amt : option Z)
           (tys : list (option mtype)) : gstore * status :=
  if is_nil tys then (G, SErr) else
  over_types (fun G t => stake_increase1 now G (granter, grantee, t) amt) inc_ty G tys.
Definition stake_decrease (now : Z) (G : gstore) (granter grantee : N) (amt : option Z)
           (tys : list (option mtype)) : gstore * status :=
  if is_nil tys then (G, SErr) else
  over_types (fun G t => stake_decrease1 now G (granter, grantee, t) amt) is_stake_ty G tys.
Definition stake_revoke (G : gstore) (granter grantee : N) (tys : list (option mtype)) : gstore * status :=
  if is_nil tys then (G, SErr) else
  over_types (fun G t => stake_revoke1 G (granter, grantee, t)) is_stake_ty G tys.

(** * staking: spending *)
(** CheckAuthzAndAllowanceForGranter: live grant, a StakeAuthorization, amount within the limit.
    The validator lists are NOT looked at here. *)
Definition check_allowance (now : Z) (G : gstore) (k : gkey) (amt : Z)
  : option (option Z * list N * list N * option Z) :=
  match get_auth now G k with
  | Some (mkgrant (AStake lim al dl) exp) =>
      match lim with
      | Some l => if l <? amt then None else Some (lim, al, dl, exp)
      | None => Some (lim, al, dl, exp)
      end
  | _ => None
  end.

Inductive resp := RDelete | RUpdate (a : auth).
(** StakeAuthorization.Accept *)
Definition stake_accept (lim : option Z) (al dl : list N) (val : N) (amt : Z) : option resp :=
  if mem val dl then None else
  if negb (is_nil al) && negb (mem val al) then None else
  match lim with
  | None => Some (RUpdate (AStake None al dl))
  | Some l => if l - amt <? 0 then None
              else if l - amt =? 0 then Some RDelete
              else Some (RUpdate (AStake (Some (l - amt)) al dl))
  end.
(** UpdateStakingAuthorization after Accept / ics20 UpdateGrant *)
Definition update_grant (now : Z) (G : gstore) (k : gkey) (r : resp) (exp : option Z) : option gstore :=
  match r with RDelete => delete_grant G k | RUpdate a => save_grant now G k a exp end.

(** what the grant becomes if [amt] is spent on validator [val] (None: refused) *)
Definition stake_spend_update (now : Z) (G : gstore) (k : gkey) (val : N) (amt : Z) : option (option gstore) :=
  match check_allowance now G k amt with
  | None => None
  | Some (lim, al, dl, exp) =>
      Some (match stake_accept lim al dl val amt with
            | None => None
            | Some r => update_grant now G k r exp
            end)
  end.

(** A spend as the precompile performs it ([impl = true]): allowance check, the
    Cosmos message ([msg_ok]: did it succeed), then Accept + grant update, whose
    failure comes too late to undo the message.  [impl = false] is the order the
    property asks for: nothing happens unless the grant accepts and can be updated.
    Result: new store, "the message took effect", status of the call. *)
Definition stake_spend (impl : bool) (now : Z) (G : gstore) (k : gkey) (val : N) (amt : Z) (msg_ok : bool)
  : gstore * bool * status :=
  match stake_spend_update now G k val amt with
  | None => (G, false, SErr)
  | Some upd =>
      if impl then
        if msg_ok then match upd with Some G1 => (G1, true, SOk) | None => (G, true, SErr) end
        else (G, false, SErr)
      else
        match upd with
        | Some G1 => if msg_ok then (G1, true, SOk) else (G, false, SErr)
        | None => (G, false, SErr)
        end
  end.

(** * ICS-20 *)
Fixpoint amount_of (d : N) (cs : list (N * Z)) : Z :=
  match cs with [] => 0 | (d', x) :: r => if N.eqb d d' then x else amount_of d r end.
Fixpoint has_denom (d : N) (cs : list (N * Z)) : bool :=
  match cs with [] => false | (d', _) :: r => N.eqb d d' || has_denom d r end.
(** set the amount of an existing denomination; entries that reach zero are dropped (sdk.Coins) *)
Fixpoint coins_set (d : N) (x : Z) (cs : list (N * Z)) : list (N * Z) :=
  match cs with
  | [] => []
  | (d', y) :: r => if N.eqb d d' then (if x <=? 0 then r else (d', x) :: r) else (d', y) :: coins_set d x r
  end.

Inductive tresp := TDelete | TUpdate (allocs : list alloc) | TKeep.
(** TransferAuthorization.Accept: first allocation of the channel *)
Fixpoint transfer_accept_from (pre allocs : list alloc) (ch d : N) (amt : Z) (recv : N) : option tresp :=
  match allocs with
  | [] => None
  | a :: r =>
      if N.eqb (a_chan a) ch then
        if negb (is_nil (a_allow a)) && negb (mem recv (a_allow a)) then None else
        if amount_of d (a_limits a) =? MAXU then Some TKeep else
        if amount_of d (a_limits a) <? amt then None else
        let left := coins_set d (amount_of d (a_limits a) - amt) (a_limits a) in
        if is_nil left then (if is_nil (pre ++ r) then Some TDelete else Some (TUpdate (pre ++ r)))
        else Some (TUpdate (pre ++ mkalloc (a_chan a) left (a_allow a) :: r))
      else transfer_accept_from (pre ++ [a]) r ch d amt recv
  end.
Definition transfer_accept := transfer_accept_from [].

(** CheckAndAcceptAuthorizationIfNeeded + UpdateGrant: what the grant becomes (None: refused;
    Some None: accepted but the update cannot be written) *)
Definition transfer_spend_update (now : Z) (G : gstore) (k : gkey) (ch d : N) (amt : Z) (recv : N)
  : option (option gstore) :=
  match get_auth now G k with
  | Some (mkgrant (ATransfer allocs) exp) =>
      match transfer_accept allocs ch d amt recv with
      | None => None
      | Some TKeep => Some (Some G)
      | Some TDelete => Some (delete_grant G k)
      | Some (TUpdate al) => Some (save_grant now G k (ATransfer al) exp)
      end
  | _ => None
  end.

Definition transfer_spend (impl : bool) (now : Z) (G : gstore) (k : gkey) (ch d : N) (amt : Z) (recv : N)
           (msg_ok : bool) : gstore * bool * status :=
  match transfer_spend_update now G k ch d amt recv with
  | None => (G, false, SErr)
  | Some upd =>
      if impl then
        if msg_ok then match upd with Some G1 => (G1, true, SOk) | None => (G, true, SErr) end
        else (G, false, SErr)
      else
        match upd with
        | Some G1 => if msg_ok then (G1, true, SOk) else (G, false, SErr)
        | None => (G, false, SErr)
        end
  end.

Fixpoint nodup_chans (seen : list N) (allocs : list alloc) : bool :=
  match allocs with
  | [] => true
  | a :: r => negb (mem (a_chan a) seen) && nodup_chans (a_chan a :: seen) r
  end.
Fixpoint sorted_pos (prev : option N) (cs : list (N * Z)) : bool :=
  match cs with
  | [] => true
  | (d, x) :: r => (0 <? x) && (match prev with Some p => N.ltb p d | None => true end) && sorted_pos (Some d) r
  end.
Fixpoint nodup_N (l : list N) : bool :=
  match l with [] => true | x :: r => negb (mem x r) && nodup_N r end.
(** TransferAuthorization.ValidateBasic + "every allocation's channel exists" *)
Definition valid_allocs (chan_exists : N -> bool) (allocs : list alloc) : bool :=
  negb (is_nil allocs) && nodup_chans [] allocs &&
  forallb (fun a => chan_exists (a_chan a) && sorted_pos None (a_limits a) && nodup_N (a_allow a)) allocs.

(** checkTransferAuthzArgs copies port, channel and spend limit of every allocation
    of the call; the receiver allow list given by the caller is not copied: the
    stored grant admits every receiver *)
Definition strip_allow (allocs : list alloc) : list alloc :=
  map (fun a => mkalloc (a_chan a) (a_limits a) []) allocs.

Definition ics_approve (now : Z) (chan_exists : N -> bool) (G : gstore) (k : gkey) (allocs : list alloc)
  : gstore * status :=
  if valid_allocs chan_exists (strip_allow allocs) then
    match save_grant now G k (ATransfer (strip_allow allocs)) (Some (now + YEAR)) with
    | Some G1 => (G1, SOk) | None => (G, SErr) end
  else (G, SErr).

Definition ics_revoke (now : Z) (G : gstore) (k : gkey) : gstore * status :=
  match get_auth now G k with
  | Some (mkgrant (ATransfer _) _) =>
      match delete_grant G k with Some G1 => (G1, SOk) | None => (G, SErr) end
  | _ => (G, SErr)
  end.

(** replace the spend limit of the first allocation of channel [ch] *)
Fixpoint set_limits (allocs : list alloc) (ch : N) (ls : list (N * Z)) : list alloc :=
  match allocs with
  | [] => []
  | a :: r => if N.eqb (a_chan a) ch then mkalloc (a_chan a) ls (a_allow a) :: r else a :: set_limits r ch ls
  end.
Fixpoint find_alloc (allocs : list alloc) (ch : N) : option alloc :=
  match allocs with [] => None | a :: r => if N.eqb (a_chan a) ch then Some a else find_alloc r ch end.

Definition ics_change (increase : bool) (now : Z) (G : gstore) (k : gkey) (ch d : N) (amt : Z) : gstore * status :=
  match get_auth now G k with
  | Some (mkgrant (ATransfer allocs) exp) =>
      match find_alloc allocs ch with
      | None => (G, SErr)
      | Some a =>
          if negb (has_denom d (a_limits a)) then (G, SErr) else
          let l := amount_of d (a_limits a) in
          if increase then
            if MAXU <? l + amt then (G, SErr) else                         (* cmn.SafeAdd overflow *)
            match save_grant now G k (ATransfer (set_limits allocs ch (coins_set d (l + amt) (a_limits a)))) exp with
            | Some G1 => (G1, SOk) | None => (G, SErr) end
          else
            if l <? amt then (G, SErr) else
            match save_grant now G k (ATransfer (set_limits allocs ch (coins_set d (l - amt) (a_limits a)))) exp with
            | Some G1 => (G1, SOk) | None => (G, SErr) end
      end
  | _ => (G, SErr)
  end.

(** * histories over one grant (granter, grantee, message type): the operations of
    the property's quantifier.  [OSet] is a grant written outside the precompile
    (native MsgGrant: any authorization, any expiration), [OTick] lets time pass. *)
Inductive aop :=
| OApprove (amt : option Z) | OIncrease (amt : option Z) | ODecrease (amt : option Z) | ORevoke
| OSpend (val : N) (amt : Z) (msg_ok : bool)
| OSet (g : grant) | OTick (dt : Z).

Record astate := mkas { s_now : Z; s_G : gstore; s_granted : option Z; s_spent : Z }.
(** [s_granted]: what the property's accounting says was granted since the last
    (re)definition of the grant ([None] = unlimited / not a limited stake grant);
    [s_spent]: the sum of the amounts whose message took effect since then. *)
Definition limit_of (g : grant) : option Z :=
  match g_auth g with AStake (Some l) _ _ => Some l | _ => None end.

Definition astep (impl : bool) (vals : list N) (k : gkey) (s : astate) (o : aop) : astate :=
  let now := s_now s in
  let G := s_G s in
  match o with
  | OApprove amt =>
      let '(G1, st) := stake_approve1 now vals G k amt in
      match st with
      | SOk => mkas now G1 (match amt with Some a => if a <=? 0 then None else Some a | None => None end) 0
      | _ => s end
  | OIncrease amt =>
      let '(G1, st) := stake_increase1 now G k amt in
      match st, amt, s_granted s with
      | SOk, Some a, Some g => mkas now G1 (Some (g + a)) (s_spent s)
      | _, _, _ => s end
  | ODecrease amt =>
      let '(G1, st) := stake_decrease1 now G k amt in
      match st, amt, s_granted s with
      | SOk, Some a, Some g => mkas now G1 (Some (g - a)) (s_spent s)
      | _, _, _ => s end
  | ORevoke =>
      let '(G1, st) := stake_revoke1 G k in
      match st with SOk => mkas now G1 None 0 | _ => s end
  | OSpend val amt msg_ok =>
      let '(G1, eff, _) := stake_spend impl now G k val amt msg_ok in
      mkas now G1 (s_granted s) (if eff then s_spent s + amt else s_spent s)
  | OSet g => mkas now (<[k := g]> G) (limit_of g) 0
  | OTick dt => mkas (now + Z.max 0 dt) G (s_granted s) (s_spent s)
  end.

Definition arun (impl : bool) (vals : list N) (k : gkey) (ops : list aop) (s : astate) : astate :=
  fold_left (astep impl vals k) ops s.
Definition ainit : astate := mkas 0 ∅ None 0.

(** * histories over one ICS-20 grant (granter, grantee, MsgTransfer): approve with
    SEVERAL allocations (one per channel, several denominations each), increase /
    decrease of one (channel, denomination), revoke, native grant, spends per
    channel and denomination, time.  The property's accounting is kept per
    (channel, denomination): what the signer's calls granted since the allowance
    was last (re)defined ([None] = the unbounded sentinel 2^256-1) and what the
    grantee's transfers that took effect have spent since then. *)
(** the limit the first allocation of channel [ch] leaves for denomination [d] (0: nothing) *)
Definition remaining_transfer (allocs : list alloc) (ch d : N) : Z :=
  match find_alloc allocs ch with Some a => amount_of d (a_limits a) | None => 0 end.

Inductive top :=
| TApprove (allocs : list alloc) | TIncrease (ch d : N) (amt : Z) | TDecrease (ch d : N) (amt : Z) | TRevoke
| TSpend (ch d : N) (amt : Z) (recv : N) (msg_ok : bool)
| TSet (g : grant) | TTick (dt : Z).

Record tstate := mkts { t_now : Z; t_G : gstore; t_granted : N -> N -> option Z; t_spent : N -> N -> Z }.

Definition upd2 {A} (f : N -> N -> A) (ch d : N) (v : A) : N -> N -> A :=
  fun ch' d' => if N.eqb ch ch' && N.eqb d d' then v else f ch' d'.
(** an allowance whose remaining part is exactly the sentinel is unbounded *)
Definition norm_granted (g spent : Z) : option Z := if g - spent =? MAXU then None else Some g.
(** what an approve (or a native grant) with these allocations grants: exactly the amounts given, per channel and denomination *)
Definition granted_of_allocs (allocs : list alloc) : N -> N -> option Z :=
  fun ch d => norm_granted (remaining_transfer allocs ch d) 0.
Definition zero2 : N -> N -> Z := fun _ _ => 0.
Definition nothing_granted : N -> N -> option Z := fun _ _ => Some 0.

Definition tstep (impl : bool) (ce : N -> bool) (k : gkey) (s : tstate) (o : top) : tstate :=
  let now := t_now s in
  let G := t_G s in
  match o with
  | TApprove allocs =>
      let '(G1, st) := ics_approve now ce G k allocs in
      match st with SOk => mkts now G1 (granted_of_allocs allocs) zero2 | _ => s end
  | TIncrease ch d amt =>
      let '(G1, st) := ics_change true now G k ch d amt in
      match st with
      | SOk => match t_granted s ch d with
               | Some g => mkts now G1 (upd2 (t_granted s) ch d (norm_granted (g + amt) (t_spent s ch d))) (t_spent s)
               | None => mkts now G1 (t_granted s) (t_spent s)
               end
      | _ => s end
  | TDecrease ch d amt =>
      let '(G1, st) := ics_change false now G k ch d amt in
      match st with
      | SOk => match t_granted s ch d with
               | Some g => mkts now G1 (upd2 (t_granted s) ch d (norm_granted (g - amt) (t_spent s ch d))) (t_spent s)
               | None => mkts now G1 (upd2 (t_granted s) ch d (norm_granted (MAXU - amt) 0)) (upd2 (t_spent s) ch d 0)
               end
      | _ => s end
  | TRevoke =>
      let '(G1, st) := ics_revoke now G k in
      match st with SOk => mkts now G1 nothing_granted zero2 | _ => s end
  | TSpend ch d amt recv msg_ok =>
      let '(G1, eff, _) := transfer_spend impl now G k ch d amt recv msg_ok in
      if eff then
        match t_granted s ch d with
        | Some g => mkts now G1 (upd2 (t_granted s) ch d (norm_granted g (t_spent s ch d + amt)))   (* the sentinel is recognised by value *)
                         (upd2 (t_spent s) ch d (t_spent s ch d + amt))
        | None => mkts now G1 (t_granted s) (t_spent s)
        end
      else mkts now G1 (t_granted s) (t_spent s)
  | TSet g =>
      mkts now (<[k := g]> G) (match g_auth g with ATransfer al => granted_of_allocs al | _ => nothing_granted end) zero2
  | TTick dt => mkts (now + Z.max 0 dt) G (t_granted s) (t_spent s)
  end.

Definition trun (impl : bool) (ce : N -> bool) (k : gkey) (ops : list top) (s : tstate) : tstate :=
  fold_left (tstep impl ce k) ops s.
Definition tinit : tstate := mkts 0 ∅ nothing_granted zero2.
(** what the store holds for (channel, denomination) under the key *)
Definition trem (G : gstore) (k : gkey) (ch d : N) : Z :=
  match G !! k with
  | Some g => match g_auth g with ATransfer al => remaining_transfer al ch d | _ => 0 end
  | None => 0
  end.
