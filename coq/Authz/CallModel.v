(** Property C04, part 3: a precompile call as a state transition.  The Cosmos
    side (bank balances in two denominations, delegations to several validators,
    unbonding entries, pending rewards, withdraw addresses, the authz grant
    store, block time) with the effect of every state-changing method of the
    staking, distribution and ICS-20 precompiles, gated by the identity decision
    of IdentityModel and the grant logic of AllowanceModel, in the order in which
    the Go code does things (so that a call that fails half-way keeps what was
    already written: a failing precompile call does not roll back the Cosmos
    state, only the EVM journal).  [impl = true] is the code as it is,
    [impl = false] the order the property asks for (see AllowanceModel.stake_spend).

    A transaction is a list of calls made by one caller ([c = o]: the signer
    calls the precompile directly; otherwise [c] is the script contract that
    makes the calls, reached through zero or more forwarding contracts); all
    values are zero.  Of the StateDB only what matters here is kept: the cached
    balance of the caller, which the precompiles adjust ("mirror") and which the
    StateDB commit writes back over the bank balance once it is dirty.
    Definitions only. *)
From stdpp Require Import gmap.
From Coq Require Import ZArith List.
From HV Require Import Authz.IdentityModel Authz.AllowanceModel.
Import ListNotations.
Local Open Scope Z_scope.

Definition zg `{Countable K} (m : gmap K Z) (k : K) : Z := default 0 (m !! k).

Record world := mkw {
  bank : gmap (N * N) Z;        (* (account, denomination) *)
  stake : gmap (N * N) Z;       (* (delegator, validator) *)
  unbond0 : gmap (N * N) Z;     (* unbonding entry that exists before the history (the one cancel names) *)
  unbond1 : gmap (N * N) Z;     (* unbonding started during the history *)
  pending : gmap (N * N) Z;     (* withdrawable rewards (oracle input), (delegator, validator) *)
  broken : gset (N * N);        (* delegations whose distribution starting record a failed call deleted *)
  redels : list (N * N * N);    (* redelegation entries (delegator, source, destination) *)
  wd : gmap N N;                (* withdraw address, default: the delegator *)
  grants : gstore;
  now : Z
}.

Definition with_bank (W : world) x := mkw x (stake W) (unbond0 W) (unbond1 W) (pending W) (broken W) (redels W) (wd W) (grants W) (now W).
Definition with_stake (W : world) x := mkw (bank W) x (unbond0 W) (unbond1 W) (pending W) (broken W) (redels W) (wd W) (grants W) (now W).
Definition with_unbond0 (W : world) x := mkw (bank W) (stake W) x (unbond1 W) (pending W) (broken W) (redels W) (wd W) (grants W) (now W).
Definition with_unbond1 (W : world) x := mkw (bank W) (stake W) (unbond0 W) x (pending W) (broken W) (redels W) (wd W) (grants W) (now W).
Definition with_pending (W : world) x := mkw (bank W) (stake W) (unbond0 W) (unbond1 W) x (broken W) (redels W) (wd W) (grants W) (now W).
Definition with_broken (W : world) x := mkw (bank W) (stake W) (unbond0 W) (unbond1 W) (pending W) x (redels W) (wd W) (grants W) (now W).
Definition with_redels (W : world) x := mkw (bank W) (stake W) (unbond0 W) (unbond1 W) (pending W) (broken W) x (wd W) (grants W) (now W).
Definition with_wd (W : world) x := mkw (bank W) (stake W) (unbond0 W) (unbond1 W) (pending W) (broken W) (redels W) x (grants W) (now W).
Definition with_grants (W : world) x := mkw (bank W) (stake W) (unbond0 W) (unbond1 W) (pending W) (broken W) (redels W) (wd W) x (now W).
Definition with_now (W : world) x := mkw (bank W) (stake W) (unbond0 W) (unbond1 W) (pending W) (broken W) (redels W) (wd W) (grants W) x.

Definition bal (W : world) (a d : N) : Z := zg (bank W) (a, d).
Definition stk (W : world) (a v : N) : Z := zg (stake W) (a, v).
Definition wd_of (W : world) (a : N) : N := default a (wd W !! a).
Definition credit (W : world) (a d : N) (x : Z) : world := with_bank W (<[(a, d) := bal W a d + x]> (bank W)).
Definition set_stake (W : world) (a v : N) (x : Z) : world := with_stake W (<[(a, v) := x]> (stake W)).

Definition ESCROW : N := 5.                                   (* escrow account of transfer/channel-0 *)
Definition ESCROW1 : N := 6.                                  (* escrow account of transfer/channel-1 *)
Definition escrow_of (ch : N) : N := (ESCROW + ch)%N.         (* every channel escrows into its own account *)
Definition blocked_addr (a : N) : bool := N.leb 6 a.          (* module accounts cannot be withdraw addresses *)
Definition chan_exists (ch : N) : bool := N.eqb ch 0 || N.eqb ch 1.   (* two open transfer channels *)

Record cfg := mkcfg {
  c_vals : list N;      (* the validators, in address order (all bonded, none jailed, one token per share) *)
  c_ubt : Z             (* unbonding time, seconds *)
}.

(** * Cosmos messages *)
(** withdrawDelegationRewards (message or staking hook): pays the pending rewards
    to the withdraw address and deletes the starting record *)
Definition payout (W : world) (a v : N) : world * status * Z :=
  if bool_decide ((a, v) ∈ broken W) then (W, SErr, 0) else
  let r := zg (pending W) (a, v) in
  let W1 := if 0 <? r then credit W (wd_of W a) 0 r else W in
  (with_pending (with_broken W1 (broken W1 ∪ {[(a, v)]})) (<[(a, v) := 0]> (pending W1)), SOk, r).
Definition restart (W : world) (a v : N) : world := with_broken W (broken W ∖ {[(a, v)]}).
(** the hook that runs before an existing delegation changes *)
Definition before_modified (W : world) (a v : N) : world * status :=
  if 0 <? stk W a v then let '(W1, st, _) := payout W a v in (W1, st) else (W, SOk).

Definition native_delegate (cf : cfg) (W : world) (a v : N) (amt : Z) : world * status :=
  if amt <=? 0 then (W, SErr) else
  if negb (mem v (c_vals cf)) then (W, SErr) else
  let '(W1, st) := before_modified W a v in
  match st with
  | SOk => if bal W1 a 0 <? amt then (W1, SErr)            (* the hook's payout is not undone *)
           else (restart (set_stake (credit W1 a 0 (- amt)) a v (stk W1 a v + amt)) a v, SOk)
  | _ => (W1, st)
  end.

Definition native_undelegate (cf : cfg) (W : world) (a v : N) (amt : Z) : world * status :=
  if amt <=? 0 then (W, SErr) else
  if negb (mem v (c_vals cf)) then (W, SErr) else
  if (stk W a v <? amt) || (stk W a v =? 0) then (W, SErr) else
  let '(W1, st, _) := payout W a v in
  match st with
  | SOk => let W2 := set_stake W1 a v (stk W1 a v - amt) in
           (restart (with_unbond1 W2 (<[(a, v) := zg (unbond1 W2) (a, v) + amt]> (unbond1 W2))) a v, SOk)
  | _ => (W1, st)
  end.

Definition has_receiving (W : world) (a v : N) : bool :=
  existsb (fun '(a', _, dst) => N.eqb a a' && N.eqb v dst) (redels W).
Definition count_redels (W : world) (a s d : N) : nat :=
  length (filter (fun '(a', s', d') => N.eqb a a' && N.eqb s s' && N.eqb d d') (redels W)).

Definition native_redelegate (cf : cfg) (W : world) (a src dst : N) (amt : Z) : world * status :=
  if amt <=? 0 then (W, SErr) else
  if negb (mem src (c_vals cf)) || negb (mem dst (c_vals cf)) then (W, SErr) else
  if (stk W a src <? amt) || (stk W a src =? 0) then (W, SErr) else
  if N.eqb src dst then (W, SErr) else
  if has_receiving W a src then (W, SErr) else
  if Nat.leb 7 (count_redels W a src dst) then (W, SErr) else
  let '(W1, st, _) := payout W a src in
  match st with
  | SOk =>
      let W2 := restart (set_stake W1 a src (stk W1 a src - amt)) a src in
      let '(W3, st3) := before_modified W2 a dst in
      match st3 with
      | SOk => (with_redels (restart (set_stake W3 a dst (stk W3 a dst + amt)) a dst) ((a, src, dst) :: redels W3), SOk)
      | _ => (W3, st3)
      end
  | _ => (W1, st)
  end.

Definition native_cancel (cf : cfg) (W : world) (a v : N) (amt : Z) : world * status :=
  if amt <=? 0 then (W, SErr) else
  if negb (mem v (c_vals cf)) then (W, SErr) else
  if (zg (unbond0 W) (a, v) =? 0) || (zg (unbond0 W) (a, v) <? amt) then (W, SErr) else
  if c_ubt cf <? now W then (W, SErr) else                  (* the entry's completion time is before the block time *)
  let '(W1, st) := before_modified W a v in
  match st with
  | SOk => let W2 := restart (set_stake W1 a v (stk W1 a v + amt)) a v in
           (with_unbond0 W2 (<[(a, v) := zg (unbond0 W2) (a, v) - amt]> (unbond0 W2)), SOk)
  | _ => (W1, st)
  end.

Definition native_withdraw (cf : cfg) (W : world) (a v : N) : world * status * Z :=
  if negb (mem v (c_vals cf)) then (W, SErr, 0) else
  if stk W a v =? 0 then (W, SErr, 0) else
  let '(W1, st, r) := payout W a v in
  match st with SOk => (restart W1 a v, SOk, r) | _ => (W1, st, 0) end.

Fixpoint native_claim (cf : cfg) (W : world) (a : N) (vs : list N) : world * status :=
  match vs with
  | [] => (W, SOk)
  | v :: r => if stk W a v =? 0 then native_claim cf W a r else
              let '(W1, st, _) := native_withdraw cf W a v in
              match st with SOk => native_claim cf W1 a r | _ => (W1, st) end
  end.

Definition native_setwithdraw (W : world) (a to : N) : world * status :=
  if blocked_addr to then (W, SErr) else (with_wd W (<[a := to]> (wd W)), SOk).

Definition native_transfer (W : world) (a ch d : N) (amt : Z) : world * status :=
  if amt <=? 0 then (W, SErr) else
  if negb (chan_exists ch) then (W, SErr) else
  if bal W a d <? amt then (W, SErr) else
  (credit (credit W a d (- amt)) (escrow_of ch) d amt, SOk).

(** * the precompile methods *)
Inductive call :=
| CDelegate (who val : N) (amt : Z)
| CUndelegate (who val : N) (amt : Z)
| CRedelegate (who src dst : N) (amt : Z)
| CCancel (who val : N) (amt : Z)
| CApprove (grantee : N) (amt : option Z) (tys : list (option mtype))
| CIncrease (grantee : N) (amt : option Z) (tys : list (option mtype))
| CDecrease (grantee : N) (amt : option Z) (tys : list (option mtype))
| CRevoke (grantee : N) (tys : list (option mtype))
| CSetWithdraw (who to : N)
| CWithdraw (who val : N)
| CClaim (who : N)
| CIcsTransfer (who ch d : N) (amt : Z) (recv : N)
| CIcsApprove (grantee : N) (allocs : list alloc)
| CIcsRevoke (grantee : N)
| CIcsIncrease (grantee ch d : N) (amt : Z)
| CIcsDecrease (grantee ch d : N) (amt : Z).

Definition method_of (cl : call) : method :=
  match cl with
  | CDelegate _ _ _ => SDelegate | CUndelegate _ _ _ => SUndelegate | CRedelegate _ _ _ _ => SRedelegate
  | CCancel _ _ _ => SCancelUnbonding
  | CApprove _ _ _ => SApprove | CIncrease _ _ _ => SIncreaseAllowance | CDecrease _ _ _ => SDecreaseAllowance
  | CRevoke _ _ => SRevoke
  | CSetWithdraw _ _ => DSetWithdrawAddress | CWithdraw _ _ => DWithdrawDelegatorRewards | CClaim _ => DClaimRewards
  | CIcsTransfer _ _ _ _ _ => ITransfer | CIcsApprove _ _ => IApprove | CIcsRevoke _ => IRevoke
  | CIcsIncrease _ _ _ _ => IIncreaseAllowance | CIcsDecrease _ _ _ _ => IDecreaseAllowance
  end.
Definition named_of (cl : call) : N :=
  match cl with
  | CDelegate w _ _ | CUndelegate w _ _ | CRedelegate w _ _ _ | CCancel w _ _ => w
  | CApprove g _ _ | CIncrease g _ _ | CDecrease g _ _ | CRevoke g _ => g
  | CSetWithdraw w _ | CWithdraw w _ | CClaim w => w
  | CIcsTransfer w _ _ _ _ => w
  | CIcsApprove g _ | CIcsRevoke g | CIcsIncrease g _ _ _ | CIcsDecrease g _ _ _ => g
  end.

(** a staking spend: [run] is the Cosmos message on behalf of the named delegator *)
Definition spend_stake (impl : bool) (W : world) (o c : N) (ty : mtype) (val : N) (amt : Z)
           (run : world -> world * status) : world * status :=
  if N.eqb c o then run W else
  match stake_spend_update (now W) (grants W) (o, c, ty) val amt with
  | None => (W, SErr)
  | Some upd =>
      if impl then
        let '(W1, st) := run W in
        match st with
        | SOk => match upd with Some G1 => (with_grants W1 G1, SOk) | None => (W1, SErr) end
        | _ => (W1, st)
        end
      else
        match upd with
        | None => (W, SErr)
        | Some G1 => let '(W1, st) := run W in
                     match st with SOk => (with_grants W1 G1, SOk) | _ => (W1, st) end
        end
  end.

Definition spend_transfer (impl : bool) (W : world) (o c : N) (ch d : N) (amt : Z) (recv : N)
           (run : world -> world * status) : world * status :=
  if N.eqb c o then run W else
  match transfer_spend_update (now W) (grants W) (o, c, MTransfer) ch d amt recv with
  | None => (W, SErr)
  | Some upd =>
      if impl then
        let '(W1, st) := run W in
        match st with
        | SOk => match upd with Some G1 => (with_grants W1 G1, SOk) | None => (W1, SErr) end
        | _ => (W1, st)
        end
      else
        match upd with
        | None => (W, SErr)
        | Some G1 => let '(W1, st) := run W in
                     match st with SOk => (with_grants W1 G1, SOk) | _ => (W1, st) end
        end
  end.

Definition on_grants (W : world) (r : gstore * status) : world * status * Z :=
  let '(G1, st) := r in (with_grants W G1, st, 0).

(** one precompile call by [c] in a transaction signed by [o]; the third
    component is the amount the precompile adds to the caller's cached balance *)
Definition step (cf : cfg) (impl : bool) (W : world) (o c : N) (cl : call) : world * status * Z :=
  if negb (accepts_identity (method_of cl) o c (named_of cl)) then (W, SErr, 0) else
  match cl with
  | CDelegate who v amt =>
      let '(W1, st) := spend_stake impl W o c MDelegate v amt (fun W => native_delegate cf W who v amt) in
      (W1, st, match st with SOk => if N.eqb who c then - amt else 0 | _ => 0 end)
  | CUndelegate who v amt =>
      let '(W1, st) := spend_stake impl W o c MUndelegate v amt (fun W => native_undelegate cf W who v amt) in
      (W1, st, 0)
  | CRedelegate who src dst amt =>
      let '(W1, st) := spend_stake impl W o c MRedelegate dst amt (fun W => native_redelegate cf W who src dst amt) in
      (W1, st, 0)
  | CCancel who v amt =>
      let '(W1, st) := spend_stake impl W o c MCancel v amt (fun W => native_cancel cf W who v amt) in
      (W1, st, 0)
  | CApprove g amt tys => on_grants W (stake_approve (now W) (c_vals cf) (grants W) o g amt tys)
  | CIncrease g amt tys => on_grants W (stake_increase (now W) (grants W) o g amt tys)
  | CDecrease g amt tys => on_grants W (stake_decrease (now W) (grants W) o g amt tys)
  | CRevoke g tys => on_grants W (stake_revoke (grants W) o g tys)
  | CSetWithdraw who to => let '(W1, st) := native_setwithdraw W who to in (W1, st, 0)
  | CWithdraw who v =>
      let '(W1, st, r) := native_withdraw cf W who v in
      (W1, st, match st with SOk => if N.eqb who c then r else 0 | _ => 0 end)
  | CClaim who => let '(W1, st) := native_claim cf W who (c_vals cf) in (W1, st, 0)
  | CIcsTransfer who ch d amt recv =>
      if negb (chan_exists ch) || (amt <=? 0) then (W, SErr, 0) else
      let '(W1, st) := spend_transfer impl W o c ch d amt recv (fun W => native_transfer W who ch d amt) in
      (W1, st, match st with SOk => if N.eqb who c && N.eqb d 0 then - amt else 0 | _ => 0 end)
  | CIcsApprove g allocs => on_grants W (ics_approve (now W) chan_exists (grants W) (o, g, MTransfer) allocs)
  | CIcsRevoke g => on_grants W (ics_revoke (now W) (grants W) (o, g, MTransfer))
  | CIcsIncrease g ch d amt => on_grants W (ics_change true (now W) (grants W) (o, g, MTransfer) ch d amt)
  | CIcsDecrease g ch d amt => on_grants W (ics_change false (now W) (grants W) (o, g, MTransfer) ch d amt)
  end.

(** * a transaction *)
Record txst := mktx { tw : world; tcc : Z; tdirty : bool }.
(** StateDB.Commit, restricted to the one account that can be dirty here: the caller *)
Definition flush (s : txst) (c : N) : option txst :=
  if tdirty s then
    if tcc s <? 0 then None
    else Some (mktx (with_bank (tw s) (<[(c, 0%N) := tcc s]> (bank (tw s)))) (tcc s) true)
  else Some s.

(** calls made one after the other by the caller; [catch]: the caller tolerates
    the failure of the call.  Returns the success of every call that ran. *)
Fixpoint run_calls (cf : cfg) (impl : bool) (o c : N) (calls : list (call * bool)) (s : txst)
  : txst * status * list bool :=
  match calls with
  | [] => (s, SOk, [])
  | (cl, catch) :: r =>
      match flush s c with
      | None =>                                  (* the precompile's own Commit fails *)
          if catch then let '(s2, st, l) := run_calls cf impl o c r s in (s2, st, false :: l)
          else (s, SErr, [false])
      | Some s1 =>
          let '(W1, st, m) := step cf impl (tw s1) o c cl in
          match st with
          | SOk => let '(s2, st2, l) := run_calls cf impl o c r (mktx W1 (tcc s1 + m) (tdirty s1 || negb (m =? 0))) in
                   (s2, st2, true :: l)
          | SErr => if catch then let '(s2, st2, l) := run_calls cf impl o c r (mktx W1 (tcc s1) (tdirty s1)) in
                                  (s2, st2, false :: l)
                    else (mktx W1 (tcc s1) (tdirty s1), SErr, [false])
          | SPanic => (s1, SPanic, [false])
          end
      end
  end.

(** ApplyTransaction: everything is written back only when the transaction succeeds *)
Definition run_tx (cf : cfg) (impl : bool) (W0 : world) (o c : N) (calls : list (call * bool))
  : world * bool * list bool :=
  let calls' := if N.eqb c o then map (fun '(cl, _) => (cl, false)) calls else calls in
  let '(s, st, l) := run_calls cf impl o c calls' (mktx W0 (bal W0 c 0) false) in
  let failed := (W0, false, map (fun _ => false) calls) in
  match st with
  | SOk => match flush s c with Some s1 => (tw s1, true, l) | None => failed end
  | _ => failed
  end.

(** * histories, cases and observations as the harness prints them *)
Definition actors : list N := [0; 1; 2; 3; 4]%N.

Record obs := mkobs {
  ob_ok : bool;
  ob_calls : list bool;
  ob_bal : list (list Z);           (* actors 0..4 and the escrow accounts of the two channels, two denominations *)
  ob_deleg : list (list Z);         (* actors 0..4 x validators *)
  ob_unbond : list (list (Z * Z));
  ob_reward : list (list Z);        (* -1: the delegation's starting record is missing *)
  ob_wd : list Z;
  ob_grants : list (N * N * mtype * grant)
}.
Global Instance obs_eq_dec : EqDecision obs.
Proof. solve_decision. Defined.

Definition obs_grants (W : world) : list (N * N * mtype * grant) :=
  flat_map (fun gr => flat_map (fun ge => flat_map (fun t =>
     match grants W !! (gr, ge, t) with Some g => [(gr, ge, t, g)] | None => [] end) all_mtypes) actors) actors.

Definition observe (cf : cfg) (W : world) (ok : bool) (cs : list bool) : obs :=
  let vs := seq 0 (length (c_vals cf)) in
  mkobs ok cs
    (map (fun a => [bal W a 0; bal W a 1]) (actors ++ [ESCROW; ESCROW1]))
    (map (fun a => map (fun v => stk W a (N.of_nat v)) vs) actors)
    (map (fun a => map (fun v => (zg (unbond0 W) (a, N.of_nat v), zg (unbond1 W) (a, N.of_nat v))) vs) actors)
    (map (fun a => map (fun v => if bool_decide ((a, N.of_nat v) ∈ broken W) && (0 <? stk W a (N.of_nat v)) then -1
                                 else zg (pending W) (a, N.of_nat v)) vs) actors)
    (map (fun a => Z.of_N (wd_of W a)) actors)
    (obs_grants W).

Record hcase := mkhcase {
  h_vals : list N; h_ubt : Z;
  h_bal : list (list Z); h_deleg : list (list Z); h_unbond : list (list Z); h_reward : list (list Z);
  h_wd : list N; h_grants : list (N * N * mtype * grant);
  h_txs : list (Z * N * list (call * bool))          (* seconds since the previous transaction, caller, calls *)
}.

Fixpoint grid_from (a : N) (rows : list (list Z)) : gmap (N * N) Z :=
  match rows with
  | [] => ∅
  | row :: r =>
      (fix cols (v : N) (xs : list Z) (m : gmap (N * N) Z) : gmap (N * N) Z :=
         match xs with [] => m | x :: xr => cols (N.succ v) xr (<[(a, v) := x]> m) end) 0%N row (grid_from (N.succ a) r)
  end.
Fixpoint wd_from (a : N) (l : list N) : gmap N N :=
  match l with [] => ∅ | x :: r => <[a := x]> (wd_from (N.succ a) r) end.

Definition world_of (c : hcase) : world :=
  mkw (grid_from 0 (h_bal c)) (grid_from 0 (h_deleg c)) (grid_from 0 (h_unbond c)) ∅ (grid_from 0 (h_reward c)) ∅ []
      (wd_from 0 (h_wd c)) (list_to_map (map (fun '(gr, ge, t, g) => ((gr, ge, t), g)) (h_grants c))) 0.

Fixpoint run_history (cf : cfg) (impl : bool) (W : world) (txs : list (Z * N * list (call * bool))) : list obs :=
  match txs with
  | [] => []
  | (dt, c, calls) :: r =>
      let W1 := with_now W (now W + dt) in
      let '(W2, ok, cs) := run_tx cf impl W1 0%N c calls in
      observe cf W2 ok cs :: run_history cf impl W2 r
  end.

Definition check_case (x : hcase * list obs) : bool :=
  let '(c, os) := x in
  bool_decide (run_history (mkcfg (h_vals c) (h_ubt c)) true (world_of c) (h_txs c) = os).

Fixpoint mismatches_from (i : nat) (cs : list (hcase * list obs)) : list nat :=
  match cs with
  | [] => []
  | c :: r => if check_case c then mismatches_from (S i) r else i :: mismatches_from (S i) r
  end.
Definition mismatches cs := mismatches_from 0 cs.
