(** Property C04, part 1: the identity decision of every state-changing method of
    the staking, distribution, ICS-20 and ERC-20 precompiles of /repo/precompiles.

    [o] is the transaction signer (evm.Origin), [c] the immediate caller of the
    precompile (contract.CallerAddress), [named] the account argument of the
    method: the delegator / validator operator / sender / "from" for the methods
    that move assets, the grantee (spender) for the authorization methods.

    Definitions only; transcribed from
      staking/tx.go  distribution/tx.go  ics20/tx.go  staking/approve.go
      ics20/approve.go  erc20/tx.go  erc20/approve.go. *)
From Coq Require Import NArith Bool.

Inductive method :=
(* staking/tx.go *)
| SDelegate | SUndelegate | SRedelegate | SCancelUnbonding | SCreateValidator
(* staking/approve.go *)
| SApprove | SRevoke | SIncreaseAllowance | SDecreaseAllowance
(* distribution/tx.go *)
| DSetWithdrawAddress | DWithdrawDelegatorRewards | DWithdrawValidatorCommission | DClaimRewards
(* ics20/tx.go, ics20/approve.go *)
| ITransfer | IApprove | IRevoke | IIncreaseAllowance | IDecreaseAllowance
(* erc20/tx.go, erc20/approve.go *)
| ETransfer | ETransferFrom | EApprove | EIncreaseAllowance | EDecreaseAllowance.

Definition all_methods : list method :=
  (SDelegate :: SUndelegate :: SRedelegate :: SCancelUnbonding :: SCreateValidator ::
   SApprove :: SRevoke :: SIncreaseAllowance :: SDecreaseAllowance ::
   DSetWithdrawAddress :: DWithdrawDelegatorRewards :: DWithdrawValidatorCommission :: DClaimRewards ::
   ITransfer :: IApprove :: IRevoke :: IIncreaseAllowance :: IDecreaseAllowance ::
   ETransfer :: ETransferFrom :: EApprove :: EIncreaseAllowance :: EDecreaseAllowance :: nil)%list.

(** staking and ICS-20 operations that spend the signer's grant to the caller *)
Definition is_stake_spend (m : method) : bool :=
  match m with SDelegate | SUndelegate | SRedelegate | SCancelUnbonding => true | _ => false end.
Definition is_ics_spend (m : method) : bool := match m with ITransfer => true | _ => false end.
Definition is_distribution (m : method) : bool :=
  match m with DSetWithdrawAddress | DWithdrawDelegatorRewards | DWithdrawValidatorCommission | DClaimRewards => true
  | _ => false end.
(** authorization methods whose granter is the transaction signer (staking, ICS-20) ... *)
Definition is_origin_authz (m : method) : bool :=
  match m with SApprove | SRevoke | SIncreaseAllowance | SDecreaseAllowance
             | IApprove | IRevoke | IIncreaseAllowance | IDecreaseAllowance => true | _ => false end.
(** ... and those whose granter is the immediate caller (ERC-20) *)
Definition is_caller_authz (m : method) : bool :=
  match m with EApprove | EIncreaseAllowance | EDecreaseAllowance => true | _ => false end.
Definition is_erc20 (m : method) : bool :=
  match m with ETransfer | ETransferFrom | EApprove | EIncreaseAllowance | EDecreaseAllowance => true | _ => false end.

(** The check made before anything else happens.
    staking spends:   isCallerDelegator (then delegatorHexAddr := origin) or origin = delegator
    createValidator:  origin = delegator and caller = origin (no authorization covers MsgCreateValidator: only the signer itself)
    distribution:     caller = delegator/validator or origin = delegator/validator
    ICS-20 transfer:  caller = sender or origin = sender
    staking / ICS-20 approve family: no account is named but the grantee; the granter is evm.Origin
    ERC-20 transfer:  from := caller;  transferFrom: any [from] (gated by the allowance only)
    ERC-20 approve family: spender <> caller *)
Definition accepts_identity (m : method) (o c named : N) : bool :=
  match m with
  | SDelegate | SUndelegate | SRedelegate | SCancelUnbonding => N.eqb c named || N.eqb o named
  | SCreateValidator => N.eqb o named && N.eqb c o
  | DSetWithdrawAddress | DWithdrawDelegatorRewards | DWithdrawValidatorCommission | DClaimRewards =>
      N.eqb c named || N.eqb o named
  | ITransfer => N.eqb c named || N.eqb o named
  | SApprove | SRevoke | SIncreaseAllowance | SDecreaseAllowance
  | IApprove | IRevoke | IIncreaseAllowance | IDecreaseAllowance => true
  | ETransfer | ETransferFrom => true
  | EApprove | EIncreaseAllowance | EDecreaseAllowance => negb (N.eqb named c)
  end.

(** Whose funds / stake / rewards / withdraw address / grants the call changes.
    For the spends the Cosmos message is built from the argument as given (the
    rewrite "delegatorHexAddr = origin" only affects which grant is looked up),
    so the assets that move are those of [named]. *)
Definition owner_of (m : method) (o c named : N) : N :=
  match m with
  | SDelegate | SUndelegate | SRedelegate | SCancelUnbonding | SCreateValidator => named
  | DSetWithdrawAddress | DWithdrawDelegatorRewards | DWithdrawValidatorCommission | DClaimRewards => named
  | ITransfer => named
  | SApprove | SRevoke | SIncreaseAllowance | SDecreaseAllowance
  | IApprove | IRevoke | IIncreaseAllowance | IDecreaseAllowance => o
  | ETransfer => c
  | ETransferFrom => named
  | EApprove | EIncreaseAllowance | EDecreaseAllowance => c
  end.

(** Is an authz grant consulted (and spent) by the call? *)
Definition needs_grant (m : method) (o c named : N) : bool :=
  match m with
  | SDelegate | SUndelegate | SRedelegate | SCancelUnbonding => negb (N.eqb c o)
  | ITransfer => negb (N.eqb c o)
  | ETransferFrom => negb (N.eqb c named)
  | _ => false
  end.

(** (granter, grantee) of the grant that is consulted, resp. written by the
    authorization methods ([named] is the grantee there). *)
Definition grant_parties (m : method) (o c named : N) : N * N :=
  match m with
  | SDelegate | SUndelegate | SRedelegate | SCancelUnbonding | ITransfer => (o, c)
  | ETransferFrom | ETransfer => (named, c)
  | SApprove | SRevoke | SIncreaseAllowance | SDecreaseAllowance
  | IApprove | IRevoke | IIncreaseAllowance | IDecreaseAllowance => (o, named)
  | EApprove | EIncreaseAllowance | EDecreaseAllowance => (c, named)
  | _ => (o, c)
  end.

(** correspondence: (method, signer, caller, named, rejected by the identity check?) *)
Definition id_check (x : method * N * N * N * bool) : bool :=
  let '(m, o, c, named, rejected) := x in Bool.eqb (accepts_identity m o c named) (negb rejected).

Fixpoint id_mismatches_from (i : nat) (cs : list (method * N * N * N * bool)) : list nat :=
  match cs with
  | nil => nil
  | (x :: r)%list => if id_check x then id_mismatches_from (S i) r else (i :: id_mismatches_from (S i) r)%list
  end.
Definition id_mismatches cs := id_mismatches_from 0 cs.
