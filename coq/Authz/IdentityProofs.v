(** Property C04: facts about the identity decision (IdentityModel), for all
    methods, signers, callers and named accounts. *)
From Coq Require Import NArith Bool List.
From HV Require Import Authz.IdentityModel.

Local Ltac neq_split :=
  repeat match goal with
         | H : (_ || _)%bool = true |- _ => apply orb_true_iff in H; destruct H
         | H : (_ && _)%bool = true |- _ => apply andb_true_iff in H; destruct H
         | H : N.eqb _ _ = true |- _ => apply N.eqb_eq in H; subst
         end.

(** every accepted call of every method other than ERC-20 transferFrom changes
    assets of the signer or of the immediate caller only *)
Lemma owner_signer_or_caller :
  forall m o c named, accepts_identity m o c named = true -> m <> ETransferFrom ->
    owner_of m o c named = o \/ owner_of m o c named = c.
Proof.
  intros m o c named H Hm; destruct m; simpl in *; neq_split; auto; congruence.
Qed.

(** a third account named in a staking / distribution / ICS-20 method is refused *)
Lemma third_party_refused :
  forall m o c named, (is_stake_spend m || is_distribution m || is_ics_spend m || (match m with SCreateValidator => true | _ => false end))%bool = true ->
    named <> o -> named <> c -> accepts_identity m o c named = false.
Proof.
  intros m o c named Hm Ho Hc.
  assert (N.eqb c named = false) by (apply N.eqb_neq; congruence).
  assert (N.eqb o named = false) by (apply N.eqb_neq; congruence).
  destruct m; simpl in *; try discriminate; rewrite ?H, ?H0; reflexivity.
Qed.

(** a grant is consulted exactly when the caller is not the signer (staking, ICS-20) *)
Lemma grant_needed_iff :
  forall m o c named, (is_stake_spend m || is_ics_spend m)%bool = true ->
    (needs_grant m o c named = true <-> c <> o).
Proof.
  intros m o c named Hm.
  destruct m; simpl in *; try discriminate;
    (split; [intros H; apply negb_true_iff in H; apply N.eqb_neq in H; exact H
            | intros H; apply negb_true_iff; apply N.eqb_neq; exact H]).
Qed.

(** ... and it is the grant signer -> caller *)
Lemma grant_is_signer_to_caller :
  forall m o c named, (is_stake_spend m || is_ics_spend m)%bool = true -> grant_parties m o c named = (o, c).
Proof. intros m o c named Hm; destruct m; simpl in *; try discriminate; reflexivity. Qed.

(** distribution methods never consult a grant: a contract may act on the
    signer's rewards and withdraw address with no authorization at all *)
Lemma distribution_needs_no_grant :
  forall m o c named, is_distribution m = true -> needs_grant m o c named = false.
Proof. intros m o c named Hm; destruct m; simpl in *; try discriminate; reflexivity. Qed.

(** staking / ICS-20 approve, revoke, increase, decrease: the granter is the
    signer whoever the caller is *)
Lemma authz_granter_is_signer :
  forall m o c g, is_origin_authz m = true ->
    accepts_identity m o c g = true /\ owner_of m o c g = o /\ grant_parties m o c g = (o, g).
Proof. intros m o c g Hm; destruct m; simpl in *; try discriminate; auto. Qed.

(** ERC-20: the caller's own tokens and grants, except transferFrom, whose owner
    is whoever granted the caller an allowance *)
Lemma erc20_owner :
  forall m o c named, is_erc20 m = true -> accepts_identity m o c named = true ->
    (m <> ETransferFrom -> owner_of m o c named = c) /\
    (m = ETransferFrom -> owner_of m o c named = named /\
                          (named <> c -> needs_grant m o c named = true /\ grant_parties m o c named = (named, c))).
Proof.
  intros m o c named Hm Ha; destruct m; simpl in *; try discriminate;
    (split; [intros; try reflexivity; congruence | intros E; try discriminate E]).
  split; [reflexivity|]. intros Hn. split; [|reflexivity].
  apply negb_true_iff, N.eqb_neq; congruence.
Qed.

(** createValidator moves the signer's coins into a self-delegation and no grant can cover it:
    it is accepted only when the signer calls the precompile itself *)
Lemma create_validator_only_by_signer :
  forall o c named, accepts_identity SCreateValidator o c named = true -> c = o /\ named = o.
Proof.
  intros o c named H. simpl in H. apply andb_true_iff in H as [H1 H2].
  apply N.eqb_eq in H1, H2. subst. auto.
Qed.

(** the second sentence of the property at full strength, over every method that spends the named account's
    funds or stake (the four staking spends, createValidator, the ICS-20 transfer): an accepted call by a
    caller that is not the signer, naming the signer, consults a grant signer -> caller *)
Definition spends_named (m : method) : bool :=
  (is_stake_spend m || is_ics_spend m || match m with SCreateValidator => true | _ => false end)%bool.
Lemma contract_spends_signer_funds_only_with_grant :
  forall m o c named, spends_named m = true -> accepts_identity m o c named = true -> c <> o ->
    needs_grant m o c named = true /\ grant_parties m o c named = (o, c).
Proof.
  intros m o c named Hm Ha Hc.
  assert (Hn : N.eqb c o = false) by (apply N.eqb_neq; exact Hc).
  destruct m; simpl in *; try discriminate; rewrite ?Hn in *; simpl in *; auto.
  rewrite andb_false_r in Ha. discriminate.
Qed.

(** non-vacuity: each decision is taken both ways *)
Example accepts_ex : accepts_identity SDelegate 0 2 2 = true /\ accepts_identity SDelegate 0 2 0 = true /\
                     accepts_identity SDelegate 0 2 1 = false /\ accepts_identity SCreateValidator 0 2 2 = false /\
                     accepts_identity SCreateValidator 0 2 0 = false /\ accepts_identity SCreateValidator 0 0 0 = true /\
                     needs_grant SDelegate 0 2 2 = true /\ needs_grant SDelegate 0 0 0 = false /\
                     needs_grant DSetWithdrawAddress 0 2 0 = false.
Proof. repeat split. Qed.

Lemma grant_needed_iff_and_parties :
  forall m o c named, (is_stake_spend m || is_ics_spend m)%bool = true ->
    (needs_grant m o c named = true <-> c <> o) /\ grant_parties m o c named = (o, c).
Proof. intros m o c named H. exact (conj (grant_needed_iff m o c named H) (grant_is_signer_to_caller m o c named H)). Qed.
