(** Property C04: the running allowance of an ICS-20 grant with several allocations,
    per (channel, denomination), over all histories (lemmas for Props/C04.v).

    - an approve stores exactly the allocations it was given (channel by channel,
      denomination by denomination; nothing is shared between allocations);
    - for the corrected order, over every sequence of approve (any number of
      allocations) / increase / decrease / revoke / native grant / spend / time:
      for every channel and denomination, a limited allowance holds exactly
      granted - spent, hence what was spent never exceeds what was granted;
    - the code's order runs identically outside the grant-expires-in-this-block
      shape of K10. *)
From Coq Require Import ZArith List Lia.
From stdpp Require Import gmap.
From HV Require Import Authz.AllowanceModel Authz.AllowanceProofs.
Import ListNotations.
Local Open Scope Z_scope.

(** * well-formed allocation lists (TransferAuthorization.ValidateBasic) *)
Definition wf_allocs (al : list alloc) : Prop :=
  nodup_chans [] al = true /\ Forall (fun a => sorted_pos None (a_limits a) = true) al.

Lemma nodup_chans_map l1 : forall l2 seen, map a_chan l1 = map a_chan l2 -> nodup_chans seen l1 = nodup_chans seen l2.
Proof.
  induction l1 as [|a r IH]; intros [|b r2] seen H; simpl in *; try discriminate; [reflexivity|].
  inversion H. rewrite H1. f_equal. apply IH. assumption.
Qed.

Lemma nodup_chans_weaken l : forall s1 s2, (forall x, mem x s1 = true -> mem x s2 = true) ->
  nodup_chans s2 l = true -> nodup_chans s1 l = true.
Proof.
  induction l as [|a r IH]; intros s1 s2 Hs H; simpl in *; [reflexivity|].
  apply andb_true_iff in H as [H1 H2]. apply andb_true_iff. split.
  - apply negb_true_iff. apply negb_true_iff in H1. destruct (mem (a_chan a) s1) eqn:E; [|reflexivity].
    apply Hs in E. congruence.
  - apply (IH _ (a_chan a :: s2)); [|exact H2]. intros x. unfold mem. simpl.
    intros Hx. apply orb_true_iff in Hx as [Hx|Hx]; apply orb_true_iff; [left; exact Hx|right; apply Hs; exact Hx].
Qed.

Lemma nodup_chans_remove r1 : forall seen a r2, nodup_chans seen (r1 ++ a :: r2) = true -> nodup_chans seen (r1 ++ r2) = true.
Proof.
  induction r1 as [|x r IH]; intros seen a r2 H; simpl in *.
  - apply andb_true_iff in H as [_ H]. apply (nodup_chans_weaken r2 seen (a_chan a :: seen)); [|exact H].
    intros y Hy. unfold mem. simpl. apply orb_true_iff. right. exact Hy.
  - apply andb_true_iff in H as [H1 H2]. apply andb_true_iff. split; [exact H1|]. eapply IH. exact H2.
Qed.

Lemma sorted_pos_tail prev d0 y r : sorted_pos prev ((d0, y) :: r) = true -> sorted_pos prev r = true.
Proof.
  simpl. intros H. apply andb_true_iff in H as [H1 H2]. apply andb_true_iff in H1 as [_ Hp].
  destruct r as [|[d1 z] r']; [reflexivity|]. simpl in *.
  apply andb_true_iff in H2 as [H2 H3]. apply andb_true_iff in H2 as [Hz Hlt].
  rewrite Hz, H3. simpl. rewrite andb_true_r.
  destruct prev as [p|]; [|reflexivity]. apply N.ltb_lt in Hp, Hlt. apply N.ltb_lt. lia.
Qed.

Lemma sorted_pos_coins_set d x cs : forall prev, sorted_pos prev cs = true -> sorted_pos prev (coins_set d x cs) = true.
Proof.
  induction cs as [|[d0 y] r IH]; intros prev H; simpl; [reflexivity|].
  destruct (N.eqb d d0) eqn:E.
  - destruct (x <=? 0) eqn:Ex.
    + eapply sorted_pos_tail. exact H.
    + apply Z.leb_gt in Ex. simpl in *. apply andb_true_iff in H as [H1 H2]. apply andb_true_iff in H1 as [_ Hp].
      rewrite Hp, H2. assert (0 <? x = true) as -> by (apply Z.ltb_lt; lia). reflexivity.
  - simpl in *. apply andb_true_iff in H as [H1 H2]. rewrite H1. simpl. apply IH. exact H2.
Qed.

Lemma sorted_amount_pos cs : forall prev d, sorted_pos prev cs = true -> has_denom d cs = true -> 0 < amount_of d cs.
Proof.
  induction cs as [|[d0 y] r IH]; intros prev d H Hh; simpl in *; [discriminate|].
  apply andb_true_iff in H as [H1 H2]. apply andb_true_iff in H1 as [Hy _]. apply Z.ltb_lt in Hy.
  destruct (N.eqb d d0); [exact Hy|]. simpl in Hh. eapply IH; eauto.
Qed.

Lemma sorted_amount_nonneg cs : forall prev d, sorted_pos prev cs = true -> 0 <= amount_of d cs.
Proof.
  induction cs as [|[d0 y] r IH]; intros prev d H; simpl in *; [lia|].
  apply andb_true_iff in H as [H1 H2]. apply andb_true_iff in H1 as [Hy _]. apply Z.ltb_lt in Hy.
  destruct (N.eqb d d0); [lia|]. eapply IH; eauto.
Qed.

Lemma coins_set_nil_others d x cs d' : coins_set d x cs = [] -> d' <> d -> amount_of d' cs = 0.
Proof.
  intros H Hne. rewrite <- (amount_of_coins_set_other d d' x cs Hne). rewrite H. reflexivity.
Qed.

(** the amount a coin list holds for [d] after its entry was set to [x >= 0] *)
Lemma amount_of_coins_set d x cs prev :
  sorted_pos prev cs = true -> has_denom d cs = true -> 0 <= x -> amount_of d (coins_set d x cs) = x.
Proof.
  intros Hs Hh Hx. destruct (Z.eq_dec x 0) as [->|Hne].
  - eapply coins_set_drop. exact Hs.
  - apply amount_of_coins_set_same; [exact Hh|lia].
Qed.

(** * find_alloc under the list surgery of Accept and of increase / decrease *)
Lemma find_alloc_skip ch' a r1 r2 : a_chan a <> ch' -> find_alloc (r1 ++ a :: r2) ch' = find_alloc (r1 ++ r2) ch'.
Proof.
  intros Hne. induction r1 as [|x r IH]; simpl.
  - assert (N.eqb (a_chan a) ch' = false) as -> by (apply N.eqb_neq; exact Hne). reflexivity.
  - destruct (N.eqb (a_chan x) ch'); [reflexivity|exact IH].
Qed.

Lemma find_alloc_set_limits_same al ch ls :
  find_alloc (set_limits al ch ls) ch = match find_alloc al ch with Some a => Some (mkalloc (a_chan a) ls (a_allow a)) | None => None end.
Proof.
  induction al as [|a r IH]; simpl; [reflexivity|].
  destruct (N.eqb (a_chan a) ch) eqn:E; simpl; rewrite E; [reflexivity|exact IH].
Qed.

Lemma find_alloc_set_limits_other al ch ls ch' : ch' <> ch -> find_alloc (set_limits al ch ls) ch' = find_alloc al ch'.
Proof.
  intros Hne. induction al as [|a r IH]; simpl; [reflexivity|].
  destruct (N.eqb (a_chan a) ch) eqn:E; simpl.
  - apply N.eqb_eq in E. assert (N.eqb (a_chan a) ch' = false) as -> by (apply N.eqb_neq; congruence). reflexivity.
  - destruct (N.eqb (a_chan a) ch'); [reflexivity|exact IH].
Qed.

Lemma map_chan_set_limits al ch ls : map a_chan (set_limits al ch ls) = map a_chan al.
Proof.
  induction al as [|a r IH]; simpl; [reflexivity|]. destruct (N.eqb (a_chan a) ch); simpl; [reflexivity|f_equal; exact IH].
Qed.

Lemma wf_set_limits al ch ls : wf_allocs al -> sorted_pos None ls = true -> wf_allocs (set_limits al ch ls).
Proof.
  intros [Hn Hs] Hl. split.
  - rewrite (nodup_chans_map _ al []); [exact Hn|apply map_chan_set_limits].
  - induction al as [|a r IH]; simpl; [constructor|]. inversion Hs; subst.
    destruct (N.eqb (a_chan a) ch); constructor; simpl; auto.
    apply IH; [|assumption]. simpl in Hn.
    apply (nodup_chans_weaken r [] [a_chan a]); [intros x Hx; discriminate Hx|exact Hn].
Qed.

Lemma find_alloc_sorted al ch a : wf_allocs al -> find_alloc al ch = Some a -> sorted_pos None (a_limits a) = true.
Proof.
  intros [_ Hs] H. induction al as [|x r IH]; simpl in H; [discriminate|]. inversion Hs; subst.
  destruct (N.eqb (a_chan x) ch); [inversion H; subst; assumption|apply IH; assumption].
Qed.

Lemma remaining_nonneg al ch d : wf_allocs al -> 0 <= remaining_transfer al ch d.
Proof.
  intros Hw. unfold remaining_transfer. destruct (find_alloc al ch) as [a|] eqn:E; [|lia].
  eapply sorted_amount_nonneg, find_alloc_sorted; eauto.
Qed.

Lemma remaining_strip_allow al ch d : remaining_transfer (strip_allow al) ch d = remaining_transfer al ch d.
Proof.
  unfold remaining_transfer, strip_allow. induction al as [|a r IH]; simpl; [reflexivity|].
  destruct (N.eqb (a_chan a) ch); [reflexivity|exact IH].
Qed.

(** * approve stores exactly what it was given *)
Lemma valid_allocs_wf ce al : valid_allocs ce al = true -> wf_allocs al.
Proof.
  unfold valid_allocs. intros H. apply andb_true_iff in H as [H Hf]. apply andb_true_iff in H as [_ Hn].
  split; [exact Hn|]. rewrite forallb_forall in Hf. apply Coq.Lists.List.Forall_forall. intros a Ha. specialize (Hf a Ha).
  apply andb_true_iff in Hf as [Hf _]. apply andb_true_iff in Hf as [_ Hs]. exact Hs.
Qed.

Theorem ics_approve_stores_exactly now ce G k allocs G1 :
  ics_approve now ce G k allocs = (G1, SOk) ->
  G1 = <[k := mkgrant (ATransfer (strip_allow allocs)) (Some (now + YEAR))]> G /\
  wf_allocs (strip_allow allocs) /\
  Forall (fun a => ce (a_chan a) = true) allocs /\
  forall ch d, trem G1 k ch d = remaining_transfer allocs ch d.
Proof.
  unfold ics_approve. destruct (valid_allocs ce (strip_allow allocs)) eqn:Ev; [|discriminate].
  unfold save_grant. assert (now + YEAR <=? now = false) as -> by (apply Z.leb_gt; unfold YEAR; lia).
  intros H; inversion H; subst. split; [reflexivity|]. split; [eapply valid_allocs_wf; exact Ev|]. split.
  - unfold valid_allocs in Ev. apply andb_true_iff in Ev as [_ Hf]. rewrite forallb_forall in Hf.
    apply Coq.Lists.List.Forall_forall. intros a Ha. specialize (Hf (mkalloc (a_chan a) (a_limits a) [])).
    assert (In (mkalloc (a_chan a) (a_limits a) []) (strip_allow allocs)) as Hin.
    { unfold strip_allow. apply in_map_iff. exists a. auto. }
    apply Hf in Hin. apply andb_true_iff in Hin as [Hin _]. apply andb_true_iff in Hin as [Hin _]. exact Hin.
  - intros ch d. unfold trem. rewrite lookup_insert. simpl. apply remaining_strip_allow.
Qed.

Theorem ics_approve_failed_keeps now ce G k allocs G1 st : ics_approve now ce G k allocs = (G1, st) -> st <> SOk -> G1 = G.
Proof.
  unfold ics_approve. destruct (valid_allocs ce (strip_allow allocs)); [|intros H; inversion H; reflexivity].
  destruct (save_grant now G k _ _); intros H; inversion H; subst; congruence.
Qed.

(** * an accepted transfer, in terms of what remains per (channel, denomination) *)
Lemma transfer_accept_rem allocs ch d amt recv r :
  wf_allocs allocs -> 0 < amt -> transfer_accept allocs ch d amt recv = Some r ->
  let L := remaining_transfer allocs ch d in
  (L = MAXU /\ r = TKeep) \/
  (L <> MAXU /\ amt <= L /\
   exists al', (r = TUpdate al' \/ (r = TDelete /\ al' = [])) /\ wf_allocs al' /\
     remaining_transfer al' ch d = L - amt /\
     forall ch' d', (ch' <> ch \/ d' <> d) -> remaining_transfer al' ch' d' = remaining_transfer allocs ch' d').
Proof.
  intros [Hnd Hsorted] Hamt H. unfold transfer_accept in H.
  apply transfer_accept_from_spec in H as (a & rest1 & rest2 & -> & Hf & Hch & Hr & Hcase).
  assert (Hsa : sorted_pos None (a_limits a) = true).
  { apply Forall_app in Hsorted as [_ Hs2]. inversion Hs2; assumption. }
  assert (Hfa : find_alloc (rest1 ++ a :: rest2) ch = Some a) by (apply find_alloc_split; assumption).
  unfold remaining_transfer at 1 2 3. rewrite Hfa. simpl in *.
  destruct Hcase as [[HL ->]|(HL & Hle & Hempty & Hnon)]; [left; auto|right].
  split; [exact HL|]. split; [exact Hle|].
  pose proof (nodup_chans_after [] a rest1 rest2 Hnd) as Hf2. rewrite Hch in Hf2.
  apply Forall_app in Hsorted as [Hs1 Hs2]. inversion Hs2 as [|? ? Hsa' Hs3]; subst.
  destruct (coins_set d (amount_of d (a_limits a) - amt) (a_limits a)) as [|c0 cs] eqn:Ec.
  - specialize (Hempty eq_refl). exists (rest1 ++ rest2). split.
    { destruct (is_nil (rest1 ++ rest2)) eqn:En; [right|left; exact Hempty].
      split; [exact Hempty|]. destruct (rest1 ++ rest2); [reflexivity|discriminate]. }
    split. { split; [eapply nodup_chans_remove; exact Hnd|apply Forall_app; split; assumption]. }
    assert (Hzero : amount_of d (a_limits a) - amt = 0).
    { destruct (Z.eq_dec (amount_of d (a_limits a) - amt) 0) as [E|E]; [exact E|].
      exfalso. assert (Hpos : 0 < amount_of d (a_limits a) - amt) by lia.
      assert (Hh : has_denom d (a_limits a) = true) by (apply amount_of_has; lia).
      pose proof (amount_of_coins_set_same d _ (a_limits a) Hh Hpos) as Hx. rewrite Ec in Hx. simpl in Hx. lia. }
    split.
    + unfold remaining_transfer. rewrite (find_alloc_none_split (a_chan a) rest1 rest2 Hf Hf2). lia.
    + intros ch' d' Hor. unfold remaining_transfer.
      destruct (N.eq_dec ch' (a_chan a)) as [->|Hc].
      * rewrite (find_alloc_none_split (a_chan a) rest1 rest2 Hf Hf2), Hfa.
        destruct Hor as [Hx|Hd]; [congruence|]. symmetry. eapply coins_set_nil_others; eauto.
      * rewrite (find_alloc_skip ch' a rest1 rest2) by congruence. reflexivity.
  - assert (Hne : c0 :: cs <> []) by discriminate. specialize (Hnon Hne).
    set (a' := mkalloc (a_chan a) (c0 :: cs) (a_allow a)) in *.
    exists (rest1 ++ a' :: rest2). split; [left; exact Hnon|].
    assert (Hsl : sorted_pos None (c0 :: cs) = true) by (rewrite <- Ec; apply sorted_pos_coins_set; exact Hsa).
    split.
    { split.
      - rewrite (nodup_chans_map _ (rest1 ++ a :: rest2) []); [exact Hnd|]. rewrite !map_app. reflexivity.
      - apply Forall_app; split; [assumption|]. constructor; assumption. }
    assert (Hfa' : find_alloc (rest1 ++ a' :: rest2) (a_chan a) = Some a') by (apply find_alloc_split; [assumption|reflexivity]).
    split.
    + unfold remaining_transfer. rewrite Hfa'. simpl a_limits. rewrite <- Ec.
      assert (Hh : has_denom d (a_limits a) = true).
      { destruct (has_denom d (a_limits a)) eqn:E; [reflexivity|]. exfalso.
        assert (amount_of d (a_limits a) = 0).
        { clear -E. induction (a_limits a) as [|[d0 y] r IH]; simpl in *; [reflexivity|].
          destruct (N.eqb d d0); [discriminate|]. apply IH. exact E. }
        lia. }
      eapply amount_of_coins_set; eauto. lia.
    + intros ch' d' Hor. unfold remaining_transfer.
      destruct (N.eq_dec ch' (a_chan a)) as [->|Hc].
      * rewrite Hfa', Hfa. simpl a_limits. destruct Hor as [Hx|Hd]; [congruence|].
        rewrite <- Ec. apply amount_of_coins_set_other. exact Hd.
      * rewrite (find_alloc_skip ch' a' rest1 rest2) by (simpl; congruence).
        rewrite (find_alloc_skip ch' a rest1 rest2) by congruence. reflexivity.
Qed.

(** * increase / decrease of one (channel, denomination) *)
Lemma ics_change_cases inc now G k ch d amt G1 st :
  ics_change inc now G k ch d amt = (G1, st) ->
  (st <> SOk /\ G1 = G) \/
  (st = SOk /\ exists allocs exp a,
      G !! k = Some (mkgrant (ATransfer allocs) exp) /\ find_alloc allocs ch = Some a /\ has_denom d (a_limits a) = true /\
      let l := amount_of d (a_limits a) in
      let x := if inc then l + amt else l - amt in
      (if inc then l + amt <= MAXU else amt <= l) /\
      G1 = <[k := mkgrant (ATransfer (set_limits allocs ch (coins_set d x (a_limits a)))) exp]> G).
Proof.
  unfold ics_change. destruct (get_auth now G k) as [[au exp]|] eqn:Eg; [|intros H; inversion H; left; split; [discriminate|reflexivity]].
  apply get_auth_some in Eg as [E1 _].
  destruct au as [| allocs |]; try (intros H; inversion H; left; split; [discriminate|reflexivity]).
  destruct (find_alloc allocs ch) as [a|] eqn:Ef; [|intros H; inversion H; left; split; [discriminate|reflexivity]].
  destruct (has_denom d (a_limits a)) eqn:Eh; simpl; [|intros H; inversion H; left; split; [discriminate|reflexivity]].
  assert (Hsave : forall au2 G2, save_grant now G k au2 exp = Some G2 -> G2 = <[k := mkgrant au2 exp]> G).
  { intros au2 G2. unfold save_grant. destruct exp as [e|]; [destruct (e <=? now); [discriminate|]|]; intros H; inversion H; reflexivity. }
  destruct inc.
  - destruct (MAXU <? amount_of d (a_limits a) + amt) eqn:Eo; [intros H; inversion H; left; split; [discriminate|reflexivity]|].
    apply Z.ltb_ge in Eo.
    destruct (save_grant now G k _ exp) as [G2|] eqn:Es; intros H; inversion H; subst; [|left; split; [discriminate|reflexivity]].
    right. split; [reflexivity|]. exists allocs, exp, a. repeat split; auto.
  - destruct (amount_of d (a_limits a) <? amt) eqn:Eo; [intros H; inversion H; left; split; [discriminate|reflexivity]|].
    apply Z.ltb_ge in Eo.
    destruct (save_grant now G k _ exp) as [G2|] eqn:Es; intros H; inversion H; subst; [|left; split; [discriminate|reflexivity]].
    right. split; [reflexivity|]. exists allocs, exp, a. repeat split; auto.
Qed.

(** * the invariant *)
Definition wf_tgrant (g : grant) : Prop := match g_auth g with ATransfer al => wf_allocs al | _ => True end.
Definition wf_top (o : top) : Prop :=
  match o with
  | TIncrease _ _ a | TDecrease _ _ a => 0 <= a            (* uint256 arguments *)
  | TSpend _ _ amt _ ok => ok = true -> 0 < amt             (* MsgTransfer refuses a non-positive amount *)
  | TSet g => wf_tgrant g                                   (* MsgGrant.ValidateBasic *)
  | _ => True
  end.

Definition entry_ok (G : gstore) (k : gkey) (granted : option Z) (spent : Z) (ch d : N) : Prop :=
  0 <= spent /\
  match granted with
  | None => trem G k ch d = MAXU
  | Some g => trem G k ch d = g - spent /\ trem G k ch d <> MAXU
  end.

Definition tinv (k : gkey) (s : tstate) : Prop :=
  (forall al e, t_G s !! k = Some (mkgrant (ATransfer al) e) -> wf_allocs al) /\
  forall ch d, entry_ok (t_G s) k (t_granted s ch d) (t_spent s ch d) ch d.

Lemma MAXU_pos : 0 < MAXU.
Proof. unfold MAXU. lia. Qed.

Lemma tinv_init k : tinv k tinit.
Proof.
  split; [intros al e H; simpl in H; rewrite lookup_empty in H; discriminate|].
  intros ch d. unfold entry_ok, tinit, trem, nothing_granted, zero2; simpl. rewrite lookup_empty. pose proof MAXU_pos. repeat split; lia.
Qed.

Lemma norm_entry G k x ch d : trem G k ch d = x -> entry_ok G k (norm_granted x 0) 0 ch d.
Proof.
  intros H. unfold entry_ok, norm_granted. split; [lia|]. rewrite Z.sub_0_r.
  destruct (x =? MAXU) eqn:E; [apply Z.eqb_eq in E; congruence|apply Z.eqb_neq in E]. split; [lia|congruence].
Qed.

Lemma upd2_same {A} (f : N -> N -> A) ch d v : upd2 f ch d v ch d = v.
Proof. unfold upd2. rewrite !N.eqb_refl. reflexivity. Qed.
Lemma upd2_other {A} (f : N -> N -> A) ch d v ch' d' : (ch' <> ch \/ d' <> d) -> upd2 f ch d v ch' d' = f ch' d'.
Proof.
  intros H. unfold upd2. destruct (N.eqb ch ch') eqn:E1; [|reflexivity]. destruct (N.eqb d d') eqn:E2; [|reflexivity].
  apply N.eqb_eq in E1, E2. destruct H; congruence.
Qed.

Lemma trem_insert_transfer G k al e ch d : trem (<[k := mkgrant (ATransfer al) e]> G) k ch d = remaining_transfer al ch d.
Proof. unfold trem. rewrite lookup_insert. reflexivity. Qed.

Lemma transfer_spend_no_effect impl now G k ch d amt recv ok G1 st :
  transfer_spend impl now G k ch d amt recv ok = (G1, false, st) -> G1 = G.
Proof.
  unfold transfer_spend. destruct (transfer_spend_update now G k ch d amt recv) as [[G2|]|]; destruct impl, ok; intros H; inversion H; reflexivity.
Qed.

Lemma transfer_spec_effect_ok now G k ch d amt recv ok G1 st :
  transfer_spend false now G k ch d amt recv ok = (G1, true, st) -> st = SOk.
Proof.
  unfold transfer_spend. destruct (transfer_spend_update now G k ch d amt recv) as [[G2|]|]; destruct ok; intros H; inversion H; reflexivity.
Qed.

Lemma tstep_inv ce k s o : wf_top o -> tinv k s -> tinv k (tstep false ce k s o).
Proof.
  intros Hw [Hwf Hi]. destruct o as [allocs|ch d amt|ch d amt| |ch d amt recv ok|g|dt]; simpl.
  - (* approve *)
    destruct (ics_approve (t_now s) ce (t_G s) k allocs) as [G1 st] eqn:E.
    destruct st; try (split; assumption).
    apply ics_approve_stores_exactly in E as (-> & Hwa & _ & Hrem).
    split; simpl.
    + intros al e H. rewrite lookup_insert in H. inversion H; subst. exact Hwa.
    + intros ch d. unfold granted_of_allocs, zero2. apply norm_entry. apply Hrem.
  - (* increase *)
    destruct (ics_change true (t_now s) (t_G s) k ch d amt) as [G1 st] eqn:E.
    apply ics_change_cases in E as [[Hn ->]|(-> & allocs & exp & a & E1 & Ef & Eh & Hle & ->)].
    { destruct st; try congruence; split; assumption. }
    simpl in Hw. pose proof (Hwf _ _ E1) as Hwa. pose proof (find_alloc_sorted _ _ _ Hwa Ef) as Hsa.
    pose proof (sorted_amount_pos _ _ _ Hsa Eh) as Hpos.
    assert (Hold : trem (t_G s) k ch d = amount_of d (a_limits a)).
    { unfold trem. rewrite E1. simpl. unfold remaining_transfer. rewrite Ef. reflexivity. }
    set (x := amount_of d (a_limits a) + amt) in *.
    assert (Hnew : remaining_transfer (set_limits allocs ch (coins_set d x (a_limits a))) ch d = x).
    { unfold remaining_transfer. rewrite find_alloc_set_limits_same, Ef. simpl. eapply amount_of_coins_set; eauto. unfold x; lia. }
    assert (Hoth : forall ch' d', (ch' <> ch \/ d' <> d) ->
                     remaining_transfer (set_limits allocs ch (coins_set d x (a_limits a))) ch' d' = trem (t_G s) k ch' d').
    { intros ch' d' Hor. unfold trem. rewrite E1. simpl. unfold remaining_transfer.
      destruct (N.eq_dec ch' ch) as [->|Hc].
      - rewrite find_alloc_set_limits_same, Ef. simpl. destruct Hor as [?|Hd]; [congruence|]. apply amount_of_coins_set_other. exact Hd.
      - rewrite find_alloc_set_limits_other by exact Hc. reflexivity. }
    assert (Hwf' : forall al e, <[k := mkgrant (ATransfer (set_limits allocs ch (coins_set d x (a_limits a)))) exp]> (t_G s) !! k
                                = Some (mkgrant (ATransfer al) e) -> wf_allocs al).
    { intros al e H. rewrite lookup_insert in H. inversion H; subst. apply wf_set_limits; [exact Hwa|]. apply sorted_pos_coins_set. exact Hsa. }
    pose proof (Hi ch d) as [Hsp Hent].
    destruct (t_granted s ch d) as [g|] eqn:Eg.
    + destruct Hent as [Hr Hm]. split; simpl; [exact Hwf'|]. intros ch' d'.
      destruct (N.eq_dec ch' ch) as [->|Hc]; [destruct (N.eq_dec d' d) as [->|Hd]|].
      * rewrite upd2_same. unfold entry_ok. split; [exact Hsp|]. rewrite trem_insert_transfer, Hnew.
        unfold norm_granted. destruct (g + amt - t_spent s ch d =? MAXU) eqn:En.
        -- apply Z.eqb_eq in En. unfold x. lia.
        -- apply Z.eqb_neq in En. unfold x. split; lia.
      * rewrite upd2_other by (right; exact Hd). unfold entry_ok. rewrite trem_insert_transfer, Hoth by (right; exact Hd). apply Hi.
      * rewrite upd2_other by (left; exact Hc). unfold entry_ok. rewrite trem_insert_transfer, Hoth by (left; exact Hc). apply Hi.
    + assert (amt = 0) as -> by (simpl in Hle; lia). split; simpl; [exact Hwf'|]. intros ch' d'.
      destruct (N.eq_dec ch' ch) as [->|Hc]; [destruct (N.eq_dec d' d) as [->|Hd]|].
      * rewrite Eg. unfold entry_ok. split; [exact Hsp|]. rewrite trem_insert_transfer, Hnew. unfold x. lia.
      * unfold entry_ok. rewrite trem_insert_transfer, Hoth by (right; exact Hd). apply Hi.
      * unfold entry_ok. rewrite trem_insert_transfer, Hoth by (left; exact Hc). apply Hi.
  - (* decrease *)
    destruct (ics_change false (t_now s) (t_G s) k ch d amt) as [G1 st] eqn:E.
    apply ics_change_cases in E as [[Hn ->]|(-> & allocs & exp & a & E1 & Ef & Eh & Hle & ->)].
    { destruct st; try congruence; split; assumption. }
    simpl in Hw. pose proof (Hwf _ _ E1) as Hwa. pose proof (find_alloc_sorted _ _ _ Hwa Ef) as Hsa.
    assert (Hold : trem (t_G s) k ch d = amount_of d (a_limits a)).
    { unfold trem. rewrite E1. simpl. unfold remaining_transfer. rewrite Ef. reflexivity. }
    set (x := amount_of d (a_limits a) - amt) in *.
    assert (Hnew : remaining_transfer (set_limits allocs ch (coins_set d x (a_limits a))) ch d = x).
    { unfold remaining_transfer. rewrite find_alloc_set_limits_same, Ef. simpl. eapply amount_of_coins_set; eauto. unfold x; simpl in Hle; lia. }
    assert (Hoth : forall ch' d', (ch' <> ch \/ d' <> d) ->
                     remaining_transfer (set_limits allocs ch (coins_set d x (a_limits a))) ch' d' = trem (t_G s) k ch' d').
    { intros ch' d' Hor. unfold trem. rewrite E1. simpl. unfold remaining_transfer.
      destruct (N.eq_dec ch' ch) as [->|Hc].
      - rewrite find_alloc_set_limits_same, Ef. simpl. destruct Hor as [?|Hd]; [congruence|]. apply amount_of_coins_set_other. exact Hd.
      - rewrite find_alloc_set_limits_other by exact Hc. reflexivity. }
    assert (Hwf' : forall al e, <[k := mkgrant (ATransfer (set_limits allocs ch (coins_set d x (a_limits a)))) exp]> (t_G s) !! k
                                = Some (mkgrant (ATransfer al) e) -> wf_allocs al).
    { intros al e H. rewrite lookup_insert in H. inversion H; subst. apply wf_set_limits; [exact Hwa|]. apply sorted_pos_coins_set. exact Hsa. }
    pose proof (Hi ch d) as [Hsp Hent].
    destruct (t_granted s ch d) as [g|] eqn:Eg.
    + destruct Hent as [Hr Hm]. split; simpl; [exact Hwf'|]. intros ch' d'.
      destruct (N.eq_dec ch' ch) as [->|Hc]; [destruct (N.eq_dec d' d) as [->|Hd]|].
      * rewrite upd2_same. unfold entry_ok. split; [exact Hsp|]. rewrite trem_insert_transfer, Hnew.
        unfold norm_granted. destruct (g - amt - t_spent s ch d =? MAXU) eqn:En.
        -- apply Z.eqb_eq in En. unfold x. lia.
        -- apply Z.eqb_neq in En. unfold x. split; lia.
      * rewrite upd2_other by (right; exact Hd). unfold entry_ok. rewrite trem_insert_transfer, Hoth by (right; exact Hd). apply Hi.
      * rewrite upd2_other by (left; exact Hc). unfold entry_ok. rewrite trem_insert_transfer, Hoth by (left; exact Hc). apply Hi.
    + split; simpl; [exact Hwf'|]. intros ch' d'.
      destruct (N.eq_dec ch' ch) as [->|Hc]; [destruct (N.eq_dec d' d) as [->|Hd]|].
      * rewrite !upd2_same. apply norm_entry. rewrite trem_insert_transfer, Hnew. unfold x. lia.
      * rewrite !upd2_other by (right; exact Hd). unfold entry_ok. rewrite trem_insert_transfer, Hoth by (right; exact Hd). apply Hi.
      * rewrite !upd2_other by (left; exact Hc). unfold entry_ok. rewrite trem_insert_transfer, Hoth by (left; exact Hc). apply Hi.
  - (* revoke *)
    unfold ics_revoke. destruct (get_auth (t_now s) (t_G s) k) as [[au e]|] eqn:Eg; [|split; assumption].
    destruct au; try (split; assumption). apply get_auth_some in Eg as [E1 _]. unfold delete_grant. rewrite E1.
    split; simpl.
    + intros al e0 H. rewrite lookup_delete in H. discriminate.
    + intros ch d. unfold entry_ok, nothing_granted, zero2, trem. rewrite lookup_delete. pose proof MAXU_pos. repeat split; lia.
  - (* spend, corrected order *)
    destruct (transfer_spend false (t_now s) (t_G s) k ch d amt recv ok) as [[G1 eff] st] eqn:E.
    destruct eff.
    + pose proof (transfer_spec_effect_ok _ _ _ _ _ _ _ _ _ _ E) as ->.
      apply transfer_spend_ok in E as (allocs & exp & r & E1 & _ & Ea & -> & _ & E3).
      simpl in Hw. specialize (Hw eq_refl). pose proof (Hwf _ _ E1) as Hwa.
      assert (Hold : forall ch' d', trem (t_G s) k ch' d' = remaining_transfer allocs ch' d').
      { intros. unfold trem. rewrite E1. reflexivity. }
      apply (transfer_accept_rem _ _ _ _ _ _ Hwa Hw) in Ea as [[HL ->]|(HL & Hle & al' & Hr & Hwa' & Hsame & Hoth)].
      * subst G1. pose proof (Hi ch d) as [Hsp Hent]. rewrite Hold in Hent.
        destruct (t_granted s ch d) as [g|]; [destruct Hent; congruence|]. split; simpl; assumption.
      * assert (Hrem1 : forall ch' d', trem G1 k ch' d' = remaining_transfer al' ch' d').
        { intros. destruct Hr as [->|[-> ->]]; subst G1; unfold trem; [rewrite lookup_insert|rewrite lookup_delete]; reflexivity. }
        assert (Hwf1 : forall al e, G1 !! k = Some (mkgrant (ATransfer al) e) -> wf_allocs al).
        { intros al e H. destruct Hr as [->|[-> ->]]; subst G1; [rewrite lookup_insert in H; inversion H; subst; exact Hwa'|rewrite lookup_delete in H; discriminate]. }
        pose proof (Hi ch d) as [Hsp Hent]. rewrite Hold in Hent.
        destruct (t_granted s ch d) as [g|] eqn:Eg; [|congruence]. destruct Hent as [Hg _].
        split; simpl; [exact Hwf1|]. intros ch' d'.
        destruct (N.eq_dec ch' ch) as [->|Hc]; [destruct (N.eq_dec d' d) as [->|Hd]|].
        -- rewrite !upd2_same. unfold entry_ok. rewrite Hrem1, Hsame. split; [lia|]. unfold norm_granted.
           destruct (g - (t_spent s ch d + amt) =? MAXU) eqn:En; [apply Z.eqb_eq in En|apply Z.eqb_neq in En]; [lia|split; lia].
        -- rewrite !upd2_other by (right; exact Hd). unfold entry_ok. rewrite Hrem1, Hoth by (right; exact Hd). rewrite <- Hold. apply Hi.
        -- rewrite !upd2_other by (left; exact Hc). unfold entry_ok. rewrite Hrem1, Hoth by (left; exact Hc). rewrite <- Hold. apply Hi.
    + apply transfer_spend_no_effect in E as ->. split; simpl; assumption.
  - (* native grant *)
    simpl in Hw. unfold wf_tgrant in Hw. split; simpl.
    + intros al e H. rewrite lookup_insert in H. inversion H; subst. simpl in Hw. exact Hw.
    + intros ch d. destruct g as [au e]. simpl in *. destruct au as [| al |].
      * unfold entry_ok, nothing_granted, zero2, trem. rewrite lookup_insert. simpl. pose proof MAXU_pos. repeat split; lia.
      * unfold granted_of_allocs, zero2. apply norm_entry. apply trem_insert_transfer.
      * unfold entry_ok, nothing_granted, zero2, trem. rewrite lookup_insert. simpl. pose proof MAXU_pos. repeat split; lia.
  - split; simpl; assumption.
Qed.

Lemma trun_inv ce k ops : forall s, Forall wf_top ops -> tinv k s -> tinv k (trun false ce k ops s).
Proof.
  unfold trun. induction ops as [|o r IH]; intros s Hw Hi; simpl; [assumption|].
  inversion Hw; subst. apply IH; [assumption|]. apply tstep_inv; assumption.
Qed.

(** over every history, for every channel and denomination: what was spent since
    the allowance was last (re)defined never exceeds what was granted, a limited
    allowance holds exactly the difference, and an unbounded one is stored as the sentinel *)
Theorem transfer_spent_le_allowance_spec ce k ops :
  Forall wf_top ops ->
  let s := trun false ce k ops tinit in
  forall ch d,
    (forall g, t_granted s ch d = Some g -> t_spent s ch d <= g /\ trem (t_G s) k ch d = g - t_spent s ch d) /\
    (t_granted s ch d = None -> trem (t_G s) k ch d = MAXU).
Proof.
  intros Hw s ch d. pose proof (trun_inv ce k ops tinit Hw (tinv_init k)) as [Hwf Hi]. fold s in Hwf, Hi.
  pose proof (Hi ch d) as [Hsp Hent]. split.
  - intros g Hg. rewrite Hg in Hent. destruct Hent as [Hr _]. split; [|exact Hr].
    assert (0 <= trem (t_G s) k ch d).
    { unfold trem. destruct (t_G s !! k) as [[au e]|] eqn:E; [|lia]. destruct au; simpl; try lia.
      apply remaining_nonneg. eapply Hwf. reflexivity. }
    lia.
  - intros Hg. rewrite Hg in Hent. exact Hent.
Qed.

(** * the code's order: identical outside the K10 shape (accepted, cannot be re-saved) *)
Fixpoint tk10_free (ce : N -> bool) (k : gkey) (ops : list top) (s : tstate) : bool :=
  match ops with
  | [] => true
  | o :: r =>
      (match o with
       | TSpend ch d amt recv ok =>
           negb (bool_decide (transfer_spend_update (t_now s) (t_G s) k ch d amt recv = Some None))
       | _ => true
       end) && tk10_free ce k r (tstep false ce k s o)
  end.

Lemma transfer_impl_eq_spec now G k ch d amt recv ok :
  transfer_spend_update now G k ch d amt recv <> Some None ->
  transfer_spend true now G k ch d amt recv ok = transfer_spend false now G k ch d amt recv ok.
Proof.
  unfold transfer_spend. destruct (transfer_spend_update now G k ch d amt recv) as [[G1|]|]; [reflexivity|congruence|reflexivity].
Qed.

Theorem transfer_impl_history_eq_spec_outside_k10 ce k ops : forall s,
  tk10_free ce k ops s = true -> trun true ce k ops s = trun false ce k ops s.
Proof.
  unfold trun. induction ops as [|o r IH]; intros s H; simpl; [reflexivity|].
  simpl in H. apply andb_true_iff in H as [H1 H2].
  assert (tstep true ce k s o = tstep false ce k s o) as ->.
  { destruct o; simpl; try reflexivity. apply negb_true_iff, bool_decide_eq_false in H1.
    rewrite (transfer_impl_eq_spec _ _ _ _ _ _ _ _ H1). reflexivity. }
  apply IH. exact H2.
Qed.

Corollary transfer_spent_le_allowance_impl_outside_k10 ce k ops :
  Forall wf_top ops -> tk10_free ce k ops tinit = true ->
  let s := trun true ce k ops tinit in
  forall ch d g, t_granted s ch d = Some g -> t_spent s ch d <= g /\ trem (t_G s) k ch d = g - t_spent s ch d.
Proof.
  intros Hw Hk. rewrite (transfer_impl_history_eq_spec_outside_k10 _ _ _ _ Hk). intros ch d.
  apply (transfer_spent_le_allowance_spec ce k ops Hw).
Qed.

(** non-vacuity: ONE approve with two allocations (channel 0: 10 of denomination 0; channel 1: 1000 of
    denomination 0 and 50 of denomination 1).  500 over channel 0 is refused (10 were approved there,
    whatever channel 1 allows), 500 over channel 1 passes, 10 over channel 0 uses that allocation up
    (it is removed), 40 of denomination 1 over channel 1, an increase of channel 1 / denomination 0 by
    100, then 600 more: every (channel, denomination) holds granted - spent. *)
Definition two_chan (ch : N) : bool := N.eqb ch 0 || N.eqb ch 1.
Example transfer_history_ex :
  let k := (0%N, 2%N, MTransfer) in
  let ops := [TApprove [mkalloc 0%N [(0%N, 10)] []; mkalloc 1%N [(0%N, 1000); (1%N, 50)] [2%N]];
              TSpend 0%N 0%N 500 0%N true; TSpend 1%N 0%N 500 0%N true; TSpend 0%N 0%N 10 0%N true;
              TSpend 1%N 1%N 40 1%N true; TIncrease 1%N 0%N 100; TSpend 1%N 0%N 600 0%N true; TSpend 1%N 0%N 1 0%N true] in
  Forall wf_top ops /\ tk10_free two_chan k ops tinit = true /\
  let s := trun true two_chan k ops tinit in
  (t_granted s 0%N 0%N, t_spent s 0%N 0%N, trem (t_G s) k 0%N 0%N) = (Some 10, 10, 0) /\
  (t_granted s 1%N 0%N, t_spent s 1%N 0%N, trem (t_G s) k 1%N 0%N) = (Some 1100, 1100, 0) /\
  (t_granted s 1%N 1%N, t_spent s 1%N 1%N, trem (t_G s) k 1%N 1%N) = (Some 50, 40, 10) /\
  t_G s !! k = Some (mkgrant (ATransfer [mkalloc 1%N [(1%N, 10)] []]) (Some YEAR)).
Proof.
  split; [repeat constructor; simpl; intros; lia|]. split; vm_compute; auto.
Qed.

(** the stored grant of a two-allocation approve: each channel keeps ITS OWN limits *)
Example ics_approve_two_allocations_ex :
  let k := (0%N, 2%N, MTransfer) in
  let allocs := [mkalloc 0%N [(0%N, 10)] []; mkalloc 1%N [(0%N, 1000000000000000000); (1%N, 7)] []] in
  exists G1, ics_approve 0 two_chan ∅ k allocs = (G1, SOk) /\
    trem G1 k 0%N 0%N = 10 /\ trem G1 k 0%N 1%N = 0 /\ trem G1 k 1%N 0%N = 1000000000000000000 /\ trem G1 k 1%N 1%N = 7 /\
    transfer_spend false 5 G1 k 0%N 0%N 11 0%N true = (G1, false, SErr).
Proof. eexists. vm_compute. repeat split. Qed.
