(** The journal of x/evm/statedb is a correct undo log (core of property C05):
    reverting to a snapshot restores every observable of the cache. *)
From Coq Require Import ZArith List Lia.
From stdpp Require Import gmap.
From HV Require Import Evm.ExecModel.
Local Open Scope Z_scope.

(** storage read of one object: dirty, then cached origin, then the store *)
Definition rs (W : world) (a : N) (o : obj) (k : Z) : Z :=
  match dstor o !! k with
  | Some v => v
  | None => match ostor o !! k with Some c => c | None => zg (store W) (a, k) end
  end.

Definition oeq (W : world) (a : N) (x y : option obj) : Prop :=
  match x, y with
  | None, None => True
  | Some o1, Some o2 => obal o1 = obal o2 /\ tstor o1 = tstor o2 /\ osui o1 = osui o2 /\ forall k, rs W a o1 k = rs W a o2 k
  | _, _ => False
  end.

(** observational equality of two caches *)
Definition obs_eq (W : world) (D1 D2 : sdb) : Prop :=
  journal D1 = journal D2 /\ dirties D1 = dirties D2 /\ logs D1 = logs D2 /\
  forall a, oeq W a (objs D1 !! a) (objs D2 !! a).

Lemma oeq_refl W a x : oeq W a x x.
Proof. destruct x; cbn; auto. Qed.
Lemma oeq_sym W a x y : oeq W a x y -> oeq W a y x.
Proof. destruct x, y; cbn; try tauto. intros (Ha&Hb&Hs&Hc). repeat split; auto. Qed.
Lemma oeq_trans W a x y z : oeq W a x y -> oeq W a y z -> oeq W a x z.
Proof.
  destruct x, y, z; cbn; try tauto. intros (Ha&Hb&Hs&Hc) (Ha'&Hb'&Hs'&Hc').
  split; [congruence|]. split; [congruence|]. split; [congruence|]. intros k. rewrite Hc. apply Hc'.
Qed.
Lemma obs_eq_refl W D : obs_eq W D D.
Proof. repeat split; auto. intros a. apply oeq_refl. Qed.
Lemma obs_eq_sym W D1 D2 : obs_eq W D1 D2 -> obs_eq W D2 D1.
Proof. intros (Ha&Hb&Hc&Hd). repeat split; auto. intros a. apply oeq_sym, Hd. Qed.
Lemma obs_eq_trans W D1 D2 D3 : obs_eq W D1 D2 -> obs_eq W D2 D3 -> obs_eq W D1 D3.
Proof.
  intros (Ha&Hb&Hc&Hd) (Ha'&Hb'&Hc'&Hd'). repeat split; try congruence. intros a. eapply oeq_trans; eauto.
Qed.


(** * undo respects observational equality *)
Definition undo_core (D : sdb) (e : jentry) : sdb :=
  match e with
  | JBal a prev => match objs D !! a with
                   | Some o => set_obj D a (mkobj prev (dstor o) (ostor o) (tstor o) (osui o)) | None => D end
  | JStor a k prev => match objs D !! a with
                      | Some o => set_obj D a (mkobj (obal o) (<[k := prev]> (dstor o)) (ostor o) (tstor o) (osui o)) | None => D end
  | JCreate a => mksdb (delete a (objs D)) (journal D) (dirties D) (logs D)
  | JLog => mksdb (objs D) (journal D) (dirties D) (Nat.pred (logs D))
  | JSuicide a p pb => match objs D !! a with
                       | Some o => set_obj D a (mkobj pb (dstor o) (ostor o) (tstor o) p) | None => D end
  | JReset a prev => set_obj D a prev
  end.
Definition undo_dirt (D : sdb) (e : jentry) : sdb :=
  match dirtied e with
  | Some a => let c := Nat.pred (default O (dirties D !! a)) in
              mksdb (objs D) (journal D) (if Nat.eqb c 0 then delete a (dirties D) else <[a := c]> (dirties D)) (logs D)
  | None => D
  end.
Lemma undo_split D e : undo D e = undo_dirt (undo_core D e) e.
Proof. reflexivity. Qed.

Lemma undo_core_obs_eq W D1 D2 e : obs_eq W D1 D2 -> obs_eq W (undo_core D1 e) (undo_core D2 e).
Proof.
  intros (Hj & Hd & Hl & Ho). destruct e as [a0 prev|a0 k prev|a0| |a0 p pb|a0 pv]; cbn [undo_core].
  - pose proof (Ho a0) as H0. destruct (objs D1 !! a0) as [o1|] eqn:E1, (objs D2 !! a0) as [o2|] eqn:E2; cbn in H0; try tauto.
    + unfold obs_eq; cbn. split; [done|]. split; [done|]. split; [done|]. intros a. destruct (decide (a0 = a)) as [->|Hne].
      * rewrite !lookup_insert. cbn. destruct H0 as (Hb&Ht&Hs&H3). split; [done|]. split; [done|]. split; [done|]. exact H3.
      * rewrite !lookup_insert_ne by done. apply Ho.
    + by repeat split.
  - pose proof (Ho a0) as H0. destruct (objs D1 !! a0) as [o1|] eqn:E1, (objs D2 !! a0) as [o2|] eqn:E2; cbn in H0; try tauto.
    + unfold obs_eq; cbn. split; [done|]. split; [done|]. split; [done|]. intros a. destruct (decide (a0 = a)) as [->|Hne].
      * rewrite !lookup_insert. cbn. destruct H0 as (Hb&Ht&Hs&H3). split; [done|]. split; [done|]. split; [done|].
        intros k'. unfold rs; cbn. destruct (decide (k = k')) as [->|Hk].
        -- by rewrite !lookup_insert.
        -- rewrite !lookup_insert_ne by done. apply (H3 k').
      * rewrite !lookup_insert_ne by done. apply Ho.
    + by repeat split.
  - unfold obs_eq; cbn. split; [done|]. split; [done|]. split; [done|]. intros a. destruct (decide (a0 = a)) as [->|Hne].
    + by rewrite !lookup_delete.
    + rewrite !lookup_delete_ne by done. apply Ho.
  - unfold obs_eq; cbn. split; [done|]. split; [done|]. split; [congruence|]. intros a. apply Ho.
  - pose proof (Ho a0) as H0. destruct (objs D1 !! a0) as [o1|] eqn:E1, (objs D2 !! a0) as [o2|] eqn:E2; cbn in H0; try tauto.
    + unfold obs_eq; cbn. split; [done|]. split; [done|]. split; [done|]. intros a. destruct (decide (a0 = a)) as [->|Hne].
      * rewrite !lookup_insert. cbn. destruct H0 as (Hb&Ht&Hs&H3). split; [done|]. split; [done|]. split; [done|]. exact H3.
      * rewrite !lookup_insert_ne by done. apply Ho.
    + by repeat split.
  - unfold obs_eq; cbn. split; [done|]. split; [done|]. split; [done|]. intros a. destruct (decide (a0 = a)) as [->|Hne].
    + rewrite !lookup_insert. apply oeq_refl.
    + rewrite !lookup_insert_ne by done. apply Ho.
Qed.

Lemma undo_dirt_obs_eq W D1 D2 e : obs_eq W D1 D2 -> obs_eq W (undo_dirt D1 e) (undo_dirt D2 e).
Proof.
  intros (Hj & Hd & Hl & Ho). unfold undo_dirt. destruct (dirtied e) as [a|]; [|by repeat split].
  unfold obs_eq; cbn. rewrite Hd. by repeat split.
Qed.

Lemma undo_obs_eq W D1 D2 e : obs_eq W D1 D2 -> obs_eq W (undo D1 e) (undo D2 e).
Proof. intros H. rewrite !undo_split. by apply undo_dirt_obs_eq, undo_core_obs_eq. Qed.

Lemma pop_n_obs_eq W n : forall D1 D2, obs_eq W D1 D2 -> obs_eq W (pop_n D1 n) (pop_n D2 n).
Proof.
  induction n as [|n IH]; intros D1 D2 H; cbn [pop_n]; [done|].
  destruct H as (Hj & Hd & Hl & Ho). rewrite <- Hj.
  destruct (journal D1) as [|e r] eqn:E.
  - split; [congruence|]. split; [done|]. split; [done|]. exact Ho.
  - apply IH. apply undo_obs_eq. unfold obs_eq; cbn. split; [done|]. split; [done|]. split; [done|]. exact Ho.
Qed.

Lemma pop_n_nil D m : journal D = [] -> pop_n D m = D.
Proof. intros H. destruct m; cbn [pop_n]; [done|]. by rewrite H. Qed.

Lemma pop_n_add D n m : pop_n D (n + m) = pop_n (pop_n D n) m.
Proof.
  revert D. induction n as [|n IH]; intros D; cbn [pop_n Nat.add]; [done|].
  destruct (journal D) as [|e r] eqn:E; [|apply IH].
  symmetry. by apply pop_n_nil.
Qed.

(** * lengths and composition of reverts *)
Definition jlen (D : sdb) : nat := length (journal D).

Lemma journal_undo D e : journal (undo D e) = journal D.
Proof.
  rewrite undo_split. unfold undo_dirt, undo_core.
  destruct e as [a p|a k p|a| |a p pb|a pv]; cbn; try destruct (objs D !! a); reflexivity.
Qed.

Lemma pop_n_len k : forall D, (k <= jlen D)%nat -> jlen (pop_n D k) = (jlen D - k)%nat.
Proof.
  induction k as [|k IH]; intros D H; cbn [pop_n]; [lia|].
  unfold jlen in *. destruct (journal D) as [|e r] eqn:E; cbn in H; [lia|].
  rewrite IH; rewrite journal_undo; cbn; lia.
Qed.

Lemma revert_to_revert D s n : (n <= s <= jlen D)%nat -> revert_to (revert_to D s) n = revert_to D n.
Proof.
  intros H. unfold revert_to. fold (jlen D). fold (jlen (pop_n D (jlen D - s))).
  rewrite pop_n_len by lia. rewrite <- pop_n_add. f_equal. lia.
Qed.

(** * well-formedness: every existing account is loaded (so the lazy [load] is the
    identity), dirty counters are positive, only non-existing accounts were created *)
Definition wf (W : world) (D : sdb) : Prop :=
  (forall a, a ∈ wexists W -> is_Some (objs D !! a)) /\
  (forall a c, dirties D !! a = Some c -> (0 < c)%nat) /\
  (forall a, In (JCreate a) (journal D) -> a ∉ wexists W).

Lemma dirt_rt (m : gmap N nat) a : (forall c, m !! a = Some c -> (0 < c)%nat) ->
  let m1 := <[a := S (default O (m !! a))]> m in
  let c := Nat.pred (default O (m1 !! a)) in
  (if Nat.eqb c 0 then delete a m1 else <[a := c]> m1) = m.
Proof.
  intros Hpos. cbn zeta. rewrite lookup_insert.
  destruct (m !! a) as [d|] eqn:E; simpl.
  - specialize (Hpos d eq_refl). destruct d as [|d']; [lia|]. simpl.
    rewrite insert_insert. by apply insert_id.
  - by apply delete_insert.
Qed.

Lemma wf_undo W D e r : wf W D -> journal D = e :: r ->
  wf W (undo (mksdb (objs D) r (dirties D) (logs D)) e).
Proof.
  intros (Hs & Hp & Hc) Hj. rewrite undo_split.
  assert (Hc' : forall a, In (JCreate a) r -> a ∉ wexists W).
  { intros a Hin. apply Hc. rewrite Hj. by right. }
  split; [|split].
  - intros a Ha. destruct (Hs a Ha) as [o Ho].
    unfold undo_dirt, undo_core. destruct e as [a0 p|a0 k p|a0| |a0 p pb|a0 pv]; cbn.
    + destruct (objs D !! a0) eqn:E; cbn; [|rewrite Ho; eauto].
      destruct (decide (a0 = a)) as [->|]; [rewrite lookup_insert; eauto|rewrite lookup_insert_ne by done; rewrite Ho; eauto].
    + destruct (objs D !! a0) eqn:E; cbn; [|rewrite Ho; eauto].
      destruct (decide (a0 = a)) as [->|]; [rewrite lookup_insert; eauto|rewrite lookup_insert_ne by done; rewrite Ho; eauto].
    + assert (a0 <> a). { intros ->. eapply Hc; [|exact Ha]. rewrite Hj. by left. }
      rewrite lookup_delete_ne by done. rewrite Ho; eauto.
    + rewrite Ho; eauto.
    + destruct (objs D !! a0) eqn:E; cbn; [|rewrite Ho; eauto].
      destruct (decide (a0 = a)) as [->|]; [rewrite lookup_insert; eauto|rewrite lookup_insert_ne by done; rewrite Ho; eauto].
    + destruct (decide (a0 = a)) as [->|]; [rewrite lookup_insert; eauto|rewrite lookup_insert_ne by done; rewrite Ho; eauto].
  - intros a c. unfold undo_dirt.
    assert (Hd : dirties (undo_core (mksdb (objs D) r (dirties D) (logs D)) e) = dirties D).
    { unfold undo_core. destruct e as [a0 p|a0 k p|a0| |a0 p pb|a0 pv]; cbn; try destruct (objs D !! a0); reflexivity. }
    destruct (dirtied e) as [a0|]; cbn; rewrite ?Hd; [|apply Hp].
    destruct (Nat.eqb_spec (Nat.pred (default O (dirties D !! a0))) 0) as [Hz|Hz].
    + intros H. destruct (decide (a0 = a)) as [->|]; [by rewrite lookup_delete in H|].
      rewrite lookup_delete_ne in H by done. eapply Hp; eauto.
    + intros H. destruct (decide (a0 = a)) as [->|].
      * rewrite lookup_insert in H. inversion H. lia.
      * rewrite lookup_insert_ne in H by done. eapply Hp; eauto.
  - intros a Hin. apply Hc'.
    assert (Hjj : journal (undo_dirt (undo_core (mksdb (objs D) r (dirties D) (logs D)) e) e) = r).
    { rewrite <- undo_split, journal_undo. reflexivity. }
    by rewrite Hjj in Hin.
Qed.

Lemma wf_pop_n W k : forall D, wf W D -> wf W (pop_n D k).
Proof.
  induction k as [|k IH]; intros D H; cbn [pop_n]; [done|].
  destruct (journal D) as [|e r] eqn:E; [done|]. apply IH. by eapply wf_undo.
Qed.

(** * the extension relation: D' is D plus journalled changes that revert cleanly *)
Definition ext (W : world) (D D' : sdb) : Prop :=
  wf W D' /\ (jlen D <= jlen D')%nat /\
  forall n, (n <= jlen D)%nat -> obs_eq W (revert_to D' n) (revert_to D n).

Lemma ext_refl W D : wf W D -> ext W D D.
Proof. intros H. split; [done|]. split; [lia|]. intros n _. apply obs_eq_refl. Qed.

Lemma ext_trans W D1 D2 D3 : ext W D1 D2 -> ext W D2 D3 -> ext W D1 D3.
Proof.
  intros (H1 & L1 & E1) (H2 & L2 & E2). split; [done|]. split; [lia|].
  intros n Hn. eapply obs_eq_trans; [apply E2; lia|apply E1; lia].
Qed.

Lemma ext_revert W D D' s : ext W D D' -> (jlen D <= s <= jlen D')%nat -> ext W D (revert_to D' s).
Proof.
  intros (H1 & L1 & E1) Hs. split; [|split].
  - unfold revert_to. by apply wf_pop_n.
  - unfold revert_to. fold (jlen D'). rewrite pop_n_len by lia. lia.
  - intros n Hn. rewrite revert_to_revert by lia. by apply E1.
Qed.

(** one journalled step: [D'] has exactly [new] on top of D's journal and popping it gives D back *)
Lemma ext_push W D D' new : wf W D' -> journal D' = new ++ journal D ->
  obs_eq W (pop_n D' (length new)) D -> ext W D D'.
Proof.
  intros Hwf Hj Hpop. split; [done|]. unfold jlen. rewrite Hj, app_length. split; [lia|].
  intros n Hn. unfold revert_to. rewrite Hj, app_length.
  replace (length new + length (journal D) - n)%nat with (length new + (length (journal D) - n))%nat by lia.
  rewrite pop_n_add. by apply pop_n_obs_eq.
Qed.

(** * every cache mutator is a clean extension *)
Lemma wf_set_obj W D a o : wf W D -> wf W (set_obj D a o).
Proof.
  intros (Hs & Hp & Hc). split; [|split]; cbn; auto.
  intros b Hb. destruct (decide (a = b)) as [->|]; [rewrite lookup_insert; eauto|rewrite lookup_insert_ne by done; auto].
Qed.

Lemma wf_japp W D e : wf W D -> (forall a, e = JCreate a -> a ∉ wexists W) -> wf W (japp D e).
Proof.
  intros (Hs & Hp & Hc) He. split; [|split]; cbn; auto.
  - intros a c. destruct (dirtied e) as [a0|]; [|apply Hp].
    destruct (decide (a0 = a)) as [->|]; [rewrite lookup_insert; intros H; inversion H; lia|rewrite lookup_insert_ne by done; apply Hp].
  - intros a [Hin|Hin]; [by apply He|by apply Hc].
Qed.

Lemma sdb_eta D : mksdb (objs D) (journal D) (dirties D) (logs D) = D.
Proof. by destruct D. Qed.
Lemma obj_eta o : mkobj (obal o) (dstor o) (ostor o) (tstor o) (osui o) = o.
Proof. by destruct o. Qed.

Lemma load_id W D a : wf W D -> load W D a = D.
Proof.
  intros (Hs & _ & _). unfold load. destruct (objs D !! a) eqn:E; [done|].
  destruct (decide (a ∈ wexists W)) as [Hin|Hn].
  - destruct (Hs a Hin) as [o Ho]. congruence.
  - by rewrite bool_decide_eq_false_2.
Qed.

Lemma create_ext W D a : wf W D -> objs D !! a = None -> a ∉ wexists W ->
  ext W D (japp (set_obj D a (mkobj 0 ∅ ∅ ∅ false)) (JCreate a)).
Proof.
  intros Hwf Hn Hne. apply (ext_push W D _ [JCreate a]).
  - apply wf_japp; [by apply wf_set_obj|]. intros b Hb. by inversion Hb; subst.
  - reflexivity.
  - cbn [length pop_n japp journal set_obj objs dirties logs dirtied]. rewrite undo_split.
    unfold undo_core, undo_dirt; cbn [dirtied objs journal dirties logs].
    destruct Hwf as (_ & Hp & _).
    rewrite (dirt_rt (dirties D) a (Hp a)). rewrite delete_insert by done. rewrite sdb_eta. apply obs_eq_refl.
Qed.

Lemma get_or_new_ext W D a : wf W D ->
  ext W D (get_or_new W D a) /\ is_Some (objs (get_or_new W D a) !! a).
Proof.
  intros Hwf. unfold get_or_new. rewrite (load_id _ _ _ Hwf).
  destruct (objs D !! a) as [o|] eqn:E.
  - split; [by apply ext_refl|]. rewrite E. eauto.
  - assert (Hne : a ∉ wexists W).
    { intros Hin. destruct Hwf as (Hs & _). destruct (Hs a Hin). congruence. }
    split; [by apply create_ext|]. cbn. rewrite lookup_insert. eauto.
Qed.

Lemma set_bal_ext W D a v : wf W D -> ext W D (set_bal D a v).
Proof.
  intros Hwf. unfold set_bal. destruct (objs D !! a) as [o|] eqn:E; [|by apply ext_refl].
  apply (ext_push W D _ [JBal a (obal o)]).
  - apply wf_set_obj. apply wf_japp; [done|]. intros b Hb. inversion Hb.
  - reflexivity.
  - cbn [length pop_n japp journal set_obj objs dirties logs dirtied]. rewrite undo_split.
    unfold undo_core, undo_dirt; cbn [dirtied objs journal dirties logs set_obj].
    rewrite lookup_insert. cbn [objs journal dirties logs set_obj obal dstor ostor tstor osui].
    destruct Hwf as (_ & Hp & _).
    rewrite (dirt_rt (dirties D) a (Hp a)). rewrite insert_insert, obj_eta. rewrite (insert_id _ _ _ E).
    rewrite sdb_eta. apply obs_eq_refl.
Qed.

Lemma add_bal_ext W D a amt : wf W D -> ext W D (add_bal W D a amt).
Proof.
  intros Hwf. unfold add_bal. destruct (get_or_new_ext W D a Hwf) as [He _].
  destruct (amt =? 0); [done|]. eapply ext_trans; [exact He|]. apply set_bal_ext. apply He.
Qed.

Lemma suicide_ext W D a : wf W D -> ext W D (suicide D a).
Proof.
  intros Hwf. unfold suicide. destruct (objs D !! a) as [o|] eqn:E; [|by apply ext_refl].
  apply (ext_push W D _ [JSuicide a (osui o) (obal o)]).
  - apply wf_set_obj. apply wf_japp; [done|]. intros b Hb. inversion Hb.
  - reflexivity.
  - cbn [length pop_n japp journal set_obj objs dirties logs dirtied]. rewrite undo_split.
    unfold undo_core, undo_dirt; cbn [dirtied objs journal dirties logs set_obj].
    rewrite lookup_insert. cbn [objs journal dirties logs set_obj obal dstor ostor tstor osui].
    destruct Hwf as (_ & Hp & _).
    rewrite (dirt_rt (dirties D) a (Hp a)). rewrite insert_insert, obj_eta. rewrite (insert_id _ _ _ E).
    rewrite sdb_eta. apply obs_eq_refl.
Qed.

Lemma reset_ext W D a : wf W D -> ext W D (reset_obj D a).
Proof.
  intros Hwf. unfold reset_obj. destruct (objs D !! a) as [o|] eqn:E; [|by apply ext_refl].
  apply (ext_push W D _ [JReset a o]).
  - apply wf_set_obj. apply wf_japp; [done|]. intros b Hb. inversion Hb.
  - reflexivity.
  - cbn [length pop_n japp journal set_obj objs dirties logs dirtied]. rewrite undo_split.
    unfold undo_core, undo_dirt; cbn [dirtied objs journal dirties logs set_obj].
    destruct Hwf as (_ & Hp & _).
    rewrite (dirt_rt (dirties D) a (Hp a)). rewrite insert_insert. rewrite (insert_id _ _ _ E).
    rewrite sdb_eta. apply obs_eq_refl.
Qed.

Lemma add_log_ext W D : wf W D -> ext W D (add_log D).
Proof.
  intros Hwf. apply (ext_push W D _ [JLog]).
  - unfold add_log. destruct (wf_japp W D JLog Hwf) as (H1 & H2 & H3); [intros b Hb; inversion Hb|].
    split; [|split]; cbn in *; auto.
  - reflexivity.
  - cbn. rewrite sdb_eta. apply obs_eq_refl.
Qed.

Lemma set_state_ext W D a k v : wf W D -> ext W D (set_state W D a k v).
Proof.
  intros Hwf. unfold set_state. destruct (get_or_new_ext W D a Hwf) as [He [o Ho]].
  set (D1 := get_or_new W D a) in *. rewrite Ho.
  assert (Hwf1 : wf W D1) by apply He.
  (* the value read and the object with the origin cached *)
  set (pr := match dstor o !! k with
             | Some d => (d, o)
             | None => match ostor o !! k with
                       | Some c => (c, o)
                       | None => (zg (store W) (a, k),
                                  mkobj (obal o) (dstor o) (<[k := zg (store W) (a, k)]> (ostor o)) (tstor o) (osui o))
                       end
             end).
  assert (Hpr : fst pr = rs W a o k /\ obal (snd pr) = obal o /\ tstor (snd pr) = tstor o /\ dstor (snd pr) = dstor o /\
                osui (snd pr) = osui o /\ forall k', rs W a (snd pr) k' = rs W a o k').
  { unfold pr, rs. destruct (dstor o !! k) eqn:Ed; cbn.
    - repeat split; auto.
    - destruct (ostor o !! k) eqn:Eo; cbn.
      + repeat split; auto.
      + repeat split; auto. intros k'. destruct (dstor o !! k'); [done|].
        destruct (decide (k = k')) as [->|]; [by rewrite lookup_insert, Eo|by rewrite lookup_insert_ne]. }
  destruct pr as [prev o1]. cbn [fst snd] in Hpr. destruct Hpr as (Hprev & Hb1 & Ht1 & Hd1 & Hs1 & Hrs1).
  eapply ext_trans; [exact He|].
  destruct (prev =? v).
  - apply (ext_push W D1 _ []); [by apply wf_set_obj|reflexivity|].
    cbn [length pop_n]. unfold obs_eq; cbn. split; [done|]. split; [done|]. split; [done|].
    intros b. destruct (decide (a = b)) as [->|]; [|rewrite lookup_insert_ne by done; apply oeq_refl].
    rewrite lookup_insert, Ho. cbn. auto.
  - apply (ext_push W D1 _ [JStor a k prev]).
    + apply wf_set_obj. apply wf_japp; [done|]. intros b Hb. inversion Hb.
    + reflexivity.
    + cbn [length pop_n japp journal set_obj objs dirties logs dirtied]. rewrite undo_split.
      unfold undo_core, undo_dirt; cbn [dirtied objs journal dirties logs set_obj].
      rewrite lookup_insert. cbn [objs journal dirties logs set_obj obal dstor ostor tstor osui].
      destruct Hwf1 as (_ & Hp & _). rewrite (dirt_rt (dirties D1) a (Hp a)).
      unfold obs_eq; cbn. split; [done|]. split; [done|]. split; [done|].
      intros b. destruct (decide (a = b)) as [->|]; [|rewrite !lookup_insert_ne by done; apply oeq_refl].
      rewrite lookup_insert, Ho. cbn. split; [done|]. split; [done|]. split; [done|].
      intros k'. rewrite <- Hrs1. unfold rs at 1; cbn. rewrite insert_insert.
      destruct (decide (k = k')) as [->|Hk].
      * rewrite lookup_insert. rewrite Hprev. symmetry. apply Hrs1.
      * rewrite lookup_insert_ne by done. unfold rs. by rewrite Hd1.
Qed.

(** * Theorem: reverting to a snapshot undoes any sequence of cache mutations *)
Inductive cop := OAddBal (a : N) (amt : Z) | OSetState (a : N) (k v : Z) | OLog | OLoad (a : N) | OSuicide (a : N) | OReset (a : N).
Definition cop_apply (W : world) (D : sdb) (op : cop) : sdb :=
  match op with
  | OAddBal a amt => add_bal W D a amt
  | OSetState a k v => set_state W D a k v
  | OLog => add_log D
  | OLoad a => load W D a
  | OSuicide a => suicide D a
  | OReset a => reset_obj D a
  end.

Lemma cop_ext W D op : wf W D -> ext W D (cop_apply W D op).
Proof.
  intros Hwf. destruct op; cbn.
  - by apply add_bal_ext.
  - by apply set_state_ext.
  - by apply add_log_ext.
  - rewrite load_id by done. by apply ext_refl.
  - by apply suicide_ext.
  - by apply reset_ext.
Qed.

Lemma cops_ext W ops : forall D, wf W D -> ext W D (fold_left (cop_apply W) ops D).
Proof.
  induction ops as [|op ops IH]; intros D Hwf; cbn [fold_left]; [by apply ext_refl|].
  pose proof (cop_ext W D op Hwf) as H1. eapply ext_trans; [exact H1|]. apply IH. apply H1.
Qed.

Lemma revert_to_self D : revert_to D (jlen D) = D.
Proof. unfold revert_to, jlen. by rewrite Nat.sub_diag. Qed.

Theorem revert_restores W D ops : wf W D ->
  obs_eq W (revert_to (fold_left (cop_apply W) ops D) (snapshot D)) D.
Proof.
  intros Hwf. destruct (cops_ext W ops D Hwf) as (_ & _ & H).
  specialize (H (jlen D) (le_n _)). by rewrite revert_to_self in H.
Qed.

(** what observational equality means for the reads the EVM can make *)
Definition rbal (D : sdb) (a : N) : option Z := obal <$> objs D !! a.
Definition rstate (W : world) (D : sdb) (a : N) (k : Z) : option Z := (fun o => rs W a o k) <$> objs D !! a.

Lemma obs_eq_reads W D1 D2 : obs_eq W D1 D2 ->
  (forall a, rbal D1 a = rbal D2 a) /\ (forall a k, rstate W D1 a k = rstate W D2 a k) /\
  logs D1 = logs D2 /\ dirties D1 = dirties D2 /\ journal D1 = journal D2.
Proof.
  intros (Hj & Hd & Hl & Ho). repeat split; auto.
  - intros a. specialize (Ho a). unfold rbal. destruct (objs D1 !! a), (objs D2 !! a); cbn in *; try tauto.
    by destruct Ho as (-> & _).
  - intros a k. specialize (Ho a). unfold rstate. destruct (objs D1 !! a), (objs D2 !! a); cbn in *; try tauto.
    destruct Ho as (_ & _ & _ & H). by rewrite H.
Qed.

(** * pure EVM frames (no precompile call anywhere below) *)
Fixpoint pure (i : instr) : bool :=
  match i with
  | IPre _ _ _ _ => false
  | ICall _ _ _ _ body => forallb pure body
  | ICreate _ _ _ _ _ body => forallb pure body      (* the constructor runs any pure code *)
  | _ => true
  end.

Section instr_induction.
  Variable P : instr -> Prop.
  Hypothesis Hst : forall k v, P (ISStore k v).
  Hypothesis Hlg : P ILog.
  Hypothesis Hrv : P IRevert.
  Hypothesis Hbl : forall a, P (IBalance a).
  Hypothesis Hsd : forall b, P (ISelfdestruct b).
  Hypothesis Hcl : forall t v c r body, Forall P body -> P (ICall t v c r body).
  Hypothesis Hcr : forall ad v c r sc body, Forall P body -> P (ICreate ad v c r sc body).
  Hypothesis Hpr : forall p v c r, P (IPre p v c r).
  Fixpoint instr_ind' (i : instr) : P i :=
    match i with
    | ISStore k v => Hst k v
    | ILog => Hlg
    | IRevert => Hrv
    | IBalance a => Hbl a
    | ISelfdestruct b => Hsd b
    | ICall t v c r body =>
        Hcl t v c r body ((fix go (l : list instr) : Forall P l :=
                             match l with
                             | [] => List.Forall_nil P
                             | x :: l' => @List.Forall_cons _ P x l' (instr_ind' x) (go l')
                             end) body)
    | ICreate ad v c r sc body =>
        Hcr ad v c r sc body ((fix go (l : list instr) : Forall P l :=
                                 match l with
                                 | [] => List.Forall_nil P
                                 | x :: l' => @List.Forall_cons _ P x l' (instr_ind' x) (go l')
                                 end) body)
    | IPre p v c r => Hpr p v c r
    end.
End instr_induction.

(** the constructor run of CREATE, named: [cfix] is the local fixpoint of [exec_instr]'s CREATE case *)
Definition cfix (order : list N) (o : N) :=
  fix exec_list (l : list instr) (t : N) (s : st) {struct l} : st * outcome :=
    match l with
    | [] => (s, Ok)
    | x :: r => let '(s1, oc) := exec_instr order o t x s in
                match oc with Ok => exec_list r t s1 | _ => (s1, oc) end
    end.
Lemma cfix_eq order o body : forall t s, cfix order o body t s = exec_list order o t body s.
Proof.
  induction body as [|x body IH]; intros t s; cbn [cfix exec_list]; [reflexivity|].
  destruct (exec_instr order o t x s) as [s1 oc]. destruct oc; [apply IH|reflexivity].
Qed.
Definition create_run (order : list N) (o t : N) (sc : bool) (body : list instr) (s' : st) : st * outcome :=
  let '(W', D') := s' in
  let '(s2, oc) := cfix order o body t (W', set_state W' (reset_obj D' t) t CREATED_SLOT 1) in
  match oc with
  | Ok => ((fst s2, if sc then set_state (fst s2) (snd s2) t CODE_SLOT 1 else snd s2), Ok)
  | Fail => (s2, Fail)
  end.
Lemma create_run_eq order o t sc body W D :
  create_run order o t sc body (W, D) =
  let '(s2, oc) := exec_list order o t body (W, set_state W (reset_obj D t) t CREATED_SLOT 1) in
  match oc with
  | Ok => ((fst s2, if sc then set_state (fst s2) (snd s2) t CODE_SLOT 1 else snd s2), Ok)
  | Fail => (s2, Fail)
  end.
Proof. unfold create_run. by rewrite cfix_eq. Qed.
Lemma exec_create_eq order o self ad v c r sc body W D :
  exec_instr order o self (ICreate ad v c r sc body) (W, D) =
  if negb (v =? 0) && (cbal (load W D self) self <? v) then after_call self c r ((W, load W D self), Fail) else
  let D1 := set_state W (load W D self) self NONCE_SLOT (read_state W (load W D self) self NONCE_SLOT + 1) in
  match nth_error ad (Z.to_nat (read_state W (load W D self) self NONCE_SLOT)) with
  | None => after_call self c r ((W, D1), Fail)
  | Some t =>
      if negb (read_state W (load W D1 t) t CREATED_SLOT =? 0) || negb (read_state W (load W D1 t) t CODE_SLOT =? 0)
      then after_call self c r ((W, load W D1 t), Fail)
      else after_call self c r (do_call_gen true order (W, D1) self t v (create_run order o t sc body))
  end.
Proof. reflexivity. Qed.

Definition pure_step (W : world) (D : sdb) (r : st * outcome) : Prop :=
  fst (fst r) = W /\ ext W D (snd (fst r)).

Lemma pure_step_seq W D r (f : st -> st * outcome) :
  pure_step W D r -> (forall D1, wf W D1 -> pure_step W D1 (f (W, D1))) ->
  pure_step W D (let '(s1, oc) := r in match oc with Ok => f s1 | Fail => (s1, oc) end).
Proof.
  destruct r as [[W1 D1] oc]. intros [HW He] Hf. cbn in HW. subst W1. cbn in He.
  destruct oc; [|by split].
  destruct (Hf D1 (proj1 He)) as [HW2 He2]. split; [done|]. eapply ext_trans; eauto.
Qed.

(** go-ethereum's Call around a callee that is itself a clean extension *)
Lemma do_call_pure order W D caller target value run :
  wf W D -> (forall D1, wf W D1 -> pure_step W D1 (run (W, D1))) ->
  pure_step W D (do_call order (W, D) caller target value run) /\
  (snd (do_call order (W, D) caller target value run) = Fail ->
   obs_eq W (snd (fst (do_call order (W, D) caller target value run))) D).
Proof.
  intros Hwf Hrun. unfold do_call, do_call_gen. rewrite !(load_id _ _ _ Hwf).
  destruct (negb (value =? 0) && (cbal D caller <? value)).
  { split; [split; [done|by apply ext_refl]|]. intros _. apply obs_eq_refl. }
  assert (HD0 : (if value =? 0 then D else D) = D) by (by destruct (value =? 0)). rewrite HD0.
  rewrite !(load_id _ _ _ Hwf).
  destruct (negb false && match objs D !! target with None => true | Some _ => false end && (value =? 0) && negb (is_precompile target)).
  { split; [split; [done|by apply ext_refl]|]. intros _. apply obs_eq_refl. }
  set (D2 := match objs D !! target with
             | Some _ => D
             | None => japp (set_obj D target (mkobj 0 ∅ ∅ ∅ false)) (JCreate target)
             end).
  assert (He2 : ext W D D2).
  { unfold D2. destruct (objs D !! target) eqn:E; [by apply ext_refl|].
    apply create_ext; auto. intros Hin. destruct Hwf as (Hs & _). destruct (Hs _ Hin). congruence. }
  set (D3 := add_bal W (sub_bal W D2 caller value) target value).
  assert (He3 : ext W D D3).
  { unfold D3, sub_bal. eapply ext_trans; [exact He2|]. eapply ext_trans; [apply add_bal_ext, He2|].
    apply add_bal_ext. apply add_bal_ext, He2. }
  destruct (Hrun D3 (proj1 He3)) as [HW4 He4].
  destruct (run (W, D3)) as [[W4 D4] oc]. cbn in HW4, He4. subst W4.
  assert (He : ext W D D4) by (eapply ext_trans; eauto).
  destruct oc; unfold pure_step; cbn [fst snd].
  - split; [split; [reflexivity|exact He]|discriminate].
  - assert (Hr : ext W D (revert_to D4 (snapshot D))).
    { apply ext_revert; [done|]. unfold snapshot. fold (jlen D). destruct He as (_ & L & _). lia. }
    split; [split; [reflexivity|exact Hr]|]. intros _.
    destruct Hr as (_ & _ & H). specialize (H (jlen D) (le_n _)).
    rewrite revert_to_self in H. rewrite revert_to_revert in H; [done|].
    unfold snapshot. fold (jlen D). destruct He as (_ & L & _). lia.
Qed.

(** Call / Create around a callee that is itself a clean extension ([force] as in [do_call_gen]) *)
Lemma do_call_gen_pure force order W D caller target value run :
  wf W D -> (forall D1, wf W D1 -> pure_step W D1 (run (W, D1))) ->
  pure_step W D (do_call_gen force order (W, D) caller target value run).
Proof.
  intros Hwf Hrun. unfold do_call_gen. rewrite !(load_id _ _ _ Hwf).
  destruct (negb (value =? 0) && (cbal D caller <? value)).
  { split; [done|by apply ext_refl]. }
  assert (HD0 : (if value =? 0 then D else D) = D) by (by destruct (value =? 0)). rewrite HD0.
  rewrite !(load_id _ _ _ Hwf).
  destruct (negb force && match objs D !! target with None => true | Some _ => false end && (value =? 0) && negb (is_precompile target)).
  { split; [done|by apply ext_refl]. }
  set (D2 := match objs D !! target with
             | Some _ => D
             | None => japp (set_obj D target (mkobj 0 ∅ ∅ ∅ false)) (JCreate target)
             end).
  assert (He2 : ext W D D2).
  { unfold D2. destruct (objs D !! target) eqn:E; [by apply ext_refl|].
    apply create_ext; auto. intros Hin. destruct Hwf as (Hs & _). destruct (Hs _ Hin). congruence. }
  set (D3 := add_bal W (sub_bal W D2 caller value) target value).
  assert (He3 : ext W D D3).
  { unfold D3, sub_bal. eapply ext_trans; [exact He2|]. eapply ext_trans; [apply add_bal_ext, He2|].
    apply add_bal_ext. apply add_bal_ext, He2. }
  destruct (Hrun D3 (proj1 He3)) as [HW4 He4].
  destruct (run (W, D3)) as [[W4 D4] oc]. cbn in HW4, He4. subst W4.
  assert (He : ext W D D4) by (eapply ext_trans; eauto).
  destruct oc; unfold pure_step; cbn [fst snd].
  - split; [reflexivity|exact He].
  - split; [reflexivity|]. apply ext_revert; [done|]. unfold snapshot. fold (jlen D). destruct He as (_ & L & _). lia.
Qed.

Lemma after_call_pure W D0 self catch rec r :
  pure_step W D0 r -> pure_step W D0 (after_call self catch rec r).
Proof.
  destruct r as [[W1 D1] oc]. intros [HW He]. cbn in HW, He. subst W1. unfold after_call.
  set (D2 := match rec with Some slot => set_state W D1 self slot _ | None => D1 end).
  assert (He2 : ext W D0 D2).
  { unfold D2. destruct rec; [|done]. eapply ext_trans; [exact He|]. apply set_state_ext, He. }
  destruct (catch || _); by split.
Qed.

(** from the induction hypothesis on the instructions of a body to the body as a list *)
Lemma forall_list_ext order o W body :
  Forall (fun i => pure i = true -> forall order o self W D, wf W D -> pure_step W D (exec_instr order o self i (W, D))) body ->
  forallb pure body = true -> forall t D, wf W D -> pure_step W D (exec_list order o t body (W, D)).
Proof.
  induction body as [|x body IHb]; intros IH Hp t D Hwf; cbn [exec_list]; [split; [done|by apply ext_refl]|].
  cbn [forallb] in Hp. apply andb_prop in Hp as [Hpx Hpb]. inversion IH as [|? ? IHx IHrest]; subst.
  apply (pure_step_seq W D (exec_instr order o t x (W, D))).
  - by apply IHx.
  - intros D2 Hwf2. by apply IHb.
Qed.

Theorem pure_instr_ext : forall i, pure i = true ->
  forall order o self W D, wf W D -> pure_step W D (exec_instr order o self i (W, D)).
Proof.
  induction i as [k v| | |a|b|t v c r body IH|ad v c r sc body IH|p v c r] using instr_ind'; intros Hp order o self W D Hwf.
  - cbn [exec_instr]. split; [done|]. by apply set_state_ext.
  - cbn [exec_instr]. split; [done|]. by apply add_log_ext.
  - cbn [exec_instr]. split; [done|]. by apply ext_refl.
  - cbn [exec_instr]. split; [done|]. cbn. rewrite load_id by done. by apply ext_refl.
  - cbn [exec_instr]. rewrite load_id by done. destruct (objs D !! self) as [os|]; [|split; [done|by apply ext_refl]].
    split; [done|]. cbn [fst snd]. eapply ext_trans; [by apply add_bal_ext|]. apply suicide_ext. by apply add_bal_ext.
  - cbn [exec_instr]. cbn [pure] in Hp. apply after_call_pure. apply (do_call_gen_pure false); [done|].
    intros D1 Hwf1. destruct (N.leb 2 t && N.leb t 4); [|split; [done|by apply ext_refl]].
    clear Hwf D. revert D1 Hwf1.
    induction body as [|x body IHb]; intros D1 Hwf1; [split; [done|by apply ext_refl]|].
    cbn [forallb] in Hp. apply andb_prop in Hp as [Hpx Hpb].
    inversion IH as [|? ? IHx IHrest]; subst.
    apply (pure_step_seq W D1 (exec_instr order o t x (W, D1))).
    + by apply IHx.
    + intros D2 Hwf2. by apply IHb.
  - (* CREATE *)
    cbn [pure] in Hp. rewrite exec_create_eq. rewrite !(load_id _ _ _ Hwf).
    destruct (negb (v =? 0) && (cbal D self <? v)).
    { apply after_call_pure. split; [done|by apply ext_refl]. }
    pose proof (set_state_ext W D self NONCE_SLOT (read_state W D self NONCE_SLOT + 1) Hwf) as Hen.
    cbv zeta. set (D1 := set_state W D self NONCE_SLOT (read_state W D self NONCE_SLOT + 1)) in *.
    destruct (nth_error ad (Z.to_nat (read_state W D self NONCE_SLOT))) as [t|].
    2:{ apply after_call_pure. split; [done|exact Hen]. }
    rewrite (load_id _ _ _ (proj1 Hen)).
    destruct (negb (read_state W D1 t CREATED_SLOT =? 0) || negb (read_state W D1 t CODE_SLOT =? 0)).
    { apply after_call_pure. split; [done|exact Hen]. }
    apply after_call_pure.
    assert (Hstep : pure_step W D1 (do_call_gen true order (W, D1) self t v (create_run order o t sc body))).
    { apply do_call_gen_pure; [apply Hen|]. intros D2 Hwf2. rewrite create_run_eq.
      pose proof (reset_ext W D2 t Hwf2) as Her0.
      pose proof (set_state_ext W (reset_obj D2 t) t CREATED_SLOT 1 (proj1 Her0)) as Her1.
      assert (Her : ext W D2 (set_state W (reset_obj D2 t) t CREATED_SLOT 1)) by (eapply ext_trans; eauto).
      destruct (forall_list_ext order o W body IH Hp t _ (proj1 Her)) as [HWb Heb].
      destruct (exec_list order o t body (W, set_state W (reset_obj D2 t) t CREATED_SLOT 1)) as [[Wb Db] ocb].
      cbn [fst snd] in HWb, Heb. subst Wb.
      assert (He2 : ext W D2 Db) by (eapply ext_trans; eauto).
      destruct ocb; unfold pure_step; cbn [fst snd].
      - split; [done|]. destruct sc; [|exact He2]. eapply ext_trans; [exact He2|]. apply set_state_ext, He2.
      - split; [done|exact He2]. }
    destruct Hstep as [HWs Hes]. split; [exact HWs|]. eapply ext_trans; [exact Hen|exact Hes].
  - discriminate.
Qed.

Lemma pure_list_ext order o self W : forall body, forallb pure body = true ->
  forall D, wf W D -> pure_step W D (exec_list order o self body (W, D)).
Proof.
  induction body as [|x body IH]; intros Hp D Hwf; cbn [exec_list]; [split; [done|by apply ext_refl]|].
  cbn [forallb] in Hp. apply andb_prop in Hp as [Hpx Hpb].
  apply (pure_step_seq W D (exec_instr order o self x (W, D))).
  - by apply pure_instr_ext.
  - intros D2 Hwf2. by apply IH.
Qed.

(** a call into pure code that fails leaves no trace: the Cosmos side is
    untouched and the cache is observationally what it was *)
Theorem pure_failed_call_no_trace order o W D caller t value body :
  wf W D -> forallb pure body = true ->
  let r := do_call order (W, D) caller t value (exec_list order o t body) in
  snd r = Fail -> fst (fst r) = W /\ obs_eq W (snd (fst r)) D.
Proof.
  intros Hwf Hp r Hfail.
  destruct (do_call_pure order W D caller t value (exec_list order o t body) Hwf) as [[HW _] Hobs].
  { intros D1 Hwf1. by apply pure_list_ext. }
  split; [exact HW|]. by apply Hobs.
Qed.

(** [pure] includes CREATE (constructors running any pure code); the older names are kept *)
Notation purec := pure (only parsing).
Definition purec_instr_ext := pure_instr_ext.
