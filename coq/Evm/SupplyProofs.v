(** Commit arithmetic, the precompiles' Cosmos effect vs the native message, and the
    refutation witnesses of the known finding classes (properties C02, C05, C16). *)
From Coq Require Import ZArith List Lia.
From stdpp Require Import gmap.
From HV Require Import Evm.ExecModel Evm.Witnesses.
Local Open Scope Z_scope.

(** * Commit: SetBalance mints or burns exactly the difference between the cached
    balance and the bank balance, and leaves the bank balance equal to the cache *)
Lemma commit_storage_bank W a o : bank (fst (commit_storage W a o)) = bank W /\ supply (fst (commit_storage W a o)) = supply W.
Proof.
  unfold commit_storage. generalize (map_to_list (dstor o)). intros l.
  enough (H : forall Wx ox, bank Wx = bank W -> supply Wx = supply W ->
    bank (fst (fold_left
     (fun '(W, o) '(k, v) =>
        let skip := match tstor o !! k with Some t => t =? v | None => v =? zg (ostor o) k end in
        if skip then (W, o)
        else (mkworld (bank W) (supply W) (wexists W) (deleg W) (unbond W) (wdaddr W) (pending W) (broken W) (grants W)
                      (<[(a, k) := v]> (store W)),
              mkobj (obal o) (dstor o) (ostor o) (<[k := v]> (tstor o)) (osui o))) l (Wx, ox))) = bank W /\
    supply (fst (fold_left
     (fun '(W, o) '(k, v) =>
        let skip := match tstor o !! k with Some t => t =? v | None => v =? zg (ostor o) k end in
        if skip then (W, o)
        else (mkworld (bank W) (supply W) (wexists W) (deleg W) (unbond W) (wdaddr W) (pending W) (broken W) (grants W)
                      (<[(a, k) := v]> (store W)),
              mkobj (obal o) (dstor o) (ostor o) (<[k := v]> (tstor o)) (osui o))) l (Wx, ox))) = supply W).
  { by apply H. }
  induction l as [|[k v] l IH]; intros Wx ox Hb Hs; cbn [fold_left fst]; [done|].
  destruct (match tstor ox !! k with Some t => t =? v | None => v =? zg (ostor ox) k end); apply IH; done.
Qed.

Theorem commit_one_exact W D a o W' D' :
  objs D !! a = Some o -> osui o = false -> commit_one W D a = (W', D', true) ->
  zg (bank W') a = obal o /\
  supply W' = supply W + (obal o - zg (bank W) a) /\
  (forall b, b <> a -> zg (bank W') b = zg (bank W) b).
Proof.
  intros Ho Hal. unfold commit_one. rewrite Ho, Hal. cbn [bank supply wexists].
  destruct (obal o <? 0); [inversion 1|].
  destruct ((0 <? obal o - zg (bank W) a) && blocked a); [inversion 1|].
  set (W1 := mkworld _ _ _ _ _ _ _ _ _ _).
  pose proof (commit_storage_bank W1 a o) as [Hb Hs].
  destruct (commit_storage W1 a o) as [W2 o2]. cbn [fst] in Hb, Hs.
  intros H. inversion H; subst W' D'. rewrite Hs. unfold zg at 1. rewrite Hb. unfold W1; cbn.
  rewrite lookup_insert. cbn. split; [done|]. split; [done|].
  intros b Hne. unfold zg. by rewrite lookup_insert_ne.
Qed.

(** a self-destructed contract is deleted: exactly its bank balance is burned (nothing when its
    account is gone already), nobody else's balance moves, the cache is left as it is *)
Theorem commit_one_suicided_exact W D a o W' D' ok :
  objs D !! a = Some o -> osui o = true -> commit_one W D a = (W', D', ok) ->
  ok = true /\ D' = D /\ a ∉ wexists W' /\
  (a ∈ wexists W -> zg (bank W') a = 0 /\ supply W' = supply W - zg (bank W) a) /\
  (a ∉ wexists W -> W' = W) /\
  (forall b, b <> a -> zg (bank W') b = zg (bank W) b).
Proof.
  intros Ho Hs. unfold commit_one, delete_account. rewrite Ho, Hs.
  destruct (decide (a ∈ wexists W)) as [Hin|Hn].
  - rewrite bool_decide_eq_true_2 by done. intros H; inversion H; subst W' D' ok. cbn.
    split; [done|]. split; [done|]. split; [set_solver|]. split.
    + intros _. unfold zg. by rewrite lookup_insert.
    + split; [done|]. intros b Hne. unfold zg. by rewrite lookup_insert_ne.
  - rewrite bool_decide_eq_false_2 by done. intros H; inversion H; subst W' D' ok.
    split; [done|]. split; [done|]. split; [done|]. split; [done|]. split; done.
Qed.

(** * The Cosmos-side effect of an owner call is the native message's effect *)
Definition native (W : world) (p : pcall) : world * outcome :=
  match p with
  | PDelegate who amt => native_delegate W who amt
  | PUndelegate who amt => native_undelegate W who amt
  | PWithdraw who => let '(W1, oc, _) := native_withdraw W who in (W1, oc)
  | PSetWithdraw who to => native_setwithdraw W who to
  | PClaim who => if zg (deleg W) who =? 0 then (W, Ok) else let '(W1, oc, _) := native_withdraw W who in (W1, oc)
  | PTransfer who amt => native_transfer W who amt
  end.
Definition who_of (p : pcall) : N :=
  match p with PDelegate w _ | PUndelegate w _ | PWithdraw w | PSetWithdraw w _ | PClaim w | PTransfer w _ => w end.

Theorem owner_call_cosmos_effect_eq_native W D o p :
  who_of p = o ->
  let '(W1, _, oc) := pre_body W D o o p in
  let '(W2, oc2) := native W p in
  W1 = W2 /\ oc = oc2.
Proof.
  intros Hw. destruct p as [who amt|who amt|who|who to|who|who amt]; cbn in Hw; subst who; cbn [pre_body native].
  - rewrite !N.eqb_refl. cbn [negb andb].
    destruct (amt <=? 0) eqn:Ea.
    + unfold native_delegate. by rewrite Ea.
    + destruct (native_delegate W o amt) as [W1 oc]. by destruct oc.
  - rewrite !N.eqb_refl. cbn [negb andb].
    destruct (amt <=? 0) eqn:Ea.
    + unfold native_undelegate. by rewrite Ea.
    + destruct (native_undelegate W o amt) as [W1 oc]. by destruct oc.
  - rewrite !N.eqb_refl. cbn [negb andb]. destruct (native_withdraw W o) as [[W1 oc] r]. by destruct oc.
  - rewrite !N.eqb_refl. cbn [negb andb]. destruct (native_setwithdraw W o to) as [W1 oc]. by destruct oc.
  - rewrite !N.eqb_refl. cbn [negb andb]. destruct (zg (deleg W) o =? 0); [done|].
    destruct (native_withdraw W o) as [[W1 oc] r]. by destruct oc.
  - rewrite !N.eqb_refl. cbn [negb andb].
    destruct (amt <=? 0) eqn:Ea.
    + unfold native_transfer. by rewrite Ea.
    + destruct (native_transfer W o amt) as [W1 oc]. by destruct oc.
Qed.

(** * Witnesses: the model reproduces what the real implementation did, and the property fails there *)
Definition model_obs (x : ecase * list Z * eobs) : eobs :=
  let '(c, mods, _) := x in
  let '(W, ok) := run_tx (e_order c) (world_of c mods) (e_value c) (e_top c) in observe c W ok (run_tx_logs (e_order c) (world_of c mods) (e_value c) (e_top c)).
Definition impl_obs (x : ecase * list Z * eobs) : eobs := snd x.

(** K6: EOA delegates 1000 with 1499 pending rewards: the rewards are burned *)
Lemma k6_refuted : model_obs w_k6_eoa_delegate = impl_obs w_k6_eoa_delegate /\
                   b_ok (model_obs w_k6_eoa_delegate) = true /\ b_supply (model_obs w_k6_eoa_delegate) = -1499.
Proof. vm_compute. auto. Qed.
(** K4: the signer sends value to a contract that withdraws the signer's rewards: burned *)
Lemma k4_refuted : model_obs w_k4_origin_rewards = impl_obs w_k4_origin_rewards /\
                   b_ok (model_obs w_k4_origin_rewards) = true /\ b_supply (model_obs w_k4_origin_rewards) = -1499.
Proof. vm_compute. auto. Qed.
(** K5: value attached to a tolerated precompile call: minted into the evm module account *)
Lemma k5_refuted : model_obs w_k5_value_to_precompile = impl_obs w_k5_value_to_precompile /\
                   b_ok (model_obs w_k5_value_to_precompile) = true /\ b_supply (model_obs w_k5_value_to_precompile) = 7.
Proof. vm_compute. auto. Qed.
(** K9: a contract delegates 154 for the signer and sends 17 back: 154 are minted *)
Lemma k9_refuted : model_obs w_k9_contract_delegates_for_origin = impl_obs w_k9_contract_delegates_for_origin /\
                   b_ok (model_obs w_k9_contract_delegates_for_origin) = true /\
                   b_supply (model_obs w_k9_contract_delegates_for_origin) = 154.
Proof. vm_compute. auto. Qed.
(** K3: the inner frame reverts, the withdraw address it set stays *)
Lemma k3_refuted : model_obs w_k3_setwithdraw_reverted = impl_obs w_k3_setwithdraw_reverted /\
                   b_ok (model_obs w_k3_setwithdraw_reverted) = true /\
                   nth 3 (b_wd (model_obs w_k3_setwithdraw_reverted)) 0 = 1.
Proof. vm_compute. auto. Qed.
(** K3: storage and value flushed by the precompile's commit, and the delegation, survive the revert *)
Lemma k3_storage_refuted :
  model_obs w_k3_storage_and_delegate_reverted = impl_obs w_k3_storage_and_delegate_reverted /\
  b_ok (model_obs w_k3_storage_and_delegate_reverted) = true /\
  nth 3 (b_deleg (model_obs w_k3_storage_and_delegate_reverted)) 0 = 100.
Proof. vm_compute. auto. Qed.
(** clean programs: a contract delegating its own fresh funds under a limited grant, with a reverting sibling *)
Example ok_contract_delegate_conserves :
  model_obs w_ok_contract_delegate = impl_obs w_ok_contract_delegate /\
  b_ok (model_obs w_ok_contract_delegate) = true /\ b_supply (model_obs w_ok_contract_delegate) = 0.
Proof. vm_compute. auto. Qed.
(** K15: a contract transfers 154 of the signer's coins over IBC and sends 17 back: 154 are minted *)
Lemma k15_refuted : model_obs w_k15_contract_transfers_for_origin = impl_obs w_k15_contract_transfers_for_origin /\
                    b_ok (model_obs w_k15_contract_transfers_for_origin) = true /\
                    b_supply (model_obs w_k15_contract_transfers_for_origin) = 154.
Proof. vm_compute. auto. Qed.
(** K3: the frame that made an ICS-20 transfer reverts, the escrowed coins stay escrowed *)
Lemma k3c_refuted : model_obs w_k3c_transfer_reverted = impl_obs w_k3c_transfer_reverted /\
                    b_ok (model_obs w_k3c_transfer_reverted) = true /\
                    nth 13 (b_bal (model_obs w_k3c_transfer_reverted)) 0 = 100.
Proof. vm_compute. auto. Qed.
(** clean ICS-20 transfers: by the owner directly, and by a contract of its own funds under a limited grant *)
Example ok_owner_transfer_conserves :
  model_obs w_ok_owner_transfer = impl_obs w_ok_owner_transfer /\
  b_ok (model_obs w_ok_owner_transfer) = true /\ b_supply (model_obs w_ok_owner_transfer) = 0 /\
  nth 13 (b_bal (model_obs w_ok_owner_transfer)) 0 = 700.
Proof. vm_compute. auto. Qed.
Example ok_contract_transfer_conserves :
  model_obs w_ok_contract_transfer_own_funds = impl_obs w_ok_contract_transfer_own_funds /\
  b_ok (model_obs w_ok_contract_transfer_own_funds) = true /\ b_supply (model_obs w_ok_contract_transfer_own_funds) = 0 /\
  nth 13 (b_bal (model_obs w_ok_contract_transfer_own_funds)) 0 = 430.
Proof. vm_compute. auto. Qed.

(** * SELFDESTRUCT *)
(** the whole balance goes to the beneficiary, the contract is deleted, the supply is unchanged *)
Example sd_to_other_conserves :
  model_obs w_sd_to_other = impl_obs w_sd_to_other /\ b_ok (model_obs w_sd_to_other) = true /\
  b_supply (model_obs w_sd_to_other) = 0 /\ firstn 3 (b_alive (model_obs w_sd_to_other)) = [0; 2; 2] /\
  nth 1 (b_bal (model_obs w_sd_to_other)) 0 = 5025.
Proof. vm_compute. auto. Qed.
(** the sanctioned burn: a contract that self-destructs to itself destroys its balance (4000 + the 25 it was sent) *)
Example sd_to_self_burns :
  model_obs w_sd_to_self = impl_obs w_sd_to_self /\ b_ok (model_obs w_sd_to_self) = true /\
  b_supply (model_obs w_sd_to_self) = -4025.
Proof. vm_compute. auto. Qed.
(** value sent to a contract after it self-destructed in the same transaction is destroyed with it *)
Example sd_value_after_death_burns :
  model_obs w_sd_value_after_death = impl_obs w_sd_value_after_death /\ b_ok (model_obs w_sd_value_after_death) = true /\
  b_supply (model_obs w_sd_value_after_death) = -5.
Proof. vm_compute. auto. Qed.
(** self-destruct, then a staking call by the dead contract: the precompile's flush has deleted the
    account and burned its bank balance, the delegation fails for lack of funds; nothing is minted *)
Example sd_then_delegate_conserves :
  model_obs w_sd_then_delegate = impl_obs w_sd_then_delegate /\ b_ok (model_obs w_sd_then_delegate) = true /\
  b_supply (model_obs w_sd_then_delegate) = 0 /\ nth 2 (b_deleg (model_obs w_sd_then_delegate)) 0 = 0.
Proof. vm_compute. auto. Qed.
(** a second self-destruct inside a frame that reverts is undone: flag and balance are restored
    (the 1000 the dead contract had received are still there when it is deleted: burned, not paid out) *)
Example sd_again_in_reverted_frame_undone :
  model_obs w_sd_again_in_reverted_frame = impl_obs w_sd_again_in_reverted_frame /\
  b_ok (model_obs w_sd_again_in_reverted_frame) = true /\
  b_supply (model_obs w_sd_again_in_reverted_frame) = -1000 /\ nth 1 (b_bal (model_obs w_sd_again_in_reverted_frame)) 0 = 5000.
Proof. vm_compute. auto. Qed.
(** a self-destruct inside a reverted frame leaves no trace: the contract lives on *)
Example sd_in_reverted_frame_undone :
  model_obs w_sd_in_reverted_frame = impl_obs w_sd_in_reverted_frame /\ b_ok (model_obs w_sd_in_reverted_frame) = true /\
  b_supply (model_obs w_sd_in_reverted_frame) = 0 /\ firstn 3 (b_alive (model_obs w_sd_in_reverted_frame)) = [2; 2; 2].
Proof. vm_compute. auto. Qed.
(** ... so that a third, committed self-destruct pays out exactly what the contract had received: the
    signer gets the 1000 (a revert that forgot to restore the balance would have destroyed them) *)
Example sd_third_after_reverted_pays_out :
  model_obs w_sd_third_after_reverted = impl_obs w_sd_third_after_reverted /\
  b_ok (model_obs w_sd_third_after_reverted) = true /\
  b_supply (model_obs w_sd_third_after_reverted) = 0 /\ nth 0 (b_bal (model_obs w_sd_third_after_reverted)) 0 = 6000.
Proof. vm_compute. auto. Qed.

(** * CREATE *)
(** a successful creation: the endowment moves, the new account has code and the constructor's storage, the creator's nonce counts it *)
Example cr_success :
  model_obs w_cr_success = impl_obs w_cr_success /\ b_ok (model_obs w_cr_success) = true /\
  b_supply (model_obs w_cr_success) = 0 /\ nth 14 (b_bal (model_obs w_cr_success)) 0 = 100 /\
  nth 3 (b_alive (model_obs w_cr_success)) 0 = 2 /\ b_nonce (model_obs w_cr_success) = [1; 0; 0].
Proof. vm_compute. repeat split; reflexivity. Qed.
(** a creation whose constructor reverts leaves nothing but the creator's nonce; the next creation lands on the next
    address, and a constructor that returns no code leaves an account with storage and without code *)
Example cr_failed_then_codeless :
  model_obs w_cr_failed_then_codeless = impl_obs w_cr_failed_then_codeless /\ b_ok (model_obs w_cr_failed_then_codeless) = true /\
  b_supply (model_obs w_cr_failed_then_codeless) = 0 /\
  nth 14 (b_bal (model_obs w_cr_failed_then_codeless)) 0 = 0 /\ nth 15 (b_bal (model_obs w_cr_failed_then_codeless)) 0 = 5 /\
  nth 3 (b_alive (model_obs w_cr_failed_then_codeless)) 0 = 0 /\ nth 4 (b_alive (model_obs w_cr_failed_then_codeless)) 0 = 1 /\
  b_nonce (model_obs w_cr_failed_then_codeless) = [2; 0; 0].
Proof. vm_compute. repeat split; reflexivity. Qed.
(** CreateAccount over an address that already holds coins, in a frame that reverts: the 7 coins sent before stay, the
    endowment of 100 returns to the creator (resetObjectChange restores the previous object) *)
Example cr_reverted_on_funded_address :
  model_obs w_cr_reverted_on_funded_address = impl_obs w_cr_reverted_on_funded_address /\
  b_ok (model_obs w_cr_reverted_on_funded_address) = true /\ b_supply (model_obs w_cr_reverted_on_funded_address) = 0 /\
  nth 14 (b_bal (model_obs w_cr_reverted_on_funded_address)) 0 = 7 /\ nth 2 (b_bal (model_obs w_cr_reverted_on_funded_address)) 0 = 3993.
Proof. vm_compute. repeat split; reflexivity. Qed.
(** a creation inside a frame that reverts does not even move the creator's nonce: the later creation reuses the address *)
Example cr_nested_reverted_then_selfdestruct :
  model_obs w_cr_nested_reverted_then_selfdestruct = impl_obs w_cr_nested_reverted_then_selfdestruct /\
  b_ok (model_obs w_cr_nested_reverted_then_selfdestruct) = true /\ b_supply (model_obs w_cr_nested_reverted_then_selfdestruct) = 0 /\
  b_nonce (model_obs w_cr_nested_reverted_then_selfdestruct) = [0; 1; 0] /\ nth 0 (b_bal (model_obs w_cr_nested_reverted_then_selfdestruct)) 0 = 4966.
Proof. vm_compute. repeat split; reflexivity. Qed.

(** * a storage write that restores the pre-transaction value, made in a frame that fails *)
(** the outer frame sets slot 1 to 7; a nested frame of the same contract writes it back to 0 (the committed value) and
    reverts: the slot is 7 at the end — the write-back is journalled like any other write *)
Example wb_direct :
  model_obs w_wb_direct = impl_obs w_wb_direct /\ b_ok (model_obs w_wb_direct) = true /\
  In (2%N, 1, 7) (b_storage (model_obs w_wb_direct)).
Proof. vm_compute. split; [reflexivity|]. split; [reflexivity|]. auto. Qed.
Example wb_through_other_contract :
  model_obs w_wb_through_other_contract = impl_obs w_wb_through_other_contract /\ b_ok (model_obs w_wb_through_other_contract) = true /\
  In (2%N, 0, 2) (b_storage (model_obs w_wb_through_other_contract)).
Proof. vm_compute. split; [reflexivity|]. split; [reflexivity|]. auto. Qed.
(** the same write-back in a frame that succeeds is kept; a later failing frame that changes the slot and restores it leaves 0 *)
Example wb_kept_then_reverted :
  model_obs w_wb_kept_then_reverted = impl_obs w_wb_kept_then_reverted /\ b_ok (model_obs w_wb_kept_then_reverted) = true /\
  b_storage (model_obs w_wb_kept_then_reverted) = [].
Proof. vm_compute. repeat split; reflexivity. Qed.
