(** EVM <-> Cosmos state (properties C02, C05, C16): executable model of
    x/evm/statedb (object cache, journal, dirty counters, snapshot / revert,
    Commit against the bank), of go-ethereum's Call as it drives that StateDB,
    and of the staking / distribution precompiles' effect on Cosmos state plus
    the "mirror" they write back into the cache.  Programs are call trees of
    the harness' generic script contract.  Definitions only. *)
From stdpp Require Import gmap.
From Coq Require Import ZArith List.
Import ListNotations.
Local Open Scope Z_scope.

Definition zg `{Countable K} (m : gmap K Z) (k : K) : Z := default 0 (m !! k).

(** actors: 0 O (origin) 1 P 2-4 contracts 5 staking precompile 6 distribution
    precompile 7 bonded pool 8 not-bonded pool 9 distribution module 10 evm module 11 fee collector
    12 ICS-20 precompile 13 escrow account of the transfer channel
    14.. addresses at which the contracts 2-4 create new contracts (CREATE address of creator and nonce) *)
Definition A_BONDED : N := 7.
Definition A_NOTBONDED : N := 8.
Definition A_DISTR : N := 9.
Definition A_EVM : N := 10.
Definition A_ESCROW : N := 13.
Definition blocked (a : N) : bool := N.leb 5 a && N.leb a 12.     (* precompile and module addresses cannot receive coins *)
Definition is_precompile (a : N) : bool := N.eqb a 5 || N.eqb a 6 || N.eqb a 12.

(** * Cosmos side *)
Record world := mkworld {
  bank : gmap N Z;
  supply : Z;                       (* relative to the supply before the transaction *)
  wexists : gset N;                 (* auth accounts that exist *)
  deleg : gmap N Z;
  unbond : gmap N Z;
  wdaddr : gmap N N;                (* withdraw address, default self *)
  pending : gmap N Z;               (* withdrawable (truncated) rewards: oracle input *)
  broken : gset N;                  (* delegations whose distribution starting info was deleted by a failed call *)
  grants : gmap (N * N) (option Z);  (* (grantee, kind: 0 undelegate 1 delegate 2 ICS-20 transfer) -> limit, granter is the origin *)
  store : gmap (N * Z) Z
}.

Definition w_set_bank (W : world) (b : gmap N Z) : world :=
  mkworld b (supply W) (wexists W) (deleg W) (unbond W) (wdaddr W) (pending W) (broken W) (grants W) (store W).
(** bank SendCoins: the recipient's auth account is created when it does not exist *)
Definition move (W : world) (from to : N) (v : Z) : world :=
  mkworld (<[to := zg (bank W) to + v]> (<[from := zg (bank W) from - v]> (bank W))) (supply W) (wexists W ∪ {[to]})
          (deleg W) (unbond W) (wdaddr W) (pending W) (broken W) (grants W) (store W).
Definition withdraw_addr (W : world) (a : N) : N := default a (wdaddr W !! a).

(** * StateDB *)
Record obj := mkobj { obal : Z; dstor : gmap Z Z; ostor : gmap Z Z; tstor : gmap Z Z; osui : bool (* self-destructed *) }.
Inductive jentry := JBal (a : N) (prev : Z) | JStor (a : N) (k prev : Z) | JCreate (a : N) | JLog
                  | JSuicide (a : N) (prev : bool) (prevbal : Z)
                  | JReset (a : N) (prev : obj).
Record sdb := mksdb {
  objs : gmap N obj;
  journal : list jentry;            (* newest first *)
  dirties : gmap N nat;
  logs : nat
}.
Definition sdb0 : sdb := mksdb ∅ [] ∅ 0.

Definition dirtied (e : jentry) : option N :=
  match e with JBal a _ => Some a | JStor a _ _ => Some a | JCreate a => Some a | JLog => None | JSuicide a _ _ => Some a | JReset a _ => Some a end.

Definition japp (D : sdb) (e : jentry) : sdb :=
  mksdb (objs D) (e :: journal D)
        (match dirtied e with Some a => <[a := Datatypes.S (default O (dirties D !! a))]> (dirties D) | None => dirties D end)
        (logs D).
Definition set_obj (D : sdb) (a : N) (o : obj) : sdb := mksdb (<[a := o]> (objs D)) (journal D) (dirties D) (logs D).

(** account nonce and "has code" are kept as two pseudo storage slots (negative keys, never used by programs), so
    that SetNonce / SetCode are journalled, reverted and flushed by the storage machinery: the nonce slot holds
    the number of CREATEs the contract has made (real nonce - 1 for a contract) *)
Definition NONCE_SLOT : Z := -1.
Definition CODE_SLOT : Z := -2.
(** 1 for an account made by CREATE (its real nonce is 1 from the start): with the code flag, what go-ethereum's
    address-collision test reads.  It matters when a precompile call inside a constructor flushed the new account
    to the keeper and the creation was then reverted (K3): the address is taken for the rest of the transaction. *)
Definition CREATED_SLOT : Z := -3.
(** a freshly loaded object: balance, nonce and code hash are read from the keeper at that moment and stay in the
    object (SetAccount writes them back at every commit, also after the account was deleted in between) *)
Definition clean_obj (W : world) (a : N) : obj :=
  mkobj (zg (bank W) a) ∅
        (<[NONCE_SLOT := zg (store W) (a, NONCE_SLOT)]> (<[CODE_SLOT := zg (store W) (a, CODE_SLOT)]>
           (<[CREATED_SLOT := zg (store W) (a, CREATED_SLOT)]> ∅))) ∅ false.
(** getStateObject: live object, else load nonce/code/balance from the keeper *)
Definition load (W : world) (D : sdb) (a : N) : sdb :=
  match objs D !! a with
  | Some _ => D
  | None => if bool_decide (a ∈ wexists W) then set_obj D a (clean_obj W a) else D
  end.
(** getOrNewStateObject *)
Definition get_or_new (W : world) (D : sdb) (a : N) : sdb :=
  let D1 := load W D a in
  match objs D1 !! a with
  | Some _ => D1
  | None => japp (set_obj D1 a (mkobj 0 ∅ ∅ ∅ false)) (JCreate a)
  end.
Definition cbal (D : sdb) (a : N) : Z := match objs D !! a with Some o => obal o | None => 0 end.

Definition set_bal (D : sdb) (a : N) (v : Z) : sdb :=
  match objs D !! a with
  | Some o => set_obj (japp D (JBal a (obal o))) a (mkobj v (dstor o) (ostor o) (tstor o) (osui o))
  | None => D
  end.
(** Suicide: the flag is set and the cached balance zeroed; the journal keeps both *)
Definition suicide (D : sdb) (a : N) : sdb :=
  match objs D !! a with
  | Some o => set_obj (japp D (JSuicide a (osui o) (obal o))) a (mkobj 0 (dstor o) (ostor o) (tstor o) true)
  | None => D
  end.
Definition add_bal (W : world) (D : sdb) (a : N) (amt : Z) : sdb :=
  let D1 := get_or_new W D a in if amt =? 0 then D1 else set_bal D1 a (cbal D1 a + amt).
Definition sub_bal (W : world) (D : sdb) (a : N) (amt : Z) : sdb := add_bal W D a (- amt).

(** CreateAccount over an existing object (resetObjectChange): a fresh object that carries the balance over;
    the journal keeps the whole previous object *)
Definition reset_obj (D : sdb) (a : N) : sdb :=
  match objs D !! a with
  | Some o => set_obj (japp D (JReset a o)) a (mkobj (obal o) ∅ ∅ ∅ false)
  | None => D
  end.

Definition read_state (W : world) (D : sdb) (a : N) (k : Z) : Z :=
  match objs D !! a with
  | Some o => match dstor o !! k with
              | Some v => v
              | None => match ostor o !! k with Some c => c | None => zg (store W) (a, k) end
              end
  | None => zg (store W) (a, k)
  end.

(** SetState *)
Definition set_state (W : world) (D : sdb) (a : N) (k v : Z) : sdb :=
  let D1 := get_or_new W D a in
  match objs D1 !! a with
  | None => D1
  | Some o =>
      let '(prev, o1) :=
        match dstor o !! k with
        | Some d => (d, o)
        | None => match ostor o !! k with
                  | Some c => (c, o)
                  | None => let c := zg (store W) (a, k) in (c, mkobj (obal o) (dstor o) (<[k := c]> (ostor o)) (tstor o) (osui o))
                  end
        end in
      if prev =? v then set_obj D1 a o1
      else set_obj (japp D1 (JStor a k prev)) a (mkobj (obal o1) (<[k := v]> (dstor o1)) (ostor o1) (tstor o1) (osui o1))
  end.

Definition add_log (D : sdb) : sdb := let D1 := japp D JLog in mksdb (objs D1) (journal D1) (dirties D1) (Datatypes.S (logs D1)).

(** journal revert *)
Definition undo (D : sdb) (e : jentry) : sdb :=
  let D1 :=
    match e with
    | JBal a prev => match objs D !! a with
                     | Some o => set_obj D a (mkobj prev (dstor o) (ostor o) (tstor o) (osui o)) | None => D end
    | JStor a k prev => match objs D !! a with
                        | Some o => set_obj D a (mkobj (obal o) (<[k := prev]> (dstor o)) (ostor o) (tstor o) (osui o)) | None => D end
    | JCreate a => mksdb (delete a (objs D)) (journal D) (dirties D) (logs D)
    | JLog => mksdb (objs D) (journal D) (dirties D) (Nat.pred (logs D))
    | JSuicide a p pb => match objs D !! a with
                         | Some o => set_obj D a (mkobj pb (dstor o) (ostor o) (tstor o) p) | None => D end
    | JReset a prev => set_obj D a prev
    end in
  match dirtied e with
  | Some a => let c := Nat.pred (default O (dirties D1 !! a)) in
              mksdb (objs D1) (journal D1) (if Nat.eqb c 0 then delete a (dirties D1) else <[a := c]> (dirties D1)) (logs D1)
  | None => D1
  end.
Fixpoint pop_n (D : sdb) (n : nat) : sdb :=
  match n with
  | O => D
  | Datatypes.S m => match journal D with
           | [] => D
           | e :: r => pop_n (undo (mksdb (objs D) r (dirties D) (logs D)) e) m
           end
  end.
Definition snapshot (D : sdb) : nat := length (journal D).
Definition revert_to (D : sdb) (snap : nat) : sdb := pop_n D (length (journal D) - snap).

(** Commit: every dirty account, in address order: SetAccount (SetBalance mints or
    burns the difference to the bank balance), then the dirty storage.  Returns
    false when the bank refuses to credit a blocked address (the mint into the
    evm module account has happened by then). *)
Definition commit_storage (W : world) (a : N) (o : obj) : world * obj :=
  fold_left (fun '(W, o) '(k, v) =>
      let skip := match tstor o !! k with Some t => t =? v | None => v =? zg (ostor o) k end in
      if skip then (W, o)
      else (mkworld (bank W) (supply W) (wexists W) (deleg W) (unbond W) (wdaddr W) (pending W) (broken W) (grants W)
                    (<[(a, k) := v]> (store W)),
            mkobj (obal o) (dstor o) (ostor o) (<[k := v]> (tstor o)) (osui o)))
    (map_to_list (dstor o)) (W, o).

(** keeper.DeleteAccount of a self-destructed contract: nothing when the auth account is gone
    already; else SetBalance 0 (the bank balance is burned), the storage is cleared, the account removed *)
Definition delete_account (W : world) (a : N) : world :=
  if bool_decide (a ∈ wexists W) then
    mkworld (<[a := 0]> (bank W)) (supply W - zg (bank W) a) (wexists W ∖ {[a]}) (deleg W) (unbond W) (wdaddr W)
            (pending W) (broken W) (grants W) (base.filter (fun kv : N * Z * Z => fst (fst kv) <> a) (store W))
  else W.

Definition commit_one (W : world) (D : sdb) (a : N) : world * sdb * bool :=
  match objs D !! a with
  | None => (W, D, true)
  | Some o =>
      if osui o then (delete_account W a, D, true) else
      let W0 := mkworld (bank W) (supply W) (wexists W ∪ {[a]}) (deleg W) (unbond W) (wdaddr W) (pending W) (broken W)
                        (grants W) (store W) in
      let delta := obal o - zg (bank W0) a in
      if obal o <? 0 then (W0, D, false) else     (* burning more than the account holds: insufficient funds *)
      if (0 <? delta) && blocked a then
        (* MintCoins(evm) succeeded, SendCoinsFromModuleToAccount refused *)
        (mkworld (<[A_EVM := zg (bank W0) A_EVM + delta]> (bank W0)) (supply W0 + delta) (wexists W0) (deleg W0) (unbond W0)
                 (wdaddr W0) (pending W0) (broken W0) (grants W0) (store W0), D, false)
      else
        let W1 := mkworld (<[a := obal o]> (bank W0)) (supply W0 + delta) (wexists W0) (deleg W0) (unbond W0)
                          (wdaddr W0) (pending W0) (broken W0) (grants W0) (store W0) in
        let '(W2, o2) := commit_storage W1 a o in
        (* SetAccount writes nonce and code hash as the object holds them *)
        let rd := fun k => match dstor o2 !! k with
                           | Some v => v
                           | None => match ostor o2 !! k with Some c => c | None => zg (store W2) (a, k) end
                           end in
        (mkworld (bank W2) (supply W2) (wexists W2) (deleg W2) (unbond W2) (wdaddr W2) (pending W2) (broken W2) (grants W2)
                 (<[(a, NONCE_SLOT) := rd NONCE_SLOT]> (<[(a, CODE_SLOT) := rd CODE_SLOT]>
                    (<[(a, CREATED_SLOT) := rd CREATED_SLOT]> (store W2)))),
         set_obj D a o2, true)
  end.

Fixpoint commit_list (W : world) (D : sdb) (l : list N) : world * sdb * bool :=
  match l with
  | [] => (W, D, true)
  | a :: r => if bool_decide (is_Some (dirties D !! a)) then
                let '(W1, D1, ok) := commit_one W D a in
                if ok then commit_list W1 D1 r else (W1, D1, false)
              else commit_list W D r
  end.
(** [order]: all actors sorted by address bytes (journal.sortedDirties) *)
Definition commit (order : list N) (W : world) (D : sdb) : world * sdb * bool := commit_list W D order.

(** * Precompiles *)
Inductive pcall :=
| PDelegate (who : N) (amt : Z) | PUndelegate (who : N) (amt : Z)
| PWithdraw (who : N) | PSetWithdraw (who to : N) | PClaim (who : N)
| PTransfer (who : N) (amt : Z).

Inductive outcome := Ok | Fail.

Definition w_upd (W : world) (dl ub : gmap N Z) (pd : gmap N Z) (br : gset N) : world :=
  mkworld (bank W) (supply W) (wexists W) dl ub (wdaddr W) pd br (grants W) (store W).

(** withdrawDelegationRewards of the hook / message: pays the pending rewards to
    the withdraw address and deletes the starting info *)
Definition payout (W : world) (who : N) : world * outcome * Z :=
  if bool_decide (who ∈ broken W) then (W, Fail, 0) else   (* ErrEmptyDelegationDistInfo *)
  let r := zg (pending W) who in
  let W1 := if 0 <? r then move W A_DISTR (withdraw_addr W who) r else W in
  (w_upd W1 (deleg W1) (unbond W1) (<[who := 0]> (pending W1)) (broken W1 ∪ {[who]}), Ok, r).
Definition restart_info (W : world) (who : N) : world :=
  w_upd W (deleg W) (unbond W) (pending W) (broken W ∖ {[who]}).

(** grant needed when the caller is not the origin; returns the limit *)
Definition check_grant (W : world) (c : N) (kind : N) (amt : Z) : option (option Z) :=
  match grants W !! (c, kind) with
  | None => None
  | Some None => Some None
  | Some (Some l) => if l <? amt then None else Some (Some l)
  end.
Definition spend_grant (W : world) (c : N) (kind : N) (lim : option Z) (amt : Z) : world :=
  match lim with
  | None => W
  | Some l =>
      let g := if l - amt =? 0 then delete (c, kind) (grants W) else <[(c, kind) := Some (l - amt)]> (grants W) in
      mkworld (bank W) (supply W) (wexists W) (deleg W) (unbond W) (wdaddr W) (pending W) (broken W) g (store W)
  end.

(** native MsgDelegate from [who] *)
Definition native_delegate (W : world) (who : N) (amt : Z) : world * outcome :=
  if amt <=? 0 then (W, Fail) else
  (* haqq's staking message server looks the delegator's account up first (vesting check): a contract
     deleted earlier in the transaction has none, and the message fails before any hook runs *)
  if negb (bool_decide (who ∈ wexists W)) then (W, Fail) else
  let '(W1, oc, _) := if 0 <? zg (deleg W) who then payout W who else (W, Ok, 0) in
  match oc with
  | Ok =>
      if zg (bank W1) who <? amt then (W1, Fail)      (* the hook's payout is NOT undone *)
      else let W2 := move W1 who A_BONDED amt in
           (restart_info (w_upd W2 (<[who := zg (deleg W2) who + amt]> (deleg W2)) (unbond W2) (pending W2) (broken W2)) who, Ok)
  | _ => (W1, oc)
  end.
Definition native_undelegate (W : world) (who : N) (amt : Z) : world * outcome :=
  if amt <=? 0 then (W, Fail) else
  if zg (deleg W) who <? amt then (W, Fail) else
  if zg (deleg W) who =? 0 then (W, Fail) else
  let '(W1, oc, _) := payout W who in
  match oc with
  | Ok => let W2 := move W1 A_BONDED A_NOTBONDED amt in
          (restart_info (w_upd W2 (<[who := zg (deleg W2) who - amt]> (deleg W2))
                               (<[who := zg (unbond W2) who + amt]> (unbond W2)) (pending W2) (broken W2)) who, Ok)
  | _ => (W1, oc)
  end.
Definition native_withdraw (W : world) (who : N) : world * outcome * Z :=
  if zg (deleg W) who =? 0 then (W, Fail, 0) else
  let '(W1, oc, r) := payout W who in
  match oc with Ok => (restart_info W1 who, Ok, r) | _ => (W1, oc, 0) end.
(** the distribution parameter withdraw_addr_enabled is kept in [wexists] under a reserved
    pseudo-account (present = disabled), so that the world record stays small *)
Definition A_WD_DISABLED : N := 99.
Definition native_setwithdraw (W : world) (who to : N) : world * outcome :=
  if bool_decide (A_WD_DISABLED ∈ wexists W) then (W, Fail) else
  if blocked to then (W, Fail)
  else (mkworld (bank W) (supply W) (wexists W) (deleg W) (unbond W) (<[who := to]> (wdaddr W)) (pending W) (broken W)
                (grants W) (store W), Ok).

(** native MsgTransfer of the bond denomination over the open channel: the coins are
    escrowed (nothing changes when the sender cannot pay) *)
Definition native_transfer (W : world) (who : N) (amt : Z) : world * outcome :=
  if amt <=? 0 then (W, Fail) else
  if zg (bank W) who <? amt then (W, Fail) else
  let W1 := move W who A_ESCROW amt in
  (mkworld (bank W1) (supply W1) (wexists W1 ∪ {[A_ESCROW]}) (deleg W1) (unbond W1) (wdaddr W1) (pending W1) (broken W1)
           (grants W1) (store W1), Ok).

(** the precompile body after the flush: identity rule, grant, native message,
    grant update, event, mirror.  [c] caller, [o] origin. *)
Definition pre_body (W : world) (D : sdb) (o c : N) (p : pcall) : world * sdb * outcome :=
  match p with
  | PDelegate who amt | PUndelegate who amt | PTransfer who amt =>
      let kind := match p with PDelegate _ _ => 1%N | PTransfer _ _ => 2%N | _ => 0%N end in
      if amt <=? 0 then (W, D, Fail) else
      if negb (N.eqb c who) && negb (N.eqb o who) then (W, D, Fail) else
      let lim := if N.eqb c o then Some None else check_grant W c kind amt in
      match lim with
      | None => (W, D, Fail)
      | Some l =>
          let '(W1, oc) := match p with
                           | PDelegate _ _ => native_delegate W who amt
                           | PTransfer _ _ => native_transfer W who amt
                           | _ => native_undelegate W who amt
                           end in
          match oc with
          | Ok =>
              let W2 := if N.eqb c o then W1 else spend_grant W1 c kind l amt in
              let D1 := add_log D in
              (* the mirror: the caller's cached balance follows the bank only when the caller is the payer *)
              let D2 := if negb (N.eqb kind 0) && N.eqb c who then sub_bal W2 D1 c amt else D1 in
              (W2, D2, Ok)
          | _ => (W1, D, oc)
          end
      end
  | PWithdraw who =>
      if negb (N.eqb c who) && negb (N.eqb o who) then (W, D, Fail) else
      let '(W1, oc, r) := native_withdraw W who in
      match oc with
      | Ok => let D1 := add_log D in     (* zero rewards come back as a zero coin: res.Amount[0] exists *)
              (W1, if N.eqb c who then add_bal W1 D1 c r else D1, Ok)
      | _ => (W1, D, oc)
      end
  | PSetWithdraw who to =>
      if negb (N.eqb c who) && negb (N.eqb o who) then (W, D, Fail) else
      let '(W1, oc) := native_setwithdraw W who to in
      match oc with Ok => (W1, add_log D, Ok) | _ => (W1, D, oc) end
  | PClaim who =>
      if negb (N.eqb c who) && negb (N.eqb o who) then (W, D, Fail) else
      if zg (deleg W) who =? 0 then (W, add_log D, Ok) else
      let '(W1, oc, _) := native_withdraw W who in
      match oc with Ok => (W1, add_log D, Ok) | _ => (W1, D, oc) end
  end.

Definition pre_target (p : pcall) : N :=
  match p with PDelegate _ _ | PUndelegate _ _ => 5%N | PTransfer _ _ => 12%N | _ => 6%N end.

(** * go-ethereum's Call over this StateDB *)
Definition st := (world * sdb)%type.

(** [run] executes the callee (script body, precompile, or nothing for an EOA) *)
(** [force]: CREATE always makes the account; a CALL with no value to an address that does not exist (and is
    not a precompile) returns at once without touching anything (EIP-158) *)
Definition do_call_gen (force : bool) (order : list N) (s : st) (caller target : N) (value : Z)
           (run : st -> st * outcome) : st * outcome :=
  let '(W, D) := s in
  if negb (value =? 0) && (cbal (load W D caller) caller <? value) then ((W, load W D caller), Fail) else
  let D0 := if value =? 0 then D else load W D caller in
  let snap := snapshot D0 in
  let D1 := load W D0 target in
  if negb force && match objs D1 !! target with None => true | Some _ => false end && (value =? 0) && negb (is_precompile target)
  then ((W, D0), Ok) else
  let D2 := match objs D1 !! target with
            | Some _ => D1
            | None => japp (set_obj D1 target (mkobj 0 ∅ ∅ ∅ false)) (JCreate target)   (* CreateAccount *)
            end in
  let D3 := add_bal W (sub_bal W D2 caller value) target value in
  let '((W4, D4), oc) := run (W, D3) in
  match oc with
  | Ok => ((W4, D4), Ok)
  | Fail => ((W4, revert_to D4 snap), Fail)
  end.
Definition do_call := do_call_gen false.

Definition run_pre (order : list N) (o c : N) (p : pcall) (s : st) : st * outcome :=
  let '(W, D) := s in
  let '(W1, D1, ok) := commit order W D in
  if ok then let '(W2, D2, oc) := pre_body W1 D1 o c p in ((W2, D2), oc) else ((W1, D1), Fail).

Inductive instr :=
| ISStore (k v : Z) | ILog | IRevert | IBalance (a : N)
| ISelfdestruct (b : N)     (* SELFDESTRUCT to beneficiary b; halts the frame: the encoder puts it last in a body *)
| ICall (t : N) (value : Z) (catch : bool) (rec : option Z) (body : list instr)
| ICreate (addrs : list N) (value : Z) (catch : bool) (rec : option Z) (setcode : bool) (body : list instr)
      (* CREATE with a constructor running [body] as the new contract; [addrs]: the CREATE address for the creator's
         nonce slot 0, 1, ... (computed by the harness); [setcode]: the constructor returns non-empty runtime code *)
| IPre (p : pcall) (value : Z) (catch : bool) (rec : option Z).

Definition after_call (self : N) (catch : bool) (rec : option Z) (r : st * outcome) : st * outcome :=
  let '((W, D), oc) := r in
  let ok := match oc with Ok => true | Fail => false end in
  let D1 := match rec with Some slot => set_state W D self slot (if ok then 2 else 1) | None => D end in
  if catch || ok then ((W, D1), Ok) else ((W, D1), Fail).

Fixpoint exec_instr (order : list N) (o self : N) (i : instr) (s : st) {struct i} : st * outcome :=
  match i with
  | ISStore k v => let '(W, D) := s in ((W, set_state W D self k v), Ok)
  | ILog => let '(W, D) := s in ((W, add_log D), Ok)
  | IRevert => (s, Fail)
  | IBalance a => let '(W, D) := s in ((W, load W D a), Ok)
  | ISelfdestruct b =>
      let '(W, D) := s in
      let D0 := load W D self in
      match objs D0 !! self with
      | None => ((W, D0), Ok)                    (* cannot happen: the executing contract is loaded *)
      | Some o => ((W, suicide (add_bal W D0 b (obal o)) self), Ok)   (* AddBalance(beneficiary, balance); Suicide(self) *)
      end
  | ICall t value catch rec body =>
      let run := (fix exec_list (l : list instr) (s : st) : st * outcome :=
                    match l with
                    | [] => (s, Ok)
                    | x :: r => let '(s1, oc) := exec_instr order o t x s in
                                match oc with Ok => exec_list r s1 | _ => (s1, oc) end
                    end) in
      after_call self catch rec (do_call order s self t value (fun s' => if N.leb 2 t && N.leb t 4 then run body s' else (s', Ok)))
  | ICreate addrs value catch rec setcode body =>
      let run := (fix exec_list (l : list instr) (t : N) (s : st) {struct l} : st * outcome :=
                    match l with
                    | [] => (s, Ok)
                    | x :: r => let '(s1, oc) := exec_instr order o t x s in
                                match oc with Ok => exec_list r t s1 | _ => (s1, oc) end
                    end) in
      let '(W, D) := s in
      (* CanTransfer comes first: nothing happens when the creator cannot pay *)
      if negb (value =? 0) && (cbal (load W D self) self <? value) then after_call self catch rec ((W, load W D self), Fail) else
      let D0 := load W D self in
      let n := read_state W D0 self NONCE_SLOT in
      let D1 := set_state W D0 self NONCE_SLOT (n + 1) in     (* the creator's nonce moves before the snapshot: it stays when the creation fails *)
      match nth_error addrs (Z.to_nat n) with
      | None => after_call self catch rec ((W, D1), Fail)      (* the harness supplies enough addresses *)
      | Some t =>
          (* address collision: the target has a non-zero nonce or code (ErrContractAddressCollision, before the snapshot) *)
          let D1c := load W D1 t in
          if negb (read_state W D1c t CREATED_SLOT =? 0) || negb (read_state W D1c t CODE_SLOT =? 0)
          then after_call self catch rec ((W, D1c), Fail) else
          after_call self catch rec
            (do_call_gen true order (W, D1) self t value
               (fun s' => let '(W', D') := s' in
                          (* CreateAccount (the transfer has been made: the balance is carried over), SetNonce(new, 1) *)
                          let s1 := (W', set_state W' (reset_obj D' t) t CREATED_SLOT 1) in
                          let '(s2, oc) := run body t s1 in
                          match oc with
                          | Ok => ((fst s2, if setcode then set_state (fst s2) (snd s2) t CODE_SLOT 1 else snd s2), Ok)
                          | Fail => (s2, Fail)
                          end))
      end
  | IPre p value catch rec =>
      after_call self catch rec (do_call order s self (pre_target p) value (run_pre order o self p))
  end.

Fixpoint exec_list (order : list N) (o self : N) (l : list instr) (s : st) : st * outcome :=
  match l with
  | [] => (s, Ok)
  | x :: r => let '(s1, oc) := exec_instr order o self x s in
              match oc with Ok => exec_list order o self r s1 | _ => (s1, oc) end
  end.

(** * a whole transaction (ApplyTransaction: cache context written back only on success) *)
Inductive top := TopCall (t : N) (body : list instr) | TopPre (p : pcall).

Definition run_tx (order : list N) (W0 : world) (value : Z) (t : top) : world * bool :=
  let o := 0%N in
  let r := match t with
           | TopCall c body => do_call order (W0, sdb0) o c value (exec_list order o c body)
           | TopPre p => do_call order (W0, sdb0) o (pre_target p) value (run_pre order o o p)
           end in
  let '((W, D), oc) := r in
  let '(W1, _, ok) := commit order W D in
  if ok then match oc with Ok => (W1, true) | Fail => (W0, false) end else (W0, false).

(** the number of logs in the transaction's response: those of the surviving frames (a failed transaction has none) *)
Definition run_tx_logs (order : list N) (W0 : world) (value : Z) (t : top) : nat :=
  let o := 0%N in
  let r := match t with
           | TopCall c body => do_call order (W0, sdb0) o c value (exec_list order o c body)
           | TopPre p => do_call order (W0, sdb0) o (pre_target p) value (run_pre order o o p)
           end in
  let '((W, D), oc) := r in
  let '(_, _, ok) := commit order W D in
  if ok then match oc with Ok => logs D | Fail => O end else O.

(** * cases and observations, as the harness prints them *)
Record ecase := mkecase {
  e_bal : list Z; e_deleg : list Z; e_reward : list Z; e_wd : list N;
  e_grants : list (N * N * option Z); e_order : list N; e_slots : list (N * Z);
  e_value : Z; e_top : top; e_wd_disabled : bool
}.
Record eobs := mkeobs {
  b_ok : bool; b_bal : list Z; b_supply : Z; b_deleg : list Z; b_unbond : list Z; b_wd : list Z;
  b_storage : list (N * Z * Z);
  b_alive : list Z;                   (* contracts 2..4 and the CREATE addresses 14..19: 0 no auth account, 1 account without code, 2 with code *)
  b_nonce : list Z;                   (* CREATEs made by the contracts 2..4 (account nonce - 1) *)
  b_logs : Z                          (* number of logs in the transaction's response *)
}.
Global Instance eobs_eq_dec : EqDecision eobs.
Proof. solve_decision. Defined.

Fixpoint of_list_from (i : N) (l : list Z) : gmap N Z :=
  match l with [] => ∅ | x :: r => <[i := x]> (of_list_from (N.succ i) r) end.
Fixpoint wd_from (i : N) (l : list N) : gmap N N :=
  match l with [] => ∅ | x :: r => <[i := x]> (wd_from (N.succ i) r) end.

Definition nseq (n : nat) : list N := map N.of_nat (seq 0 n).

(** initial world: balances as given (delegated coins already moved), delegations,
    pending rewards, withdraw addresses, the origin's grants *)
Definition world_of (c : ecase) (mod_bal : list Z) : world :=
  mkworld (of_list_from 0 (e_bal c ++ mod_bal)) 0
          (list_to_set (nseq 5) ∪ list_to_set [7%N; 8%N; 9%N; 10%N; 11%N] ∪ (if e_wd_disabled c then {[A_WD_DISABLED]} else ∅))
          (of_list_from 0 (e_deleg c)) ∅ (wd_from 0 (e_wd c))
          (of_list_from 0 (e_reward c)) ∅
          (list_to_map (map (fun '(g, d, l) => ((g, d), l)) (e_grants c)))
          (list_to_map [((2%N, CODE_SLOT), 1); ((3%N, CODE_SLOT), 1); ((4%N, CODE_SLOT), 1)]).

Definition observe (c : ecase) (W : world) (ok : bool) (nlogs : nat) : eobs :=
  mkeobs ok (map (fun a => zg (bank W) a) (nseq 20)) (supply W)
         (map (fun a => zg (deleg W) a) (nseq 5)) (map (fun a => zg (unbond W) a) (nseq 5))
         (map (fun a => Z.of_N (withdraw_addr W a)) (nseq 5))
         (flat_map (fun '(a, k) => let v := zg (store W) (a, k) in if v =? 0 then [] else [(a, k, v)]) (e_slots c))
         (map (fun a => if bool_decide (a ∈ wexists W) then (if zg (store W) (a, CODE_SLOT) =? 0 then 1 else 2) else 0)
              [2%N; 3%N; 4%N; 14%N; 15%N; 16%N; 17%N; 18%N; 19%N])
         (map (fun a => zg (store W) (a, NONCE_SLOT)) [2%N; 3%N; 4%N])
         (Z.of_nat nlogs).

(** well-formed programs: SELFDESTRUCT halts its frame, so nothing follows it in a body *)
Fixpoint sd_ok (i : instr) : bool :=
  match i with
  | ICall _ _ _ _ body | ICreate _ _ _ _ _ body =>
      (fix go (l : list instr) : bool :=
         match l with
         | [] => true
         | x :: r => sd_ok x && match x, r with ISelfdestruct _, _ :: _ => false | _, _ => true end && go r
         end) body
  | _ => true
  end.
Definition sd_ok_top (t : top) : bool :=
  match t with TopCall c body => sd_ok (ICall c 0 false None body) | TopPre _ => true end.

(** the harness passes the module accounts' balances before the tx as part of the
    observed pre-state; they are inputs of the model *)
Definition check_case (x : ecase * list Z * eobs) : bool :=
  let '(c, mods, ob) := x in
  let '(W, ok) := run_tx (e_order c) (world_of c mods) (e_value c) (e_top c) in
  sd_ok_top (e_top c) &&
  bool_decide (observe c W ok (run_tx_logs (e_order c) (world_of c mods) (e_value c) (e_top c)) = ob).

Fixpoint mismatches_from (i : nat) (cs : list (ecase * list Z * eobs)) : list nat :=
  match cs with
  | [] => []
  | c :: r => if check_case c then mismatches_from (Datatypes.S i) r else i :: mismatches_from (Datatypes.S i) r
  end.
Definition mismatches cs := mismatches_from 0 cs.
