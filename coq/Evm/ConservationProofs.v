(** Supply conservation (property C02): the exact supply delta of a StateDB commit, and
    conservation for every pure EVM program (contract-to-contract value transfers,
    reverts at any place). *)
From Coq Require Import ZArith List Lia.
From stdpp Require Import gmap.
From HV Require Import Evm.ExecModel Evm.JournalProofs Evm.SupplyProofs.
Local Open Scope Z_scope.

(** * the supply delta of a commit *)
Definition gap1 (W : world) (D : sdb) (a : N) : Z :=
  match dirties D !! a, objs D !! a with
  | Some _, Some o => obal o - zg (bank W) a
  | _, _ => 0
  end.
Fixpoint lsumz (f : N -> Z) (l : list N) : Z := match l with [] => 0 | a :: r => f a + lsumz f r end.

Lemma lsumz_ext f g l : (forall a, In a l -> f a = g a) -> lsumz f l = lsumz g l.
Proof.
  induction l as [|a r IH]; cbn; [done|]. intros H. rewrite (H a) by auto. rewrite IH; [done|]. intros b Hb. apply H. auto.
Qed.

Lemma commit_storage_obal W a o : obal (snd (commit_storage W a o)) = obal o.
Proof.
  unfold commit_storage. generalize (map_to_list (dstor o)). intros l.
  enough (H : forall Wx ox, obal ox = obal o ->
    obal (snd (fold_left
     (fun '(W, o) '(k, v) =>
        let skip := match tstor o !! k with Some t => t =? v | None => v =? zg (ostor o) k end in
        if skip then (W, o)
        else (mkworld (bank W) (supply W) (wexists W) (deleg W) (unbond W) (wdaddr W) (pending W) (broken W) (grants W)
                      (<[(a, k) := v]> (store W)),
              mkobj (obal o) (dstor o) (ostor o) (<[k := v]> (tstor o)))) l (Wx, ox))) = obal o).
  { by apply H. }
  induction l as [|[k v] l IH]; intros Wx ox Hb; cbn [fold_left snd]; [done|].
  destruct (match tstor ox !! k with Some t => t =? v | None => v =? zg (ostor ox) k end); apply IH; done.
Qed.

Lemma commit_one_frame W D a W' D' ok : commit_one W D a = (W', D', ok) ->
  dirties D' = dirties D /\
  (forall b, obal <$> objs D' !! b = obal <$> objs D !! b) /\
  (ok = true -> forall b, b <> a -> zg (bank W') b = zg (bank W) b).
Proof.
  unfold commit_one. destruct (objs D !! a) as [o|] eqn:Ho.
  2:{ intros H; inversion H; subst. auto. }
  cbn [bank supply wexists].
  destruct (obal o <? 0); [intros H; inversion H; subst; split; [done|]; split; [done|]; discriminate|].
  destruct ((0 <? obal o - zg (bank W) a) && blocked a); [intros H; inversion H; subst; split; [done|]; split; [done|]; discriminate|].
  set (W1 := mkworld _ _ _ _ _ _ _ _ _ _).
  pose proof (commit_storage_bank W1 a o) as [Hb _].
  pose proof (commit_storage_obal W1 a o) as Hob.
  destruct (commit_storage W1 a o) as [W2 o2]. cbn [fst snd] in Hb, Hob.
  intros H; inversion H; subst W' D' ok. cbn. split; [done|]. split.
  - intros b. destruct (decide (a = b)) as [->|]; [rewrite lookup_insert, Ho; cbn; by rewrite Hob|by rewrite lookup_insert_ne].
  - intros _ b Hne. unfold zg. rewrite Hb. unfold W1; cbn. by rewrite lookup_insert_ne.
Qed.

Lemma gap1_frame W D W' D' a : dirties D' = dirties D ->
  (forall b, obal <$> objs D' !! b = obal <$> objs D !! b) -> zg (bank W') a = zg (bank W) a ->
  gap1 W' D' a = gap1 W D a.
Proof.
  intros Hd Ho Hb. unfold gap1. rewrite Hd. specialize (Ho a).
  destruct (dirties D !! a); [|done]. destruct (objs D' !! a), (objs D !! a); cbn in Ho; try congruence.
  all: inversion Ho; by rewrite Hb.
Qed.

Theorem commit_supply_formula : forall order W D W' D',
  NoDup order -> commit_list W D order = (W', D', true) ->
  supply W' = supply W + lsumz (gap1 W D) order.
Proof.
  induction order as [|a r IH]; intros W D W' D' Hnd H; cbn [commit_list lsumz] in *.
  - inversion H. lia.
  - apply NoDup_cons in Hnd as [Hna Hnd].
    destruct (dirties D !! a) as [c|] eqn:Hda.
    + rewrite bool_decide_eq_true_2 in H by eauto.
      destruct (commit_one W D a) as [[W1 D1] ok] eqn:Hc. destruct ok; [|inversion H].
      destruct (commit_one_frame _ _ _ _ _ _ Hc) as (Hd & Ho & Hb). specialize (Hb eq_refl).
      rewrite (IH _ _ _ _ Hnd H).
      assert (Hr : lsumz (gap1 W1 D1) r = lsumz (gap1 W D) r).
      { apply lsumz_ext. intros b Hin. apply gap1_frame; auto. apply Hb. intros ->. apply Hna. by apply elem_of_list_In. }
      rewrite Hr. unfold gap1 at 2. rewrite Hda.
      destruct (objs D !! a) as [o|] eqn:Hoa.
      * destruct (commit_one_exact _ _ _ _ _ _ Hoa Hc) as (_ & Hs & _). lia.
      * unfold commit_one in Hc. rewrite Hoa in Hc. inversion Hc. lia.
    + rewrite bool_decide_eq_false_2 in H by (intros [? ?]; congruence).
      rewrite (IH _ _ _ _ Hnd H). unfold gap1 at 2. rewrite Hda. lia.
Qed.

(** * cache view of balances, its total, and coherence of clean objects *)
Definition view (W : world) (D : sdb) (a : N) : Z :=
  match objs D !! a with Some o => obal o | None => zg (bank W) a end.
Definition total (U : list N) (W : world) (D : sdb) : Z := lsumz (view W D) U.

Definition coh (W : world) (D : sdb) : Prop :=
  forall a o, objs D !! a = Some o -> dirties D !! a = None -> obal o = zg (bank W) a.
Definition cohp (W : world) (D : sdb) : Prop := forall n, (n <= jlen D)%nat -> coh W (revert_to D n).

Lemma view_obs_eq W D1 D2 a : obs_eq W D1 D2 -> view W D1 a = view W D2 a.
Proof.
  intros (_ & _ & _ & Ho). specialize (Ho a). unfold view.
  destruct (objs D1 !! a), (objs D2 !! a); cbn in Ho; try tauto.
  all: by destruct Ho.
Qed.
Lemma total_obs_eq U W D1 D2 : obs_eq W D1 D2 -> total U W D1 = total U W D2.
Proof. intros H. apply lsumz_ext. intros a _. by apply view_obs_eq. Qed.
Lemma coh_obs_eq W D1 D2 : obs_eq W D1 D2 -> coh W D2 -> coh W D1.
Proof.
  intros (_ & Hd & _ & Ho) Hc a o Hoa Hda. specialize (Ho a). rewrite Hoa in Ho.
  destruct (objs D2 !! a) as [o2|] eqn:E; cbn in Ho; [|tauto]. destruct Ho as (-> & _).
  apply (Hc a o2 E). by rewrite <- Hd.
Qed.

Lemma cohp_here W D : cohp W D -> coh W D.
Proof. intros H. specialize (H (jlen D) (le_n _)). by rewrite revert_to_self in H. Qed.

(** a single-entry push keeps [cohp] when the new state itself is coherent *)
Lemma cohp_push W D D' e : journal D' = e :: journal D ->
  obs_eq W (pop_n D' 1) D -> cohp W D -> coh W D' -> cohp W D'.
Proof.
  intros Hj Hpop Hc Hhere n Hn. unfold jlen in Hn. rewrite Hj in Hn. cbn in Hn.
  destruct (decide (n = S (jlen D))) as [->|Hne].
  - assert (E : revert_to D' (S (jlen D)) = D').
    { unfold revert_to. rewrite Hj. cbn [length]. unfold jlen. by rewrite Nat.sub_diag. }
    by rewrite E.
  - assert (Hn' : (n <= jlen D)%nat) by (unfold jlen in *; lia).
    eapply coh_obs_eq; [|apply (Hc n Hn')].
    unfold revert_to. rewrite Hj. cbn [length].
    replace (S (length (journal D)) - n)%nat with (1 + (length (journal D) - n))%nat by (unfold jlen in *; lia).
    rewrite pop_n_add. by apply pop_n_obs_eq.
Qed.
Lemma cohp_same_journal W D D' : journal D' = journal D -> obs_eq W D' D -> cohp W D -> cohp W D'.
Proof.
  intros Hj Ho Hc n Hn. unfold jlen in Hn. rewrite Hj in Hn.
  eapply coh_obs_eq; [|apply (Hc n Hn)]. unfold revert_to. rewrite Hj. by apply pop_n_obs_eq.
Qed.
Lemma cohp_revert W D s : cohp W D -> (s <= jlen D)%nat -> cohp W (revert_to D s).
Proof.
  intros Hc Hs n Hn. unfold revert_to in Hn. fold (jlen D) in Hn. rewrite pop_n_len in Hn by lia.
  rewrite revert_to_revert by lia. apply Hc. lia.
Qed.
