(** Supply conservation (property C02): the exact supply delta of a StateDB commit, and
    conservation for every pure EVM program (contract-to-contract value transfers,
    reverts at any place). *)
From Coq Require Import ZArith List Lia.
From stdpp Require Import gmap.
From HV Require Import Evm.ExecModel Evm.JournalProofs Evm.SupplyProofs.
Local Open Scope Z_scope.

(** * the supply delta of a commit *)
Definition gap1 (W : world) (D : sdb) (a : N) : Z :=
  match dirties D !! a, objs D !! a with
  | Some _, Some o =>
      if osui o then (if bool_decide (a ∈ wexists W) then - zg (bank W) a else 0)   (* deleted: its bank balance is burned *)
      else obal o - zg (bank W) a
  | _, _ => 0
  end.
Fixpoint lsumz (f : N -> Z) (l : list N) : Z := match l with [] => 0 | a :: r => f a + lsumz f r end.

Lemma lsumz_ext f g l : (forall a, In a l -> f a = g a) -> lsumz f l = lsumz g l.
Proof.
  induction l as [|a r IH]; cbn; [done|]. intros H. rewrite (H a) by auto. rewrite IH; [done|]. intros b Hb. apply H. auto.
Qed.

Lemma commit_storage_obal W a o : obal (snd (commit_storage W a o)) = obal o.
Proof.
  unfold commit_storage. generalize (map_to_list (dstor o)). intros l.
  enough (H : forall Wx ox, obal ox = obal o ->
    obal (snd (fold_left
     (fun '(W, o) '(k, v) =>
        let skip := match tstor o !! k with Some t => t =? v | None => v =? zg (ostor o) k end in
        if skip then (W, o)
        else (mkworld (bank W) (supply W) (wexists W) (deleg W) (unbond W) (wdaddr W) (pending W) (broken W) (grants W)
                      (<[(a, k) := v]> (store W)),
              mkobj (obal o) (dstor o) (ostor o) (<[k := v]> (tstor o)) (osui o))) l (Wx, ox))) = obal o).
  { by apply H. }
  induction l as [|[k v] l IH]; intros Wx ox Hb; cbn [fold_left snd]; [done|].
  destruct (match tstor ox !! k with Some t => t =? v | None => v =? zg (ostor ox) k end); apply IH; done.
Qed.
Lemma commit_storage_osui W a o : osui (snd (commit_storage W a o)) = osui o.
Proof.
  unfold commit_storage. generalize (map_to_list (dstor o)). intros l.
  enough (H : forall Wx ox, osui ox = osui o ->
    osui (snd (fold_left
     (fun '(W, o) '(k, v) =>
        let skip := match tstor o !! k with Some t => t =? v | None => v =? zg (ostor o) k end in
        if skip then (W, o)
        else (mkworld (bank W) (supply W) (wexists W) (deleg W) (unbond W) (wdaddr W) (pending W) (broken W) (grants W)
                      (<[(a, k) := v]> (store W)),
              mkobj (obal o) (dstor o) (ostor o) (<[k := v]> (tstor o)) (osui o))) l (Wx, ox))) = osui o).
  { by apply H. }
  induction l as [|[k v] l IH]; intros Wx ox Hb; cbn [fold_left snd]; [done|].
  destruct (match tstor ox !! k with Some t => t =? v | None => v =? zg (ostor ox) k end); apply IH; done.
Qed.
Lemma commit_storage_wexists W a o : wexists (fst (commit_storage W a o)) = wexists W.
Proof.
  unfold commit_storage. generalize (map_to_list (dstor o)). intros l.
  enough (H : forall Wx ox, wexists Wx = wexists W ->
    wexists (fst (fold_left
     (fun '(W, o) '(k, v) =>
        let skip := match tstor o !! k with Some t => t =? v | None => v =? zg (ostor o) k end in
        if skip then (W, o)
        else (mkworld (bank W) (supply W) (wexists W) (deleg W) (unbond W) (wdaddr W) (pending W) (broken W) (grants W)
                      (<[(a, k) := v]> (store W)),
              mkobj (obal o) (dstor o) (ostor o) (<[k := v]> (tstor o)) (osui o))) l (Wx, ox))) = wexists W).
  { by apply H. }
  induction l as [|[k v] l IH]; intros Wx ox Hb; cbn [fold_left fst]; [done|].
  destruct (match tstor ox !! k with Some t => t =? v | None => v =? zg (ostor ox) k end); apply IH; done.
Qed.

Lemma commit_one_frame W D a W' D' ok : commit_one W D a = (W', D', ok) ->
  dirties D' = dirties D /\
  (forall b, obal <$> objs D' !! b = obal <$> objs D !! b) /\
  (forall b, osui <$> objs D' !! b = osui <$> objs D !! b) /\
  (ok = true -> forall b, b <> a -> zg (bank W') b = zg (bank W) b /\ (b ∈ wexists W' <-> b ∈ wexists W)).
Proof.
  unfold commit_one. destruct (objs D !! a) as [o|] eqn:Ho.
  2:{ intros H; inversion H; subst. auto. }
  destruct (osui o) eqn:Hsu.
  { intros H; inversion H; subst W' D' ok. split; [done|]. split; [done|]. split; [done|]. intros _ b Hne.
    unfold delete_account. destruct (bool_decide (a ∈ wexists W)); [|done]. cbn. unfold zg. rewrite lookup_insert_ne by done.
    split; [done|]. set_solver. }
  cbn [bank supply wexists].
  destruct (obal o <? 0); [intros H; inversion H; subst; split; [done|]; split; [done|]; split; [done|]; discriminate|].
  destruct ((0 <? obal o - zg (bank W) a) && blocked a); [intros H; inversion H; subst; split; [done|]; split; [done|]; split; [done|]; discriminate|].
  set (W1 := mkworld _ _ _ _ _ _ _ _ _ _).
  pose proof (commit_storage_bank W1 a o) as [Hb _].
  pose proof (commit_storage_obal W1 a o) as Hob.
  pose proof (commit_storage_osui W1 a o) as Hos.
  pose proof (commit_storage_wexists W1 a o) as Hwe.
  destruct (commit_storage W1 a o) as [W2 o2]. cbn [fst snd] in Hb, Hob, Hos, Hwe.
  intros H; inversion H; subst W' D' ok. cbn. split; [done|]. split; [|split].
  - intros b. destruct (decide (a = b)) as [->|]; [rewrite lookup_insert, Ho; cbn; by rewrite Hob|by rewrite lookup_insert_ne].
  - intros b. destruct (decide (a = b)) as [->|]; [rewrite lookup_insert, Ho; cbn; by rewrite Hos|by rewrite lookup_insert_ne].
  - intros _ b Hne. unfold zg. rewrite Hb, Hwe. unfold W1; cbn. rewrite lookup_insert_ne by done. split; [done|]. set_solver.
Qed.

Lemma gap1_frame W D W' D' a : dirties D' = dirties D ->
  (forall b, obal <$> objs D' !! b = obal <$> objs D !! b) ->
  (forall b, osui <$> objs D' !! b = osui <$> objs D !! b) ->
  zg (bank W') a = zg (bank W) a -> (a ∈ wexists W' <-> a ∈ wexists W) ->
  gap1 W' D' a = gap1 W D a.
Proof.
  intros Hd Ho Hs Hb Hw. unfold gap1. rewrite Hd. specialize (Ho a). specialize (Hs a).
  destruct (dirties D !! a); [|done]. destruct (objs D' !! a) as [o'|], (objs D !! a) as [o|]; cbn in Ho, Hs; try congruence.
  inversion Ho as [Ho']. inversion Hs as [Hs']. rewrite Ho', Hs', Hb.
  destruct (osui o); [|done]. destruct (decide (a ∈ wexists W)) as [Hin|Hn].
  - rewrite !bool_decide_eq_true_2 by tauto. done.
  - rewrite !bool_decide_eq_false_2 by tauto. done.
Qed.

Theorem commit_supply_formula : forall order W D W' D',
  NoDup order -> commit_list W D order = (W', D', true) ->
  supply W' = supply W + lsumz (gap1 W D) order.
Proof.
  induction order as [|a r IH]; intros W D W' D' Hnd H; cbn [commit_list lsumz] in *.
  - inversion H. lia.
  - apply NoDup_cons in Hnd as [Hna Hnd].
    destruct (dirties D !! a) as [c|] eqn:Hda.
    + rewrite bool_decide_eq_true_2 in H by eauto.
      destruct (commit_one W D a) as [[W1 D1] ok] eqn:Hc. destruct ok; [|inversion H].
      destruct (commit_one_frame _ _ _ _ _ _ Hc) as (Hd & Ho & Hsu & Hb). specialize (Hb eq_refl).
      rewrite (IH _ _ _ _ Hnd H).
      assert (Hr : lsumz (gap1 W1 D1) r = lsumz (gap1 W D) r).
      { apply lsumz_ext. intros b Hin.
        assert (Hne : b <> a) by (intros ->; apply Hna; by apply elem_of_list_In).
        apply gap1_frame; auto; by apply Hb. }
      rewrite Hr. unfold gap1 at 2. rewrite Hda.
      destruct (objs D !! a) as [o|] eqn:Hoa.
      * destruct (osui o) eqn:Hos.
        -- destruct (commit_one_suicided_exact _ _ _ _ _ _ _ Hoa Hos Hc) as (_ & _ & _ & Hin & Hn & _).
           destruct (decide (a ∈ wexists W)) as [Hi|Hi].
           ++ rewrite bool_decide_eq_true_2 by done. destruct (Hin Hi) as [_ Hs]. lia.
           ++ rewrite bool_decide_eq_false_2 by done. rewrite (Hn Hi). lia.
        -- destruct (commit_one_exact _ _ _ _ _ _ Hoa Hos Hc) as (_ & Hs & _). lia.
      * unfold commit_one in Hc. rewrite Hoa in Hc. inversion Hc. lia.
    + rewrite bool_decide_eq_false_2 in H by (intros [? ?]; congruence).
      rewrite (IH _ _ _ _ Hnd H). unfold gap1 at 2. rewrite Hda. lia.
Qed.

(** * cache view of balances, its total, and coherence of clean objects *)
Definition view (W : world) (D : sdb) (a : N) : Z :=
  match objs D !! a with Some o => obal o | None => zg (bank W) a end.
Definition total (U : list N) (W : world) (D : sdb) : Z := lsumz (view W D) U.

Definition coh (W : world) (D : sdb) : Prop :=
  forall a o, objs D !! a = Some o -> dirties D !! a = None -> obal o = zg (bank W) a.
Definition cohp (W : world) (D : sdb) : Prop := forall n, (n <= jlen D)%nat -> coh W (revert_to D n).

Lemma view_obs_eq W D1 D2 a : obs_eq W D1 D2 -> view W D1 a = view W D2 a.
Proof.
  intros (_ & _ & _ & Ho). specialize (Ho a). unfold view.
  destruct (objs D1 !! a), (objs D2 !! a); cbn in Ho; try tauto.
  all: by destruct Ho.
Qed.
Lemma total_obs_eq U W D1 D2 : obs_eq W D1 D2 -> total U W D1 = total U W D2.
Proof. intros H. apply lsumz_ext. intros a _. by apply view_obs_eq. Qed.
Lemma coh_obs_eq W D1 D2 : obs_eq W D1 D2 -> coh W D2 -> coh W D1.
Proof.
  intros (_ & Hd & _ & Ho) Hc a o Hoa Hda. specialize (Ho a). rewrite Hoa in Ho.
  destruct (objs D2 !! a) as [o2|] eqn:E; cbn in Ho; [|tauto]. destruct Ho as (-> & _).
  apply (Hc a o2 E). by rewrite <- Hd.
Qed.

Lemma cohp_here W D : cohp W D -> coh W D.
Proof. intros H. specialize (H (jlen D) (le_n _)). by rewrite revert_to_self in H. Qed.

(** a single-entry push keeps [cohp] when the new state itself is coherent *)
Lemma cohp_push W D D' e : journal D' = e :: journal D ->
  obs_eq W (pop_n D' 1) D -> cohp W D -> coh W D' -> cohp W D'.
Proof.
  intros Hj Hpop Hc Hhere n Hn. unfold jlen in Hn. rewrite Hj in Hn. cbn in Hn.
  destruct (decide (n = S (jlen D))) as [->|Hne].
  - assert (E : revert_to D' (S (jlen D)) = D').
    { unfold revert_to. rewrite Hj. cbn [length]. unfold jlen. by rewrite Nat.sub_diag. }
    by rewrite E.
  - assert (Hn' : (n <= jlen D)%nat) by (unfold jlen in *; lia).
    eapply coh_obs_eq; [|apply (Hc n Hn')].
    unfold revert_to. rewrite Hj. cbn [length].
    replace (S (length (journal D)) - n)%nat with (1 + (length (journal D) - n))%nat by (unfold jlen in *; lia).
    rewrite pop_n_add. by apply pop_n_obs_eq.
Qed.
Lemma cohp_same_journal W D D' : journal D' = journal D -> obs_eq W D' D -> cohp W D -> cohp W D'.
Proof.
  intros Hj Ho Hc n Hn. unfold jlen in Hn. rewrite Hj in Hn.
  eapply coh_obs_eq; [|apply (Hc n Hn)]. unfold revert_to. rewrite Hj. by apply pop_n_obs_eq.
Qed.
Lemma cohp_revert W D s : cohp W D -> (s <= jlen D)%nat -> cohp W (revert_to D s).
Proof.
  intros Hc Hs n Hn. unfold revert_to in Hn. fold (jlen D) in Hn. rewrite pop_n_len in Hn by lia.
  rewrite revert_to_revert by lia. apply Hc. lia.
Qed.

(** * how each cache mutator moves the total and keeps coherence *)
Definition world_ok (W : world) : Prop := forall a, a ∉ wexists W -> zg (bank W) a = 0.

Lemma lsumz_update (f g : N -> Z) U a : NoDup U -> a ∈ U -> (forall b, b <> a -> g b = f b) ->
  lsumz g U = lsumz f U + (g a - f a).
Proof.
  induction U as [|x r IH]; intros Hnd Hin Hfg; [by apply elem_of_nil in Hin|].
  apply NoDup_cons in Hnd as [Hx Hnd]. cbn [lsumz]. apply elem_of_cons in Hin as [->|Hin].
  - rewrite (lsumz_ext g f r); [lia|]. intros b Hb. apply Hfg. intros ->. apply Hx. by apply elem_of_list_In.
  - rewrite (IH Hnd Hin Hfg). rewrite (Hfg x); [lia|]. intros ->. by apply Hx.
Qed.

Lemma pop1_of_ext W D D' e : ext W D D' -> journal D' = e :: journal D -> obs_eq W (pop_n D' 1) D.
Proof.
  intros (_ & _ & H) Hj. specialize (H (jlen D) (le_n _)). rewrite revert_to_self in H.
  unfold revert_to in H. rewrite Hj in H. cbn [length] in H. unfold jlen in H.
  replace (S (length (journal D)) - length (journal D))%nat with 1%nat in H by lia. exact H.
Qed.

Lemma create_facts U W D a : wf W D -> cohp W D -> world_ok W -> objs D !! a = None -> a ∉ wexists W ->
  let D' := japp (set_obj D a (mkobj 0 ∅ ∅ ∅ false)) (JCreate a) in
  cohp W D' /\ total U W D' = total U W D.
Proof.
  intros Hwf Hc Hw Hn Hne D'. split.
  - apply (cohp_push W D D' (JCreate a)); [reflexivity| |done|].
    + eapply pop1_of_ext; [by apply create_ext|reflexivity].
    + intros b o Hb Hd. unfold D' in *. cbn in Hb, Hd.
      destruct (decide (a = b)) as [->|Hab]; [by rewrite lookup_insert in Hd|].
      rewrite lookup_insert_ne in Hb by done. rewrite lookup_insert_ne in Hd by done. by apply (cohp_here _ _ Hc b o).
  - apply lsumz_ext. intros b _. unfold view, D'. cbn.
    destruct (decide (a = b)) as [->|Hab]; [|by rewrite lookup_insert_ne].
    rewrite lookup_insert, Hn. cbn. symmetry. by apply Hw.
Qed.

Lemma get_or_new_facts U W D a : wf W D -> cohp W D -> world_ok W ->
  cohp W (get_or_new W D a) /\ total U W (get_or_new W D a) = total U W D.
Proof.
  intros Hwf Hc Hw. unfold get_or_new. rewrite (load_id _ _ _ Hwf).
  destruct (objs D !! a) as [o|] eqn:E; [done|].
  apply create_facts; auto. intros Hin. destruct Hwf as (Hs & _). destruct (Hs a Hin). congruence.
Qed.

Lemma set_bal_facts U W D a v o : wf W D -> cohp W D -> NoDup U -> a ∈ U -> objs D !! a = Some o ->
  cohp W (set_bal D a v) /\ total U W (set_bal D a v) = total U W D + (v - obal o).
Proof.
  intros Hwf Hc Hnd Hin Ho. pose proof (set_bal_ext W D a v Hwf) as He. unfold set_bal in *. rewrite Ho in *. split.
  - eapply (cohp_push W D _ (JBal a (obal o))); [reflexivity| |done|].
    + eapply pop1_of_ext; [exact He|reflexivity].
    + intros b o' Hb Hd. cbn in Hb, Hd.
      destruct (decide (a = b)) as [->|Hab]; [by rewrite lookup_insert in Hd|].
      rewrite lookup_insert_ne in Hb by done. rewrite lookup_insert_ne in Hd by done. by apply (cohp_here _ _ Hc b o').
  - unfold total. rewrite (lsumz_update (view W D) _ U a Hnd Hin).
    + unfold view; cbn. rewrite lookup_insert, Ho. cbn. lia.
    + intros b Hb. unfold view; cbn. by rewrite lookup_insert_ne.
Qed.

Lemma add_bal_facts U W D a amt : wf W D -> cohp W D -> world_ok W -> NoDup U -> a ∈ U ->
  cohp W (add_bal W D a amt) /\ total U W (add_bal W D a amt) = total U W D + amt.
Proof.
  intros Hwf Hc Hw Hnd Hin. unfold add_bal.
  destruct (get_or_new_ext W D a Hwf) as [He [o Ho]].
  destruct (get_or_new_facts U W D a Hwf Hc Hw) as [Hc1 Ht1].
  destruct (amt =? 0) eqn:Ea; [apply Z.eqb_eq in Ea; subst; split; [done|lia]|].
  destruct (set_bal_facts U W _ a (cbal (get_or_new W D a) a + amt) o (proj1 He) Hc1 Hnd Hin Ho) as [Hc2 Ht2].
  split; [done|]. rewrite Ht2, Ht1. unfold cbal. rewrite Ho. lia.
Qed.

Lemma add_log_facts U W D : wf W D -> cohp W D -> cohp W (add_log D) /\ total U W (add_log D) = total U W D.
Proof.
  intros Hwf Hc. split.
  - eapply (cohp_push W D _ JLog); [reflexivity| |done|].
    + eapply pop1_of_ext; [by apply add_log_ext|reflexivity].
    + intros b o Hb Hd. cbn in Hb, Hd. by apply (cohp_here _ _ Hc b o).
  - reflexivity.
Qed.

(** shape of SetState after the object exists: either nothing is journalled and the
    cache is observationally unchanged, or one storage entry is pushed *)
Lemma set_state_shape W D a k v : wf W D ->
  let D1 := get_or_new W D a in
  let D2 := set_state W D a k v in
  (forall b, obal <$> objs D2 !! b = obal <$> objs D1 !! b) /\
  ((journal D2 = journal D1 /\ obs_eq W D2 D1) \/
   (exists prev, journal D2 = JStor a k prev :: journal D1 /\ obs_eq W (pop_n D2 1) D1 /\
                 is_Some (dirties D2 !! a) /\ forall b, b <> a -> dirties D2 !! b = dirties D1 !! b)).
Proof.
  intros Hwf D1 D2. unfold D2, set_state. destruct (get_or_new_ext W D a Hwf) as [He [o Ho]].
  fold D1 in He, Ho |- *. rewrite Ho.
  assert (Hwf1 : wf W D1) by apply He.
  set (pr := match dstor o !! k with
             | Some d => (d, o)
             | None => match ostor o !! k with
                       | Some c => (c, o)
                       | None => (zg (store W) (a, k),
                                  mkobj (obal o) (dstor o) (<[k := zg (store W) (a, k)]> (ostor o)) (tstor o) (osui o))
                       end
             end).
  assert (Hpr : fst pr = rs W a o k /\ obal (snd pr) = obal o /\ tstor (snd pr) = tstor o /\ dstor (snd pr) = dstor o /\
                osui (snd pr) = osui o /\ forall k', rs W a (snd pr) k' = rs W a o k').
  { unfold pr, rs. destruct (dstor o !! k) eqn:Ed; cbn.
    - repeat split; auto.
    - destruct (ostor o !! k) eqn:Eo; cbn.
      + repeat split; auto.
      + repeat split; auto. intros k'. destruct (dstor o !! k'); [done|].
        destruct (decide (k = k')) as [->|]; [by rewrite lookup_insert, Eo|by rewrite lookup_insert_ne]. }
  destruct pr as [prev o1]. cbn [fst snd] in Hpr. destruct Hpr as (Hprev & Hb1 & Ht1 & Hd1 & Hs1 & Hrs1).
  destruct (prev =? v).
  - split.
    + intros b. cbn. destruct (decide (a = b)) as [->|]; [by rewrite lookup_insert, Ho; cbn; rewrite Hb1|by rewrite lookup_insert_ne].
    + left. split; [reflexivity|]. unfold obs_eq; cbn. split; [done|]. split; [done|]. split; [done|].
      intros b. destruct (decide (a = b)) as [->|]; [|rewrite lookup_insert_ne by done; apply oeq_refl].
      rewrite lookup_insert, Ho. cbn. auto.
  - split.
    + intros b. cbn. destruct (decide (a = b)) as [->|]; [by rewrite lookup_insert, Ho; cbn; rewrite Hb1|by rewrite lookup_insert_ne].
    + right. exists prev. split; [reflexivity|]. split; [|split].
      * cbn [length pop_n japp journal set_obj objs dirties logs dirtied]. rewrite undo_split.
        unfold undo_core, undo_dirt; cbn [dirtied objs journal dirties logs set_obj].
        rewrite lookup_insert. cbn [objs journal dirties logs set_obj obal dstor ostor tstor osui].
        destruct Hwf1 as (_ & Hp & _). rewrite (dirt_rt (dirties D1) a (Hp a)).
        unfold obs_eq; cbn. split; [done|]. split; [done|]. split; [done|].
        intros b. destruct (decide (a = b)) as [->|]; [|rewrite !lookup_insert_ne by done; apply oeq_refl].
        rewrite lookup_insert, Ho. cbn. split; [done|]. split; [done|]. split; [done|].
        intros k'. rewrite <- Hrs1. unfold rs at 1; cbn. rewrite insert_insert.
        destruct (decide (k = k')) as [->|Hk].
        -- rewrite lookup_insert. rewrite Hprev. symmetry. apply Hrs1.
        -- rewrite lookup_insert_ne by done. unfold rs. by rewrite Hd1.
      * cbn. rewrite lookup_insert. eauto.
      * intros b Hb. cbn. by rewrite lookup_insert_ne.
Qed.

Lemma set_state_facts U W D a k v : wf W D -> cohp W D -> world_ok W ->
  cohp W (set_state W D a k v) /\ total U W (set_state W D a k v) = total U W D.
Proof.
  intros Hwf Hc Hw.
  destruct (get_or_new_facts U W D a Hwf Hc Hw) as [Hc1 Ht1].
  destruct (set_state_shape W D a k v Hwf) as [Hob Hcase].
  assert (Htot : total U W (set_state W D a k v) = total U W D).
  { rewrite <- Ht1. apply lsumz_ext. intros b _. unfold view. specialize (Hob b).
    destruct (objs (set_state W D a k v) !! b), (objs (get_or_new W D a) !! b); cbn in Hob; congruence. }
  split; [|exact Htot].
  destruct Hcase as [[Hj Ho]|(prev & Hj & Hpop & Hda & Hdo)].
  - by eapply cohp_same_journal.
  - eapply (cohp_push W _ _ (JStor a k prev)); [exact Hj|exact Hpop|exact Hc1|].
    intros b o' Hb Hd. destruct (decide (b = a)) as [->|Hba]; [destruct Hda; congruence|].
    specialize (Hob b). rewrite Hb in Hob. destruct (objs (get_or_new W D a) !! b) as [o1|] eqn:E1; cbn in Hob; [|congruence].
    inversion Hob as [Hbb]. rewrite Hbb. apply (cohp_here _ _ Hc1 b o1 E1). by rewrite <- Hdo.
Qed.

(** CreateAccount over an existing object carries the balance over *)
Lemma reset_facts U W D a o : wf W D -> cohp W D -> objs D !! a = Some o ->
  cohp W (reset_obj D a) /\ total U W (reset_obj D a) = total U W D.
Proof.
  intros Hwf Hc Ho. pose proof (reset_ext W D a Hwf) as He. unfold reset_obj in *. rewrite Ho in *. split.
  - eapply (cohp_push W D _ (JReset a o)); [reflexivity| |done|].
    + eapply pop1_of_ext; [exact He|reflexivity].
    + intros b o' Hb Hd. cbn in Hb, Hd.
      destruct (decide (a = b)) as [->|Hab]; [by rewrite lookup_insert in Hd|].
      rewrite lookup_insert_ne in Hb by done. rewrite lookup_insert_ne in Hd by done. by apply (cohp_here _ _ Hc b o').
  - apply lsumz_ext. intros b _. unfold view; cbn.
    destruct (decide (a = b)) as [->|Hab]; [by rewrite lookup_insert, Ho|by rewrite lookup_insert_ne].
Qed.

(** * pure programs preserve the total of the cache view and coherence *)
Fixpoint closedb (U : list N) (i : instr) : bool :=
  match i with
  | ICall t _ _ _ body => bool_decide (t ∈ U) && forallb (closedb U) body
  | ICreate addrs _ _ _ _ body => forallb (fun t => bool_decide (t ∈ U)) addrs && forallb (closedb U) body
  | _ => true
  end.

(** no SELFDESTRUCT anywhere in the program *)
Fixpoint nosd (i : instr) : bool :=
  match i with
  | ISelfdestruct _ => false
  | ICall _ _ _ _ body => forallb nosd body
  | ICreate _ _ _ _ _ body => forallb nosd body
  | _ => true
  end.

Definition pstep2 (U : list N) (W : world) (D : sdb) (r : st * outcome) : Prop :=
  fst (fst r) = W /\ ext W D (snd (fst r)) /\ cohp W (snd (fst r)) /\ total U W (snd (fst r)) = total U W D.

Lemma pstep2_seq U W D r (f : st -> st * outcome) :
  pstep2 U W D r -> (forall D1, wf W D1 -> cohp W D1 -> pstep2 U W D1 (f (W, D1))) ->
  pstep2 U W D (let '(s1, oc) := r in match oc with Ok => f s1 | Fail => (s1, oc) end).
Proof.
  destruct r as [[W1 D1] oc]. intros (HW & He & Hc & Ht) Hf. cbn in HW. subst W1. cbn in He, Hc, Ht.
  destruct oc; [|unfold pstep2; cbn [fst snd]; tauto].
  destruct (Hf D1 (proj1 He) Hc) as (HW2 & He2 & Hc2 & Ht2). split; [done|]. split; [eapply ext_trans; eauto|].
  split; [done|]. congruence.
Qed.

Lemma do_call_gen_pure2 force U order W D caller target value run :
  wf W D -> cohp W D -> world_ok W -> NoDup U -> caller ∈ U -> target ∈ U ->
  (forall D1, wf W D1 -> cohp W D1 -> pstep2 U W D1 (run (W, D1))) ->
  pstep2 U W D (do_call_gen force order (W, D) caller target value run).
Proof.
  intros Hwf Hc Hw Hnd Hcu Htu Hrun. unfold do_call_gen. rewrite !(load_id _ _ _ Hwf).
  destruct (negb (value =? 0) && (cbal D caller <? value)).
  { split; [done|]. split; [by apply ext_refl|]. by split. }
  assert (HD0 : (if value =? 0 then D else D) = D) by (by destruct (value =? 0)). rewrite HD0.
  rewrite !(load_id _ _ _ Hwf).
  destruct (negb force && match objs D !! target with None => true | Some _ => false end && (value =? 0) && negb (is_precompile target)).
  { split; [done|]. split; [by apply ext_refl|]. by split. }
  set (D2 := match objs D !! target with
             | Some _ => D
             | None => japp (set_obj D target (mkobj 0 ∅ ∅ ∅ false)) (JCreate target)
             end).
  assert (H2 : ext W D D2 /\ cohp W D2 /\ total U W D2 = total U W D).
  { unfold D2. destruct (objs D !! target) eqn:E; [split; [by apply ext_refl|by split]|].
    assert (Hne : target ∉ wexists W).
    { intros Hin. destruct Hwf as (Hs & _). destruct (Hs _ Hin). congruence. }
    split; [by apply create_ext|]. by apply create_facts. }
  destruct H2 as (He2 & Hc2 & Ht2).
  set (Ds := sub_bal W D2 caller value).
  assert (Hs : ext W D2 Ds /\ cohp W Ds /\ total U W Ds = total U W D2 + - value).
  { unfold Ds, sub_bal. split; [apply add_bal_ext, He2|]. apply add_bal_facts; auto. apply He2. }
  destruct Hs as (Hes & Hcs & Hts).
  set (D3 := add_bal W Ds target value).
  assert (H3 : ext W Ds D3 /\ cohp W D3 /\ total U W D3 = total U W Ds + value).
  { unfold D3. split; [apply add_bal_ext, Hes|]. apply add_bal_facts; auto. apply Hes. }
  destruct H3 as (He3 & Hc3 & Ht3).
  assert (HeD3 : ext W D D3) by (eapply ext_trans; [exact He2|]; eapply ext_trans; eauto).
  destruct (Hrun D3 (proj1 HeD3) Hc3) as (HW4 & He4 & Hc4 & Ht4).
  destruct (run (W, D3)) as [[W4 D4] oc]. cbn in HW4, He4, Hc4, Ht4. subst W4.
  assert (He : ext W D D4) by (eapply ext_trans; eauto).
  destruct oc; unfold pstep2; cbn [fst snd].
  - split; [done|]. split; [done|]. split; [done|]. lia.
  - assert (Hsn : (jlen D <= snapshot D <= jlen D4)%nat).
    { unfold snapshot. fold (jlen D). destruct He as (_ & L & _). lia. }
    split; [done|]. split; [by apply ext_revert|]. split.
    + apply cohp_revert; [done|lia].
    + apply total_obs_eq. destruct He as (_ & _ & H). specialize (H (jlen D) (le_n _)).
      rewrite revert_to_self in H. unfold snapshot. fold (jlen D). exact H.
Qed.

Lemma do_call_pure2 U order W D caller target value run :
  wf W D -> cohp W D -> world_ok W -> NoDup U -> caller ∈ U -> target ∈ U ->
  (forall D1, wf W D1 -> cohp W D1 -> pstep2 U W D1 (run (W, D1))) ->
  pstep2 U W D (do_call order (W, D) caller target value run).
Proof. apply do_call_gen_pure2. Qed.

Lemma after_call_pure2 U W D0 self catch rec r : world_ok W ->
  pstep2 U W D0 r -> pstep2 U W D0 (after_call self catch rec r).
Proof.
  destruct r as [[W1 D1] oc]. intros Hw (HW & He & Hc & Ht). cbn in HW, He, Hc, Ht. subst W1. unfold after_call.
  set (D2 := match rec with Some slot => set_state W D1 self slot _ | None => D1 end).
  assert (H2 : ext W D0 D2 /\ cohp W D2 /\ total U W D2 = total U W D0).
  { unfold D2. destruct rec as [slot|]; [|done].
    split; [eapply ext_trans; [exact He|]; apply set_state_ext, He|].
    destruct (set_state_facts U W D1 self slot (if match oc with Ok => true | Fail => false end then 2 else 1)
                (proj1 He) Hc Hw) as [Hc2 Ht2]. split; [done|]. congruence. }
  destruct (catch || _); unfold pstep2; cbn [fst snd]; tauto.
Qed.

Lemma forall_list2 U order o W body : world_ok W ->
  Forall (fun i => pure i = true -> nosd i = true -> closedb U i = true ->
            forall order o self W D, world_ok W -> self ∈ U -> wf W D -> cohp W D ->
              pstep2 U W D (exec_instr order o self i (W, D))) body ->
  forallb pure body = true -> forallb nosd body = true -> forallb (closedb U) body = true ->
  forall t D, t ∈ U -> wf W D -> cohp W D -> pstep2 U W D (exec_list order o t body (W, D)).
Proof.
  intros Hw. induction body as [|x body IHb]; intros IH Hp Hns Hcl t D Ht Hwf Hc; cbn [exec_list].
  { split; [done|]. split; [by apply ext_refl|]. by split. }
  cbn [forallb] in Hp, Hcl, Hns. apply andb_prop in Hp as [Hpx Hpb]. apply andb_prop in Hcl as [Hcx Hcb].
  apply andb_prop in Hns as [Hnx Hnb]. inversion IH as [|? ? IHx IHrest]; subst.
  apply (pstep2_seq U W D (exec_instr order o t x (W, D))).
  - by apply IHx.
  - intros D2 Hwf2 Hc2. by apply IHb.
Qed.

Theorem pure_instr2 U : NoDup U -> forall i, pure i = true -> nosd i = true -> closedb U i = true ->
  forall order o self W D, world_ok W -> self ∈ U -> wf W D -> cohp W D ->
    pstep2 U W D (exec_instr order o self i (W, D)).
Proof.
  intros Hnd.
  induction i as [k v| | |a|b|t v c r body IH|ad v c r sc body IH|p v c r] using instr_ind'; intros Hp Hns Hcl order o self W D Hw Hself Hwf Hc.
  - cbn [exec_instr]. split; [done|]. split; [by apply set_state_ext|]. by apply set_state_facts.
  - cbn [exec_instr]. split; [done|]. split; [by apply add_log_ext|]. by apply add_log_facts.
  - cbn [exec_instr]. split; [done|]. split; [by apply ext_refl|]. by split.
  - cbn [exec_instr]. split; [done|]. cbn. rewrite load_id by done. split; [by apply ext_refl|]. by split.
  - discriminate.
  - cbn [exec_instr]. cbn [pure closedb nosd] in Hp, Hcl, Hns. apply andb_prop in Hcl as [Ht Hcb]. apply bool_decide_eq_true in Ht.
    apply after_call_pure2; [done|]. apply do_call_pure2; auto.
    intros D1 Hwf1 Hc1. destruct (N.leb 2 t && N.leb t 4).
    2:{ split; [done|]. split; [by apply ext_refl|]. by split. }
    clear Hwf Hc D. revert D1 Hwf1 Hc1.
    induction body as [|x body IHb]; intros D1 Hwf1 Hc1.
    { split; [done|]. split; [by apply ext_refl|]. by split. }
    cbn [forallb] in Hp, Hcb, Hns. apply andb_prop in Hp as [Hpx Hpb]. apply andb_prop in Hcb as [Hcx Hcbb].
    apply andb_prop in Hns as [Hnx Hnb].
    inversion IH as [|? ? IHx IHrest]; subst.
    apply (pstep2_seq U W D1 (exec_instr order o t x (W, D1))).
    + by apply IHx.
    + intros D2 Hwf2 Hc2. by apply IHb.
  - (* CREATE *)
    cbn [pure closedb nosd] in Hp, Hcl, Hns. apply andb_prop in Hcl as [Had Hcb].
    rewrite exec_create_eq. rewrite !(load_id _ _ _ Hwf).
    destruct (negb (v =? 0) && (cbal D self <? v)).
    { apply after_call_pure2; [done|]. split; [done|]. split; [by apply ext_refl|]. by split. }
    pose proof (set_state_ext W D self NONCE_SLOT (read_state W D self NONCE_SLOT + 1) Hwf) as Hen.
    destruct (set_state_facts U W D self NONCE_SLOT (read_state W D self NONCE_SLOT + 1) Hwf Hc Hw) as [Hcn Htn].
    cbv zeta. set (D1 := set_state W D self NONCE_SLOT (read_state W D self NONCE_SLOT + 1)) in *.
    destruct (nth_error ad (Z.to_nat (read_state W D self NONCE_SLOT))) as [t|] eqn:Hnth.
    2:{ apply after_call_pure2; [done|]. split; [done|]. split; [exact Hen|]. by split. }
    assert (Ht : t ∈ U).
    { apply nth_error_In in Hnth. rewrite forallb_forall in Had. specialize (Had t Hnth). by apply bool_decide_eq_true in Had. }
    rewrite (load_id _ _ _ (proj1 Hen)).
    destruct (negb (read_state W D1 t CREATED_SLOT =? 0) || negb (read_state W D1 t CODE_SLOT =? 0)).
    { apply after_call_pure2; [done|]. split; [done|]. split; [exact Hen|]. by split. }
    apply after_call_pure2; [done|].
    assert (Hstep : pstep2 U W D1 (do_call_gen true order (W, D1) self t v (create_run order o t sc body))).
    { apply do_call_gen_pure2; auto; [apply Hen|]. intros D2 Hwf2 Hc2. rewrite create_run_eq.
      pose proof (reset_ext W D2 t Hwf2) as Her0.
      assert (Hrf : cohp W (reset_obj D2 t) /\ total U W (reset_obj D2 t) = total U W D2).
      { destruct (objs D2 !! t) as [ot|] eqn:Eot; [by eapply reset_facts|]. unfold reset_obj. by rewrite Eot. }
      destruct Hrf as [Hcr0 Htr0].
      pose proof (set_state_ext W (reset_obj D2 t) t CREATED_SLOT 1 (proj1 Her0)) as Her1.
      destruct (set_state_facts U W (reset_obj D2 t) t CREATED_SLOT 1 (proj1 Her0) Hcr0 Hw) as [Hcr Htr1].
      assert (Her : ext W D2 (set_state W (reset_obj D2 t) t CREATED_SLOT 1)) by (eapply ext_trans; eauto).
      assert (Htr : total U W (set_state W (reset_obj D2 t) t CREATED_SLOT 1) = total U W D2) by congruence.
      destruct (forall_list2 U order o W body Hw IH Hp Hns Hcb t _ Ht (proj1 Her) Hcr) as (HWb & Heb & Hcb2 & Htb).
      destruct (exec_list order o t body (W, set_state W (reset_obj D2 t) t CREATED_SLOT 1)) as [[Wb Db] ocb].
      cbn [fst snd] in HWb, Heb, Hcb2, Htb. subst Wb.
      assert (He2 : ext W D2 Db) by (eapply ext_trans; eauto).
      destruct ocb; unfold pstep2; cbn [fst snd].
      - split; [done|]. destruct sc.
        + destruct (set_state_facts U W Db t CODE_SLOT 1 (proj1 He2) Hcb2 Hw) as [Hcc Htc].
          split; [eapply ext_trans; [exact He2|]; apply set_state_ext, He2|]. split; [done|]. congruence.
        + split; [exact He2|]. split; [done|]. congruence.
      - split; [done|]. split; [exact He2|]. split; [done|]. congruence. }
    destruct Hstep as (HWs & Hes & Hcs & Hts). split; [exact HWs|]. split; [eapply ext_trans; [exact Hen|exact Hes]|].
    split; [done|]. congruence.
  - discriminate.
Qed.

Lemma pure_list2 U order o self W : NoDup U -> world_ok W -> self ∈ U ->
  forall body, forallb pure body = true -> forallb nosd body = true -> forallb (closedb U) body = true ->
  forall D, wf W D -> cohp W D -> pstep2 U W D (exec_list order o self body (W, D)).
Proof.
  intros Hnd Hw Hself. induction body as [|x body IH]; intros Hp Hns Hcl D Hwf Hc; cbn [exec_list].
  { split; [done|]. split; [by apply ext_refl|]. by split. }
  cbn [forallb] in Hp, Hcl, Hns. apply andb_prop in Hp as [Hpx Hpb]. apply andb_prop in Hcl as [Hcx Hcb].
  apply andb_prop in Hns as [Hnx Hnb].
  apply (pstep2_seq U W D (exec_instr order o self x (W, D))).
  - by apply pure_instr2.
  - intros D2 Hwf2 Hc2. by apply IH.
Qed.

(** * programs without SELFDESTRUCT never mark an object as self-destructed *)
Definition jplain (e : jentry) : Prop := match e with JSuicide _ _ _ => False | JReset _ pv => osui pv = false | _ => True end.
Definition live (D : sdb) : Prop :=
  (forall a o, objs D !! a = Some o -> osui o = false) /\ (forall e, In e (journal D) -> jplain e).

Lemma live_set_obj D a o : live D -> osui o = false -> live (set_obj D a o).
Proof.
  intros [Ho Hj] Hs. split; [|exact Hj]. intros b ob. cbn.
  destruct (decide (a = b)) as [->|]; [rewrite lookup_insert; by intros [= <-]|rewrite lookup_insert_ne by done; apply Ho].
Qed.
Lemma live_japp D e : live D -> jplain e -> live (japp D e).
Proof. intros [Ho Hj] He. split; [exact Ho|]. intros e' [<-|Hin]; [exact He|by apply Hj]. Qed.
Lemma live_load W D a : live D -> live (load W D a).
Proof.
  intros Hl. unfold load. destruct (objs D !! a); [done|]. destruct (bool_decide _); [|done]. by apply live_set_obj.
Qed.
Lemma live_get_or_new W D a : live D -> live (get_or_new W D a).
Proof.
  intros Hl. unfold get_or_new. pose proof (live_load W D a Hl) as Hl1. destruct (objs (load W D a) !! a); [done|].
  apply live_japp; [by apply live_set_obj|exact I].
Qed.
Lemma live_set_bal D a v : live D -> live (set_bal D a v).
Proof.
  intros Hl. unfold set_bal. destruct (objs D !! a) as [o|] eqn:E; [|done].
  apply live_set_obj; [apply live_japp; [done|exact I]|]. cbn. by apply (proj1 Hl a o).
Qed.
Lemma live_add_bal W D a amt : live D -> live (add_bal W D a amt).
Proof. intros Hl. unfold add_bal. destruct (amt =? 0); [by apply live_get_or_new|]. by apply live_set_bal, live_get_or_new. Qed.
Lemma live_add_log D : live D -> live (add_log D).
Proof.
  intros [Ho Hj]. split; [exact Ho|]. intros e. cbn. intros [<-|Hin]; [exact I|by apply Hj].
Qed.
Lemma live_set_state W D a k v : live D -> live (set_state W D a k v).
Proof.
  intros Hl. unfold set_state. pose proof (live_get_or_new W D a Hl) as Hl1.
  destruct (objs (get_or_new W D a) !! a) as [o|] eqn:E; [|done].
  pose proof (proj1 Hl1 a o E) as Hso.
  destruct (dstor o !! k) as [d|].
  - destruct (d =? v); [by apply live_set_obj|]. apply live_set_obj; [apply live_japp; [done|exact I]|done].
  - destruct (ostor o !! k) as [c|].
    + destruct (c =? v); [by apply live_set_obj|]. apply live_set_obj; [apply live_japp; [done|exact I]|done].
    + destruct (zg (store W) (a, k) =? v); [by apply live_set_obj|].
      apply live_set_obj; [apply live_japp; [done|exact I]|done].
Qed.
Lemma live_reset D a : live D -> live (reset_obj D a).
Proof.
  intros Hl. unfold reset_obj. destruct (objs D !! a) as [o|] eqn:E; [|done].
  apply live_set_obj; [apply live_japp; [done|]|done]. cbn. by apply (proj1 Hl a o).
Qed.
Lemma live_undo D e r : live D -> journal D = e :: r -> live (undo (mksdb (objs D) r (dirties D) (logs D)) e).
Proof.
  intros [Ho Hj] Hjr. rewrite undo_split.
  assert (Hr : forall e', In e' r -> jplain e').
  { intros e' Hin. apply Hj. rewrite Hjr. by right. }
  assert (He : jplain e) by (apply Hj; rewrite Hjr; by left).
  assert (Hjj : journal (undo_dirt (undo_core (mksdb (objs D) r (dirties D) (logs D)) e) e) = r).
  { rewrite <- undo_split, journal_undo. reflexivity. }
  split; [|intros e'; rewrite Hjj; apply Hr].
  assert (Hob : objs (undo_dirt (undo_core (mksdb (objs D) r (dirties D) (logs D)) e) e) =
                objs (undo_core (mksdb (objs D) r (dirties D) (logs D)) e)).
  { unfold undo_dirt. by destruct (dirtied e). }
  rewrite Hob. unfold undo_core. destruct e as [a0 p|a0 k p|a0| |a0 p pb|a0 pv]; cbn; try (by destruct He).
  4:{ intros b ob. destruct (decide (a0 = b)) as [->|]; [rewrite lookup_insert; intros [= <-]; exact He|rewrite lookup_insert_ne by done; apply Ho]. }
  - destruct (objs D !! a0) as [o0|] eqn:E; cbn; [|exact Ho]. intros b ob.
    destruct (decide (a0 = b)) as [->|]; [rewrite lookup_insert; intros [= <-]; cbn; by apply (Ho b o0)|rewrite lookup_insert_ne by done; apply Ho].
  - destruct (objs D !! a0) as [o0|] eqn:E; cbn; [|exact Ho]. intros b ob.
    destruct (decide (a0 = b)) as [->|]; [rewrite lookup_insert; intros [= <-]; cbn; by apply (Ho b o0)|rewrite lookup_insert_ne by done; apply Ho].
  - intros b ob. destruct (decide (a0 = b)) as [->|]; [by rewrite lookup_delete|rewrite lookup_delete_ne by done; apply Ho].
Qed.
Lemma live_pop_n n : forall D, live D -> live (pop_n D n).
Proof.
  induction n as [|n IH]; intros D Hl; cbn [pop_n]; [done|].
  destruct (journal D) as [|e r] eqn:E; [done|]. apply IH. by apply live_undo.
Qed.
Lemma live_revert D n : live D -> live (revert_to D n).
Proof. intros Hl. unfold revert_to. by apply live_pop_n. Qed.

Definition lstep (r : st * outcome) : Prop := live (snd (fst r)).

Lemma do_call_gen_live force order W D caller target value run :
  live D -> (forall W1 D1, live D1 -> lstep (run (W1, D1))) -> lstep (do_call_gen force order (W, D) caller target value run).
Proof.
  intros Hl Hrun. unfold do_call_gen, lstep.
  destruct (negb (value =? 0) && (cbal (load W D caller) caller <? value)); [cbn; by apply live_load|].
  set (D0 := if value =? 0 then D else load W D caller).
  assert (Hl0 : live D0) by (unfold D0; destruct (value =? 0); [done|by apply live_load]).
  destruct (negb force && match objs (load W D0 target) !! target with None => true | Some _ => false end && (value =? 0) && negb (is_precompile target)); [exact Hl0|].
  set (D2 := match objs (load W D0 target) !! target with
             | Some _ => load W D0 target
             | None => japp (set_obj (load W D0 target) target (mkobj 0 ∅ ∅ ∅ false)) (JCreate target)
             end).
  assert (Hl2 : live D2).
  { unfold D2. pose proof (live_load W D0 target Hl0) as H1. destruct (objs (load W D0 target) !! target); [done|].
    apply live_japp; [by apply live_set_obj|exact I]. }
  assert (Hl3 : live (add_bal W (sub_bal W D2 caller value) target value)) by (unfold sub_bal; by apply live_add_bal, live_add_bal).
  specialize (Hrun W _ Hl3). unfold lstep in Hrun.
  destruct (run (W, add_bal W (sub_bal W D2 caller value) target value)) as [[W4 D4] oc]. cbn in Hrun.
  destruct oc; cbn; [done|by apply live_revert].
Qed.
Lemma do_call_live order W D caller target value run :
  live D -> (forall W1 D1, live D1 -> lstep (run (W1, D1))) -> lstep (do_call order (W, D) caller target value run).
Proof. apply do_call_gen_live. Qed.
Lemma after_call_live self catch rec r : lstep r -> lstep (after_call self catch rec r).
Proof.
  destruct r as [[W D] oc]. unfold lstep, after_call. cbn. intros Hl.
  assert (H2 : live (match rec with Some slot => set_state W D self slot (if match oc with Ok => true | Fail => false end then 2 else 1) | None => D end)).
  { destruct rec; [by apply live_set_state|done]. }
  destruct (catch || _); exact H2.
Qed.

Lemma forall_list_live order o body :
  Forall (fun i => pure i = true -> nosd i = true -> forall order o self W D, live D -> lstep (exec_instr order o self i (W, D))) body ->
  forallb pure body = true -> forallb nosd body = true ->
  forall t W D, live D -> lstep (exec_list order o t body (W, D)).
Proof.
  induction body as [|x body IHb]; intros IH Hp Hns t W D Hl; cbn [exec_list]; [exact Hl|].
  cbn [forallb] in Hp, Hns. apply andb_prop in Hp as [Hpx Hpb]. apply andb_prop in Hns as [Hnx Hnb].
  inversion IH as [|? ? IHx IHrest]; subst.
  specialize (IHx Hpx Hnx order o t W D Hl). unfold lstep in IHx.
  destruct (exec_instr order o t x (W, D)) as [[W2 D2] oc]. cbn in IHx. destruct oc; [|exact IHx]. by apply IHb.
Qed.

Theorem nosd_instr_live : forall i, pure i = true -> nosd i = true ->
  forall order o self W D, live D -> lstep (exec_instr order o self i (W, D)).
Proof.
  induction i as [k v| | |a|b|t v c r body IH|ad v c r sc body IH|p v c r] using instr_ind'; intros Hp Hns order o self W D Hl.
  - cbn [exec_instr]; unfold lstep. cbn. by apply live_set_state.
  - cbn [exec_instr]; unfold lstep. cbn. by apply live_add_log.
  - cbn [exec_instr]; unfold lstep. done.
  - cbn [exec_instr]; unfold lstep. cbn. by apply live_load.
  - discriminate.
  - cbn [exec_instr]. cbn [pure nosd] in Hp, Hns. apply after_call_live. apply do_call_live; [done|].
    intros W1 D1 Hl1. destruct (N.leb 2 t && N.leb t 4); [|exact Hl1].
    revert W1 D1 Hl1.
    induction body as [|x body IHb]; intros W1 D1 Hl1; [exact Hl1|].
    cbn [forallb] in Hp, Hns. apply andb_prop in Hp as [Hpx Hpb]. apply andb_prop in Hns as [Hnx Hnb].
    inversion IH as [|? ? IHx IHrest]; subst.
    specialize (IHx Hpx Hnx order o t W1 D1 Hl1). unfold lstep in IHx.
    destruct (exec_instr order o t x (W1, D1)) as [[W2 D2] oc]. cbn in IHx. destruct oc; [|exact IHx].
    by apply IHb.
  - (* CREATE *)
    cbn [pure nosd] in Hp, Hns. rewrite exec_create_eq.
    pose proof (live_load W D self Hl) as Hl0.
    destruct (negb (v =? 0) && (cbal (load W D self) self <? v)); [by apply after_call_live|].
    cbv zeta.
    pose proof (live_set_state W (load W D self) self NONCE_SLOT (read_state W (load W D self) self NONCE_SLOT + 1) Hl0) as Hl1.
    destruct (nth_error ad (Z.to_nat (read_state W (load W D self) self NONCE_SLOT))) as [t|]; [|by apply after_call_live].
    match goal with |- context [if ?b then _ else _] => destruct b end.
    { apply after_call_live. unfold lstep. cbn. by apply live_load. }
    apply after_call_live. apply do_call_gen_live; [done|].
    intros W1 D2 Hl2. rewrite create_run_eq.
    pose proof (forall_list_live order o body IH Hp Hns t W1 _ (live_set_state W1 _ t CREATED_SLOT 1 (live_reset D2 t Hl2))) as Hb. unfold lstep in Hb.
    destruct (exec_list order o t body (W1, set_state W1 (reset_obj D2 t) t CREATED_SLOT 1)) as [[Wb Db] ocb]. cbn [fst snd] in Hb.
    destruct ocb; unfold lstep; cbn [fst snd]; [|exact Hb]. destruct sc; [by apply live_set_state|exact Hb].
  - discriminate.
Qed.
Lemma nosd_list_live order o self : forall body, forallb pure body = true -> forallb nosd body = true ->
  forall W D, live D -> lstep (exec_list order o self body (W, D)).
Proof.
  induction body as [|x body IH]; intros Hp Hns W D Hl; cbn [exec_list]; [exact Hl|].
  cbn [forallb] in Hp, Hns. apply andb_prop in Hp as [Hpx Hpb]. apply andb_prop in Hns as [Hnx Hnb].
  pose proof (nosd_instr_live x Hpx Hnx order o self W D Hl) as H1. unfold lstep in H1.
  destruct (exec_instr order o self x (W, D)) as [[W2 D2] oc]. cbn in H1. destruct oc; [|exact H1]. by apply IH.
Qed.

(** * a whole pure transaction conserves the total supply *)
Definition run_tx_from (order : list N) (W0 : world) (D0 : sdb) (value : Z) (t : top) : world * bool :=
  let o := 0%N in
  let r := match t with
           | TopCall c body => do_call order (W0, D0) o c value (exec_list order o c body)
           | TopPre p => do_call order (W0, D0) o (pre_target p) value (run_pre order o o p)
           end in
  let '((W, D), oc) := r in
  let '(W1, _, ok) := commit order W D in
  if ok then match oc with Ok => (W1, true) | Fail => (W0, false) end else (W0, false).

Lemma run_tx_is_from_empty order W0 value t : run_tx order W0 value t = run_tx_from order W0 sdb0 value t.
Proof. reflexivity. Qed.

Lemma lsumz_sub f g l : lsumz (fun a => f a - g a) l = lsumz f l - lsumz g l.
Proof. induction l as [|a r IH]; cbn; lia. Qed.

Lemma gap_is_view_minus_bank W D order : coh W D -> live D ->
  lsumz (gap1 W D) order = total order W D - lsumz (fun a => zg (bank W) a) order.
Proof.
  intros Hc [Hl _]. unfold total. rewrite <- lsumz_sub. apply lsumz_ext. intros a _. unfold gap1, view.
  destruct (dirties D !! a) eqn:Hd, (objs D !! a) as [o|] eqn:Ho; try lia.
  - by rewrite (Hl a o Ho).
  - rewrite (Hc a o Ho Hd). lia.
Qed.

Theorem pure_tx_conserves_supply order W0 D0 value c body :
  NoDup order -> world_ok W0 -> 0%N ∈ order -> c ∈ order ->
  forallb pure body = true -> forallb nosd body = true -> forallb (closedb order) body = true ->
  wf W0 D0 -> cohp W0 D0 -> dirties D0 = ∅ -> live D0 ->
  supply (fst (run_tx_from order W0 D0 value (TopCall c body))) = supply W0.
Proof.
  intros Hnd Hw H0 Hc Hp Hns Hcl Hwf Hcoh Hd0 Hlv. unfold run_tx_from.
  pose proof (do_call_pure2 order order W0 D0 0%N c value (exec_list order 0%N c body)
                Hwf Hcoh Hw Hnd H0 Hc) as Hstep.
  destruct Hstep as (HW & He & Hc1 & Ht).
  { intros D1 Hwf1 Hc1. by apply pure_list2. }
  pose proof (do_call_live order W0 D0 0%N c value (exec_list order 0%N c body) Hlv) as Hlive.
  unfold lstep in Hlive.
  destruct (do_call order (W0, D0) 0%N c value (exec_list order 0%N c body)) as [[W D] oc].
  cbn [fst snd] in HW, He, Hc1, Ht, Hlive. subst W.
  assert (HlD : live D). { apply Hlive. intros W1 D1 Hl1. by apply nosd_list_live. }
  destruct (commit order W0 D) as [[W1 D1] ok] eqn:Hcm. destruct ok; [|done]. destruct oc; [|done].
  cbn [fst]. unfold commit in Hcm. rewrite (commit_supply_formula order W0 D W1 D1 Hnd Hcm).
  rewrite (gap_is_view_minus_bank W0 D order (cohp_here _ _ Hc1) HlD). rewrite Ht.
  assert (Hinit : total order W0 D0 = lsumz (fun a => zg (bank W0) a) order).
  { apply lsumz_ext. intros a _. unfold view. destruct (objs D0 !! a) as [o|] eqn:Ho; [|done].
    apply (cohp_here _ _ Hcoh a o Ho). by rewrite Hd0. }
  lia.
Qed.

(** non-vacuity: a saturated clean cache over a world with five funded accounts satisfies
    every hypothesis, and the lazily loading [run_tx] gives the same result on a sample *)
Definition sat_cache (W : world) (l : list N) : sdb := fold_left (fun D a => load W D a) l sdb0.

Definition clean_inv (W : world) (D : sdb) : Prop :=
  journal D = [] /\ dirties D = ∅ /\
  forall a o, objs D !! a = Some o -> o = clean_obj W a.

Lemma load_clean_inv W D a : clean_inv W D -> clean_inv W (load W D a).
Proof.
  intros (Hj & Hd & Ho). unfold load. destruct (objs D !! a) eqn:E; [done|].
  destruct (bool_decide (a ∈ wexists W)); [|done]. split; [done|]. split; [done|].
  intros b o. cbn. destruct (decide (a = b)) as [->|]; [rewrite lookup_insert; by intros [= <-]|rewrite lookup_insert_ne by done; apply Ho].
Qed.
Lemma load_keeps W D a b : is_Some (objs D !! b) -> is_Some (objs (load W D a) !! b).
Proof.
  intros H. unfold load. destruct (objs D !! a) eqn:E; [done|]. destruct (bool_decide (a ∈ wexists W)); [|done].
  cbn. destruct (decide (a = b)) as [->|]; [rewrite lookup_insert; eauto|by rewrite lookup_insert_ne].
Qed.
Lemma load_loads W D a : a ∈ wexists W -> is_Some (objs (load W D a) !! a).
Proof.
  intros H. unfold load. destruct (objs D !! a) eqn:E; [rewrite E; eauto|].
  rewrite bool_decide_eq_true_2 by done. cbn. rewrite lookup_insert. eauto.
Qed.

Lemma sat_cache_ok W l : (forall a, a ∈ wexists W -> a ∈ l) ->
  wf W (sat_cache W l) /\ cohp W (sat_cache W l) /\ dirties (sat_cache W l) = ∅ /\ live (sat_cache W l).
Proof.
  intros Hall. unfold sat_cache.
  assert (H : forall l D, clean_inv W D ->
            clean_inv W (fold_left (fun D a => load W D a) l D) /\
            (forall a, (a ∈ l /\ a ∈ wexists W) \/ is_Some (objs D !! a) ->
                       is_Some (objs (fold_left (fun D a => load W D a) l D) !! a))).
  { clear. induction l as [|x l IH]; intros D HD; cbn [fold_left].
    - split; [done|]. intros a [[Hin _]|H]; [by apply elem_of_nil in Hin|done].
    - destruct (IH (load W D x) (load_clean_inv W D x HD)) as [H1 H2]. split; [done|].
      intros a [[Hin Hex]|H]; apply H2.
      + apply elem_of_cons in Hin as [->|Hin]; [right; by apply load_loads|left; done].
      + right. by apply load_keeps. }
  destruct (H l sdb0) as [(Hj & Hd & Ho) Hl]; [by repeat split|].
  split; [|split; [|split; [done|]]].
  - split; [|split].
    + intros a Ha. apply Hl. left. split; [by apply Hall|done].
    + intros a c. rewrite Hd. by rewrite lookup_empty.
    + intros a. rewrite Hj. intros [].
  - intros n Hn. unfold jlen in Hn. rewrite Hj in Hn. cbn in Hn. assert (n = 0)%nat as -> by lia.
    unfold revert_to. rewrite Hj. cbn. intros a o Hoa _. by rewrite (Ho a o Hoa).
  - split; [intros a o Hoa; by rewrite (Ho a o Hoa)|]. intros e. rewrite Hj. intros [].
Qed.

(** the theorem instantiated: from the saturated clean cache every pure, closed program conserves supply *)
Corollary pure_tx_conserves_supply_from_clean order W0 value c body :
  NoDup order -> world_ok W0 -> (forall a, a ∈ wexists W0 -> a ∈ order) -> 0%N ∈ order -> c ∈ order ->
  forallb pure body = true -> forallb nosd body = true -> forallb (closedb order) body = true ->
  supply (fst (run_tx_from order W0 (sat_cache W0 order) value (TopCall c body))) = supply W0.
Proof.
  intros Hnd Hw Hall H0 Hc Hp Hns Hcl. destruct (sat_cache_ok W0 order Hall) as (Hwf & Hcoh & Hd & Hlv).
  by apply pure_tx_conserves_supply.
Qed.

(** * the flush: after a successful commit the bank agrees with the cache on every dirty, live account
    (so a precompile that then changes the bank balance of a cached account must mirror exactly that change) *)
Theorem commit_syncs_dirty : forall order W D W' D',
  NoDup order -> commit_list W D order = (W', D', true) ->
  forall a o, a ∈ order -> is_Some (dirties D !! a) -> objs D !! a = Some o -> osui o = false ->
    zg (bank W') a = obal o.
Proof.
  induction order as [|x r IH]; intros W D W' D' Hnd H a o Hin Hda Hoa Hal; [by apply elem_of_nil in Hin|].
  cbn [commit_list] in H. apply NoDup_cons in Hnd as [Hx Hnd].
  destruct (decide (is_Some (dirties D !! x))) as [Hdx|Hdx].
  - rewrite bool_decide_eq_true_2 in H by done.
    destruct (commit_one W D x) as [[W1 D1] ok] eqn:Hc. destruct ok; [|inversion H].
    destruct (commit_one_frame _ _ _ _ _ _ Hc) as (Hd & Ho & Hsu & Hb). specialize (Hb eq_refl).
    apply elem_of_cons in Hin as [->|Hin].
    + (* x itself: synced now, untouched by the rest *)
      destruct (commit_one_exact _ _ _ _ _ _ Hoa Hal Hc) as (Hbx & _ & _).
      assert (Hrest : forall l Wa Da Wb Db, x ∉ l -> commit_list Wa Da l = (Wb, Db, true) -> zg (bank Wb) x = zg (bank Wa) x).
      { clear. induction l as [|y l IHl]; intros Wa Da Wb Db Hnin Hcl; cbn [commit_list] in Hcl; [by inversion Hcl|].
        apply not_elem_of_cons in Hnin as [Hne Hnin].
        destruct (bool_decide (is_Some (dirties Da !! y))); [|by eapply IHl].
        destruct (commit_one Wa Da y) as [[W2 D2] ok2] eqn:Hc2. destruct ok2; [|inversion Hcl].
        destruct (commit_one_frame _ _ _ _ _ _ Hc2) as (_ & _ & _ & Hb2). destruct (Hb2 eq_refl x Hne) as [Hbx _].
        rewrite (IHl _ _ _ _ Hnin Hcl). exact Hbx. }
      rewrite (Hrest r W1 D1 W' D' Hx H). exact Hbx.
    + assert (Hne : a <> x) by (intros ->; by apply Hx).
      specialize (Ho a). specialize (Hsu a). rewrite Hoa in Ho, Hsu.
      destruct (objs D1 !! a) as [o1|] eqn:E1; cbn in Ho, Hsu; [|congruence].
      assert (Hob : obal o1 = obal o) by congruence. assert (Hos : osui o1 = osui o) by congruence. rewrite <- Hob.
      apply (IH W1 D1 W' D' Hnd H a o1 Hin); [by rewrite Hd|done|congruence].
  - rewrite bool_decide_eq_false_2 in H by done.
    apply elem_of_cons in Hin as [->|Hin]; [done|]. by apply (IH W D W' D' Hnd H a o Hin).
Qed.
