(** Lazy loading of state objects is observationally irrelevant for pure EVM code:
    a run from any cache proceeds in lockstep with the run from the same cache with
    further existing accounts pre-loaded.  This removes the "saturated cache"
    hypothesis from the conservation theorem of property C02. *)
From Coq Require Import ZArith List Lia.
From stdpp Require Import gmap.
From HV Require Import Evm.ExecModel Evm.JournalProofs Evm.SupplyProofs Evm.ConservationProofs.
Local Open Scope Z_scope.

Definition clean (W : world) (a : N) : obj := clean_obj W a.

(** [D'] is [D] plus clean loads of existing accounts *)
Definition lz (W : world) (D D' : sdb) : Prop :=
  journal D = journal D' /\ dirties D = dirties D' /\ logs D = logs D' /\
  forall a, objs D !! a = objs D' !! a \/
            (objs D !! a = None /\ a ∈ wexists W /\ objs D' !! a = Some (clean W a)).

(** every journal entry refers to an object that is present when the entry is on top *)
Fixpoint ep (dm : gset N) (j : list jentry) : Prop :=
  match j with
  | [] => True
  | e :: r => (forall a, dirtied e = Some a -> a ∈ dm) /\
              ep (match e with JCreate a => dm ∖ {[a]} | _ => dm end) r
  end.
Definition epd (D : sdb) : Prop := ep (dom (objs D)) (journal D).

Lemma ep_mono j : forall d1 d2 : gset N, d1 ⊆ d2 -> ep d1 j -> ep d2 j.
Proof.
  induction j as [|e r IH]; intros d1 d2 Hs; cbn; [done|]. intros [H1 H2]. split.
  - intros a Ha. apply Hs. by apply H1.
  - eapply IH; [|exact H2]. destruct e; set_solver.
Qed.

(** dirty counters count the journal entries *)
Fixpoint cnt (a : N) (j : list jentry) : nat :=
  match j with
  | [] => O
  | e :: r => (if decide (dirtied e = Some a) then 1 else 0) + cnt a r
  end.
Definition cntd (D : sdb) : Prop := forall a, default O (dirties D !! a) = cnt a (journal D).

Lemma ep_cnt_present a j : forall dm, ep dm j -> (0 < cnt a j)%nat -> a ∈ dm.
Proof.
  induction j as [|e r IH]; intros dm Hep Hc; cbn in *; [lia|]. destruct Hep as [H1 H2].
  destruct (decide (dirtied e = Some a)) as [He|He]; [by apply H1|].
  assert (a ∈ (match e with JCreate a0 => dm ∖ {[a0]} | _ => dm end)) by (apply IH; [done|lia]).
  destruct e; try done. set_solver.
Qed.

Lemma dirty_present D a : epd D -> cntd D -> is_Some (dirties D !! a) ->
  (forall b c, dirties D !! b = Some c -> (0 < c)%nat) -> is_Some (objs D !! a).
Proof.
  intros Hep Hc [c Hd] Hpos. apply elem_of_dom. apply (ep_cnt_present a (journal D)); [exact Hep|].
  rewrite <- Hc, Hd. cbn. by apply (Hpos a).
Qed.

Definition sim (W : world) (D D' : sdb) : Prop := lz W D D' /\ epd D /\ cntd D /\ wf W D'.

Lemma sim_obj W D D' a o : sim W D D' -> objs D !! a = Some o -> objs D' !! a = Some o.
Proof. intros ((_ & _ & _ & Ho) & _) H. destruct (Ho a) as [E|(E & _)]; congruence. Qed.

Lemma dom_set_obj_present D a o o' : objs D !! a = Some o -> dom (objs (set_obj D a o')) = dom (objs D).
Proof.
  intros H. cbn. rewrite dom_insert_L. assert (a ∈ dom (objs D)) by (apply elem_of_dom; eauto). set_solver.
Qed.

(** popping one entry keeps the simulation *)
Lemma sim_undo W D D' e r : sim W D D' -> journal D = e :: r ->
  sim W (undo (mksdb (objs D) r (dirties D) (logs D)) e) (undo (mksdb (objs D') r (dirties D') (logs D')) e).
Proof.
  intros Hsim Hj. pose proof Hsim as ((Hjj & Hd & Hl & Ho) & Hep & Hc & Hwf).
  assert (Hj' : journal D' = e :: r) by congruence.
  unfold epd in Hep. rewrite Hj in Hep. cbn [ep] in Hep. destruct Hep as [Hep1 Hep2].
  (* the object the entry refers to is present and equal on both sides *)
  assert (Hpres : forall a, dirtied e = Some a -> exists o, objs D !! a = Some o /\ objs D' !! a = Some o).
  { intros a Ha. apply Hep1 in Ha. apply elem_of_dom in Ha as [o Hoa]. exists o. split; [done|]. by eapply sim_obj. }
  split; [|split; [|split]].
  - (* lz *)
    rewrite !undo_split. unfold undo_dirt, undo_core. split; [|split; [|split]].
    + destruct e as [a p|a k p|a| |a p pb|a pv]; cbn; try (destruct (Hpres a eq_refl) as (o & -> & ->)); reflexivity.
    + destruct e as [a p|a k p|a| |a p pb|a pv]; cbn; try (destruct (Hpres a eq_refl) as (o & -> & ->)); cbn; rewrite ?Hd; reflexivity.
    + destruct e as [a p|a k p|a| |a p pb|a pv]; cbn; try (destruct (Hpres a eq_refl) as (o & -> & ->)); cbn; rewrite ?Hl; reflexivity.
    + intros b. destruct e as [a p|a k p|a| |a p pb|a pv]; cbn.
      * destruct (Hpres a eq_refl) as (o & -> & ->). cbn.
        destruct (decide (a = b)) as [->|]; [left; by rewrite !lookup_insert|rewrite !lookup_insert_ne by done; apply Ho].
      * destruct (Hpres a eq_refl) as (o & -> & ->). cbn.
        destruct (decide (a = b)) as [->|]; [left; by rewrite !lookup_insert|rewrite !lookup_insert_ne by done; apply Ho].
      * destruct (decide (a = b)) as [->|]; [left; by rewrite !lookup_delete|rewrite !lookup_delete_ne by done; apply Ho].
      * apply Ho.
      * destruct (Hpres a eq_refl) as (o & -> & ->). cbn.
        destruct (decide (a = b)) as [->|]; [left; by rewrite !lookup_insert|rewrite !lookup_insert_ne by done; apply Ho].
      * destruct (decide (a = b)) as [->|]; [left; by rewrite !lookup_insert|rewrite !lookup_insert_ne by done; apply Ho].
  - (* epd *)
    unfold epd. rewrite journal_undo. cbn [journal].
    assert (Hdom : dom (objs (undo (mksdb (objs D) r (dirties D) (logs D)) e)) =
                   match e with JCreate a => dom (objs D) ∖ {[a]} | _ => dom (objs D) end).
    { rewrite undo_split. unfold undo_dirt, undo_core.
      destruct e as [a p|a k p|a| |a p pb|a pv]; cbn.
      - destruct (Hpres a eq_refl) as (o & Hoa & _). rewrite Hoa. cbn. rewrite dom_insert_L.
        assert (a ∈ dom (objs D)) by (apply elem_of_dom; eauto). set_solver.
      - destruct (Hpres a eq_refl) as (o & Hoa & _). rewrite Hoa. cbn. rewrite dom_insert_L.
        assert (a ∈ dom (objs D)) by (apply elem_of_dom; eauto). set_solver.
      - by rewrite dom_delete_L.
      - done.
      - destruct (Hpres a eq_refl) as (o & Hoa & _). rewrite Hoa. cbn. rewrite dom_insert_L.
        assert (a ∈ dom (objs D)) by (apply elem_of_dom; eauto). set_solver.
      - destruct (Hpres a eq_refl) as (o & Hoa & _). rewrite dom_insert_L.
        assert (a ∈ dom (objs D)) by (apply elem_of_dom; eauto). set_solver. }
    rewrite Hdom. exact Hep2.
  - (* cntd *)
    intros b. rewrite journal_undo. cbn [journal]. specialize (Hc b). rewrite Hj in Hc. cbn [cnt] in Hc.
    rewrite undo_split. unfold undo_dirt.
    assert (Hdc : dirties (undo_core (mksdb (objs D) r (dirties D) (logs D)) e) = dirties D).
    { unfold undo_core. destruct e as [a0 p|a0 k p|a0| |a0 p pb|a0 pv]; cbn; try destruct (objs D !! a0); reflexivity. }
    destruct (dirtied e) as [a|] eqn:Hde; cbn; rewrite ?Hdc.
    + destruct (decide (Some a = Some b)) as [Heq|Hneq].
      * inversion Heq; subst b.
        destruct (Nat.eqb_spec (Nat.pred (default O (dirties D !! a))) 0) as [Hz|Hz].
        -- rewrite lookup_delete. cbn. lia.
        -- rewrite lookup_insert. cbn. lia.
      * assert (a <> b) by congruence.
        destruct (Nat.eqb (Nat.pred (default O (dirties D !! a))) 0);
          [rewrite lookup_delete_ne by done|rewrite lookup_insert_ne by done]; lia.
    + destruct (decide (None = Some b)); [done|]. lia.
  - eapply wf_undo; eauto.
Qed.

Lemma sim_pop_n W k : forall D D', sim W D D' -> sim W (pop_n D k) (pop_n D' k).
Proof.
  induction k as [|k IH]; intros D D' Hsim; cbn [pop_n]; [done|].
  pose proof Hsim as ((Hjj & _) & _). rewrite <- Hjj.
  destruct (journal D) as [|e r] eqn:E; [done|]. apply IH. by apply sim_undo.
Qed.

Lemma sim_revert W D D' n : sim W D D' -> sim W (revert_to D n) (revert_to D' n).
Proof.
  intros Hsim. unfold revert_to. pose proof Hsim as ((Hjj & _) & _). rewrite <- Hjj. by apply sim_pop_n.
Qed.

(** * every cache mutator keeps the simulation *)
Lemma sim_load W D D' a : sim W D D' -> sim W (load W D a) (load W D' a).
Proof.
  intros Hsim. pose proof Hsim as ((Hjj & Hd & Hl & Ho) & Hep & Hc & Hwf).
  rewrite (load_id _ _ _ Hwf). unfold load. destruct (objs D !! a) as [o|] eqn:E; [done|].
  destruct (decide (a ∈ wexists W)) as [Hin|Hn]; [rewrite bool_decide_eq_true_2 by done|by rewrite bool_decide_eq_false_2].
  split; [|split; [|split]]; try done.
  - split; [done|]. split; [done|]. split; [done|]. intros b. cbn.
    destruct (decide (a = b)) as [->|]; [|rewrite lookup_insert_ne by done; apply Ho].
    rewrite lookup_insert. left. destruct (Ho b) as [Heq|(_ & _ & Hc')]; [|by rewrite Hc'].
    destruct Hwf as (Hs & _). destruct (Hs b Hin) as [o' Ho']. congruence.
  - unfold epd. cbn. eapply ep_mono; [|exact Hep]. rewrite dom_insert_L. set_solver.
Qed.

Lemma sim_push W D D' a o o' e :
  sim W D D' -> objs D !! a = Some o -> dirtied e = Some a -> (forall b, e = JCreate b -> False) ->
  sim W (set_obj (japp D e) a o') (set_obj (japp D' e) a o').
Proof.
  intros Hsim Hoa He Hnc. pose proof Hsim as ((Hjj & Hd & Hl & Ho) & Hep & Hc & Hwf).
  split; [|split; [|split]].
  - split; [cbn; congruence|]. split; [cbn; by rewrite He, Hd|]. split; [cbn; congruence|].
    intros b. cbn. destruct (decide (a = b)) as [->|]; [left; by rewrite !lookup_insert|rewrite !lookup_insert_ne by done; apply Ho].
  - unfold epd. cbn [journal set_obj japp]. cbn [ep]. split.
    + intros b Hb. rewrite He in Hb. inversion Hb; subst b. cbn. rewrite dom_insert_L. set_solver.
    + assert (Hdm : dom (objs (set_obj (japp D e) a o')) = dom (objs D)).
      { cbn. rewrite dom_insert_L. assert (a ∈ dom (objs D)) by (apply elem_of_dom; eauto). set_solver. }
      rewrite Hdm. destruct e; try exact Hep. exfalso. eapply Hnc; eauto.
  - intros b. cbn [journal set_obj japp dirties cnt]. rewrite He. specialize (Hc b).
    destruct (decide (Some a = Some b)) as [Heq|Hneq].
    + inversion Heq; subst b. rewrite lookup_insert. cbn. lia.
    + assert (a <> b) by congruence. rewrite lookup_insert_ne by done. lia.
  - apply wf_set_obj. apply wf_japp; [done|]. intros b Hb. exfalso. eapply Hnc; eauto.
Qed.

Lemma sim_create W D D' a : sim W D D' -> objs D !! a = None -> a ∉ wexists W ->
  sim W (japp (set_obj D a (mkobj 0 ∅ ∅ ∅ false)) (JCreate a)) (japp (set_obj D' a (mkobj 0 ∅ ∅ ∅ false)) (JCreate a)).
Proof.
  intros Hsim Hn Hne. pose proof Hsim as ((Hjj & Hd & Hl & Ho) & Hep & Hc & Hwf).
  split; [|split; [|split]].
  - split; [cbn; congruence|]. split; [cbn; by rewrite Hd|]. split; [cbn; congruence|].
    intros b. cbn. destruct (decide (a = b)) as [->|]; [left; by rewrite !lookup_insert|rewrite !lookup_insert_ne by done; apply Ho].
  - unfold epd. cbn [journal set_obj japp objs]. cbn [ep]. split.
    + intros b Hb. inversion Hb; subst b. rewrite dom_insert_L. set_solver.
    + rewrite dom_insert_L. assert (a ∉ dom (objs D)) by (by apply not_elem_of_dom).
      replace (({[a]} ∪ dom (objs D)) ∖ {[a]}) with (dom (objs D)) by set_solver. exact Hep.
  - intros b. cbn [journal set_obj japp dirties cnt dirtied]. specialize (Hc b).
    destruct (decide (Some a = Some b)) as [Heq|Hneq].
    + inversion Heq; subst b. rewrite lookup_insert. cbn. lia.
    + assert (a <> b) by congruence. rewrite lookup_insert_ne by done. lia.
  - apply wf_japp; [by apply wf_set_obj|]. intros b Hb. by inversion Hb; subst.
Qed.

Lemma sim_get_or_new W D D' a : sim W D D' ->
  sim W (get_or_new W D a) (get_or_new W D' a) /\
  exists o, objs (get_or_new W D a) !! a = Some o /\ objs (get_or_new W D' a) !! a = Some o.
Proof.
  intros Hsim. unfold get_or_new. pose proof (sim_load W D D' a Hsim) as Hl.
  set (L := load W D a) in *. set (L' := load W D' a) in *.
  destruct (objs L !! a) as [o|] eqn:E.
  - rewrite (sim_obj _ _ _ _ _ Hl E). split; [done|]. exists o. rewrite E. split; [done|]. by eapply sim_obj.
  - assert (Hne : a ∉ wexists W).
    { intros Hin. unfold L, load in E. destruct (objs D !! a) eqn:E0; [congruence|].
      rewrite bool_decide_eq_true_2 in E by done. cbn in E. by rewrite lookup_insert in E. }
    assert (E' : objs L' !! a = None).
    { destruct Hl as ((_ & _ & _ & Ho) & _). destruct (Ho a) as [Heq|(_ & Hin & _)]; [congruence|done]. }
    rewrite E'. split; [by apply sim_create|]. exists (mkobj 0 ∅ ∅ ∅ false). cbn. by rewrite !lookup_insert.
Qed.

Lemma sim_set_bal W D D' a v o : sim W D D' -> objs D !! a = Some o ->
  sim W (set_bal D a v) (set_bal D' a v).
Proof.
  intros Hsim E. unfold set_bal. rewrite E, (sim_obj _ _ _ _ _ Hsim E).
  apply (sim_push W D D' a o); auto. intros b Hb. inversion Hb.
Qed.

Lemma sim_cbal W D D' a o : sim W D D' -> objs D !! a = Some o -> cbal D a = cbal D' a.
Proof. intros Hsim E. unfold cbal. by rewrite E, (sim_obj _ _ _ _ _ Hsim E). Qed.

Lemma sim_add_bal W D D' a amt : sim W D D' -> sim W (add_bal W D a amt) (add_bal W D' a amt).
Proof.
  intros Hsim. unfold add_bal. destruct (sim_get_or_new W D D' a Hsim) as [Hs (o & Ho & Ho')].
  destruct (amt =? 0); [done|]. rewrite (sim_cbal _ _ _ _ _ Hs Ho). by eapply sim_set_bal.
Qed.

Lemma sim_suicide W D D' a o : sim W D D' -> objs D !! a = Some o -> sim W (suicide D a) (suicide D' a).
Proof.
  intros Hsim E. unfold suicide. rewrite E, (sim_obj _ _ _ _ _ Hsim E).
  apply (sim_push W D D' a o); auto. intros b Hb. inversion Hb.
Qed.

Lemma sim_reset W D D' a : sim W D D' -> is_Some (objs D !! a) -> sim W (reset_obj D a) (reset_obj D' a).
Proof.
  intros Hsim [o E]. unfold reset_obj. rewrite E, (sim_obj _ _ _ _ _ Hsim E).
  apply (sim_push W D D' a o); auto. intros b Hb. inversion Hb.
Qed.

Lemma add_bal_keeps W D a b amt : is_Some (objs D !! a) -> is_Some (objs (add_bal W D b amt) !! a).
Proof.
  intros H. unfold add_bal.
  assert (H1 : is_Some (objs (get_or_new W D b) !! a)).
  { unfold get_or_new. pose proof (load_keeps W D b a H) as H0. destruct (objs (load W D b) !! b) eqn:E; [done|].
    cbn. destruct (decide (b = a)) as [->|]; [rewrite lookup_insert; eauto|by rewrite lookup_insert_ne]. }
  destruct (amt =? 0); [done|]. unfold set_bal. destruct (objs (get_or_new W D b) !! b) eqn:E; [|done].
  cbn. destruct (decide (b = a)) as [->|]; [rewrite lookup_insert; eauto|by rewrite lookup_insert_ne].
Qed.

Lemma sim_add_log W D D' : sim W D D' -> sim W (add_log D) (add_log D').
Proof.
  intros ((Hjj & Hd & Hl & Ho) & Hep & Hc & Hwf). split; [|split; [|split]].
  - split; [cbn; congruence|]. split; [cbn; done|]. split; [cbn; congruence|]. intros b. cbn. apply Ho.
  - unfold epd. cbn. split; [intros a Ha; inversion Ha|exact Hep].
  - intros b. cbn. specialize (Hc b). destruct (decide (None = Some b)); [done|]. lia.
  - apply add_log_ext. exact Hwf.
Qed.

Lemma sim_set_state W D D' a k v : sim W D D' -> sim W (set_state W D a k v) (set_state W D' a k v).
Proof.
  intros Hsim. unfold set_state. destruct (sim_get_or_new W D D' a Hsim) as [Hs (o & Ho & Ho')].
  rewrite Ho, Ho'.
  destruct (match dstor o !! k with
            | Some d => (d, o)
            | None => match ostor o !! k with
                      | Some c => (c, o)
                      | None => (zg (store W) (a, k),
                                 mkobj (obal o) (dstor o) (<[k := zg (store W) (a, k)]> (ostor o)) (tstor o) (osui o))
                      end
            end) as [prev o1].
  destruct (prev =? v).
  - (* only the cached origin changes, on both sides alike *)
    pose proof Hs as ((Hjj & Hd & Hl & Hob) & Hep & Hc & Hwf). split; [|split; [|split]].
    + split; [done|]. split; [done|]. split; [done|]. intros b. cbn.
      destruct (decide (a = b)) as [->|]; [left; by rewrite !lookup_insert|rewrite !lookup_insert_ne by done; apply Hob].
    + unfold epd. cbn. rewrite dom_insert_L.
      assert (a ∈ dom (objs (get_or_new W D a))) by (apply elem_of_dom; eauto).
      replace ({[a]} ∪ dom (objs (get_or_new W D a))) with (dom (objs (get_or_new W D a))) by set_solver. exact Hep.
    + exact Hc.
    + by apply wf_set_obj.
  - apply (sim_push W _ _ a o); auto. intros b Hb. inversion Hb.
Qed.

(** * lockstep execution of pure code *)
Definition lock (W : world) (r r' : st * outcome) : Prop :=
  snd r = snd r' /\ fst (fst r) = W /\ fst (fst r') = W /\ sim W (snd (fst r)) (snd (fst r')).

Lemma sim_cbal_loaded W D D' a : sim W D D' -> cbal (load W D a) a = cbal (load W D' a) a.
Proof.
  intros Hsim. pose proof (sim_load W D D' a Hsim) as Hl.
  destruct (objs (load W D a) !! a) as [o|] eqn:E; [by eapply sim_cbal|].
  unfold cbal. rewrite E. destruct Hl as ((_ & _ & _ & Ho) & _). destruct (Ho a) as [Heq|(_ & Hin & _)].
  - by rewrite <- Heq, E.
  - exfalso. unfold load in E. destruct (objs D !! a) eqn:E0; [congruence|].
    rewrite bool_decide_eq_true_2 in E by done. cbn in E. by rewrite lookup_insert in E.
Qed.

Lemma do_call_as_get_or_new force order W D caller target value run :
  do_call_gen force order (W, D) caller target value run =
  if negb (value =? 0) && (cbal (load W D caller) caller <? value) then ((W, load W D caller), Fail) else
  let D0 := if value =? 0 then D else load W D caller in
  let snap := snapshot D0 in
  if negb force && match objs (load W D0 target) !! target with None => true | Some _ => false end && (value =? 0) && negb (is_precompile target)
  then ((W, D0), Ok) else
  let D3 := add_bal W (sub_bal W (get_or_new W D0 target) caller value) target value in
  let '((W4, D4), oc) := run (W, D3) in
  match oc with
  | Ok => ((W4, D4), Ok)
  | Fail => ((W4, revert_to D4 snap), Fail)
  end.
Proof. reflexivity. Qed.

Lemma sim_absent_after_load W D D' t : sim W D D' ->
  match objs (load W D t) !! t with None => true | Some _ => false end =
  match objs (load W D' t) !! t with None => true | Some _ => false end.
Proof.
  intros Hsim. pose proof (sim_load W D D' t Hsim) as Hl.
  destruct (objs (load W D t) !! t) as [o|] eqn:E; [by rewrite (sim_obj _ _ _ _ _ Hl E)|].
  destruct Hl as ((_ & _ & _ & Ho) & _). destruct (Ho t) as [Heq|(_ & Hin & _)]; [by rewrite <- Heq, E|].
  exfalso. destruct (load_loads W D t Hin) as [x Hx]. congruence.
Qed.

Lemma do_call_gen_lock force order W D D' caller target value run :
  sim W D D' ->
  (forall D1 D1', sim W D1 D1' -> is_Some (objs D1 !! target) -> lock W (run (W, D1)) (run (W, D1'))) ->
  lock W (do_call_gen force order (W, D) caller target value run) (do_call_gen force order (W, D') caller target value run).
Proof.
  intros Hsim Hrun. rewrite !do_call_as_get_or_new. rewrite (sim_cbal_loaded W D D' caller Hsim).
  destruct (negb (value =? 0) && (cbal (load W D' caller) caller <? value)).
  { split; [done|]. split; [done|]. split; [done|]. by apply sim_load. }
  cbn zeta.
  assert (H0 : sim W (if value =? 0 then D else load W D caller) (if value =? 0 then D' else load W D' caller)).
  { destruct (value =? 0); [done|by apply sim_load]. }
  set (D0 := if value =? 0 then D else load W D caller) in *.
  set (D0' := if value =? 0 then D' else load W D' caller) in *.
  assert (Hsnap : snapshot D0 = snapshot D0').
  { unfold snapshot. destruct H0 as ((Hj & _) & _). by rewrite Hj. }
  rewrite Hsnap. rewrite (sim_absent_after_load W D0 D0' target H0).
  destruct (negb force && match objs (load W D0' target) !! target with None => true | Some _ => false end && (value =? 0) && negb (is_precompile target)).
  { split; [done|]. split; [done|]. split; [done|]. exact H0. }
  destruct (sim_get_or_new W D0 D0' target H0) as [H2 (ot & Hot & _)].
  pose proof (sim_add_bal W _ _ target value (sim_add_bal W _ _ caller (- value) H2)) as H3.
  assert (Hpres : is_Some (objs (add_bal W (add_bal W (get_or_new W D0 target) caller (- value)) target value) !! target)).
  { apply add_bal_keeps, add_bal_keeps. rewrite Hot. eauto. }
  specialize (Hrun _ _ H3 Hpres). unfold sub_bal.
  destruct (run (W, add_bal W (add_bal W (get_or_new W D0 target) caller (- value)) target value)) as [[W4 D4] oc].
  destruct (run (W, add_bal W (add_bal W (get_or_new W D0' target) caller (- value)) target value)) as [[W4' D4'] oc'].
  destruct Hrun as (Hoc & HW & HW' & Hs4). cbn in Hoc, HW, HW', Hs4. subst oc' W4 W4'.
  destruct oc; unfold lock; cbn [fst snd].
  - split; [done|]. split; [done|]. split; [done|]. exact Hs4.
  - split; [done|]. split; [done|]. split; [done|]. by apply sim_revert.
Qed.

Lemma do_call_lock order W D D' caller target value run :
  sim W D D' ->
  (forall D1 D1', sim W D1 D1' -> lock W (run (W, D1)) (run (W, D1'))) ->
  lock W (do_call order (W, D) caller target value run) (do_call order (W, D') caller target value run).
Proof. intros Hsim Hrun. apply do_call_gen_lock; [done|]. intros D1 D1' Hs _. by apply Hrun. Qed.

Lemma sim_read_loaded W D D' a k : sim W D D' -> read_state W (load W D a) a k = read_state W (load W D' a) a k.
Proof.
  intros Hsim. pose proof (sim_load W D D' a Hsim) as Hl. unfold read_state.
  destruct (objs (load W D a) !! a) as [o|] eqn:E; [by rewrite (sim_obj _ _ _ _ _ Hl E)|].
  destruct Hl as ((_ & _ & _ & Ho) & _). destruct (Ho a) as [Heq|(_ & Hin & _)]; [by rewrite <- Heq, E|].
  exfalso. destruct (load_loads W D a Hin) as [x Hx]. congruence.
Qed.

Lemma after_call_lock W self catch rec r r' : lock W r r' -> lock W (after_call self catch rec r) (after_call self catch rec r').
Proof.
  destruct r as [[W1 D1] oc], r' as [[W1' D1'] oc']. intros (Hoc & HW & HW' & Hs). cbn in Hoc, HW, HW', Hs.
  subst oc' W1 W1'. unfold after_call.
  assert (H2 : sim W (match rec with Some slot => set_state W D1 self slot (if match oc with Ok => true | Fail => false end then 2 else 1) | None => D1 end)
                     (match rec with Some slot => set_state W D1' self slot (if match oc with Ok => true | Fail => false end then 2 else 1) | None => D1' end)).
  { destruct rec; [by apply sim_set_state|done]. }
  destruct (catch || _); unfold lock; cbn [fst snd]; (split; [done|]; split; [done|]; split; [done|]; exact H2).
Qed.

Lemma lock_seq W r r' (f : st -> st * outcome) :
  lock W r r' -> (forall D1 D1', sim W D1 D1' -> lock W (f (W, D1)) (f (W, D1'))) ->
  lock W (let '(s1, oc) := r in match oc with Ok => f s1 | Fail => (s1, oc) end)
         (let '(s1, oc) := r' in match oc with Ok => f s1 | Fail => (s1, oc) end).
Proof.
  destruct r as [[W1 D1] oc], r' as [[W1' D1'] oc']. intros (Hoc & HW & HW' & Hs) Hf. cbn in Hoc, HW, HW', Hs.
  subst oc' W1 W1'. destruct oc; [by apply Hf|]. unfold lock; cbn [fst snd]. split; [done|]. split; [done|]. split; [done|]. exact Hs.
Qed.

Ltac mklock := unfold lock; cbn [fst snd]; split; [reflexivity|]; split; [reflexivity|]; split; [reflexivity|].

Lemma forall_list_lock order o W body :
  Forall (fun i => pure i = true -> forall order o self W D D', sim W D D' ->
            lock W (exec_instr order o self i (W, D)) (exec_instr order o self i (W, D'))) body ->
  forallb pure body = true ->
  forall t D D', sim W D D' -> lock W (exec_list order o t body (W, D)) (exec_list order o t body (W, D')).
Proof.
  induction body as [|x body IHb]; intros IH Hp t D D' Hsim; cbn [exec_list]; [mklock; exact Hsim|].
  cbn [forallb] in Hp. apply andb_prop in Hp as [Hpx Hpb]. inversion IH as [|? ? IHx IHrest]; subst.
  apply (lock_seq W (exec_instr order o t x (W, D)) (exec_instr order o t x (W, D'))).
  - by apply IHx.
  - intros D2 D2' Hs2. by apply IHb.
Qed.

Theorem pure_instr_lock : forall i, pure i = true ->
  forall order o self W D D', sim W D D' ->
    lock W (exec_instr order o self i (W, D)) (exec_instr order o self i (W, D')).
Proof.
  induction i as [k v| | |a|b|t v c r body IH|ad v c r sc body IH|p v c r] using instr_ind'; intros Hp order o self W D D' Hsim.
  - cbn [exec_instr]. mklock. by apply sim_set_state.
  - cbn [exec_instr]. mklock. by apply sim_add_log.
  - cbn [exec_instr]. mklock. exact Hsim.
  - cbn [exec_instr]. mklock. by apply sim_load.
  - cbn [exec_instr]. pose proof (sim_load W D D' self Hsim) as Hl0.
    destruct (objs (load W D self) !! self) as [os|] eqn:E.
    + rewrite (sim_obj _ _ _ _ _ Hl0 E). mklock.
      pose proof (sim_add_bal W _ _ b (obal os) Hl0) as H1.
      destruct (add_bal_keeps W (load W D self) self b (obal os)) as [o1 Ho1]; [rewrite E; eauto|].
      by eapply sim_suicide.
    + assert (E' : objs (load W D' self) !! self = None).
      { destruct Hl0 as ((_ & _ & _ & Ho) & _). destruct (Ho self) as [Heq|(_ & Hin & _)]; [congruence|].
        exfalso. destruct (load_loads W D self Hin) as [x Hx]. congruence. }
      rewrite E'. mklock. exact Hl0.
  - cbn [exec_instr]. cbn [pure] in Hp. apply after_call_lock. apply do_call_lock; [done|].
    intros D1 D1' Hs1. destruct (N.leb 2 t && N.leb t 4); [|mklock; exact Hs1].
    clear Hsim D D'. revert D1 D1' Hs1.
    induction body as [|x body IHb]; intros D1 D1' Hs1; [mklock; exact Hs1|].
    cbn [forallb] in Hp. apply andb_prop in Hp as [Hpx Hpb].
    inversion IH as [|? ? IHx IHrest]; subst.
    apply (lock_seq W (exec_instr order o t x (W, D1)) (exec_instr order o t x (W, D1'))).
    + by apply IHx.
    + intros D2 D2' Hs2. by apply IHb.
  - (* CREATE *)
    cbn [pure] in Hp. rewrite !exec_create_eq.
    pose proof (sim_load W D D' self Hsim) as Hl0.
    rewrite (sim_cbal_loaded W D D' self Hsim).
    destruct (negb (v =? 0) && (cbal (load W D' self) self <? v)).
    { apply after_call_lock. mklock. exact Hl0. }
    cbv zeta. rewrite (sim_read_loaded W D D' self NONCE_SLOT Hsim).
    pose proof (sim_set_state W _ _ self NONCE_SLOT (read_state W (load W D' self) self NONCE_SLOT + 1) Hl0) as Hs1.
    destruct (nth_error ad (Z.to_nat (read_state W (load W D' self) self NONCE_SLOT))) as [t|].
    2:{ apply after_call_lock. mklock. exact Hs1. }
    rewrite (sim_read_loaded W _ _ t CREATED_SLOT Hs1), (sim_read_loaded W _ _ t CODE_SLOT Hs1).
    match goal with |- lock W (if ?b then _ else _) _ => destruct b end.
    { apply after_call_lock. mklock. by apply sim_load. }
    apply after_call_lock. apply do_call_gen_lock; [exact Hs1|].
    intros D2 D2' Hs2 Hpres. rewrite !create_run_eq.
    pose proof (forall_list_lock order o W body IH Hp t _ _ (sim_set_state W _ _ t CREATED_SLOT 1 (sim_reset W D2 D2' t Hs2 Hpres))) as Hb.
    destruct (exec_list order o t body (W, set_state W (reset_obj D2 t) t CREATED_SLOT 1)) as [[Wb Db] ocb].
    destruct (exec_list order o t body (W, set_state W (reset_obj D2' t) t CREATED_SLOT 1)) as [[Wb' Db'] ocb'].
    destruct Hb as (Hoc & HW & HW' & Hsb). cbn in Hoc, HW, HW', Hsb. subst ocb' Wb Wb'.
    destruct ocb; cbn [fst snd]; mklock; [|exact Hsb]. destruct sc; [by apply sim_set_state|exact Hsb].
  - discriminate.
Qed.

Lemma pure_list_lock order o self W : forall body, forallb pure body = true ->
  forall D D', sim W D D' -> lock W (exec_list order o self body (W, D)) (exec_list order o self body (W, D')).
Proof.
  induction body as [|x body IH]; intros Hp D D' Hsim; cbn [exec_list]; [mklock; exact Hsim|].
  cbn [forallb] in Hp. apply andb_prop in Hp as [Hpx Hpb].
  apply (lock_seq W (exec_instr order o self x (W, D)) (exec_instr order o self x (W, D'))).
  - by apply pure_instr_lock.
  - intros D2 D2' Hs2. by apply IH.
Qed.

(** * the final commit sees the same dirty objects *)
Definition csim (D D' : sdb) : Prop :=
  dirties D = dirties D' /\
  forall a, is_Some (dirties D !! a) -> is_Some (objs D !! a) /\ objs D !! a = objs D' !! a.

Lemma sim_csim W D D' : sim W D D' -> csim D D'.
Proof.
  intros Hsim. pose proof Hsim as ((Hj & Hd & Hl & Ho) & Hep & Hc & Hwf). split; [done|].
  intros a Ha. assert (Hp : is_Some (objs D !! a)).
  { apply dirty_present; auto. intros b c Hb. rewrite Hd in Hb. destruct Hwf as (_ & Hpos & _). by apply (Hpos b). }
  split; [done|]. destruct Hp as [o Hoa]. by rewrite Hoa, (sim_obj _ _ _ _ _ Hsim Hoa).
Qed.

Lemma commit_one_csim W D D' a : csim D D' -> is_Some (dirties D !! a) ->
  fst (fst (commit_one W D a)) = fst (fst (commit_one W D' a)) /\
  snd (commit_one W D a) = snd (commit_one W D' a) /\
  csim (snd (fst (commit_one W D a))) (snd (fst (commit_one W D' a))).
Proof.
  intros (Hd & Ho) Ha. destruct (Ho a Ha) as [[o Hoa] Heq]. unfold commit_one. rewrite <- Heq, Hoa.
  destruct (osui o); [cbn [fst snd]; split; [done|]; split; [done|]; split; done|].
  destruct (obal o <? 0); [cbn [fst snd]; split; [done|]; split; [done|]; split; done|].
  destruct ((0 <? obal o - zg (bank _) a) && blocked a); [cbn [fst snd]; split; [done|]; split; [done|]; split; done|].
  destruct (commit_storage _ a o) as [W2 o2]. cbn [fst snd].
  split; [done|]. split; [done|]. split; [done|]. intros b Hb. cbn in Hb |- *.
  destruct (decide (a = b)) as [->|]; [rewrite !lookup_insert; eauto|rewrite !lookup_insert_ne by done; by apply Ho].
Qed.

Lemma commit_list_csim l : forall W D D', csim D D' ->
  fst (fst (commit_list W D l)) = fst (fst (commit_list W D' l)) /\
  snd (commit_list W D l) = snd (commit_list W D' l).
Proof.
  induction l as [|a r IH]; intros W D D' Hc; cbn [commit_list]; [done|].
  pose proof Hc as [Hd Ho]. rewrite <- Hd.
  destruct (decide (is_Some (dirties D !! a))) as [Ha|Hn].
  - rewrite !bool_decide_eq_true_2 by done.
    destruct (commit_one_csim W D D' a Hc Ha) as (E1 & E2 & Hc1).
    destruct (commit_one W D a) as [[W1 D1] ok], (commit_one W D' a) as [[W1' D1'] ok'].
    cbn [fst snd] in E1, E2, Hc1. subst W1' ok'. destruct ok; [by apply IH|done].
  - rewrite !bool_decide_eq_false_2 by done. by apply IH.
Qed.

(** * main result: the real (lazily loading) transaction equals the one started from the saturated cache *)
Lemma sat_only_existing W l : forall a o, objs (sat_cache W l) !! a = Some o -> o = clean W a /\ a ∈ wexists W.
Proof.
  unfold sat_cache.
  assert (H : forall l D, (forall a o, objs D !! a = Some o -> o = clean W a /\ a ∈ wexists W) ->
            forall a o, objs (fold_left (fun D a => load W D a) l D) !! a = Some o -> o = clean W a /\ a ∈ wexists W).
  { clear. induction l as [|x l IH]; intros D HD; cbn [fold_left]; [done|]. apply IH.
    intros a o. unfold load. destruct (objs D !! x) eqn:E; [apply HD|].
    destruct (decide (x ∈ wexists W)) as [Hin|Hn]; [rewrite bool_decide_eq_true_2 by done|rewrite bool_decide_eq_false_2 by done; apply HD].
    cbn. destruct (decide (x = a)) as [->|]; [rewrite lookup_insert; by intros [= <-]|rewrite lookup_insert_ne by done; apply HD]. }
  apply H. intros a o. cbn. by rewrite lookup_empty.
Qed.

Lemma sim_empty_sat W l : (forall a, a ∈ wexists W -> a ∈ l) -> sim W sdb0 (sat_cache W l).
Proof.
  intros Hall. destruct (sat_cache_ok W l Hall) as (Hwf & Hcoh & Hd & _).
  assert (Hci : journal (sat_cache W l) = [] /\ logs (sat_cache W l) = O).
  { unfold sat_cache. assert (H : forall l D, journal D = [] /\ logs D = O ->
        journal (fold_left (fun D a => load W D a) l D) = [] /\ logs (fold_left (fun D a => load W D a) l D) = O).
    { clear. induction l as [|x l IH]; intros D HD; cbn [fold_left]; [done|]. apply IH.
      unfold load. destruct (objs D !! x); [done|]. by destruct (bool_decide _). }
    by apply H. }
  destruct Hci as [Hj Hl].
  split; [|split; [|split]].
  - split; [by rewrite Hj|]. split; [by rewrite Hd|]. split; [by rewrite Hl|].
    intros a. cbn. rewrite lookup_empty. destruct (objs (sat_cache W l) !! a) as [o|] eqn:E; [|by left].
    right. destruct (sat_only_existing W l a o E) as [-> Hin]. done.
  - exact I.
  - intros a. cbn. by rewrite lookup_empty.
  - exact Hwf.
Qed.

Theorem pure_run_tx_lazy_eq_saturated order W0 value c body l :
  (forall a, a ∈ wexists W0 -> a ∈ l) -> forallb pure body = true ->
  run_tx order W0 value (TopCall c body) = run_tx_from order W0 (sat_cache W0 l) value (TopCall c body).
Proof.
  intros Hall Hp. rewrite run_tx_is_from_empty. unfold run_tx_from.
  pose proof (do_call_lock order W0 sdb0 (sat_cache W0 l) 0%N c value (exec_list order 0%N c body)
                (sim_empty_sat W0 l Hall)) as Hlock.
  destruct Hlock as (Hoc & HW & HW' & Hs).
  { intros D1 D1' Hs1. by apply pure_list_lock. }
  destruct (do_call order (W0, sdb0) 0%N c value (exec_list order 0%N c body)) as [[W D] oc].
  destruct (do_call order (W0, sat_cache W0 l) 0%N c value (exec_list order 0%N c body)) as [[W' D'] oc'].
  cbn in Hoc, HW, HW', Hs. subst oc' W W'.
  unfold commit. destruct (commit_list_csim order W0 D D' (sim_csim _ _ _ Hs)) as [E1 E2].
  destruct (commit_list W0 D order) as [[W1 D1] ok], (commit_list W0 D' order) as [[W1' D1'] ok'].
  cbn in E1, E2. by subst.
Qed.

(** every pure, closed EVM transaction conserves the total supply — for the real,
    lazily loading [run_tx] started from the empty cache *)
Corollary pure_run_tx_conserves_supply order W0 value c body :
  NoDup order -> world_ok W0 -> (forall a, a ∈ wexists W0 -> a ∈ order) -> 0%N ∈ order -> c ∈ order ->
  forallb pure body = true -> forallb nosd body = true -> forallb (closedb order) body = true ->
  supply (fst (run_tx order W0 value (TopCall c body))) = supply W0.
Proof.
  intros Hnd Hw Hall H0 Hc Hp Hns Hcl. rewrite (pure_run_tx_lazy_eq_saturated order W0 value c body order Hall Hp).
  by apply pure_tx_conserves_supply_from_clean.
Qed.
