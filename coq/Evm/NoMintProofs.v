(** Pure EVM code never mints (property C02), SELFDESTRUCT and CREATE included: for every call tree of value
    transfers, storage writes, logs, self-destructs, contract creations and reverts the total supply after the
    transaction is at most the supply before — what is missing is exactly what self-destructed
    contracts held (the sanctioned burn). *)
From Coq Require Import ZArith List Lia.
From stdpp Require Import gmap.
From HV Require Import Evm.ExecModel Evm.JournalProofs Evm.SupplyProofs Evm.ConservationProofs Evm.LazyProofs.
Local Open Scope Z_scope.

(** * non-negative cached balances, now and in every state the journal can restore *)
Definition jnn (e : jentry) : Prop :=
  match e with JBal _ p => 0 <= p | JSuicide _ _ pb => 0 <= pb | JReset _ pv => 0 <= obal pv | _ => True end.
Definition nn (D : sdb) : Prop :=
  (forall a o, objs D !! a = Some o -> 0 <= obal o) /\ Forall jnn (journal D).

Lemma nn_set_obj D a o : nn D -> 0 <= obal o -> nn (set_obj D a o).
Proof.
  intros [Ho Hj] Hb. split; [|exact Hj]. intros b ob. cbn.
  destruct (decide (a = b)) as [->|]; [rewrite lookup_insert; by intros [= <-]|rewrite lookup_insert_ne by done; apply Ho].
Qed.
Lemma nn_japp D e : nn D -> jnn e -> nn (japp D e).
Proof. intros [Ho Hj] He. split; [exact Ho|]. cbn. by constructor. Qed.
Lemma nn_load W D a : nn D -> 0 <= zg (bank W) a -> nn (load W D a).
Proof. intros Hn Hb. unfold load. destruct (objs D !! a); [done|]. destruct (bool_decide _); [|done]. by apply nn_set_obj. Qed.

Definition bank_nn (W : world) : Prop := forall a, 0 <= zg (bank W) a.

Lemma nn_get_or_new W D a : bank_nn W -> nn D -> nn (get_or_new W D a).
Proof.
  intros Hw Hn. unfold get_or_new. pose proof (nn_load W D a Hn (Hw a)) as H1. destruct (objs (load W D a) !! a); [done|].
  apply nn_japp; [by apply nn_set_obj|exact I].
Qed.
Lemma nn_set_bal D a v : nn D -> 0 <= v -> nn (set_bal D a v).
Proof.
  intros Hn Hv. unfold set_bal. destruct (objs D !! a) as [o|] eqn:E; [|done].
  apply nn_set_obj; [|done]. apply nn_japp; [done|]. cbn. by apply (proj1 Hn a o).
Qed.
Lemma nn_add_bal W D a amt : bank_nn W -> nn D -> 0 <= cbal (get_or_new W D a) a + amt -> nn (add_bal W D a amt).
Proof. intros Hw Hn Hv. unfold add_bal. destruct (amt =? 0); [by apply nn_get_or_new|]. apply nn_set_bal; [by apply nn_get_or_new|done]. Qed.
Lemma nn_cbal D a : nn D -> 0 <= cbal D a.
Proof. intros [Ho _]. unfold cbal. destruct (objs D !! a) as [o|] eqn:E; [by apply (Ho a o)|lia]. Qed.
Lemma nn_add_bal_pos W D a amt : bank_nn W -> nn D -> 0 <= amt -> nn (add_bal W D a amt).
Proof. intros Hw Hn Ha. apply nn_add_bal; auto. pose proof (nn_cbal _ a (nn_get_or_new W D a Hw Hn)). lia. Qed.
Lemma nn_add_log D : nn D -> nn (add_log D).
Proof. intros [Ho Hj]. split; [exact Ho|]. cbn. by constructor. Qed.
Lemma nn_suicide D a : nn D -> nn (suicide D a).
Proof.
  intros Hn. unfold suicide. destruct (objs D !! a) as [o|] eqn:E; [|done].
  apply nn_set_obj; [|cbn; lia]. apply nn_japp; [done|]. cbn. by apply (proj1 Hn a o).
Qed.
Lemma nn_reset D a : nn D -> nn (reset_obj D a).
Proof.
  intros Hn. unfold reset_obj. destruct (objs D !! a) as [o|] eqn:E; [|done].
  pose proof (proj1 Hn a o E) as Hb. apply nn_set_obj; [|done]. by apply nn_japp.
Qed.
Lemma nn_set_state W D a k v : bank_nn W -> nn D -> nn (set_state W D a k v).
Proof.
  intros Hw Hn. unfold set_state. pose proof (nn_get_or_new W D a Hw Hn) as H1.
  destruct (objs (get_or_new W D a) !! a) as [o|] eqn:E; [|done].
  pose proof (proj1 H1 a o E) as Hb.
  destruct (dstor o !! k) as [d|].
  - destruct (d =? v); [by apply nn_set_obj|]. apply nn_set_obj; [apply nn_japp; [done|exact I]|done].
  - destruct (ostor o !! k) as [c|].
    + destruct (c =? v); [by apply nn_set_obj|]. apply nn_set_obj; [apply nn_japp; [done|exact I]|done].
    + destruct (zg (store W) (a, k) =? v); [by apply nn_set_obj|]. apply nn_set_obj; [apply nn_japp; [done|exact I]|done].
Qed.
Lemma nn_undo D e r : nn D -> journal D = e :: r -> nn (undo (mksdb (objs D) r (dirties D) (logs D)) e).
Proof.
  intros [Ho Hj] Hjr. rewrite undo_split. rewrite Hjr in Hj. inversion Hj as [|? ? He Hr]; subst.
  assert (Hjj : journal (undo_dirt (undo_core (mksdb (objs D) r (dirties D) (logs D)) e) e) = r).
  { rewrite <- undo_split, journal_undo. reflexivity. }
  split; [|by rewrite Hjj].
  assert (Hob : objs (undo_dirt (undo_core (mksdb (objs D) r (dirties D) (logs D)) e) e) =
                objs (undo_core (mksdb (objs D) r (dirties D) (logs D)) e)).
  { unfold undo_dirt. by destruct (dirtied e). }
  rewrite Hob. unfold undo_core. destruct e as [a0 p|a0 k p|a0| |a0 p pb|a0 pv]; cbn.
  - destruct (objs D !! a0) as [o0|] eqn:E; cbn; [|exact Ho]. intros b ob.
    destruct (decide (a0 = b)) as [->|]; [rewrite lookup_insert; intros [= <-]; exact He|rewrite lookup_insert_ne by done; apply Ho].
  - destruct (objs D !! a0) as [o0|] eqn:E; cbn; [|exact Ho]. intros b ob.
    destruct (decide (a0 = b)) as [->|]; [rewrite lookup_insert; intros [= <-]; cbn; by apply (Ho b o0)|rewrite lookup_insert_ne by done; apply Ho].
  - intros b ob. destruct (decide (a0 = b)) as [->|]; [by rewrite lookup_delete|rewrite lookup_delete_ne by done; apply Ho].
  - exact Ho.
  - destruct (objs D !! a0) as [o0|] eqn:E; cbn; [|exact Ho]. intros b ob.
    destruct (decide (a0 = b)) as [->|]; [rewrite lookup_insert; intros [= <-]; exact He|rewrite lookup_insert_ne by done; apply Ho].
  - intros b ob. destruct (decide (a0 = b)) as [->|]; [rewrite lookup_insert; intros [= <-]; exact He|rewrite lookup_insert_ne by done; apply Ho].
Qed.
Lemma nn_pop_n n : forall D, nn D -> nn (pop_n D n).
Proof.
  induction n as [|n IH]; intros D Hn; cbn [pop_n]; [done|].
  destruct (journal D) as [|e r] eqn:E; [done|]. apply IH. by apply nn_undo.
Qed.
Lemma nn_revert D n : nn D -> nn (revert_to D n).
Proof. intros Hn. unfold revert_to. by apply nn_pop_n. Qed.

(** * SELFDESTRUCT in the cache view: coherence is kept, the total drops by the balance destroyed *)
Lemma suicide_facts U W D a o : wf W D -> cohp W D -> NoDup U -> a ∈ U -> objs D !! a = Some o ->
  cohp W (suicide D a) /\ total U W (suicide D a) = total U W D - obal o.
Proof.
  intros Hwf Hc Hnd Hin Ho. pose proof (suicide_ext W D a Hwf) as He. unfold suicide in *. rewrite Ho in *. split.
  - eapply (cohp_push W D _ (JSuicide a (osui o) (obal o))); [reflexivity| |done|].
    + eapply pop1_of_ext; [exact He|reflexivity].
    + intros b o' Hb Hd. cbn in Hb, Hd.
      destruct (decide (a = b)) as [->|Hab]; [by rewrite lookup_insert in Hd|].
      rewrite lookup_insert_ne in Hb by done. rewrite lookup_insert_ne in Hd by done. by apply (cohp_here _ _ Hc b o').
  - unfold total. rewrite (lsumz_update (view W D) _ U a Hnd Hin).
    + unfold view; cbn. rewrite lookup_insert, Ho. cbn. lia.
    + intros b Hb. unfold view; cbn. by rewrite lookup_insert_ne.
Qed.

Lemma add_bal_obal_ge W D a o b amt o1 : wf W D -> objs D !! a = Some o -> 0 <= amt ->
  objs (add_bal W D b amt) !! a = Some o1 -> obal o <= obal o1.
Proof.
  intros Hwf Ho Ha. unfold add_bal, get_or_new. rewrite (load_id _ _ _ Hwf).
  destruct (decide (b = a)) as [->|Hne].
  - rewrite Ho. destruct (amt =? 0); [rewrite Ho; intros [= <-]; lia|].
    unfold set_bal. rewrite Ho. cbn. rewrite lookup_insert. intros [= <-]. cbn. unfold cbal. rewrite Ho. lia.
  - destruct (objs D !! b) as [ob|] eqn:Eb.
    + destruct (amt =? 0); [rewrite Ho; intros [= <-]; lia|].
      unfold set_bal. rewrite Eb. cbn. rewrite lookup_insert_ne by done. rewrite Ho. intros [= <-]. lia.
    + destruct (amt =? 0).
      * cbn. rewrite lookup_insert_ne by done. rewrite Ho. intros [= <-]. lia.
      * unfold set_bal. cbn. rewrite lookup_insert. cbn. rewrite lookup_insert_ne by done.
        rewrite lookup_insert_ne by done. rewrite Ho. intros [= <-]. lia.
Qed.

(** values attached to calls are non-negative, beneficiaries and call targets are in the commit's address list *)
Fixpoint okv (U : list N) (i : instr) : bool :=
  match i with
  | ICall t v _ _ body => (0 <=? v) && bool_decide (t ∈ U) && forallb (okv U) body
  | ICreate addrs v _ _ _ body => (0 <=? v) && forallb (fun t => bool_decide (t ∈ U)) addrs && forallb (okv U) body
  | ISelfdestruct b => bool_decide (b ∈ U)
  | _ => true
  end.

Definition pstep3 (U : list N) (W : world) (D : sdb) (r : st * outcome) : Prop :=
  fst (fst r) = W /\ ext W D (snd (fst r)) /\ cohp W (snd (fst r)) /\ nn (snd (fst r)) /\
  total U W (snd (fst r)) <= total U W D.

Lemma pstep3_seq U W D r (f : st -> st * outcome) :
  pstep3 U W D r -> (forall D1, wf W D1 -> cohp W D1 -> nn D1 -> pstep3 U W D1 (f (W, D1))) ->
  pstep3 U W D (let '(s1, oc) := r in match oc with Ok => f s1 | Fail => (s1, oc) end).
Proof.
  destruct r as [[W1 D1] oc]. intros (HW & He & Hc & Hn & Ht) Hf. cbn in HW. subst W1. cbn in He, Hc, Hn, Ht.
  destruct oc; [|unfold pstep3; cbn [fst snd]; tauto].
  destruct (Hf D1 (proj1 He) Hc Hn) as (HW2 & He2 & Hc2 & Hn2 & Ht2). split; [done|]. split; [eapply ext_trans; eauto|].
  split; [done|]. split; [done|]. lia.
Qed.

Lemma do_call_gen_pure3 force U order W D caller target value run :
  wf W D -> cohp W D -> nn D -> world_ok W -> bank_nn W -> NoDup U -> caller ∈ U -> target ∈ U -> 0 <= value ->
  (forall D1, wf W D1 -> cohp W D1 -> nn D1 -> pstep3 U W D1 (run (W, D1))) ->
  pstep3 U W D (do_call_gen force order (W, D) caller target value run).
Proof.
  intros Hwf Hc Hn Hw Hbn Hnd Hcu Htu Hv Hrun. unfold do_call_gen. rewrite !(load_id _ _ _ Hwf).
  destruct (negb (value =? 0) && (cbal D caller <? value)) eqn:Hchk.
  { split; [done|]. split; [by apply ext_refl|]. split; [done|]. split; [done|]. cbn. lia. }
  assert (HD0 : (if value =? 0 then D else D) = D) by (by destruct (value =? 0)). rewrite HD0.
  rewrite !(load_id _ _ _ Hwf).
  destruct (negb force && match objs D !! target with None => true | Some _ => false end && (value =? 0) && negb (is_precompile target)).
  { split; [done|]. split; [by apply ext_refl|]. split; [done|]. split; [done|]. cbn. lia. }
  set (D2 := match objs D !! target with
             | Some _ => D
             | None => japp (set_obj D target (mkobj 0 ∅ ∅ ∅ false)) (JCreate target)
             end).
  assert (H2 : ext W D D2 /\ cohp W D2 /\ total U W D2 = total U W D /\ nn D2 /\ cbal D2 caller = cbal D caller).
  { unfold D2. destruct (objs D !! target) eqn:E; [split; [by apply ext_refl|]; split; [done|]; split; [done|]; split; done|].
    assert (Hne : target ∉ wexists W).
    { intros Hin. destruct Hwf as (Hs & _). destruct (Hs _ Hin). congruence. }
    split; [by apply create_ext|]. destruct (create_facts U W D target Hwf Hc Hw E Hne) as [Hc2 Ht2].
    split; [done|]. split; [done|]. split.
    - apply nn_japp; [apply nn_set_obj; [done|cbn; lia]|exact I].
    - unfold cbal. cbn. destruct (decide (target = caller)) as [->|Hne'].
      + rewrite lookup_insert, E. done.
      + by rewrite lookup_insert_ne. }
  destruct H2 as (He2 & Hc2 & Ht2 & Hn2 & Hcb2).
  set (Ds := sub_bal W D2 caller value).
  assert (Hs : ext W D2 Ds /\ cohp W Ds /\ total U W Ds = total U W D2 + - value /\ nn Ds).
  { unfold Ds, sub_bal. split; [apply add_bal_ext, He2|]. destruct (add_bal_facts U W D2 caller (- value) (proj1 He2) Hc2 Hw Hnd Hcu) as [Ha Hb].
    split; [done|]. split; [done|]. apply nn_add_bal; auto.
    destruct (get_or_new_ext W D2 caller (proj1 He2)) as [_ [oc Hoc]].
    assert (Hsame : cbal (get_or_new W D2 caller) caller = cbal D2 caller).
    { unfold get_or_new. rewrite (load_id _ _ _ (proj1 He2)). destruct (objs D2 !! caller) eqn:E; [done|].
      unfold cbal. cbn. by rewrite lookup_insert, E. }
    rewrite Hsame, Hcb2. destruct (value =? 0) eqn:Ev; [apply Z.eqb_eq in Ev; subst; pose proof (nn_cbal D caller Hn); lia|].
    cbn in Hchk. apply Z.ltb_ge in Hchk. lia. }
  destruct Hs as (Hes & Hcs & Hts & Hns).
  set (D3 := add_bal W Ds target value).
  assert (H3 : ext W Ds D3 /\ cohp W D3 /\ total U W D3 = total U W Ds + value /\ nn D3).
  { unfold D3. split; [apply add_bal_ext, Hes|]. destruct (add_bal_facts U W Ds target value (proj1 Hes) Hcs Hw Hnd Htu) as [Ha Hb].
    split; [done|]. split; [done|]. by apply nn_add_bal_pos. }
  destruct H3 as (He3 & Hc3 & Ht3 & Hn3).
  assert (HeD3 : ext W D D3) by (eapply ext_trans; [exact He2|]; eapply ext_trans; eauto).
  destruct (Hrun D3 (proj1 HeD3) Hc3 Hn3) as (HW4 & He4 & Hc4 & Hn4 & Ht4).
  destruct (run (W, D3)) as [[W4 D4] oc]. cbn in HW4, He4, Hc4, Hn4, Ht4. subst W4.
  assert (He : ext W D D4) by (eapply ext_trans; eauto).
  destruct oc; unfold pstep3; cbn [fst snd].
  - split; [done|]. split; [done|]. split; [done|]. split; [done|]. lia.
  - assert (Hsn : (jlen D <= snapshot D <= jlen D4)%nat).
    { unfold snapshot. fold (jlen D). destruct He as (_ & L & _). lia. }
    split; [done|]. split; [by apply ext_revert|]. split; [apply cohp_revert; [done|lia]|]. split; [by apply nn_revert|].
    assert (Heq : total U W (revert_to D4 (snapshot D)) = total U W D).
    { apply total_obs_eq. destruct He as (_ & _ & H). specialize (H (jlen D) (le_n _)).
      rewrite revert_to_self in H. unfold snapshot. fold (jlen D). exact H. }
    lia.
Qed.

Lemma do_call_pure3 U order W D caller target value run :
  wf W D -> cohp W D -> nn D -> world_ok W -> bank_nn W -> NoDup U -> caller ∈ U -> target ∈ U -> 0 <= value ->
  (forall D1, wf W D1 -> cohp W D1 -> nn D1 -> pstep3 U W D1 (run (W, D1))) ->
  pstep3 U W D (do_call order (W, D) caller target value run).
Proof. apply do_call_gen_pure3. Qed.

Lemma after_call_pure3 U W D0 self catch rec r : world_ok W -> bank_nn W ->
  pstep3 U W D0 r -> pstep3 U W D0 (after_call self catch rec r).
Proof.
  destruct r as [[W1 D1] oc]. intros Hw Hbn (HW & He & Hc & Hn & Ht). cbn in HW, He, Hc, Hn, Ht. subst W1. unfold after_call.
  set (D2 := match rec with Some slot => set_state W D1 self slot _ | None => D1 end).
  assert (H2 : ext W D0 D2 /\ cohp W D2 /\ nn D2 /\ total U W D2 <= total U W D0).
  { unfold D2. destruct rec as [slot|]; [|done].
    split; [eapply ext_trans; [exact He|]; apply set_state_ext, He|].
    destruct (set_state_facts U W D1 self slot (if match oc with Ok => true | Fail => false end then 2 else 1)
                (proj1 He) Hc Hw) as [Hc2 Ht2]. split; [done|]. split; [by apply nn_set_state|]. lia. }
  destruct (catch || _); unfold pstep3; cbn [fst snd]; tauto.
Qed.

Lemma forall_list3 U order o W body : world_ok W -> bank_nn W ->
  Forall (fun i => pure i = true -> okv U i = true ->
            forall order o self W D, world_ok W -> bank_nn W -> self ∈ U -> wf W D -> cohp W D -> nn D ->
              pstep3 U W D (exec_instr order o self i (W, D))) body ->
  forallb pure body = true -> forallb (okv U) body = true ->
  forall t D, t ∈ U -> wf W D -> cohp W D -> nn D -> pstep3 U W D (exec_list order o t body (W, D)).
Proof.
  intros Hw Hbn. induction body as [|x body IHb]; intros IH Hp Hok t D Ht Hwf Hc Hn; cbn [exec_list].
  { split; [done|]. split; [by apply ext_refl|]. split; [done|]. split; [done|]. cbn. lia. }
  cbn [forallb] in Hp, Hok. apply andb_prop in Hp as [Hpx Hpb]. apply andb_prop in Hok as [Hox Hob].
  inversion IH as [|? ? IHx IHrest]; subst.
  apply (pstep3_seq U W D (exec_instr order o t x (W, D))).
  - by apply IHx.
  - intros D2 Hwf2 Hc2 Hn2. by apply IHb.
Qed.

Theorem pure_instr3 U : NoDup U -> forall i, pure i = true -> okv U i = true ->
  forall order o self W D, world_ok W -> bank_nn W -> self ∈ U -> wf W D -> cohp W D -> nn D ->
    pstep3 U W D (exec_instr order o self i (W, D)).
Proof.
  intros Hnd.
  induction i as [k v| | |a|b|t v c r body IH|ad v c r sc body IH|p v c r] using instr_ind'; intros Hp Hok order o self W D Hw Hbn Hself Hwf Hc Hn;
    [cbn [exec_instr]..|idtac|cbn [exec_instr]].
  - split; [done|]. split; [by apply set_state_ext|]. destruct (set_state_facts U W D self k v Hwf Hc Hw) as [H1 H2].
    split; [done|]. split; [by apply nn_set_state|]. cbn. lia.
  - split; [done|]. split; [by apply add_log_ext|]. destruct (add_log_facts U W D Hwf Hc) as [H1 H2].
    split; [done|]. split; [by apply nn_add_log|]. cbn. lia.
  - split; [done|]. split; [by apply ext_refl|]. split; [done|]. split; [done|]. cbn. lia.
  - split; [done|]. cbn. rewrite load_id by done. split; [by apply ext_refl|]. split; [done|]. split; [done|]. lia.
  - cbn [okv] in Hok. apply bool_decide_eq_true in Hok. rewrite load_id by done.
    destruct (objs D !! self) as [os|] eqn:Eos.
    2:{ split; [done|]. split; [by apply ext_refl|]. split; [done|]. split; [done|]. cbn. lia. }
    pose proof (proj1 Hn self os Eos) as Hbal.
    pose proof (add_bal_ext W D b (obal os) Hwf) as He1.
    destruct (add_bal_facts U W D b (obal os) Hwf Hc Hw Hnd Hok) as [Hc1 Ht1].
    pose proof (nn_add_bal_pos W D b (obal os) Hbn Hn Hbal) as Hn1.
    destruct (add_bal_keeps W D self b (obal os)) as [o1 Ho1]; [rewrite Eos; eauto|].
    destruct (suicide_facts U W _ self o1 (proj1 He1) Hc1 Hnd Hself Ho1) as [Hc2 Ht2].
    split; [done|]. cbn [fst snd]. split; [eapply ext_trans; [exact He1|]; apply suicide_ext, He1|].
    split; [done|]. split; [by apply nn_suicide|].
    pose proof (add_bal_obal_ge W D self os b (obal os) o1 Hwf Eos Hbal Ho1). lia.
  - cbn [pure okv] in Hp, Hok. apply andb_prop in Hok as [Hok Hcb]. apply andb_prop in Hok as [Hv Ht].
    apply bool_decide_eq_true in Ht. apply Z.leb_le in Hv.
    apply after_call_pure3; [done|done|]. apply do_call_pure3; auto.
    intros D1 Hwf1 Hc1 Hn1. destruct (N.leb 2 t && N.leb t 4).
    2:{ split; [done|]. split; [by apply ext_refl|]. split; [done|]. split; [done|]. cbn. lia. }
    clear Hwf Hc Hn D. revert D1 Hwf1 Hc1 Hn1.
    induction body as [|x body IHb]; intros D1 Hwf1 Hc1 Hn1.
    { split; [done|]. split; [by apply ext_refl|]. split; [done|]. split; [done|]. cbn. lia. }
    cbn [forallb] in Hp, Hcb. apply andb_prop in Hp as [Hpx Hpb]. apply andb_prop in Hcb as [Hcx Hcbb].
    inversion IH as [|? ? IHx IHrest]; subst.
    apply (pstep3_seq U W D1 (exec_instr order o t x (W, D1))).
    + by apply IHx.
    + intros D2 Hwf2 Hc2 Hn2. by apply IHb.
  - (* CREATE *)
    cbn [pure okv] in Hp, Hok. apply andb_prop in Hok as [Hok Hcb]. apply andb_prop in Hok as [Hv Had]. apply Z.leb_le in Hv.
    rewrite exec_create_eq. rewrite !(load_id _ _ _ Hwf).
    destruct (negb (v =? 0) && (cbal D self <? v)).
    { apply after_call_pure3; [done|done|]. split; [done|]. split; [by apply ext_refl|]. split; [done|]. split; [done|]. cbn. lia. }
    pose proof (set_state_ext W D self NONCE_SLOT (read_state W D self NONCE_SLOT + 1) Hwf) as Hen.
    destruct (set_state_facts U W D self NONCE_SLOT (read_state W D self NONCE_SLOT + 1) Hwf Hc Hw) as [Hcn Htn].
    pose proof (nn_set_state W D self NONCE_SLOT (read_state W D self NONCE_SLOT + 1) Hbn Hn) as Hnn.
    cbv zeta. set (D1 := set_state W D self NONCE_SLOT (read_state W D self NONCE_SLOT + 1)) in *.
    destruct (nth_error ad (Z.to_nat (read_state W D self NONCE_SLOT))) as [t|] eqn:Hnth.
    2:{ apply after_call_pure3; [done|done|]. split; [done|]. split; [exact Hen|]. split; [done|]. split; [done|]. cbn [fst snd]. lia. }
    assert (Ht : t ∈ U).
    { apply nth_error_In in Hnth. rewrite forallb_forall in Had. specialize (Had t Hnth). by apply bool_decide_eq_true in Had. }
    rewrite (load_id _ _ _ (proj1 Hen)).
    destruct (negb (read_state W D1 t CREATED_SLOT =? 0) || negb (read_state W D1 t CODE_SLOT =? 0)).
    { apply after_call_pure3; [done|done|]. split; [done|]. split; [exact Hen|]. split; [done|]. split; [done|]. cbn [fst snd]. lia. }
    apply after_call_pure3; [done|done|].
    assert (Hstep : pstep3 U W D1 (do_call_gen true order (W, D1) self t v (create_run order o t sc body))).
    { apply do_call_gen_pure3; auto; [apply Hen|]. intros D2 Hwf2 Hc2 Hn2. rewrite create_run_eq.
      pose proof (reset_ext W D2 t Hwf2) as Her0.
      assert (Hrf : cohp W (reset_obj D2 t) /\ total U W (reset_obj D2 t) = total U W D2).
      { destruct (objs D2 !! t) as [ot|] eqn:Eot; [by eapply reset_facts|]. unfold reset_obj. by rewrite Eot. }
      destruct Hrf as [Hcr0 Htr0].
      pose proof (set_state_ext W (reset_obj D2 t) t CREATED_SLOT 1 (proj1 Her0)) as Her1.
      destruct (set_state_facts U W (reset_obj D2 t) t CREATED_SLOT 1 (proj1 Her0) Hcr0 Hw) as [Hcr Htr1].
      assert (Her : ext W D2 (set_state W (reset_obj D2 t) t CREATED_SLOT 1)) by (eapply ext_trans; eauto).
      assert (Htr : total U W (set_state W (reset_obj D2 t) t CREATED_SLOT 1) = total U W D2) by congruence.
      destruct (forall_list3 U order o W body Hw Hbn IH Hp Hcb t _ Ht (proj1 Her) Hcr (nn_set_state W _ t CREATED_SLOT 1 Hbn (nn_reset D2 t Hn2)))
        as (HWb & Heb & Hcb2 & Hnb & Htb).
      destruct (exec_list order o t body (W, set_state W (reset_obj D2 t) t CREATED_SLOT 1)) as [[Wb Db] ocb].
      cbn [fst snd] in HWb, Heb, Hcb2, Hnb, Htb. subst Wb.
      assert (He2 : ext W D2 Db) by (eapply ext_trans; eauto).
      destruct ocb; unfold pstep3; cbn [fst snd].
      - split; [done|]. destruct sc.
        + destruct (set_state_facts U W Db t CODE_SLOT 1 (proj1 He2) Hcb2 Hw) as [Hcc Htc].
          split; [eapply ext_trans; [exact He2|]; apply set_state_ext, He2|]. split; [done|]. split; [by apply nn_set_state|]. lia.
        + split; [exact He2|]. split; [done|]. split; [done|]. lia.
      - split; [done|]. split; [exact He2|]. split; [done|]. split; [done|]. lia. }
    destruct Hstep as (HWs & Hes & Hcs & Hns & Hts). split; [exact HWs|]. split; [eapply ext_trans; [exact Hen|exact Hes]|].
    split; [done|]. split; [done|]. lia.
  - discriminate.
Qed.

Lemma pure_list3 U order o self W : NoDup U -> world_ok W -> bank_nn W -> self ∈ U ->
  forall body, forallb pure body = true -> forallb (okv U) body = true ->
  forall D, wf W D -> cohp W D -> nn D -> pstep3 U W D (exec_list order o self body (W, D)).
Proof.
  intros Hnd Hw Hbn Hself. induction body as [|x body IH]; intros Hp Hok D Hwf Hc Hn; cbn [exec_list].
  { split; [done|]. split; [by apply ext_refl|]. split; [done|]. split; [done|]. cbn. lia. }
  cbn [forallb] in Hp, Hok. apply andb_prop in Hp as [Hpx Hpb]. apply andb_prop in Hok as [Hox Hob].
  apply (pstep3_seq U W D (exec_instr order o self x (W, D))).
  - by apply pure_instr3.
  - intros D2 Hwf2 Hc2 Hn2. by apply IH.
Qed.

(** the supply delta of the commit is at most (cache view - bank): a deleted contract loses
    its bank balance, whatever its (non-negative) cached balance was *)
Lemma gap_le_view_minus_bank W D order : coh W D -> nn D -> world_ok W ->
  lsumz (gap1 W D) order <= total order W D - lsumz (fun a => zg (bank W) a) order.
Proof.
  intros Hc [Hn _] Hw. unfold total. rewrite <- lsumz_sub.
  induction order as [|a r IH]; cbn [lsumz]; [lia|].
  assert (Ha : gap1 W D a <= view W D a - zg (bank W) a).
  { unfold gap1, view. destruct (dirties D !! a) eqn:Hd, (objs D !! a) as [o|] eqn:Ho; try lia.
    - pose proof (Hn a o Ho). destruct (osui o); [|lia].
      destruct (decide (a ∈ wexists W)) as [Hin|Hni].
      + rewrite bool_decide_eq_true_2 by done. lia.
      + rewrite bool_decide_eq_false_2 by done. rewrite (Hw a Hni). lia.
    - rewrite (Hc a o Ho Hd). lia. }
  lia.
Qed.

Theorem pure_tx_never_mints_from order W0 D0 value c body :
  NoDup order -> world_ok W0 -> bank_nn W0 -> 0%N ∈ order -> c ∈ order -> 0 <= value ->
  forallb pure body = true -> forallb (okv order) body = true ->
  wf W0 D0 -> cohp W0 D0 -> dirties D0 = ∅ -> nn D0 ->
  supply (fst (run_tx_from order W0 D0 value (TopCall c body))) <= supply W0.
Proof.
  intros Hnd Hw Hbn H0 Hc Hv Hp Hok Hwf Hcoh Hd0 Hn0. unfold run_tx_from.
  pose proof (do_call_pure3 order order W0 D0 0%N c value (exec_list order 0%N c body)
                Hwf Hcoh Hn0 Hw Hbn Hnd H0 Hc Hv) as Hstep.
  destruct Hstep as (HW & He & Hc1 & Hn1 & Ht).
  { intros D1 Hwf1 Hc1 Hn1. by apply pure_list3. }
  destruct (do_call order (W0, D0) 0%N c value (exec_list order 0%N c body)) as [[W D] oc].
  cbn [fst snd] in HW, He, Hc1, Hn1, Ht. subst W.
  destruct (commit order W0 D) as [[W1 D1] ok] eqn:Hcm. destruct ok; [|cbn; lia]. destruct oc; [|cbn; lia].
  cbn [fst]. unfold commit in Hcm. rewrite (commit_supply_formula order W0 D W1 D1 Hnd Hcm).
  pose proof (gap_le_view_minus_bank W0 D order (cohp_here _ _ Hc1) Hn1 Hw) as Hg.
  assert (Hinit : total order W0 D0 = lsumz (fun a => zg (bank W0) a) order).
  { apply lsumz_ext. intros a _. unfold view. destruct (objs D0 !! a) as [o|] eqn:Ho; [|done].
    apply (cohp_here _ _ Hcoh a o Ho). by rewrite Hd0. }
  lia.
Qed.

Lemma sat_cache_nn W l : bank_nn W -> nn (sat_cache W l).
Proof.
  intros Hbn. unfold sat_cache.
  assert (H : forall l D, nn D -> nn (fold_left (fun D a => load W D a) l D)).
  { clear l. induction l as [|x l IH]; intros D HD; cbn [fold_left]; [done|]. apply IH. by apply nn_load. }
  apply H. split; [intros a o; cbn; by rewrite lookup_empty|constructor].
Qed.

(** for the real, lazily loading transaction function *)
Theorem pure_run_tx_never_mints order W0 value c body :
  NoDup order -> world_ok W0 -> bank_nn W0 -> (forall a, a ∈ wexists W0 -> a ∈ order) -> 0%N ∈ order -> c ∈ order ->
  0 <= value -> forallb pure body = true -> forallb (okv order) body = true ->
  supply (fst (run_tx order W0 value (TopCall c body))) <= supply W0.
Proof.
  intros Hnd Hw Hbn Hall H0 Hc Hv Hp Hok.
  rewrite (pure_run_tx_lazy_eq_saturated order W0 value c body order Hall Hp).
  destruct (sat_cache_ok W0 order Hall) as (Hwf & Hcoh & Hd & _).
  apply pure_tx_never_mints_from; auto. by apply sat_cache_nn.
Qed.

(** * non-vacuity: the premises hold on a witness taken from the implementation, and the inequality can be strict *)
Lemma world_ok_check W : map_Forall (fun a v => a ∈ wexists W \/ v = 0) (bank W) -> world_ok W.
Proof.
  intros H a Ha. unfold zg. destruct (bank W !! a) as [v|] eqn:E; [|done]. destruct (H a v E) as [Hin|Hz]; [done|by subst].
Qed.
Lemma bank_nn_check W : map_Forall (fun _ v => 0 <= v) (bank W) -> bank_nn W.
Proof. intros H a. unfold zg. destruct (bank W !! a) as [v|] eqn:E; [by apply (H a v E)|done]. Qed.

Definition wit_world (x : ecase * list Z * eobs) : world := world_of (fst (fst x)) (snd (fst x)).
Definition wit_order (x : ecase * list Z * eobs) : list N := e_order (fst (fst x)).

Example never_mints_premises_hold :
  let x := Witnesses.w_sd_to_self in
  let W0 := wit_world x in let order := wit_order x in
  NoDup order /\ world_ok W0 /\ bank_nn W0 /\ (forall a, a ∈ wexists W0 -> a ∈ order) /\ 0%N ∈ order /\ 2%N ∈ order /\
  forallb pure [ISelfdestruct 2%N] = true /\ forallb (okv order) [ISelfdestruct 2%N] = true /\
  supply (fst (run_tx order W0 25 (TopCall 2%N [ISelfdestruct 2%N]))) < supply W0.
Proof.
  cbn zeta. split; [apply (bool_decide_unpack _); vm_compute; exact I|].
  split; [apply world_ok_check; apply (bool_decide_unpack _); vm_compute; exact I|].
  split; [apply bank_nn_check; apply (bool_decide_unpack _); vm_compute; exact I|].
  split.
  { intros a Ha. assert (Hs : wexists (wit_world Witnesses.w_sd_to_self) ⊆ list_to_set (wit_order Witnesses.w_sd_to_self)).
    { apply (bool_decide_unpack _). vm_compute. exact I. }
    apply Hs in Ha. by apply elem_of_list_to_set in Ha. }
  split; [apply (bool_decide_unpack _); vm_compute; exact I|].
  split; [apply (bool_decide_unpack _); vm_compute; exact I|].
  split; [reflexivity|]. split; [vm_compute; reflexivity|]. vm_compute. reflexivity.
Qed.

(** the same for a program with contract creations: a creation inside a reverted frame, a creation at an address that
    holds coins already, a constructor that self-destructs (witness taken from the implementation) *)
Example never_mints_premises_hold_with_creations :
  let x := Witnesses.w_cr_nested_reverted_then_selfdestruct in
  let W0 := wit_world x in let order := wit_order x in
  match e_top (fst (fst x)) with
  | TopCall t body =>
      NoDup order /\ world_ok W0 /\ bank_nn W0 /\ (forall a, a ∈ wexists W0 -> a ∈ order) /\ 0%N ∈ order /\ t ∈ order /\
      0 <= e_value (fst (fst x)) /\ forallb pure body = true /\ forallb (okv order) body = true /\
      existsb (fun i => match i with ICreate _ _ _ _ _ _ => true | _ => false end) body = true /\
      supply (fst (run_tx order W0 (e_value (fst (fst x))) (TopCall t body))) = supply W0
  | TopPre _ => False
  end.
Proof.
  cbn zeta. cbv beta iota delta [Witnesses.w_cr_nested_reverted_then_selfdestruct e_top fst snd].
  split; [apply (bool_decide_unpack _); vm_compute; exact I|].
  split; [apply world_ok_check; apply (bool_decide_unpack _); vm_compute; exact I|].
  split; [apply bank_nn_check; apply (bool_decide_unpack _); vm_compute; exact I|].
  split.
  { intros a Ha.
    match goal with H : a ∈ wexists (wit_world ?x) |- a ∈ wit_order ?y =>
      assert (Hs : wexists (wit_world x) ⊆ list_to_set (wit_order y)) by (apply (bool_decide_unpack _); vm_compute; exact I)
    end.
    apply Hs in Ha. by apply elem_of_list_to_set in Ha. }
  split; [apply (bool_decide_unpack _); vm_compute; exact I|].
  split; [apply (bool_decide_unpack _); vm_compute; exact I|].
  split; [vm_compute; discriminate|].
  split; [vm_compute; reflexivity|]. split; [vm_compute; reflexivity|]. split; [vm_compute; reflexivity|]. vm_compute. reflexivity.
Qed.
