(** Property C01: one case of the driver "replicas" as the model sees it -- the BLOCKHASH
    answers of the history (DeterminismModel.v, section 5; absent when the history changes
    HistoricalEntries on the way or evaluated no BLOCKHASH) and the base-fee update of every
    block of the leading replica (FeeReplicaModel.v). *)
From Coq Require Import ZArith List Bool.
From HV Require Import Feemarket.BaseFeeModel App.FeeReplicaModel App.DeterminismModel.
Import ListNotations.

Definition rep_case := (option bh_case * list fee_obs)%type.

Definition check_rep (c : rep_case) : bool :=
  (match fst c with Some b => check_bh b | None => true end) && forallb check_fee (snd c).

Fixpoint rep_mismatches_from (i : nat) (cs : list rep_case) : list nat :=
  match cs with
  | [] => []
  | c :: r => if check_rep c then rep_mismatches_from (S i) r else i :: rep_mismatches_from (S i) r
  end.
Definition rep_mismatches cs := rep_mismatches_from 0 cs.
