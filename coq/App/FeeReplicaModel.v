(** Property C01, section 6: the base fee -- consensus state that EVERY block rewrites in
    BeginBlock -- depends on the block inputs only.

    x/feemarket keeps two things in the store: its parameters (the base fee is one of them) and
    the gas figure of the previous block.  BeginBlock computes the new base fee from them and
    from the consensus parameter Block.MaxGas (CalculateBaseFee), EndBlock stores the gas
    figure of the block.  The computation itself is the model of property C17
    (Feemarket/BaseFeeModel.v: [calc_base_fee], [begin_block], [end_block]); what is added here is
    the node around it: blocks interleaved with everything that is NOT a block input
    (queries, CheckTx, restarts, further application objects in the process), and a variant in
    which the "1" of the minimum step is a value shared by the whole operating-system process
    and updated in place (go-ethereum's package-level common.Big1 handed out by math.BigMax):
    there the same blocks give different base fees depending on the life of the process.

    Definitions only; proofs are in FeeReplicaProofs.v. *)
From Coq Require Import ZArith List Bool.
From HV Require Import Base.Dec Feemarket.BaseFeeModel.
Import ListNotations.
Local Open Scope Z_scope.

(** what of a node the computation reads: the module's store and the height *)
Record fnode := mkfn { fn_state : fstate; fn_height : Z }.

(** a block, as far as the fee market goes: the Block.MaxGas in force, a parameter update a
    transaction of the block executes (governance: the whole parameter set is replaced), the
    declared and the consumed gas of its transactions; or something that is not a block input *)
Inductive fevent :=
  | FBlock (max_gas : option Z) (upd : option params) (wanted used : Z)
  | FQuery
  | FCheckTx
  | FRestart
  | FConstruct.

Definition fblock_step (n : fnode) (mg : option Z) (upd : option params) (wanted used : Z) : option fnode :=
  let h := fn_height n + 1 in
  match begin_block (fn_state n) h mg with
  | None => None
  | Some s1 =>
      let s2 := match upd with Some p => mkfs p (fs_bgw s1) | None => s1 end in
      match end_block s2 wanted used with
      | None => None
      | Some s3 => Some (mkfn s3 h)
      end
  end.

(** [None] = the chain halted (a division by zero in BeginBlock: outside the generated domain).
    As the code has it: queries and CheckTx run on branches of the committed store that are
    dropped, a restart reloads the store from the database, a further application object has
    its own store. *)
Definition fstep (on : option fnode) (e : fevent) : option fnode :=
  match on, e with
  | Some n, FBlock mg upd w u => fblock_step n mg upd w u
  | _, _ => on
  end.

Definition frun (evs : list fevent) (on : option fnode) : option fnode := fold_left fstep evs on.

(** the states right after every block *)
Fixpoint ftrace (evs : list fevent) (on : option fnode) : list (option fnode) :=
  match evs with
  | [] => []
  | e :: rest => let on' := fstep on e in
                 match e with FBlock _ _ _ _ => on' :: ftrace rest on' | _ => ftrace rest on' end
  end.

Definition is_fblock (e : fevent) : bool := match e with FBlock _ _ _ _ => true | _ => false end.
Definition fblocks_of (evs : list fevent) : list fevent := List.filter is_fblock evs.

Definition base_fee_of (on : option fnode) : option Z :=
  match on with Some n => p_base_fee (fs_params (fn_state n)) | None => None end.

(** ---- the variant with a process-global "one" (NOT what the code does) ----
    math.BigMax(delta, common.Big1) returns its second ARGUMENT when delta is smaller; an
    in-place  result.Add(parentBaseFee, result)  then overwrites the package-level variable.
    [one] is that variable: 1 in a fresh process. *)
Definition next_base_fee_shared (one base g T d m : Z) : Z * Z :=
  if g =? T then (base, one)
  else if T <? g then
    let delta := base * (g - T) / T / d in
    if delta <? one then (base + one, base + one) else (base + delta, one)
  else (Z.max (base - base * (T - g) / T / d) m, one).

Definition calc_base_fee_shared (one : Z) (p : params) (height : Z) (max_gas : option Z) (g : Z) : res * Z :=
  if p_no_base_fee p || (height <? p_enable_height p) then (RNil, one) else
  if height =? p_enable_height p then
    (match p_base_fee p with Some b => RVal b | None => RNil end, one)
  else
  match p_base_fee p with
  | None => (RNil, one)
  | Some base =>
      if p_elasticity p =? 0 then (RPanic, one) else
      let T := gas_limit max_gas / p_elasticity p in
      if negb (is_uint64 T) then (RNil, one) else
      if g =? T then (RVal base, one) else
      if (T =? 0) || (p_denom p =? 0) then (RPanic, one) else
      let '(v, one') := next_base_fee_shared one base g T (p_denom p) (truncate (p_min_gas_price p)) in
      (RVal v, one')
  end.

(** a node inside a process: the store, the height, and the process's "one" *)
Record snode := mksn { sn_state : fstate; sn_height : Z; sn_one : Z }.

Definition sblock_step (n : snode) (mg : option Z) (upd : option params) (wanted used : Z) : option snode :=
  let h := sn_height n + 1 in
  let '(r, one') := calc_base_fee_shared (sn_one n) (fs_params (sn_state n)) h mg (fs_bgw (sn_state n)) in
  let os1 := match r with
             | RNil => Some (sn_state n)
             | RVal v => Some (mkfs (set_base (fs_params (sn_state n)) v) (fs_bgw (sn_state n)))
             | RPanic => None
             end in
  match os1 with
  | None => None
  | Some s1 =>
      let s2 := match upd with Some p => mkfs p (fs_bgw s1) | None => s1 end in
      match end_block s2 wanted used with
      | None => None
      | Some s3 => Some (mksn s3 h one')
      end
  end.

(** a restart is a new operating-system process: its "one" is 1 again *)
Definition sstep (on : option snode) (e : fevent) : option snode :=
  match on, e with
  | Some n, FBlock mg upd w u => sblock_step n mg upd w u
  | Some n, FRestart => Some (mksn (sn_state n) (sn_height n) 1)
  | _, _ => on
  end.
Definition srun (evs : list fevent) (on : option snode) : option snode := fold_left sstep evs on.

Definition sbase_fee_of (on : option snode) : option Z :=
  match on with Some n => p_base_fee (fs_params (sn_state n)) | None => None end.

(** ---- correspondence with the harness (driver "replicas") ----
    one BeginBlock of the leading replica: the parameters it read (the base fee in them is the
    parent's), the height, Block.MaxGas, the stored gas figure of the parent block, and the base
    fee parameter found in the store after BeginBlock *)
Definition fee_obs := (params * Z * option Z * Z * option Z)%type.

Definition fee_after (p : params) (h : Z) (mg : option Z) (g : Z) : option (option Z) :=
  match calc_base_fee p h mg g with
  | RNil => Some (p_base_fee p)
  | RVal v => Some (Some v)
  | RPanic => None
  end.

Definition check_fee (o : fee_obs) : bool :=
  let '(p, h, mg, g, a) := o in
  match fee_after p h mg g with Some x => oz_eqb x a | None => false end.
