(** Proofs for property C01 (determinism). *)
From Coq Require Import ZArith List Lia.
From stdpp Require Import gmap sorting.
From HV Require Import Evm.ExecModel App.DeterminismModel.
Local Open Scope Z_scope.

(** * sorting canonicalises an enumeration *)
Lemma sort_perm_N l1 l2 : l1 ≡ₚ l2 -> merge_sort N.le l1 = merge_sort N.le l2.
Proof.
  intros Hp. apply (Sorted_unique N.le); try apply Sorted_merge_sort; try apply _.
  by rewrite !merge_sort_Permutation.
Qed.

Lemma sort_perm_Z l1 l2 : l1 ≡ₚ l2 -> merge_sort Z.le l1 = merge_sort Z.le l2.
Proof.
  intros Hp. apply (Sorted_unique Z.le); try apply Sorted_merge_sort; try apply _.
  by rewrite !merge_sort_Permutation.
Qed.

(** * 1. StateDB commit *)
Theorem commit_order_independent iter1 iter2 W D :
  iter1 ≡ₚ iter2 -> commit_sorted iter1 W D = commit_sorted iter2 W D.
Proof. intros Hp. unfold commit_sorted, sorted_dirties. by rewrite (sort_perm_N _ _ Hp). Qed.

(** in particular every enumeration of the dirty set commits like the canonical one *)
Corollary commit_order_canonical iter W D :
  iter ≡ₚ elements (dom (dirties D)) ->
  commit_sorted iter W D = commit_sorted (elements (dom (dirties D))) W D.
Proof. apply commit_order_independent. Qed.

Theorem storage_commit_order_independent iter1 iter2 W a o :
  iter1 ≡ₚ iter2 -> commit_storage_sorted iter1 W a o = commit_storage_sorted iter2 W a o.
Proof. intros Hp. unfold commit_storage_sorted, sorted_keys. by rewrite (sort_perm_Z _ _ Hp). Qed.

(** the sorted enumeration really is sorted and has the same elements: the loop visits every dirty account once, in address order *)
Lemma sorted_dirties_spec iter : Sorted N.le (sorted_dirties iter) /\ sorted_dirties iter ≡ₚ iter.
Proof. split; [apply Sorted_merge_sort; apply _ | apply merge_sort_Permutation]. Qed.

(** without the sort the enumeration order is observable: a blocked address that aborts the loop
    midway leaves the accounts visited before it written and the others not *)
Theorem unsorted_commit_order_matters_refuted_in_model :
  exists (W : world) (D : sdb) (iter1 iter2 : list N),
    iter1 ≡ₚ iter2 /\
    zg (bank (fst (fst (commit_unsorted iter1 W D)))) 1%N <> zg (bank (fst (fst (commit_unsorted iter2 W D)))) 1%N /\
    commit_sorted iter1 W D = commit_sorted iter2 W D.
Proof.
  exists w_refute, d_refute, [1%N; 5%N], [5%N; 1%N]. split; [apply perm_swap|]. split.
  - vm_compute. discriminate.
  - apply commit_order_independent, perm_swap.
Qed.

(** * 2. registries *)
Theorem registry_map_order_independent {V} (e1 e2 : list (N * V)) :
  NoDup e1.*1 -> e1 ≡ₚ e2 -> forall k, build_map e1 !! k = build_map e2 !! k.
Proof. intros Hn Hp k. unfold build_map. by rewrite (list_to_map_proper e1 e2 Hn Hp). Qed.

Theorem registry_set_order_independent (e1 e2 : list N) :
  e1 ≡ₚ e2 -> forall k, k ∈ build_set e1 <-> k ∈ build_set e2.
Proof. intros Hp k. unfold build_set. by rewrite (list_to_set_perm_L e1 e2 Hp). Qed.

Theorem module_account_addrs_order_independent addr_of iter1 iter2 :
  iter1 ≡ₚ iter2 -> module_account_addrs addr_of iter1 = module_account_addrs addr_of iter2.
Proof. intros Hp. unfold module_account_addrs. by rewrite (sort_perm_N _ _ Hp). Qed.

Theorem blocked_addrs_order_independent addr_of iter1 iter2 pre1 pre2 :
  iter1 ≡ₚ iter2 -> pre1 ≡ₚ pre2 -> blocked_addrs addr_of iter1 pre1 = blocked_addrs addr_of iter2 pre2.
Proof.
  intros Hp Hq. unfold blocked_addrs, build_set.
  rewrite (module_account_addrs_order_independent _ _ _ Hp). by rewrite (list_to_set_perm_L pre1 pre2 Hq).
Qed.

(** the blocked set is exactly: address of a module name, or a precompile *)
Lemma blocked_addrs_spec addr_of iter pre x :
  x ∈ blocked_addrs addr_of iter pre <-> (exists n, n ∈ iter /\ x = addr_of n) \/ x ∈ pre.
Proof.
  unfold blocked_addrs, module_account_addrs, build_set. rewrite elem_of_union, !elem_of_list_to_set, elem_of_list_fmap.
  split; intros [H'|H']; try (by right).
  - left. destruct H' as (n & -> & Hin). exists n. split; [|done]. by rewrite merge_sort_Permutation in Hin.
  - left. destruct H' as (n & Hin & ->). exists n. split; [done|]. by rewrite merge_sort_Permutation.
Qed.

Theorem blocked_addrs_order_independent_full addr_of iter1 iter2 pre1 pre2 :
  iter1 ≡ₚ iter2 -> pre1 ≡ₚ pre2 ->
  blocked_addrs addr_of iter1 pre1 = blocked_addrs addr_of iter2 pre2 /\
  forall x, x ∈ blocked_addrs addr_of iter1 pre1 <-> (exists n, n ∈ iter1 /\ x = addr_of n) \/ x ∈ pre1.
Proof.
  intros Hp Hq. exact (conj (blocked_addrs_order_independent addr_of _ _ _ _ Hp Hq) (blocked_addrs_spec addr_of iter1 pre1)).
Qed.

Theorem available_precompile_addrs_order_independent iter1 iter2 :
  iter1 ≡ₚ iter2 -> available_precompile_addrs iter1 = available_precompile_addrs iter2.
Proof. apply sort_perm_N. Qed.

(** * 3. DAO export *)
Lemma alookup_perm idx idx' a : NoDup idx.*1 -> idx ≡ₚ idx' -> alookup idx a = alookup idx' a.
Proof. intros Hn Hp. unfold alookup. by rewrite (list_to_map_proper idx idx' Hn Hp). Qed.

Lemma alookup_cons_None idx a a' i : alookup idx a = None -> alookup ((a, i) :: idx) a' = if decide (a = a') then Some i else alookup idx a'.
Proof.
  intros _. unfold alookup. cbn. destruct (decide (a = a')) as [->|].
  - by rewrite lookup_insert.
  - by rewrite lookup_insert_ne.
Qed.

(** Two index layouts are equivalent when they answer every look-up alike. *)
Section ExportProofs.
  Variable scramble : list (N * nat) -> list (N * nat).
  Hypothesis scramble_perm : forall l, scramble l ≡ₚ l.

  Lemma export_with_equiv entries : forall idx1 idx2 out,
    NoDup idx1.*1 -> NoDup idx2.*1 -> (forall a, alookup idx1 a = alookup idx2 a) ->
    export_with scramble entries idx1 out = export_with (fun l => l) entries idx2 out.
  Proof.
    induction entries as [|[[a d] v] r IH]; intros idx1 idx2 out N1 N2 E; cbn [export_with]; [done|].
    rewrite <- (E a). destruct (alookup idx1 a) as [i|] eqn:L1.
    - apply IH; done.
    - assert (L2 : alookup idx2 a = None) by (by rewrite <- E).
      assert (Hn1 : a ∉ idx1.*1).
      { unfold alookup in L1. apply not_elem_of_list_to_map_2 in L1. done. }
      assert (Hn2 : a ∉ idx2.*1).
      { unfold alookup in L2. apply not_elem_of_list_to_map_2 in L2. done. }
      assert (N1' : NoDup ((a, length out) :: idx1).*1) by (cbn; by apply NoDup_cons).
      apply IH.
      + by rewrite (scramble_perm _).
      + cbn. by apply NoDup_cons.
      + intros a'. rewrite <- (alookup_perm _ _ a' N1' (symmetry (scramble_perm _))).
        rewrite (alookup_cons_None _ _ _ _ L1), (alookup_cons_None _ _ _ _ L2). by rewrite E.
  Qed.

  (** whatever the hash table does with its layout, the export is the same list *)
  Theorem holders_export_order_independent entries :
    export_with scramble entries [] [] = export_balances entries.
  Proof. apply export_with_equiv; cbn; try apply NoDup_nil_2. done. Qed.
End ExportProofs.

(** the export lists each address once, in order of first appearance in the store iteration *)
Example export_example :
  export_balances [(3%N, 0%N, 5); (3%N, 2%N, 7); (1%N, 0%N, 4); (3%N, 9%N, 1)] =
  [(3%N, [(0%N, 5); (2%N, 7); (9%N, 1)]); (1%N, [(0%N, 4)])].
Proof. vm_compute. reflexivity. Qed.

(** * 4. the block is a function of (state, block) *)
Lemma eth_mempool_fee_deliver sim london nl1 nl2 msgs :
  eth_mempool_fee Deliver sim london nl1 msgs = eth_mempool_fee Deliver sim london nl2 msgs.
Proof. reflexivity. Qed.

Lemma cosmos_min_gas_fee_deliver nl1 nl2 fee gas :
  cosmos_min_gas_fee Deliver nl1 fee gas = cosmos_min_gas_fee Deliver nl2 fee gas.
Proof. reflexivity. Qed.

Lemma eth_gas_wanted_deliver nl1 nl2 gl : eth_gas_wanted Deliver nl1 gl = eth_gas_wanted Deliver nl2 gl.
Proof. reflexivity. Qed.

Section BlockProofs.
  Context {St P R H RB RE : Type}.
  Variable london : St -> bool.
  Variable exec : St -> txm P -> Z -> St * R.
  Variable rejected : R.
  Variable failed : R -> bool.
  Variable begin_block : St -> H -> St * RB.
  Variable end_block : St -> H -> St * RE.

  Lemma ante_deliver nl1 nl2 sim s (t : txm P) : ante london Deliver nl1 sim s t = ante london Deliver nl2 sim s t.
  Proof. reflexivity. Qed.

  Lemma run_tx_deliver nl1 nl2 s (t : txm P) :
    run_tx london exec rejected Deliver nl1 s t = run_tx london exec rejected Deliver nl2 s t.
  Proof. reflexivity. Qed.

  Lemma app_deliver_tx_indep nl1 nl2 s t :
    let '(_, s1, r1) := app_deliver_tx london exec rejected failed nl1 s t in
    let '(_, s2, r2) := app_deliver_tx london exec rejected failed nl2 s t in s1 = s2 /\ r1 = r2.
  Proof.
    unfold app_deliver_tx. rewrite (run_tx_deliver nl1 nl2).
    destruct (run_tx london exec rejected Deliver nl2 s t) as [s' r]. done.
  Qed.

  Lemma deliver_all_indep txs : forall nl1 nl2 s,
    snd (fst (deliver_all london exec rejected failed nl1 s txs)) = snd (fst (deliver_all london exec rejected failed nl2 s txs)) /\
    snd (deliver_all london exec rejected failed nl1 s txs) = snd (deliver_all london exec rejected failed nl2 s txs).
  Proof.
    induction txs as [|t r IH]; intros nl1 nl2 s; cbn [deliver_all]; [done|].
    pose proof (app_deliver_tx_indep nl1 nl2 s t) as E.
    destruct (app_deliver_tx london exec rejected failed nl1 s t) as [[n1 s1] r1].
    destruct (app_deliver_tx london exec rejected failed nl2 s t) as [[n2 s2] r2].
    destruct E as [-> ->]. specialize (IH n1 n2 s2).
    destruct (deliver_all london exec rejected failed n1 s2 r) as [[m1 t1] x1].
    destruct (deliver_all london exec rejected failed n2 s2 r) as [[m2 t2] x2].
    cbn in *. destruct IH as [-> ->]. done.
  Qed.

  (** state after the block and all responses do not depend on the node-local part *)
  Theorem block_is_function nl1 nl2 s b :
    snd (fst (run_block london exec rejected failed begin_block end_block nl1 s b)) =
    snd (fst (run_block london exec rejected failed begin_block end_block nl2 s b)) /\
    snd (run_block london exec rejected failed begin_block end_block nl1 s b) =
    snd (run_block london exec rejected failed begin_block end_block nl2 s b).
  Proof.
    unfold run_block. destruct (begin_block s (fst b)) as [s1 rb].
    pose proof (deliver_all_indep (snd b) nl1 nl2 s1) as E.
    destruct (deliver_all london exec rejected failed nl1 s1 (snd b)) as [[m1 t1] x1].
    destruct (deliver_all london exec rejected failed nl2 s1 (snd b)) as [[m2 t2] x2].
    cbn in E. destruct E as [-> ->]. destruct (end_block t2 (fst b)) as [s3 re]. done.
  Qed.

  (** ... hence two replicas started from the same state and fed the same blocks agree after every block *)
  Theorem replicas_agree bs : forall nl1 nl2 s,
    snd (fst (run_chain london exec rejected failed begin_block end_block nl1 s bs)) =
    snd (fst (run_chain london exec rejected failed begin_block end_block nl2 s bs)) /\
    snd (run_chain london exec rejected failed begin_block end_block nl1 s bs) =
    snd (run_chain london exec rejected failed begin_block end_block nl2 s bs).
  Proof.
    induction bs as [|b r IH]; intros nl1 nl2 s; cbn [run_chain]; [done|].
    pose proof (block_is_function nl1 nl2 s b) as E.
    destruct (run_block london exec rejected failed begin_block end_block nl1 s b) as [[n1 s1] x1].
    destruct (run_block london exec rejected failed begin_block end_block nl2 s b) as [[n2 s2] x2].
    cbn in E. destruct E as [-> ->]. specialize (IH n1 n2 s2).
    destruct (run_chain london exec rejected failed begin_block end_block n1 s2 r) as [[m1 t1] y1].
    destruct (run_chain london exec rejected failed begin_block end_block n2 s2 r) as [[m2 t2] y2].
    cbn in *. destruct IH as [-> ->]. done.
  Qed.
End BlockProofs.

(** the node-local argument is not a dummy: in CheckTx mode it decides *)
Example check_mode_depends_on_node_local :
  let strict := mknl 10 0 0 0 0 in let lax := mknl 0 0 0 0 0 in
  eth_mempool_fee Check false false strict [(5, 1)] = false /\ eth_mempool_fee Check false false lax [(5, 1)] = true /\
  cosmos_min_gas_fee Check strict 5 1 = None /\ cosmos_min_gas_fee Check lax 5 1 = Some (5, 5) /\
  eth_gas_wanted Check (mknl 0 100 0 0 0) [1000; 50] = 150 /\ eth_gas_wanted Deliver (mknl 0 100 0 0 0) [1000; 50] = 1050.
Proof. vm_compute. repeat split. Qed.

(** site classes understood by the scanner all name an argument above *)
Lemma site_mismatches_spec cs : site_mismatches cs = [] <-> Forall (fun c => c <> 0%N) cs.
Proof.
  unfold site_mismatches. generalize 0%nat. induction cs as [|c r IH]; intros i; cbn.
  - split; [constructor|done].
  - destruct (N.eqb_spec c 0) as [->|Hc].
    + split; [discriminate|]. intros H'. inversion H'; subst. done.
    + rewrite IH. split; [intros; by constructor | by inversion 1].
Qed.
