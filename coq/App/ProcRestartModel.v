(** Property C20 — "behaviour never depends on in-memory state that is not rebuilt
    from the database on start" — with the state of the operating-system PROCESS made
    explicit.

    A node is (db, mem, proc): the database, the memory of the application object
    (keepers, caches: RestartModel.v) and the package-level state of the process that
    hosts it (go-ethereum's [common.Big1], sync.Once latches, registries filled by init
    functions, ...).  Three things can happen at a block boundary:

      Keep        the node keeps running;
      Reopen      a new application object is constructed on the same database INSIDE the
                  same process: mem := rebuild db, proc is kept (what a test harness does
                  when it calls app.NewHaqq again; not what an operator can do);
      NewProcess  the process exits and a new one is started on the database:
                  mem := rebuild db, proc := fresh.

    The obligation on the code: the block step and the queries read the memory only up
    to a relation R that every step re-establishes with [rebuild db], and do not read
    the process state at all.  Then the continuation of a node is a function of
    (database, blocks) only ([ProcRestartProofs.continuation_is_function_of_db_and_blocks]).

    The fee-market node of FeeReplicaModel.v is the instance: the store (parameters with
    the base fee, gas figure of the parent block) and the height are the database; the
    process state is the "one" of the minimum step.  [fee_step] is the step as
    implemented (x/feemarket CalculateBaseFee builds its result in a scratch big.Int:
    the process state is not read); [fee_step_shared] is the variant in which
    math.BigMax hands out the package-level common.Big1 and the result is accumulated
    into it: there a Reopen is invisible and a NewProcess is not.

    Definitions only; proofs are in ProcRestartProofs.v. *)
From Coq Require Import ZArith List Bool.
From HV Require Import Base.Dec Feemarket.BaseFeeModel App.FeeReplicaModel.
Import ListNotations.
Local Open Scope Z_scope.

Inductive stop := Keep | Reopen | NewProcess.

Section Proc.
  Variables DB Mem P Block Result Q A : Type.
  Variable rebuild : DB -> Mem.
  Variable fresh : P.                (* the package-level state of a process that has just started *)
  Variable step : DB * Mem * P -> Block -> (DB * Mem * P) * Result.
  Variable query : DB * Mem * P -> Q -> A.

  Definition pnode := (DB * Mem * P)%type.
  Definition pdb (n : pnode) : DB := fst (fst n).
  Definition pmem (n : pnode) : Mem := snd (fst n).
  Definition pproc (n : pnode) : P := snd n.

  Definition apply_stop (k : stop) (n : pnode) : pnode :=
    match k with
    | Keep => n
    | Reopen => (pdb n, rebuild (pdb n), pproc n)
    | NewProcess => (pdb n, rebuild (pdb n), fresh)
    end.

  (** one observation per block: the result, the database after the block (height, app hash, the
      start-up report and every answer computed from stored state are functions of it) and the
      answers to a list of queries *)
  Definition pobs := (Result * DB * list A)%type.

  Fixpoint prun (qs : list Q) (n : pnode) (bs : list (stop * Block)) : pnode * list pobs :=
    match bs with
    | [] => (n, [])
    | (k, b) :: bs' =>
        let '(n1, res) := step (apply_stop k n) b in
        let '(nf, os) := prun qs n1 bs' in
        (nf, (res, pdb n1, map (query n1) qs) :: os)
    end.

  Definition pnever (bs : list Block) : list (stop * Block) := map (fun b => (Keep, b)) bs.
  Definition pschedule (ks : list stop) (bs : list Block) : list (stop * Block) :=
    combine (ks ++ repeat Keep (length bs - length ks)) bs.

  (** the obligations, as definitions *)
  Definition step_reads_mem_through_not_proc (R : Mem -> Mem -> Prop) : Prop :=
    forall db m1 m2 p1 p2 b, R m1 m2 ->
      pdb (fst (step (db, m1, p1) b)) = pdb (fst (step (db, m2, p2) b)) /\
      snd (step (db, m1, p1) b) = snd (step (db, m2, p2) b) /\
      R (pmem (fst (step (db, m1, p1) b))) (pmem (fst (step (db, m2, p2) b))).
  Definition query_reads_mem_through_not_proc (R : Mem -> Mem -> Prop) : Prop :=
    forall db m1 m2 p1 p2 q, R m1 m2 -> query (db, m1, p1) q = query (db, m2, p2) q.
  Definition step_keeps_mem_rebuildable (R : Mem -> Mem -> Prop) : Prop :=
    forall db m p b, R m (rebuild db) ->
      R (pmem (fst (step (db, m, p) b))) (rebuild (pdb (fst (step (db, m, p) b)))).
End Proc.

(** * The fee-market node inside a process *)
(** a block as far as the fee market goes: Block.MaxGas in force, a parameter update executed
    by a transaction of the block, declared and consumed gas *)
Definition fblk := (option Z * option params * Z * Z)%type.
Definition fdb := (fstate * Z)%type.                 (* the module's store, the height *)

(** result of a block: the base fee parameter after it ([None] also when the chain halted) *)
Definition fee_step_with (blockstep : snode -> option Z -> option params -> Z -> Z -> option snode)
    (n : fdb * unit * Z) (b : fblk) : (fdb * unit * Z) * option Z :=
  let '(mg, upd, w, u) := b in
  match blockstep (mksn (fst (fst (fst n))) (snd (fst (fst n))) (snd n)) mg upd w u with
  | Some n' => ((sn_state n', sn_height n', tt, sn_one n'), p_base_fee (fs_params (sn_state n')))
  | None => (n, None)
  end.

(** as implemented: [fblock_step] (the model of property C17 around it); the process state is carried along untouched *)
Definition impl_blockstep (n : snode) (mg : option Z) (upd : option params) (w u : Z) : option snode :=
  match fblock_step (mkfn (sn_state n) (sn_height n)) mg upd w u with
  | Some n' => Some (mksn (fn_state n') (fn_height n') (sn_one n))
  | None => None
  end.
Definition fee_step := fee_step_with impl_blockstep.
(** the variant with the process-global "one" *)
Definition fee_step_shared := fee_step_with sblock_step.

Definition fee_rebuild (_ : fdb) : unit := tt.
Definition fee_query (n : fdb * unit * Z) (_ : unit) : option Z := p_base_fee (fs_params (fst (fst (fst n)))).
Definition fee_run := prun fdb unit Z fblk (option Z) unit (option Z) fee_rebuild 1 fee_step fee_query [tt].
Definition fee_run_shared := prun fdb unit Z fblk (option Z) unit (option Z) fee_rebuild 1 fee_step_shared fee_query [tt].
Definition results {DBt At : Type} (os : list (option Z * DBt * list At)) : list (option Z) := map (fun o => fst (fst o)) os.

(** the example of FeeReplicaProofs.v: base fee 7, denominator 8, elasticity 2, Block.MaxGas
    8,000,000 (target 4,000,000), multiplier 1; every block declares 6,000,000 gas *)
Definition px_params : params := mkparams false 8 2 (Some 7) 0 0 1000000000000000000.
Definition px_node : fdb * unit * Z := ((mkfs px_params 0, 0), tt, 1).
Definition px_b : fblk := (Some 8000000, None, 6000000, 1000000).

(** * Correspondence with the harness (driver "restart")
    One case = one block history; per application instance of every lineage (continuous node,
    nodes re-opened inside the harness process on various schedules, nodes opened on a copy of
    the database, nodes restarted as NEW operating-system processes on a dump of the database):
    whether the instance ran in a process of its own, and every BeginBlock it executed as a
    [fee_obs] (parameters read, height, Block.MaxGas, stored gas figure of the parent block,
    base fee found in the store afterwards).  The model: the value stored is the one
    [calc_base_fee] gives - for every instance, whatever the life of its process. *)
Definition fee_case := list (bool * list fee_obs).
Definition fee_case_ok (c : fee_case) : bool := forallb (fun seg : bool * list fee_obs => forallb check_fee (snd seg)) c.

Fixpoint fee_mismatches_from (i : nat) (cs : list fee_case) : list nat :=
  match cs with
  | [] => []
  | c :: r => if fee_case_ok c then fee_mismatches_from (S i) r else i :: fee_mismatches_from (S i) r
  end.
Definition fee_mismatches (cs : list fee_case) : list nat := fee_mismatches_from 0 cs.
