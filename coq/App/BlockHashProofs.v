(** Proofs for property C01, section 5 of DeterminismModel.v: the BLOCKHASH environment
    function depends on the block inputs only. *)
From Coq Require Import ZArith List Lia.
From stdpp Require Import gmap.
From HV Require Import App.DeterminismModel.
Import ListNotations.
Local Open Scope Z_scope.

(** * perturbations do not touch what the function reads *)
Lemma pstep_nonblock r e : is_block e = false -> pstep r e = r.
Proof. by destruct e. Qed.

Lemma prun_blocks_of evs r : prun evs r = prun (blocks_of evs) r.
Proof.
  revert r. induction evs as [|e rest IH]; intros r; [done|].
  unfold prun, blocks_of in *. cbn [fold_left List.filter].
  destruct (is_block e) eqn:E.
  - cbn [fold_left]. apply IH.
  - rewrite (pstep_nonblock r e E). apply IH.
Qed.

Lemma ptrace_blocks_of evs r : ptrace evs r = ptrace (blocks_of evs) r.
Proof.
  revert r. induction evs as [|e rest IH]; intros r; [done|].
  unfold blocks_of in *. cbn [ptrace List.filter].
  destruct e; cbn [is_block pstep]; try apply IH.
  cbn [ptrace pstep]. f_equal. apply IH.
Qed.

Lemma ptrace_length evs r : length (ptrace evs r) = length (blocks_of evs).
Proof.
  revert r. induction evs as [|e rest IH]; intros r; [done|].
  unfold blocks_of in *. cbn [ptrace List.filter].
  destruct e; cbn [is_block pstep length]; try apply IH.
  f_equal. apply IH.
Qed.

Theorem blockhash_replicas_agree evs1 evs2 r :
  blocks_of evs1 = blocks_of evs2 ->
  length (ptrace evs1 r) = length (blocks_of evs1) /\
  ptrace evs1 r = ptrace evs2 r /\
  prun evs1 r = prun evs2 r /\
  Forall2 (fun a b => r_hist a = r_hist b /\ r_height a = r_height b /\
                      forall cur_hash req, hash_fn (r_hist a) (r_height a) cur_hash req = hash_fn (r_hist b) (r_height b) cur_hash req)
          (ptrace evs1 r) (ptrace evs2 r).
Proof.
  intros E. split; [apply ptrace_length|].
  rewrite (ptrace_blocks_of evs1), (ptrace_blocks_of evs2), (prun_blocks_of evs1), (prun_blocks_of evs2), E.
  split; [done|]. split; [done|].
  induction (ptrace (blocks_of evs2) r); constructor; auto.
Qed.

(** * which headers exist after n blocks *)
Lemma prune_loop_None fuel i h : h !! i = None -> prune_loop fuel i h = h.
Proof. destruct fuel; cbn [prune_loop]; [done|]. intros ->. by destruct (i <? 0). Qed.

Lemma prune_loop_neg fuel i h : i < 0 -> prune_loop fuel i h = h.
Proof. destruct fuel; cbn [prune_loop]; [done|]. intros. destruct (Z.ltb_spec i 0); [done|lia]. Qed.

Ltac zb :=
  repeat match goal with
         | |- context [?a <=? ?b] => destruct (Z.leb_spec a b)
         | |- context [?a <? ?b] => destruct (Z.ltb_spec a b)
         | |- context [?a =? ?b] => destruct (Z.eqb_spec a b)
         end; cbn [andb negb orb]; try done; try lia.

Lemma hist_after_lookup e hdr n req :
  0 <= e ->
  hist_after e hdr n !! req =
  if (Z.max 1 (Z.of_nat n - e + 1) <=? req) && (req <=? Z.of_nat n) then Some (hdr req) else None.
Proof.
  intros He. revert req. induction n as [|m IH]; intros req.
  - cbn [hist_after]. rewrite lookup_empty. zb.
  - cbn [hist_after]. set (H := hist_after e hdr m) in *. set (c := Z.of_nat (S m)).
    assert (Hc : c = Z.of_nat m + 1) by (unfold c; lia).
    unfold track_historical_info.
    assert (Hp : forall q, prune_loop (Z.to_nat (c - e + 1)) (c - e) H !! q =
                           if (Z.max 1 (c - e + 1) <=? q) && (q <=? Z.of_nat m) then Some (hdr q) else None).
    { intros q. destruct (Z.ltb_spec (c - e) 0) as [Hneg|Hnn].
      - rewrite prune_loop_neg by done. rewrite IH. zb.
      - destruct (decide (1 <= c - e /\ 1 <= e)) as [[H1 H2]|Hno].
        + replace (Z.to_nat (c - e + 1)) with (S (Z.to_nat (c - e))) by lia.
          cbn [prune_loop]. destruct (Z.ltb_spec (c - e) 0); [lia|].
          rewrite (IH (c - e)).
          destruct (Z.leb_spec (Z.max 1 (Z.of_nat m - e + 1)) (c - e)); [|lia].
          destruct (Z.leb_spec (c - e) (Z.of_nat m)); [|lia]. cbn [andb].
          rewrite prune_loop_None.
          * destruct (decide (q = c - e)) as [->|Hq].
            -- rewrite lookup_delete. zb.
            -- rewrite lookup_delete_ne by done. rewrite IH. zb.
          * rewrite lookup_delete_ne by lia. rewrite IH. zb.
        + rewrite prune_loop_None.
          * rewrite IH. zb.
          * rewrite IH. zb. }
    destruct (Z.eqb_spec e 0) as [->|Hne].
    + rewrite Hp. zb.
    + destruct (decide (req = c)) as [->|Hq].
      * rewrite lookup_insert. zb.
      * rewrite lookup_insert_ne by done. rewrite Hp. zb.
Qed.

Theorem blockhash_available_exact e hdr n cur_hash req :
  0 <= e -> Z.of_nat n <= max_int64 ->
  hash_fn (hist_after e hdr n) (Z.of_nat n) cur_hash req =
  if bh_available e (Z.of_nat n) req then hdr req else 0.
Proof.
  intros He Hn. unfold hash_fn, get_hash_fn, bh_available, max_uint64, max_int64 in *.
  rewrite hist_after_lookup by done.
  destruct (Z.ltb_spec (Z.of_nat n) 257); zb.
Qed.

Corollary blockhash_nonzero_iff e hdr n cur_hash req :
  0 <= e -> Z.of_nat n <= max_int64 -> (forall k, hdr k <> 0) ->
  hash_fn (hist_after e hdr n) (Z.of_nat n) cur_hash req <> 0 <->
  Z.max 1 (Z.of_nat n - e + 1) <= req /\ req < Z.of_nat n /\ Z.of_nat n - req <= 256.
Proof.
  intros He Hn Hh. rewrite blockhash_available_exact by done. unfold bh_available.
  specialize (Hh req). zb; split; try lia; try done.
Qed.

(** the chain of [n] blocks run through [pstep] from genesis has exactly that historical info *)
Lemma prun_block_events e hdr n :
  prun (block_events e hdr n) rep0 = mkrep (hist_after e hdr n) (Z.of_nat n).
Proof.
  induction n as [|m IH]; [done|].
  unfold block_events, prun in *. rewrite seq_S, map_app, fold_left_app, IH.
  cbn [map fold_left pstep r_hist r_height hist_after plus].
  replace (Z.of_nat m + 1) with (Z.of_nat (S m)) by lia. done.
Qed.

(** hence: any interleaving of queries / CheckTx / restarts with those blocks leaves a replica
    answering BLOCKHASH by the closed formula *)
Theorem blockhash_perturbed_replica_exact e hdr n evs cur_hash req :
  0 <= e -> Z.of_nat n <= max_int64 ->
  blocks_of evs = block_events e hdr n ->
  let r := prun evs rep0 in
  r_height r = Z.of_nat n /\
  hash_fn (r_hist r) (r_height r) cur_hash req = if bh_available e (Z.of_nat n) req then hdr req else 0.
Proof.
  intros He Hn E r. subst r. rewrite prun_blocks_of, E, prun_block_events. cbn [r_hist r_height].
  split; [done|]. by apply blockhash_available_exact.
Qed.

(** non-vacuity: HistoricalEntries = 3, block 6: block 2 is inside the 256 window but pruned -> zero;
    blocks 4 and 5 are answered; the block itself and later ones are not *)
Example blockhash_pruned_inside_window :
  let h := hist_after 3 (fun k => 100 + k) 6 in
  hash_fn h 6 7 2 = 0 /\ hash_fn h 6 7 3 = 0 /\ hash_fn h 6 7 4 = 104 /\ hash_fn h 6 7 5 = 105 /\
  hash_fn h 6 7 6 = 0 /\ hash_fn h 6 7 7 = 0 /\ get_hash_fn h 6 7 6 = 7 /\
  bh_available 3 6 2 = false /\ bh_available 10000 6 2 = true /\
  hash_fn (hist_after 10000 (fun k => 100 + k) 300) 300 7 44 = 144 /\
  hash_fn (hist_after 10000 (fun k => 100 + k) 300) 300 7 43 = 0 /\
  hash_fn (hist_after 0 (fun k => 100 + k) 6) 6 7 5 = 0 /\
  hash_fn (hist_after 1 (fun k => 100 + k) 6) 6 7 5 = 0.
Proof. vm_compute. repeat split. Qed.

(** * with a process-local memo the same perturbations decide the answer *)
Definition c0 : crep := mkcrep ∅ 0 ∅.
Example memo_breaks_agreement :
  let b k := PBlock 3 (100 + k) in
  let quiet := [b 1; b 2; b 3; b 4; b 5; b 6] in
  let queried := [b 1; b 2; b 3; PQuery 2; b 4; b 5; b 6] in
  let restarted := [b 1; b 2; b 3; PQuery 2; b 4; PRestart; b 5; b 6] in
  blocks_of queried = blocks_of quiet /\ blocks_of restarted = blocks_of quiet /\
  fst (hash_fn_memo (crun quiet c0) 7 2) = 0 /\
  fst (hash_fn_memo (crun queried c0) 7 2) = 102 /\
  fst (hash_fn_memo (crun restarted c0) 7 2) = 0 /\
  c_hist (crun queried c0) = c_hist (crun quiet c0) /\
  hash_fn (r_hist (prun queried rep0)) 6 7 2 = 0 /\ hash_fn (r_hist (prun restarted rep0)) 6 7 2 = 0.
Proof. vm_compute. repeat split. Qed.

(** the harness check is the closed formula *)
Lemma check_bh_spec e obs :
  0 <= e -> Forall (fun '(cur, req, nz) => 0 <= cur <= max_int64) obs ->
  check_bh (e, obs) = forallb (fun '(cur, req, nz) => Bool.eqb (bh_available e cur req) nz) obs.
Proof.
  intros He Hf. unfold check_bh. induction Hf as [|[[cur req] nz] l Hx Hl IH]; [done|].
  cbn [forallb]. rewrite IH. f_equal.
  replace cur with (Z.of_nat (Z.to_nat cur)) at 2 3 by lia.
  rewrite blockhash_available_exact by lia.
  replace (Z.of_nat (Z.to_nat cur)) with cur by lia.
  destruct (bh_available e cur req); done.
Qed.
