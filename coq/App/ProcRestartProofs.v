(** Proofs for App/ProcRestartModel.v (property C20 with the process state explicit). *)
From Coq Require Import ZArith List Bool Lia.
From HV Require Import Base.Dec Feemarket.BaseFeeModel App.FeeReplicaModel App.FeeReplicaProofs App.ProcRestartModel.
Import ListNotations.
Local Open Scope Z_scope.

Section Proc.
  Variables DB Mem P Block Result Q A : Type.
  Variable rebuild : DB -> Mem.
  Variable fresh : P.
  Variable step : DB * Mem * P -> Block -> (DB * Mem * P) * Result.
  Variable query : DB * Mem * P -> Q -> A.
  Variable R : Mem -> Mem -> Prop.
  Hypothesis R_sym : forall a b, R a b -> R b a.
  Hypothesis R_trans : forall a b c, R a b -> R b c -> R a c.
  Hypothesis Hstep : step_reads_mem_through_not_proc DB Mem P Block Result step R.
  Hypothesis Hquery : query_reads_mem_through_not_proc DB Mem P Q A query R.
  Hypothesis Hkeep : step_keeps_mem_rebuildable DB Mem P Block Result rebuild step R.

  Notation prun := (prun DB Mem P Block Result Q A rebuild fresh step query).
  Notation apply_stop := (apply_stop DB Mem P rebuild fresh).
  Notation pdb := (pdb DB Mem P).

  Lemma apply_stop_shape k db m p :
    R m (rebuild db) -> exists m' p', apply_stop k (db, m, p) = (db, m', p') /\ R m' (rebuild db).
  Proof.
    intros H.
    assert (Hrr : R (rebuild db) (rebuild db)) by (eapply R_trans; [apply R_sym; exact H|exact H]).
    destruct k; cbn.
    - exists m, p. auto.
    - exists (rebuild db), p. auto.
    - exists (rebuild db), fresh. auto.
  Qed.

  (** two nodes on the same database whose memories are both what a restart would rebuild (up
      to R) - whatever their process states, whatever happens to either at the boundaries -
      give the same observations on the same blocks, and end with the same database *)
  Lemma prun_related qs db m1 m2 p1 p2 bs1 bs2 :
    R m1 (rebuild db) -> R m2 (rebuild db) -> map snd bs1 = map snd bs2 ->
    snd (prun qs (db, m1, p1) bs1) = snd (prun qs (db, m2, p2) bs2) /\
    pdb (fst (prun qs (db, m1, p1) bs1)) = pdb (fst (prun qs (db, m2, p2) bs2)).
  Proof.
    revert db m1 m2 p1 p2 bs2. induction bs1 as [|[k1 b1] bs1 IH]; intros db m1 m2 p1 p2 bs2 H1 H2 Hb.
    - destruct bs2; [split; reflexivity|discriminate].
    - destruct bs2 as [|[k2 b2] bs2]; [discriminate|]. cbn in Hb. injection Hb as Hb1 Hbt. subst b2.
      cbn [ProcRestartModel.prun].
      destruct (apply_stop_shape k1 db m1 p1 H1) as (m1' & p1' & -> & G1).
      destruct (apply_stop_shape k2 db m2 p2 H2) as (m2' & p2' & -> & G2).
      assert (G : R m1' m2') by (eapply R_trans; [exact G1|apply R_sym; exact G2]).
      destruct (Hstep db m1' m2' p1' p2' b1 G) as (Edb & Eres & Emem).
      pose proof (Hkeep db m1' p1' b1 G1) as K1.
      pose proof (Hkeep db m2' p2' b1 G2) as K2.
      destruct (step (db, m1', p1') b1) as [[[db1 ma] pa] res1] eqn:S1.
      destruct (step (db, m2', p2') b1) as [[[db2 mb] pb] res2] eqn:S2.
      cbn in Edb, Eres, Emem, K1, K2. subst db2 res2.
      specialize (IH db1 ma mb pa pb bs2 K1 K2 Hbt).
      destruct (prun qs (db1, ma, pa) bs1) as [nf1 os1] eqn:Ra.
      destruct (prun qs (db1, mb, pb) bs2) as [nf2 os2] eqn:Rb.
      cbn in IH |- *. destruct IH as [IHo IHd]. split; [|exact IHd].
      f_equal; [|exact IHo]. f_equal.
      apply map_ext. intros q. apply Hquery. exact Emem.
  Qed.

  Lemma map_snd_pschedule ks (bs : list Block) : map snd (pschedule Block ks bs) = bs.
  Proof.
    unfold pschedule.
    assert (forall (l : list stop) (k : list Block), (length k <= length l)%nat -> map snd (combine l k) = k) as Hc.
    { intros l k. revert l. induction k as [|x k IHk]; intros l Hl; destruct l; cbn in *; try lia; try reflexivity.
      f_equal. apply IHk. lia. }
    apply Hc. rewrite app_length, repeat_length. lia.
  Qed.

  Lemma map_snd_pnever (bs : list Block) : map snd (pnever Block bs) = bs.
  Proof. unfold pnever. rewrite map_map. cbn. apply map_id. Qed.

  (** THE CONTINUATION IS A FUNCTION OF (DATABASE, BLOCKS) ONLY: two nodes that hold the same
      database - with any process states, any memories a restart could have rebuilt, and any
      schedules of stops (none, re-opened inside the process, restarted as a new process) - report
      the same results, databases (height, app hash) and query answers for all following blocks *)
  Theorem continuation_is_function_of_db_and_blocks :
    forall qs db m1 m2 p1 p2 (bs : list Block) (ks1 ks2 : list stop),
      R m1 (rebuild db) -> R m2 (rebuild db) ->
      snd (prun qs (db, m1, p1) (pschedule Block ks1 bs)) = snd (prun qs (db, m2, p2) (pschedule Block ks2 bs)) /\
      pdb (fst (prun qs (db, m1, p1) (pschedule Block ks1 bs))) = pdb (fst (prun qs (db, m2, p2) (pschedule Block ks2 bs))).
  Proof.
    intros qs db m1 m2 p1 p2 bs ks1 ks2 H1 H2. apply prun_related; [exact H1|exact H2|].
    rewrite !map_snd_pschedule. reflexivity.
  Qed.

  (** in particular: any schedule of stops, real process restarts included, is indistinguishable
      from never stopping *)
  Theorem process_restart_equiv :
    forall qs db m p (bs : list Block) (ks : list stop),
      R m (rebuild db) ->
      snd (prun qs (db, m, p) (pschedule Block ks bs)) = snd (prun qs (db, m, p) (pnever Block bs)) /\
      pdb (fst (prun qs (db, m, p) (pschedule Block ks bs))) = pdb (fst (prun qs (db, m, p) (pnever Block bs))).
  Proof.
    intros qs db m p bs ks H. apply prun_related; [exact H|exact H|].
    rewrite map_snd_pschedule, map_snd_pnever. reflexivity.
  Qed.

  (** the node right after a stop of either kind answers queries as before *)
  Theorem stop_query :
    forall k db m p q, R m (rebuild db) -> query (apply_stop k (db, m, p)) q = query (db, m, p) q.
  Proof.
    intros k db m p q H. destruct (apply_stop_shape k db m p H) as (m' & p' & -> & G).
    apply Hquery. eapply R_trans; [exact G|apply R_sym; exact H].
  Qed.
End Proc.

(** * The fee-market node: as implemented, the process state is not read *)
Lemma impl_blockstep_ignores_one s h o1 o2 mg upd w u :
  match impl_blockstep (mksn s h o1) mg upd w u, impl_blockstep (mksn s h o2) mg upd w u with
  | Some a, Some b => sn_state a = sn_state b /\ sn_height a = sn_height b /\ sn_one a = o1 /\ sn_one b = o2
  | None, None => True
  | _, _ => False
  end.
Proof.
  unfold impl_blockstep. cbn [sn_state sn_height sn_one].
  destruct (fblock_step (mkfn s h) mg upd w u); cbn; auto.
Qed.

Theorem fee_step_obligations :
  step_reads_mem_through_not_proc fdb unit Z fblk (option Z) fee_step (fun _ _ => True) /\
  query_reads_mem_through_not_proc fdb unit Z unit (option Z) fee_query (fun _ _ => True) /\
  step_keeps_mem_rebuildable fdb unit Z fblk (option Z) fee_rebuild fee_step (fun _ _ => True).
Proof.
  split; [|split].
  - intros [s h] m1 m2 p1 p2 [[[mg upd] w] u] _. unfold fee_step, fee_step_with. cbn [fst snd].
    pose proof (impl_blockstep_ignores_one s h p1 p2 mg upd w u) as H.
    destruct (impl_blockstep (mksn s h p1) mg upd w u) as [a|], (impl_blockstep (mksn s h p2) mg upd w u) as [b|];
      try contradiction; cbn.
    + destruct H as (Es & Eh & _ & _). unfold pdb. cbn. rewrite Es, Eh. auto.
    + unfold pdb. cbn. auto.
  - intros db m1 m2 p1 p2 q _. reflexivity.
  - intros db m p b _. exact I.
Qed.

(** all block histories, all schedules of stops - in-process re-opens and real process restarts -
    all process states: the base fee after every block, the store and the height are those of the
    node that never stopped *)
Theorem fee_process_restart_equiv :
  forall db m p1 p2 (bs : list fblk) (ks1 ks2 : list stop),
    snd (prun fdb unit Z fblk (option Z) unit (option Z) fee_rebuild 1 fee_step fee_query [tt] (db, m, p1) (pschedule fblk ks1 bs))
    = snd (prun fdb unit Z fblk (option Z) unit (option Z) fee_rebuild 1 fee_step fee_query [tt] (db, m, p2) (pschedule fblk ks2 bs)).
Proof.
  intros db m p1 p2 bs ks1 ks2.
  destruct fee_step_obligations as (Hs & Hq & Hk).
  apply (continuation_is_function_of_db_and_blocks fdb unit Z fblk (option Z) unit (option Z)
           fee_rebuild 1 fee_step fee_query (fun _ _ => True)); auto.
Qed.

(** non-vacuity: three blocks that declare 6,000,000 gas; the BeginBlock of the second and of the
    third take the minimum step; restarted as a new process (or re-opened) between them, or not
    at all: 7, 8, 9 every time, and the BaseFee query answers alike *)
Example fee_process_restart_nonvacuous :
  results (snd (fee_run px_node [(Keep, px_b); (Keep, px_b); (Keep, px_b)])) = [Some 7; Some 8; Some 9] /\
  results (snd (fee_run px_node [(Keep, px_b); (Keep, px_b); (NewProcess, px_b)])) = [Some 7; Some 8; Some 9] /\
  results (snd (fee_run px_node [(Keep, px_b); (Reopen, px_b); (NewProcess, px_b)])) = [Some 7; Some 8; Some 9] /\
  map (fun o => snd o) (snd (fee_run px_node [(Keep, px_b); (NewProcess, px_b)])) = [[Some 7]; [Some 8]].
Proof. vm_compute. repeat split. Qed.

(** * The variant with the process-global "one": refutation
    Same blocks.  The node that never stops: 7, 8, 16 (the second minimum step adds the stale
    "one" = 8).  RE-OPENED inside the process before the third block: still 7, 8, 16 - an
    in-process "restart" cannot see the defect.  Restarted as a NEW PROCESS before the third
    block: 7, 8, 9.  Same database after block 2 (base fee 8), different continuation; and one
    block later 32 against 17. *)
Example shared_one_breaks_process_restart_refuted :
  results (snd (fee_run_shared px_node [(Keep, px_b); (Keep, px_b); (Keep, px_b)])) = [Some 7; Some 8; Some 16] /\
  results (snd (fee_run_shared px_node [(Keep, px_b); (Keep, px_b); (Reopen, px_b)])) = [Some 7; Some 8; Some 16] /\
  results (snd (fee_run_shared px_node [(Keep, px_b); (Keep, px_b); (NewProcess, px_b)])) = [Some 7; Some 8; Some 9] /\
  results (snd (fee_run_shared px_node [(Keep, px_b); (Keep, px_b); (Keep, px_b); (Keep, px_b)])) = [Some 7; Some 8; Some 16; Some 32] /\
  results (snd (fee_run_shared px_node [(Keep, px_b); (Keep, px_b); (Keep, px_b); (NewProcess, px_b)])) = [Some 7; Some 8; Some 16; Some 17] /\
  pdb fdb unit Z (fst (fee_run_shared px_node [(Keep, px_b); (Keep, px_b)]))
    = pdb fdb unit Z (fst (fee_run_shared px_node [(Keep, px_b); (NewProcess, px_b)])) /\
  pdb fdb unit Z (fst (fee_run_shared px_node [(Keep, px_b); (Keep, px_b); (Keep, px_b)]))
    <> pdb fdb unit Z (fst (fee_run_shared px_node [(Keep, px_b); (Keep, px_b); (NewProcess, px_b)])).
Proof. vm_compute. repeat split; try reflexivity. discriminate. Qed.

(** the shared variant reads the process state: under NO relation on memories does it meet the obligation *)
Theorem shared_one_reads_process_state :
  forall R : unit -> unit -> Prop, R tt tt ->
    ~ step_reads_mem_through_not_proc fdb unit Z fblk (option Z) fee_step_shared R.
Proof.
  intros R Hr H.
  destruct (H (mkfs px_params 6000000, 1) tt tt 1 8 px_b Hr) as (_ & E & _).
  vm_compute in E. discriminate.
Qed.

(** * The harness check *)
Lemma fee_case_ok_spec c :
  fee_case_ok c = true <->
  Forall (fun seg : bool * list fee_obs =>
            Forall (fun o : fee_obs => let '(p, h, mg, g, a) := o in
                      exists s', begin_block (mkfs p g) h mg = Some s' /\ p_base_fee (fs_params s') = a /\ fs_bgw s' = g)
                   (snd seg)) c.
Proof.
  unfold fee_case_ok. rewrite forallb_forall, Forall_forall. split.
  - intros H seg Hin. specialize (H seg Hin). rewrite forallb_forall in H. apply Forall_forall.
    intros [[[[p h] mg] g] a] Ho. apply check_fee_spec. apply H. exact Ho.
  - intros H seg Hin. specialize (H seg Hin). rewrite Forall_forall in H. apply forallb_forall.
    intros [[[[p h] mg] g] a] Ho. apply check_fee_spec. exact (H _ Ho).
Qed.

(** what a BeginBlock of [fee_step] stores is [begin_block] of the C17 model - for every process state *)
Lemma fee_step_begin_is_c17 s h one mg w u :
  fst (fee_step ((s, h), tt, one) (mg, None, w, u)) =
  match begin_block s (h + 1) mg with
  | Some s1 => match end_block s1 w u with
               | Some s3 => ((s3, h + 1), tt, one)
               | None => ((s, h), tt, one)
               end
  | None => ((s, h), tt, one)
  end.
Proof.
  unfold fee_step, fee_step_with, impl_blockstep, fblock_step. cbn [fst snd sn_state sn_height sn_one fn_state fn_height].
  destruct (begin_block s (h + 1) mg) as [s1|]; [|reflexivity].
  destruct (end_block s1 w u) as [s3|]; reflexivity.
Qed.
