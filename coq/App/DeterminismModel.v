(** Determinism (property C01): executable models of the places where Haqq's
    state machine meets a source of process-local order or configuration.
    Definitions only; proofs are in DeterminismProofs.v.

    1. x/evm/statedb: Commit ranges over journal.sortedDirties() and
       Storage.SortedKeys(): the Go map is enumerated in an arbitrary order
       [iter], collected, sorted, then used.  The commit itself is the one of
       Evm/ExecModel.v (the model compared with the real keeper by C02).
    2. app/app.go ModuleAccountAddrs / BlockedAddrs / GetMaccPerms and
       x/evm/keeper/precompiles.go: Go maps built from [maccPerms] and the
       precompile list, used only for membership tests and look-ups.
    3. x/ucdao/keeper/account_balances.go GetAccountsBalances: a Go map that is
       only an index into a slice filled in store-iteration order.
    4. The block as a fold of steps over (state, block inputs); the node-local
       inputs (minimum-gas-prices, EVM max-tx-gas-wanted, the TPS counter, the
       wall clock) are arguments of the modelled ante functions only through the
       CheckTx branch. *)
From stdpp Require Import gmap sorting.
From Coq Require Import ZArith List.
From HV Require Import Evm.ExecModel.
Import ListNotations.
Local Open Scope Z_scope.

(** * 1. sorted iteration *)
(** journal.sortedDirties: [iter] is the order in which `for k := range j.dirties` happened to yield the keys *)
Definition sorted_dirties (iter : list N) : list N := merge_sort N.le iter.
(** Storage.SortedKeys *)
Definition sorted_keys (iter : list Z) : list Z := merge_sort Z.le iter.

(** StateDB.Commit as implemented: the enumeration is sorted before use *)
Definition commit_sorted (iter : list N) (W : world) (D : sdb) : world * sdb * bool := commit_list W D (sorted_dirties iter).
(** the same loop without the sort *)
Definition commit_unsorted (iter : list N) (W : world) (D : sdb) : world * sdb * bool := commit_list W D iter.

(** dirty storage written in a given key order (commit_storage of ExecModel with the enumeration made explicit) *)
Definition commit_storage_in (keys : list Z) (W : world) (a : N) (o : obj) : world * obj :=
  fold_left (fun '(W, o) k =>
      match dstor o !! k with
      | None => (W, o)
      | Some v =>
        let skip := match tstor o !! k with Some t => t =? v | None => v =? zg (ostor o) k end in
        if skip then (W, o)
        else (mkworld (bank W) (supply W) (wexists W) (deleg W) (unbond W) (wdaddr W) (pending W) (broken W) (grants W)
                      (<[(a, k) := v]> (store W)),
              mkobj (obal o) (dstor o) (ostor o) (<[k := v]> (tstor o)) (osui o))
      end) keys (W, o).
Definition commit_storage_sorted (iter : list Z) := commit_storage_in (sorted_keys iter).

(** witness for the refutation: account 1 (ordinary) and account 5 (a blocked
    precompile address) are dirty, both with a higher cached balance *)
Definition w_refute : world := mkworld ∅ 0 ∅ ∅ ∅ ∅ ∅ ∅ ∅ ∅.
Definition d_refute : sdb :=
  mksdb (<[1%N := mkobj 10 ∅ ∅ ∅ false]> (<[5%N := mkobj 7 ∅ ∅ ∅ false]> ∅)) [] (<[1%N := 1%nat]> (<[5%N := 1%nat]> ∅)) 0.

(** * 2. registries *)
(** a registry built by inserting the entries one by one, in the order the source map yields them *)
Definition build_map {V} (entries : list (N * V)) : gmap N V := list_to_map entries.
Definition build_set (entries : list N) : gset N := list_to_set entries.

(** ModuleAccountAddrs: names collected from the permission map, sorted, mapped to addresses, inserted *)
Definition module_account_addrs (addr_of : N -> N) (iter : list N) : gset N :=
  build_set (map addr_of (merge_sort N.le iter)).
(** BlockedAddrs: the same plus the precompile addresses (a fixed slice) *)
Definition blocked_addrs (addr_of : N -> N) (iter : list N) (precompiles : list N) : gset N :=
  module_account_addrs addr_of iter ∪ build_set precompiles.
(** GetAvailablePrecompileAddrs: keys of the registry, sorted *)
Definition available_precompile_addrs (iter : list N) : list N := merge_sort N.le iter.

(** * 3. DAO export *)
(** the Go map as a hash table whose internal layout may change arbitrarily on
    every insertion: an association list re-laid out by [scramble] *)
Definition alookup (idx : list (N * nat)) (a : N) : option nat := (list_to_map idx : gmap N nat) !! a.

Definition add_coin (out : list (N * list (N * Z))) (i : nat) (c : N * Z) : list (N * list (N * Z)) :=
  match out !! i with
  | Some (a, cs) => <[i := (a, cs ++ [c])]> out
  | None => out
  end.

Section Export.
  Variable scramble : list (N * nat) -> list (N * nat).

  (** GetAccountsBalances: [entries] is the store iteration (address, denomination, amount) *)
  Fixpoint export_with (entries : list (N * N * Z)) (idx : list (N * nat)) (out : list (N * list (N * Z)))
    : list (N * list (N * Z)) :=
    match entries with
    | [] => out
    | (a, d, v) :: r =>
        match alookup idx a with
        | Some i => export_with r idx (add_coin out i (d, v))
        | None => export_with r (scramble ((a, length out) :: idx)) (out ++ [(a, [(d, v)])])
        end
    end.
End Export.

Definition export_balances (entries : list (N * N * Z)) : list (N * list (N * Z)) := export_with (fun l => l) entries [] [].

(** * 4. the block function *)
Inductive mode := Check | Deliver.
Definition is_check (m : mode) : bool := match m with Check => true | Deliver => false end.

(** what a node brings that is not a block input *)
Record nlocal := mknl {
  nl_min_gas_price : Z;      (* app.toml minimum-gas-prices, in the EVM denomination *)
  nl_max_gas_wanted : Z;     (* json-rpc / evm.max-tx-gas-wanted *)
  nl_tps_ok : nat;           (* TPS counter, fed by app.DeliverTx and read by a goroutine *)
  nl_tps_fail : nat;
  nl_wall_clock : Z
}.

(** app/ante/evm/fees.go EthMempoolFeeDecorator: messages as (fee, gas limit) *)
Definition eth_mempool_fee (m : mode) (simulate london : bool) (nl : nlocal) (msgs : list (Z * Z)) : bool :=
  if negb (is_check m) || simulate then true
  else if london then true
  else forallb (fun '(fee, gas) => negb (fee <? nl_min_gas_price nl * gas)) msgs.

(** app/ante/cosmos/fees.go checkTxFeeWithValidatorMinGasPrices (the fallback used at height 0 / before London):
    accepted fee and priority, or rejection *)
Definition cosmos_min_gas_fee (m : mode) (nl : nlocal) (fee gas : Z) : option (Z * Z) :=
  if is_check m && negb (nl_min_gas_price nl =? 0) && (fee <? nl_min_gas_price nl * gas) then None
  else Some (fee, if gas =? 0 then 0 else fee / gas).

(** app/ante/evm/eth.go EthGasConsumeDecorator: the gas wanted that is recorded for the block gas meter *)
Definition eth_gas_wanted (m : mode) (nl : nlocal) (gas_limits : list Z) : Z :=
  fold_left (fun acc g =>
     acc + (if is_check m && negb (nl_max_gas_wanted nl =? 0)
            then (if nl_max_gas_wanted nl <? g then nl_max_gas_wanted nl else g) else g)) gas_limits 0.

Record txm (P : Type) := mktx { tx_is_eth : bool; tx_msgs : list (Z * Z); tx_fee : Z; tx_gas : Z; tx_payload : P }.
Arguments mktx {P}. Arguments tx_is_eth {P}. Arguments tx_msgs {P}. Arguments tx_fee {P}. Arguments tx_gas {P}. Arguments tx_payload {P}.

Section Block.
  Context {St P R H RB RE : Type}.
  (** the state machine proper: none of these takes a node-local argument *)
  Variable london : St -> bool.
  Variable exec : St -> txm P -> Z -> St * R.      (* run the messages with the given gas wanted *)
  Variable rejected : R.                          (* result of a transaction refused by the ante handler *)
  Variable failed : R -> bool.
  Variable begin_block : St -> H -> St * RB.
  Variable end_block : St -> H -> St * RE.

  (** the ante handler as far as it looks at node-local data *)
  Definition ante (m : mode) (nl : nlocal) (simulate : bool) (s : St) (t : txm P) : option Z :=
    if tx_is_eth t then
      if eth_mempool_fee m simulate (london s) nl (tx_msgs t) then Some (eth_gas_wanted m nl (map snd (tx_msgs t))) else None
    else match cosmos_min_gas_fee m nl (tx_fee t) (tx_gas t) with None => None | Some _ => Some (tx_gas t) end.

  Definition run_tx (m : mode) (nl : nlocal) (s : St) (t : txm P) : St * R :=
    match ante m nl false s t with
    | None => (s, rejected)
    | Some gw => exec s t gw
    end.

  (** app.DeliverTx: baseapp's DeliverTx wrapped with the TPS counter *)
  Definition app_deliver_tx (nl : nlocal) (s : St) (t : txm P) : nlocal * St * R :=
    let '(s', r) := run_tx Deliver nl s t in
    (if failed r then mknl (nl_min_gas_price nl) (nl_max_gas_wanted nl) (nl_tps_ok nl) (Datatypes.S (nl_tps_fail nl)) (nl_wall_clock nl)
     else mknl (nl_min_gas_price nl) (nl_max_gas_wanted nl) (Datatypes.S (nl_tps_ok nl)) (nl_tps_fail nl) (nl_wall_clock nl),
     s', r).

  Fixpoint deliver_all (nl : nlocal) (s : St) (txs : list (txm P)) : nlocal * St * list R :=
    match txs with
    | [] => (nl, s, [])
    | t :: r => let '(nl1, s1, x) := app_deliver_tx nl s t in
                let '(nl2, s2, xs) := deliver_all nl1 s1 r in (nl2, s2, x :: xs)
    end.

  (** one block: BeginBlock, the transactions in order, EndBlock (Commit hashes the resulting state) *)
  Definition run_block (nl : nlocal) (s : St) (b : H * list (txm P)) : nlocal * St * (RB * list R * RE) :=
    let '(s1, rb) := begin_block s (fst b) in
    let '(nl2, s2, rs) := deliver_all nl s1 (snd b) in
    let '(s3, re) := end_block s2 (fst b) in
    (nl2, s3, (rb, rs, re)).

  Fixpoint run_chain (nl : nlocal) (s : St) (bs : list (H * list (txm P))) : nlocal * St * list (RB * list R * RE) :=
    match bs with
    | [] => (nl, s, [])
    | b :: r => let '(nl1, s1, x) := run_block nl s b in
                let '(nl2, s2, xs) := run_chain nl1 s1 r in (nl2, s2, x :: xs)
    end.
End Block.

(** ---- correspondence with the harness (driver "registries") ---- *)
(** DAO export: store entries in iteration order, and what GetAccountsBalances returned *)
Definition export_case := (list (N * N * Z) * list (N * list (N * Z)))%type.
Definition check_export (c : export_case) : bool := bool_decide (export_balances (fst c) = snd c).

(** sorted key lists: an enumeration and what the implementation returned *)
Definition sorted_case := (list N * list N)%type.
Definition check_sorted (c : sorted_case) : bool := bool_decide (available_precompile_addrs (fst c) = snd c).

(** blocked addresses: names in enumeration order, address of each name, precompiles, observed set (ascending) *)
Definition blocked_case := (list (N * N) * list N * list N)%type.
Definition check_blocked (c : blocked_case) : bool :=
  let '(names, pre, observed) := c in
  let addr_of n := default 0%N ((list_to_map names : gmap N N) !! n) in
  bool_decide (merge_sort N.le (elements (blocked_addrs addr_of (map fst names) pre)) = observed).

Inductive rcase := RExport (c : export_case) | RSorted (c : sorted_case) | RBlocked (c : blocked_case).
Definition check_rcase (c : rcase) : bool :=
  match c with RExport c => check_export c | RSorted c => check_sorted c | RBlocked c => check_blocked c end.

Fixpoint rmismatches_from (i : nat) (cs : list rcase) : list nat :=
  match cs with
  | [] => []
  | c :: r => if check_rcase c then rmismatches_from (S i) r else i :: rmismatches_from (S i) r
  end.
Definition rmismatches cs := rmismatches_from 0 cs.

(** map-range / goroutine / wall-clock sites: the harness sends the class code it
    matched (0 = undischarged); every non-zero code names an argument of Props/C01.v *)
Definition site_mismatches_from := fix go (i : nat) (cs : list N) : list nat :=
  match cs with [] => [] | c :: r => if N.eqb c 0 then i :: go (S i) r else go (S i) r end.
Definition site_mismatches (cs : list N) : list nat := site_mismatches_from 0%nat cs.

(** * 5. the BLOCKHASH environment function *)
(** The EVM asks the application for the hash of a past block through
    vm.BlockContext.GetHash = x/evm/keeper/state_transition.go GetHashFn.  Which
    past headers exist is CONSENSUS state: x/staking's BeginBlocker
    (TrackHistoricalInfo) stores the header of the block in progress and deletes
    the entries older than the HistoricalEntries parameter.  A header hash is a
    number here, 0 = the zero hash (also what a stored header yields that does
    not validate / has no ValidatorsHash). *)
Definition bhash := Z.
Notation hinfo := (gmap Z bhash) (only parsing).

(** x/staking/keeper/historical_info.go TrackHistoricalInfo, the pruning loop
      for i := ctx.BlockHeight() - int64(entryNum); i >= 0; i-- {
        if found(i) { delete(i) } else { break } }
    ([fuel] = the number of values i can take) *)
Fixpoint prune_loop (fuel : nat) (i : Z) (h : hinfo) : hinfo :=
  match fuel with
  | O => h
  | S f => if i <? 0 then h
           else match h !! i with
                | Some _ => prune_loop f (i - 1) (delete i h)
                | None => h
                end
  end.

(** ... then `if entryNum == 0 { return }`, then SetHistoricalInfo(height, header) *)
Definition track_historical_info (entries cur : Z) (hdr : bhash) (h : hinfo) : hinfo :=
  let h1 := prune_loop (Z.to_nat (cur - entries + 1)) (cur - entries) h in
  if entries =? 0 then h1 else <[cur := hdr]> h1.

Definition max_int64 : Z := 9223372036854775807.
Definition max_uint64 : Z := 18446744073709551615.

(** Keeper.GetHashFn(ctx)(height): [cur] = ctx.BlockHeight(), [cur_hash] = ctx.HeaderHash()
    (or, when that is empty, the hash recomputed from the context's header) *)
Definition get_hash_fn (h : hinfo) (cur : Z) (cur_hash : bhash) (req : Z) : bhash :=
  if max_int64 <? req then 0                       (* SafeInt64 fails *)
  else if cur =? req then cur_hash                 (* case 1 *)
  else if req <? cur then default 0 (h !! req)     (* case 2: staking GetHistoricalInfo *)
  else 0.                                          (* case 3 *)

(** go-ethereum core/vm opBlockhash: only the 256 blocks before the current one are addressable;
    [req] is the 256-bit stack word *)
Definition hash_fn (h : hinfo) (cur : Z) (cur_hash : bhash) (req : Z) : bhash :=
  if max_uint64 <? req then 0
  else let lower := if cur <? 257 then 0 else cur - 256 in
       if (lower <=? req) && (req <? cur) then get_hash_fn h cur cur_hash req else 0.

(** what of a replica the function depends on *)
Record replica := mkrep { r_hist : hinfo; r_height : Z }.

(** what happens to a node: a block (its inputs as far as this function goes: the
    HistoricalEntries parameter in force and the header), or something that is not a
    block input -- an ABCI query (eth_call, estimateGas, Simulate, bank / staking
    queries), a CheckTx, a restart from the database, the construction of further
    application objects in the process *)
Inductive pevent :=
  | PBlock (entries : Z) (hdr : bhash)
  | PQuery (req : Z)
  | PCheckTx (req : Z)
  | PRestart
  | PConstruct.

(** As the code has it: a query / CheckTx runs on a branch of the committed multistore
    that is dropped; a restart reloads the store from the database; neither the
    historical info nor the height lives anywhere else. *)
Definition pstep (r : replica) (e : pevent) : replica :=
  match e with
  | PBlock en hdr => mkrep (track_historical_info en (r_height r + 1) hdr (r_hist r)) (r_height r + 1)
  | _ => r
  end.

Definition prun (evs : list pevent) (r : replica) : replica := fold_left pstep evs r.

(** the states right after every block *)
Fixpoint ptrace (evs : list pevent) (r : replica) : list replica :=
  match evs with
  | [] => []
  | e :: rest => let r' := pstep r e in
                 match e with PBlock _ _ => r' :: ptrace rest r' | _ => ptrace rest r' end
  end.

Definition is_block (e : pevent) : bool := match e with PBlock _ _ => true | _ => false end.
Definition blocks_of (evs : list pevent) : list pevent := List.filter is_block evs.

Definition rep0 : replica := mkrep ∅ 0.

(** a chain from genesis with a constant parameter: the historical info after [n] blocks
    (block k has the header hash [hdr k]) *)
Fixpoint hist_after (entries : Z) (hdr : Z -> bhash) (n : nat) : hinfo :=
  match n with
  | O => ∅
  | S m => track_historical_info entries (Z.of_nat n) (hdr (Z.of_nat n)) (hist_after entries hdr m)
  end.
Definition block_events (entries : Z) (hdr : Z -> bhash) (n : nat) : list pevent :=
  map (fun k => PBlock entries (hdr (Z.of_nat k))) (seq 1 n).

(** the heights BLOCKHASH can answer for in block [cur] *)
Definition bh_available (entries cur req : Z) : bool :=
  (Z.max 1 (cur - entries + 1) <=? req) && (req <? cur) && (cur - req <=? 256).

(** ---- the variant with a process-local memo (NOT what the code does; used to show that
    the agreement theorem is about something): resolved hashes are remembered in the
    keeper object, shared by DeliverTx and queries, lost on restart *)
Record crep := mkcrep { c_hist : hinfo; c_height : Z; c_memo : gmap Z bhash }.

Definition get_hash_fn_memo (r : crep) (cur_hash : bhash) (req : Z) : bhash * gmap Z bhash :=
  let cur := c_height r in
  if max_int64 <? req then (0, c_memo r)
  else if cur =? req then (cur_hash, c_memo r)
  else if req <? cur then
    match c_memo r !! req with
    | Some x => (x, c_memo r)
    | None => match c_hist r !! req with
              | Some x => (x, <[req := x]> (c_memo r))
              | None => (0, c_memo r)
              end
    end
  else (0, c_memo r).

Definition hash_fn_memo (r : crep) (cur_hash : bhash) (req : Z) : bhash * gmap Z bhash :=
  let cur := c_height r in
  if max_uint64 <? req then (0, c_memo r)
  else let lower := if cur <? 257 then 0 else cur - 256 in
       if (lower <=? req) && (req <? cur) then get_hash_fn_memo r cur_hash req else (0, c_memo r).

Definition cstep (r : crep) (e : pevent) : crep :=
  match e with
  | PBlock en hdr => mkcrep (track_historical_info en (c_height r + 1) hdr (c_hist r)) (c_height r + 1) (c_memo r)
  | PQuery req | PCheckTx req => mkcrep (c_hist r) (c_height r) (snd (hash_fn_memo r 0 req))
  | PRestart => mkcrep (c_hist r) (c_height r) ∅
  | PConstruct => r
  end.
Definition crun (evs : list pevent) (r : crep) : crep := fold_left cstep evs r.

(** ---- correspondence with the harness (driver "replicas") ---- *)
(** one history: the HistoricalEntries parameter of its genesis and, for every BLOCKHASH the
    environment-probe contract evaluated in a delivered transaction or an eth_call
    (context height, requested height as the 256-bit word, answer was non-zero) *)
Definition two256 : Z := 2 ^ 256.   (* the harness writes a wrapped word as (two256 - d) *)
Definition bh_obs := (Z * Z * bool)%type.
Definition bh_case := (Z * list bh_obs)%type.
Definition check_bh (c : bh_case) : bool :=
  let '(e, obs) := c in
  forallb (fun '(cur, req, nz) =>
    Bool.eqb (negb (hash_fn (hist_after e (fun _ => 1) (Z.to_nat cur)) cur 1 req =? 0)) nz) obs.

Fixpoint bh_mismatches_from (i : nat) (cs : list bh_case) : list nat :=
  match cs with
  | [] => []
  | c :: r => if check_bh c then bh_mismatches_from (S i) r else i :: bh_mismatches_from (S i) r
  end.
Definition bh_mismatches cs := bh_mismatches_from 0 cs.
