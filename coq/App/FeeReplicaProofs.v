(** Proofs for property C01, section 6 (FeeReplicaModel.v): the base fee depends on the block
    inputs only; with a process-global "one" it does not. *)
From Coq Require Import ZArith List Bool Lia.
From HV Require Import Base.Dec Feemarket.BaseFeeModel App.FeeReplicaModel.
Import ListNotations.
Local Open Scope Z_scope.

(** * what is not a block input does not touch what the computation reads *)
Lemma fstep_nonblock on e : is_fblock e = false -> fstep on e = on.
Proof. destruct on, e; cbn; congruence. Qed.

Lemma frun_blocks_of evs on : frun evs on = frun (fblocks_of evs) on.
Proof.
  revert on. induction evs as [|e rest IH]; intros on; [reflexivity|].
  unfold frun, fblocks_of in *. cbn [fold_left List.filter].
  destruct (is_fblock e) eqn:E.
  - cbn [fold_left]. apply IH.
  - rewrite (fstep_nonblock on e E). apply IH.
Qed.

Lemma ftrace_blocks_of evs on : ftrace evs on = ftrace (fblocks_of evs) on.
Proof.
  revert on. induction evs as [|e rest IH]; intros on; [reflexivity|].
  unfold fblocks_of in *. cbn [ftrace List.filter].
  destruct e; cbn [is_fblock].
  - cbn [ftrace]. f_equal. apply IH.
  - rewrite (fstep_nonblock on FQuery eq_refl). apply IH.
  - rewrite (fstep_nonblock on FCheckTx eq_refl). apply IH.
  - rewrite (fstep_nonblock on FRestart eq_refl). apply IH.
  - rewrite (fstep_nonblock on FConstruct eq_refl). apply IH.
Qed.

Lemma ftrace_length evs on : length (ftrace evs on) = length (fblocks_of evs).
Proof.
  revert on. induction evs as [|e rest IH]; intros on; [reflexivity|].
  unfold fblocks_of in *. cbn [ftrace List.filter].
  destruct e; cbn [is_fblock length]; try apply IH.
  f_equal. apply IH.
Qed.

(** Two replicas that got the same blocks -- whatever queries, CheckTx, restarts and further
    application objects happened to either of them, in any interleaving -- have the same
    fee-market store (hence the same base fee) and height after every block. *)
Theorem fee_replicas_agree evs1 evs2 on :
  fblocks_of evs1 = fblocks_of evs2 ->
  length (ftrace evs1 on) = length (fblocks_of evs1) /\
  ftrace evs1 on = ftrace evs2 on /\
  frun evs1 on = frun evs2 on /\
  Forall2 (fun a b => a = b /\ base_fee_of a = base_fee_of b) (ftrace evs1 on) (ftrace evs2 on).
Proof.
  intros E. split; [apply ftrace_length|].
  rewrite (ftrace_blocks_of evs1), (ftrace_blocks_of evs2), (frun_blocks_of evs1), (frun_blocks_of evs2), E.
  split; [reflexivity|]. split; [reflexivity|].
  induction (ftrace (fblocks_of evs2) on); constructor; auto.
Qed.

(** * the block step is the model of property C17 *)
Lemma fblock_step_is_c17_block n mg w u :
  fblock_step n mg None w u =
  match block (fn_state n) (mkblk (fn_height n + 1) mg w u) with
  | Some s => Some (mkfn s (fn_height n + 1))
  | None => None
  end.
Proof.
  unfold fblock_step, block. cbn [b_height b_max_gas b_wanted b_used].
  destruct (begin_block (fn_state n) (fn_height n + 1) mg); [|reflexivity].
  destruct (end_block f w u); reflexivity.
Qed.

(** * the harness check *)
Lemma oz_eqb_eq a b : oz_eqb a b = true <-> a = b.
Proof.
  destruct a as [x|], b as [y|]; cbn; split; try congruence; try discriminate.
  - intros H. apply Z.eqb_eq in H. congruence.
  - intros H. injection H as ->. apply Z.eqb_refl.
Qed.

(** [check_fee] accepts an observation exactly when the base fee found in the store after
    BeginBlock is the one the modelled BeginBlock stores (and the block did not halt). *)
Lemma check_fee_spec p h mg g a :
  check_fee (p, h, mg, g, a) = true <->
  exists s', begin_block (mkfs p g) h mg = Some s' /\ p_base_fee (fs_params s') = a /\ fs_bgw s' = g.
Proof.
  unfold check_fee, fee_after, begin_block. cbn [fs_params fs_bgw].
  destruct (calc_base_fee p h mg g) as [|v|].
  - rewrite oz_eqb_eq. split.
    + intros <-. eexists. split; [reflexivity|]. split; reflexivity.
    + intros (s' & Hs & Ha & _). injection Hs as <-. exact Ha.
  - rewrite oz_eqb_eq. split.
    + intros <-. eexists. split; [reflexivity|]. split; reflexivity.
    + intros (s' & Hs & Ha & _). injection Hs as <-. exact Ha.
  - split; [discriminate|]. intros (s' & Hs & _). discriminate.
Qed.

(** * the process-global "one" *)
(** in a fresh process (one = 1) the shared variant computes the formula ... *)
Lemma shared_one_fresh_is_formula base g T d m :
  fst (next_base_fee_shared 1 base g T d m) = next_base_fee base g T d m.
Proof.
  unfold next_base_fee_shared, next_base_fee.
  destruct (g =? T); [reflexivity|]. destruct (T <? g); [|reflexivity].
  destruct (Z.ltb_spec (base * (g - T) / T / d) 1); cbn [fst]; lia.
Qed.

(** ... and leaves "one" alone unless the minimum step is taken, which overwrites it with the
    new base fee *)
Lemma shared_one_overwritten base g T d m :
  g <> T -> T < g -> base * (g - T) / T / d < 1 ->
  next_base_fee_shared 1 base g T d m = (base + 1, base + 1).
Proof.
  intros H1 H2 H3. unfold next_base_fee_shared.
  destruct (Z.eqb_spec g T); [contradiction|].
  destruct (Z.ltb_spec T g); [|lia].
  destruct (Z.ltb_spec (base * (g - T) / T / d) 1); [reflexivity|lia].
Qed.

(** Base fee 7 (the natural floor of denominator 8), Block.MaxGas 8,000,000, elasticity 2
    (target 4,000,000), multiplier 1; every block declares 6,000,000 gas.  Block 2 and block 3
    take the minimum step.  As implemented: 7, 8, 9 for every process history.  With the
    process-global "one": the node that runs on gives 7, 8, 16; the node restarted between
    block 2 and block 3 gives 7, 8, 9; a node restarted before block 2 gives 7, 8, 16 again.
    Same blocks, same store after block 2, different base fee after block 3. *)
Definition ex_params : params := mkparams false 8 2 (Some 7) 0 0 1000000000000000000.
Definition ex_node : fnode := mkfn (mkfs ex_params 0) 0.
Definition ex_snode : snode := mksn (mkfs ex_params 0) 0 1.
Definition ex_b : fevent := FBlock (Some 8000000) None 6000000 1000000.

Example min_step_twice_as_implemented :
  let quiet := [ex_b; ex_b; ex_b] in
  let restarted := [ex_b; FQuery; ex_b; FRestart; FCheckTx; ex_b] in
  fblocks_of restarted = fblocks_of quiet /\
  map base_fee_of (ftrace quiet (Some ex_node)) = [Some 7; Some 8; Some 9] /\
  map base_fee_of (ftrace restarted (Some ex_node)) = [Some 7; Some 8; Some 9].
Proof. vm_compute. repeat split. Qed.

Example shared_one_breaks_agreement :
  let quiet := [ex_b; ex_b; ex_b] in
  let restarted := [ex_b; ex_b; FRestart; ex_b] in
  let early := [ex_b; FRestart; ex_b; ex_b] in
  fblocks_of restarted = fblocks_of quiet /\ fblocks_of early = fblocks_of quiet /\
  sbase_fee_of (srun [ex_b; ex_b] (Some ex_snode)) = Some 8 /\
  sbase_fee_of (srun quiet (Some ex_snode)) = Some 16 /\
  sbase_fee_of (srun restarted (Some ex_snode)) = Some 9 /\
  sbase_fee_of (srun early (Some ex_snode)) = Some 16 /\
  base_fee_of (frun quiet (Some ex_node)) = Some 9 /\
  base_fee_of (frun restarted (Some ex_node)) = Some 9.
Proof. vm_compute. repeat split. Qed.
