(** Property C20 — restarting a node at a block boundary changes nothing.

    A node is (db, mem): the database and the in-memory state of the process.
    Stopping and restarting replaces mem by [rebuild db].  The general theorem
    [restart_equiv] says: if the steps respect a relation R on memories ("agree
    on every field a step reads") and every step keeps mem R-related to
    [rebuild db], then for every history and every set of restart points the
    block results, app hashes, start-up reports and query answers coincide with
    those of the node that never stopped.

    In-memory state constructed by app.NewHaqq and the keepers (what [mem] stands for):

    | field                                   | where set                                   | derived from db / constant / other          |
    |-----------------------------------------|---------------------------------------------|---------------------------------------------|
    | evm Keeper.eip155ChainID                | WithChainID: InitGenesis, every BeginBlock  | re-derived from the block header's chain id before any DeliverTx of the block; nil between start and the first BeginBlock ([chainid_initial_irrelevant]) |
    | evm Keeper.precompiles (registry)       | WithPrecompiles in NewHaqq (panics if set twice); AddEVMExtensions | constant of construction; AddEVMExtensions / RegisterERC20Extensions have no non-test caller (asserted by the driver) — if they were reachable: [dynamic_registration_breaks_restart_refuted_in_model] |
    | evm Keeper.hooks, epochs Keeper.hooks   | SetHooks in NewHaqq                         | constant of construction                    |
    | evm Keeper.tracer, ante MaxTxGasWanted, baseapp minGasPrices, invCheckPeriod, skipUpgradeHeights | app options / node config | node-local configuration, identical for both nodes of the comparison; not consensus input |
    | keepers, store keys, codecs, module manager, configurator, msg/query routers, IBC router, ante/post handler, upgrade handlers (hold a *copy* of the evm keeper taken at construction: its chain id is nil on every node) | NewHaqq | constants of construction |
    | upgrade Keeper.downgradeVerified        | first BeginBlock after start                | a check against the db (panics on a wrong binary); its extra store reads are charged to the block context's gas meter: known finding K16 ([preante_gas_leak_breaks_restart_refuted]) |
    | capability Keeper memstore + capMap     | InitMemStore in the first BeginBlock        | rebuilt from the persistent capability store (SDK); the rebuild is charged to the same meter (K16) |
    | baseapp deliverState ctx gas meter      | new per block, fed by the begin blockers    | reported as GasUsed of a transaction that fails before the ante handler and added to the block gas meter (K16); repaired by running the begin blockers on a private meter ([preante_gas_fixed_restart_equiv]) |
    | stored parameters (evm, feemarket, ...) | MsgUpdateParams / ParameterChangeProposal   | database, not memory: [pstep], [params_node_restart_equiv]; start-up code must not rewrite them ([latch_breaks_restart_refuted]) |
    | baseapp deliverState / checkState       | BeginBlock / Commit; Init() after load      | deliverState rebuilt from db at BeginBlock; checkState header is EMPTY between start and the first Commit (the driver reports what depends on it) |
    | transient stores (evm, feemarket, params)| reset at Commit                             | empty at every block boundary on both nodes |
    | tpsCounter                              | DeliverTx increments, goroutine logs        | never read by the state machine             |
    | upgrade-info.json under the node home   | written by the upgrade module before a halt | on disk but outside the database: part of what a restart keeps |
    | package-level variables of the PROCESS (go-ethereum common.Big1 / Big0 ..., sync.Once latches, init-time registries of the imported packages) | process start; must never be written afterwards | not part of [mem]: App/ProcRestartModel.v makes them a third component [proc] that a real restart resets and an in-process re-open keeps ([continuation_is_function_of_db_and_blocks]; if a step reads it: [shared_one_breaks_process_restart_refuted]) |

    This file: executable definitions and the theorems (the model is small). *)
From Coq Require Import ZArith NArith List Bool Lia.
From stdpp Require Import base tactics.
Import ListNotations.

Section Restart.
  Variables DB Mem Block Result Hash Q A : Type.
  Variable rebuild : DB -> Mem.
  Variable step : DB * Mem -> Block -> (DB * Mem) * Result.
  Variable apphash : DB -> Hash.
  Variable height : DB -> Z.
  Variable query : DB * Mem -> Q -> A.

  Definition node := (DB * Mem)%type.
  Definition restart (n : node) : node := (fst n, rebuild (fst n)).
  (** what a node reports on start-up / at any time: last height and app hash *)
  Definition info (n : node) : Z * Hash := (height (fst n), apphash (fst n)).

  (** one observation per block: result, app hash after the block, Info, answers to a list of queries *)
  Definition obs := (Result * (Z * Hash) * list A)%type.

  (** run a history; [rs] says, per block, whether the process is stopped and
      restarted at the boundary before that block; [qs] are asked after every block *)
  Fixpoint run (qs : list Q) (n : node) (bs : list (bool * Block)) : node * list obs :=
    match bs with
    | [] => (n, [])
    | (r, b) :: bs' =>
        let n0 := if r then restart n else n in
        let '(n1, res) := step n0 b in
        let '(nf, os) := run qs n1 bs' in
        (nf, (res, info n1, map (query n1) qs) :: os)
    end.

  Definition never (bs : list Block) : list (bool * Block) := map (fun b => (false, b)) bs.
  Definition schedule (rs : list bool) (bs : list Block) : list (bool * Block) :=
    combine (rs ++ repeat false (length bs - length rs)) bs.

  (** R m1 m2: the two memories agree on every field a step or a query reads *)
  Variable R : Mem -> Mem -> Prop.
  Hypothesis R_sym : forall a b, R a b -> R b a.
  Hypothesis R_trans : forall a b c, R a b -> R b c -> R a c.
  (** steps and queries read memory only through R *)
  Hypothesis step_respects : forall db m1 m2 b, R m1 m2 ->
    fst (fst (step (db, m1) b)) = fst (fst (step (db, m2) b)) /\
    snd (step (db, m1) b) = snd (step (db, m2) b) /\
    R (snd (fst (step (db, m1) b))) (snd (fst (step (db, m2) b))).
  Hypothesis query_respects : forall db m1 m2 q, R m1 m2 -> query (db, m1) q = query (db, m2) q.
  (** every step keeps the memory equivalent to what a restart would rebuild *)
  Hypothesis step_preserves : forall db m b, R m (rebuild db) ->
    R (snd (fst (step (db, m) b))) (rebuild (fst (fst (step (db, m) b)))).

  Lemma run_related qs db m1 m2 bs1 bs2 :
    R m1 (rebuild db) -> R m2 (rebuild db) -> map snd bs1 = map snd bs2 ->
    snd (run qs (db, m1) bs1) = snd (run qs (db, m2) bs2) /\
    fst (fst (run qs (db, m1) bs1)) = fst (fst (run qs (db, m2) bs2)).
  Proof.
    revert db m1 m2 bs2. induction bs1 as [|[r1 b1] bs1 IH]; intros db m1 m2 bs2 H1 H2 Hb.
    - destruct bs2; [done|discriminate].
    - destruct bs2 as [|[r2 b2] bs2]; [discriminate|]. simpl in Hb. injection Hb as Hb1 Hbt. subst b2.
      simpl.
      set (n1 := if r1 then restart (db, m1) else (db, m1)).
      set (n2 := if r2 then restart (db, m2) else (db, m2)).
      assert (Hrr : R (rebuild db) (rebuild db)) by (eapply R_trans; [apply R_sym; exact H1|exact H1]).
      assert (E1 : exists m1', n1 = (db, m1') /\ R m1' (rebuild db)).
      { destruct r1; [exists (rebuild db)|exists m1]; auto. }
      assert (E2 : exists m2', n2 = (db, m2') /\ R m2' (rebuild db)).
      { destruct r2; [exists (rebuild db)|exists m2]; auto. }
      destruct E1 as (m1' & -> & G1). destruct E2 as (m2' & -> & G2).
      assert (G : R m1' m2') by (eapply R_trans; [exact G1|apply R_sym; exact G2]).
      destruct (step_respects db m1' m2' b1 G) as (Edb & Eres & Emem).
      pose proof (step_preserves db m1' b1 G1) as P1.
      pose proof (step_preserves db m2' b1 G2) as P2.
      destruct (step (db, m1') b1) as [[db1 ma] res1] eqn:S1.
      destruct (step (db, m2') b1) as [[db2 mb] res2] eqn:S2.
      simpl in *. subst db2 res2.
      specialize (IH db1 ma mb bs2 P1 P2 Hbt).
      destruct (run qs (db1, ma) bs1) as [nf1 os1] eqn:Ra.
      destruct (run qs (db1, mb) bs2) as [nf2 os2] eqn:Rb.
      simpl in *. destruct IH as [IHo IHd]. split; [|exact IHd].
      f_equal; [|exact IHo]. f_equal.
      apply map_ext. intros q. apply query_respects. exact Emem.
  Qed.

  (** the theorem: any restart schedule is indistinguishable from none — block
      results, app hashes, Info and query answers after every block, final database *)
  Theorem restart_equiv :
    forall qs db m (bs : list Block) (rs : list bool),
      R m (rebuild db) ->
      snd (run qs (db, m) (schedule rs bs)) = snd (run qs (db, m) (never bs)) /\
      fst (fst (run qs (db, m) (schedule rs bs))) = fst (fst (run qs (db, m) (never bs))).
  Proof.
    intros qs db m bs rs H. apply run_related; [exact H|exact H|].
    unfold schedule, never. rewrite map_map. simpl. rewrite map_id.
    assert (forall (l : list bool) (k : list Block), length k <= length l -> map snd (combine l k) = k) as Hc.
    { intros l k. revert l. induction k as [|x k IHk]; intros l Hl; destruct l; simpl in *; try lia; [done|done|].
      f_equal. apply IHk. lia. }
    apply Hc. rewrite app_length, repeat_length. lia.
  Qed.

  (** start-up report and queries right after a restart *)
  Theorem restart_info : forall n, info (restart n) = info n.
  Proof. reflexivity. Qed.
  Theorem restart_query : forall db m q, R m (rebuild db) -> query (restart (db, m)) q = query (db, m) q.
  Proof. intros db m q H. unfold restart; simpl. apply query_respects, R_sym, H. Qed.

  (** the invariant travels along every run, whatever the restart points *)
  Lemma run_invariant qs db m sch :
    R m (rebuild db) ->
    R (snd (fst (run qs (db, m) sch))) (rebuild (fst (fst (run qs (db, m) sch)))).
  Proof.
    revert db m. induction sch as [|[r b] sch IH]; intros db m H; simpl; [exact H|].
    assert (Hrr : R (rebuild db) (rebuild db)) by (eapply R_trans; [apply R_sym; exact H|exact H]).
    assert (E : exists m', (if r then restart (db, m) else (db, m)) = (db, m') /\ R m' (rebuild db)).
    { destruct r; [exists (rebuild db)|exists m]; auto. }
    destruct E as (m' & -> & G).
    pose proof (step_preserves db m' b G) as P.
    destruct (step (db, m') b) as [[db1 m1] res] eqn:S. simpl in P.
    specialize (IH db1 m1 P).
    destruct (run qs (db1, m1) sch) as [nf os]. simpl in *. exact IH.
  Qed.

  (** a node that has run any history with any restarts, is now stopped and
      restarted, and may be restarted again at any later boundaries, is
      observationally equal for ever after to the same node that keeps running *)
  Theorem restarted_equal_for_ever_after :
    forall qs db m (bs1 : list Block) (rs1 : list bool) (bs2 : list Block) (rs2 : list bool),
      R m (rebuild db) ->
      let n := fst (run qs (db, m) (schedule rs1 bs1)) in
      info (restart n) = info n /\
      (forall q, query (restart n) q = query n q) /\
      snd (run qs (restart n) (schedule rs2 bs2)) = snd (run qs n (never bs2)) /\
      fst (fst (run qs (restart n) (schedule rs2 bs2))) = fst (fst (run qs n (never bs2))).
  Proof.
    intros qs db m bs1 rs1 bs2 rs2 H n.
    pose proof (run_invariant qs db m (schedule rs1 bs1) H) as Hn. fold n in Hn.
    destruct n as [dbn mn]. simpl in Hn.
    assert (Hrr : R (rebuild dbn) (rebuild dbn)) by (eapply R_trans; [apply R_sym; exact Hn|exact Hn]).
    split; [reflexivity|]. split; [intros q; apply restart_query; exact Hn|].
    unfold restart; simpl. apply run_related; [exact Hrr|exact Hn|].
    unfold schedule, never. rewrite map_map. simpl. rewrite map_id.
    assert (forall (l : list bool) (k : list Block), length k <= length l -> map snd (combine l k) = k) as Hc.
    { intros l k. revert l. induction k as [|x k IHk]; intros l Hl; destruct l; simpl in *; try lia; [done|done|].
      f_equal. apply IHk. lia. }
    apply Hc. rewrite app_length, repeat_length. lia.
  Qed.
End Restart.

(** * The obligation on the code, as definitions
    [mem_is_function_of_db]: after every step the memory equals - on the part
    the steps and queries read, i.e. up to R - what a restart would rebuild from
    the database the step leaves.  [reads_mem_through]: a step reads memory only
    up to R.  With R := "equal under [view]" the observable part is a projection. *)
Definition mem_is_function_of_db {DB Mem Block Result : Type}
    (rebuild : DB -> Mem) (step : DB * Mem -> Block -> (DB * Mem) * Result) (R : Mem -> Mem -> Prop) : Prop :=
  forall db m b, R m (rebuild db) ->
    R (snd (fst (step (db, m) b))) (rebuild (fst (fst (step (db, m) b)))).

Definition reads_mem_through {DB Mem Block Result : Type}
    (step : DB * Mem -> Block -> (DB * Mem) * Result) (R : Mem -> Mem -> Prop) : Prop :=
  forall db m1 m2 b, R m1 m2 ->
    fst (fst (step (db, m1) b)) = fst (fst (step (db, m2) b)) /\
    snd (step (db, m1) b) = snd (step (db, m2) b) /\
    R (snd (fst (step (db, m1) b))) (snd (fst (step (db, m2) b))).

Definition query_reads_mem_through {DB Mem Q A : Type} (query : DB * Mem -> Q -> A) (R : Mem -> Mem -> Prop) : Prop :=
  forall db m1 m2 q, R m1 m2 -> query (db, m1) q = query (db, m2) q.

Definition observable_part {Mem V : Type} (view : Mem -> V) : Mem -> Mem -> Prop := fun a b => view a = view b.

(** if every step preserves the invariant, a restarted node and a continuous
    node are observationally equal for ever after: all histories, all restart points *)
Theorem invariant_gives_restart_equiv :
  forall (DB Mem Block Result Hash Q A : Type)
         (rebuild : DB -> Mem) (step : DB * Mem -> Block -> (DB * Mem) * Result)
         (apphash : DB -> Hash) (height : DB -> Z) (query : DB * Mem -> Q -> A) (R : Mem -> Mem -> Prop),
    (forall a b, R a b -> R b a) -> (forall a b c, R a b -> R b c -> R a c) ->
    reads_mem_through step R -> query_reads_mem_through query R ->
    mem_is_function_of_db rebuild step R ->
    forall qs db m (bs1 : list Block) (rs1 : list bool) (bs2 : list Block) (rs2 : list bool),
      R m (rebuild db) ->
      let go := run DB Mem Block Result Hash Q A rebuild step apphash height query qs in
      let n := fst (go (db, m) (schedule Block rs1 bs1)) in
      info DB Mem Hash apphash height (restart DB Mem rebuild n) = info DB Mem Hash apphash height n /\
      (forall q, query (restart DB Mem rebuild n) q = query n q) /\
      snd (go (restart DB Mem rebuild n) (schedule Block rs2 bs2)) = snd (go n (never Block bs2)) /\
      fst (fst (go (restart DB Mem rebuild n) (schedule Block rs2 bs2))) = fst (fst (go n (never Block bs2))).
Proof.
  intros DB Mem Block Result Hash Q A rebuild step apphash height query R Hs Ht Hr Hq Hi.
  exact (restarted_equal_for_ever_after DB Mem Block Result Hash Q A rebuild step apphash height query R Hs Ht Hr Hq Hi).
Qed.

(** the same with the observable part given as a projection of the memory *)
Theorem invariant_on_observable_part_gives_restart_equiv :
  forall (DB Mem Block Result Hash Q A V : Type) (view : Mem -> V)
         (rebuild : DB -> Mem) (step : DB * Mem -> Block -> (DB * Mem) * Result)
         (apphash : DB -> Hash) (height : DB -> Z) (query : DB * Mem -> Q -> A),
    reads_mem_through step (observable_part view) -> query_reads_mem_through query (observable_part view) ->
    mem_is_function_of_db rebuild step (observable_part view) ->
    forall qs db m (bs : list Block) (rs : list bool),
      view m = view (rebuild db) ->
      snd (run DB Mem Block Result Hash Q A rebuild step apphash height query qs (db, m) (schedule Block rs bs))
      = snd (run DB Mem Block Result Hash Q A rebuild step apphash height query qs (db, m) (never Block bs)) /\
      fst (fst (run DB Mem Block Result Hash Q A rebuild step apphash height query qs (db, m) (schedule Block rs bs)))
      = fst (fst (run DB Mem Block Result Hash Q A rebuild step apphash height query qs (db, m) (never Block bs))).
Proof.
  intros DB Mem Block Result Hash Q A V view rebuild step apphash height query Hr Hq Hi qs db m bs rs H.
  apply (restart_equiv DB Mem Block Result Hash Q A rebuild step apphash height query (observable_part view)); auto.
  - intros a b Hab. unfold observable_part in *. congruence.
  - intros a b c Hab Hbc. unfold observable_part in *. congruence.
Qed.

(** any two restart schedules are interchangeable *)
Theorem restart_points_interchangeable :
  forall (DB Mem Block Result Hash Q A : Type)
         (rebuild : DB -> Mem) (step : DB * Mem -> Block -> (DB * Mem) * Result)
         (apphash : DB -> Hash) (height : DB -> Z) (query : DB * Mem -> Q -> A) (R : Mem -> Mem -> Prop),
    (forall a b, R a b -> R b a) -> (forall a b c, R a b -> R b c -> R a c) ->
    reads_mem_through step R -> query_reads_mem_through query R ->
    mem_is_function_of_db rebuild step R ->
    forall qs db m (bs : list Block) (rs rs' : list bool),
      R m (rebuild db) ->
      snd (run DB Mem Block Result Hash Q A rebuild step apphash height query qs (db, m) (schedule Block rs bs))
      = snd (run DB Mem Block Result Hash Q A rebuild step apphash height query qs (db, m) (schedule Block rs' bs)).
Proof.
  intros DB Mem Block Result Hash Q A rebuild step apphash height query R Hs Ht Hr Hq Hi qs db m bs rs rs' H.
  destruct (restart_equiv DB Mem Block Result Hash Q A rebuild step apphash height query R Hs Ht Hr Hq Hi qs db m bs rs H) as [E1 _].
  destruct (restart_equiv DB Mem Block Result Hash Q A rebuild step apphash height query R Hs Ht Hr Hq Hi qs db m bs rs' H) as [E2 _].
  congruence.
Qed.

(** * The Haqq node: chain id cache, precompile registry, tps counter *)
Section Haqq.
  Variables DB Tx Res : Type.
  (** executing a transaction reads the database, the EIP-155 chain id held by
      the EVM keeper and the keeper's precompile registry *)
  Variable exec : DB -> Z -> list N -> Tx -> DB * Res.
  Variable end_commit : DB -> DB.            (* EndBlock + Commit *)
  Variable static_registry : list N.         (* AvailablePrecompiles(...) built in NewHaqq *)
  Variable cid : Z.                          (* the chain's id: every block header carries it (baseapp checks) *)

  Record hmem := mk_hmem { m_chain : option Z; m_reg : list N; m_tps : nat }.
  Record hblock := mk_hblock { b_chain : Z; b_txs : list Tx }.
  Inductive hres := Panic | Done (rs : list Res).

  Definition hrebuild (_ : DB) : hmem := mk_hmem None static_registry 0.

  Definition exec_all (db : DB) (c : Z) (reg : list N) (txs : list Tx) : DB * list Res :=
    fold_left (fun acc tx => let '(d, rs) := acc in let '(d', r) := exec d c reg tx in (d', rs ++ [r])) txs (db, []).

  (** BeginBlock: WithChainID (panics when a different id is cached); then the
      transactions; DeliverTx bumps the tps counter; EndBlock + Commit *)
  Definition hstep (n : DB * hmem) (b : hblock) : (DB * hmem) * hres :=
    let '(db, m) := n in
    match m_chain m with
    | Some c => if (c =? b_chain b)%Z then
                  let '(db', rs) := exec_all db (b_chain b) (m_reg m) (b_txs b) in
                  ((end_commit db', mk_hmem (Some (b_chain b)) (m_reg m) (m_tps m + length (b_txs b))), Done rs)
                else ((db, m), Panic)
    | None => let '(db', rs) := exec_all db (b_chain b) (m_reg m) (b_txs b) in
              ((end_commit db', mk_hmem (Some (b_chain b)) (m_reg m) (m_tps m + length (b_txs b))), Done rs)
    end.

  Definition compat (m : hmem) : Prop := m_chain m = None \/ m_chain m = Some cid.
  (** agree on the registry; the cached chain id is absent or the chain's; the tps counter is free *)
  Definition hR (m1 m2 : hmem) : Prop := m_reg m1 = m_reg m2 /\ compat m1 /\ compat m2.

  Lemma hstep_ok db m b :
    compat m -> b_chain b = cid ->
    hstep (db, m) b =
      (let '(db', rs) := exec_all db cid (m_reg m) (b_txs b) in
       ((end_commit db', mk_hmem (Some cid) (m_reg m) (m_tps m + length (b_txs b))), Done rs)).
  Proof.
    intros [Hc|Hc] Hb; unfold hstep; rewrite Hc, Hb; [done|]. by rewrite Z.eqb_refl.
  Qed.

  (** the chain id cached before the block is irrelevant: it is overwritten by
      BeginBlock before any transaction reads it *)
  Theorem chainid_initial_irrelevant :
    forall db reg t1 t2 c1 c2 b,
      (c1 = None \/ c1 = Some cid) -> (c2 = None \/ c2 = Some cid) -> b_chain b = cid ->
      fst (fst (hstep (db, mk_hmem c1 reg t1) b)) = fst (fst (hstep (db, mk_hmem c2 reg t2) b)) /\
      snd (hstep (db, mk_hmem c1 reg t1) b) = snd (hstep (db, mk_hmem c2 reg t2) b) /\
      m_chain (snd (fst (hstep (db, mk_hmem c1 reg t1) b))) = Some cid /\
      m_chain (snd (fst (hstep (db, mk_hmem c2 reg t2) b))) = Some cid.
  Proof.
    intros db reg t1 t2 c1 c2 b H1 H2 Hb.
    rewrite !hstep_ok by (unfold compat; simpl; assumption). simpl.
    destruct (exec_all db cid reg (b_txs b)) as [db' rs]. simpl. auto.
  Qed.

  (** the registry is a constant of construction: no step changes it *)
  Theorem registry_constant :
    forall db m b, m_reg (snd (fst (hstep (db, m) b))) = m_reg m.
  Proof.
    intros db m b. unfold hstep. destruct (m_chain m) as [c|].
    - destruct (c =? b_chain b)%Z; [|done]. by destruct (exec_all _ _ _ _).
    - by destruct (exec_all _ _ _ _).
  Qed.

  (** hence restarts are invisible, for all histories of blocks of this chain and all restart points *)
  Theorem haqq_restart_equiv :
    forall (Hash Q A : Type) (apphash : DB -> Hash) (height : DB -> Z)
           (query : DB * hmem -> Q -> A),
      (forall db m1 m2 q, hR m1 m2 -> query (db, m1) q = query (db, m2) q) ->
      forall qs db m (bs : list hblock) (rs : list bool),
        Forall (fun b => b_chain b = cid) bs -> hR m (hrebuild db) ->
        snd (run DB hmem hblock hres Hash Q A hrebuild hstep apphash height query qs (db, m) (schedule hblock rs bs))
        = snd (run DB hmem hblock hres Hash Q A hrebuild hstep apphash height query qs (db, m) (never hblock bs)).
  Proof.
    intros Hash Q A apphash height query Hq qs db m bs rs Hbs Hm.
    (* blocks of a foreign chain never occur: restrict the step to this chain's blocks *)
    set (step' := fun (n : DB * hmem) (b : hblock) => hstep n (mk_hblock cid (b_txs b))).
    assert (Hsame : forall sch n, Forall (fun rb : bool * hblock => b_chain (snd rb) = cid) sch ->
              run DB hmem hblock hres Hash Q A hrebuild hstep apphash height query qs n sch
              = run DB hmem hblock hres Hash Q A hrebuild step' apphash height query qs n sch).
    { induction sch as [|[r b] sch IH]; intros n Hf; simpl; [done|].
      inversion Hf as [|? ? Hb Hf']; subst. simpl in Hb.
      unfold step' at 1. destruct b as [c txs]. simpl in Hb. subst c. simpl.
      destruct (hstep _ _) as [n1 res]. rewrite IH by done. done. }
    assert (Fs : Forall (fun rb : bool * hblock => b_chain (snd rb) = cid) (schedule hblock rs bs)).
    { unfold schedule. apply Forall_forall. intros [r b] Hin. apply in_combine_r in Hin.
      rewrite Forall_forall in Hbs. by apply Hbs. }
    assert (Fn : Forall (fun rb : bool * hblock => b_chain (snd rb) = cid) (never hblock bs)).
    { unfold never. apply Forall_forall. intros [r b] Hin. apply in_map_iff in Hin as [b' [Heq Hin]].
      inversion Heq; subst. rewrite Forall_forall in Hbs. by apply Hbs. }
    rewrite (Hsame _ _ Fs), (Hsame _ _ Fn).
    apply (restart_equiv DB hmem hblock hres Hash Q A hrebuild step' apphash height query hR).
    - intros a b (H1 & H2 & H3). unfold hR. split; [congruence|split; assumption].
    - intros a b c (H1 & H2 & H3) (H4 & H5 & H6). unfold hR. split; [congruence|split; assumption].
    - intros db0 m1 m2 b (Hr & C1 & C2). unfold step'.
      rewrite !hstep_ok by (simpl; auto). rewrite Hr. simpl.
      destruct (exec_all db0 cid (m_reg m2) (b_txs b)) as [db' rs']. simpl.
      repeat split; auto; unfold compat; simpl; auto.
    - exact Hq.
    - intros db0 m0 b (Hr & C1 & C2). unfold step'.
      rewrite hstep_ok by (simpl; auto). simpl.
      destruct (exec_all db0 cid (m_reg m0) (b_txs b)) as [db' rs']. simpl.
      repeat split; auto; unfold compat; simpl; auto.
    - exact Hm.
  Qed.
End Haqq.

(** * Why AddEVMExtensions / RegisterERC20Extensions must stay unreachable
    A transaction that registers a precompile at run time writes the EVM
    parameters (database) AND the keeper's registry (memory).  After a restart
    the registry is the static one again while the parameters still list the
    new address as active: Keeper.Precompiles panics ("precompiled contract not
    initialized") on the restarted node and succeeds on the node that never stopped. *)
Inductive dtx := DCall (p : N) | DRegister (p : N).
Definition ddb := list N.                               (* EVM params: ActivePrecompiles *)
Record dmem := mk_dmem { d_reg : list N }.
Definition dstatic : list N := [2048; 2049]%N.
Definition drebuild (_ : ddb) : dmem := mk_dmem dstatic.
Definition mem_N (x : N) (l : list N) : bool := existsb (N.eqb x) l.
(** result codes: 1 = ran the precompile, 0 = plain call to a non-precompile address, 99 = panic *)
Definition dstep (n : ddb * dmem) (tx : dtx) : (ddb * dmem) * N :=
  let '(active, m) := n in
  match tx with
  | DCall p => if mem_N p active then (if mem_N p (d_reg m) then (n, 1%N) else (n, 99%N)) else (n, 0%N)
  | DRegister p => ((p :: active, mk_dmem (p :: d_reg m)), 1%N)
  end.

Theorem dynamic_registration_breaks_restart_refuted_in_model :
  let qs : list unit := [] in
  let go := run ddb dmem dtx N nat unit unit drebuild dstep (fun db => length db) (fun _ => 0%Z) (fun _ _ => tt) qs in
  let n0 : ddb * dmem := (dstatic, drebuild dstatic) in
  (* registered in block 1, called in block 2; restart between the two *)
  map (fun o => fst (fst o)) (snd (go n0 [(false, DRegister 4096%N); (false, DCall 4096%N)])) = [1%N; 1%N] /\
  map (fun o => fst (fst o)) (snd (go n0 [(false, DRegister 4096%N); (true, DCall 4096%N)])) = [1%N; 99%N] /\
  (* without dynamic registration the same schedule is invisible *)
  map (fun o => fst (fst o)) (snd (go n0 [(false, DCall 2048%N); (true, DCall 2048%N)])) = [1%N; 1%N].
Proof. vm_compute. repeat split; reflexivity. Qed.

(** non-vacuity of [haqq_restart_equiv]: a concrete chain whose transactions read
    the chain id and the registry; restarting before every block changes nothing *)
Example haqq_instance_nonvacuous :
  let exec := fun (db : Z) (c : Z) (reg : list N) (tx : Z) => ((db + tx * c + Z.of_nat (length reg))%Z, (db * tx)%Z) in
  let st := hstep Z Z Z exec (fun d => (d + 1)%Z) in
  let go := run Z hmem (hblock Z) (hres Z) Z unit Z (hrebuild Z [1; 2]%N) st (fun d => d) (fun d => d) (fun n _ => fst n) [tt] in
  let bs := [mk_hblock Z 11235 [3; 4]%Z; mk_hblock Z 11235 []; mk_hblock Z 11235 [5]%Z] in
  snd (go (7%Z, hrebuild Z [1; 2]%N 7%Z) (schedule (hblock Z) [true; true; true] bs))
  = snd (go (7%Z, hrebuild Z [1; 2]%N 7%Z) (never (hblock Z) bs)) /\
  length (snd (go (7%Z, hrebuild Z [1; 2]%N 7%Z) (never (hblock Z) bs))) = 3.
Proof. vm_compute. split; reflexivity. Qed.

(** * Persisted parameters: the database as key -> value, updates as writes
    The part of the database the start-up code and the gated code paths look at:
      key 1  x/evm ActivePrecompiles (addresses as numbers, in stored order)
      key 2  x/feemarket (NoBaseFee, BaseFeeChangeDenominator, ElasticityMultiplier, EnableHeight,
             MinGasPrice, MinGasMultiplier; decimals scaled by 10^18; the base fee itself is
             rewritten by every BeginBlock and is not part of the projection)
      key 3  x/evm ExtraEIPs          key 4  x/evm EnableCreate, EnableCall, AllowUnprotectedTxs
    A parameter update is what MsgUpdateParams does: validate, then write. *)
Definition kvdb := list (N * list Z).
Fixpoint kv_get (d : kvdb) (k : N) : list Z :=
  match d with
  | [] => []
  | (k', v) :: r => if (k' =? k)%N then v else kv_get r k
  end.
Fixpoint kv_put (k : N) (v : list Z) (d : kvdb) : kvdb :=
  match d with
  | [] => [(k, v)]
  | (k', v') :: r => if (k' =? k)%N then (k, v) :: r else (k', v') :: kv_put k v r
  end.

Definition K_ACTIVE : N := 1.
Definition K_FM : N := 2.
Definition K_EIPS : N := 3.
Definition K_FLAGS : N := 4.

Inductive pop :=
| PEvm (active eips flags : list Z)     (* x/evm MsgUpdateParams: the complete requested parameters, projected *)
| PFm (req : list Z).                   (* x/feemarket MsgUpdateParams: (nobase, denominator, elasticity, base fee, enable height, min gas price, min gas multiplier) *)

Fixpoint strictly_sorted (l : list Z) : bool :=
  match l with
  | a :: (b :: _) as r => (a <? b)%Z && strictly_sorted r
  | _ => true
  end.
Definition mem_Z (x : Z) (l : list Z) : bool := existsb (Z.eqb x) l.
Fixpoint nodup_Z (l : list Z) : bool :=
  match l with
  | [] => true
  | x :: r => negb (mem_Z x r) && nodup_Z r
  end.
Definition bool01 (x : Z) : bool := (x =? 0)%Z || (x =? 1)%Z.
Definition valid_eips : list Z := [1344; 1884; 2200; 2929; 3198; 3529; 3855]%Z.
(** Params.Validate of x/evm on the projected fields: ValidatePrecompiles (hex
    addresses, no duplicate, sorted - for lower-case hex of equal length the
    string order is the numeric order), validateEIPs (activateable, no duplicate) *)
Definition evm_valid (active eips flags : list Z) : bool :=
  strictly_sorted active && forallb (fun a => (0 <=? a)%Z && (a <? 2 ^ 160)%Z) active
  && forallb (fun e => mem_Z e valid_eips) eips && nodup_Z eips
  && (length flags =? 3)%nat && forallb bool01 flags.
(** Params.Validate of x/feemarket *)
Definition fm_valid (req : list Z) : bool :=
  match req with
  | [nb; den; el; base; en; mgp; mgm] =>
      bool01 nb && (0 <? den)%Z && (0 <=? el)%Z && (0 <=? base)%Z && (0 <=? en)%Z
      && (0 <=? mgp)%Z && (0 <=? mgm)%Z && (mgm <=? 10 ^ 18)%Z
  | _ => false
  end.
Definition fm_stored (req : list Z) : list Z :=
  match req with
  | [nb; den; el; base; en; mgp; mgm] => [nb; den; el; en; mgp; mgm]
  | _ => []
  end.

(** the handler: all-or-nothing *)
Definition pwrite (d : kvdb) (o : pop) : kvdb * bool :=
  match o with
  | PEvm a e f => if evm_valid a e f then (kv_put K_FLAGS f (kv_put K_EIPS e (kv_put K_ACTIVE a d)), true) else (d, false)
  | PFm r => if fm_valid r then (kv_put K_FM (fm_stored r) d, true) else (d, false)
  end.

Definition pproj := (list Z * list Z * list Z * list Z)%type.   (* active, fee market, eips, flags *)
Definition proj_of (d : kvdb) : pproj := (kv_get d K_ACTIVE, kv_get d K_FM, kv_get d K_EIPS, kv_get d K_FLAGS).
Definition db_of (p : pproj) : kvdb :=
  let '(a, f, e, fl) := p in kv_put K_FLAGS fl (kv_put K_EIPS e (kv_put K_FM f (kv_put K_ACTIVE a []))).

(** the Haqq node over this database: [hstep] with parameter updates as the
    transactions (they read neither the chain id nor the registry) *)
Definition pexec (d : kvdb) (_ : Z) (_ : list N) (o : pop) : kvdb * bool := pwrite d o.
Definition pstep : kvdb * hmem -> hblock pop -> (kvdb * hmem) * hres bool := hstep kvdb pop bool pexec (fun d => d).

(** * A once-per-process latch (the shape to exclude)
    memory holds a flag [initialised], cleared by a restart; the block step, when
    the flag is clear, first prunes from the stored active precompiles every
    address without implementation, and writes the result.  [lstep false] is the
    step without the latch.  Transactions: parameter updates, and EVM calls, which
    fail (99) as long as an active address has no implementation. *)
Record lmem := mk_lmem { initialised : bool }.
Definition lrebuild (_ : kvdb) : lmem := mk_lmem false.
Definition available : list Z := [256; 1024; 2048; 2049; 2050; 2052]%Z.
Definition prune (d : kvdb) : kvdb :=
  let a := kv_get d K_ACTIVE in
  let a' := List.filter (fun x => mem_Z x available) a in
  if (length a' =? length a)%nat then d else kv_put K_ACTIVE a' d.
Inductive ltx := LUpdate (o : pop) | LEvmTx.
Definition ltx_run (d : kvdb) (t : ltx) : kvdb * N :=
  match t with
  | LUpdate o => let '(d', ok) := pwrite d o in (d', if ok then 0%N else 1%N)
  | LEvmTx => (d, if forallb (fun x => mem_Z x available) (kv_get d K_ACTIVE) then 0%N else 99%N)
  end.
Definition lstep (latch : bool) (n : kvdb * lmem) (b : list ltx) : (kvdb * lmem) * list N :=
  let '(d, m) := n in
  let d0 := if latch && negb (initialised m) then prune d else d in
  let '(d1, rs) := fold_left (fun acc t => let '(d, rs) := acc in let '(d', r) := ltx_run d t in (d', rs ++ [r])) b (d0, []) in
  ((d1, mk_lmem true), rs).

(** * A once-per-process cost that leaks into results (known finding K16)
    baseapp reports, for a transaction that fails before the ante handler, the
    gas its BLOCK context has accumulated so far - the store reads of the begin
    blockers - and adds it to the block gas meter; x/upgrade's and x/capability's
    begin blockers do extra reads exactly once per process ([downgrade_verified],
    the capability memory store).  x/feemarket stores
    max(limited gas wanted, block gas meter) at EndBlock. *)
Record gmem := mk_gmem { downgrade_verified : bool }.
Definition grebuild (_ : Z) : gmem := mk_gmem false.
Inductive gtx := GFailBeforeAnte | GOk (wanted used : Z).
Definition begin_cost (m : gmem) : Z := if downgrade_verified m then 77465%Z else 105308%Z.
(** database = the stored block gas; result per tx = gas used *)
Definition gstep_with (cost : gmem -> Z) (n : Z * gmem) (b : list gtx) : (Z * gmem) * list Z :=
  let '(_, m) := n in
  let c := cost m in
  let '(meter, wanted, rs) :=
    fold_left (fun acc t => let '(meter, wanted, rs) := acc in
                 match t with
                 | GFailBeforeAnte => ((meter + c)%Z, wanted, rs ++ [c])
                 | GOk w u => ((meter + u)%Z, (wanted + w)%Z, rs ++ [u])
                 end) b (0%Z, 0%Z, []) in
  ((Z.max (wanted / 2) meter, mk_gmem true), rs).
Definition gstep := gstep_with begin_cost.
(** the repair: the begin blockers run on a private gas meter, the block
    context's own meter holds only what baseapp itself reads before the
    transaction (the consensus parameters), whatever the process did before *)
Definition gstep_fixed := gstep_with (fun _ => 3000%Z).

(** * Correspondence with the real keeper fields and the stored parameters
    The driver records, for every application instance of every lineage
    (continuous node, nodes restarted on various schedules, nodes opened on a
    copy of the database): the chain id cached in the EVM keeper when the
    instance was constructed, the projection of the parameters it found in the
    database, and per executed block: the cached chain id before and after, the
    keeper's registry after the block, the parameter updates that reached a
    handler (in order) and the projection of the stored parameters after the
    block.  The model predicts all of them with [pstep]. *)
Definition blockrec := (option Z * option Z * list N * list pop * pproj)%type.
Definition mem_case := (Z * list N * list (option Z * pproj * list blockrec))%type.

Definition list_Z_eqb (a b : list Z) : bool := if list_eq_dec Z.eq_dec a b then true else false.
Definition pproj_eqb (p q : pproj) : bool :=
  let '(a1, f1, e1, g1) := p in let '(a2, f2, e2, g2) := q in
  list_Z_eqb a1 a2 && list_Z_eqb f1 f2 && list_Z_eqb e1 e2 && list_Z_eqb g1 g2.

Fixpoint mem_trace_ok (cid : Z) (n : kvdb * hmem) (tr : list blockrec) : bool :=
  match tr with
  | [] => true
  | (before, after, reg, ops, pj) :: tr' =>
      let n' := fst (pstep n (mk_hblock pop cid ops)) in
      match before, m_chain (snd n) with
      | None, None => true
      | Some x, Some y => (x =? y)%Z
      | _, _ => false
      end
      && match after, m_chain (snd n') with
         | Some x, Some y => (x =? y)%Z
         | _, _ => false
         end
      && (if list_eq_dec N.eq_dec reg (m_reg (snd n')) then true else false)
      && pproj_eqb (proj_of (fst n')) pj
      && mem_trace_ok cid n' tr'
  end.

Definition mem_case_ok (c : mem_case) : bool :=
  let '(cid, static, lins) := c in
  forallb (fun l : option Z * pproj * list blockrec =>
             let '(start, pj0, tr) := l in
             mem_trace_ok cid (db_of pj0, mk_hmem start static 0) tr) lins.

Fixpoint mem_mismatches_from (i : nat) (cs : list mem_case) : list nat :=
  match cs with
  | [] => []
  | c :: r => if mem_case_ok c then mem_mismatches_from (S i) r else i :: mem_mismatches_from (S i) r
  end.
Definition mem_mismatches (cs : list mem_case) : list nat := mem_mismatches_from 0 cs.

(** * Theorems about the persisted parameters *)
Lemma kv_get_put_eq k v d : kv_get (kv_put k v d) k = v.
Proof.
  induction d as [|[k' v'] r IH]; simpl.
  - by rewrite N.eqb_refl.
  - destruct (k' =? k)%N eqn:E; simpl; [by rewrite N.eqb_refl|]. by rewrite E.
Qed.

Lemma kv_get_put_ne k k' v d : k <> k' -> kv_get (kv_put k v d) k' = kv_get d k'.
Proof.
  intros Hne. induction d as [|[k0 v0] r IH]; simpl.
  - destruct (k =? k')%N eqn:E; [apply N.eqb_eq in E; contradiction|done].
  - destruct (k0 =? k)%N eqn:E; simpl.
    + apply N.eqb_eq in E. subst k0.
      destruct (k =? k')%N eqn:E2; [apply N.eqb_eq in E2; contradiction|done].
    + destruct (k0 =? k')%N; [done|exact IH].
Qed.

(** a write to the database commutes with a restart exactly when the memory
    rebuilt on start does not depend on the written key *)
Definition put_node {Mem : Type} (k : N) (v : list Z) (n : kvdb * Mem) : kvdb * Mem := (kv_put k v (fst n), snd n).
Definition rebuild_reads_only {Mem : Type} (rebuild : kvdb -> Mem) (reads : N -> Prop) : Prop :=
  forall d d', (forall k, reads k -> kv_get d k = kv_get d' k) -> rebuild d = rebuild d'.

Theorem kv_write_commutes_with_restart :
  forall (Mem : Type) (rebuild : kvdb -> Mem) (reads : N -> Prop),
    rebuild_reads_only rebuild reads ->
    forall k v (n : kvdb * Mem), ~ reads k ->
      restart kvdb Mem rebuild (put_node k v n) = put_node k v (restart kvdb Mem rebuild n).
Proof.
  intros Mem rebuild reads Hr k v [d m] Hk. unfold restart, put_node. simpl. f_equal.
  apply Hr. intros k' Hk'. apply kv_get_put_ne. intros ->. contradiction.
Qed.

(** a parameter update (validate, then write keys 1-4) commutes with a restart
    whenever start-up does not read the parameters *)
Definition update_node {Mem : Type} (o : pop) (n : kvdb * Mem) : kvdb * Mem := (fst (pwrite (fst n) o), snd n).
Definition is_param_key (k : N) : Prop := k = K_ACTIVE \/ k = K_FM \/ k = K_EIPS \/ k = K_FLAGS.

Theorem param_update_commutes_with_restart :
  forall (Mem : Type) (rebuild : kvdb -> Mem) (reads : N -> Prop),
    rebuild_reads_only rebuild reads -> (forall k, reads k -> ~ is_param_key k) ->
    forall (o : pop) (n : kvdb * Mem),
      restart kvdb Mem rebuild (update_node o n) = update_node o (restart kvdb Mem rebuild n).
Proof.
  intros Mem rebuild reads Hr Hk o [d m]. unfold restart, update_node. simpl. f_equal.
  apply Hr. intros k Hrk. pose proof (Hk k Hrk) as Hn. unfold is_param_key in Hn.
  destruct o as [a e f|r]; simpl.
  - destruct (evm_valid a e f); simpl; [|done].
    rewrite !kv_get_put_ne; [done|intros <-; tauto..].
  - destruct (fm_valid r); simpl; [|done].
    rewrite kv_get_put_ne; [done|intros <-; tauto].
Qed.

(** Haqq: the memory built by app.NewHaqq does not read the database at all *)
Theorem haqq_param_update_commutes_with_restart :
  forall (static : list N) (o : pop) (n : kvdb * hmem),
    restart kvdb hmem (hrebuild kvdb static) (update_node o n)
    = update_node o (restart kvdb hmem (hrebuild kvdb static) n).
Proof.
  intros static o n.
  apply (param_update_commutes_with_restart hmem (hrebuild kvdb static) (fun _ => False)).
  - intros d d' _. reflexivity.
  - intros k [].
Qed.

(** a whole block of parameter updates: executing it after a restart, or
    restarting after it, gives the same database and results, and memories
    that no later step can tell apart *)
Theorem param_block_commutes_with_restart :
  forall (static : list N) (cid : Z) (d : kvdb) (m : hmem) (ops : list pop),
    hR cid m (hrebuild kvdb static d) ->
    let b := mk_hblock pop cid ops in
    let rs := restart kvdb hmem (hrebuild kvdb static) in
    fst (fst (pstep (rs (d, m)) b)) = fst (rs (fst (pstep (d, m) b))) /\
    snd (pstep (rs (d, m)) b) = snd (pstep (d, m) b) /\
    hR cid (snd (fst (pstep (rs (d, m)) b))) (snd (rs (fst (pstep (d, m) b)))).
Proof.
  intros static cid d m ops (Hreg & Hc & Hc') b rs. unfold rs, restart, pstep. cbn [fst snd].
  rewrite (hstep_ok kvdb pop bool pexec (fun x => x) cid d m b Hc eq_refl).
  rewrite (hstep_ok kvdb pop bool pexec (fun x => x) cid d (hrebuild kvdb static d) b) by (unfold compat; simpl; auto).
  simpl in Hreg. rewrite Hreg. simpl.
  destruct (exec_all kvdb pop bool pexec d cid static ops) as [d' rs']. simpl.
  repeat split; unfold compat; simpl; auto.
Qed.

(** restarts are invisible on the parameters: all histories of parameter
    updates, all restart points, the stored value of every key after every block *)
Theorem params_node_restart_equiv :
  forall (static : list N) (cid : Z) (qs : list N) (d : kvdb) (m : hmem) (bs : list (hblock pop)) (rs : list bool),
    Forall (fun b => b_chain pop b = cid) bs -> hR cid m (hrebuild kvdb static d) ->
    let go := run kvdb hmem (hblock pop) (hres bool) kvdb N (list Z) (hrebuild kvdb static) pstep
                  (fun x => x) (fun _ => 0%Z) (fun n k => kv_get (fst n) k) qs in
    snd (go (d, m) (schedule (hblock pop) rs bs)) = snd (go (d, m) (never (hblock pop) bs)).
Proof.
  intros static cid qs d m bs rs Hb Hm go. unfold go, pstep.
  apply (haqq_restart_equiv kvdb pop bool pexec (fun x => x) static cid kvdb N (list Z)); auto.
Qed.

(** * The latch: refutation and impossibility *)
Definition lrun (latch : bool) :=
  run kvdb lmem (list ltx) (list N) kvdb N (list Z) lrebuild (lstep latch)
      (fun d => d) (fun _ => 0%Z) (fun n k => kv_get (fst n) k) [K_ACTIVE].
Definition genesis_pproj : pproj := (available, [0; 8; 2; 0; 0; 500000000000000000]%Z, [3855]%Z, [1; 1; 0]%Z).
Definition with_0x803 : list Z := [256; 1024; 2048; 2049; 2050; 2051; 2052]%Z.
Definition witness_b1 : list ltx := [LUpdate (PEvm with_0x803 [3855]%Z [1; 1; 0]%Z)].
Definition witness_b2 : list ltx := [LEvmTx].
Definition results_and_active (os : list (list N * (Z * kvdb) * list (list Z))) : list (list N * list (list Z)) :=
  map (fun o => (fst (fst o), snd o)) os.

(** block 1 activates the unimplemented precompile 0x..0803, block 2 carries one
    EVM transaction.  The node that never stopped fails the transaction (99) and
    keeps the address; the node restarted between the two blocks prunes it,
    executes the transaction (0) and ends with another database. *)
Example latch_breaks_restart_refuted :
  let n0 : kvdb * lmem := (db_of genesis_pproj, mk_lmem true) in
  results_and_active (snd (lrun true n0 [(false, witness_b1); (false, witness_b2)]))
    = [([0%N], [with_0x803]); ([99%N], [with_0x803])] /\
  results_and_active (snd (lrun true n0 [(false, witness_b1); (true, witness_b2)]))
    = [([0%N], [with_0x803]); ([0%N], [available])] /\
  fst (fst (lrun true n0 [(false, witness_b1); (false, witness_b2)]))
    <> fst (fst (lrun true n0 [(false, witness_b1); (true, witness_b2)])) /\
  (* the same history without the latch: the restart is invisible *)
  snd (lrun false n0 [(false, witness_b1); (true, witness_b2)]) = snd (lrun false n0 [(false, witness_b1); (false, witness_b2)]).
Proof. vm_compute. repeat split; try reflexivity. discriminate. Qed.

(** the latch violates the obligation on the part of memory it reads ... *)
Theorem latch_violates_mem_is_function_of_db :
  ~ mem_is_function_of_db lrebuild (lstep true) (observable_part initialised).
Proof.
  intros H. specialize (H [] (mk_lmem false) [] eq_refl). vm_compute in H. discriminate.
Qed.

(** ... and no choice of "observable part" repairs it: under every relation
    through which this step reads memory, the obligation fails *)
Theorem latch_admits_no_relation :
  forall R : lmem -> lmem -> Prop,
    reads_mem_through (lstep true) R ->
    R (mk_lmem false) (mk_lmem false) ->
    ~ mem_is_function_of_db lrebuild (lstep true) R.
Proof.
  intros R Hr H0 Hi.
  set (dw := kv_put K_ACTIVE with_0x803 []).
  pose proof (Hi dw (mk_lmem false) [] H0) as H1.
  assert (E : snd (fst (lstep true (dw, mk_lmem false) [])) = mk_lmem true) by reflexivity.
  rewrite E in H1. unfold lrebuild in H1.
  destruct (Hr dw (mk_lmem true) (mk_lmem false) [] H1) as (Hd & _).
  vm_compute in Hd. discriminate.
Qed.

(** the step without the latch does not read memory: the obligation holds with
    the empty observable part, hence restarts are invisible for all histories *)
Theorem unlatched_step_satisfies_obligation :
  reads_mem_through (lstep false) (fun _ _ => True) /\
  mem_is_function_of_db lrebuild (lstep false) (fun _ _ => True).
Proof.
  split; [|intros d m b _; exact I].
  intros d m1 m2 b _. unfold lstep. simpl.
  destruct (fold_left _ b (d, [])) as [d1 rs]. simpl. auto.
Qed.

Theorem unlatched_restart_equiv :
  forall qs d m (bs : list (list ltx)) (rs : list bool),
    let go := run kvdb lmem (list ltx) (list N) kvdb N (list Z) lrebuild (lstep false)
                  (fun x => x) (fun _ => 0%Z) (fun n k => kv_get (fst n) k) qs in
    snd (go (d, m) (schedule (list ltx) rs bs)) = snd (go (d, m) (never (list ltx) bs)).
Proof.
  intros qs d m bs rs go. unfold go.
  destruct unlatched_step_satisfies_obligation as [Hr Hi].
  apply (restart_equiv kvdb lmem (list ltx) (list N) kvdb N (list Z) lrebuild (lstep false)
           (fun x => x) (fun _ => 0%Z) (fun n k => kv_get (fst n) k) (fun _ _ => True)); auto.
Qed.

(** * K16: the once-per-process begin-block cost leaks into results *)
Definition grun :=
  run Z gmem (list gtx) (list Z) Z unit unit grebuild gstep (fun d => d) (fun _ => 0%Z) (fun _ _ => tt) [].

(** [any block]; [a transaction that fails before the ante handler]: the node
    that never stopped reports 77465 gas and stores it as the block gas; the node
    restarted between the blocks reports and stores 105308.  With a transaction
    whose limited gas wanted dominates the block meter only the reported gas differs. *)
Example preante_gas_leak_breaks_restart_refuted :
  let n0 : Z * gmem := (0%Z, mk_gmem true) in
  map (fun o => (fst (fst o), snd (snd (fst o)))) (snd (grun n0 [(false, []); (false, [GFailBeforeAnte])]))
    = [([], 0%Z); ([77465%Z], 77465%Z)] /\
  map (fun o => (fst (fst o), snd (snd (fst o)))) (snd (grun n0 [(false, []); (true, [GFailBeforeAnte])]))
    = [([], 0%Z); ([105308%Z], 105308%Z)] /\
  map (fun o => (fst (fst o), snd (snd (fst o)))) (snd (grun n0 [(false, []); (false, [GOk 1000000 21000; GFailBeforeAnte])]))
    = [([], 0%Z); ([21000%Z; 77465%Z], 500000%Z)] /\
  map (fun o => (fst (fst o), snd (snd (fst o)))) (snd (grun n0 [(false, []); (true, [GOk 1000000 21000; GFailBeforeAnte])]))
    = [([], 0%Z); ([21000%Z; 105308%Z], 500000%Z)].
Proof. vm_compute. repeat split; reflexivity. Qed.

Theorem gas_latch_admits_no_relation :
  forall R : gmem -> gmem -> Prop,
    reads_mem_through gstep R ->
    R (mk_gmem false) (mk_gmem false) ->
    ~ mem_is_function_of_db grebuild gstep R.
Proof.
  intros R Hr H0 Hi.
  pose proof (Hi 0%Z (mk_gmem false) [] H0) as H1.
  assert (E : snd (fst (gstep (0%Z, mk_gmem false) [])) = mk_gmem true) by reflexivity.
  rewrite E in H1. unfold grebuild in H1.
  destruct (Hr 0%Z (mk_gmem true) (mk_gmem false) [GFailBeforeAnte] H1) as (Hd & _).
  vm_compute in Hd. discriminate.
Qed.

(** non-vacuity of [params_node_restart_equiv] and of the correspondence check:
    the witness history on the faithful model - the restarted node keeps 0x..0803 *)
Example params_node_nonvacuous :
  let static := [256; 1024; 2048; 2049; 2050; 2052]%N in
  let go := run kvdb hmem (hblock pop) (hres bool) kvdb N (list Z) (hrebuild kvdb static) pstep
                (fun x => x) (fun _ => 0%Z) (fun n k => kv_get (fst n) k) [K_ACTIVE] in
  let bs := [mk_hblock pop 11235 [PEvm with_0x803 [3855]%Z [1; 1; 0]%Z]; mk_hblock pop 11235 []; mk_hblock pop 11235 [PFm [0; 0; 2; 7; 0; 0; 0]%Z]] in
  let n0 := (db_of genesis_pproj, hrebuild kvdb static (db_of genesis_pproj)) in
  snd (go n0 (schedule (hblock pop) [false; true; true] bs)) = snd (go n0 (never (hblock pop) bs)) /\
  map snd (snd (go n0 (never (hblock pop) bs))) = [[with_0x803]; [with_0x803]; [with_0x803]] /\
  map (fun o => fst (fst o)) (snd (go n0 (never (hblock pop) bs))) = [Done bool [true]; Done bool []; Done bool [false]].
Proof. vm_compute. repeat split; reflexivity. Qed.

(** the repaired step does not read memory: restarts are invisible again, for
    all histories (transactions failing before the ante handler included) *)
Theorem preante_gas_fixed_restart_equiv :
  forall d m (bs : list (list gtx)) (rs : list bool),
    let go := run Z gmem (list gtx) (list Z) Z unit unit grebuild gstep_fixed (fun x => x) (fun _ => 0%Z) (fun _ _ => tt) [] in
    snd (go (d, m) (schedule (list gtx) rs bs)) = snd (go (d, m) (never (list gtx) bs)) /\
    fst (fst (go (d, m) (schedule (list gtx) rs bs))) = fst (fst (go (d, m) (never (list gtx) bs))).
Proof.
  intros d m bs rs go. unfold go.
  apply (restart_equiv Z gmem (list gtx) (list Z) Z unit unit grebuild gstep_fixed
           (fun x => x) (fun _ => 0%Z) (fun _ _ => tt) (fun _ _ => True)); auto.
Qed.

Example preante_gas_fixed_nonvacuous :
  let go := run Z gmem (list gtx) (list Z) Z unit unit grebuild gstep_fixed (fun x => x) (fun _ => 0%Z) (fun _ _ => tt) [] in
  map (fun o => (fst (fst o), snd (snd (fst o)))) (snd (go (0%Z, mk_gmem true) [(false, []); (true, [GFailBeforeAnte])]))
    = [([], 0%Z); ([3000%Z], 3000%Z)] /\
  map (fun o => (fst (fst o), snd (snd (fst o)))) (snd (go (0%Z, mk_gmem true) [(false, []); (false, [GFailBeforeAnte])]))
    = [([], 0%Z); ([3000%Z], 3000%Z)].
Proof. vm_compute. split; reflexivity. Qed.
