(** Property C20 — restarting a node at a block boundary changes nothing.

    A node is (db, mem): the database and the in-memory state of the process.
    Stopping and restarting replaces mem by [rebuild db].  The general theorem
    [restart_equiv] says: if the steps respect a relation R on memories ("agree
    on every field a step reads") and every step keeps mem R-related to
    [rebuild db], then for every history and every set of restart points the
    block results, app hashes, start-up reports and query answers coincide with
    those of the node that never stopped.

    In-memory state constructed by app.NewHaqq and the keepers (what [mem] stands for):

    | field                                   | where set                                   | derived from db / constant / other          |
    |-----------------------------------------|---------------------------------------------|---------------------------------------------|
    | evm Keeper.eip155ChainID                | WithChainID: InitGenesis, every BeginBlock  | re-derived from the block header's chain id before any DeliverTx of the block; nil between start and the first BeginBlock ([chainid_initial_irrelevant]) |
    | evm Keeper.precompiles (registry)       | WithPrecompiles in NewHaqq (panics if set twice); AddEVMExtensions | constant of construction; AddEVMExtensions / RegisterERC20Extensions have no non-test caller (asserted by the driver) — if they were reachable: [dynamic_registration_breaks_restart_refuted_in_model] |
    | evm Keeper.hooks, epochs Keeper.hooks   | SetHooks in NewHaqq                         | constant of construction                    |
    | evm Keeper.tracer, ante MaxTxGasWanted, baseapp minGasPrices, invCheckPeriod, skipUpgradeHeights | app options / node config | node-local configuration, identical for both nodes of the comparison; not consensus input |
    | keepers, store keys, codecs, module manager, configurator, msg/query routers, IBC router, ante/post handler, upgrade handlers (hold a *copy* of the evm keeper taken at construction: its chain id is nil on every node) | NewHaqq | constants of construction |
    | upgrade Keeper.downgradeVerified        | first BeginBlock after start                | a check against the db (panics on a wrong binary), no effect on results |
    | capability Keeper memstore + capMap     | InitMemStore in the first BeginBlock        | rebuilt from the persistent capability store (SDK) |
    | baseapp deliverState / checkState       | BeginBlock / Commit; Init() after load      | deliverState rebuilt from db at BeginBlock; checkState header is EMPTY between start and the first Commit (the driver reports what depends on it) |
    | transient stores (evm, feemarket, params)| reset at Commit                             | empty at every block boundary on both nodes |
    | tpsCounter                              | DeliverTx increments, goroutine logs        | never read by the state machine             |
    | upgrade-info.json under the node home   | written by the upgrade module before a halt | on disk but outside the database: part of what a restart keeps |

    This file: executable definitions and the theorems (the model is small). *)
From Coq Require Import ZArith NArith List Bool Lia.
From stdpp Require Import base tactics.
Import ListNotations.

Section Restart.
  Variables DB Mem Block Result Hash Q A : Type.
  Variable rebuild : DB -> Mem.
  Variable step : DB * Mem -> Block -> (DB * Mem) * Result.
  Variable apphash : DB -> Hash.
  Variable height : DB -> Z.
  Variable query : DB * Mem -> Q -> A.

  Definition node := (DB * Mem)%type.
  Definition restart (n : node) : node := (fst n, rebuild (fst n)).
  (** what a node reports on start-up / at any time: last height and app hash *)
  Definition info (n : node) : Z * Hash := (height (fst n), apphash (fst n)).

  (** one observation per block: result, app hash after the block, Info, answers to a list of queries *)
  Definition obs := (Result * (Z * Hash) * list A)%type.

  (** run a history; [rs] says, per block, whether the process is stopped and
      restarted at the boundary before that block; [qs] are asked after every block *)
  Fixpoint run (qs : list Q) (n : node) (bs : list (bool * Block)) : node * list obs :=
    match bs with
    | [] => (n, [])
    | (r, b) :: bs' =>
        let n0 := if r then restart n else n in
        let '(n1, res) := step n0 b in
        let '(nf, os) := run qs n1 bs' in
        (nf, (res, info n1, map (query n1) qs) :: os)
    end.

  Definition never (bs : list Block) : list (bool * Block) := map (fun b => (false, b)) bs.
  Definition schedule (rs : list bool) (bs : list Block) : list (bool * Block) :=
    combine (rs ++ repeat false (length bs - length rs)) bs.

  (** R m1 m2: the two memories agree on every field a step or a query reads *)
  Variable R : Mem -> Mem -> Prop.
  Hypothesis R_sym : forall a b, R a b -> R b a.
  Hypothesis R_trans : forall a b c, R a b -> R b c -> R a c.
  (** steps and queries read memory only through R *)
  Hypothesis step_respects : forall db m1 m2 b, R m1 m2 ->
    fst (fst (step (db, m1) b)) = fst (fst (step (db, m2) b)) /\
    snd (step (db, m1) b) = snd (step (db, m2) b) /\
    R (snd (fst (step (db, m1) b))) (snd (fst (step (db, m2) b))).
  Hypothesis query_respects : forall db m1 m2 q, R m1 m2 -> query (db, m1) q = query (db, m2) q.
  (** every step keeps the memory equivalent to what a restart would rebuild *)
  Hypothesis step_preserves : forall db m b, R m (rebuild db) ->
    R (snd (fst (step (db, m) b))) (rebuild (fst (fst (step (db, m) b)))).

  Lemma run_related qs db m1 m2 bs1 bs2 :
    R m1 (rebuild db) -> R m2 (rebuild db) -> map snd bs1 = map snd bs2 ->
    snd (run qs (db, m1) bs1) = snd (run qs (db, m2) bs2) /\
    fst (fst (run qs (db, m1) bs1)) = fst (fst (run qs (db, m2) bs2)).
  Proof.
    revert db m1 m2 bs2. induction bs1 as [|[r1 b1] bs1 IH]; intros db m1 m2 bs2 H1 H2 Hb.
    - destruct bs2; [done|discriminate].
    - destruct bs2 as [|[r2 b2] bs2]; [discriminate|]. simpl in Hb. injection Hb as Hb1 Hbt. subst b2.
      simpl.
      set (n1 := if r1 then restart (db, m1) else (db, m1)).
      set (n2 := if r2 then restart (db, m2) else (db, m2)).
      assert (Hrr : R (rebuild db) (rebuild db)) by (eapply R_trans; [apply R_sym; exact H1|exact H1]).
      assert (E1 : exists m1', n1 = (db, m1') /\ R m1' (rebuild db)).
      { destruct r1; [exists (rebuild db)|exists m1]; auto. }
      assert (E2 : exists m2', n2 = (db, m2') /\ R m2' (rebuild db)).
      { destruct r2; [exists (rebuild db)|exists m2]; auto. }
      destruct E1 as (m1' & -> & G1). destruct E2 as (m2' & -> & G2).
      assert (G : R m1' m2') by (eapply R_trans; [exact G1|apply R_sym; exact G2]).
      destruct (step_respects db m1' m2' b1 G) as (Edb & Eres & Emem).
      pose proof (step_preserves db m1' b1 G1) as P1.
      pose proof (step_preserves db m2' b1 G2) as P2.
      destruct (step (db, m1') b1) as [[db1 ma] res1] eqn:S1.
      destruct (step (db, m2') b1) as [[db2 mb] res2] eqn:S2.
      simpl in *. subst db2 res2.
      specialize (IH db1 ma mb bs2 P1 P2 Hbt).
      destruct (run qs (db1, ma) bs1) as [nf1 os1] eqn:Ra.
      destruct (run qs (db1, mb) bs2) as [nf2 os2] eqn:Rb.
      simpl in *. destruct IH as [IHo IHd]. split; [|exact IHd].
      f_equal; [|exact IHo]. f_equal.
      apply map_ext. intros q. apply query_respects. exact Emem.
  Qed.

  (** the theorem: any restart schedule is indistinguishable from none — block
      results, app hashes, Info and query answers after every block, final database *)
  Theorem restart_equiv :
    forall qs db m (bs : list Block) (rs : list bool),
      R m (rebuild db) ->
      snd (run qs (db, m) (schedule rs bs)) = snd (run qs (db, m) (never bs)) /\
      fst (fst (run qs (db, m) (schedule rs bs))) = fst (fst (run qs (db, m) (never bs))).
  Proof.
    intros qs db m bs rs H. apply run_related; [exact H|exact H|].
    unfold schedule, never. rewrite map_map. simpl. rewrite map_id.
    assert (forall (l : list bool) (k : list Block), length k <= length l -> map snd (combine l k) = k) as Hc.
    { intros l k. revert l. induction k as [|x k IHk]; intros l Hl; destruct l; simpl in *; try lia; [done|done|].
      f_equal. apply IHk. lia. }
    apply Hc. rewrite app_length, repeat_length. lia.
  Qed.

  (** start-up report and queries right after a restart *)
  Theorem restart_info : forall n, info (restart n) = info n.
  Proof. reflexivity. Qed.
  Theorem restart_query : forall db m q, R m (rebuild db) -> query (restart (db, m)) q = query (db, m) q.
  Proof. intros db m q H. unfold restart; simpl. apply query_respects, R_sym, H. Qed.
End Restart.

(** * The Haqq node: chain id cache, precompile registry, tps counter *)
Section Haqq.
  Variables DB Tx Res : Type.
  (** executing a transaction reads the database, the EIP-155 chain id held by
      the EVM keeper and the keeper's precompile registry *)
  Variable exec : DB -> Z -> list N -> Tx -> DB * Res.
  Variable end_commit : DB -> DB.            (* EndBlock + Commit *)
  Variable static_registry : list N.         (* AvailablePrecompiles(...) built in NewHaqq *)
  Variable cid : Z.                          (* the chain's id: every block header carries it (baseapp checks) *)

  Record hmem := mk_hmem { m_chain : option Z; m_reg : list N; m_tps : nat }.
  Record hblock := mk_hblock { b_chain : Z; b_txs : list Tx }.
  Inductive hres := Panic | Done (rs : list Res).

  Definition hrebuild (_ : DB) : hmem := mk_hmem None static_registry 0.

  Definition exec_all (db : DB) (c : Z) (reg : list N) (txs : list Tx) : DB * list Res :=
    fold_left (fun acc tx => let '(d, rs) := acc in let '(d', r) := exec d c reg tx in (d', rs ++ [r])) txs (db, []).

  (** BeginBlock: WithChainID (panics when a different id is cached); then the
      transactions; DeliverTx bumps the tps counter; EndBlock + Commit *)
  Definition hstep (n : DB * hmem) (b : hblock) : (DB * hmem) * hres :=
    let '(db, m) := n in
    match m_chain m with
    | Some c => if (c =? b_chain b)%Z then
                  let '(db', rs) := exec_all db (b_chain b) (m_reg m) (b_txs b) in
                  ((end_commit db', mk_hmem (Some (b_chain b)) (m_reg m) (m_tps m + length (b_txs b))), Done rs)
                else ((db, m), Panic)
    | None => let '(db', rs) := exec_all db (b_chain b) (m_reg m) (b_txs b) in
              ((end_commit db', mk_hmem (Some (b_chain b)) (m_reg m) (m_tps m + length (b_txs b))), Done rs)
    end.

  Definition compat (m : hmem) : Prop := m_chain m = None \/ m_chain m = Some cid.
  (** agree on the registry; the cached chain id is absent or the chain's; the tps counter is free *)
  Definition hR (m1 m2 : hmem) : Prop := m_reg m1 = m_reg m2 /\ compat m1 /\ compat m2.

  Lemma hstep_ok db m b :
    compat m -> b_chain b = cid ->
    hstep (db, m) b =
      (let '(db', rs) := exec_all db cid (m_reg m) (b_txs b) in
       ((end_commit db', mk_hmem (Some cid) (m_reg m) (m_tps m + length (b_txs b))), Done rs)).
  Proof.
    intros [Hc|Hc] Hb; unfold hstep; rewrite Hc, Hb; [done|]. by rewrite Z.eqb_refl.
  Qed.

  (** the chain id cached before the block is irrelevant: it is overwritten by
      BeginBlock before any transaction reads it *)
  Theorem chainid_initial_irrelevant :
    forall db reg t1 t2 c1 c2 b,
      (c1 = None \/ c1 = Some cid) -> (c2 = None \/ c2 = Some cid) -> b_chain b = cid ->
      fst (fst (hstep (db, mk_hmem c1 reg t1) b)) = fst (fst (hstep (db, mk_hmem c2 reg t2) b)) /\
      snd (hstep (db, mk_hmem c1 reg t1) b) = snd (hstep (db, mk_hmem c2 reg t2) b) /\
      m_chain (snd (fst (hstep (db, mk_hmem c1 reg t1) b))) = Some cid /\
      m_chain (snd (fst (hstep (db, mk_hmem c2 reg t2) b))) = Some cid.
  Proof.
    intros db reg t1 t2 c1 c2 b H1 H2 Hb.
    rewrite !hstep_ok by (unfold compat; simpl; assumption). simpl.
    destruct (exec_all db cid reg (b_txs b)) as [db' rs]. simpl. auto.
  Qed.

  (** the registry is a constant of construction: no step changes it *)
  Theorem registry_constant :
    forall db m b, m_reg (snd (fst (hstep (db, m) b))) = m_reg m.
  Proof.
    intros db m b. unfold hstep. destruct (m_chain m) as [c|].
    - destruct (c =? b_chain b)%Z; [|done]. by destruct (exec_all _ _ _ _).
    - by destruct (exec_all _ _ _ _).
  Qed.

  (** hence restarts are invisible, for all histories of blocks of this chain and all restart points *)
  Theorem haqq_restart_equiv :
    forall (Hash Q A : Type) (apphash : DB -> Hash) (height : DB -> Z)
           (query : DB * hmem -> Q -> A),
      (forall db m1 m2 q, hR m1 m2 -> query (db, m1) q = query (db, m2) q) ->
      forall qs db m (bs : list hblock) (rs : list bool),
        Forall (fun b => b_chain b = cid) bs -> hR m (hrebuild db) ->
        snd (run DB hmem hblock hres Hash Q A hrebuild hstep apphash height query qs (db, m) (schedule hblock rs bs))
        = snd (run DB hmem hblock hres Hash Q A hrebuild hstep apphash height query qs (db, m) (never hblock bs)).
  Proof.
    intros Hash Q A apphash height query Hq qs db m bs rs Hbs Hm.
    (* blocks of a foreign chain never occur: restrict the step to this chain's blocks *)
    set (step' := fun (n : DB * hmem) (b : hblock) => hstep n (mk_hblock cid (b_txs b))).
    assert (Hsame : forall sch n, Forall (fun rb : bool * hblock => b_chain (snd rb) = cid) sch ->
              run DB hmem hblock hres Hash Q A hrebuild hstep apphash height query qs n sch
              = run DB hmem hblock hres Hash Q A hrebuild step' apphash height query qs n sch).
    { induction sch as [|[r b] sch IH]; intros n Hf; simpl; [done|].
      inversion Hf as [|? ? Hb Hf']; subst. simpl in Hb.
      unfold step' at 1. destruct b as [c txs]. simpl in Hb. subst c. simpl.
      destruct (hstep _ _) as [n1 res]. rewrite IH by done. done. }
    assert (Fs : Forall (fun rb : bool * hblock => b_chain (snd rb) = cid) (schedule hblock rs bs)).
    { unfold schedule. apply Forall_forall. intros [r b] Hin. apply in_combine_r in Hin.
      rewrite Forall_forall in Hbs. by apply Hbs. }
    assert (Fn : Forall (fun rb : bool * hblock => b_chain (snd rb) = cid) (never hblock bs)).
    { unfold never. apply Forall_forall. intros [r b] Hin. apply in_map_iff in Hin as [b' [Heq Hin]].
      inversion Heq; subst. rewrite Forall_forall in Hbs. by apply Hbs. }
    rewrite (Hsame _ _ Fs), (Hsame _ _ Fn).
    apply (restart_equiv DB hmem hblock hres Hash Q A hrebuild step' apphash height query hR).
    - intros a b (H1 & H2 & H3). unfold hR. split; [congruence|split; assumption].
    - intros a b c (H1 & H2 & H3) (H4 & H5 & H6). unfold hR. split; [congruence|split; assumption].
    - intros db0 m1 m2 b (Hr & C1 & C2). unfold step'.
      rewrite !hstep_ok by (simpl; auto). rewrite Hr. simpl.
      destruct (exec_all db0 cid (m_reg m2) (b_txs b)) as [db' rs']. simpl.
      repeat split; auto; unfold compat; simpl; auto.
    - exact Hq.
    - intros db0 m0 b (Hr & C1 & C2). unfold step'.
      rewrite hstep_ok by (simpl; auto). simpl.
      destruct (exec_all db0 cid (m_reg m0) (b_txs b)) as [db' rs']. simpl.
      repeat split; auto; unfold compat; simpl; auto.
    - exact Hm.
  Qed.
End Haqq.

(** * Why AddEVMExtensions / RegisterERC20Extensions must stay unreachable
    A transaction that registers a precompile at run time writes the EVM
    parameters (database) AND the keeper's registry (memory).  After a restart
    the registry is the static one again while the parameters still list the
    new address as active: Keeper.Precompiles panics ("precompiled contract not
    initialized") on the restarted node and succeeds on the node that never stopped. *)
Inductive dtx := DCall (p : N) | DRegister (p : N).
Definition ddb := list N.                               (* EVM params: ActivePrecompiles *)
Record dmem := mk_dmem { d_reg : list N }.
Definition dstatic : list N := [2048; 2049]%N.
Definition drebuild (_ : ddb) : dmem := mk_dmem dstatic.
Definition mem_N (x : N) (l : list N) : bool := existsb (N.eqb x) l.
(** result codes: 1 = ran the precompile, 0 = plain call to a non-precompile address, 99 = panic *)
Definition dstep (n : ddb * dmem) (tx : dtx) : (ddb * dmem) * N :=
  let '(active, m) := n in
  match tx with
  | DCall p => if mem_N p active then (if mem_N p (d_reg m) then (n, 1%N) else (n, 99%N)) else (n, 0%N)
  | DRegister p => ((p :: active, mk_dmem (p :: d_reg m)), 1%N)
  end.

Theorem dynamic_registration_breaks_restart_refuted_in_model :
  let qs : list unit := [] in
  let go := run ddb dmem dtx N nat unit unit drebuild dstep (fun db => length db) (fun _ => 0%Z) (fun _ _ => tt) qs in
  let n0 : ddb * dmem := (dstatic, drebuild dstatic) in
  (* registered in block 1, called in block 2; restart between the two *)
  map (fun o => fst (fst o)) (snd (go n0 [(false, DRegister 4096%N); (false, DCall 4096%N)])) = [1%N; 1%N] /\
  map (fun o => fst (fst o)) (snd (go n0 [(false, DRegister 4096%N); (true, DCall 4096%N)])) = [1%N; 99%N] /\
  (* without dynamic registration the same schedule is invisible *)
  map (fun o => fst (fst o)) (snd (go n0 [(false, DCall 2048%N); (true, DCall 2048%N)])) = [1%N; 1%N].
Proof. vm_compute. repeat split; reflexivity. Qed.

(** non-vacuity of [haqq_restart_equiv]: a concrete chain whose transactions read
    the chain id and the registry; restarting before every block changes nothing *)
Example haqq_instance_nonvacuous :
  let exec := fun (db : Z) (c : Z) (reg : list N) (tx : Z) => ((db + tx * c + Z.of_nat (length reg))%Z, (db * tx)%Z) in
  let st := hstep Z Z Z exec (fun d => (d + 1)%Z) in
  let go := run Z hmem (hblock Z) (hres Z) Z unit Z (hrebuild Z [1; 2]%N) st (fun d => d) (fun d => d) (fun n _ => fst n) [tt] in
  let bs := [mk_hblock Z 11235 [3; 4]%Z; mk_hblock Z 11235 []; mk_hblock Z 11235 [5]%Z] in
  snd (go (7%Z, hrebuild Z [1; 2]%N 7%Z) (schedule (hblock Z) [true; true; true] bs))
  = snd (go (7%Z, hrebuild Z [1; 2]%N 7%Z) (never (hblock Z) bs)) /\
  length (snd (go (7%Z, hrebuild Z [1; 2]%N 7%Z) (never (hblock Z) bs))) = 3.
Proof. vm_compute. split; reflexivity. Qed.

(** * Correspondence with the real keeper fields
    The driver records, for every lineage (continuous node, restarted node,
    nodes opened on a copy of the database) and every block it executes: the
    chain id cached in the EVM keeper before and after the block and the
    keeper's registry (available precompile addresses) after the block.  The
    model predicts them with [hstep] on a node whose transactions do nothing. *)
Definition mem_case := (Z * list N * list (option Z * list (option Z * option Z * list N)))%type.

Fixpoint mem_trace_ok (cid : Z) (m : hmem) (tr : list (option Z * option Z * list N)) : bool :=
  match tr with
  | [] => true
  | (before, after, reg) :: tr' =>
      let m' := snd (fst (hstep unit unit unit (fun d _ _ _ => (d, tt)) (fun d => d) (tt, m) (mk_hblock unit cid []))) in
      match before, m_chain m with
      | None, None => true
      | Some x, Some y => (x =? y)%Z
      | _, _ => false
      end
      && match after, m_chain m' with
         | Some x, Some y => (x =? y)%Z
         | _, _ => false
         end
      && (if list_eq_dec N.eq_dec reg (m_reg m') then true else false)
      && mem_trace_ok cid m' tr'
  end.

Definition mem_case_ok (c : mem_case) : bool :=
  let '(cid, static, lins) := c in
  forallb (fun l : option Z * list (option Z * option Z * list N) =>
             mem_trace_ok cid (mk_hmem (fst l) static 0) (snd l)) lins.

Fixpoint mem_mismatches_from (i : nat) (cs : list mem_case) : list nat :=
  match cs with
  | [] => []
  | c :: r => if mem_case_ok c then mem_mismatches_from (S i) r else i :: mem_mismatches_from (S i) r
  end.
Definition mem_mismatches (cs : list mem_case) : list nat := mem_mismatches_from 0 cs.
