(** ERC20 <-> coin peg (property C10): executable model of
    x/erc20/keeper/{msg_server,evm_hooks,ibc_callbacks,mint,proposals}.go and of the
    bank MsgSend wrapper x/bank/keeper/msg_server.go, for ONE token pair and the
    bank denomination paired with it.  The token contract is an oracle: a record
    of state-passing functions (what the contract answers and which logs it emits
    when the module or a user calls it).  Definitions only; proofs in PegProofs.v. *)
From stdpp Require Import gmap.
From Coq Require Import ZArith List.
Import ListNotations.
Local Open Scope Z_scope.

Notation addr := N (only parsing).

(** actors; the numbers are the ones the harness prints *)
Definition MODULE : N := 0.    (* the erc20 module account = types.ModuleAddress *)
Definition THIEF : N := 4.     (* the address hard-wired in the malicious Solidity tokens *)
Definition ZERO : N := 5.      (* the zero address *)
Definition DEPLOYER : N := 6.  (* deployer / minter of the externally owned tokens *)
Definition SCRIPT : N := 7.    (* a contract that holds tokens and executes a list of calls (harness: the script contract) *)
Definition FAR : N := 99.      (* holds the first voucher that made RegisterCoin possible *)
Definition MAXU : Z := 2 ^ 256 - 1.

Definition zget (m : gmap N Z) (a : N) : Z := default 0 (m !! a).
Definition zset (m : gmap N Z) (a : N) (v : Z) : gmap N Z := <[a := v]> m.

(** result codes, as the harness maps the Go errors *)
Definition OK : N := 0.
Definition EDisabled : N := 1.   (* ErrERC20Disabled / ErrERC20TokenPairDisabled *)
Definition ENotFound : N := 2.   (* ErrTokenPairNotFound *)
Definition EUnauth : N := 3.     (* blocked receiver / nobody can sign for this account *)
Definition EFunds : N := 4.      (* insufficient funds / invalid coins *)
Definition EVMFail : N := 5.     (* a user's Ethereum transaction reverted *)
Definition EBalance : N := 6.    (* ErrBalanceInvariance: a post-condition balance comparison failed *)
Definition EApproval : N := 7.   (* ErrUnexpectedEvent: Approval log *)
Definition EFalse : N := 8.      (* transfer() returned false *)
Definition EOther : N := 9.      (* revert inside a module call, undecodable answer, panic, refused by the environment *)

(** * the token contract as an oracle *)
Inductive lkind := LTransfer | LApproval | LNoTopic | LOther.
Record log := mklog { lk : lkind; lfrom : N; lto : N; lamt : Z }.

(** what a user can send to the token in a signed Ethereum transaction *)
Inductive ucall :=
| UTransfer (to : N) (x : Z)
| UBurn (x : Z)
| UMint (to : N) (x : Z)
| UMode (m : N)
| UKill
| UOther
| USpend (owner : N) (x : Z).   (* transferFrom(owner, caller, x): the caller spends an allowance on [owner]'s tokens *)

(** one CALL made by the script contract inside a single Ethereum transaction *)
Inductive bcall :=
| BXfer (to : N) (x : Z) (catch : bool)   (* token.transfer(to, x) on THIS pair's token; [catch]: a reverting
                                             call is tolerated (its effects and logs are discarded, the script goes on),
                                             otherwise the whole transaction reverts.  The returned word is ignored. *)
| BForeign (k : N) (x : Z).               (* tolerated transfer(module, x) on the token of ANOTHER registered pair [k]:
                                             its logs carry that contract's address *)

(** [None] = the call reverted.  View calls ([balance_of], [total_supply]) are
    executed without commit, so they are functions of the state; [None] there =
    the call failed or the answer is not a uint256. *)
Record token (T : Type) := mktoken {
  is_contract : T -> bool;
  balance_of : T -> N -> option Z;
  total_supply : T -> option Z;
  call_mint : T -> N -> Z -> option (T * list log);        (* module: mint(to, x) *)
  call_burn_coins : T -> N -> Z -> option (T * list log);  (* module: burnCoins(from, x) *)
  call_burn : T -> Z -> option (T * list log);             (* module: burn(x), its own balance *)
  call_transfer : T -> N -> N -> Z -> option (T * option bool * list log);
      (* caller: transfer(to, x); the returned word: [Some b] a bool, [None] undecodable *)
  call_user : T -> N -> ucall -> option (T * list log)     (* signed transaction of [caller] *)
}.
Arguments is_contract {T}. Arguments balance_of {T}. Arguments total_supply {T}.
Arguments call_mint {T}. Arguments call_burn_coins {T}. Arguments call_burn {T}.
Arguments call_transfer {T}. Arguments call_user {T}.

(** * state: one pair, its bank denomination, the token's own state *)
Record st (T : Type) := mkst {
  reg : bool;       (* the pair is registered (all three indexes) *)
  own_mod : bool;   (* ContractOwner = OWNER_MODULE (coin-origin) / OWNER_EXTERNAL (token-origin) *)
  en : bool;        (* TokenPair.Enabled *)
  erc20_on : bool;  (* Params.EnableErc20 *)
  hook_on : bool;   (* Params.EnableEVMHook *)
  cbal : gmap N Z;  (* bank balances in the pair's denomination; the escrow is [cbal !! MODULE] *)
  supply : Z;       (* bank supply of the denomination *)
  tok : T
}.
Arguments mkst {T}. Arguments reg {T}. Arguments own_mod {T}. Arguments en {T}.
Arguments erc20_on {T}. Arguments hook_on {T}. Arguments cbal {T}. Arguments supply {T}. Arguments tok {T}.

(** the semantics of DESIGN 2.3: [impl] is /repo as it is, [spec] what the
    property demands, [pre_fix] the tree before the "fix:" commit 1c369cb *)
Record cfg := mkcfg {
  hook_ext : bool;       (* the EVM hook mints coins for externally owned pairs on a bare Transfer log (finding K7) *)
  wrap_false_ok : bool   (* the MsgSend wrapper treats "transfer returned false" as success (repaired by 1c369cb) *)
}.
Definition impl : cfg := mkcfg true false.
Definition spec : cfg := mkcfg false false.
Definition pre_fix : cfg := mkcfg true true.

Inductive op :=
| Fund (a : N) (x : Z)                      (* environment: a voucher is minted to [a] (coin-origin denominations only) *)
| RawSend (a b : N) (x : Z)                 (* environment: keeper-level SendCoins, no conversion *)
| CC (a b : N) (x : Z)                      (* MsgConvertCoin sender receiver *)
| CE (a b : N) (x : Z)                      (* MsgConvertERC20 sender receiver *)
| Eth (a : N) (c : ucall)                   (* signed Ethereum transaction to the token, then PostTxProcessing *)
| Send (a b : N) (x : Z)                    (* bank MsgSend of the pair's denomination *)
| IbcSend (a : N) (x : Z)                   (* MsgTransfer; there is no channel *)
| Toggle
| SetParams (e h : bool)
| Recv (mint smod : bool) (esc b : N) (x : Z)   (* OnRecvPacket after the ICS-20 credit *)
| Ack (success mint : bool) (esc b : N) (x : Z) (* OnAcknowledgementPacket after the ICS-20 refund *)
| Timeout (mint : bool) (esc b : N) (x : Z)
| Batch (a : N) (cs : list bcall)           (* ONE signed Ethereum transaction of [a] to the script contract, which makes
                                               the calls [cs] in order (its receipt carries the logs of all of them),
                                               then PostTxProcessing *)
| Spend (owner : N) (x : Z).                (* the beneficiary of the allowances the delayed-malicious token hands out
                                               ([THIEF]: an address nobody in the harness holds a key for) calls
                                               token.transferFrom(owner, THIEF, x): a keeper-level CallEVM from that
                                               address (ApplyMessage with commit, NO PostTxProcessing hook); the
                                               harness refuses x <= 0 without calling anything *)

(** * spellings of the string fields of a message

    Every address and token identifier reaches the chain as a STRING: the hex fields
    (MsgConvertCoin.Receiver, MsgConvertERC20.ContractAddress / Sender, the `token` of
    ToggleConversion and of the TokenPair query) are checked with common.IsHexAddress and
    resolved with common.HexToAddress, the bech32 fields (MsgConvertCoin.Sender,
    MsgConvertERC20.Receiver, bank MsgSend, the refunded sender of an ICS-20 packet) with
    sdk.AccAddressFromBech32, the receiver of a received ICS-20 packet with
    utils.GetHaqqAddressFromBech32.  The conversion functions below take the RESOLVED
    actors; a [spell] says how the three string fields of the message were written
    (the numbers are the ones the harness prints):

    hex address      0 EIP-55 mixed case with 0x (what the chain prints)   1 0x + lower case
                     2 0x + upper-case digits   3 0x + mixed case with a wrong checksum
                     4 lower case without 0x    5 EIP-55 without 0x   6 0X + upper-case digits
                     7.. not an address (38 hex digits)
    bech32 address   0 haqq1... lower case   1 HAQQ1... upper case   2 cosmos1... (another prefix)
                     3 the hex address   4.. mixed-case bech32
    token            0 the pair's denomination   1..7 the contract address in hex spelling 0..6
                     8 not an address   9.. the denomination in another letter case (denominations are
                     case sensitive: a different, unregistered denomination) *)
Record spell := mkspell { sp_c : N; sp_a : N; sp_b : N }.   (* contract / token, sender [a], receiver [b] *)
Definition csp : spell := mkspell 0 0 0.                      (* everything as the chain prints it *)
Definition hex_ok (k : N) : bool := (k <? 7)%N.                                   (* common.IsHexAddress *)
Definition bech_ok (k : N) : bool := (k <? 2)%N.                                  (* sdk.AccAddressFromBech32 *)
Definition bech_any_ok (k : N) : bool := N.eqb k 0 || N.eqb k 2.              (* utils.GetHaqqAddressFromBech32 *)
Definition tok_ok (k : N) : bool := (k <? 8)%N.                                   (* GetTokenPairID finds the pair *)

Definition blocked (a : N) : bool := N.eqb a MODULE.
(** accounts for which somebody holds a key (the harness' key holders) *)
Definition has_key (a : N) : bool := N.eqb a 1 || N.eqb a 2 || N.eqb a 3 || N.eqb a DEPLOYER.

(** bank SendCoins: positive amount, sufficient balance *)
Definition bank_send (b : gmap N Z) (from to : N) (x : Z) : option (gmap N Z) :=
  if (x <=? 0) || (zget b from <? x) then None else
  let b1 := zset b from (zget b from - x) in
  Some (zset b1 to (zget b1 to + x)).

(** monitorApprovalEvent: reads Topics[0] of every log (a log without topics panics) *)
Fixpoint approval_check (l : list log) : N :=
  match l with
  | [] => OK
  | x :: r => match lk x with
              | LNoTopic => EOther
              | LApproval => EApproval
              | _ => approval_check r
              end
  end.

Section Model.
  Context {T : Type}.
  Variable tk : token T.
  Variable cf : cfg.

  Definition set_bank (s : st T) (b : gmap N Z) (sup : Z) : st T :=
    mkst (reg s) (own_mod s) (en s) (erc20_on s) (hook_on s) b sup (tok s).
  Definition set_tok (s : st T) (t : T) : st T :=
    mkst (reg s) (own_mod s) (en s) (erc20_on s) (hook_on s) (cbal s) (supply s) t.
  Definition set_all (s : st T) (b : gmap N Z) (sup : Z) (t : T) : st T :=
    mkst (reg s) (own_mod s) (en s) (erc20_on s) (hook_on s) b sup t.
  (** DeleteTokenPair *)
  Definition drop_pair (s : st T) : st T :=
    mkst false (own_mod s) (en s) (erc20_on s) (hook_on s) (cbal s) (supply s) (tok s).

  (** keeper/mint.go MintingEnabled (send-enabled is true for every denomination here) *)
  Definition minting_enabled (s : st T) (receiver : N) : N :=
    if negb (erc20_on s) then EDisabled else
    if negb (reg s) then ENotFound else
    if negb (en s) then EDisabled else
    if blocked receiver then EUnauth else OK.

  (** case 1.1 convertCoinNativeCoin *)
  Definition cc_native_coin (s : st T) (sender receiver : N) (x : Z) : st T * N :=
    match balance_of tk (tok s) receiver with None => (s, EOther) | Some b0 =>
    match bank_send (cbal s) sender MODULE x with None => (s, EFunds) | Some cb =>
    match call_mint tk (tok s) receiver x with None => (s, EOther) | Some (t1, _) =>
    match balance_of tk t1 receiver with None => (s, EOther) | Some b1 =>
    if negb (b1 =? b0 + x) then (s, EBalance) else (set_all s cb (supply s) t1, OK)
    end end end end.

  (** case 1.2 convertERC20NativeCoin *)
  Definition ce_native_coin (s : st T) (sender receiver : N) (x : Z) : st T * N :=
    match balance_of tk (tok s) sender with None => (s, EOther) | Some b0 =>
    match call_burn_coins tk (tok s) sender x with None => (s, EOther) | Some (t1, _) =>
    match (if blocked receiver then None else bank_send (cbal s) MODULE receiver x) with None => (s, EFunds) | Some cb =>
    match balance_of tk t1 sender with None => (s, EOther) | Some b1 =>
    if negb (b1 =? b0 - x) then (s, EBalance) else (set_all s cb (supply s) t1, OK)
    end end end end.

  (** case 2.1 convertERC20NativeToken *)
  Definition ce_native_token (s : st T) (sender receiver : N) (x : Z) : st T * N :=
    match balance_of tk (tok s) MODULE with None => (s, EOther) | Some b0 =>
    match call_transfer tk (tok s) sender MODULE x with None => (s, EOther) | Some (t1, ret, logs) =>
    match ret with None => (s, EOther) | Some false => (s, EFalse) | Some true =>
    match balance_of tk t1 MODULE with None => (s, EOther) | Some b1 =>
    if negb (b1 =? b0 + x) then (s, EBalance) else
    if MAXU <? supply s + x then (s, EOther) else   (* sdk.Int overflow panic in MintCoins *)
    match approval_check logs with
    | 0%N => (set_all s (zset (cbal s) receiver (zget (cbal s) receiver + x)) (supply s + x) t1, OK)
    | e => (s, e)
    end end end end end.

  (** case 2.2 convertCoinNativeERC20 *)
  Definition cc_native_erc20 (s : st T) (sender receiver : N) (x : Z) : st T * N :=
    match balance_of tk (tok s) receiver with None => (s, EOther) | Some b0 =>
    match bank_send (cbal s) sender MODULE x with None => (s, EFunds) | Some cb =>
    match call_transfer tk (tok s) MODULE receiver x with None => (s, EOther) | Some (t1, ret, logs) =>
    match ret with None => (s, EOther) | Some false => (s, EFalse) | Some true =>
    match balance_of tk t1 receiver with None => (s, EOther) | Some b1 =>
    if negb (b1 =? b0 + x) then (s, EBalance) else
    match approval_check logs with
    | 0%N => (set_all s (zset cb MODULE (zget cb MODULE - x)) (supply s - x) t1, OK)
    | e => (s, e)
    end end end end end end.

  (** keeper ConvertCoin / ConvertERC20 (no ValidateBasic: the IBC callbacks and
      the wrapper call these directly) *)
  Definition convert_coin (s : st T) (sender receiver : N) (x : Z) : st T * N :=
    match minting_enabled s receiver with
    | 0%N => if negb (is_contract tk (tok s)) then (drop_pair s, OK)
             else if own_mod s then cc_native_coin s sender receiver x
             else cc_native_erc20 s sender receiver x
    | e => (s, e)
    end.
  Definition convert_erc20 (s : st T) (sender receiver : N) (x : Z) : st T * N :=
    match minting_enabled s receiver with
    | 0%N => if negb (is_contract tk (tok s)) then (drop_pair s, OK)
             else if own_mod s then ce_native_coin s sender receiver x
             else ce_native_token s sender receiver x
    | e => (s, e)
    end.

  (** the messages: ValidateBasic, and nobody signs for the module account *)
  Definition msg_convert_coin (s : st T) (sender receiver : N) (x : Z) : st T * N :=
    if x <=? 0 then (s, EFunds) else
    if N.eqb sender MODULE then (s, EUnauth) else convert_coin s sender receiver x.
  Definition msg_convert_erc20 (s : st T) (sender receiver : N) (x : Z) : st T * N :=
    if x <=? 0 then (s, EFunds) else
    if N.eqb sender MODULE then (s, EUnauth) else convert_erc20 s sender receiver x.

  (** x/bank/keeper/msg_server.go Send -> sendCoinsWithERC20 -> subUnlockedERC20Tokens *)
  Definition msg_send (s : st T) (from to : N) (x : Z) : st T * N :=
    if x <=? 0 then (s, EFunds) else
    if N.eqb from MODULE then (s, EUnauth) else
    if blocked to then (s, EUnauth) else
    if negb (erc20_on s && reg s && en s) then
      match bank_send (cbal s) from to x with
      | None => (s, EFunds)
      | Some cb => (set_bank s cb (supply s), OK)
      end
    else
      let sp := zget (cbal s) from in
      match balance_of tk (tok s) from with None => (s, EOther) | Some eb =>
      if MAXU <? sp + eb then (s, EOther) else
      if sp + eb <? x then (s, EFunds) else
      let '(s1, r1) := if sp =? 0 then (s, OK) else convert_coin s from from sp in
      match r1 with
      | 0%N =>
        match balance_of tk (tok s1) to with None => (s, EOther) | Some b0 =>
        match call_transfer tk (tok s1) from to x with None => (s, EOther) | Some (t2, ret, logs) =>
        match ret with
        | None => (s, EOther)
        | Some false => if wrap_false_ok cf then (set_tok s1 t2, OK) else (s, EFalse)
        | Some true =>
          match balance_of tk t2 to with None => (s, EOther) | Some b1 =>
          if negb (b1 =? b0 + x) then (s, EBalance) else
          match approval_check logs with
          | 0%N => (set_tok s1 t2, OK)
          | e => (s, e)
          end end
        end end end
      | e => (s, e)
      end end.

  (** evm_hooks.go PostTxProcessing, one log; [None] = panic (supply overflow).
      Checks, in the code's order: three topics and the Transfer event id with
      decodable data ([lk = LTransfer]), positive amount, the emitting contract is
      a registered pair, [to] = module address, pair enabled.  The code does NOT
      look at [from] (it only is the recipient of the coins; a blocked recipient
      makes the bank send fail, which the hook ignores), does not compare any
      balance and does not look at the token's own behaviour: for an externally
      owned pair the log alone mints. *)
  Definition hook_log (s : st T) (l : log) : option (st T) :=
    match lk l with
    | LTransfer =>
      if lamt l <=? 0 then Some s else
      if negb (reg s) then Some s else
      if negb (N.eqb (lto l) MODULE) then Some s else
      if negb (en s) then Some s else
      if own_mod s then
        match call_burn tk (tok s) (lamt l) with
        | None => Some s
        | Some (t1, _) =>
          let s1 := set_tok s t1 in
          if blocked (lfrom l) then Some s1 else
          match bank_send (cbal s1) MODULE (lfrom l) (lamt l) with
          | None => Some s1
          | Some cb => Some (set_bank s1 cb (supply s1))
          end
        end
      else if negb (hook_ext cf) then Some s else
        if MAXU <? supply s + lamt l then None else
        let cb := zset (cbal s) MODULE (zget (cbal s) MODULE + lamt l) in
        let s1 := set_bank s cb (supply s + lamt l) in
        if blocked (lfrom l) then Some s1 else
        match bank_send cb MODULE (lfrom l) (lamt l) with
        | None => Some s1
        | Some cb' => Some (set_bank s1 cb' (supply s1))
        end
    | _ => Some s
    end.

  Definition hook (s : st T) (logs : list log) : option (st T) :=
    if negb (erc20_on s && hook_on s) then Some s else
    fold_left (fun acc l => match acc with None => None | Some s => hook_log s l end) logs (Some s).

  (** a signed Ethereum transaction to the token through ApplyTransaction *)
  Definition eth_tx (s : st T) (caller : N) (c : ucall) : st T * N :=
    if negb (has_key caller) then (s, EUnauth) else
    match call_user tk (tok s) caller c with
    | None => (s, EVMFail)
    | Some (t1, logs) =>
      match hook (set_tok s t1) logs with
      | None => (s, EOther)
      | Some s2 => (s2, OK)
      end
    end.

  (** the calls of one script transaction, in order; the token sees the script
      contract as the caller.  The receipt's logs are the logs of the successful
      calls in call order.  A call to another pair's token cannot touch this
      pair: the hook looks a log's pair up by the emitting contract's address. *)
  Fixpoint batch_calls (t : T) (caller : N) (cs : list bcall) : option (T * list log) :=
    match cs with
    | [] => Some (t, [])
    | BForeign _ _ :: r => batch_calls t caller r
    | BXfer to x catch :: r =>
      match call_transfer tk t caller to x with
      | None => if catch then batch_calls t caller r else None
      | Some (t1, _, lg) =>
        match batch_calls t1 caller r with
        | None => None
        | Some (t2, lg2) => Some (t2, lg ++ lg2)
        end
      end
    end.

  (** one signed Ethereum transaction to the script contract through
      ApplyTransaction: all the calls, then the hook over ALL the logs of the
      receipt, one log at a time, each log converting its own amount *)
  Definition batch_tx (s : st T) (signer : N) (cs : list bcall) : st T * N :=
    if negb (has_key signer) then (s, EUnauth) else
    match batch_calls (tok s) SCRIPT cs with
    | None => (s, EVMFail)
    | Some (t1, logs) =>
      match hook (set_tok s t1) logs with
      | None => (s, EOther)
      | Some s2 => (s2, OK)
      end
    end.

  (** the ICS-20 layer below the middleware: mint the voucher (coin-origin
      denominations only) or release from the channel escrow account [esc] *)
  Definition credit (s : st T) (mint : bool) (esc to : N) (x : Z) : option (st T) :=
    if (x <=? 0) || N.eqb to MODULE || (negb mint && N.eqb esc MODULE) || (mint && negb (own_mod s)) then None else
    if mint then
      if MAXU <? supply s + x then None else
      Some (set_bank s (zset (cbal s) to (zget (cbal s) to + x)) (supply s + x))
    else match bank_send (cbal s) esc to x with
         | None => None
         | Some cb => Some (set_bank s cb (supply s))
         end.

  (** ibc_callbacks.go OnRecvPacket: the recipient's WHOLE balance is converted.
      IBC core discards everything when the acknowledgement is an error. *)
  Definition ibc_recv (s : st T) (mint smod : bool) (esc b : N) (x : Z) : st T * N :=
    match credit s mint esc b x with
    | None => (s, EOther)
    | Some s1 =>
      if negb (erc20_on s1) || smod || negb (reg s1) || negb (en s1) then (s1, OK) else
      match convert_coin s1 b b (zget (cbal s1) b) with
      | (s2, 0%N) => (s2, OK)
      | _ => (s, EOther)
      end
    end.

  (** ConvertCoinToERC20FromPacket after the refund (error acknowledgement / timeout) *)
  Definition ibc_refund (s : st T) (mint : bool) (esc b : N) (x : Z) : st T * N :=
    if N.eqb b MODULE then (s, EOther) else
    match credit s mint esc b x with
    | None => (s, EOther)
    | Some s1 =>
      if negb (erc20_on s1) || negb (reg s1) then (s1, OK) else
      match convert_coin s1 b b x with
      | (s2, 0%N) => (s2, OK)
      | _ => (s, EOther)
      end
    end.

  Definition flat (r : st T * N) (s : st T) : st T * N :=
    match r with (s', 0%N) => (s', OK) | _ => (s, EOther) end.

  Definition step (s : st T) (o : op) : st T * N :=
    match o with
    | Fund a x => match credit s true 0 a x with None => (s, EOther) | Some s1 => (s1, OK) end
    | RawSend a b x => match credit s false a b x with None => (s, EOther) | Some s1 => (s1, OK) end
    | CC a b x => msg_convert_coin s a b x
    | CE a b x => msg_convert_erc20 s a b x
    | Eth a c => eth_tx s a c
    | Send a b x => msg_send s a b x
    | IbcSend _ _ => (s, EOther)
    | Toggle => if reg s then (mkst (reg s) (own_mod s) (negb (en s)) (erc20_on s) (hook_on s) (cbal s) (supply s) (tok s), OK)
                else (s, ENotFound)
    | SetParams e h => (mkst (reg s) (own_mod s) (en s) e h (cbal s) (supply s) (tok s), OK)
    | Recv mint smod esc b x => ibc_recv s mint smod esc b x
    | Ack success mint esc b x =>
        if N.eqb b MODULE then (s, EOther) else
        if success then (s, OK) else ibc_refund s mint esc b x
    | Timeout mint esc b x => ibc_refund s mint esc b x
    | Batch a cs => batch_tx s a cs
    | Spend a x =>
        if x <=? 0 then (s, EOther) else
        match call_user tk (tok s) THIEF (USpend a x) with
        | None => (s, EOther)
        | Some (t1, _) => (set_tok s t1, OK)
        end
    end.

  Definition run (ops : list op) (s : st T) : st T := fold_left (fun s o => fst (step s o)) ops s.

  (** ** a message as it is WRITTEN: the operation (resolved actors) and its spelling *)

  (** does the chain's parsing accept every string field of the message in this spelling? *)
  Definition spell_ok (o : op) (sp : spell) : bool :=
    match o with
    | CC _ _ _ => bech_ok (sp_a sp) && hex_ok (sp_b sp)
    | CE _ _ _ => hex_ok (sp_c sp) && hex_ok (sp_a sp) && bech_ok (sp_b sp)
    | Send _ _ _ => bech_ok (sp_a sp) && bech_ok (sp_b sp)
    | Toggle => tok_ok (sp_c sp)
    | Recv _ _ _ _ _ => bech_any_ok (sp_b sp)       (* packet receiver *)
    | Ack _ _ _ _ _ => bech_ok (sp_b sp)            (* packet sender = the refunded account *)
    | Timeout _ _ _ _ => bech_ok (sp_b sp)
    | _ => true                                     (* Ethereum transactions carry 20 bytes; MsgTransfer fails anyway *)
    end.

  (** a spelling the parsing refuses: ValidateBasic (in its order of checks, behind the
      "nobody signs for the module account" rule of the harness) resp. the callback fails
      before anything happens.  Two callbacks never read the string: OnRecvPacket when the
      module is switched off, OnAcknowledgementPacket for a success acknowledgement. *)
  Definition refused (s : st T) (o : op) (sp : spell) : st T * N :=
    match o with
    | CC a _ x => (s, if x <=? 0 then EFunds else if N.eqb a MODULE then EUnauth else EOther)
    | CE a _ x => (s, if (0 <? x) && N.eqb a MODULE then EUnauth else
                      if negb (hex_ok (sp_c sp)) then EOther else
                      if x <=? 0 then EFunds else EOther)
    | Send a _ x => (s, if (0 <? x) && N.eqb a MODULE then EUnauth else EOther)
    | Toggle => (s, ENotFound)
    | Recv _ _ _ _ _ => if erc20_on s then (s, EOther) else step s o
    | Ack success _ _ b _ => if success && negb (N.eqb b MODULE) then (s, OK) else (s, EOther)
    | Timeout _ _ _ _ => (s, EOther)
    | _ => step s o
    end.

  (** the step function of the correspondence: the outcome of an accepted message is
      [step] of the RESOLVED operation, whatever the spelling *)
  Definition step_sp (s : st T) (sp : spell) (o : op) : st T * N :=
    if spell_ok o sp then step s o else refused s o sp.

  Definition run_sp (h : list (spell * op)) (s : st T) : st T :=
    fold_left (fun s e => fst (step_sp s (fst e) (snd e))) h s.

  (** NOT the code of /repo: convertERC20NativeToken with an Approval monitor that only looks at
      the logs whose emitting contract, compared as a STRING (evmtypes.Log.Address is always the
      EIP-55 spelling), equals the contract address as the MESSAGE spells it: in any other
      spelling no log matches and the monitor is silently skipped. *)
  Definition ce_native_token_strcmp (s : st T) (sp : spell) (sender receiver : N) (x : Z) : st T * N :=
    match balance_of tk (tok s) MODULE with None => (s, EOther) | Some b0 =>
    match call_transfer tk (tok s) sender MODULE x with None => (s, EOther) | Some (t1, ret, logs) =>
    match ret with None => (s, EOther) | Some false => (s, EFalse) | Some true =>
    match balance_of tk t1 MODULE with None => (s, EOther) | Some b1 =>
    if negb (b1 =? b0 + x) then (s, EBalance) else
    if MAXU <? supply s + x then (s, EOther) else
    match approval_check (if N.eqb (sp_c sp) 0 then logs else []) with
    | 0%N => (set_all s (zset (cbal s) receiver (zget (cbal s) receiver + x)) (supply s + x) t1, OK)
    | e => (s, e)
    end end end end end.
End Model.

(** * the honest token: OpenZeppelin ERC20 + ERC20Burnable + minter/burner role
    (contracts/ERC20MinterBurnerDecimals.sol), a real ledger *)
Record ledger := mkledger {
  lbal : gmap N Z;
  ltotal : Z;
  lminter : N     (* holder of MINTER_ROLE and BURNER_ROLE: the deployer *)
}.

Definition tlog (from to : N) (x : Z) : log := mklog LTransfer from to x.

(** ERC20._transfer *)
Definition std_transfer (l : ledger) (from to : N) (x : Z) : option (ledger * list log) :=
  if N.eqb from ZERO || N.eqb to ZERO then None else
  if (x <? 0) || (zget (lbal l) from <? x) then None else
  let b1 := zset (lbal l) from (zget (lbal l) from - x) in
  Some (mkledger (zset b1 to (zget b1 to + x)) (ltotal l) (lminter l), [tlog from to x]).

(** ERC20._mint behind the role check *)
Definition std_mint (l : ledger) (caller to : N) (x : Z) : option (ledger * list log) :=
  if negb (N.eqb caller (lminter l)) then None else
  if N.eqb to ZERO then None else
  if (x <? 0) || (MAXU <? ltotal l + x) then None else
  Some (mkledger (zset (lbal l) to (zget (lbal l) to + x)) (ltotal l + x) (lminter l), [tlog ZERO to x]).

(** ERC20._burn *)
Definition std_burn (l : ledger) (from : N) (x : Z) : option (ledger * list log) :=
  if N.eqb from ZERO then None else
  if (x <? 0) || (zget (lbal l) from <? x) then None else
  Some (mkledger (zset (lbal l) from (zget (lbal l) from - x)) (ltotal l - x) (lminter l), [tlog from ZERO x]).

Definition with_ret (r : option (ledger * list log)) : option (ledger * option bool * list log) :=
  match r with None => None | Some (l, lg) => Some (l, Some true, lg) end.

Definition honest_user (l : ledger) (caller : N) (c : ucall) : option (ledger * list log) :=
  match c with
  | UTransfer to x => std_transfer l caller to x
  | UBurn x => std_burn l caller x
  | UMint to x => std_mint l caller to x
  | _ => None     (* no such function: Solidity reverts *)
  end.

Definition honest_token : token ledger := mktoken ledger
  (fun _ => true)
  (fun l a => Some (zget (lbal l) a))
  (fun l => Some (ltotal l))
  (fun l to x => std_mint l MODULE to x)
  (fun l from x => if N.eqb MODULE (lminter l) then std_burn l from x else None)
  (fun l x => std_burn l MODULE x)
  (fun l caller to x => with_ret (std_transfer l caller to x))
  honest_user.

(** * the other tokens the harness deploys (correspondence only) *)

(** contracts/ERC20DirectBalanceManipulation.sol: half of every transfer goes to the thief *)
Definition siphon_transfer (l : ledger) (from to : N) (x : Z) : option (ledger * list log) :=
  let half := x / 2 in
  match std_transfer l from THIEF (x - half) with
  | None => None
  | Some (l1, g1) => match std_transfer l1 from to half with
                     | None => None
                     | Some (l2, g2) => Some (l2, g1 ++ g2)
                     end
  end.

(** contracts/ERC20MaliciousDelayed.sol: an allowance for the thief (Approval log), then the transfer;
    this is the ledger part only (used by the spelling theorems); [approve_token] below also keeps
    the allowances and is the instance the correspondence runs *)
Definition approve_transfer (l : ledger) (from to : N) (x : Z) : option (ledger * list log) :=
  if N.eqb to ZERO then None else
  match std_transfer l from to x with
  | None => None
  | Some (l1, g) => Some (l1, mklog LApproval to THIEF (10 ^ 18) :: g)
  end.

(** the same contract WITH the allowances it hands out: [aallow] = allowance(owner, THIEF) per owner
    (nobody else ever gets one: the holders never call approve).  transfer(recipient, x) sets
    allowance(recipient, THIEF) = 10^18 (ERC20._approve overwrites) and then transfers;
    transferFrom(owner, caller, x) is OpenZeppelin's: the caller's allowance on [owner]'s tokens must
    cover x, is lowered by x (10^18 is not the infinite allowance), then ERC20._transfer. *)
Record apl := mkapl { al : ledger; aallow : gmap N Z }.
Definition BIGNUM : Z := 10 ^ 18.

Definition apl_lift (t : apl) (r : option (ledger * list log)) : option (apl * list log) :=
  match r with None => None | Some (l1, g) => Some (mkapl l1 (aallow t), g) end.

Definition apl_transfer (t : apl) (from to : N) (x : Z) : option (apl * list log) :=
  match approve_transfer (al t) from to x with
  | None => None
  | Some (l1, g) => Some (mkapl l1 (zset (aallow t) to BIGNUM), g)
  end.

Definition apl_spend (t : apl) (spender owner : N) (x : Z) : option (apl * list log) :=
  let a := if N.eqb spender THIEF then zget (aallow t) owner else 0 in
  if (x <? 0) || (a <? x) then None else
  match std_transfer (al t) owner spender x with
  | None => None
  | Some (l1, g) => Some (mkapl l1 (if N.eqb spender THIEF then zset (aallow t) owner (a - x) else aallow t), g)
  end.

Definition approve_token : token apl := mktoken apl
  (fun _ => true)
  (fun t a => Some (zget (lbal (al t)) a))
  (fun t => Some (ltotal (al t)))
  (fun t to x => apl_lift t (std_mint (al t) MODULE to x))
  (fun _ _ _ => None)
  (fun t x => apl_lift t (std_burn (al t) MODULE x))
  (fun t caller to x => match apl_transfer t caller to x with
                        | None => None
                        | Some (t1, g) => Some (t1, Some true, g)
                        end)
  (fun t caller c => match c with
                     | UTransfer to x => apl_transfer t caller to x
                     | UBurn x => apl_lift t (std_burn (al t) caller x)
                     | UMint to x => apl_lift t (std_mint (al t) caller to x)
                     | USpend owner x => apl_spend t caller owner x
                     | _ => None
                     end).

(** ERC20PresetMinterPauser with an overridden transfer: no burnCoins *)
Definition preset_token (tr : ledger -> N -> N -> Z -> option (ledger * list log)) : token ledger := mktoken ledger
  (fun _ => true)
  (fun l a => Some (zget (lbal l) a))
  (fun l => Some (ltotal l))
  (fun l to x => std_mint l MODULE to x)
  (fun _ _ _ => None)
  (fun l x => std_burn l MODULE x)
  (fun l caller to x => with_ret (tr l caller to x))
  (fun l caller c => match c with
                     | UTransfer to x => tr l caller to x
                     | UBurn x => std_burn l caller x
                     | UMint to x => std_mint l caller to x
                     | _ => None
                     end).

(** hand-assembled: balanceOf = totalSupply = 777, transfer answers true, nothing else *)
Definition const_token : token unit := mktoken unit
  (fun _ => true) (fun _ _ => Some 777) (fun _ => Some 777)
  (fun t _ _ => Some (t, [])) (fun t _ _ => Some (t, [])) (fun t _ => Some (t, []))
  (fun t _ _ _ => Some (t, Some true, []))
  (fun t _ _ => Some (t, [])).

(** hand-assembled, finding K7: whatever is called, LOG3 Transfer(caller, module, 1000), no answer *)
Definition fakelog_token : token unit := mktoken unit
  (fun _ => true) (fun _ _ => None) (fun _ => None)
  (fun t _ _ => Some (t, [tlog MODULE MODULE 1000])) (fun t _ _ => Some (t, [tlog MODULE MODULE 1000]))
  (fun t _ => Some (t, [tlog MODULE MODULE 1000]))
  (fun t caller _ _ => Some (t, None, [tlog caller MODULE 1000]))
  (fun t caller _ => Some (t, [tlog caller MODULE 1000])).

(** hand-assembled "chameleon": a real ledger with wrapping 256-bit arithmetic
    whose transfer() follows a mode that anybody can switch (delayed-malicious),
    and that can be self-destructed *)
Record cham := mkcham { cmode : N; cb : gmap N Z; ctot : Z; calive : bool }.
Definition wrap (z : Z) : Z := z mod 2 ^ 256.

Definition cham_credit (c : cham) (to : N) (x : Z) : cham :=
  mkcham (cmode c) (zset (cb c) to (wrap (zget (cb c) to + x))) (ctot c) (calive c).
Definition cham_debit (c : cham) (from : N) (x : Z) : option cham :=
  if zget (cb c) from <? x then None else
  Some (mkcham (cmode c) (zset (cb c) from (zget (cb c) from - x)) (ctot c) (calive c)).

Definition cham_transfer (c : cham) (caller to : N) (x : Z) : option (cham * option bool * list log) :=
  if negb (calive c) then Some (c, None, []) else
  let lg := [tlog caller to x] in
  match cmode c with
  | 1%N => Some (c, Some true, lg)                         (* log only *)
  | 2%N => Some (c, Some false, [])                        (* answers false *)
  | 7%N => None                                            (* reverts *)
  | 4%N => Some (cham_credit c to x, Some true, lg)        (* credit without debit *)
  | m => match cham_debit c caller x with
         | None => None
         | Some c1 =>
           let c2 := cham_credit c1 to x in
           match m with
           | 3%N => Some (c2, Some true, lg ++ [mklog LApproval caller to x])
           | 5%N => Some (c2, Some true, lg ++ [mklog LNoTopic ZERO ZERO 0])
           | 6%N => Some (c2, None, lg)                    (* no return data *)
           | _ => Some (c2, Some true, lg)
           end
         end
  end.

Definition cham_mint (c : cham) (to : N) (x : Z) : option (cham * list log) :=
  if negb (calive c) then Some (c, []) else
  let c1 := cham_credit c to x in
  Some (mkcham (cmode c1) (cb c1) (wrap (ctot c1 + x)) (calive c1), [tlog ZERO to x]).
Definition cham_burn (c : cham) (from : N) (x : Z) : option (cham * list log) :=
  if negb (calive c) then Some (c, []) else
  match cham_debit c from x with
  | None => None
  | Some c1 => Some (mkcham (cmode c1) (cb c1) (wrap (ctot c1 - x)) (calive c1), [tlog from ZERO x])
  end.

Definition cham_token : token cham := mktoken cham
  calive
  (fun c a => if calive c then Some (zget (cb c) a) else None)
  (fun c => if calive c then Some (ctot c) else None)
  cham_mint
  (fun c _ _ => Some (c, []))
  (fun c x => cham_burn c MODULE x)
  cham_transfer
  (fun c caller u =>
     if negb (calive c) then Some (c, []) else
     match u with
     | UTransfer to x => match cham_transfer c caller to x with
                         | None => None
                         | Some (c1, _, lg) => Some (c1, lg)
                         end
     | UBurn x => cham_burn c caller x
     | UMint to x => cham_mint c to x
     | UMode m => Some (mkcham m (cb c) (ctot c) (calive c), [])
     | UKill => Some (mkcham 0 ∅ 0 false, [])
     | UOther => Some (c, [])
     | USpend _ _ => Some (c, [])          (* no such selector: STOP *)
     end).

(** hand-assembled, NOT registered: a token without a ledger: transfer / transferFrom emit
    Transfer(from, to, x) and answer true, nothing moves; balanceOf = totalSupply = 0;
    every other selector (burn included) succeeds silently *)
Definition fakexfer_token : token ledger := mktoken ledger
  (fun _ => true) (fun _ _ => Some 0) (fun _ => Some 0)
  (fun t _ _ => Some (t, [])) (fun t _ _ => Some (t, [])) (fun t _ => Some (t, []))
  (fun t from to x => Some (t, Some true, [tlog from to x]))
  (fun t _ _ => Some (t, [])).

(** * SEVERAL token contracts in one transaction

    One receipt can carry the logs of any number of token contracts: registered and
    enabled pairs of either origin, a registered but disabled pair, contracts that are
    not registered at all (honest ones, or ones that emit whatever Transfer events they
    like), in any order, the same contract at non-adjacent positions.  The hook
    (evm_hooks.go PostTxProcessing) looks every log's EMITTING CONTRACT up in the pair
    registry (GetERC20Map(log.Address), then GetTokenPair), skips the log when there is
    no such pair, and otherwise converts for THAT pair only.

    [world]: per token contract (its id) the pair state [st ledger]: registry entry
    ([reg] = false: the contract is not a registered pair, [en] = false: disabled),
    the bank side of the paired denomination and the token's own state. *)
Record clog := mkclog { lc : N; ll : log }.   (* a log and the contract that emitted it *)
Notation world := (gmap N (st ledger)) (only parsing).

(** GetERC20Map + GetTokenPair: the pair registered for a contract address *)
Definition lookup_pair (w : world) (c : N) : option (st ledger) :=
  match w !! c with
  | Some s => if reg s then Some s else None
  | None => None
  end.

(** one call of the script contract: token [mc_c].transfer(to, x) ([mc_from] = SCRIPT)
    or token.transferFrom(from, to, x) with an infinite allowance *)
Record mcall := mkmcall { mc_c : N; mc_from : N; mc_to : N; mc_x : Z; mc_catch : bool }.

(** the logs of contract [p] only, in order *)
Fixpoint proj (p : N) (logs : list clog) : list log :=
  match logs with
  | [] => []
  | l :: r => if N.eqb (lc l) p then ll l :: proj p r else proj p r
  end.
Fixpoint keep (f : clog -> bool) (logs : list clog) : list clog :=
  match logs with
  | [] => []
  | l :: r => if f l then l :: keep f r else keep f r
  end.

Section Multi.
  Variable tkof : N -> token ledger.   (* the behaviour of the token contract with a given id *)
  Variable cf : cfg.

  (** PostTxProcessing, one log: the pair is the one registered for the log's contract *)
  Definition mhook_log (w : world) (l : clog) : option world :=
    match lookup_pair w (lc l) with
    | None => Some w
    | Some s => match hook_log (tkof (lc l)) cf s (ll l) with
                | None => None
                | Some s' => Some (<[lc l := s']> w)
                end
    end.

  Definition mhook_logs (w : world) (logs : list clog) : option world :=
    fold_left (fun acc l => match acc with None => None | Some w => mhook_log w l end) logs (Some w).

  (** [on] = Params.EnableErc20 && Params.EnableEVMHook *)
  Definition mhook (on : bool) (w : world) (logs : list clog) : option world :=
    if negb on then Some w else mhook_logs w logs.

  (** the calls of the script contract, in order, each on its own token contract;
      the receipt's logs are the logs of the successful calls in call order, each
      carrying the address of the contract that emitted it *)
  Fixpoint mcalls (w : world) (cs : list mcall) : option (world * list clog) :=
    match cs with
    | [] => Some (w, [])
    | c :: r =>
      match w !! mc_c c with
      | None => mcalls w r        (* no code at that address: the CALL succeeds and does nothing *)
      | Some s =>
        match call_transfer (tkof (mc_c c)) (tok s) (mc_from c) (mc_to c) (mc_x c) with
        | None => if mc_catch c then mcalls w r else None
        | Some (t1, _, lg) =>
          match mcalls (<[mc_c c := set_tok s t1]> w) r with
          | None => None
          | Some (w2, lg2) => Some (w2, map (mkclog (mc_c c)) lg ++ lg2)
          end
        end
      end
    end.

  (** one signed Ethereum transaction to the script contract through ApplyTransaction *)
  Definition multi_tx (on : bool) (w : world) (signer : N) (cs : list mcall) : world * N * list clog :=
    if negb (has_key signer) then (w, EUnauth, []) else
    match mcalls w cs with
    | None => (w, EVMFail, [])
    | Some (w1, logs) =>
      match mhook on w1 logs with
      | None => (w, EOther, [])
      | Some w2 => (w2, OK, logs)
      end
    end.

  (** NOT the code of /repo: a hook that remembers the pair it resolved for the
      previous log's contract ([last]: that contract, [cached]: the contract whose
      pair was found) and, on a registry miss, just skips the log WITHOUT forgetting
      the remembered pair.  The conversion then runs for the remembered pair [p]
      while the burn goes to the contract [c] that emitted the log. *)
  Definition memo_convert (w : world) (p c : N) (l : log) : option world :=
    match w !! p, w !! c with
    | Some sp, Some sc =>
      if negb (N.eqb (lto l) MODULE) then Some w else
      if negb (en sp) then Some w else
      if own_mod sp then
        match call_burn (tkof c) (tok sc) (lamt l) with
        | None => Some w
        | Some (t1, _) =>
          let w1 := <[c := set_tok sc t1]> w in
          match w1 !! p with
          | None => Some w1
          | Some sp1 =>
            if blocked (lfrom l) then Some w1 else
            match bank_send (cbal sp1) MODULE (lfrom l) (lamt l) with
            | None => Some w1
            | Some cb => Some (<[p := set_bank sp1 cb (supply sp1)]> w1)
            end
          end
        end
      else if negb (hook_ext cf) then Some w else
        if MAXU <? supply sp + lamt l then None else
        let cb := zset (cbal sp) MODULE (zget (cbal sp) MODULE + lamt l) in
        let s1 := set_bank sp cb (supply sp + lamt l) in
        if blocked (lfrom l) then Some (<[p := s1]> w) else
        match bank_send cb MODULE (lfrom l) (lamt l) with
        | None => Some (<[p := s1]> w)
        | Some cb' => Some (<[p := set_bank s1 cb' (supply s1)]> w)
        end
    | _, _ => Some w
    end.

  Fixpoint memo_hook_logs (w : world) (last cached : option N) (logs : list clog) : option world :=
    match logs with
    | [] => Some w
    | l :: r =>
      match lk (ll l) with
      | LTransfer =>
        if lamt (ll l) <=? 0 then memo_hook_logs w last cached r else
        let c := lc l in
        if bool_decide (last = Some c) then
          (* same contract as the previous log: no lookup *)
          match cached with
          | None => memo_hook_logs w last cached r
          | Some p => match memo_convert w p c (ll l) with
                      | None => None
                      | Some w1 => memo_hook_logs w1 last cached r
                      end
          end
        else
          match lookup_pair w c with
          | None => memo_hook_logs w (Some c) cached r    (* miss: [cached] is NOT reset *)
          | Some _ => match memo_convert w c c (ll l) with
                      | None => None
                      | Some w1 => memo_hook_logs w1 (Some c) (Some c) r
                      end
          end
      | _ => memo_hook_logs w last cached r
      end
    end.
End Multi.

(** the contract ids the harness uses: 0 the pair under test (when its token is an
    honest ledger), 1 / 2 registered enabled coin-origin / token-origin pairs, 3 a
    registered disabled coin-origin pair, 4 an unregistered honest ERC20, 5 the
    unregistered log-only token *)
Definition FAKE : N := 5.
Definition tk_of (c : N) : token ledger := if N.eqb c FAKE then fakexfer_token else honest_token.

(** * observation, as the harness prints it *)
Record obs := mkobs {
  o_res : N; o_reg : bool; o_en : bool; o_on : bool; o_hook : bool;
  o_coin : list Z; o_supply : Z; o_tok : list (option Z); o_total : option Z; o_code : bool
}.
Global Instance obs_eq_dec : EqDecision obs.
Proof. solve_decision. Defined.

Definition actors : list N := [0; 1; 2; 3; 4; 5; 6; 7]%N.

Definition observe {T} (tk : token T) (s : st T) (res : N) : obs :=
  mkobs res (reg s) (reg s && en s) (erc20_on s) (hook_on s)
        (map (zget (cbal s)) actors) (supply s)
        (map (balance_of tk (tok s)) actors) (total_supply tk (tok s)) (is_contract tk (tok s)).

Fixpoint check_from {T} (tk : token T) (i : nat) (s : st T) (h : list (spell * op * obs)) : option nat :=
  match h with
  | [] => None
  | (sp, o, ob) :: r =>
      let '(s', res) := step_sp tk impl s sp o in
      if bool_decide (observe tk s' res = ob) then check_from tk (S i) s' r else Some i
  end.

Definition init {T} (own : bool) (b : gmap N Z) (sup : Z) (t : T) : st T := mkst true own true true true b sup t.
Definition init_supply : Z := 10 ^ 24.   (* constructor mint of the two malicious Solidity tokens *)

(** kinds: 0 coin-origin pair (the module's own contract); 1 honest external
    token; 2 siphon; 3 approve; 4 const; 5 fakelog; 6 chameleon *)
Definition check_hist (kind : N) (h : list (spell * op * obs)) : option nat :=
  match kind with
  | 0%N => check_from honest_token 0 (init true {[FAR := 1]} 1 (mkledger ∅ 0 MODULE)) h
  | 1%N => check_from honest_token 0 (init false ∅ 0 (mkledger ∅ 0 DEPLOYER)) h
  | 2%N => check_from (preset_token siphon_transfer) 0
             (init false ∅ 0 (mkledger {[DEPLOYER := init_supply]} init_supply DEPLOYER)) h
  | 3%N => check_from approve_token 0
             (init false ∅ 0 (mkapl (mkledger {[DEPLOYER := init_supply]} init_supply DEPLOYER) ∅)) h
  | 4%N => check_from const_token 0 (init false ∅ 0 tt) h
  | 5%N => check_from fakelog_token 0 (init false ∅ 0 tt) h
  | 6%N => check_from cham_token 0 (init false ∅ 0 (mkcham 0 ∅ 0 true)) h
  | _ => Some 0%nat
  end.

(** ** one script transaction against the multi-contract model: the observed state
    of every token contract before, the calls, the observed result, the receipt's
    logs (with what the real registry said about the emitting contract) and the
    observed state of every contract afterwards *)
Global Instance lkind_eq_dec : EqDecision lkind.
Proof. solve_decision. Defined.
Global Instance log_eq_dec : EqDecision log.
Proof. solve_decision. Defined.
Global Instance clog_eq_dec : EqDecision clog.
Proof. solve_decision. Defined.

Record mcase := mkmcase {
  m_on : bool;
  m_pre : list (N * bool * obs);     (* contract id, coin-origin?, observation *)
  m_signer : N;
  m_calls : list mcall;
  m_res : N;
  m_logs : list (clog * bool);       (* log, was its contract a registered pair? *)
  m_post : list (N * bool * obs)
}.

Definition bal_of_list (xs : list Z) : gmap N Z := list_to_map (zip actors xs).
Definition st_of_obs (own : bool) (o : obs) : st ledger :=
  mkst (o_reg o) own (o_en o) (o_on o) (o_hook o) (bal_of_list (o_coin o)) (o_supply o)
       (mkledger (bal_of_list (map (default 0) (o_tok o))) (default 0 (o_total o)) (if own then MODULE else DEPLOYER)).
Definition world_of (l : list (N * bool * obs)) : world :=
  list_to_map (map (fun e => (fst (fst e), st_of_obs (snd (fst e)) (snd e))) l).
Definition wobs (w : world) (l : list (N * bool * obs)) : list (option obs) :=
  map (fun e => match w !! fst (fst e) with
                | Some s => Some (observe (tk_of (fst (fst e))) s 0)
                | None => None
                end) l.

Definition mcheck (m : mcase) : bool :=
  let w := world_of (m_pre m) in
  let '(w', r, logs) := multi_tx tk_of impl (m_on m) w (m_signer m) (m_calls m) in
  bool_decide (r = m_res m) &&
  bool_decide (wobs w (m_pre m) = map (fun e => Some (snd e)) (m_pre m)) &&   (* the model state represents the observation *)
  bool_decide (wobs w' (m_post m) = map (fun e => Some (snd e)) (m_post m)) &&
  bool_decide (logs = map fst (m_logs m)) &&
  forallb (fun e => Bool.eqb (snd e) (match lookup_pair w (lc (fst e)) with Some _ => true | None => false end)) (m_logs m).

Definition check_case (c : N * list (spell * op * obs) * list mcase) : option nat :=
  let '(kind, h, ms) := c in
  match check_hist kind h with
  | Some i => Some i
  | None => if forallb mcheck ms then None else Some (length h)
  end.

Fixpoint mismatches_from (i : nat) (cs : list (N * list (spell * op * obs) * list mcase)) : list nat :=
  match cs with
  | [] => []
  | c :: r => match check_case c with
              | None => mismatches_from (S i) r
              | Some _ => i :: mismatches_from (S i) r
              end
  end.
Definition mismatches cs := mismatches_from 0 cs.
