(** Property C10: the EVM hook over a receipt whose logs come from SEVERAL token
    contracts (registered / disabled / unregistered, any order).  Proofs about
    [mhook_log], [mhook_logs], [mcalls], [multi_tx] of PegModel.v; the per-pair facts are
    the ones of PegProofs.v, lifted through the projection theorem [mhook_logs_proj]. *)
From Coq Require Import ZArith List Lia.
From stdpp Require Import gmap.
From HV Require Import Erc20.PegModel Erc20.PegProofs.
Import ListNotations.
Local Open Scope Z_scope.

(** * small facts *)
Lemma lookup_pair_Some w c s : lookup_pair w c = Some s <-> w !! c = Some s /\ reg s = true.
Proof.
  unfold lookup_pair. destruct (w !! c) as [s0|]; [|split; [discriminate|intros [? _]; discriminate]].
  destruct (reg s0) eqn:Hr; split.
  - intros [= <-]. done.
  - intros [[= <-] _]. done.
  - discriminate.
  - intros [[= <-] ?]. congruence.
Qed.

Lemma lookup_pair_ext w w' c : w' !! c = w !! c -> lookup_pair w' c = lookup_pair w c.
Proof. unfold lookup_pair. intros ->. done. Qed.

Lemma set_tok_id {T} (s : st T) : set_tok s (tok s) = s.
Proof. destruct s. done. Qed.
Lemma set_tok_twice {T} (s : st T) t1 t2 : set_tok (set_tok s t1) t2 = set_tok s t2.
Proof. done. Qed.

Lemma proj_map_app p c lg r : proj p (map (mkclog c) lg ++ r) = (if N.eqb c p then lg else []) ++ proj p r.
Proof.
  induction lg as [|g lg IH]; cbn [map app proj lc ll].
  - destruct (N.eqb c p); done.
  - rewrite IH. destruct (N.eqb c p); done.
Qed.

Lemma keep_ext f g logs : (forall l, f l = g l) -> keep f logs = keep g logs.
Proof. intros H. induction logs as [|l r IH]; cbn [keep]; [done|]. rewrite H, IH. done. Qed.

(** the hook never touches the registry entry of the pair *)
Lemma hook_log_same_pair {T} (tk : token T) cf s l s' : hook_log tk cf s l = Some s' -> same_pair s s'.
Proof.
  unfold hook_log, same_pair. intros H.
  repeat match type of H with
         | context [match ?x with _ => _ end] => destruct x eqn:?
         end; try discriminate; injection H as <-; sst; repeat split; congruence.
Qed.

(** what makes the hook skip a log *)
Lemma hook_log_disabled {T} (tk : token T) cf s g : en s = false -> hook_log tk cf s g = Some s.
Proof.
  intros Hen. unfold hook_log. destruct (lk g); try done.
  destruct (lamt g <=? 0); [done|]. destruct (negb (reg s)); [done|].
  destruct (negb (N.eqb (lto g) MODULE)); [done|]. rewrite Hen. done.
Qed.

Lemma hook_log_ext_spec {T} (tk : token T) cf s g : hook_ext cf = false -> own_mod s = false -> hook_log tk cf s g = Some s.
Proof.
  intros Hcf Hown. unfold hook_log. destruct (lk g); try done.
  destruct (lamt g <=? 0); [done|]. destruct (negb (reg s)); [done|].
  destruct (negb (N.eqb (lto g) MODULE)); [done|]. destruct (negb (en s)); [done|].
  rewrite Hown, Hcf. done.
Qed.

(** coin-origin pair, honest token, ANY log: the backing invariant survives; the gap
    escrow - totalSupply never shrinks and stays put unless the log names the module
    account itself as the sender (its tokens are burned, the coins stay in the escrow) *)
Lemma coin_hook_log_any cf (s : st ledger) g s' : InvCoin s -> hook_log HT cf s g = Some s' ->
  InvCoin s' /\ gap s <= gap s' /\ (lfrom g <> MODULE -> gap s' = gap s).
Proof.
  intros Hinv. destruct (N.eq_dec (lfrom g) MODULE) as [Hm|Hm].
  2:{ intros H. destruct (coin_hook_log cf _ _ _ Hinv Hm H). split; [done|]. split; [lia|done]. }
  pose proof Hinv as [Hown Hmin Hwf Hback]. unfold hook_log.
  destruct (lk g); try (intros [= <-]; split; [done|split; [lia|done]]). rewrite Hown.
  destruct (Z.leb_spec (lamt g) 0); [intros [= <-]; split; [done|split; [lia|done]]|].
  destruct (negb (reg s)); [intros [= <-]; split; [done|split; [lia|done]]|].
  destruct (negb (N.eqb (lto g) MODULE)); [intros [= <-]; split; [done|split; [lia|done]]|].
  destruct (negb (en s)); [intros [= <-]; split; [done|split; [lia|done]]|].
  hsimp. destruct (std_burn (tok s) MODULE (lamt g)) as [[l2 lg2]|] eqn:Hb; [|intros [= <-]; split; [done|split; [lia|done]]].
  destruct (std_burn_spec _ _ _ _ _ Hb) as (_ & Hx2 & _ & Ht2 & Hmi2 & _ & Hw2).
  unfold blocked. rewrite Hm. change (N.eqb MODULE MODULE) with true. cbn iota. intros [= <-].
  split; [split; sst; [done|congruence|auto|unfold gap in *; sst; lia]|].
  split; [unfold gap; sst; lia|done].
Qed.

Lemma coin_hfold_any cf logs : forall (s s' : st ledger), InvCoin s -> hfold HT cf logs (Some s) = Some s' ->
  InvCoin s' /\ gap s <= gap s' /\ (Forall (fun g => lfrom g <> MODULE) logs -> gap s' = gap s).
Proof.
  induction logs as [|g r IH]; intros s s' Hinv; cbn [fold_left].
  - intros [= <-]. split; [done|]. split; [lia|done].
  - destruct (hook_log HT cf s g) as [s1|] eqn:E; [|rewrite hfold_none; discriminate].
    destruct (coin_hook_log_any _ _ _ _ Hinv E) as (Hinv1 & Hle1 & Heq1). intros H.
    destruct (IH _ _ Hinv1 H) as (Hinv2 & Hle2 & Heq2). split; [done|]. split; [lia|].
    intros Hf. inversion Hf as [|? ? Hg Hr]; subst. rewrite (Heq2 Hr), (Heq1 Hg). done.
Qed.

Section MultiProofs.
  Variable tkof : N -> token ledger.
  Variable cf : cfg.

  Notation mfold := (fold_left (fun acc l => match acc with None => None | Some w => mhook_log tkof cf w l end)).

  Lemma mfold_none logs : mfold logs None = None.
  Proof. induction logs as [|l r IH]; cbn [fold_left]; done. Qed.

  Lemma mhook_logs_nil w : mhook_logs tkof cf w [] = Some w.
  Proof. done. Qed.

  Lemma mhook_logs_cons w l r : mhook_logs tkof cf w (l :: r) =
    match mhook_log tkof cf w l with None => None | Some w1 => mhook_logs tkof cf w1 r end.
  Proof. unfold mhook_logs. cbn [fold_left]. destruct (mhook_log tkof cf w l); [done|apply mfold_none]. Qed.

  (** ** one log *)

  (** a log of a contract that is not a registered pair changes no pair *)
  Lemma mhook_log_unregistered w l : lookup_pair w (lc l) = None -> mhook_log tkof cf w l = Some w.
  Proof. unfold mhook_log. intros ->. done. Qed.

  (** a log of a registered but disabled pair changes no pair *)
  Lemma mhook_log_disabled w l s : w !! lc l = Some s -> en s = false -> mhook_log tkof cf w l = Some w.
  Proof.
    intros Hw Hen. unfold mhook_log, lookup_pair. rewrite Hw. destruct (reg s); [|done].
    rewrite hook_log_disabled by done. rewrite insert_id by done. done.
  Qed.

  (** a log of the contract of pair p is processed by p's own hook ... *)
  Lemma mhook_log_pair w l s w' : lookup_pair w (lc l) = Some s -> mhook_log tkof cf w l = Some w' ->
    exists s', hook_log (tkof (lc l)) cf s (ll l) = Some s' /\ w' = <[lc l := s']> w.
  Proof.
    unfold mhook_log. intros ->. destruct (hook_log (tkof (lc l)) cf s (ll l)) as [s'|]; [|discriminate].
    intros [= <-]. exists s'. done.
  Qed.

  (** ... and changes no other pair *)
  Lemma mhook_log_frame w l w' : mhook_log tkof cf w l = Some w' -> forall c, c <> lc l -> w' !! c = w !! c.
  Proof.
    unfold mhook_log. destruct (lookup_pair w (lc l)) as [s|]; [|intros [= <-]; done].
    destruct (hook_log (tkof (lc l)) cf s (ll l)) as [s'|]; [|discriminate].
    intros [= <-] c Hc. rewrite lookup_insert_ne by done. done.
  Qed.

  (** registered and enabled *)
  Definition live (w : world) (l : clog) : bool :=
    match lookup_pair w (lc l) with Some s => en s | None => false end.

  Lemma mhook_log_not_live w l : live w l = false -> mhook_log tkof cf w l = Some w.
  Proof.
    unfold live. destruct (lookup_pair w (lc l)) as [s|] eqn:E; [|intros _; apply mhook_log_unregistered; done].
    intros Hen. apply lookup_pair_Some in E as [Hw _]. eapply mhook_log_disabled; eauto.
  Qed.

  Definition flags (os : option (st ledger)) : option (bool * bool * bool) :=
    match os with Some s => Some (reg s, own_mod s, en s) | None => None end.

  Lemma mhook_log_flags w l w' : mhook_log tkof cf w l = Some w' -> forall c, flags (w' !! c) = flags (w !! c).
  Proof.
    intros H c. destruct (decide (c = lc l)) as [->|Hn]; [|rewrite (mhook_log_frame _ _ _ H c Hn); done].
    destruct (lookup_pair w (lc l)) as [s|] eqn:E.
    - destruct (mhook_log_pair _ _ _ _ E H) as (s' & Hh & ->). apply lookup_pair_Some in E as [Hw _].
      rewrite lookup_insert, Hw. cbn [flags]. apply hook_log_same_pair in Hh as (-> & -> & -> & _). done.
    - rewrite mhook_log_unregistered in H by done. injection H as <-. done.
  Qed.

  Lemma live_flags w w' : (forall c, flags (w' !! c) = flags (w !! c)) -> forall l, live w' l = live w l.
  Proof.
    intros H l. unfold live, lookup_pair. specialize (H (lc l)).
    destruct (w' !! lc l) as [s'|], (w !! lc l) as [s|]; cbn in H; try discriminate; [|done].
    injection H as Hr _ He. rewrite Hr. destruct (reg s); [exact He|done].
  Qed.

  (** ** ALL log sequences *)

  (** projection: whatever the interleaving, the pair registered for contract p ends
      in the state that p's own hook reaches on the sub-sequence of p's logs; a
      contract that is not a registered pair is not touched at all *)
  Theorem mhook_logs_proj logs : forall w w', mhook_logs tkof cf w logs = Some w' -> forall p,
    match lookup_pair w p with
    | Some s => exists s', hfold (tkof p) cf (proj p logs) (Some s) = Some s' /\ w' !! p = Some s'
    | None => w' !! p = w !! p
    end.
  Proof.
    induction logs as [|l r IH]; intros w w'.
    - rewrite mhook_logs_nil. intros [= <-] p. destruct (lookup_pair w p) as [s|] eqn:E; [|done].
      apply lookup_pair_Some in E as [Hw _]. exists s. done.
    - rewrite mhook_logs_cons. destruct (mhook_log tkof cf w l) as [w1|] eqn:E; [|discriminate].
      intros H p. specialize (IH _ _ H p). cbn [proj]. destruct (N.eqb_spec (lc l) p) as [<-|Hn].
      + destruct (lookup_pair w (lc l)) as [s|] eqn:El.
        * destruct (mhook_log_pair _ _ _ _ El E) as (s1 & Hh & ->).
          assert (Hl1 : lookup_pair (<[lc l := s1]> w) (lc l) = Some s1).
          { apply lookup_pair_Some. rewrite lookup_insert. split; [done|].
            apply lookup_pair_Some in El as [_ Hr]. apply hook_log_same_pair in Hh as (-> & _). done. }
          rewrite Hl1 in IH. cbn [fold_left]. rewrite Hh. exact IH.
        * rewrite mhook_log_unregistered in E by done. injection E as <-. rewrite El in IH. exact IH.
      + assert (Hf : w1 !! p = w !! p) by (apply (mhook_log_frame _ _ _ E); done).
        rewrite (lookup_pair_ext _ _ _ Hf) in IH. destruct (lookup_pair w p); [exact IH|congruence].
  Qed.

  Lemma mhook_logs_flags logs : forall w w', mhook_logs tkof cf w logs = Some w' -> forall c, flags (w' !! c) = flags (w !! c).
  Proof.
    induction logs as [|l r IH]; intros w w'.
    - rewrite mhook_logs_nil. intros [= <-]. done.
    - rewrite mhook_logs_cons. destruct (mhook_log tkof cf w l) as [w1|] eqn:E; [|discriminate].
      intros H c. rewrite (IH _ _ H c). apply (mhook_log_flags _ _ _ E).
  Qed.

  (** a contract that is not a registered pair: none of its logs, wherever they stand
      in the receipt, changes ANY entry of the world *)
  Theorem mhook_logs_erase_ignored logs : forall w,
    mhook_logs tkof cf w logs = mhook_logs tkof cf w (keep (live w) logs).
  Proof.
    induction logs as [|l r IH]; intros w; [done|]. cbn [keep]. destruct (live w l) eqn:Hl.
    - rewrite !mhook_logs_cons. destruct (mhook_log tkof cf w l) as [w1|] eqn:E; [|done].
      rewrite IH. f_equal. apply keep_ext. apply live_flags. apply (mhook_log_flags _ _ _ E).
    - rewrite mhook_logs_cons, mhook_log_not_live by done. apply IH.
  Qed.

  (** coin-origin pairs with the honest token, ANY sequence of logs of ANY contracts:
      totalSupply <= escrow survives for every such pair, the gap never shrinks, and it
      is unchanged when no log names the module account as sender *)
  Theorem mhook_logs_keeps_coin_backing logs w w' p s :
    mhook_logs tkof cf w logs = Some w' -> lookup_pair w p = Some s -> tkof p = HT -> InvCoin s ->
    exists s', lookup_pair w' p = Some s' /\ InvCoin s' /\ gap s <= gap s' /\
               (Forall (fun g => lfrom g <> MODULE) (proj p logs) -> gap s' = gap s).
  Proof.
    intros H Hl Ht Hinv. pose proof (mhook_logs_proj _ _ _ H p) as Hp. rewrite Hl, Ht in Hp.
    destruct Hp as (s' & Hf & Hw'). exists s'.
    destruct (coin_hfold_any _ _ _ _ Hinv Hf) as (Hinv' & Hle & Heq).
    split; [|done]. apply lookup_pair_Some. split; [done|].
    pose proof (mhook_logs_flags _ _ _ H p) as Hfl. apply lookup_pair_Some in Hl as [Hw Hr].
    rewrite Hw', Hw in Hfl. cbn in Hfl. injection Hfl as -> _ _. done.
  Qed.

  (** in the semantics without the log-driven mint for token-origin pairs (what the
      property demands, [hook_ext cf = false]) NO sequence of logs changes such a pair *)
  Theorem mhook_logs_ext_untouched_spec logs w w' p s : hook_ext cf = false ->
    mhook_logs tkof cf w logs = Some w' -> lookup_pair w p = Some s -> own_mod s = false -> w' !! p = Some s.
  Proof.
    intros Hcf H Hl Hown. pose proof (mhook_logs_proj _ _ _ H p) as Hp. rewrite Hl in Hp.
    destruct Hp as (s' & Hf & ->). f_equal.
    assert (Hs : forall lg, hfold (tkof p) cf lg (Some s) = Some s).
    { induction lg as [|g lg IHl]; cbn [fold_left]; [done|]. rewrite hook_log_ext_spec by done. exact IHl. }
    rewrite Hs in Hf. congruence.
  Qed.

  (** ** the calls of the script contract *)
  Lemma mcalls_spec cs : Forall (fun c => mc_from c <> MODULE) cs -> forall w w1 logs,
    mcalls tkof w cs = Some (w1, logs) -> forall p,
    match w !! p with
    | None => w1 !! p = None
    | Some s => exists t1, w1 !! p = Some (set_tok s t1) /\
        (tkof p = HT -> (wfl (tok s) -> wfl t1) /\ ltotal t1 = ltotal (tok s) /\ lminter t1 = lminter (tok s) /\
           Forall (fun g => lfrom g <> MODULE /\ 0 <= lamt g) (proj p logs) /\
           zget (lbal t1) MODULE = zget (lbal (tok s)) MODULE + to_mod (proj p logs))
    end.
  Proof.
    induction 1 as [|c r Hc Hr IH]; intros w w1 logs; cbn [mcalls].
    - intros [= <- <-] p. destruct (w !! p) as [s|] eqn:Hw; [|done]. exists (tok s). rewrite set_tok_id.
      split; [done|]. intros _. cbn [proj to_mod]. do 3 (split; [done|]). split; [constructor|lia].
    - destruct (w !! mc_c c) as [sc|] eqn:Hwc; [|apply IH].
      destruct (call_transfer (tkof (mc_c c)) (tok sc) (mc_from c) (mc_to c) (mc_x c)) as [[[t1 ret] lg]|] eqn:Htr.
      2:{ destruct (mc_catch c); [apply IH|discriminate]. }
      destruct (mcalls tkof (<[mc_c c := set_tok sc t1]> w) r) as [[w2 lg2]|] eqn:Hm; [|discriminate].
      intros [= <- <-] p. specialize (IH _ _ _ Hm p). rewrite proj_map_app.
      destruct (decide (p = mc_c c)) as [->|Hn].
      + rewrite lookup_insert in IH. rewrite Hwc. destruct IH as (t2 & Hw2 & Hh). exists t2.
        split; [rewrite Hw2, set_tok_twice; done|]. intros Hht. destruct (Hh Hht) as (Hwf & Htot & Hmi & Hf & Hz).
        sst. rewrite Hht in Htr. hsimp.
        destruct (std_transfer (tok sc) (mc_from c) (mc_to c) (mc_x c)) as [[l1 g1]|] eqn:Hst; cbn [with_ret] in Htr; [|discriminate].
        injection Htr as <- _ <-.
        destruct (std_transfer_spec _ _ _ _ _ _ Hst) as (_ & _ & Hx & -> & Ht1 & Hm1 & Hz1 & Hw1).
        rewrite N.eqb_refl. cbn [app to_mod tlog lto lamt].
        split; [auto|]. split; [congruence|]. split; [congruence|]. split.
        * constructor; [cbn; split; [done|lia]|done].
        * rewrite Hz, Hz1, (ind_diff (mc_from c) MODULE) by done. unfold ind.
          destruct (N.eqb_spec (mc_to c) MODULE) as [->|Hne].
          -- rewrite decide_True by done. lia.
          -- rewrite decide_False by done. lia.
      + rewrite lookup_insert_ne in IH by done. destruct (N.eqb_spec (mc_c c) p) as [<-|_]; [done|]. exact IH.
  Qed.

  (** ** one transaction: the calls, then the hook over all the logs *)

  (** the backing invariant of every registered pair (honest tokens) *)
  Definition WInv (w : world) : Prop :=
    forall c s, lookup_pair w c = Some s -> if own_mod s then InvCoin s else InvExt s.

  Lemma inv_after_calls (s : st ledger) t1 lg : (wfl (tok s) -> wfl t1) -> ltotal t1 = ltotal (tok s) ->
    lminter t1 = lminter (tok s) -> Forall (fun g => lfrom g <> MODULE /\ 0 <= lamt g) lg ->
    zget (lbal t1) MODULE = zget (lbal (tok s)) MODULE + to_mod lg ->
    (if own_mod s then InvCoin s else InvExt s) ->
    (if own_mod s then InvCoin (set_tok s t1) /\ gap (set_tok s t1) = gap s
     else supply s + to_mod lg <= zget (lbal t1) MODULE /\ 0 <= to_mod lg).
  Proof.
    intros Hwf Htot Hmi Hf Hz. destruct (own_mod s) eqn:Hown.
    - intros [_ Hmin Hw Hback]. split; [split; sst; [done|congruence|auto|unfold gap in *; sst; lia]|unfold gap; sst; lia].
    - intros [_ Hback]. assert (0 <= to_mod lg).
      { apply to_mod_nonneg. eapply Forall_impl; [exact Hf|]. intros g [_ ?]. done. }
      lia.
  Qed.

  (** ANY list of calls on ANY mix of token contracts: the contracts that are not
      registered pairs may be ANY token behaviour (emit whatever Transfer events they
      like), the registered pairs have honest tokens: every registered pair is backed
      afterwards, in either semantics *)
  Theorem multi_tx_keeps_backing on w signer cs w' r logs :
    (forall c s, lookup_pair w c = Some s -> tkof c = HT) ->
    Forall (fun c => mc_from c <> MODULE) cs -> WInv w ->
    multi_tx tkof cf on w signer cs = (w', r, logs) -> WInv w'.
  Proof.
    intros Hhon Hfrom Hinv. unfold multi_tx.
    destruct (has_key signer); cbn [negb]; [|intros [= <- _ _]; done].
    destruct (mcalls tkof w cs) as [[w1 lg]|] eqn:Hm; [|intros [= <- _ _]; done].
    pose proof (mcalls_spec cs Hfrom _ _ _ Hm) as Hspec.
    (* the world after the calls *)
    assert (H1 : forall c s1, lookup_pair w1 c = Some s1 ->
              exists s, lookup_pair w c = Some s /\ exists t1, s1 = set_tok s t1 /\
                (if own_mod s then InvCoin s1 /\ gap s1 = gap s
                 else supply s + to_mod (proj c lg) <= zget (lbal t1) MODULE /\ 0 <= to_mod (proj c lg)) /\
                Forall (fun g => lfrom g <> MODULE /\ 0 <= lamt g) (proj c lg)).
    { intros c s1 Hl1. apply lookup_pair_Some in Hl1 as [Hw1 Hr1]. specialize (Hspec c).
      destruct (w !! c) as [s|] eqn:Hw; [|congruence]. destruct Hspec as (t1 & Hw1' & Hh).
      rewrite Hw1 in Hw1'. injection Hw1' as ->. sst.
      assert (Hl : lookup_pair w c = Some s) by (apply lookup_pair_Some; done).
      exists s. split; [done|]. exists t1. split; [done|].
      destruct (Hh (Hhon _ _ Hl)) as (Hwf & Htot & Hmi & Hf & Hz). split; [|done].
      apply inv_after_calls; [exact Hwf|exact Htot|exact Hmi|exact Hf|exact Hz|exact (Hinv _ _ Hl)]. }
    unfold mhook. destruct on; cbn [negb].
    - destruct (mhook_logs tkof cf w1 lg) as [w2|] eqn:Hh; intros [= <- _ _]; [|done].
      intros c s2 Hl2. pose proof (mhook_logs_proj _ _ _ Hh c) as Hp.
      destruct (lookup_pair w1 c) as [s1|] eqn:Hl1.
      2:{ rewrite (lookup_pair_ext _ _ _ Hp), Hl1 in Hl2. discriminate. }
      destruct Hp as (s2' & Hf & Hw2). apply lookup_pair_Some in Hl2 as [Hw2' _].
      rewrite Hw2 in Hw2'. injection Hw2' as ->.
      destruct (H1 _ _ Hl1) as (s & Hl & t1 & -> & Hi & Hfl). rewrite (Hhon _ _ Hl) in Hf.
      specialize (Hinv _ _ Hl). destruct (own_mod s) eqn:Hown.
      + destruct Hi as [Hi _]. destruct (coin_hfold_any _ _ _ _ Hi Hf) as (Hi2 & _). rewrite (ic_own _ Hi2). done.
      + destruct Hi as [Hle Hnn].
        assert (Hf0 : Forall (fun g => 0 <= lamt g) (proj c lg)).
        { eapply Forall_impl; [exact Hfl|]. intros g [_ ?]. done. }
        pose proof (ext_hook_fold cf (proj c lg) (set_tok s t1) Hown Hf0) as He. rewrite Hf in He.
        assert (Hi2 : InvExt s2) by (apply He; sst; destruct Hinv; lia). rewrite (ie_own _ Hi2). done.
    - intros [= <- _ _]. intros c s1 Hl1. destruct (H1 _ _ Hl1) as (s & Hl & t1 & -> & Hi & _).
      specialize (Hinv _ _ Hl). sst. destruct (own_mod s) eqn:Hown; [destruct Hi; done|].
      destruct Hi as [Hle Hnn]. destruct Hinv as [_ Hb]. split; sst; [done|lia].
  Qed.

  Lemma mcalls_tok_only cs p : forall w w1 lg s, mcalls tkof w cs = Some (w1, lg) -> w !! p = Some s ->
    exists t1, w1 !! p = Some (set_tok s t1).
  Proof.
    induction cs as [|c cs IH]; intros w w1 lg s; cbn [mcalls].
    - intros [= <- <-] Hw. exists (tok s). rewrite set_tok_id. done.
    - destruct (w !! mc_c c) as [sc|] eqn:Hwc; [|apply IH].
      destruct (call_transfer _ _ _ _ _) as [[[t1 ret] g1]|]; [|destruct (mc_catch c); [apply IH|discriminate]].
      destruct (mcalls tkof (<[mc_c c := set_tok sc t1]> w) cs) as [[w2 lg2]|] eqn:Hm; [|discriminate].
      intros [= <- <-] Hw. destruct (decide (p = mc_c c)) as [->|Hn].
      + rewrite Hwc in Hw. injection Hw as ->.
        destruct (IH _ _ _ _ Hm (lookup_insert _ _ _)) as (t2 & Ht2). exists t2. rewrite Ht2, set_tok_twice. done.
      + apply (IH _ _ _ _ Hm). rewrite lookup_insert_ne by done. done.
  Qed.

  (** ... and a contract that is not a registered pair stays unregistered, its
      would-be denomination untouched: only its own token state can have moved *)
  Theorem multi_tx_unregistered_frame on w signer cs w' r logs p s :
    multi_tx tkof cf on w signer cs = (w', r, logs) -> w !! p = Some s -> reg s = false ->
    exists t1, w' !! p = Some (set_tok s t1).
  Proof.
    unfold multi_tx. intros H Hw Hr.
    destruct (has_key signer); cbn [negb] in H; [|injection H as <- _ _; exists (tok s); rewrite set_tok_id; done].
    destruct (mcalls tkof w cs) as [[w1 lg]|] eqn:Hm; [|injection H as <- _ _; exists (tok s); rewrite set_tok_id; done].
    assert (H1 : exists t1, w1 !! p = Some (set_tok s t1)) by (eapply mcalls_tok_only; eauto).
    destruct H1 as (t1 & Hw1). unfold mhook in H. destruct on; cbn [negb] in H.
    - destruct (mhook_logs tkof cf w1 lg) as [w2|] eqn:Hh; injection H as <- _ _; [|exists (tok s); rewrite set_tok_id; done].
      pose proof (mhook_logs_proj _ _ _ Hh p) as Hp. unfold lookup_pair in Hp. rewrite Hw1 in Hp. sst. rewrite Hr in Hp.
      exists t1. congruence.
    - injection H as <- _ _. exists t1. done.
  Qed.
End MultiProofs.

(** * one log converts exactly its own amount, for its own pair only *)
Theorem mhook_log_exact_coin tkof cf w l (s : st ledger) from x :
  lookup_pair w (lc l) = Some s -> tkof (lc l) = HT -> InvCoin s -> en s = true ->
  ll l = tlog from MODULE x -> 0 < x -> x <= zget (lbal (tok s)) MODULE -> from <> MODULE ->
  exists s', mhook_log tkof cf w l = Some (<[lc l := s']> w) /\ InvCoin s' /\ same_pair s s' /\
    tok_moves s s' (fun c => - x * ind MODULE c) /\ ltotal (tok s') = ltotal (tok s) - x /\
    coin_moves s s' (fun c => x * ind from c - x * ind MODULE c) /\ supply s' = supply s.
Proof.
  intros Hl Ht Hinv Hen Hll Hx Hle Hf. pose proof Hl as Hl'. apply lookup_pair_Some in Hl' as [_ Hr].
  destruct (coin_hook_log_exact cf s from x Hinv Hr Hen Hx Hle Hf) as (s' & Hh & Hrest).
  exists s'. split; [|exact Hrest]. unfold mhook_log. rewrite Hl, Ht, Hll, Hh. done.
Qed.

Theorem mhook_log_exact_ext tkof cf w l (s : st ledger) from x :
  lookup_pair w (lc l) = Some s -> tkof (lc l) = HT -> own_mod s = false -> en s = true -> hook_ext cf = true ->
  ll l = tlog from MODULE x -> 0 < x -> 0 <= zget (cbal s) MODULE -> from <> MODULE ->
  match mhook_log tkof cf w l with
  | None => MAXU < supply s + x      (* sdk.Int overflow *)
  | Some w' => exists s', w' = <[lc l := s']> w /\ same_pair s s' /\ tok s' = tok s /\
                 coin_moves s s' (fun c => x * ind from c) /\ supply s' = supply s + x
  end.
Proof.
  intros Hl Ht Hown Hen Hcf Hll Hx Hesc Hf. pose proof Hl as Hl'. apply lookup_pair_Some in Hl' as [_ Hr].
  pose proof (ext_hook_log_exact cf s from x Hown Hr Hen Hcf Hx Hesc Hf) as He.
  unfold mhook_log. rewrite Hl, Ht, Hll.
  destruct (hook_log HT cf s (tlog from MODULE x)) as [s'|] eqn:Hh; [exists s'; done|].
  revert Hh. unfold hook_log. cbn [tlog lk lamt lto lfrom]. rewrite Hown, Hr, Hen, Hcf.
  destruct (Z.leb_spec x 0); [lia|]. cbn [negb]. change (N.eqb MODULE MODULE) with true. cbn [negb].
  destruct (Z.ltb_spec MAXU (supply s + x)); [done|].
  destruct (blocked from); [discriminate|]. destruct (bank_send _ _ _ _); discriminate.
Qed.

(** * witnesses *)

(** contracts: 1 = A, a registered coin-origin pair (escrow 100 = totalSupply 100:
    holder 1 owns 100 tokens); 2 = A', a registered token-origin pair (coin supply 40 =
    tokens held by the module); 4 = B, an honest ERC20 that is NOT registered (holder 1
    owns 80); 3 = a registered, DISABLED coin-origin pair *)
Definition sA : st ledger := mkst true true true true true {[MODULE := 100]} 100 (mkledger {[1%N := 100]} 100 MODULE).
Definition sA' : st ledger := mkst true false true true true {[2%N := 40]} 40 (mkledger {[MODULE := 40; 1%N := 60]} 100 DEPLOYER).
Definition sD : st ledger := mkst true true false true true {[MODULE := 30]} 30 (mkledger {[1%N := 30]} 30 MODULE).
Definition sB : st ledger := mkst false false false true true ∅ 0 (mkledger {[1%N := 80]} 80 DEPLOYER).
Definition wit_world : world := {[ 1%N := sA; 2%N := sA'; 3%N := sD; 4%N := sB ]}.

Definition backed (w : world) (c : N) : bool :=
  match w !! c with
  | Some s => if own_mod s then ltotal (tok s) <=? zget (cbal s) MODULE else supply s <=? zget (lbal (tok s)) MODULE
  | None => false
  end.

Definition view (w : world) (c : N) : option (Z * Z * Z * Z * Z) :=   (* escrow, coin supply, coins of holder 1, totalSupply, tokens of the module *)
  match w !! c with
  | Some s => Some (zget (cbal s) MODULE, supply s, zget (cbal s) 1, ltotal (tok s), zget (lbal (tok s)) MODULE)
  | None => None
  end.

(** [A; B; B] as calls of holder 1: A.transferFrom(1, 2, 10), B.transferFrom(1, module, 25) twice *)
Definition abb_calls (a : N) : list mcall :=
  [mkmcall a 1 2 10 true; mkmcall 4 1 MODULE 25 true; mkmcall 4 1 MODULE 25 true].

Definition after_calls (cs : list mcall) : world * list clog :=
  default (wit_world, []) (mcalls tk_of wit_world cs).

(** the hook of /repo: pair A is not touched by B's logs ... *)
Example abb_faithful_coin :
  let '(w1, logs) := after_calls (abb_calls 1) in
  logs = [mkclog 1 (tlog 1 2 10); mkclog 4 (tlog 1 MODULE 25); mkclog 4 (tlog 1 MODULE 25)] /\
  match mhook_logs tk_of impl w1 logs with
  | Some w2 => view w2 1 = Some (100, 100, 0, 100, 0) /\ backed w2 1 = true /\ view w2 4 = Some (0, 0, 0, 80, 50)
  | None => False
  end.
Proof. vm_compute. done. Qed.

(** ... a hook that remembers the pair of the previous contract and does not forget
    it on a registry miss converts B's SECOND log for pair A: 25 of A's escrowed coins
    leave for 25 burned B tokens: totalSupply 100 > escrow 75 *)
Example abb_memo_refuted_coin :
  let '(w1, logs) := after_calls (abb_calls 1) in
  match memo_hook_logs tk_of impl w1 None None logs with
  | Some w2 => view w2 1 = Some (75, 100, 25, 100, 0) /\ backed w2 1 = false /\ view w2 4 = Some (0, 0, 0, 55, 25)
  | None => False
  end.
Proof. vm_compute. done. Qed.

(** token-origin A': the remembered pair mints 25 coins of A' for B's second log:
    coin supply 65 > 40 tokens held by the module *)
Example abb_faithful_ext :
  let '(w1, logs) := after_calls (abb_calls 2) in
  match mhook_logs tk_of impl w1 logs with
  | Some w2 => view w2 2 = Some (0, 40, 0, 100, 40) /\ backed w2 2 = true
  | None => False
  end.
Proof. vm_compute. done. Qed.

Example abb_memo_refuted_ext :
  let '(w1, logs) := after_calls (abb_calls 2) in
  match memo_hook_logs tk_of impl w1 None None logs with
  | Some w2 => view w2 2 = Some (0, 65, 25, 100, 40) /\ backed w2 2 = false
  | None => False
  end.
Proof. vm_compute. done. Qed.

(** the neighbours on which the remembering hook agrees with /repo's:
    [B; B; A], [A; B], [A; B; A; B] *)
Definition bba_calls : list mcall := [mkmcall 4 1 MODULE 25 true; mkmcall 4 1 MODULE 25 true; mkmcall 1 1 MODULE 10 true].
Definition ab_calls : list mcall := [mkmcall 1 1 MODULE 10 true; mkmcall 4 1 MODULE 25 true].
Definition abab_calls : list mcall :=
  [mkmcall 1 1 MODULE 10 true; mkmcall 4 1 MODULE 25 true; mkmcall 1 1 MODULE 5 true; mkmcall 4 1 MODULE 25 true].

Definition views (ow : option world) : option (list (option (Z * Z * Z * Z * Z))) :=
  match ow with Some w => Some (map (view w) [1; 2; 3; 4]%N) | None => None end.

Example memo_agrees_on_neighbours :
  Forall (fun cs => let '(w1, logs) := after_calls cs in
                    views (memo_hook_logs tk_of impl w1 None None logs) = views (mhook_logs tk_of impl w1 logs) /\
                    match mhook_logs tk_of impl w1 logs with Some w2 => backed w2 1 = true | None => False end)
         [bba_calls; ab_calls; abab_calls].
Proof. do 3 (constructor; [vm_compute; split; reflexivity|]). constructor. Qed.

(** non-vacuity of the backing theorem: a transaction with logs of four contracts,
    the same ones at non-adjacent positions ([A; B; B; A; A'; dis; B; A']); the
    hypotheses hold, the transaction succeeds, exactly the logs of the two live pairs
    that go to the module convert (A: 10 + 5, A': 7), everything else is inert *)
Definition mix_calls : list mcall :=
  [mkmcall 1 1 MODULE 10 true; mkmcall 4 1 MODULE 25 true; mkmcall 4 1 MODULE 25 true; mkmcall 1 1 MODULE 5 true;
   mkmcall 2 1 MODULE 7 true; mkmcall 3 1 MODULE 9 true; mkmcall 4 1 2 3 true; mkmcall 2 1 3 4 true].

Lemma single_holder_wfl (x : Z) m : 0 <= x -> wfl (mkledger {[1%N := x]} x m).
Proof.
  intros Hx. split; cbn [lbal ltotal].
  - intros a. unfold zget. destruct (decide (a = 1%N)) as [->|].
    + rewrite lookup_singleton. done.
    + rewrite lookup_singleton_ne by done. done.
  - rewrite <- insert_empty, msum_insert_fresh by apply lookup_empty. rewrite msum_empty. lia.
Qed.

Lemma wit_world_inv : WInv wit_world.
Proof.
  intros c s Hl. apply lookup_pair_Some in Hl as [Hw Hr]. unfold wit_world in Hw.
  destruct (decide (c = 1%N)) as [->|]; [rewrite lookup_insert in Hw|rewrite lookup_insert_ne in Hw by done].
  { injection Hw as <-. cbn [own_mod sA]. split; cbn [own_mod tok sA lminter]; [done|done|apply single_holder_wfl; done|].
    unfold gap. vm_compute. discriminate. }
  destruct (decide (c = 2%N)) as [->|]; [rewrite lookup_insert in Hw|rewrite lookup_insert_ne in Hw by done].
  { injection Hw as <-. cbn [own_mod sA']. split; [done|]. vm_compute. discriminate. }
  destruct (decide (c = 3%N)) as [->|]; [rewrite lookup_insert in Hw|rewrite lookup_insert_ne in Hw by done].
  { injection Hw as <-. cbn [own_mod sD]. split; cbn [own_mod tok sD lminter]; [done|done|apply single_holder_wfl; done|].
    unfold gap. vm_compute. discriminate. }
  destruct (decide (c = 4%N)) as [->|]; [rewrite lookup_singleton in Hw|rewrite lookup_singleton_ne in Hw by done].
  { injection Hw as <-. discriminate. }
  discriminate.
Qed.

Example mix_runs :
  WInv wit_world /\ (forall c s, lookup_pair wit_world c = Some s -> tk_of c = HT) /\
  Forall (fun c => mc_from c <> MODULE) mix_calls /\
  let '(w', r, logs) := multi_tx tk_of impl true wit_world 1 mix_calls in
  r = OK /\ map lc logs = [1; 4; 4; 1; 2; 3; 4; 2]%N /\
  view w' 1 = Some (85, 100, 15, 85, 0) /\ view w' 2 = Some (0, 47, 7, 100, 47) /\
  view w' 3 = Some (30, 30, 0, 30, 9) /\ view w' 4 = Some (0, 0, 0, 80, 50) /\
  views (mhook_logs tk_of impl (fst (after_calls mix_calls)) logs)
    = views (mhook_logs tk_of impl (fst (after_calls mix_calls)) (keep (fun l => N.eqb (lc l) 1 || N.eqb (lc l) 2) logs)).
Proof.
  split; [exact wit_world_inv|]. split.
  - intros c s Hl. apply lookup_pair_Some in Hl as [Hw Hr]. unfold tk_of.
    destruct (N.eqb_spec c FAKE) as [->|]; [|done]. vm_compute in Hw. discriminate.
  - split; [repeat constructor; done|]. vm_compute. repeat split; done.
Qed.
