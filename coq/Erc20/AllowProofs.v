(** Property C10, finding K19: the delayed-malicious token of /repo/contracts
    (ERC20MaliciousDelayed: every transfer(recipient, x) first gives a third party, the
    "thief", an allowance of 10^18 on the RECIPIENT's tokens) registered as an ERC20-origin
    pair.  The message path (MsgConvertERC20 / MsgConvertCoin / the MsgSend wrapper / the IBC
    callbacks) watches the logs of its own EVM call for an Approval event and refuses the
    token; the EVM hook (PostTxProcessing: a transfer to the module address inside an
    Ethereum transaction) has no such monitor: it mints the coins, and the tokens it took
    into escrow carry the thief's allowance.  [approve_token] (PegModel.v) is that contract
    with its allowances; [Spend owner x] is the thief's transferFrom(owner, thief, x). *)
From Coq Require Import ZArith List Lia.
From stdpp Require Import gmap.
From HV Require Import Erc20.PegModel Erc20.PegProofs.
Import ListNotations.
Local Open Scope Z_scope.

(** the state clause of the property against ANY token oracle: coin-origin pair: the ERC20
    total supply does not exceed the coins escrowed in the module account; ERC20-origin pair:
    the coin supply does not exceed the tokens the token reports for the module *)
Definition peg_backed {T} (tk : token T) (s : st T) : Prop :=
  if own_mod s
  then exists t, total_supply tk (tok s) = Some t /\ t <= zget (cbal s) MODULE
  else exists b, balance_of tk (tok s) MODULE = Some b /\ supply s <= b.

(** for the honest token this is [backing_inv] *)
Lemma peg_backed_honest (s : st ledger) : peg_backed HT s <-> backing_inv s.
Proof.
  unfold peg_backed, backing_inv. destruct (own_mod s); cbn.
  - split; [intros (t & [= <-] & H); done|intros H; eexists; split; [reflexivity|done]].
  - split; [intros (t & [= <-] & H); done|intros H; eexists; split; [reflexivity|done]].
Qed.

Lemma peg_backed_ext_intro {T} (tk : token T) (s : st T) b :
  own_mod s = false -> balance_of tk (tok s) MODULE = Some b -> supply s <= b -> peg_backed tk s.
Proof. intros Ho Hb Hle. unfold peg_backed. rewrite Ho. eexists. split; [exact Hb|exact Hle]. Qed.

Lemma peg_backed_ext_elim {T} (tk : token T) (s : st T) :
  peg_backed tk s -> own_mod s = false -> exists b, balance_of tk (tok s) MODULE = Some b /\ supply s <= b.
Proof. unfold peg_backed. intros H Ho. rewrite Ho in H. exact H. Qed.

(** the pair as the harness registers it: the deployer holds the constructor mint *)
Definition approve0 : st apl :=
  init false ∅ 0 (mkapl (mkledger {[DEPLOYER := init_supply]} init_supply DEPLOYER) ∅).

(** the witness (corpus/C10/k19_hook_allowance_spent.jsonl): the deployer mints 1000 tokens to
    holder 1; holder 1 sends the Ethereum transaction token.transfer(module address, 100); the
    thief calls transferFrom(module, thief, 100) *)
Definition k19_history : list op :=
  [Eth DEPLOYER (UMint 1 1000); Eth 1 (UTransfer MODULE 100); Spend MODULE 100].

(** finding K19 (known, class erc20:hook-path-conversion-grants-allowance-on-module-tokens): in the
    semantics of /repo every step of the witness succeeds; after the hook-path conversion the pair
    is still backed (100 coins, 100 tokens in escrow) but the thief holds an allowance of 10^18 on
    the module's tokens; after the spend 100 coins circulate and the module holds nothing *)
Theorem hook_path_approving_token_breaks_backing_refuted :
  exists h : list op,
    let s1 := run approve_token impl (firstn 2 h) approve0 in
    let s' := run approve_token impl h approve0 in
    peg_backed approve_token approve0 /\
    codes approve_token impl h approve0 = [OK; OK; OK] /\
    peg_backed approve_token s1 /\ supply s1 = 100 /\ zget (aallow (tok s1)) MODULE = 10 ^ 18 /\
    reg s' = true /\ en s' = true /\ own_mod s' = false /\
    supply s' = 100 /\ zget (cbal s') 1 = 100 /\
    balance_of approve_token (tok s') MODULE = Some 0 /\ balance_of approve_token (tok s') THIEF = Some 100 /\
    ~ peg_backed approve_token s'.
Proof.
  exists k19_history. cbn zeta.
  assert (Hb : balance_of approve_token (tok (run approve_token impl k19_history approve0)) MODULE = Some 0)
    by (vm_compute; reflexivity).
  assert (Hs : supply (run approve_token impl k19_history approve0) = 100) by (vm_compute; reflexivity).
  split; [eapply peg_backed_ext_intro; [vm_compute; reflexivity|vm_compute; reflexivity|vm_compute; discriminate]|].
  split; [vm_compute; reflexivity|].
  split; [eapply peg_backed_ext_intro; [vm_compute; reflexivity|vm_compute; reflexivity|vm_compute; discriminate]|].
  do 5 (split; [vm_compute; reflexivity|]).
  split; [exact Hs|]. split; [vm_compute; reflexivity|]. split; [exact Hb|]. split; [vm_compute; reflexivity|].
  assert (Ho : own_mod (run approve_token impl k19_history approve0) = false) by (vm_compute; reflexivity).
  intros Hbk. destruct (peg_backed_ext_elim approve_token (run approve_token impl k19_history approve0) Hbk Ho) as (b & Hb' & Hle). rewrite Hb in Hb'. injection Hb' as <-. rewrite Hs in Hle. lia.
Qed.

(** the same history in the semantics the property demands ([spec]: no log-driven mint for
    externally owned pairs): the transfer to the module address is a plain transfer, no coin
    exists, and the thief taking those tokens breaks nothing *)
Theorem hook_path_approving_token_spec :
  let s' := run approve_token spec k19_history approve0 in
  codes approve_token spec k19_history approve0 = [OK; OK; OK] /\ supply s' = 0 /\ peg_backed approve_token s'.
Proof.
  cbn zeta. split; [vm_compute; reflexivity|]. split; [vm_compute; reflexivity|].
  eapply peg_backed_ext_intro; [vm_compute; reflexivity|vm_compute; reflexivity|vm_compute; discriminate].
Qed.

(** * the message path refuses this token, in EVERY state *)

(** every transfer() of the token emits the Approval event first: the monitor fires *)
Lemma apl_transfer_monitored t c to x t1 g : apl_transfer t c to x = Some (t1, g) -> approval_check g = EApproval.
Proof.
  unfold apl_transfer, approve_transfer. destruct (N.eqb to ZERO); [discriminate|].
  destruct (std_transfer (al t) c to x) as [[l1 g1]|]; [|discriminate]. intros [= <- <-]. reflexivity.
Qed.

Ltac refused := eexists; split; [reflexivity|done].

Lemma a_cc_refused (s : st apl) a b x : exists r, cc_native_erc20 approve_token s a b x = (s, r) /\ r <> OK.
Proof.
  unfold cc_native_erc20. cbn [approve_token balance_of call_transfer].
  destruct (bank_send (cbal s) a MODULE x); [|refused].
  destruct (apl_transfer (tok s) MODULE b x) as [[t1 lg]|] eqn:Ht; [|refused].
  destruct (negb _); [refused|]. rewrite (apl_transfer_monitored _ _ _ _ _ _ Ht). refused.
Qed.

Lemma a_ce_refused (s : st apl) a b x : exists r, ce_native_token approve_token s a b x = (s, r) /\ r <> OK.
Proof.
  unfold ce_native_token. cbn [approve_token balance_of call_transfer].
  destruct (apl_transfer (tok s) a MODULE x) as [[t1 lg]|] eqn:Ht; [|refused].
  destruct (negb _); [refused|]. destruct (MAXU <? _); [refused|].
  rewrite (apl_transfer_monitored _ _ _ _ _ _ Ht). refused.
Qed.

(** MsgConvertCoin / MsgConvertERC20 and the keeper entry points behind the wrapper and the IBC
    callbacks: against this token an ERC20-origin pair never converts, in any state, and
    nothing changes (ErrUnexpectedEvent when everything else would have passed) *)
Lemma a_convert_coin_refused (s : st apl) a b x : own_mod s = false ->
  exists r, convert_coin approve_token s a b x = (s, r) /\ r <> OK.
Proof.
  intros Hown. unfold convert_coin. destruct (minting_enabled s b) as [|p]; [|refused].
  cbn [approve_token is_contract negb]. rewrite Hown. apply a_cc_refused.
Qed.

Lemma a_convert_erc20_refused (s : st apl) a b x : own_mod s = false ->
  exists r, convert_erc20 approve_token s a b x = (s, r) /\ r <> OK.
Proof.
  intros Hown. unfold convert_erc20. destruct (minting_enabled s b) as [|p]; [|refused].
  cbn [approve_token is_contract negb]. rewrite Hown. apply a_ce_refused.
Qed.

Theorem message_path_refuses_approving_token (s : st apl) a b x : own_mod s = false ->
  (exists r, msg_convert_erc20 approve_token s a b x = (s, r) /\ r <> OK) /\
  (exists r, msg_convert_coin approve_token s a b x = (s, r) /\ r <> OK).
Proof.
  intros Hown. split.
  - unfold msg_convert_erc20. destruct (x <=? 0); [refused|]. destruct (N.eqb a MODULE); [refused|].
    apply a_convert_erc20_refused. done.
  - unfold msg_convert_coin. destruct (x <=? 0); [refused|]. destruct (N.eqb a MODULE); [refused|].
    apply a_convert_coin_refused. done.
Qed.

(** the refusal is the Approval monitor's: holder 1 owns 1000 tokens, everything else is in order *)
Example message_path_refusal_is_the_monitor :
  let s := run approve_token impl [Eth DEPLOYER (UMint 1 1000)] approve0 in
  step approve_token impl s (CE 1 1 100) = (s, EApproval) /\
  step approve_token impl s (Spend MODULE 100) = (s, EOther).
Proof. vm_compute. split; reflexivity. Qed.

(** * ... so without the hook's entry the invariant is kept *)

(** the module's tokens carry no allowance and back the coins *)
Record InvA (s : st apl) : Prop := {
  ia_own : own_mod s = false;
  ia_allow : zget (aallow (tok s)) MODULE = 0;
  ia_back : supply s <= zget (lbal (al (tok s))) MODULE
}.

(** operations that are not an Ethereum transaction to the token or to the script contract
    (the hook's only entry): the messages, the wrapper, the IBC callbacks, toggles, parameter
    changes, the environment's credits AND the thief's spends *)
Definition not_eth (o : op) : Prop :=
  match o with Eth _ _ | Batch _ _ => False | _ => True end.

Lemma inva_same (s s1 : st apl) : InvA s -> own_mod s1 = own_mod s -> tok s1 = tok s -> supply s1 = supply s -> InvA s1.
Proof. intros [H1 H2 H3] Ho Ht Hs. split; rewrite ?Ho, ?Ht, ?Hs; done. Qed.

Lemma a_credit (s : st apl) mint esc to x s1 : InvA s -> credit s mint esc to x = Some s1 -> InvA s1.
Proof.
  intros Hinv Hc. destruct (credit_spec _ _ _ _ _ _ Hc) as (_ & _ & Ht & (_ & Ho & _) & _ & Hs).
  destruct mint; [destruct Hs as [Hs _]; rewrite (ia_own _ Hinv) in Hs; discriminate|].
  eapply inva_same; eauto.
Qed.

Lemma a_refund (s : st apl) mint esc b x s' r : InvA s -> ibc_refund approve_token s mint esc b x = (s', r) -> InvA s'.
Proof.
  intros Hinv. unfold ibc_refund. destruct (N.eqb b MODULE); [intros [= <- <-]; done|].
  destruct (credit s mint esc b x) as [s1|] eqn:Hc; [|intros [= <- <-]; done].
  pose proof (a_credit _ _ _ _ _ _ Hinv Hc) as Hinv1.
  destruct (_ || _); [intros [= <- <-]; done|].
  destruct (a_convert_coin_refused s1 b b x (ia_own _ Hinv1)) as (r1 & -> & Hr).
  destruct r1; [done|]. intros [= <- <-]. done.
Qed.

Theorem a_step cf (s : st apl) o s' r : InvA s -> not_eth o -> step approve_token cf s o = (s', r) -> InvA s'.
Proof.
  intros Hinv Hne. pose proof Hinv as [Hown Hal Hback].
  destruct o as [a x|a b x|a b x|a b x|a c|a b x|a x| |e h|mint smod esc b x|success mint esc b x|mint esc b x|a cs|ow x];
    cbn [step not_eth] in *; try done.
  - destruct (credit s true 0 a x) as [s1|] eqn:Hc; intros [= <- <-]; [|done]. eapply a_credit; eauto.
  - destruct (credit s false a b x) as [s1|] eqn:Hc; intros [= <- <-]; [|done]. eapply a_credit; eauto.
  - destruct (proj2 (message_path_refuses_approving_token s a b x Hown)) as (r1 & -> & _). intros [= <- <-]. done.
  - destruct (proj1 (message_path_refuses_approving_token s a b x Hown)) as (r1 & -> & _). intros [= <- <-]. done.
  - (* the MsgSend wrapper *)
    unfold msg_send. destruct (x <=? 0); [intros [= <- <-]; done|].
    destruct (N.eqb a MODULE); [intros [= <- <-]; done|]. destruct (blocked b); [intros [= <- <-]; done|].
    destruct (negb _).
    + destruct (bank_send (cbal s) a b x); intros [= <- <-]; [|done]. eapply inva_same; eauto.
    + cbn [approve_token balance_of call_transfer].
      destruct (MAXU <? _); [intros [= <- <-]; done|]. destruct (_ <? x); [intros [= <- <-]; done|].
      destruct (zget (cbal s) a =? 0).
      * destruct (apl_transfer (tok s) a b x) as [[t2 lg]|] eqn:Ht; [|intros [= <- <-]; done].
        destruct (negb _); [intros [= <- <-]; done|]. rewrite (apl_transfer_monitored _ _ _ _ _ _ Ht).
        intros [= <- <-]. done.
      * destruct (a_convert_coin_refused s a a (zget (cbal s) a) Hown) as (r1 & -> & Hr).
        destruct r1; [done|]. intros [= <- <-]. done.
  - intros [= <- <-]. done.
  - destruct (reg s); intros [= <- <-]; [|done]. eapply inva_same; eauto.
  - intros [= <- <-]. eapply inva_same; eauto.
  - unfold ibc_recv. destruct (credit s mint esc b x) as [s1|] eqn:Hc; [|intros [= <- <-]; done].
    pose proof (a_credit _ _ _ _ _ _ Hinv Hc) as Hinv1.
    destruct (_ || _); [intros [= <- <-]; done|].
    destruct (a_convert_coin_refused s1 b b (zget (cbal s1) b) (ia_own _ Hinv1)) as (r1 & -> & Hr).
    destruct r1; [done|]. intros [= <- <-]. done.
  - destruct (N.eqb b MODULE); [intros [= <- <-]; done|]. destruct success; [intros [= <- <-]; done|].
    apply a_refund. done.
  - apply a_refund. done.
  - (* the thief's spend: no allowance on the module's tokens; taking a holder's tokens moves nothing of the module *)
    destruct (x <=? 0) eqn:Hx; [intros [= <- <-]; done|]. apply Z.leb_gt in Hx.
    cbn [approve_token call_user]. unfold apl_spend. rewrite N.eqb_refl.
    destruct (Z.ltb_spec x 0); cbn [orb]; [lia|].
    destruct (Z.ltb_spec (zget (aallow (tok s)) ow) x); [intros [= <- <-]; done|].
    assert (Hne' : ow <> MODULE) by (intros ->; lia).
    destruct (std_transfer (al (tok s)) ow THIEF x) as [[l1 g]|] eqn:Htr; intros [= <- <-]; [|done].
    destruct (std_transfer_spec _ _ _ _ _ _ Htr) as (_ & _ & _ & _ & _ & _ & Hz & _).
    split; sst; cbn [al aallow].
    + done.
    + rewrite zget_zset, decide_False by done. done.
    + rewrite Hz, !ind_diff by done. lia.
Qed.

(** all histories without an Ethereum transaction, from ANY state in which the module's tokens
    carry no allowance and back the coins (any balances, any allowances on the holders' own
    tokens), in either semantics: the pair stays backed and the module's tokens stay free *)
Theorem message_paths_keep_backing_against_approving_token cf ops : forall (s : st apl),
  InvA s -> Forall not_eth ops -> InvA (run approve_token cf ops s) /\ peg_backed approve_token (run approve_token cf ops s).
Proof.
  assert (Hrun : forall s, InvA s -> Forall not_eth ops -> InvA (run approve_token cf ops s)).
  { induction ops as [|o r IH]; intros s Hinv Hall; [done|].
    rewrite run_cons. inversion Hall as [|? ? Ho Hr]; subst.
    destruct (step approve_token cf s o) as [s1 r1] eqn:Hs. cbn [fst]. apply IH; [|done].
    eapply a_step; eauto. }
  intros s Hinv Hall. pose proof (Hrun s Hinv Hall) as Hi. split; [done|].
  unfold peg_backed. rewrite (ia_own _ Hi). eexists. split; [reflexivity|]. apply (ia_back _ Hi).
Qed.

(** non-vacuity: the hypothesis holds for the registered pair after the deployer has handed out
    tokens, and a message-path history runs (the conversion attempts are refused, the rest succeeds) *)
Example message_paths_nonvacuous :
  let s := run approve_token impl [Eth DEPLOYER (UMint 1 1000); Eth 1 (UTransfer 2 300)] approve0 in
  let h := [CE 1 1 100; Spend MODULE 5; Spend 2 120; Toggle; CE 2 2 10; Toggle; Send 1 2 7] in
  InvA s /\ Forall not_eth h /\
  codes approve_token impl h s = [EApproval; EOther; OK; OK; EDisabled; OK; EApproval] /\
  balance_of approve_token (tok (run approve_token impl h s)) THIEF = Some 120 /\
  supply (run approve_token impl h s) = 0.
Proof.
  cbn zeta. split; [split; vm_compute; (reflexivity || discriminate)|].
  split; [repeat constructor|]. split; [vm_compute; reflexivity|]. split; vm_compute; reflexivity.
Qed.
