(** Property C10: the outcome of a message does not depend on how its address and token
    fields are SPELLED.  [step_sp] (PegModel.v) is the step function the correspondence
    evaluates: the operation with its resolved actors plus the spelling of the string
    fields; the conversion functions themselves only ever see the resolved actors. *)
From Coq Require Import ZArith List Lia.
From stdpp Require Import gmap.
From HV Require Import Erc20.PegModel Erc20.PegProofs.
Import ListNotations.
Local Open Scope Z_scope.

(** * accepted spellings: the outcome is a function of the resolved operation *)
Theorem step_sp_accepted {T} (tk : token T) cf (s : st T) sp o :
  spell_ok o sp = true -> step_sp tk cf s sp o = step tk cf s o.
Proof. unfold step_sp. intros ->. done. Qed.

Theorem step_sp_spelling_independent {T} (tk : token T) cf (s : st T) sp1 sp2 o :
  spell_ok o sp1 = true -> spell_ok o sp2 = true -> step_sp tk cf s sp1 o = step_sp tk cf s sp2 o.
Proof. intros H1 H2. rewrite !step_sp_accepted by done. done. Qed.

Theorem outcome_independent_of_spelling {T} (tk : token T) cf (s : st T) sp1 sp2 o :
  spell_ok o sp1 = true -> spell_ok o sp2 = true ->
  step_sp tk cf s sp1 o = step_sp tk cf s sp2 o /\ step_sp tk cf s sp1 o = step tk cf s o.
Proof. intros; split; [apply step_sp_spelling_independent|apply step_sp_accepted]; assumption. Qed.

(** the spelling the chain prints is always accepted *)
Lemma spell_ok_canonical o : spell_ok o csp = true.
Proof. destruct o; done. Qed.

Theorem step_sp_canonical {T} (tk : token T) cf (s : st T) o : step_sp tk cf s csp o = step tk cf s o.
Proof. apply step_sp_accepted, spell_ok_canonical. Qed.

(** every hex spelling (letter case, checksum, 0x / 0X / no prefix) of every hex field and
    the upper-case bech32 spelling of the message fields are accepted *)
Lemma spell_ok_hex_and_case o c a b :
  (c < 7)%N -> (a < 2)%N -> (b < 2)%N ->
  match o with Recv _ _ _ _ _ => b = 0%N | _ => True end -> spell_ok o (mkspell c a b) = true.
Proof.
  intros Hc Ha Hb Hr. unfold spell_ok, hex_ok, bech_ok, bech_any_ok, tok_ok. cbn [sp_c sp_a sp_b].
  assert (Hc7 : (c <? 7)%N = true) by (apply N.ltb_lt; done).
  assert (Hc8 : (c <? 8)%N = true) by (apply N.ltb_lt; lia).
  assert (Ha2 : (a <? 2)%N = true) by (apply N.ltb_lt; done).
  assert (Ha7 : (a <? 7)%N = true) by (apply N.ltb_lt; lia).
  assert (Hb2 : (b <? 2)%N = true) by (apply N.ltb_lt; done).
  assert (Hb7 : (b <? 7)%N = true) by (apply N.ltb_lt; lia).
  destruct o; rewrite ?Hc7, ?Hc8, ?Ha2, ?Ha7, ?Hb2, ?Hb7; try done.
  subst b. done.
Qed.

(** * refused spellings: nothing happens that the canonical spelling would not do *)
Theorem step_sp_refused {T} (tk : token T) cf (s : st T) sp o :
  spell_ok o sp = false ->
  step_sp tk cf s sp o = step tk cf s o \/
  (fst (step_sp tk cf s sp o) = s /\ snd (step_sp tk cf s sp o) <> OK).
Proof.
  unfold step_sp. intros ->. unfold refused.
  destruct o as [a x|a b x|a b x|a b x|a c|a b x|a x| |e h|mint smod esc b x|success mint esc b x|mint esc b x|a cs|ow x];
    try (left; done).
  - right. split; [done|]. cbn [snd]. destruct (x <=? 0); [done|]. destruct (N.eqb a MODULE); done.
  - right. split; [done|]. cbn [snd]. destruct (_ && _); [done|]. destruct (negb _); [done|]. destruct (x <=? 0); done.
  - right. split; [done|]. cbn [snd]. destruct (_ && _); done.
  - right. done.
  - destruct (erc20_on s); [right; done|left; done].
  - destruct success; cbn [andb].
    + cbn [step]. destruct (N.eqb b MODULE); cbn [negb]; [right; done|left; done].
    + right. done.
  - right. done.
Qed.

Theorem step_sp_step_or_nothing {T} (tk : token T) cf (s : st T) sp o :
  step_sp tk cf s sp o = step tk cf s o \/
  (fst (step_sp tk cf s sp o) = s /\ snd (step_sp tk cf s sp o) <> OK).
Proof.
  destruct (spell_ok o sp) eqn:H; [left; apply step_sp_accepted; done|apply step_sp_refused; done].
Qed.

(** a result other than OK leaves the state untouched, whatever the spelling *)
Theorem failed_step_sp_no_effect {T} (tk : token T) cf (s : st T) sp o s' r :
  step_sp tk cf s sp o = (s', r) -> r <> OK -> s' = s.
Proof.
  intros H Hr. destruct (step_sp_step_or_nothing tk cf s sp o) as [He|[Hs _]].
  - rewrite He in H. eapply failed_step_no_effect; eauto.
  - rewrite H in Hs. done.
Qed.

(** * the backing invariant over all histories of WRITTEN messages *)
Lemma run_sp_cons {T} (tk : token T) cf e h s :
  run_sp tk cf (e :: h) s = run_sp tk cf h (fst (step_sp tk cf s (fst e) (snd e))).
Proof. done. Qed.

Lemma step_sp_inv_coin cf s sp o : InvCoin s -> InvCoin (fst (step_sp HT cf s sp o)).
Proof.
  intros Hinv. destruct (step_sp_step_or_nothing HT cf s sp o) as [He|[Hs _]].
  - rewrite He. destruct (step HT cf s o) as [s' r] eqn:Hst.
    destruct (coin_step cf _ _ _ _ Hinv Hst) as [Hi _]. done.
  - rewrite Hs. done.
Qed.

Lemma step_sp_inv_ext cf s sp o : InvExt s -> InvExt (fst (step_sp HT cf s sp o)).
Proof.
  intros Hinv. destruct (step_sp_step_or_nothing HT cf s sp o) as [He|[Hs _]].
  - rewrite He. destruct (step HT cf s o) as [s' r] eqn:Hst. eapply ext_step; eauto.
  - rewrite Hs. done.
Qed.

Lemma run_sp_inv_coin cf h : forall s, InvCoin s -> InvCoin (run_sp HT cf h s).
Proof.
  induction h as [|e h IH]; intros s Hinv; [done|]. rewrite run_sp_cons. apply IH, step_sp_inv_coin. done.
Qed.

Lemma run_sp_inv_ext cf h : forall s, InvExt s -> InvExt (run_sp HT cf h s).
Proof.
  induction h as [|e h IH]; intros s Hinv; [done|]. rewrite run_sp_cons. apply IH, step_sp_inv_ext. done.
Qed.

Theorem backing_inv_all_spelled_histories cf h s : fresh s -> backing_inv (run_sp HT cf h s).
Proof.
  intros Hf. pose proof (fresh_inv s Hf) as Hi. unfold backing_inv. destruct (own_mod s) eqn:Hown.
  - destruct Hi as [Hinv _]. destruct (run_sp_inv_coin cf h s Hinv) as [Hown' _ _ Hback].
    rewrite Hown'. unfold gap in Hback. lia.
  - destruct (run_sp_inv_ext cf h s Hi) as [Hown' Hback]. rewrite Hown'. done.
Qed.

(** a history in which every spelling is accepted ends exactly where the same history of
    resolved operations ends *)
Theorem run_sp_accepted {T} (tk : token T) cf h : forall s,
  Forall (fun e => spell_ok (snd e) (fst e) = true) h -> run_sp tk cf h s = run tk cf (map snd h) s.
Proof.
  induction h as [|e h IH]; intros s Hall; [done|]. inversion Hall as [|? ? He Hr]; subst.
  rewrite run_sp_cons. cbn [map]. rewrite run_cons, step_sp_accepted by done. apply IH. done.
Qed.

(** * witnesses *)

(** the delayed-malicious token of /repo/contracts (every transfer() first approves the thief
    for the recipient's tokens and emits Approval): holder 1 owns 100 tokens *)
Definition approve_state : st ledger :=
  init false ∅ 0 (mkledger {[1%N := 100]} 100 DEPLOYER).

(** MsgConvertERC20 is refused with ErrUnexpectedEvent in EVERY accepted spelling of the
    contract address, the sender and the receiver, and nothing changes *)
Theorem approve_token_refused_in_every_spelling :
  forall c a b, In c [0; 1; 2; 3; 4; 5; 6]%N -> In a [0; 1; 2; 3; 4; 5; 6]%N -> In b [0; 1]%N ->
    step_sp (preset_token approve_transfer) impl approve_state (mkspell c a b) (CE 1 1 40) = (approve_state, EApproval).
Proof.
  intros c a b Hc Ha Hb. cbn [In] in Hc, Ha, Hb.
  repeat match goal with H : _ \/ _ |- _ => destruct H as [<-|H] | H : False |- _ => destruct H end;
    vm_compute; reflexivity.
Qed.

(** a monitor that compares the contract address as a STRING (NOT the code of /repo) refuses
    the canonical spelling and accepts the lower-case one: 40 coins are minted against tokens
    on which the thief holds an allowance *)
Theorem spelling_dependent_monitor_refuted :
  let tk := preset_token approve_transfer in
  snd (ce_native_token_strcmp tk approve_state csp 1 1 40) = EApproval /\
  snd (ce_native_token_strcmp tk approve_state (mkspell 1 0 0) 1 1 40) = OK /\
  supply (fst (ce_native_token_strcmp tk approve_state (mkspell 1 0 0) 1 1 40)) = 40 /\
  ce_native_token_strcmp tk approve_state (mkspell 1 0 0) 1 1 40 <> ce_native_token tk approve_state 1 1 40 /\
  ce_native_token_strcmp tk approve_state csp 1 1 40 = ce_native_token tk approve_state 1 1 40.
Proof. vm_compute. repeat split; discriminate. Qed.

(** non-vacuity: an honest token-origin pair; the lower-case / no-prefix / upper-case spellings
    convert exactly like the canonical one (40 tokens of holder 1 -> 40 coins of holder 2), a
    contract address of 38 hex digits and a mixed-case bech32 receiver are refused without effect *)
Definition honest_state : st ledger :=
  init false ∅ 0 (mkledger {[1%N := 100]} 100 DEPLOYER).

Theorem spelling_nonvacuous :
  let r := step HT impl honest_state (CE 1 2 40) in
  snd r = OK /\ supply (fst r) = 40 /\ zget (cbal (fst r)) 2 = 40 /\
  zget (lbal (tok (fst r))) MODULE = 40 /\ zget (lbal (tok (fst r))) 1 = 60 /\
  step_sp HT impl honest_state (mkspell 1 4 1) (CE 1 2 40) = r /\
  step_sp HT impl honest_state (mkspell 6 2 0) (CE 1 2 40) = r /\
  step_sp HT impl honest_state (mkspell 7 0 0) (CE 1 2 40) = (honest_state, EOther) /\
  step_sp HT impl honest_state (mkspell 0 0 4) (CE 1 2 40) = (honest_state, EOther) /\
  step_sp HT impl honest_state (mkspell 2 0 0) Toggle = step HT impl honest_state Toggle /\
  step_sp HT impl honest_state (mkspell 9 0 0) Toggle = (honest_state, ENotFound).
Proof. vm_compute. repeat split. Qed.
