(** Proofs about the ERC20 peg model (property C10). *)
From Coq Require Import ZArith List Lia.
From stdpp Require Import gmap.
From HV Require Import Erc20.PegModel.
Import ListNotations.
Local Open Scope Z_scope.

(** * maps *)
Lemma zget_zset m a v b : zget (zset m a v) b = if decide (a = b) then v else zget m b.
Proof.
  unfold zget, zset. destruct (decide (a = b)) as [->|Hn].
  - by rewrite lookup_insert.
  - by rewrite lookup_insert_ne.
Qed.

Lemma zget_empty a : zget ∅ a = 0.
Proof. unfold zget. by rewrite lookup_empty. Qed.

(** indicator *)
Definition ind (a c : N) : Z := if decide (a = c) then 1 else 0.
Lemma ind_same a : ind a a = 1.
Proof. unfold ind. by rewrite decide_True. Qed.
Lemma ind_diff a c : a <> c -> ind a c = 0.
Proof. intros. unfold ind. by rewrite decide_False. Qed.

Lemma bank_send_spec b f t x b' : bank_send b f t x = Some b' ->
  0 < x /\ x <= zget b f /\ forall c, zget b' c = zget b c - x * ind f c + x * ind t c.
Proof.
  unfold bank_send. destruct (Z.leb_spec x 0); cbn [orb]; [discriminate|].
  destruct (Z.ltb_spec (zget b f) x); [discriminate|]. intros [= <-].
  split; [lia|]. split; [lia|]. intros c. rewrite !zget_zset. unfold ind.
  destruct (decide (t = c)) as [->|]; destruct (decide (f = c)) as [->|]; rewrite ?zget_zset, ?decide_True, ?decide_False by done; lia.
Qed.

Lemma neqb_eq a b : N.eqb a b = true <-> a = b.
Proof. apply N.eqb_eq. Qed.

Ltac sst := cbn [cbal supply tok set_all set_bank set_tok drop_pair reg own_mod en erc20_on hook_on] in *.

(** * what a successful conversion looks like, against ANY token *)
Definition coin_moves {T} (s s' : st T) (f : N -> Z) : Prop :=
  forall c, zget (cbal s') c = zget (cbal s) c + f c.
Definition same_pair {T} (s s' : st T) : Prop :=
  reg s' = reg s /\ own_mod s' = own_mod s /\ en s' = en s /\ erc20_on s' = erc20_on s /\ hook_on s' = hook_on s.
(** the balance the token reports for [a] moved by [d] *)
Definition reported {T} (tk : token T) (t t' : T) (a : N) (d : Z) : Prop :=
  exists b0, balance_of tk t a = Some b0 /\ balance_of tk t' a = Some (b0 + d).

(** coin -> token *)
Definition cc_post {T} (tk : token T) (s s' : st T) (a b : N) (x : Z) : Prop :=
  0 < x /\ x <= zget (cbal s) a /\ minting_enabled s b = OK /\ same_pair s s' /\
  reported tk (tok s) (tok s') b x /\
  if own_mod s
  then coin_moves s s' (fun c => x * ind MODULE c - x * ind a c) /\ supply s' = supply s
  else coin_moves s s' (fun c => - x * ind a c) /\ supply s' = supply s - x.

(** token -> coin *)
Definition ce_post {T} (tk : token T) (s s' : st T) (a b : N) (x : Z) : Prop :=
  minting_enabled s b = OK /\ same_pair s s' /\
  if own_mod s
  then 0 < x /\ x <= zget (cbal s) MODULE /\ reported tk (tok s) (tok s') a (- x) /\
       coin_moves s s' (fun c => x * ind b c - x * ind MODULE c) /\ supply s' = supply s
  else reported tk (tok s) (tok s') MODULE x /\
       coin_moves s s' (fun c => x * ind b c) /\ supply s' = supply s + x /\ supply s' <= MAXU.

Section Any.
  Context {T : Type}.
  Variable tk : token T.

  Lemma minting_enabled_ok (s : st T) b : minting_enabled s b = OK ->
    erc20_on s = true /\ reg s = true /\ en s = true /\ blocked b = false.
  Proof.
    unfold minting_enabled.
    destruct (erc20_on s), (reg s), (en s), (blocked b); cbn; try discriminate. done.
  Qed.

  Lemma approval_check_cases l : approval_check l = OK \/ approval_check l = EApproval \/ approval_check l = EOther.
  Proof. induction l as [|x r IH]; cbn; [auto|]. destruct (lk x); auto. Qed.

  Lemma cc_native_coin_spec (s : st T) a b x s' r : own_mod s = true -> minting_enabled s b = OK ->
    cc_native_coin tk s a b x = (s', r) -> (r <> OK /\ s' = s) \/ (r = OK /\ cc_post tk s s' a b x).
  Proof.
    intros Hown Hme. unfold cc_native_coin.
    destruct (balance_of tk (tok s) b) as [b0|] eqn:Hb0; [|intros [= <- <-]; left; done].
    destruct (bank_send (cbal s) a MODULE x) as [cb|] eqn:Hbs; [|intros [= <- <-]; left; done].
    destruct (call_mint tk (tok s) b x) as [[t1 lg]|] eqn:Hm; [|intros [= <- <-]; left; done].
    destruct (balance_of tk t1 b) as [b1|] eqn:Hb1; [|intros [= <- <-]; left; done].
    destruct (Z.eqb_spec b1 (b0 + x)) as [->|]; cbn [negb]; [|intros [= <- <-]; left; done].
    intros [= <- <-]. right. split; [done|].
    destruct (bank_send_spec _ _ _ _ _ Hbs) as (Hx & Hle & Hz).
    unfold cc_post. rewrite Hown. unfold same_pair, reported, coin_moves. sst.
    split; [done|]. split; [done|]. split; [done|]. split; [done|].
    split; [exists b0; done|]. split; [|done].
    intros c. rewrite Hz. lia.
  Qed.

  Lemma cc_native_erc20_spec (s : st T) a b x s' r : own_mod s = false -> minting_enabled s b = OK ->
    cc_native_erc20 tk s a b x = (s', r) -> (r <> OK /\ s' = s) \/ (r = OK /\ cc_post tk s s' a b x).
  Proof.
    intros Hown Hme. unfold cc_native_erc20.
    destruct (balance_of tk (tok s) b) as [b0|] eqn:Hb0; [|intros [= <- <-]; left; done].
    destruct (bank_send (cbal s) a MODULE x) as [cb|] eqn:Hbs; [|intros [= <- <-]; left; done].
    destruct (call_transfer tk (tok s) MODULE b x) as [[[t1 ret] lg]|] eqn:Hm; [|intros [= <- <-]; left; done].
    destruct ret as [[|]|]; [|intros [= <- <-]; left; done|intros [= <- <-]; left; done].
    destruct (balance_of tk t1 b) as [b1|] eqn:Hb1; [|intros [= <- <-]; left; done].
    destruct (Z.eqb_spec b1 (b0 + x)) as [->|]; cbn [negb]; [|intros [= <- <-]; left; done].
    destruct (approval_check_cases lg) as [Ha|[Ha|Ha]]; rewrite Ha; [|intros [= <- <-]; left; done..].
    intros [= <- <-]. right. split; [done|].
    destruct (bank_send_spec _ _ _ _ _ Hbs) as (Hx & Hle & Hz).
    unfold cc_post. rewrite Hown. unfold same_pair, reported, coin_moves. sst.
    split; [done|]. split; [done|]. split; [done|]. split; [done|].
    split; [exists b0; done|]. split; [|done].
    intros c. rewrite zget_zset. destruct (decide (MODULE = c)) as [<-|Hn].
    - rewrite Hz. rewrite ind_same. lia.
    - rewrite Hz. rewrite (ind_diff MODULE c) by done. lia.
  Qed.

  Lemma ce_native_coin_spec (s : st T) a b x s' r : own_mod s = true -> minting_enabled s b = OK ->
    ce_native_coin tk s a b x = (s', r) -> (r <> OK /\ s' = s) \/ (r = OK /\ ce_post tk s s' a b x).
  Proof.
    intros Hown Hme. unfold ce_native_coin.
    destruct (minting_enabled_ok _ _ Hme) as (_ & _ & _ & Hbl). rewrite Hbl.
    destruct (balance_of tk (tok s) a) as [b0|] eqn:Hb0; [|intros [= <- <-]; left; done].
    destruct (call_burn_coins tk (tok s) a x) as [[t1 lg]|] eqn:Hm; [|intros [= <- <-]; left; done].
    destruct (bank_send (cbal s) MODULE b x) as [cb|] eqn:Hbs; [|intros [= <- <-]; left; done].
    destruct (balance_of tk t1 a) as [b1|] eqn:Hb1; [|intros [= <- <-]; left; done].
    destruct (Z.eqb_spec b1 (b0 - x)) as [->|]; cbn [negb]; [|intros [= <- <-]; left; done].
    intros [= <- <-]. right. split; [done|].
    destruct (bank_send_spec _ _ _ _ _ Hbs) as (Hx & Hle & Hz).
    unfold ce_post. rewrite Hown. unfold same_pair, reported, coin_moves. sst.
    split; [done|]. split; [done|]. split; [done|]. split; [done|].
    split; [exists b0; split; [done|]; rewrite Hb1; f_equal; lia|]. split; [|done].
    intros c. rewrite Hz. lia.
  Qed.

  Lemma ce_native_token_spec (s : st T) a b x s' r : own_mod s = false -> minting_enabled s b = OK ->
    ce_native_token tk s a b x = (s', r) -> (r <> OK /\ s' = s) \/ (r = OK /\ ce_post tk s s' a b x).
  Proof.
    intros Hown Hme. unfold ce_native_token.
    destruct (balance_of tk (tok s) MODULE) as [b0|] eqn:Hb0; [|intros [= <- <-]; left; done].
    destruct (call_transfer tk (tok s) a MODULE x) as [[[t1 ret] lg]|] eqn:Hm; [|intros [= <- <-]; left; done].
    destruct ret as [[|]|]; [|intros [= <- <-]; left; done|intros [= <- <-]; left; done].
    destruct (balance_of tk t1 MODULE) as [b1|] eqn:Hb1; [|intros [= <- <-]; left; done].
    destruct (Z.eqb_spec b1 (b0 + x)) as [->|]; cbn [negb]; [|intros [= <- <-]; left; done].
    destruct (Z.ltb_spec MAXU (supply s + x)); [intros [= <- <-]; left; done|].
    destruct (approval_check_cases lg) as [Ha|[Ha|Ha]]; rewrite Ha; [|intros [= <- <-]; left; done..].
    intros [= <- <-]. right. split; [done|].
    unfold ce_post. rewrite Hown. unfold same_pair, reported, coin_moves. sst.
    split; [done|]. split; [done|].
    split; [exists b0; done|]. split; [|split; [done|lia]].
    intros c. rewrite zget_zset. unfold ind. destruct (decide (b = c)) as [->|]; lia.
  Qed.

  (** keeper-level ConvertCoin / ConvertERC20: failure without effect, or the
      pair of a self-destructed contract is dropped, or an exact conversion *)
  Definition conv_outcome (post : Prop) (s s' : st T) (r : N) : Prop :=
    (r <> OK /\ s' = s) \/
    (r = OK /\ is_contract tk (tok s) = false /\ s' = drop_pair s) \/
    (r = OK /\ is_contract tk (tok s) = true /\ post).

  Lemma convert_coin_spec (s : st T) a b x s' r :
    convert_coin tk s a b x = (s', r) -> conv_outcome (cc_post tk s s' a b x) s s' r.
  Proof.
    unfold convert_coin, conv_outcome.
    destruct (minting_enabled s b) eqn:Hme.
    2:{ intros [= <- <-]. left. done. }
    destruct (is_contract tk (tok s)) eqn:Hc; cbn [negb].
    2:{ intros [= <- <-]. right. left. done. }
    destruct (own_mod s) eqn:Hown; intros H.
    - destruct (cc_native_coin_spec _ _ _ _ _ _ Hown Hme H) as [?|[? ?]]; [left; done|right; right; done].
    - destruct (cc_native_erc20_spec _ _ _ _ _ _ Hown Hme H) as [?|[? ?]]; [left; done|right; right; done].
  Qed.

  Lemma convert_erc20_spec (s : st T) a b x s' r :
    convert_erc20 tk s a b x = (s', r) -> conv_outcome (ce_post tk s s' a b x) s s' r.
  Proof.
    unfold convert_erc20, conv_outcome.
    destruct (minting_enabled s b) eqn:Hme.
    2:{ intros [= <- <-]. left. done. }
    destruct (is_contract tk (tok s)) eqn:Hc; cbn [negb].
    2:{ intros [= <- <-]. right. left. done. }
    destruct (own_mod s) eqn:Hown; intros H.
    - destruct (ce_native_coin_spec _ _ _ _ _ _ Hown Hme H) as [?|[? ?]]; [left; done|right; right; done].
    - destruct (ce_native_token_spec _ _ _ _ _ _ Hown Hme H) as [?|[? ?]]; [left; done|right; right; done].
  Qed.

  (** the two messages *)
  Theorem msg_convert_coin_exact_or_error (s : st T) a b x s' r :
    msg_convert_coin tk s a b x = (s', r) -> conv_outcome (a <> MODULE /\ cc_post tk s s' a b x) s s' r.
  Proof.
    unfold msg_convert_coin. destruct (x <=? 0); [intros [= <- <-]; left; done|].
    destruct (N.eqb_spec a MODULE); [intros [= <- <-]; left; done|].
    intros H. destruct (convert_coin_spec _ _ _ _ _ _ H) as [?|[?|(? & ? & ?)]];
      [left; done|right; left; done|right; right; done].
  Qed.

  Theorem msg_convert_erc20_exact_or_error (s : st T) a b x s' r :
    msg_convert_erc20 tk s a b x = (s', r) -> conv_outcome (0 < x /\ a <> MODULE /\ ce_post tk s s' a b x) s s' r.
  Proof.
    unfold msg_convert_erc20. destruct (Z.leb_spec x 0); [intros [= <- <-]; left; done|].
    destruct (N.eqb_spec a MODULE); [intros [= <- <-]; left; done|].
    intros H0. destruct (convert_erc20_spec _ _ _ _ _ _ H0) as [?|[?|(? & ? & ?)]];
      [left; done|right; left; done|right; right; done].
  Qed.

  (** the bank MsgSend wrapper: everything spendable is converted exactly, then
      the token is asked to move [x] and must report it at the recipient *)
  Definition send_post (s s' : st T) (a b : N) (x : Z) : Prop :=
    0 < x /\ a <> MODULE /\ blocked b = false /\
    if erc20_on s && reg s && en s then
      exists s1,
        ((zget (cbal s) a = 0 /\ s1 = s) \/
         (zget (cbal s) a <> 0 /\ is_contract tk (tok s) = false /\ s1 = drop_pair s) \/
         (0 < zget (cbal s) a /\ is_contract tk (tok s) = true /\ cc_post tk s s1 a a (zget (cbal s) a))) /\
        cbal s' = cbal s1 /\ supply s' = supply s1 /\ same_pair s1 s' /\ reported tk (tok s1) (tok s') b x
    else tok s' = tok s /\ same_pair s s' /\ supply s' = supply s /\
         coin_moves s s' (fun c => x * ind b c - x * ind a c).

  Theorem msg_send_exact_or_error cf (s : st T) a b x s' r : wrap_false_ok cf = false ->
    msg_send tk cf s a b x = (s', r) -> (r <> OK /\ s' = s) \/ (r = OK /\ send_post s s' a b x).
  Proof.
    intros Hcf. unfold msg_send.
    destruct (Z.leb_spec x 0); [intros [= <- <-]; left; done|].
    destruct (N.eqb_spec a MODULE); [intros [= <- <-]; left; done|].
    destruct (blocked b) eqn:Hbl; [intros [= <- <-]; left; done|].
    unfold send_post. rewrite Hbl.
    destruct (erc20_on s && reg s && en s) eqn:Hconv; cbn [negb].
    - destruct (balance_of tk (tok s) a) as [eb|] eqn:Heb; [|intros [= <- <-]; left; done].
      destruct (MAXU <? zget (cbal s) a + eb); [intros [= <- <-]; left; done|].
      destruct (zget (cbal s) a + eb <? x); [intros [= <- <-]; left; done|].
      assert (Hinner : exists s1 r1,
        (if zget (cbal s) a =? 0 then (s, OK) else convert_coin tk s a a (zget (cbal s) a)) = (s1, r1) /\
        (r1 <> OK \/ (r1 = OK /\
          ((zget (cbal s) a = 0 /\ s1 = s) \/
           (zget (cbal s) a <> 0 /\ is_contract tk (tok s) = false /\ s1 = drop_pair s) \/
           (0 < zget (cbal s) a /\ is_contract tk (tok s) = true /\ cc_post tk s s1 a a (zget (cbal s) a)))))).
      { destruct (Z.eqb_spec (zget (cbal s) a) 0) as [Hz|Hz].
        - exists s, OK. split; [done|]. right. split; [done|]. left. done.
        - destruct (convert_coin tk s a a (zget (cbal s) a)) as [s1 r1] eqn:Hcc. exists s1, r1. split; [done|].
          destruct (convert_coin_spec _ _ _ _ _ _ Hcc) as [[Hr _]|[(Hr & Hc & Hs)|(Hr & Hc & Hp)]].
          + left. done.
          + right. split; [done|]. right. left.
            done.
          + right. split; [done|]. right. right. split; [|done]. destruct Hp as (Hpos & _). done. }
      destruct Hinner as (s1 & r1 & -> & Hr1).
      destruct Hr1 as [Hne|[-> Hs1]].
      { destruct r1; [done|]. intros [= <- <-]. left. done. }
      cbn [OK].
      destruct (balance_of tk (tok s1) b) as [b0|] eqn:Hb0; [|intros [= <- <-]; left; done].
      destruct (call_transfer tk (tok s1) a b x) as [[[t2 ret] lg]|] eqn:Htr; [|intros [= <- <-]; left; done].
      destruct ret as [[|]|]; [|rewrite Hcf; intros [= <- <-]; left; done|intros [= <- <-]; left; done].
      destruct (balance_of tk t2 b) as [b1|] eqn:Hb1; [|intros [= <- <-]; left; done].
      destruct (Z.eqb_spec b1 (b0 + x)) as [->|]; cbn [negb]; [|intros [= <- <-]; left; done].
      destruct (approval_check_cases lg) as [Ha|[Ha|Ha]]; rewrite Ha; [|intros [= <- <-]; left; done..].
      intros [= <- <-]. right. split; [done|]. split; [done|]. split; [done|]. split; [done|].
      exists s1. split; [done|]. unfold same_pair, reported. sst. do 3 (split; [done|]). exists b0. done.
    - destruct (bank_send (cbal s) a b x) as [cb|] eqn:Hbs; [|intros [= <- <-]; left; done].
      intros [= <- <-]. right. split; [done|]. split; [done|]. split; [done|]. split; [done|].
      destruct (bank_send_spec _ _ _ _ _ Hbs) as (_ & _ & Hz).
      unfold same_pair, coin_moves. sst. do 3 (split; [done|]). intros c. rewrite Hz. lia.
  Qed.
End Any.

(** * the honest token *)
Definition msum (m : gmap N Z) : Z := map_fold (fun _ v acc => v + acc) 0 m.

Lemma msum_empty : msum ∅ = 0.
Proof. unfold msum. by rewrite map_fold_empty. Qed.

Lemma msum_insert_fresh m a v : m !! a = None -> msum (<[a := v]> m) = v + msum m.
Proof. intros H. unfold msum. rewrite map_fold_insert_L; [done| |done]. intros. lia. Qed.

Lemma msum_zset m a v : msum (zset m a v) = msum m - zget m a + v.
Proof.
  unfold zset, zget. destruct (m !! a) as [w|] eqn:E; cbn.
  - rewrite <- (insert_delete_insert m a v).
    rewrite msum_insert_fresh by apply lookup_delete.
    rewrite <- (insert_delete m a w) at 2 by done.
    rewrite msum_insert_fresh by apply lookup_delete. lia.
  - rewrite msum_insert_fresh by done. lia.
Qed.

Lemma msum_nonneg m : (forall c, 0 <= zget m c) -> 0 <= msum m.
Proof.
  induction m as [|i x m Hi IH] using map_ind; intros H.
  - rewrite msum_empty. lia.
  - rewrite msum_insert_fresh by done.
    assert (0 <= x). { specialize (H i). unfold zget in H. rewrite lookup_insert in H. done. }
    assert (0 <= msum m).
    { apply IH. intros c. destruct (decide (i = c)) as [<-|Hn].
      - unfold zget. rewrite Hi. done.
      - specialize (H c). unfold zget in *. rewrite lookup_insert_ne in H by done. done. }
    lia.
Qed.

Lemma msum_ge m a : (forall c, 0 <= zget m c) -> zget m a <= msum m.
Proof.
  intros H. assert (0 <= msum (zset m a 0)).
  { apply msum_nonneg. intros c. rewrite zget_zset. destruct (decide (a = c)); [lia|apply H]. }
  rewrite msum_zset in H0. lia.
Qed.

(** well-formed ledger: no negative balance, balances add up to the total supply *)
Definition wfl (l : ledger) : Prop := (forall a, 0 <= zget (lbal l) a) /\ msum (lbal l) = ltotal l.

Lemma std_transfer_spec l f t x l' lg : std_transfer l f t x = Some (l', lg) ->
  f <> ZERO /\ t <> ZERO /\ 0 <= x <= zget (lbal l) f /\ lg = [tlog f t x] /\
  ltotal l' = ltotal l /\ lminter l' = lminter l /\
  (forall c, zget (lbal l') c = zget (lbal l) c - x * ind f c + x * ind t c) /\
  (wfl l -> wfl l').
Proof.
  unfold std_transfer. destruct (N.eqb_spec f ZERO); cbn [orb]; [discriminate|].
  destruct (N.eqb_spec t ZERO); [discriminate|].
  destruct (Z.ltb_spec x 0); cbn [orb]; [discriminate|].
  destruct (Z.ltb_spec (zget (lbal l) f) x); [discriminate|]. intros [= <- <-]. cbn.
  assert (Hz : forall c, zget (zset (zset (lbal l) f (zget (lbal l) f - x)) t
                 (zget (zset (lbal l) f (zget (lbal l) f - x)) t + x)) c
               = zget (lbal l) c - x * ind f c + x * ind t c).
  { intros c. rewrite !zget_zset. unfold ind.
    destruct (decide (t = c)) as [->|]; destruct (decide (f = c)) as [->|];
      rewrite ?decide_True, ?decide_False by done; lia. }
  do 6 (split; [done || lia|]). split; [exact Hz|].
  intros [Hnn Hs]. split; cbn.
  - intros c. rewrite Hz. specialize (Hnn c). unfold ind.
    destruct (decide (f = c)) as [->|]; destruct (decide (t = c)); lia.
  - rewrite !msum_zset, zget_zset. destruct (decide (f = t)); lia.
Qed.

Lemma std_mint_spec l caller t x l' lg : std_mint l caller t x = Some (l', lg) ->
  caller = lminter l /\ t <> ZERO /\ 0 <= x /\ lg = [tlog ZERO t x] /\
  ltotal l' = ltotal l + x /\ lminter l' = lminter l /\
  (forall c, zget (lbal l') c = zget (lbal l) c + x * ind t c) /\
  (wfl l -> wfl l').
Proof.
  unfold std_mint. destruct (N.eqb_spec caller (lminter l)); cbn [negb]; [|discriminate].
  destruct (N.eqb_spec t ZERO); [discriminate|].
  destruct (Z.ltb_spec x 0); cbn [orb]; [discriminate|].
  destruct (MAXU <? ltotal l + x); [discriminate|]. intros [= <- <-]. cbn.
  assert (Hz : forall c, zget (zset (lbal l) t (zget (lbal l) t + x)) c = zget (lbal l) c + x * ind t c).
  { intros c. rewrite zget_zset. unfold ind. destruct (decide (t = c)) as [->|]; lia. }
  do 6 (split; [done|]). split; [exact Hz|].
  intros [Hnn Hs]. split; cbn.
  - intros c. rewrite Hz. specialize (Hnn c). unfold ind. destruct (decide (t = c)); lia.
  - rewrite msum_zset. lia.
Qed.

Lemma std_burn_spec l f x l' lg : std_burn l f x = Some (l', lg) ->
  f <> ZERO /\ 0 <= x <= zget (lbal l) f /\ lg = [tlog f ZERO x] /\
  ltotal l' = ltotal l - x /\ lminter l' = lminter l /\
  (forall c, zget (lbal l') c = zget (lbal l) c - x * ind f c) /\
  (wfl l -> wfl l').
Proof.
  unfold std_burn. destruct (N.eqb_spec f ZERO); [discriminate|].
  destruct (Z.ltb_spec x 0); cbn [orb]; [discriminate|].
  destruct (Z.ltb_spec (zget (lbal l) f) x); [discriminate|]. intros [= <- <-]. cbn.
  assert (Hz : forall c, zget (zset (lbal l) f (zget (lbal l) f - x)) c = zget (lbal l) c - x * ind f c).
  { intros c. rewrite zget_zset. unfold ind. destruct (decide (f = c)) as [->|]; lia. }
  do 5 (split; [done || lia|]). split; [exact Hz|].
  intros [Hnn Hs]. split; cbn.
  - intros c. rewrite Hz. specialize (Hnn c). unfold ind. destruct (decide (f = c)) as [->|]; lia.
  - rewrite msum_zset. lia.
Qed.

Notation HT := honest_token.
Ltac hsimp := cbn [honest_token is_contract balance_of total_supply call_mint call_burn_coins call_burn call_transfer call_user with_ret] in *.

Lemma h_convert_coin (s : st ledger) a b x s' r : convert_coin HT s a b x = (s', r) ->
  (r <> OK /\ s' = s) \/
  (r = OK /\ blocked b = false /\ reg s = true /\ exists cb l1 lg, bank_send (cbal s) a MODULE x = Some cb /\
     if own_mod s
     then std_mint (tok s) MODULE b x = Some (l1, lg) /\ s' = set_all s cb (supply s) l1
     else std_transfer (tok s) MODULE b x = Some (l1, lg) /\
          s' = set_all s (zset cb MODULE (zget cb MODULE - x)) (supply s - x) l1).
Proof.
  unfold convert_coin. destruct (minting_enabled s b) eqn:Hme; [|intros [= <- <-]; left; done].
  destruct (minting_enabled_ok _ _ Hme) as (_ & Hreg & _ & Hbl). hsimp. cbn [negb].
  destruct (own_mod s) eqn:Hown.
  - unfold cc_native_coin. hsimp.
    destruct (bank_send (cbal s) a MODULE x) as [cb|] eqn:Hbs; [|intros [= <- <-]; left; done].
    destruct (std_mint (tok s) MODULE b x) as [[l1 lg]|] eqn:Hm; [|intros [= <- <-]; left; done].
    destruct (negb _); intros [= <- <-]; [left; done|]. right. do 3 (split; [done|]). exists cb, l1, lg. done.
  - unfold cc_native_erc20. hsimp.
    destruct (bank_send (cbal s) a MODULE x) as [cb|] eqn:Hbs; [|intros [= <- <-]; left; done].
    destruct (std_transfer (tok s) MODULE b x) as [[l1 lg]|] eqn:Hm; cbn [with_ret]; [|intros [= <- <-]; left; done].
    destruct (negb _); [intros [= <- <-]; left; done|].
    destruct (approval_check_cases lg) as [Ha|[Ha|Ha]]; rewrite Ha; intros [= <- <-]; [|left; done..].
    right. do 3 (split; [done|]). exists cb, l1, lg. done.
Qed.

Lemma h_convert_erc20 (s : st ledger) a b x s' r : convert_erc20 HT s a b x = (s', r) ->
  (r <> OK /\ s' = s) \/
  (r = OK /\ blocked b = false /\ reg s = true /\ exists l1 lg,
     if own_mod s
     then exists cb, lminter (tok s) = MODULE /\ std_burn (tok s) a x = Some (l1, lg) /\
          bank_send (cbal s) MODULE b x = Some cb /\ s' = set_all s cb (supply s) l1
     else std_transfer (tok s) a MODULE x = Some (l1, lg) /\
          zget (lbal l1) MODULE = zget (lbal (tok s)) MODULE + x /\ supply s + x <= MAXU /\
          s' = set_all s (zset (cbal s) b (zget (cbal s) b + x)) (supply s + x) l1).
Proof.
  unfold convert_erc20. destruct (minting_enabled s b) eqn:Hme; [|intros [= <- <-]; left; done].
  destruct (minting_enabled_ok _ _ Hme) as (_ & Hreg & _ & Hbl). hsimp. cbn [negb].
  destruct (own_mod s) eqn:Hown.
  - unfold ce_native_coin. hsimp. rewrite Hbl.
    destruct (N.eqb_spec MODULE (lminter (tok s))) as [Hmin|]; [|intros [= <- <-]; left; done].
    destruct (std_burn (tok s) a x) as [[l1 lg]|] eqn:Hm; [|intros [= <- <-]; left; done].
    destruct (bank_send (cbal s) MODULE b x) as [cb|] eqn:Hbs; [|intros [= <- <-]; left; done].
    destruct (negb _); intros [= <- <-]; [left; done|]. right. do 3 (split; [done|]). exists l1, lg, cb. done.
  - unfold ce_native_token. hsimp.
    destruct (std_transfer (tok s) a MODULE x) as [[l1 lg]|] eqn:Hm; cbn [with_ret]; [|intros [= <- <-]; left; done].
    destruct (Z.eqb_spec (zget (lbal l1) MODULE) (zget (lbal (tok s)) MODULE + x)) as [He|]; cbn [negb];
      [|intros [= <- <-]; left; done].
    destruct (Z.ltb_spec MAXU (supply s + x)); [intros [= <- <-]; left; done|].
    destruct (approval_check_cases lg) as [Ha|[Ha|Ha]]; rewrite Ha; intros [= <- <-]; [|left; done..].
    right. do 3 (split; [done|]). exists l1, lg. done.
Qed.

(** ** coin-origin pair with the module's own (honest) contract *)
Definition gap (s : st ledger) : Z := zget (cbal s) MODULE - ltotal (tok s).

Record InvCoin (s : st ledger) : Prop := {
  ic_own : own_mod s = true;
  ic_minter : lminter (tok s) = MODULE;
  ic_wfl : wfl (tok s);
  ic_back : 0 <= gap s
}.

(** tokens that holders destroyed themselves: the only way the escrow can exceed the supply *)
Definition burn_of (o : op) (r : N) : Z :=
  match o with Eth _ (UBurn x) => if N.eqb r OK then x else 0 | _ => 0 end.

Lemma has_key_not_module a : has_key a = true -> a <> MODULE.
Proof. intros H ->. discriminate. Qed.

Lemma blocked_false a : blocked a = false -> a <> MODULE.
Proof. unfold blocked. intros H ->. discriminate. Qed.

Lemma coin_convert_coin (s : st ledger) a b x s' r : a <> MODULE -> InvCoin s ->
  convert_coin HT s a b x = (s', r) -> InvCoin s' /\ gap s' = gap s.
Proof.
  intros Ha [Hown Hmin Hwf Hback] H.
  destruct (h_convert_coin _ _ _ _ _ _ H) as [[_ ->]|(_ & _ & _ & cb & l1 & lg & Hbs & Hrest)]; [split; [done|lia]|].
  rewrite Hown in Hrest. destruct Hrest as [Hm ->].
  destruct (std_mint_spec _ _ _ _ _ _ Hm) as (_ & _ & _ & _ & Ht & Hmi & _ & Hw).
  destruct (bank_send_spec _ _ _ _ _ Hbs) as (_ & _ & Hz).
  assert (Hg : gap (set_all s cb (supply s) l1) = gap s).
  { unfold gap. sst. rewrite Hz, Ht, ind_same, (ind_diff a MODULE) by done. lia. }
  split; [|done]. split; sst; [done|congruence|auto|lia].
Qed.

Lemma coin_convert_erc20 (s : st ledger) a b x s' r : InvCoin s ->
  convert_erc20 HT s a b x = (s', r) -> InvCoin s' /\ gap s' = gap s.
Proof.
  intros [Hown Hmin Hwf Hback] H.
  destruct (h_convert_erc20 _ _ _ _ _ _ H) as [[_ ->]|(_ & Hbl & _ & l1 & lg & Hrest)]; [split; [done|lia]|].
  rewrite Hown in Hrest. destruct Hrest as (cb & _ & Hb & Hbs & ->).
  destruct (std_burn_spec _ _ _ _ _ Hb) as (_ & _ & _ & Ht & Hmi & _ & Hw).
  destruct (bank_send_spec _ _ _ _ _ Hbs) as (_ & _ & Hz).
  apply blocked_false in Hbl.
  assert (Hg : gap (set_all s cb (supply s) l1) = gap s).
  { unfold gap. sst. rewrite Hz, Ht, ind_same, (ind_diff b MODULE) by done. lia. }
  split; [|done]. split; sst; [done|congruence|auto|lia].
Qed.

Lemma credit_spec {T} (s : st T) mint esc to x s1 : credit s mint esc to x = Some s1 ->
  to <> MODULE /\ 0 < x /\ tok s1 = tok s /\ same_pair s s1 /\ zget (cbal s1) MODULE = zget (cbal s) MODULE /\
  (if mint then own_mod s = true /\ supply s1 = supply s + x else supply s1 = supply s).
Proof.
  unfold credit. destruct (Z.leb_spec x 0); cbn [orb]; [discriminate|].
  destruct (N.eqb_spec to MODULE); cbn [orb]; [discriminate|].
  destruct mint; cbn [negb andb orb].
  - destruct (own_mod s); cbn [negb]; [|discriminate].
    destruct (MAXU <? supply s + x); [discriminate|]. intros [= <-]. unfold same_pair. sst.
    do 4 (split; [done|]). rewrite zget_zset, decide_False by done. done.
  - destruct (N.eqb_spec esc MODULE); [discriminate|].
    destruct (bank_send (cbal s) esc to x) as [cb|] eqn:Hbs; [|discriminate]. intros [= <-].
    destruct (bank_send_spec _ _ _ _ _ Hbs) as (_ & _ & Hz). unfold same_pair. sst.
    do 4 (split; [done|]). rewrite Hz, !ind_diff by done. split; [lia|done].
Qed.

Lemma coin_credit (s : st ledger) mint esc to x s1 : InvCoin s -> credit s mint esc to x = Some s1 ->
  InvCoin s1 /\ gap s1 = gap s.
Proof.
  intros [Hown Hmin Hwf Hback] H. destruct (credit_spec _ _ _ _ _ _ H) as (_ & _ & Ht & (Hr & Ho & _) & Hm & _).
  assert (gap s1 = gap s) by (unfold gap; rewrite Hm, Ht; done).
  split; [|done]. split; [congruence|rewrite Ht; done|rewrite Ht; done|lia].
Qed.

Section HonestCoin.
  Variable cf : cfg.

  Lemma coin_eth (s : st ledger) a c s' r : InvCoin s ->
    eth_tx HT cf s a c = (s', r) -> InvCoin s' /\ gap s' = gap s + burn_of (Eth a c) r.
  Proof.
    intros Hinv. pose proof Hinv as [Hown Hmin Hwf Hback]. unfold eth_tx.
    destruct (has_key a) eqn:Hk; cbn [negb]; [|intros [= <- <-]; split; [done|destruct c; cbn; lia]].
    apply has_key_not_module in Hk. hsimp.
    destruct c as [to x|x|to x|m| |]; cbn [honest_user];
      try (intros [= <- <-]; split; [done|cbn; lia]).
    - (* transfer *)
      destruct (std_transfer (tok s) a to x) as [[l1 lg]|] eqn:Htr; [|intros [= <- <-]; split; [done|cbn; lia]].
      destruct (std_transfer_spec _ _ _ _ _ _ Htr) as (_ & _ & Hx & -> & Ht & Hmi & Hz & Hw).
      assert (Hinv1 : InvCoin (set_tok s l1) /\ gap (set_tok s l1) = gap s).
      { split; [split; sst; [done|congruence|auto|unfold gap in *; sst; lia]|unfold gap; sst; lia]. }
      cbn [burn_of]. unfold hook. sst.
      destruct (erc20_on s && hook_on s); cbn [negb fold_left].
      2:{ intros [= <- <-]. destruct Hinv1. split; [done|lia]. }
      unfold hook_log. cbn [tlog lk lamt lto lfrom]. sst. rewrite Hown.
      destruct (Z.leb_spec x 0). { intros [= <- <-]. destruct Hinv1. split; [done|lia]. }
      destruct (reg s); cbn [negb]. 2:{ intros [= <- <-]. destruct Hinv1. split; [done|lia]. }
      destruct (N.eqb_spec to MODULE) as [->|]; cbn [negb]. 2:{ intros [= <- <-]. destruct Hinv1. split; [done|lia]. }
      destruct (en s); cbn [negb]. 2:{ intros [= <- <-]. destruct Hinv1. split; [done|lia]. }
      hsimp.
      destruct (std_burn l1 MODULE x) as [[l2 lg2]|] eqn:Hb. 2:{ intros [= <- <-]. destruct Hinv1. split; [done|lia]. }
      destruct (std_burn_spec _ _ _ _ _ Hb) as (_ & Hx2 & _ & Ht2 & Hmi2 & _ & Hw2).
      unfold blocked. destruct (N.eqb_spec a MODULE); [done|].
      assert (Hle : x <= zget (cbal s) MODULE).
      { destruct (Hw Hwf) as [Hnn1 Hs1]. pose proof (msum_ge (lbal l1) MODULE Hnn1). unfold gap in Hback. lia. }
      unfold bank_send. destruct (Z.leb_spec x 0); [lia|]. destruct (Z.ltb_spec (zget (cbal s) MODULE) x); [lia|].
      cbn [orb]. intros [= <- <-].
      match goal with |- InvCoin ?S /\ _ => assert (Hg : gap S = gap s) end.
      { unfold gap. sst. rewrite !zget_zset. rewrite (decide_False (P := a = MODULE)) by done.
        rewrite decide_True by done. lia. }
      split; [|lia]. split; sst; [done|congruence|auto|lia].
    - (* burn *)
      destruct (std_burn (tok s) a x) as [[l1 lg]|] eqn:Hb; [|intros [= <- <-]; split; [done|cbn; lia]].
      destruct (std_burn_spec _ _ _ _ _ Hb) as (_ & Hx & -> & Ht & Hmi & _ & Hw).
      assert (Hinv1 : InvCoin (set_tok s l1) /\ gap (set_tok s l1) = gap s + x).
      { split; [split; sst; [done|congruence|auto|unfold gap in *; sst; lia]|unfold gap; sst; lia]. }
      unfold hook. sst. destruct (erc20_on s && hook_on s); cbn [negb fold_left];
        [unfold hook_log; cbn [tlog lk lamt lto lfrom]; sst;
         destruct (x <=? 0); [|destruct (reg s); cbn [negb]; [change (N.eqb ZERO MODULE) with false; cbn [negb]|]]|];
        intros [= <- <-]; destruct Hinv1; (split; [done|cbn; lia]).
    - (* mint: only the module holds the minter role *)
      unfold std_mint. rewrite Hmin. destruct (N.eqb_spec a MODULE); [done|]. cbn [negb].
      intros [= <- <-]. split; [done|cbn; lia].
  Qed.

  Lemma coin_send (s : st ledger) a b x s' r : InvCoin s ->
    msg_send HT cf s a b x = (s', r) -> InvCoin s' /\ gap s' = gap s.
  Proof.
    intros Hinv. pose proof Hinv as [Hown Hmin Hwf Hback]. unfold msg_send.
    destruct (x <=? 0); [intros [= <- <-]; split; [done|lia]|].
    destruct (N.eqb_spec a MODULE); [intros [= <- <-]; split; [done|lia]|].
    destruct (blocked b) eqn:Hbl; [intros [= <- <-]; split; [done|lia]|]. apply blocked_false in Hbl.
    destruct (erc20_on s && reg s && en s); cbn [negb].
    - hsimp. destruct (MAXU <? _); [intros [= <- <-]; split; [done|lia]|].
      destruct (_ <? x); [intros [= <- <-]; split; [done|lia]|].
      assert (Hin : exists s1 r1, (if zget (cbal s) a =? 0 then (s, OK) else convert_coin HT s a a (zget (cbal s) a)) = (s1, r1)
                                  /\ InvCoin s1 /\ gap s1 = gap s).
      { destruct (zget (cbal s) a =? 0); [exists s, OK; done|].
        destruct (convert_coin HT s a a (zget (cbal s) a)) as [s1 r1] eqn:Hcc. exists s1, r1. split; [done|].
        exact (coin_convert_coin _ _ _ _ _ _ n Hinv Hcc). }
      destruct Hin as (s1 & r1 & -> & Hinv1 & Hg1).
      destruct r1; [|intros [= <- <-]; split; [done|lia]].
      destruct (std_transfer (tok s1) a b x) as [[l2 lg]|] eqn:Htr; cbn [with_ret]; [|intros [= <- <-]; split; [done|lia]].
      destruct (negb _); [intros [= <- <-]; split; [done|lia]|].
      destruct (std_transfer_spec _ _ _ _ _ _ Htr) as (_ & _ & _ & _ & Ht & Hmi & _ & Hw).
      destruct Hinv1 as [Hown1 Hmin1 Hwf1 Hback1].
      destruct (approval_check_cases lg) as [Ha|[Ha|Ha]]; rewrite Ha; intros [= <- <-]; try (split; [done|lia]).
      assert (gap (set_tok s1 l2) = gap s1) by (unfold gap; sst; lia).
      split; [|lia]. split; sst; [done|congruence|auto|lia].
    - destruct (bank_send (cbal s) a b x) as [cb|] eqn:Hbs; [|intros [= <- <-]; split; [done|lia]].
      intros [= <- <-]. destruct (bank_send_spec _ _ _ _ _ Hbs) as (_ & _ & Hz).
      assert (gap (set_bank s cb (supply s)) = gap s).
      { unfold gap. sst. rewrite Hz, !ind_diff by done. lia. }
      split; [|done]. split; sst; [done|done|done|lia].
  Qed.

  Lemma coin_flat_recv (s : st ledger) mint smod esc b x s' r : InvCoin s ->
    ibc_recv HT s mint smod esc b x = (s', r) -> InvCoin s' /\ gap s' = gap s.
  Proof.
    intros Hinv. unfold ibc_recv.
    destruct (credit s mint esc b x) as [s1|] eqn:Hc; [|intros [= <- <-]; split; [done|lia]].
    destruct (coin_credit _ _ _ _ _ _ Hinv Hc) as [Hinv1 Hg1].
    destruct (credit_spec _ _ _ _ _ _ Hc) as (Hb & _).
    destruct (_ || _); [intros [= <- <-]; split; [done|lia]|].
    destruct (convert_coin HT s1 b b (zget (cbal s1) b)) as [s2 r2] eqn:Hcc.
    destruct (coin_convert_coin _ _ _ _ _ _ Hb Hinv1 Hcc) as [Hinv2 Hg2].
    destruct r2; intros [= <- <-]; split; (done || lia).
  Qed.

  Lemma coin_refund (s : st ledger) mint esc b x s' r : InvCoin s ->
    ibc_refund HT s mint esc b x = (s', r) -> InvCoin s' /\ gap s' = gap s.
  Proof.
    intros Hinv. unfold ibc_refund.
    destruct (N.eqb_spec b MODULE); [intros [= <- <-]; split; [done|lia]|].
    destruct (credit s mint esc b x) as [s1|] eqn:Hc; [|intros [= <- <-]; split; [done|lia]].
    destruct (coin_credit _ _ _ _ _ _ Hinv Hc) as [Hinv1 Hg1].
    destruct (_ || _); [intros [= <- <-]; split; [done|lia]|].
    destruct (convert_coin HT s1 b b x) as [s2 r2] eqn:Hcc.
    destruct (coin_convert_coin _ _ _ _ _ _ n Hinv1 Hcc) as [Hinv2 Hg2].
    destruct r2; intros [= <- <-]; split; (done || lia).
  Qed.

  (** every operation keeps the invariant and moves the gap escrow - totalSupply
      by exactly what a holder burned of his own tokens *)
  Theorem coin_step (s : st ledger) o s' r : InvCoin s -> step HT cf s o = (s', r) ->
    InvCoin s' /\ gap s' = gap s + burn_of o r.
  Proof.
    intros Hinv. destruct o as [a x|a b x|a b x|a b x|a c|a b x|a x| |e h|mint smod esc b x|success mint esc b x|mint esc b x];
      cbn [step].
    - destruct (credit s true 0 a x) as [s1|] eqn:Hc; intros [= <- <-]; [|split; [done|cbn; lia]].
      destruct (coin_credit _ _ _ _ _ _ Hinv Hc). split; [done|cbn; lia].
    - destruct (credit s false a b x) as [s1|] eqn:Hc; intros [= <- <-]; [|split; [done|cbn; lia]].
      destruct (coin_credit _ _ _ _ _ _ Hinv Hc). split; [done|cbn; lia].
    - unfold msg_convert_coin. destruct (x <=? 0); [intros [= <- <-]; split; [done|cbn; lia]|].
      destruct (N.eqb_spec a MODULE); [intros [= <- <-]; split; [done|cbn; lia]|].
      intros H. destruct (coin_convert_coin _ _ _ _ _ _ n Hinv H). split; [done|cbn; lia].
    - unfold msg_convert_erc20. destruct (x <=? 0); [intros [= <- <-]; split; [done|cbn; lia]|].
      destruct (N.eqb_spec a MODULE); [intros [= <- <-]; split; [done|cbn; lia]|].
      intros H. destruct (coin_convert_erc20 _ _ _ _ _ _ Hinv H). split; [done|cbn; lia].
    - apply coin_eth. done.
    - intros H. destruct (coin_send _ _ _ _ _ _ Hinv H). split; [done|cbn; lia].
    - intros [= <- <-]. split; [done|cbn; lia].
    - destruct Hinv as [Hown Hmin Hwf Hback]. destruct (reg s); intros [= <- <-]; (split; [|cbn; unfold gap; sst; lia]);
        split; sst; done.
    - destruct Hinv as [Hown Hmin Hwf Hback]. intros [= <- <-]. split; [|cbn; unfold gap; sst; lia]. split; sst; done.
    - intros H. destruct (coin_flat_recv _ _ _ _ _ _ _ _ Hinv H). split; [done|cbn; lia].
    - destruct (N.eqb b MODULE); [intros [= <- <-]; split; [done|cbn; lia]|].
      destruct success; [intros [= <- <-]; split; [done|cbn; lia]|].
      intros H. destruct (coin_refund _ _ _ _ _ _ _ Hinv H). split; [done|cbn; lia].
    - intros H. destruct (coin_refund _ _ _ _ _ _ _ Hinv H). split; [done|cbn; lia].
  Qed.
End HonestCoin.

(** ** token-origin pair with an honest external token *)
Record InvExt (s : st ledger) : Prop := {
  ie_own : own_mod s = false;
  ie_back : supply s <= zget (lbal (tok s)) MODULE
}.

Lemma ext_convert_coin (s : st ledger) a b x s' r : InvExt s ->
  convert_coin HT s a b x = (s', r) -> InvExt s'.
Proof.
  intros [Hown Hback] H.
  destruct (h_convert_coin _ _ _ _ _ _ H) as [[_ ->]|(_ & Hbl & _ & cb & l1 & lg & Hbs & Hrest)]; [done|].
  rewrite Hown in Hrest. destruct Hrest as [Htr ->]. apply blocked_false in Hbl.
  destruct (std_transfer_spec _ _ _ _ _ _ Htr) as (_ & _ & _ & _ & _ & _ & Hz & _).
  split; sst; [done|]. rewrite Hz, ind_same, (ind_diff b MODULE) by done. lia.
Qed.

Lemma ext_convert_erc20 (s : st ledger) a b x s' r : InvExt s ->
  convert_erc20 HT s a b x = (s', r) -> InvExt s'.
Proof.
  intros [Hown Hback] H.
  destruct (h_convert_erc20 _ _ _ _ _ _ H) as [[_ ->]|(_ & _ & _ & l1 & lg & Hrest)]; [done|].
  rewrite Hown in Hrest. destruct Hrest as (_ & Hm & _ & ->). split; sst; [done|lia].
Qed.

Lemma ext_credit (s : st ledger) mint esc to x s1 : InvExt s -> credit s mint esc to x = Some s1 -> InvExt s1.
Proof.
  intros [Hown Hback] H. destruct (credit_spec _ _ _ _ _ _ H) as (_ & _ & Ht & (_ & Ho & _) & _ & Hs).
  destruct mint; [destruct Hs; congruence|]. split; [congruence|]. rewrite Ht, Hs. done.
Qed.

Section HonestExt.
  Variable cf : cfg.

  (** what the hook does with the single log of an honest call that has already
      moved [d] tokens to the module (d = amount if the log goes to the module) *)
  Lemma ext_hook_one (s : st ledger) l1 from to x : own_mod s = false ->
    supply s + (if decide (to = MODULE) then x else 0) <= zget (lbal l1) MODULE ->
    supply s <= zget (lbal l1) MODULE ->
    match hook HT cf (set_tok s l1) [tlog from to x] with
    | None => True
    | Some s2 => InvExt s2
    end.
  Proof.
    intros Hown Hto Hle. unfold hook. sst.
    destruct (erc20_on s && hook_on s); cbn [negb fold_left]; [|split; sst; done].
    unfold hook_log. cbn [tlog lk lamt lto lfrom]. sst. rewrite Hown.
    destruct (x <=? 0); [split; sst; done|].
    destruct (reg s); cbn [negb]; [|split; sst; done].
    destruct (N.eqb_spec to MODULE) as [->|]; cbn [negb]; [|split; sst; done].
    destruct (en s); cbn [negb]; [|split; sst; done].
    destruct (hook_ext cf); cbn [negb]; [|split; sst; done].
    destruct (MAXU <? supply s + x); [done|].
    rewrite decide_True in Hto by done.
    destruct (blocked from); [split; sst; [done|lia]|].
    destruct (bank_send _ MODULE from x); split; sst; (done || lia).
  Qed.

  Lemma ext_eth (s : st ledger) a c s' r : InvExt s -> eth_tx HT cf s a c = (s', r) -> InvExt s'.
  Proof.
    intros Hinv. pose proof Hinv as [Hown Hback]. unfold eth_tx.
    destruct (has_key a) eqn:Hk; cbn [negb]; [|intros [= <- <-]; done].
    apply has_key_not_module in Hk. hsimp.
    destruct c as [to x|x|to x|m| |]; cbn [honest_user]; try (intros [= <- <-]; done).
    - destruct (std_transfer (tok s) a to x) as [[l1 lg]|] eqn:Htr; [|intros [= <- <-]; done].
      destruct (std_transfer_spec _ _ _ _ _ _ Htr) as (_ & _ & Hx & -> & _ & _ & Hz & _).
      pose proof (ext_hook_one s l1 a to x Hown) as Hh.
      destruct (hook HT cf (set_tok s l1) [tlog a to x]) as [s2|]; intros [= <- <-]; [|done].
      apply Hh; rewrite Hz, (ind_diff a MODULE) by done; unfold ind; destruct (decide (to = MODULE)); lia.
    - destruct (std_burn (tok s) a x) as [[l1 lg]|] eqn:Hb; [|intros [= <- <-]; done].
      destruct (std_burn_spec _ _ _ _ _ Hb) as (_ & Hx & -> & _ & _ & Hz & _).
      pose proof (ext_hook_one s l1 a ZERO x Hown) as Hh.
      destruct (hook HT cf (set_tok s l1) [tlog a ZERO x]) as [s2|]; intros [= <- <-]; [|done].
      apply Hh; rewrite Hz, (ind_diff a MODULE) by done; rewrite ?decide_False by done; lia.
    - destruct (std_mint (tok s) a to x) as [[l1 lg]|] eqn:Hm; [|intros [= <- <-]; done].
      destruct (std_mint_spec _ _ _ _ _ _ Hm) as (_ & _ & Hx & -> & _ & _ & Hz & _).
      pose proof (ext_hook_one s l1 ZERO to x Hown) as Hh.
      destruct (hook HT cf (set_tok s l1) [tlog ZERO to x]) as [s2|]; intros [= <- <-]; [|done].
      apply Hh; rewrite Hz; unfold ind; destruct (decide (to = MODULE)); lia.
  Qed.

  Lemma ext_send (s : st ledger) a b x s' r : InvExt s -> msg_send HT cf s a b x = (s', r) -> InvExt s'.
  Proof.
    intros Hinv. pose proof Hinv as [Hown Hback]. unfold msg_send.
    destruct (x <=? 0); [intros [= <- <-]; done|].
    destruct (N.eqb_spec a MODULE); [intros [= <- <-]; done|].
    destruct (blocked b) eqn:Hbl; [intros [= <- <-]; done|]. apply blocked_false in Hbl.
    destruct (erc20_on s && reg s && en s); cbn [negb].
    - hsimp. destruct (MAXU <? _); [intros [= <- <-]; done|].
      destruct (_ <? x); [intros [= <- <-]; done|].
      assert (Hin : exists s1 r1, (if zget (cbal s) a =? 0 then (s, OK) else convert_coin HT s a a (zget (cbal s) a)) = (s1, r1)
                                  /\ InvExt s1).
      { destruct (zget (cbal s) a =? 0); [exists s, OK; done|].
        destruct (convert_coin HT s a a (zget (cbal s) a)) as [s1 r1] eqn:Hcc. exists s1, r1. split; [done|].
        exact (ext_convert_coin _ _ _ _ _ _ Hinv Hcc). }
      destruct Hin as (s1 & r1 & -> & [Hown1 Hback1]).
      destruct r1; [|intros [= <- <-]; done].
      destruct (std_transfer (tok s1) a b x) as [[l2 lg]|] eqn:Htr; cbn [with_ret]; [|intros [= <- <-]; done].
      destruct (negb _); [intros [= <- <-]; done|].
      destruct (std_transfer_spec _ _ _ _ _ _ Htr) as (_ & _ & _ & _ & _ & _ & Hz & _).
      destruct (approval_check_cases lg) as [Ha|[Ha|Ha]]; rewrite Ha; intros [= <- <-]; try done.
      split; sst; [done|]. rewrite Hz, !ind_diff by done. lia.
    - destruct (bank_send (cbal s) a b x) as [cb|] eqn:Hbs; intros [= <- <-]; [|done]. split; sst; done.
  Qed.

  Theorem ext_step (s : st ledger) o s' r : InvExt s -> step HT cf s o = (s', r) -> InvExt s'.
  Proof.
    intros Hinv. destruct o as [a x|a b x|a b x|a b x|a c|a b x|a x| |e h|mint smod esc b x|success mint esc b x|mint esc b x];
      cbn [step].
    - destruct (credit s true 0 a x) as [s1|] eqn:Hc; intros [= <- <-]; [|done]. eapply ext_credit; eauto.
    - destruct (credit s false a b x) as [s1|] eqn:Hc; intros [= <- <-]; [|done]. eapply ext_credit; eauto.
    - unfold msg_convert_coin. destruct (x <=? 0); [intros [= <- <-]; done|].
      destruct (N.eqb a MODULE); [intros [= <- <-]; done|]. apply ext_convert_coin. done.
    - unfold msg_convert_erc20. destruct (x <=? 0); [intros [= <- <-]; done|].
      destruct (N.eqb a MODULE); [intros [= <- <-]; done|]. apply ext_convert_erc20. done.
    - apply ext_eth. done.
    - apply ext_send. done.
    - intros [= <- <-]. done.
    - destruct Hinv as [Hown Hback]. destruct (reg s); intros [= <- <-]; split; sst; done.
    - destruct Hinv as [Hown Hback]. intros [= <- <-]. split; sst; done.
    - unfold ibc_recv. destruct (credit s mint esc b x) as [s1|] eqn:Hc; [|intros [= <- <-]; done].
      pose proof (ext_credit _ _ _ _ _ _ Hinv Hc) as Hinv1.
      destruct (_ || _); [intros [= <- <-]; done|].
      destruct (convert_coin HT s1 b b (zget (cbal s1) b)) as [s2 r2] eqn:Hcc.
      pose proof (ext_convert_coin _ _ _ _ _ _ Hinv1 Hcc). destruct r2; intros [= <- <-]; done.
    - destruct (N.eqb b MODULE); [intros [= <- <-]; done|].
      destruct success; [intros [= <- <-]; done|].
      unfold ibc_refund. destruct (N.eqb b MODULE); [intros [= <- <-]; done|].
      destruct (credit s mint esc b x) as [s1|] eqn:Hc; [|intros [= <- <-]; done].
      pose proof (ext_credit _ _ _ _ _ _ Hinv Hc) as Hinv1.
      destruct (_ || _); [intros [= <- <-]; done|].
      destruct (convert_coin HT s1 b b x) as [s2 r2] eqn:Hcc.
      pose proof (ext_convert_coin _ _ _ _ _ _ Hinv1 Hcc). destruct r2; intros [= <- <-]; done.
    - unfold ibc_refund. destruct (N.eqb b MODULE); [intros [= <- <-]; done|].
      destruct (credit s mint esc b x) as [s1|] eqn:Hc; [|intros [= <- <-]; done].
      pose proof (ext_credit _ _ _ _ _ _ Hinv Hc) as Hinv1.
      destruct (_ || _); [intros [= <- <-]; done|].
      destruct (convert_coin HT s1 b b x) as [s2 r2] eqn:Hcc.
      pose proof (ext_convert_coin _ _ _ _ _ _ Hinv1 Hcc). destruct r2; intros [= <- <-]; done.
  Qed.
End HonestExt.

(** * all histories *)
Lemma run_cons {T} (tk : token T) cf o ops s : run tk cf (o :: ops) s = run tk cf ops (fst (step tk cf s o)).
Proof. done. Qed.

Fixpoint holder_burns (cf : cfg) (ops : list op) (s : st ledger) : Z :=
  match ops with
  | [] => 0
  | o :: r => let '(s', res) := step HT cf s o in burn_of o res + holder_burns cf r s'
  end.

Definition no_holder_burn (ops : list op) : Prop :=
  forall a x, ~ In (Eth a (UBurn x)) ops.

Lemma holder_burns_none cf ops : no_holder_burn ops -> forall s, holder_burns cf ops s = 0.
Proof.
  induction ops as [|o r IH]; intros Hn s; cbn [holder_burns]; [done|].
  destruct (step HT cf s o) as [s' res]. rewrite IH.
  - destruct o as [| | | |a c| | | | | | |]; cbn; try lia. destruct c; cbn; try lia.
    exfalso. eapply Hn. left. done.
  - intros a x Hin. eapply Hn. right. exact Hin.
Qed.

Lemma holder_burns_nonneg cf ops : forall s, InvCoin s -> 0 <= holder_burns cf ops s.
Proof.
  induction ops as [|o r IH]; intros s Hinv; cbn [holder_burns]; [lia|].
  destruct (step HT cf s o) as [s' res] eqn:Hs.
  destruct (coin_step cf _ _ _ _ Hinv Hs) as [Hinv' Hg]. specialize (IH s' Hinv').
  assert (0 <= burn_of o res); [|lia].
  destruct o as [| | | |a c| | | | | | |]; cbn; try lia. destruct c; cbn; try lia.
  destruct (N.eqb res OK) eqn:E; [|lia].
  (* a successful burn has a non-negative amount *)
  cbn [step] in Hs. unfold eth_tx in Hs. destruct (has_key a); cbn [negb] in Hs; [|injection Hs as _ <-; discriminate].
  hsimp. cbn [honest_user] in Hs. destruct (std_burn (tok s) a x) as [[l1 lg]|] eqn:Hb.
  - destruct (std_burn_spec _ _ _ _ _ Hb) as (_ & Hx & _). lia.
  - injection Hs as _ <-. discriminate.
Qed.

Theorem coin_all_histories cf ops : forall s, InvCoin s ->
  InvCoin (run HT cf ops s) /\ gap (run HT cf ops s) = gap s + holder_burns cf ops s.
Proof.
  induction ops as [|o r IH]; intros s Hinv; [cbn; split; [done|lia]|].
  rewrite run_cons. cbn [holder_burns]. destruct (step HT cf s o) as [s' res] eqn:Hs. cbn [fst].
  destruct (coin_step cf _ _ _ _ Hinv Hs) as [Hinv' Hg].
  destruct (IH s' Hinv') as [Hi Hgr]. split; [done|lia].
Qed.

Theorem ext_all_histories cf ops : forall s, InvExt s -> InvExt (run HT cf ops s).
Proof.
  induction ops as [|o r IH]; intros s Hinv; [done|].
  rewrite run_cons. destruct (step HT cf s o) as [s' res] eqn:Hs. cbn [fst].
  apply IH. eapply ext_step; eauto.
Qed.

(** the property's backing statement *)
Definition backing_inv (s : st ledger) : Prop :=
  if own_mod s
  then ltotal (tok s) <= zget (cbal s) MODULE      (* ERC20 total supply <= coins escrowed in the module account *)
  else supply s <= zget (lbal (tok s)) MODULE.     (* coin supply <= tokens escrowed by the module *)

(** a freshly registered pair: nothing converted yet *)
Definition fresh (s : st ledger) : Prop :=
  if own_mod s
  then lminter (tok s) = MODULE /\ lbal (tok s) = ∅ /\ ltotal (tok s) = 0 /\ zget (cbal s) MODULE = 0
  else supply s = 0 /\ 0 <= zget (lbal (tok s)) MODULE.

Lemma fresh_inv s : fresh s -> if own_mod s then InvCoin s /\ gap s = 0 else InvExt s.
Proof.
  unfold fresh. destruct (own_mod s) eqn:Hown.
  - intros (Hm & Hb & Ht & Hc). split; [split; [done|done| |unfold gap; lia]|unfold gap; lia].
    split; [intros a; rewrite Hb, zget_empty; lia|rewrite Hb, msum_empty; lia].
  - intros [Hs Hm]. split; [done|lia].
Qed.

Theorem backing_inv_all_histories cf ops s : fresh s -> backing_inv (run HT cf ops s).
Proof.
  intros Hf. pose proof (fresh_inv s Hf) as Hi. unfold backing_inv. destruct (own_mod s) eqn:Hown.
  - destruct Hi as [Hinv Hg]. destruct (coin_all_histories cf ops s Hinv) as [[Hown' _ _ Hback] _].
    rewrite Hown'. unfold gap in Hback. lia.
  - destruct (ext_all_histories cf ops s Hi) as [Hown' Hback]. rewrite Hown'. done.
Qed.

(** coin-origin: escrow = total supply + what holders burned themselves; equality without burns *)
Theorem backing_coin_exact cf ops s : fresh s -> own_mod s = true ->
  let s' := run HT cf ops s in
  zget (cbal s') MODULE = ltotal (tok s') + holder_burns cf ops s /\ 0 <= holder_burns cf ops s.
Proof.
  intros Hf Hown. pose proof (fresh_inv s Hf) as Hi. rewrite Hown in Hi. destruct Hi as [Hinv Hg].
  destruct (coin_all_histories cf ops s Hinv) as [_ Hgap]. cbn zeta. unfold gap in *.
  split; [lia|]. apply holder_burns_nonneg. done.
Qed.

Theorem backing_coin_equal_without_burns cf ops s : fresh s -> own_mod s = true -> no_holder_burn ops ->
  let s' := run HT cf ops s in zget (cbal s') MODULE = ltotal (tok s').
Proof.
  intros Hf Hown Hn. destruct (backing_coin_exact cf ops s Hf Hown) as [He _]. cbn zeta in *.
  rewrite (holder_burns_none cf ops Hn) in He. lia.
Qed.

(** a rejected message changes nothing, whatever the token *)
Theorem failed_step_no_effect {T} (tk : token T) cf (s : st T) o s' r :
  step tk cf s o = (s', r) -> r <> OK -> s' = s.
Proof.
  intros H Hr. destruct o as [a x|a b x|a b x|a b x|a c|a b x|a x| |e h|mint smod esc b x|success mint esc b x|mint esc b x];
    cbn [step] in H.
  - destruct (credit s true 0 a x); injection H as <- <-; done.
  - destruct (credit s false a b x); injection H as <- <-; done.
  - destruct (msg_convert_coin_exact_or_error tk _ _ _ _ _ _ H) as [[_ ?]|[(? & _)|(? & _)]]; done.
  - destruct (msg_convert_erc20_exact_or_error tk _ _ _ _ _ _ H) as [[_ ?]|[(? & _)|(? & _)]]; done.
  - unfold eth_tx in H. destruct (negb (has_key a)); [injection H as <- <-; done|].
    destruct (call_user tk (tok s) a c) as [[t1 lg]|]; [|injection H as <- <-; done].
    destruct (hook tk cf (set_tok s t1) lg); injection H as <- <-; done.
  - unfold msg_send in H.
    repeat match type of H with
           | (if ?c then _ else _) = _ => destruct c
           | (match ?c with _ => _ end) = _ => destruct c eqn:?
           | (let '(_, _) := ?c in _) = _ => destruct c eqn:?
           end; try (injection H as <- <-; done).
  - injection H as <- <-; done.
  - destruct (reg s); injection H as <- <-; done.
  - injection H as <- <-; done.
  - unfold ibc_recv in H. destruct (credit s mint esc b x); [|injection H as <- <-; done].
    destruct (_ || _); [injection H as <- <-; done|].
    destruct (convert_coin tk s0 b b (zget (cbal s0) b)) as [s2 [|?]]; injection H as <- <-; done.
  - destruct (N.eqb b MODULE); [injection H as <- <-; done|]. destruct success; [injection H as <- <-; done|].
    unfold ibc_refund in H. destruct (N.eqb b MODULE); [injection H as <- <-; done|].
    destruct (credit s mint esc b x); [|injection H as <- <-; done].
    destruct (_ || _); [injection H as <- <-; done|].
    destruct (convert_coin tk s0 b b x) as [s2 [|?]]; injection H as <- <-; done.
  - unfold ibc_refund in H. destruct (N.eqb b MODULE); [injection H as <- <-; done|].
    destruct (credit s mint esc b x); [|injection H as <- <-; done].
    destruct (_ || _); [injection H as <- <-; done|].
    destruct (convert_coin tk s0 b b x) as [s2 [|?]]; injection H as <- <-; done.
Qed.

(** * the transfer-to-module hook *)

(** honest token: a holder's transfer of x > 0 tokens to the module address is an
    exact conversion of x tokens of the holder into x coins of the holder *)
Definition hook_active (s : st ledger) : Prop :=
  erc20_on s = true /\ hook_on s = true /\ reg s = true /\ en s = true.

Definition tok_moves (s s' : st ledger) (f : N -> Z) : Prop :=
  forall c, zget (lbal (tok s')) c = zget (lbal (tok s)) c + f c.

Theorem hook_honest_exact_coin cf (s : st ledger) a x s' r : InvCoin s -> hook_active s -> 0 < x ->
  eth_tx HT cf s a (UTransfer MODULE x) = (s', r) ->
  (r <> OK /\ s' = s) \/
  (r = OK /\ x <= zget (lbal (tok s)) a /\ a <> MODULE /\ same_pair s s' /\
   tok_moves s s' (fun c => - x * ind a c) /\ ltotal (tok s') = ltotal (tok s) - x /\
   coin_moves s s' (fun c => x * ind a c - x * ind MODULE c) /\ supply s' = supply s).
Proof.
  intros [Hown Hmin Hwf Hback] (Hon & Hhk & Hreg & Hen) Hx. unfold eth_tx.
  destruct (has_key a) eqn:Hk; cbn [negb]; [|intros [= <- <-]; left; done].
  apply has_key_not_module in Hk. hsimp. cbn [honest_user].
  destruct (std_transfer (tok s) a MODULE x) as [[l1 lg]|] eqn:Htr; [|intros [= <- <-]; left; done].
  destruct (std_transfer_spec _ _ _ _ _ _ Htr) as (_ & _ & Hxa & -> & Ht & Hmi & Hz & Hw).
  unfold hook. sst. rewrite Hon, Hhk. cbn [andb negb fold_left].
  unfold hook_log. cbn [tlog lk lamt lto lfrom]. sst. rewrite Hown, Hreg, Hen.
  destruct (Z.leb_spec x 0); [lia|]. cbn [negb]. change (N.eqb MODULE MODULE) with true. cbn [negb]. hsimp.
  assert (Hm1 : zget (lbal l1) MODULE = zget (lbal (tok s)) MODULE + x).
  { rewrite Hz, ind_same, (ind_diff a MODULE) by done. lia. }
  unfold std_burn. change (N.eqb MODULE ZERO) with false. cbn iota.
  destruct (Z.ltb_spec x 0); [lia|]. cbn [orb].
  destruct (Z.ltb_spec (zget (lbal l1) MODULE) x).
  { destruct Hwf as [Hnn _]. specialize (Hnn MODULE). lia. }
  sst. unfold blocked. destruct (N.eqb_spec a MODULE); [done|].
  assert (Hle : x <= zget (cbal s) MODULE).
  { destruct (Hw Hwf) as [Hnn1 Hs1]. pose proof (msum_ge (lbal l1) MODULE Hnn1). unfold gap in Hback. lia. }
  unfold bank_send. destruct (Z.leb_spec x 0); [lia|]. destruct (Z.ltb_spec (zget (cbal s) MODULE) x); [lia|].
  cbn [orb]. intros [= <- <-]. right. unfold same_pair, tok_moves, coin_moves. sst. cbn [lbal ltotal].
  do 4 (split; [done || lia|]). split; [|split; [lia|split; [|done]]].
  - intros c. rewrite zget_zset. destruct (decide (MODULE = c)) as [<-|Hn].
    + rewrite (ind_diff a MODULE) by done. lia.
    + rewrite Hz, (ind_diff MODULE c) by done. lia.
  - intros c. rewrite !zget_zset. unfold ind.
    destruct (decide (a = c)) as [->|]; destruct (decide (MODULE = c)) as [<-|]; try done; lia.
Qed.

Theorem hook_honest_exact_ext cf (s : st ledger) a x s' r : InvExt s -> hook_active s -> 0 < x -> hook_ext cf = true ->
  0 <= zget (cbal s) MODULE ->
  eth_tx HT cf s a (UTransfer MODULE x) = (s', r) ->
  (r <> OK /\ s' = s) \/
  (r = OK /\ x <= zget (lbal (tok s)) a /\ a <> MODULE /\ same_pair s s' /\
   tok_moves s s' (fun c => x * ind MODULE c - x * ind a c) /\ ltotal (tok s') = ltotal (tok s) /\
   coin_moves s s' (fun c => x * ind a c) /\ supply s' = supply s + x).
Proof.
  intros [Hown Hback] (Hon & Hhk & Hreg & Hen) Hx Hcf Hesc. unfold eth_tx.
  destruct (has_key a) eqn:Hk; cbn [negb]; [|intros [= <- <-]; left; done].
  apply has_key_not_module in Hk. hsimp. cbn [honest_user].
  destruct (std_transfer (tok s) a MODULE x) as [[l1 lg]|] eqn:Htr; [|intros [= <- <-]; left; done].
  destruct (std_transfer_spec _ _ _ _ _ _ Htr) as (_ & _ & Hxa & -> & Ht & Hmi & Hz & Hw).
  unfold hook. sst. rewrite Hon, Hhk. cbn [andb negb fold_left].
  unfold hook_log. cbn [tlog lk lamt lto lfrom]. sst. rewrite Hown, Hreg, Hen, Hcf.
  destruct (Z.leb_spec x 0); [lia|]. cbn [negb]. change (N.eqb MODULE MODULE) with true. cbn [negb].
  destruct (MAXU <? supply s + x); [intros [= <- <-]; left; done|].
  unfold blocked. destruct (N.eqb_spec a MODULE); [done|].
  unfold bank_send. rewrite zget_zset, decide_True by done.
  destruct (Z.leb_spec x 0); [lia|]. cbn [orb].
  destruct (Z.ltb_spec (zget (cbal s) MODULE + x) x); [lia|].
  intros [= <- <-]. right. unfold same_pair, tok_moves, coin_moves. sst.
  do 4 (split; [done || lia|]). split; [|split; [lia|split; [|done]]].
  - intros c. rewrite Hz. lia.
  - intros c. rewrite !zget_zset. unfold ind.
    destruct (decide (a = c)) as [->|]; destruct (decide (MODULE = c)) as [<-|]; try done; lia.
Qed.

(** finding K7: an externally owned token that only emits Transfer(caller, module, 1000):
    one transaction, coin supply 0 -> 1000 in the caller's hands, nothing escrowed *)
Definition k7_state : st unit := init false ∅ 0 tt.

Theorem hook_external_log_only_refuted :
  let s' := fst (step fakelog_token impl k7_state (Eth 1 UOther)) in
  snd (step fakelog_token impl k7_state (Eth 1 UOther)) = OK /\
  supply k7_state = 0 /\ supply s' = 1000 /\ zget (cbal s') 1 = 1000 /\
  balance_of fakelog_token (tok k7_state) MODULE = None /\ balance_of fakelog_token (tok s') MODULE = None.
Proof. vm_compute. repeat split. Qed.

(** the same with a token that keeps a real ledger and lies only after having
    behaved (delayed-malicious): the module's token balance is reported as 0
    before and after, yet 33 coins exist *)
Definition k7_delayed : list op :=
  [Eth 1 (UMint 1 100); Eth 1 (UTransfer 2 10); Eth 1 (UMode 1); Eth 1 (UTransfer MODULE 33)].

Theorem hook_external_delayed_refuted :
  let s' := run cham_token impl k7_delayed (init false ∅ 0 (mkcham 0 ∅ 0 true)) in
  supply s' = 33 /\ zget (cbal s') 1 = 33 /\
  balance_of cham_token (tok s') MODULE = Some 0 /\ balance_of cham_token (tok s') 1 = Some 90.
Proof. vm_compute. repeat split. Qed.

(** ... while the message path rejects the very same token state *)
Theorem message_path_rejects_fake_transfer :
  let s := run cham_token impl [Eth 1 (UMint 1 100); Eth 1 (UMode 1)] (init false ∅ 0 (mkcham 0 ∅ 0 true)) in
  snd (step cham_token impl s (CE 1 1 33)) = EBalance.
Proof. vm_compute. done. Qed.

(** what the property demands of every coin creation for an externally owned
    pair: the token reports the same amount arriving at the module, in the same
    step.  Without the log-driven mint for external pairs ([spec]) this holds
    against ANY token, in every step. *)
Definition mint_witnessed {T} (tk : token T) (s s' : st T) : Prop :=
  supply s < supply s' -> reported tk (tok s) (tok s') MODULE (supply s' - supply s).

Lemma convert_coin_supply {T} (tk : token T) (s : st T) a b x s' r : own_mod s = false ->
  convert_coin tk s a b x = (s', r) -> supply s' <= supply s /\ own_mod s' = false.
Proof.
  intros Hown H. destruct (convert_coin_spec tk _ _ _ _ _ _ H) as [[_ ->]|[(_ & _ & ->)|(_ & _ & Hp)]];
    [split; [lia|done]|split; [cbn; lia|done]|].
  destruct Hp as (Hx & _ & _ & (_ & Ho & _) & _ & Hrest). rewrite Hown in Hrest. destruct Hrest as [_ ->].
  split; [lia|congruence].
Qed.

Lemma hook_spec_ext_no_bank {T} (tk : token T) cf logs : hook_ext cf = false -> forall (s : st T), own_mod s = false ->
  match hook tk cf s logs with
  | None => True
  | Some s2 => supply s2 = supply s /\ tok s2 = tok s
  end.
Proof.
  intros Hcf s Hown. unfold hook. destruct (negb _); [done|].
  assert (Hgen : forall logs (acc : option (st T)),
             match acc with None => True | Some s1 => supply s1 = supply s /\ tok s1 = tok s /\ own_mod s1 = false end ->
             match fold_left (fun acc l => match acc with None => None | Some s => hook_log tk cf s l end) logs acc with
             | None => True
             | Some s2 => supply s2 = supply s /\ tok s2 = tok s
             end).
  { clear logs. induction logs as [|l r IH]; intros acc Hacc; cbn [fold_left].
    - destruct acc as [s1|]; [|done]. destruct Hacc as (? & ? & _). done.
    - apply IH. destruct acc as [s1|]; [|done]. destruct Hacc as (Hs & Ht & Ho).
      unfold hook_log. rewrite Ho, Hcf. cbn [negb].
      destruct (lk l); try done.
      destruct (lamt l <=? 0); [done|]. destruct (negb (reg s1)); [done|].
      destruct (negb (N.eqb (lto l) MODULE)); [done|]. destruct (negb (en s1)); done. }
  apply Hgen. done.
Qed.

Theorem mint_witnessed_spec {T} (tk : token T) cf (s : st T) o s' r :
  hook_ext cf = false -> own_mod s = false -> step tk cf s o = (s', r) -> mint_witnessed tk s s'.
Proof.
  intros Hcf Hown H Hlt.
  destruct o as [a x|a b x|a b x|a b x|a c|a b x|a x| |e h|mint smod esc b x|success mint esc b x|mint esc b x];
    cbn [step] in H.
  - destruct (credit s true 0 a x) as [s1|] eqn:Hc; injection H as <- <-; [|lia].
    destruct (credit_spec _ _ _ _ _ _ Hc) as (_ & _ & _ & _ & _ & Ho & _). congruence.
  - destruct (credit s false a b x) as [s1|] eqn:Hc; injection H as <- <-; [|lia].
    destruct (credit_spec _ _ _ _ _ _ Hc) as (_ & _ & _ & _ & _ & Hs). lia.
  - unfold msg_convert_coin in H. destruct (x <=? 0); [injection H as <- <-; lia|].
    destruct (N.eqb a MODULE); [injection H as <- <-; lia|].
    destruct (convert_coin_supply tk _ _ _ _ _ _ Hown H). lia.
  - destruct (msg_convert_erc20_exact_or_error tk _ _ _ _ _ _ H) as [[_ ->]|[(_ & _ & ->)|(_ & _ & _ & _ & Hp)]];
      [lia|cbn in Hlt; lia|].
    destruct Hp as (_ & _ & Hrest). rewrite Hown in Hrest. destruct Hrest as (Hrep & _ & Hs & _).
    rewrite Hs. replace (supply s + x - supply s) with x by lia. done.
  - unfold eth_tx in H. destruct (negb (has_key a)); [injection H as <- <-; lia|].
    destruct (call_user tk (tok s) a c) as [[t1 lg]|]; [|injection H as <- <-; lia].
    pose proof (hook_spec_ext_no_bank tk cf lg Hcf (set_tok s t1) Hown) as Hh.
    destruct (hook tk cf (set_tok s t1) lg) as [s2|]; injection H as <- <-; [|lia].
    destruct Hh as [Hs _]. cbn in Hs. lia.
  - unfold msg_send in H.
    destruct (x <=? 0); [injection H as <- <-; lia|].
    destruct (N.eqb a MODULE); [injection H as <- <-; lia|].
    destruct (blocked b); [injection H as <- <-; lia|].
    destruct (negb _).
    + destruct (bank_send (cbal s) a b x); injection H as <- <-; [cbn in Hlt|]; lia.
    + destruct (balance_of tk (tok s) a); [|injection H as <- <-; lia].
      destruct (MAXU <? _); [injection H as <- <-; lia|]. destruct (_ <? x); [injection H as <- <-; lia|].
      assert (Hin : exists s1 r1, (if zget (cbal s) a =? 0 then (s, OK) else convert_coin tk s a a (zget (cbal s) a)) = (s1, r1)
                                  /\ supply s1 <= supply s).
      { destruct (zget (cbal s) a =? 0); [exists s, OK; split; [done|lia]|].
        destruct (convert_coin tk s a a (zget (cbal s) a)) as [s1 r1] eqn:Hcc. exists s1, r1. split; [done|].
        destruct (convert_coin_supply tk _ _ _ _ _ _ Hown Hcc). done. }
      destruct Hin as (s1 & r1 & Heq & Hle). rewrite Heq in H.
      destruct r1; [|injection H as <- <-; lia].
      repeat match type of H with
             | (if ?c then _ else _) = _ => destruct c
             | (match ?c with _ => _ end) = _ => destruct c eqn:?
             end; injection H as <- <-; cbn in Hlt; lia.
  - injection H as <- <-. lia.
  - destruct (reg s); injection H as <- <-; cbn in Hlt; lia.
  - injection H as <- <-. cbn in Hlt. lia.
  - unfold ibc_recv in H. destruct (credit s mint esc b x) as [s1|] eqn:Hc; [|injection H as <- <-; lia].
    destruct (credit_spec _ _ _ _ _ _ Hc) as (_ & _ & _ & (_ & Ho & _) & _ & Hs).
    destruct mint; [destruct Hs; congruence|].
    destruct (_ || _); [injection H as <- <-; lia|].
    destruct (convert_coin tk s1 b b (zget (cbal s1) b)) as [s2 r2] eqn:Hcc.
    assert (own_mod s1 = false) by congruence.
    destruct (convert_coin_supply tk _ _ _ _ _ _ H0 Hcc). destruct r2; injection H as <- <-; lia.
  - destruct (N.eqb b MODULE); [injection H as <- <-; lia|]. destruct success; [injection H as <- <-; lia|].
    unfold ibc_refund in H. destruct (N.eqb b MODULE); [injection H as <- <-; lia|].
    destruct (credit s mint esc b x) as [s1|] eqn:Hc; [|injection H as <- <-; lia].
    destruct (credit_spec _ _ _ _ _ _ Hc) as (_ & _ & _ & (_ & Ho & _) & _ & Hs).
    destruct mint; [destruct Hs; congruence|].
    destruct (_ || _); [injection H as <- <-; lia|].
    destruct (convert_coin tk s1 b b x) as [s2 r2] eqn:Hcc.
    assert (own_mod s1 = false) by congruence.
    destruct (convert_coin_supply tk _ _ _ _ _ _ H0 Hcc). destruct r2; injection H as <- <-; lia.
  - unfold ibc_refund in H. destruct (N.eqb b MODULE); [injection H as <- <-; lia|].
    destruct (credit s mint esc b x) as [s1|] eqn:Hc; [|injection H as <- <-; lia].
    destruct (credit_spec _ _ _ _ _ _ Hc) as (_ & _ & _ & (_ & Ho & _) & _ & Hs).
    destruct mint; [destruct Hs; congruence|].
    destruct (_ || _); [injection H as <- <-; lia|].
    destruct (convert_coin tk s1 b b x) as [s2 r2] eqn:Hcc.
    assert (own_mod s1 = false) by congruence.
    destruct (convert_coin_supply tk _ _ _ _ _ _ H0 Hcc). destruct r2; injection H as <- <-; lia.
Qed.

(** ... and the pinned tree violates it (K7) *)
Theorem mint_witnessed_impl_refuted :
  ~ mint_witnessed fakelog_token k7_state (fst (step fakelog_token impl k7_state (Eth 1 UOther))).
Proof.
  intros H. assert (Hlt : supply k7_state < supply (fst (step fakelog_token impl k7_state (Eth 1 UOther)))) by (vm_compute; done).
  destruct (H Hlt) as (b0 & Hb & _). vm_compute in Hb. discriminate.
Qed.

(** the MsgSend wrapper before the fix 1c369cb and a token whose transfer answers false:
    success, nothing moved; now (and in [spec]) the message fails *)
Definition wrap_state : st cham :=
  run cham_token impl [Eth 1 (UMint 1 10); Eth 1 (UMode 2)] (init false ∅ 0 (mkcham 0 ∅ 0 true)).

Theorem wrapper_false_return_refuted :
  let '(s', r) := msg_send cham_token pre_fix wrap_state 1 2 7 in
  r = OK /\ s' = wrap_state /\
  balance_of cham_token (tok s') 2 = Some 0 /\ balance_of cham_token (tok s') 1 = Some 10.
Proof. vm_compute. repeat split. Qed.

Theorem wrapper_false_return_fixed :
  msg_send cham_token impl wrap_state 1 2 7 = (wrap_state, EFalse).
Proof. vm_compute. done. Qed.

(** * non-vacuity: histories in which every kind of conversion succeeds *)
Fixpoint codes {T} (tk : token T) cf (ops : list op) (s : st T) : list N :=
  match ops with [] => [] | o :: r => let '(s', c) := step tk cf s o in c :: codes tk cf r s' end.

Definition coin0 : st ledger := init true {[FAR := 1]} 1 (mkledger ∅ 0 MODULE).
Definition ext0 : st ledger := init false ∅ 0 (mkledger {[1%N := 500]} 500 DEPLOYER).

Lemma coin0_fresh : fresh coin0.
Proof. cbn. repeat split. Qed.
Lemma ext0_fresh : fresh ext0.
Proof. cbn. split; [done|]. vm_compute. discriminate. Qed.

(** coin-origin pair: fund, ConvertCoin, ConvertERC20, MsgSend wrapper, hook,
    holder burn, IBC receive / error-ack / timeout all succeed; then the pair is
    disabled and a conversion is refused *)
Definition coin_history : list op :=
  [Fund 1 100; CC 1 2 40; CE 2 3 15; Send 1 3 50; Eth 3 (UTransfer MODULE 20); Eth 2 (UBurn 5);
   Recv true false 0 2 9; Ack false true 0 3 4; Timeout true 0 3 6; Toggle; CC 1 1 1].

Example coin_history_runs :
  codes HT impl coin_history coin0 = [OK; OK; OK; OK; OK; OK; OK; OK; OK; OK; EDisabled] /\
  observe HT (run HT impl coin_history coin0) OK =
    mkobs OK true false true true [84; 0; 0; 35; 0; 0; 0] 120
          [Some 0; Some 10; Some 29; Some 40; Some 0; Some 0; Some 0] (Some 79) true /\
  holder_burns impl coin_history coin0 = 5.
Proof. vm_compute. repeat split. Qed.

(** token-origin pair with an honest token *)
Definition ext_history : list op :=
  [CE 1 2 200; CC 2 3 50; Send 2 3 30; Eth 1 (UTransfer MODULE 100); RawSend 1 2 10;
   Recv false false 1 3 20; Timeout false 1 2 5; CE 1 1 1000].

Example ext_history_runs :
  codes HT impl ext_history ext0 = [OK; OK; OK; OK; OK; OK; OK; EOther] /\
  observe HT (run HT impl ext_history ext0) OK =
    mkobs OK true true true true [0; 65; 10; 0; 0; 0; 0] 75
          [Some 75; Some 200; Some 125; Some 100; Some 0; Some 0; Some 0] (Some 500) true.
Proof. vm_compute. repeat split. Qed.

(** a self-destructed token: the next conversion drops the pair and does nothing else *)
Example selfdestructed_pair_dropped :
  let s := run cham_token impl [Eth 1 (UMint 1 100); CE 1 1 60; Eth 2 UKill] (init false ∅ 0 (mkcham 0 ∅ 0 true)) in
  let '(s', r) := step cham_token impl s (CC 1 1 10) in
  r = OK /\ reg s = true /\ reg s' = false /\ supply s' = supply s /\ supply s = 60 /\ cbal s' = cbal s.
Proof. vm_compute. repeat split. Qed.

(** * honest token: both sides of a successful message conversion *)
Theorem honest_convert_coin_both_sides (s : st ledger) a b x s' :
  msg_convert_coin HT s a b x = (s', OK) ->
  0 < x /\ x <= zget (cbal s) a /\ a <> MODULE /\ b <> MODULE /\
  if own_mod s
  then (* escrow + mint *)
       coin_moves s s' (fun c => x * ind MODULE c - x * ind a c) /\ supply s' = supply s /\
       tok_moves s s' (fun c => x * ind b c) /\ ltotal (tok s') = ltotal (tok s) + x
  else (* escrow + release of escrowed tokens + burn of the coins *)
       coin_moves s s' (fun c => - x * ind a c) /\ supply s' = supply s - x /\
       tok_moves s s' (fun c => x * ind b c - x * ind MODULE c) /\ ltotal (tok s') = ltotal (tok s).
Proof.
  unfold msg_convert_coin. destruct (Z.leb_spec x 0); [discriminate|].
  destruct (N.eqb_spec a MODULE); [discriminate|]. intros Hc.
  destruct (h_convert_coin _ _ _ _ _ _ Hc) as [[Hne _]|(_ & Hbl & _ & cb & l1 & lg & Hbs & Hrest)]; [done|].
  apply blocked_false in Hbl. destruct (bank_send_spec _ _ _ _ _ Hbs) as (_ & Hle & Hz).
  do 4 (split; [done|]). unfold coin_moves, tok_moves. destruct (own_mod s).
  - destruct Hrest as [Hm ->]. destruct (std_mint_spec _ _ _ _ _ _ Hm) as (_ & _ & _ & _ & Ht & _ & Hzt & _). sst.
    split; [intros c; rewrite Hz; lia|]. split; [done|]. split; [intros c; rewrite Hzt; lia|done].
  - destruct Hrest as [Htr ->]. destruct (std_transfer_spec _ _ _ _ _ _ Htr) as (_ & _ & _ & _ & Ht & _ & Hzt & _). sst.
    split.
    { intros c. rewrite zget_zset. destruct (decide (MODULE = c)) as [<-|Hn].
      - rewrite Hz, ind_same, (ind_diff a MODULE) by done. lia.
      - rewrite Hz, (ind_diff MODULE c) by done. lia. }
    split; [done|]. split; [intros c; rewrite Hzt; lia|done].
Qed.

Theorem honest_convert_erc20_both_sides (s : st ledger) a b x s' :
  msg_convert_erc20 HT s a b x = (s', OK) ->
  0 < x /\ x <= zget (lbal (tok s)) a /\ a <> MODULE /\ b <> MODULE /\
  if own_mod s
  then (* burn + release of escrowed coins *)
       coin_moves s s' (fun c => x * ind b c - x * ind MODULE c) /\ supply s' = supply s /\
       tok_moves s s' (fun c => - x * ind a c) /\ ltotal (tok s') = ltotal (tok s) - x
  else (* escrow of the tokens + mint of the coins *)
       coin_moves s s' (fun c => x * ind b c) /\ supply s' = supply s + x /\
       tok_moves s s' (fun c => x * ind MODULE c - x * ind a c) /\ ltotal (tok s') = ltotal (tok s).
Proof.
  unfold msg_convert_erc20. destruct (Z.leb_spec x 0); [discriminate|].
  destruct (N.eqb_spec a MODULE); [discriminate|]. intros Hc.
  destruct (h_convert_erc20 _ _ _ _ _ _ Hc) as [[Hne _]|(_ & Hbl & _ & l1 & lg & Hrest)]; [done|].
  apply blocked_false in Hbl. unfold coin_moves, tok_moves. destruct (own_mod s).
  - destruct Hrest as (cb & _ & Hb & Hbs & ->).
    destruct (std_burn_spec _ _ _ _ _ Hb) as (_ & Hx & _ & Ht & _ & Hzt & _).
    destruct (bank_send_spec _ _ _ _ _ Hbs) as (_ & _ & Hz). sst.
    do 4 (split; [done || lia|]). split; [intros c; rewrite Hz; lia|]. split; [done|].
    split; [intros c; rewrite Hzt; lia|done].
  - destruct Hrest as (Htr & _ & _ & ->).
    destruct (std_transfer_spec _ _ _ _ _ _ Htr) as (_ & _ & Hx & _ & Ht & _ & Hzt & _). sst.
    do 4 (split; [done || lia|]). split.
    { intros c. rewrite zget_zset. unfold ind. destruct (decide (b = c)) as [->|]; lia. }
    split; [done|]. split; [intros c; rewrite Hzt; lia|done].
Qed.
