(** Proofs about the ERC20 peg model (property C10). *)
From Coq Require Import ZArith List Lia.
From stdpp Require Import gmap.
From HV Require Import Erc20.PegModel.
Import ListNotations.
Local Open Scope Z_scope.

(** * maps *)
Lemma zget_zset m a v b : zget (zset m a v) b = if decide (a = b) then v else zget m b.
Proof.
  unfold zget, zset. destruct (decide (a = b)) as [->|Hn].
  - by rewrite lookup_insert.
  - by rewrite lookup_insert_ne.
Qed.

Lemma zget_empty a : zget ∅ a = 0.
Proof. unfold zget. by rewrite lookup_empty. Qed.

(** indicator *)
Definition ind (a c : N) : Z := if decide (a = c) then 1 else 0.
Lemma ind_same a : ind a a = 1.
Proof. unfold ind. by rewrite decide_True. Qed.
Lemma ind_diff a c : a <> c -> ind a c = 0.
Proof. intros. unfold ind. by rewrite decide_False. Qed.

Lemma bank_send_spec b f t x b' : bank_send b f t x = Some b' ->
  0 < x /\ x <= zget b f /\ forall c, zget b' c = zget b c - x * ind f c + x * ind t c.
Proof.
  unfold bank_send. destruct (Z.leb_spec x 0); cbn [orb]; [discriminate|].
  destruct (Z.ltb_spec (zget b f) x); [discriminate|]. intros [= <-].
  split; [lia|]. split; [lia|]. intros c. rewrite !zget_zset. unfold ind.
  destruct (decide (t = c)) as [->|]; destruct (decide (f = c)) as [->|]; rewrite ?zget_zset, ?decide_True, ?decide_False by done; lia.
Qed.

Lemma neqb_eq a b : N.eqb a b = true <-> a = b.
Proof. apply N.eqb_eq. Qed.

Ltac sst := cbn [cbal supply tok set_all set_bank set_tok drop_pair reg own_mod en erc20_on hook_on] in *.

(** * what a successful conversion looks like, against ANY token *)
Definition coin_moves {T} (s s' : st T) (f : N -> Z) : Prop :=
  forall c, zget (cbal s') c = zget (cbal s) c + f c.
Definition same_pair {T} (s s' : st T) : Prop :=
  reg s' = reg s /\ own_mod s' = own_mod s /\ en s' = en s /\ erc20_on s' = erc20_on s /\ hook_on s' = hook_on s.
(** the balance the token reports for [a] moved by [d] *)
Definition reported {T} (tk : token T) (t t' : T) (a : N) (d : Z) : Prop :=
  exists b0, balance_of tk t a = Some b0 /\ balance_of tk t' a = Some (b0 + d).

(** coin -> token *)
Definition cc_post {T} (tk : token T) (s s' : st T) (a b : N) (x : Z) : Prop :=
  0 < x /\ x <= zget (cbal s) a /\ minting_enabled s b = OK /\ same_pair s s' /\
  reported tk (tok s) (tok s') b x /\
  if own_mod s
  then coin_moves s s' (fun c => x * ind MODULE c - x * ind a c) /\ supply s' = supply s
  else coin_moves s s' (fun c => - x * ind a c) /\ supply s' = supply s - x.

(** token -> coin *)
Definition ce_post {T} (tk : token T) (s s' : st T) (a b : N) (x : Z) : Prop :=
  minting_enabled s b = OK /\ same_pair s s' /\
  if own_mod s
  then 0 < x /\ x <= zget (cbal s) MODULE /\ reported tk (tok s) (tok s') a (- x) /\
       coin_moves s s' (fun c => x * ind b c - x * ind MODULE c) /\ supply s' = supply s
  else reported tk (tok s) (tok s') MODULE x /\
       coin_moves s s' (fun c => x * ind b c) /\ supply s' = supply s + x /\ supply s' <= MAXU.

Section Any.
  Context {T : Type}.
  Variable tk : token T.

  Lemma minting_enabled_ok (s : st T) b : minting_enabled s b = OK ->
    erc20_on s = true /\ reg s = true /\ en s = true /\ blocked b = false.
  Proof.
    unfold minting_enabled.
    destruct (erc20_on s), (reg s), (en s), (blocked b); cbn; try discriminate. done.
  Qed.

  Lemma approval_check_cases l : approval_check l = OK \/ approval_check l = EApproval \/ approval_check l = EOther.
  Proof. induction l as [|x r IH]; cbn; [auto|]. destruct (lk x); auto. Qed.

  Lemma cc_native_coin_spec (s : st T) a b x s' r : own_mod s = true -> minting_enabled s b = OK ->
    cc_native_coin tk s a b x = (s', r) -> (r <> OK /\ s' = s) \/ (r = OK /\ cc_post tk s s' a b x).
  Proof.
    intros Hown Hme. unfold cc_native_coin.
    destruct (balance_of tk (tok s) b) as [b0|] eqn:Hb0; [|intros [= <- <-]; left; done].
    destruct (bank_send (cbal s) a MODULE x) as [cb|] eqn:Hbs; [|intros [= <- <-]; left; done].
    destruct (call_mint tk (tok s) b x) as [[t1 lg]|] eqn:Hm; [|intros [= <- <-]; left; done].
    destruct (balance_of tk t1 b) as [b1|] eqn:Hb1; [|intros [= <- <-]; left; done].
    destruct (Z.eqb_spec b1 (b0 + x)) as [->|]; cbn [negb]; [|intros [= <- <-]; left; done].
    intros [= <- <-]. right. split; [done|].
    destruct (bank_send_spec _ _ _ _ _ Hbs) as (Hx & Hle & Hz).
    unfold cc_post. rewrite Hown. unfold same_pair, reported, coin_moves. sst.
    split; [done|]. split; [done|]. split; [done|]. split; [done|].
    split; [exists b0; done|]. split; [|done].
    intros c. rewrite Hz. lia.
  Qed.

  Lemma cc_native_erc20_spec (s : st T) a b x s' r : own_mod s = false -> minting_enabled s b = OK ->
    cc_native_erc20 tk s a b x = (s', r) -> (r <> OK /\ s' = s) \/ (r = OK /\ cc_post tk s s' a b x).
  Proof.
    intros Hown Hme. unfold cc_native_erc20.
    destruct (balance_of tk (tok s) b) as [b0|] eqn:Hb0; [|intros [= <- <-]; left; done].
    destruct (bank_send (cbal s) a MODULE x) as [cb|] eqn:Hbs; [|intros [= <- <-]; left; done].
    destruct (call_transfer tk (tok s) MODULE b x) as [[[t1 ret] lg]|] eqn:Hm; [|intros [= <- <-]; left; done].
    destruct ret as [[|]|]; [|intros [= <- <-]; left; done|intros [= <- <-]; left; done].
    destruct (balance_of tk t1 b) as [b1|] eqn:Hb1; [|intros [= <- <-]; left; done].
    destruct (Z.eqb_spec b1 (b0 + x)) as [->|]; cbn [negb]; [|intros [= <- <-]; left; done].
    destruct (approval_check_cases lg) as [Ha|[Ha|Ha]]; rewrite Ha; [|intros [= <- <-]; left; done..].
    intros [= <- <-]. right. split; [done|].
    destruct (bank_send_spec _ _ _ _ _ Hbs) as (Hx & Hle & Hz).
    unfold cc_post. rewrite Hown. unfold same_pair, reported, coin_moves. sst.
    split; [done|]. split; [done|]. split; [done|]. split; [done|].
    split; [exists b0; done|]. split; [|done].
    intros c. rewrite zget_zset. destruct (decide (MODULE = c)) as [<-|Hn].
    - rewrite Hz. rewrite ind_same. lia.
    - rewrite Hz. rewrite (ind_diff MODULE c) by done. lia.
  Qed.

  Lemma ce_native_coin_spec (s : st T) a b x s' r : own_mod s = true -> minting_enabled s b = OK ->
    ce_native_coin tk s a b x = (s', r) -> (r <> OK /\ s' = s) \/ (r = OK /\ ce_post tk s s' a b x).
  Proof.
    intros Hown Hme. unfold ce_native_coin.
    destruct (minting_enabled_ok _ _ Hme) as (_ & _ & _ & Hbl). rewrite Hbl.
    destruct (balance_of tk (tok s) a) as [b0|] eqn:Hb0; [|intros [= <- <-]; left; done].
    destruct (call_burn_coins tk (tok s) a x) as [[t1 lg]|] eqn:Hm; [|intros [= <- <-]; left; done].
    destruct (bank_send (cbal s) MODULE b x) as [cb|] eqn:Hbs; [|intros [= <- <-]; left; done].
    destruct (balance_of tk t1 a) as [b1|] eqn:Hb1; [|intros [= <- <-]; left; done].
    destruct (Z.eqb_spec b1 (b0 - x)) as [->|]; cbn [negb]; [|intros [= <- <-]; left; done].
    intros [= <- <-]. right. split; [done|].
    destruct (bank_send_spec _ _ _ _ _ Hbs) as (Hx & Hle & Hz).
    unfold ce_post. rewrite Hown. unfold same_pair, reported, coin_moves. sst.
    split; [done|]. split; [done|]. split; [done|]. split; [done|].
    split; [exists b0; split; [done|]; rewrite Hb1; f_equal; lia|]. split; [|done].
    intros c. rewrite Hz. lia.
  Qed.

  Lemma ce_native_token_spec (s : st T) a b x s' r : own_mod s = false -> minting_enabled s b = OK ->
    ce_native_token tk s a b x = (s', r) -> (r <> OK /\ s' = s) \/ (r = OK /\ ce_post tk s s' a b x).
  Proof.
    intros Hown Hme. unfold ce_native_token.
    destruct (balance_of tk (tok s) MODULE) as [b0|] eqn:Hb0; [|intros [= <- <-]; left; done].
    destruct (call_transfer tk (tok s) a MODULE x) as [[[t1 ret] lg]|] eqn:Hm; [|intros [= <- <-]; left; done].
    destruct ret as [[|]|]; [|intros [= <- <-]; left; done|intros [= <- <-]; left; done].
    destruct (balance_of tk t1 MODULE) as [b1|] eqn:Hb1; [|intros [= <- <-]; left; done].
    destruct (Z.eqb_spec b1 (b0 + x)) as [->|]; cbn [negb]; [|intros [= <- <-]; left; done].
    destruct (Z.ltb_spec MAXU (supply s + x)); [intros [= <- <-]; left; done|].
    destruct (approval_check_cases lg) as [Ha|[Ha|Ha]]; rewrite Ha; [|intros [= <- <-]; left; done..].
    intros [= <- <-]. right. split; [done|].
    unfold ce_post. rewrite Hown. unfold same_pair, reported, coin_moves. sst.
    split; [done|]. split; [done|].
    split; [exists b0; done|]. split; [|split; [done|lia]].
    intros c. rewrite zget_zset. unfold ind. destruct (decide (b = c)) as [->|]; lia.
  Qed.

  (** keeper-level ConvertCoin / ConvertERC20: failure without effect, or the
      pair of a self-destructed contract is dropped, or an exact conversion *)
  Definition conv_outcome (post : Prop) (s s' : st T) (r : N) : Prop :=
    (r <> OK /\ s' = s) \/
    (r = OK /\ is_contract tk (tok s) = false /\ s' = drop_pair s) \/
    (r = OK /\ is_contract tk (tok s) = true /\ post).

  Lemma convert_coin_spec (s : st T) a b x s' r :
    convert_coin tk s a b x = (s', r) -> conv_outcome (cc_post tk s s' a b x) s s' r.
  Proof.
    unfold convert_coin, conv_outcome.
    destruct (minting_enabled s b) eqn:Hme.
    2:{ intros [= <- <-]. left. done. }
    destruct (is_contract tk (tok s)) eqn:Hc; cbn [negb].
    2:{ intros [= <- <-]. right. left. done. }
    destruct (own_mod s) eqn:Hown; intros H.
    - destruct (cc_native_coin_spec _ _ _ _ _ _ Hown Hme H) as [?|[? ?]]; [left; done|right; right; done].
    - destruct (cc_native_erc20_spec _ _ _ _ _ _ Hown Hme H) as [?|[? ?]]; [left; done|right; right; done].
  Qed.

  Lemma convert_erc20_spec (s : st T) a b x s' r :
    convert_erc20 tk s a b x = (s', r) -> conv_outcome (ce_post tk s s' a b x) s s' r.
  Proof.
    unfold convert_erc20, conv_outcome.
    destruct (minting_enabled s b) eqn:Hme.
    2:{ intros [= <- <-]. left. done. }
    destruct (is_contract tk (tok s)) eqn:Hc; cbn [negb].
    2:{ intros [= <- <-]. right. left. done. }
    destruct (own_mod s) eqn:Hown; intros H.
    - destruct (ce_native_coin_spec _ _ _ _ _ _ Hown Hme H) as [?|[? ?]]; [left; done|right; right; done].
    - destruct (ce_native_token_spec _ _ _ _ _ _ Hown Hme H) as [?|[? ?]]; [left; done|right; right; done].
  Qed.

  (** the two messages *)
  Theorem msg_convert_coin_exact_or_error (s : st T) a b x s' r :
    msg_convert_coin tk s a b x = (s', r) -> conv_outcome (a <> MODULE /\ cc_post tk s s' a b x) s s' r.
  Proof.
    unfold msg_convert_coin. destruct (x <=? 0); [intros [= <- <-]; left; done|].
    destruct (N.eqb_spec a MODULE); [intros [= <- <-]; left; done|].
    intros H. destruct (convert_coin_spec _ _ _ _ _ _ H) as [?|[?|(? & ? & ?)]];
      [left; done|right; left; done|right; right; done].
  Qed.

  Theorem msg_convert_erc20_exact_or_error (s : st T) a b x s' r :
    msg_convert_erc20 tk s a b x = (s', r) -> conv_outcome (0 < x /\ a <> MODULE /\ ce_post tk s s' a b x) s s' r.
  Proof.
    unfold msg_convert_erc20. destruct (Z.leb_spec x 0); [intros [= <- <-]; left; done|].
    destruct (N.eqb_spec a MODULE); [intros [= <- <-]; left; done|].
    intros H0. destruct (convert_erc20_spec _ _ _ _ _ _ H0) as [?|[?|(? & ? & ?)]];
      [left; done|right; left; done|right; right; done].
  Qed.

  (** the bank MsgSend wrapper: everything spendable is converted exactly, then
      the token is asked to move [x] and must report it at the recipient *)
  Definition send_post (s s' : st T) (a b : N) (x : Z) : Prop :=
    0 < x /\ a <> MODULE /\ blocked b = false /\
    if erc20_on s && reg s && en s then
      exists s1,
        ((zget (cbal s) a = 0 /\ s1 = s) \/
         (zget (cbal s) a <> 0 /\ is_contract tk (tok s) = false /\ s1 = drop_pair s) \/
         (0 < zget (cbal s) a /\ is_contract tk (tok s) = true /\ cc_post tk s s1 a a (zget (cbal s) a))) /\
        cbal s' = cbal s1 /\ supply s' = supply s1 /\ same_pair s1 s' /\ reported tk (tok s1) (tok s') b x
    else tok s' = tok s /\ same_pair s s' /\ supply s' = supply s /\
         coin_moves s s' (fun c => x * ind b c - x * ind a c).

  Theorem msg_send_exact_or_error cf (s : st T) a b x s' r : wrap_false_ok cf = false ->
    msg_send tk cf s a b x = (s', r) -> (r <> OK /\ s' = s) \/ (r = OK /\ send_post s s' a b x).
  Proof.
    intros Hcf. unfold msg_send.
    destruct (Z.leb_spec x 0); [intros [= <- <-]; left; done|].
    destruct (N.eqb_spec a MODULE); [intros [= <- <-]; left; done|].
    destruct (blocked b) eqn:Hbl; [intros [= <- <-]; left; done|].
    unfold send_post. rewrite Hbl.
    destruct (erc20_on s && reg s && en s) eqn:Hconv; cbn [negb].
    - destruct (balance_of tk (tok s) a) as [eb|] eqn:Heb; [|intros [= <- <-]; left; done].
      destruct (MAXU <? zget (cbal s) a + eb); [intros [= <- <-]; left; done|].
      destruct (zget (cbal s) a + eb <? x); [intros [= <- <-]; left; done|].
      assert (Hinner : exists s1 r1,
        (if zget (cbal s) a =? 0 then (s, OK) else convert_coin tk s a a (zget (cbal s) a)) = (s1, r1) /\
        (r1 <> OK \/ (r1 = OK /\
          ((zget (cbal s) a = 0 /\ s1 = s) \/
           (zget (cbal s) a <> 0 /\ is_contract tk (tok s) = false /\ s1 = drop_pair s) \/
           (0 < zget (cbal s) a /\ is_contract tk (tok s) = true /\ cc_post tk s s1 a a (zget (cbal s) a)))))).
      { destruct (Z.eqb_spec (zget (cbal s) a) 0) as [Hz|Hz].
        - exists s, OK. split; [done|]. right. split; [done|]. left. done.
        - destruct (convert_coin tk s a a (zget (cbal s) a)) as [s1 r1] eqn:Hcc. exists s1, r1. split; [done|].
          destruct (convert_coin_spec _ _ _ _ _ _ Hcc) as [[Hr _]|[(Hr & Hc & Hs)|(Hr & Hc & Hp)]].
          + left. done.
          + right. split; [done|]. right. left.
            done.
          + right. split; [done|]. right. right. split; [|done]. destruct Hp as (Hpos & _). done. }
      destruct Hinner as (s1 & r1 & -> & Hr1).
      destruct Hr1 as [Hne|[-> Hs1]].
      { destruct r1; [done|]. intros [= <- <-]. left. done. }
      cbn [OK].
      destruct (balance_of tk (tok s1) b) as [b0|] eqn:Hb0; [|intros [= <- <-]; left; done].
      destruct (call_transfer tk (tok s1) a b x) as [[[t2 ret] lg]|] eqn:Htr; [|intros [= <- <-]; left; done].
      destruct ret as [[|]|]; [|rewrite Hcf; intros [= <- <-]; left; done|intros [= <- <-]; left; done].
      destruct (balance_of tk t2 b) as [b1|] eqn:Hb1; [|intros [= <- <-]; left; done].
      destruct (Z.eqb_spec b1 (b0 + x)) as [->|]; cbn [negb]; [|intros [= <- <-]; left; done].
      destruct (approval_check_cases lg) as [Ha|[Ha|Ha]]; rewrite Ha; [|intros [= <- <-]; left; done..].
      intros [= <- <-]. right. split; [done|]. split; [done|]. split; [done|]. split; [done|].
      exists s1. split; [done|]. unfold same_pair, reported. sst. do 3 (split; [done|]). exists b0. done.
    - destruct (bank_send (cbal s) a b x) as [cb|] eqn:Hbs; [|intros [= <- <-]; left; done].
      intros [= <- <-]. right. split; [done|]. split; [done|]. split; [done|]. split; [done|].
      destruct (bank_send_spec _ _ _ _ _ Hbs) as (_ & _ & Hz).
      unfold same_pair, coin_moves. sst. do 3 (split; [done|]). intros c. rewrite Hz. lia.
  Qed.
End Any.

(** * the honest token *)
Definition msum (m : gmap N Z) : Z := map_fold (fun _ v acc => v + acc) 0 m.

Lemma msum_empty : msum ∅ = 0.
Proof. unfold msum. by rewrite map_fold_empty. Qed.

Lemma msum_insert_fresh m a v : m !! a = None -> msum (<[a := v]> m) = v + msum m.
Proof. intros H. unfold msum. rewrite map_fold_insert_L; [done| |done]. intros. lia. Qed.

Lemma msum_zset m a v : msum (zset m a v) = msum m - zget m a + v.
Proof.
  unfold zset, zget. destruct (m !! a) as [w|] eqn:E; cbn.
  - rewrite <- (insert_delete_insert m a v).
    rewrite msum_insert_fresh by apply lookup_delete.
    rewrite <- (insert_delete m a w) at 2 by done.
    rewrite msum_insert_fresh by apply lookup_delete. lia.
  - rewrite msum_insert_fresh by done. lia.
Qed.

Lemma msum_nonneg m : (forall c, 0 <= zget m c) -> 0 <= msum m.
Proof.
  induction m as [|i x m Hi IH] using map_ind; intros H.
  - rewrite msum_empty. lia.
  - rewrite msum_insert_fresh by done.
    assert (0 <= x). { specialize (H i). unfold zget in H. rewrite lookup_insert in H. done. }
    assert (0 <= msum m).
    { apply IH. intros c. destruct (decide (i = c)) as [<-|Hn].
      - unfold zget. rewrite Hi. done.
      - specialize (H c). unfold zget in *. rewrite lookup_insert_ne in H by done. done. }
    lia.
Qed.

Lemma msum_ge m a : (forall c, 0 <= zget m c) -> zget m a <= msum m.
Proof.
  intros H. assert (0 <= msum (zset m a 0)).
  { apply msum_nonneg. intros c. rewrite zget_zset. destruct (decide (a = c)); [lia|apply H]. }
  rewrite msum_zset in H0. lia.
Qed.

(** well-formed ledger: no negative balance, balances add up to the total supply *)
Definition wfl (l : ledger) : Prop := (forall a, 0 <= zget (lbal l) a) /\ msum (lbal l) = ltotal l.

Lemma std_transfer_spec l f t x l' lg : std_transfer l f t x = Some (l', lg) ->
  f <> ZERO /\ t <> ZERO /\ 0 <= x <= zget (lbal l) f /\ lg = [tlog f t x] /\
  ltotal l' = ltotal l /\ lminter l' = lminter l /\
  (forall c, zget (lbal l') c = zget (lbal l) c - x * ind f c + x * ind t c) /\
  (wfl l -> wfl l').
Proof.
  unfold std_transfer. destruct (N.eqb_spec f ZERO); cbn [orb]; [discriminate|].
  destruct (N.eqb_spec t ZERO); [discriminate|].
  destruct (Z.ltb_spec x 0); cbn [orb]; [discriminate|].
  destruct (Z.ltb_spec (zget (lbal l) f) x); [discriminate|]. intros [= <- <-]. cbn.
  assert (Hz : forall c, zget (zset (zset (lbal l) f (zget (lbal l) f - x)) t
                 (zget (zset (lbal l) f (zget (lbal l) f - x)) t + x)) c
               = zget (lbal l) c - x * ind f c + x * ind t c).
  { intros c. rewrite !zget_zset. unfold ind.
    destruct (decide (t = c)) as [->|]; destruct (decide (f = c)) as [->|];
      rewrite ?decide_True, ?decide_False by done; lia. }
  do 6 (split; [done || lia|]). split; [exact Hz|].
  intros [Hnn Hs]. split; cbn.
  - intros c. rewrite Hz. specialize (Hnn c). unfold ind.
    destruct (decide (f = c)) as [->|]; destruct (decide (t = c)); lia.
  - rewrite !msum_zset, zget_zset. destruct (decide (f = t)); lia.
Qed.

Lemma std_mint_spec l caller t x l' lg : std_mint l caller t x = Some (l', lg) ->
  caller = lminter l /\ t <> ZERO /\ 0 <= x /\ lg = [tlog ZERO t x] /\
  ltotal l' = ltotal l + x /\ lminter l' = lminter l /\
  (forall c, zget (lbal l') c = zget (lbal l) c + x * ind t c) /\
  (wfl l -> wfl l').
Proof.
  unfold std_mint. destruct (N.eqb_spec caller (lminter l)); cbn [negb]; [|discriminate].
  destruct (N.eqb_spec t ZERO); [discriminate|].
  destruct (Z.ltb_spec x 0); cbn [orb]; [discriminate|].
  destruct (MAXU <? ltotal l + x); [discriminate|]. intros [= <- <-]. cbn.
  assert (Hz : forall c, zget (zset (lbal l) t (zget (lbal l) t + x)) c = zget (lbal l) c + x * ind t c).
  { intros c. rewrite zget_zset. unfold ind. destruct (decide (t = c)) as [->|]; lia. }
  do 6 (split; [done|]). split; [exact Hz|].
  intros [Hnn Hs]. split; cbn.
  - intros c. rewrite Hz. specialize (Hnn c). unfold ind. destruct (decide (t = c)); lia.
  - rewrite msum_zset. lia.
Qed.

Lemma std_burn_spec l f x l' lg : std_burn l f x = Some (l', lg) ->
  f <> ZERO /\ 0 <= x <= zget (lbal l) f /\ lg = [tlog f ZERO x] /\
  ltotal l' = ltotal l - x /\ lminter l' = lminter l /\
  (forall c, zget (lbal l') c = zget (lbal l) c - x * ind f c) /\
  (wfl l -> wfl l').
Proof.
  unfold std_burn. destruct (N.eqb_spec f ZERO); [discriminate|].
  destruct (Z.ltb_spec x 0); cbn [orb]; [discriminate|].
  destruct (Z.ltb_spec (zget (lbal l) f) x); [discriminate|]. intros [= <- <-]. cbn.
  assert (Hz : forall c, zget (zset (lbal l) f (zget (lbal l) f - x)) c = zget (lbal l) c - x * ind f c).
  { intros c. rewrite zget_zset. unfold ind. destruct (decide (f = c)) as [->|]; lia. }
  do 5 (split; [done || lia|]). split; [exact Hz|].
  intros [Hnn Hs]. split; cbn.
  - intros c. rewrite Hz. specialize (Hnn c). unfold ind. destruct (decide (f = c)) as [->|]; lia.
  - rewrite msum_zset. lia.
Qed.

Notation HT := honest_token.
Ltac hsimp := cbn [honest_token is_contract balance_of total_supply call_mint call_burn_coins call_burn call_transfer call_user with_ret] in *.

Lemma h_convert_coin (s : st ledger) a b x s' r : convert_coin HT s a b x = (s', r) ->
  (r <> OK /\ s' = s) \/
  (r = OK /\ blocked b = false /\ reg s = true /\ exists cb l1 lg, bank_send (cbal s) a MODULE x = Some cb /\
     if own_mod s
     then std_mint (tok s) MODULE b x = Some (l1, lg) /\ s' = set_all s cb (supply s) l1
     else std_transfer (tok s) MODULE b x = Some (l1, lg) /\
          s' = set_all s (zset cb MODULE (zget cb MODULE - x)) (supply s - x) l1).
Proof.
  unfold convert_coin. destruct (minting_enabled s b) eqn:Hme; [|intros [= <- <-]; left; done].
  destruct (minting_enabled_ok _ _ Hme) as (_ & Hreg & _ & Hbl). hsimp. cbn [negb].
  destruct (own_mod s) eqn:Hown.
  - unfold cc_native_coin. hsimp.
    destruct (bank_send (cbal s) a MODULE x) as [cb|] eqn:Hbs; [|intros [= <- <-]; left; done].
    destruct (std_mint (tok s) MODULE b x) as [[l1 lg]|] eqn:Hm; [|intros [= <- <-]; left; done].
    destruct (negb _); intros [= <- <-]; [left; done|]. right. do 3 (split; [done|]). exists cb, l1, lg. done.
  - unfold cc_native_erc20. hsimp.
    destruct (bank_send (cbal s) a MODULE x) as [cb|] eqn:Hbs; [|intros [= <- <-]; left; done].
    destruct (std_transfer (tok s) MODULE b x) as [[l1 lg]|] eqn:Hm; cbn [with_ret]; [|intros [= <- <-]; left; done].
    destruct (negb _); [intros [= <- <-]; left; done|].
    destruct (approval_check_cases lg) as [Ha|[Ha|Ha]]; rewrite Ha; intros [= <- <-]; [|left; done..].
    right. do 3 (split; [done|]). exists cb, l1, lg. done.
Qed.

Lemma h_convert_erc20 (s : st ledger) a b x s' r : convert_erc20 HT s a b x = (s', r) ->
  (r <> OK /\ s' = s) \/
  (r = OK /\ blocked b = false /\ reg s = true /\ exists l1 lg,
     if own_mod s
     then exists cb, lminter (tok s) = MODULE /\ std_burn (tok s) a x = Some (l1, lg) /\
          bank_send (cbal s) MODULE b x = Some cb /\ s' = set_all s cb (supply s) l1
     else std_transfer (tok s) a MODULE x = Some (l1, lg) /\
          zget (lbal l1) MODULE = zget (lbal (tok s)) MODULE + x /\ supply s + x <= MAXU /\
          s' = set_all s (zset (cbal s) b (zget (cbal s) b + x)) (supply s + x) l1).
Proof.
  unfold convert_erc20. destruct (minting_enabled s b) eqn:Hme; [|intros [= <- <-]; left; done].
  destruct (minting_enabled_ok _ _ Hme) as (_ & Hreg & _ & Hbl). hsimp. cbn [negb].
  destruct (own_mod s) eqn:Hown.
  - unfold ce_native_coin. hsimp. rewrite Hbl.
    destruct (N.eqb_spec MODULE (lminter (tok s))) as [Hmin|]; [|intros [= <- <-]; left; done].
    destruct (std_burn (tok s) a x) as [[l1 lg]|] eqn:Hm; [|intros [= <- <-]; left; done].
    destruct (bank_send (cbal s) MODULE b x) as [cb|] eqn:Hbs; [|intros [= <- <-]; left; done].
    destruct (negb _); intros [= <- <-]; [left; done|]. right. do 3 (split; [done|]). exists l1, lg, cb. done.
  - unfold ce_native_token. hsimp.
    destruct (std_transfer (tok s) a MODULE x) as [[l1 lg]|] eqn:Hm; cbn [with_ret]; [|intros [= <- <-]; left; done].
    destruct (Z.eqb_spec (zget (lbal l1) MODULE) (zget (lbal (tok s)) MODULE + x)) as [He|]; cbn [negb];
      [|intros [= <- <-]; left; done].
    destruct (Z.ltb_spec MAXU (supply s + x)); [intros [= <- <-]; left; done|].
    destruct (approval_check_cases lg) as [Ha|[Ha|Ha]]; rewrite Ha; intros [= <- <-]; [|left; done..].
    right. do 3 (split; [done|]). exists l1, lg. done.
Qed.

(** ** the script contract's calls against the honest token *)
Notation hfold tk cf :=
  (fold_left (fun acc l => match acc with None => None | Some s => hook_log tk cf s l end)).

Lemma hfold_none {T} (tk : token T) cf logs : hfold tk cf logs None = None.
Proof. induction logs as [|g r IH]; cbn [fold_left]; done. Qed.

(** tokens that the logs of a receipt report as sent to the module address *)
Fixpoint to_mod (lg : list log) : Z :=
  match lg with
  | [] => 0
  | g :: r => (if N.eqb (lto g) MODULE then lamt g else 0) + to_mod r
  end.

Lemma to_mod_nonneg lg : Forall (fun g => 0 <= lamt g) lg -> 0 <= to_mod lg.
Proof. induction 1 as [|g r Hg Hr IH]; cbn [to_mod]; [lia|]. destruct (N.eqb _ _); lia. Qed.

Lemma h_batch_calls c cs : c <> MODULE -> forall l l1 lg,
  batch_calls HT l c cs = Some (l1, lg) ->
  (wfl l -> wfl l1) /\ ltotal l1 = ltotal l /\ lminter l1 = lminter l /\
  Forall (fun g => lfrom g = c /\ 0 <= lamt g) lg /\
  zget (lbal l1) MODULE = zget (lbal l) MODULE + to_mod lg.
Proof.
  intros Hc. induction cs as [|[to x catch|k x] r IH]; intros l l1 lg; cbn [batch_calls].
  - intros [= <- <-]. cbn. do 3 (split; [done|]). split; [constructor|lia].
  - hsimp. destruct (std_transfer l c to x) as [[l2 g2]|] eqn:Htr; cbn [with_ret].
    + destruct (batch_calls HT l2 c r) as [[l3 g3]|] eqn:Hr; [|discriminate]. intros [= <- <-].
      destruct (std_transfer_spec _ _ _ _ _ _ Htr) as (_ & _ & Hx & -> & Ht & Hmi & Hz & Hw).
      destruct (IH _ _ _ Hr) as (Hw3 & Ht3 & Hmi3 & Hf3 & Hm3).
      split; [auto|]. split; [congruence|]. split; [congruence|]. split.
      * cbn [app]. constructor; [cbn; split; [done|lia]|done].
      * rewrite Hm3, Hz, (ind_diff c MODULE) by done. cbn [app to_mod tlog lto lamt].
        unfold ind. destruct (N.eqb_spec to MODULE) as [->|Hn].
        -- rewrite decide_True by done. lia.
        -- rewrite decide_False by done. lia.
    + destruct catch; [|discriminate]. apply IH.
  - apply IH.
Qed.

(** ** coin-origin pair with the module's own (honest) contract *)
Definition gap (s : st ledger) : Z := zget (cbal s) MODULE - ltotal (tok s).

Record InvCoin (s : st ledger) : Prop := {
  ic_own : own_mod s = true;
  ic_minter : lminter (tok s) = MODULE;
  ic_wfl : wfl (tok s);
  ic_back : 0 <= gap s
}.

(** tokens that holders destroyed themselves: the only way the escrow can exceed the supply *)
Definition burn_of (o : op) (r : N) : Z :=
  match o with Eth _ (UBurn x) => if N.eqb r OK then x else 0 | _ => 0 end.

Lemma has_key_not_module a : has_key a = true -> a <> MODULE.
Proof. intros H ->. discriminate. Qed.

Lemma blocked_false a : blocked a = false -> a <> MODULE.
Proof. unfold blocked. intros H ->. discriminate. Qed.

Lemma coin_convert_coin (s : st ledger) a b x s' r : a <> MODULE -> InvCoin s ->
  convert_coin HT s a b x = (s', r) -> InvCoin s' /\ gap s' = gap s.
Proof.
  intros Ha [Hown Hmin Hwf Hback] H.
  destruct (h_convert_coin _ _ _ _ _ _ H) as [[_ ->]|(_ & _ & _ & cb & l1 & lg & Hbs & Hrest)]; [split; [done|lia]|].
  rewrite Hown in Hrest. destruct Hrest as [Hm ->].
  destruct (std_mint_spec _ _ _ _ _ _ Hm) as (_ & _ & _ & _ & Ht & Hmi & _ & Hw).
  destruct (bank_send_spec _ _ _ _ _ Hbs) as (_ & _ & Hz).
  assert (Hg : gap (set_all s cb (supply s) l1) = gap s).
  { unfold gap. sst. rewrite Hz, Ht, ind_same, (ind_diff a MODULE) by done. lia. }
  split; [|done]. split; sst; [done|congruence|auto|lia].
Qed.

Lemma coin_convert_erc20 (s : st ledger) a b x s' r : InvCoin s ->
  convert_erc20 HT s a b x = (s', r) -> InvCoin s' /\ gap s' = gap s.
Proof.
  intros [Hown Hmin Hwf Hback] H.
  destruct (h_convert_erc20 _ _ _ _ _ _ H) as [[_ ->]|(_ & Hbl & _ & l1 & lg & Hrest)]; [split; [done|lia]|].
  rewrite Hown in Hrest. destruct Hrest as (cb & _ & Hb & Hbs & ->).
  destruct (std_burn_spec _ _ _ _ _ Hb) as (_ & _ & _ & Ht & Hmi & _ & Hw).
  destruct (bank_send_spec _ _ _ _ _ Hbs) as (_ & _ & Hz).
  apply blocked_false in Hbl.
  assert (Hg : gap (set_all s cb (supply s) l1) = gap s).
  { unfold gap. sst. rewrite Hz, Ht, ind_same, (ind_diff b MODULE) by done. lia. }
  split; [|done]. split; sst; [done|congruence|auto|lia].
Qed.

Lemma credit_spec {T} (s : st T) mint esc to x s1 : credit s mint esc to x = Some s1 ->
  to <> MODULE /\ 0 < x /\ tok s1 = tok s /\ same_pair s s1 /\ zget (cbal s1) MODULE = zget (cbal s) MODULE /\
  (if mint then own_mod s = true /\ supply s1 = supply s + x else supply s1 = supply s).
Proof.
  unfold credit. destruct (Z.leb_spec x 0); cbn [orb]; [discriminate|].
  destruct (N.eqb_spec to MODULE); cbn [orb]; [discriminate|].
  destruct mint; cbn [negb andb orb].
  - destruct (own_mod s); cbn [negb]; [|discriminate].
    destruct (MAXU <? supply s + x); [discriminate|]. intros [= <-]. unfold same_pair. sst.
    do 4 (split; [done|]). rewrite zget_zset, decide_False by done. done.
  - destruct (N.eqb_spec esc MODULE); [discriminate|].
    destruct (bank_send (cbal s) esc to x) as [cb|] eqn:Hbs; [|discriminate]. intros [= <-].
    destruct (bank_send_spec _ _ _ _ _ Hbs) as (_ & _ & Hz). unfold same_pair. sst.
    do 4 (split; [done|]). rewrite Hz, !ind_diff by done. split; [lia|done].
Qed.

Lemma coin_credit (s : st ledger) mint esc to x s1 : InvCoin s -> credit s mint esc to x = Some s1 ->
  InvCoin s1 /\ gap s1 = gap s.
Proof.
  intros [Hown Hmin Hwf Hback] H. destruct (credit_spec _ _ _ _ _ _ H) as (_ & _ & Ht & (Hr & Ho & _) & Hm & _).
  assert (gap s1 = gap s) by (unfold gap; rewrite Hm, Ht; done).
  split; [|done]. split; [congruence|rewrite Ht; done|rewrite Ht; done|lia].
Qed.

Section HonestCoin.
  Variable cf : cfg.

  Lemma coin_eth (s : st ledger) a c s' r : InvCoin s ->
    eth_tx HT cf s a c = (s', r) -> InvCoin s' /\ gap s' = gap s + burn_of (Eth a c) r.
  Proof.
    intros Hinv. pose proof Hinv as [Hown Hmin Hwf Hback]. unfold eth_tx.
    destruct (has_key a) eqn:Hk; cbn [negb]; [|intros [= <- <-]; split; [done|destruct c; cbn; lia]].
    apply has_key_not_module in Hk. hsimp.
    destruct c as [to x|x|to x|m| | |ow x]; cbn [honest_user];
      try (intros [= <- <-]; split; [done|cbn; lia]).
    - (* transfer *)
      destruct (std_transfer (tok s) a to x) as [[l1 lg]|] eqn:Htr; [|intros [= <- <-]; split; [done|cbn; lia]].
      destruct (std_transfer_spec _ _ _ _ _ _ Htr) as (_ & _ & Hx & -> & Ht & Hmi & Hz & Hw).
      assert (Hinv1 : InvCoin (set_tok s l1) /\ gap (set_tok s l1) = gap s).
      { split; [split; sst; [done|congruence|auto|unfold gap in *; sst; lia]|unfold gap; sst; lia]. }
      cbn [burn_of]. unfold hook. sst.
      destruct (erc20_on s && hook_on s); cbn [negb fold_left].
      2:{ intros [= <- <-]. destruct Hinv1. split; [done|lia]. }
      unfold hook_log. cbn [tlog lk lamt lto lfrom]. sst. rewrite Hown.
      destruct (Z.leb_spec x 0). { intros [= <- <-]. destruct Hinv1. split; [done|lia]. }
      destruct (reg s); cbn [negb]. 2:{ intros [= <- <-]. destruct Hinv1. split; [done|lia]. }
      destruct (N.eqb_spec to MODULE) as [->|]; cbn [negb]. 2:{ intros [= <- <-]. destruct Hinv1. split; [done|lia]. }
      destruct (en s); cbn [negb]. 2:{ intros [= <- <-]. destruct Hinv1. split; [done|lia]. }
      hsimp.
      destruct (std_burn l1 MODULE x) as [[l2 lg2]|] eqn:Hb. 2:{ intros [= <- <-]. destruct Hinv1. split; [done|lia]. }
      destruct (std_burn_spec _ _ _ _ _ Hb) as (_ & Hx2 & _ & Ht2 & Hmi2 & _ & Hw2).
      unfold blocked. destruct (N.eqb_spec a MODULE); [done|].
      assert (Hle : x <= zget (cbal s) MODULE).
      { destruct (Hw Hwf) as [Hnn1 Hs1]. pose proof (msum_ge (lbal l1) MODULE Hnn1). unfold gap in Hback. lia. }
      unfold bank_send. destruct (Z.leb_spec x 0); [lia|]. destruct (Z.ltb_spec (zget (cbal s) MODULE) x); [lia|].
      cbn [orb]. intros [= <- <-].
      match goal with |- InvCoin ?S /\ _ => assert (Hg : gap S = gap s) end.
      { unfold gap. sst. rewrite !zget_zset. rewrite (decide_False (P := a = MODULE)) by done.
        rewrite decide_True by done. lia. }
      split; [|lia]. split; sst; [done|congruence|auto|lia].
    - (* burn *)
      destruct (std_burn (tok s) a x) as [[l1 lg]|] eqn:Hb; [|intros [= <- <-]; split; [done|cbn; lia]].
      destruct (std_burn_spec _ _ _ _ _ Hb) as (_ & Hx & -> & Ht & Hmi & _ & Hw).
      assert (Hinv1 : InvCoin (set_tok s l1) /\ gap (set_tok s l1) = gap s + x).
      { split; [split; sst; [done|congruence|auto|unfold gap in *; sst; lia]|unfold gap; sst; lia]. }
      unfold hook. sst. destruct (erc20_on s && hook_on s); cbn [negb fold_left];
        [unfold hook_log; cbn [tlog lk lamt lto lfrom]; sst;
         destruct (x <=? 0); [|destruct (reg s); cbn [negb]; [change (N.eqb ZERO MODULE) with false; cbn [negb]|]]|];
        intros [= <- <-]; destruct Hinv1; (split; [done|cbn; lia]).
    - (* mint: only the module holds the minter role *)
      unfold std_mint. rewrite Hmin. destruct (N.eqb_spec a MODULE); [done|]. cbn [negb].
      intros [= <- <-]. split; [done|cbn; lia].
  Qed.

  (** the hook on ANY log whose [from] is not the module address *)
  Lemma coin_hook_log (s : st ledger) g s' : InvCoin s -> lfrom g <> MODULE ->
    hook_log HT cf s g = Some s' -> InvCoin s' /\ gap s' = gap s.
  Proof.
    intros Hinv Hf. pose proof Hinv as [Hown Hmin Hwf Hback]. unfold hook_log.
    destruct (lk g); try (intros [= <-]; split; [done|lia]). rewrite Hown.
    destruct (Z.leb_spec (lamt g) 0); [intros [= <-]; split; [done|lia]|].
    destruct (negb (reg s)); [intros [= <-]; split; [done|lia]|].
    destruct (negb (N.eqb (lto g) MODULE)); [intros [= <-]; split; [done|lia]|].
    destruct (negb (en s)); [intros [= <-]; split; [done|lia]|].
    hsimp. destruct (std_burn (tok s) MODULE (lamt g)) as [[l2 lg2]|] eqn:Hb; [|intros [= <-]; split; [done|lia]].
    destruct (std_burn_spec _ _ _ _ _ Hb) as (_ & Hx2 & _ & Ht2 & Hmi2 & _ & Hw2).
    unfold blocked. destruct (N.eqb_spec (lfrom g) MODULE); [done|]. sst.
    assert (Hle : lamt g <= zget (cbal s) MODULE).
    { destruct Hwf as [Hnn Hs]. pose proof (msum_ge (lbal (tok s)) MODULE Hnn). unfold gap in Hback. lia. }
    unfold bank_send. destruct (Z.leb_spec (lamt g) 0); [lia|]. destruct (Z.ltb_spec (zget (cbal s) MODULE) (lamt g)); [lia|].
    cbn [orb]. intros [= <-].
    match goal with |- InvCoin ?S /\ _ => assert (Hg : gap S = gap s) end.
    { unfold gap. sst. rewrite !zget_zset. rewrite (decide_False (P := lfrom g = MODULE)) by done.
      rewrite decide_True by done. lia. }
    split; [|lia]. split; sst; [done|congruence|auto|lia].
  Qed.

  Lemma coin_hook logs : forall (s s' : st ledger), InvCoin s -> Forall (fun g => lfrom g <> MODULE) logs ->
    hook HT cf s logs = Some s' -> InvCoin s' /\ gap s' = gap s.
  Proof.
    intros s s' Hinv Hf. unfold hook. destruct (negb _); [intros [= <-]; split; [done|lia]|].
    revert s Hinv. induction Hf as [|g r Hg Hr IH]; intros s Hinv; cbn [fold_left].
    - intros [= <-]. split; [done|lia].
    - destruct (hook_log HT cf s g) as [s1|] eqn:E; [|rewrite hfold_none; discriminate].
      destruct (coin_hook_log _ _ _ Hinv Hg E) as [Hinv1 Hg1]. intros H.
      destruct (IH _ Hinv1 H) as [Hinv2 Hg2]. split; [done|lia].
  Qed.

  (** one transaction of the script contract: any list of calls, any number of
      Transfer-to-module logs in the receipt *)
  Lemma coin_batch (s : st ledger) a cs s' r : InvCoin s ->
    batch_tx HT cf s a cs = (s', r) -> InvCoin s' /\ gap s' = gap s.
  Proof.
    intros Hinv. pose proof Hinv as [Hown Hmin Hwf Hback]. unfold batch_tx.
    destruct (has_key a); cbn [negb]; [|intros [= <- <-]; split; [done|lia]].
    destruct (batch_calls HT (tok s) SCRIPT cs) as [[l1 lg]|] eqn:Hb; [|intros [= <- <-]; split; [done|lia]].
    assert (Hsm : SCRIPT <> MODULE) by done.
    destruct (h_batch_calls _ _ Hsm _ _ _ Hb) as (Hw & Ht & Hmi & Hf & _).
    assert (Hinv1 : InvCoin (set_tok s l1) /\ gap (set_tok s l1) = gap s).
    { split; [split; sst; [done|congruence|auto|unfold gap in *; sst; lia]|unfold gap; sst; lia]. }
    destruct Hinv1 as [Hinv1 Hg1].
    destruct (hook HT cf (set_tok s l1) lg) as [s2|] eqn:Hh; intros [= <- <-]; [|split; [done|lia]].
    assert (Hf' : Forall (fun g => lfrom g <> MODULE) lg).
    { eapply Forall_impl; [exact Hf|]. intros g [-> _]. done. }
    destruct (coin_hook _ _ _ Hinv1 Hf' Hh). split; [done|lia].
  Qed.

  Lemma coin_send (s : st ledger) a b x s' r : InvCoin s ->
    msg_send HT cf s a b x = (s', r) -> InvCoin s' /\ gap s' = gap s.
  Proof.
    intros Hinv. pose proof Hinv as [Hown Hmin Hwf Hback]. unfold msg_send.
    destruct (x <=? 0); [intros [= <- <-]; split; [done|lia]|].
    destruct (N.eqb_spec a MODULE); [intros [= <- <-]; split; [done|lia]|].
    destruct (blocked b) eqn:Hbl; [intros [= <- <-]; split; [done|lia]|]. apply blocked_false in Hbl.
    destruct (erc20_on s && reg s && en s); cbn [negb].
    - hsimp. destruct (MAXU <? _); [intros [= <- <-]; split; [done|lia]|].
      destruct (_ <? x); [intros [= <- <-]; split; [done|lia]|].
      assert (Hin : exists s1 r1, (if zget (cbal s) a =? 0 then (s, OK) else convert_coin HT s a a (zget (cbal s) a)) = (s1, r1)
                                  /\ InvCoin s1 /\ gap s1 = gap s).
      { destruct (zget (cbal s) a =? 0); [exists s, OK; done|].
        destruct (convert_coin HT s a a (zget (cbal s) a)) as [s1 r1] eqn:Hcc. exists s1, r1. split; [done|].
        exact (coin_convert_coin _ _ _ _ _ _ n Hinv Hcc). }
      destruct Hin as (s1 & r1 & -> & Hinv1 & Hg1).
      destruct r1; [|intros [= <- <-]; split; [done|lia]].
      destruct (std_transfer (tok s1) a b x) as [[l2 lg]|] eqn:Htr; cbn [with_ret]; [|intros [= <- <-]; split; [done|lia]].
      destruct (negb _); [intros [= <- <-]; split; [done|lia]|].
      destruct (std_transfer_spec _ _ _ _ _ _ Htr) as (_ & _ & _ & _ & Ht & Hmi & _ & Hw).
      destruct Hinv1 as [Hown1 Hmin1 Hwf1 Hback1].
      destruct (approval_check_cases lg) as [Ha|[Ha|Ha]]; rewrite Ha; intros [= <- <-]; try (split; [done|lia]).
      assert (gap (set_tok s1 l2) = gap s1) by (unfold gap; sst; lia).
      split; [|lia]. split; sst; [done|congruence|auto|lia].
    - destruct (bank_send (cbal s) a b x) as [cb|] eqn:Hbs; [|intros [= <- <-]; split; [done|lia]].
      intros [= <- <-]. destruct (bank_send_spec _ _ _ _ _ Hbs) as (_ & _ & Hz).
      assert (gap (set_bank s cb (supply s)) = gap s).
      { unfold gap. sst. rewrite Hz, !ind_diff by done. lia. }
      split; [|done]. split; sst; [done|done|done|lia].
  Qed.

  Lemma coin_flat_recv (s : st ledger) mint smod esc b x s' r : InvCoin s ->
    ibc_recv HT s mint smod esc b x = (s', r) -> InvCoin s' /\ gap s' = gap s.
  Proof.
    intros Hinv. unfold ibc_recv.
    destruct (credit s mint esc b x) as [s1|] eqn:Hc; [|intros [= <- <-]; split; [done|lia]].
    destruct (coin_credit _ _ _ _ _ _ Hinv Hc) as [Hinv1 Hg1].
    destruct (credit_spec _ _ _ _ _ _ Hc) as (Hb & _).
    destruct (_ || _); [intros [= <- <-]; split; [done|lia]|].
    destruct (convert_coin HT s1 b b (zget (cbal s1) b)) as [s2 r2] eqn:Hcc.
    destruct (coin_convert_coin _ _ _ _ _ _ Hb Hinv1 Hcc) as [Hinv2 Hg2].
    destruct r2; intros [= <- <-]; split; (done || lia).
  Qed.

  Lemma coin_refund (s : st ledger) mint esc b x s' r : InvCoin s ->
    ibc_refund HT s mint esc b x = (s', r) -> InvCoin s' /\ gap s' = gap s.
  Proof.
    intros Hinv. unfold ibc_refund.
    destruct (N.eqb_spec b MODULE); [intros [= <- <-]; split; [done|lia]|].
    destruct (credit s mint esc b x) as [s1|] eqn:Hc; [|intros [= <- <-]; split; [done|lia]].
    destruct (coin_credit _ _ _ _ _ _ Hinv Hc) as [Hinv1 Hg1].
    destruct (_ || _); [intros [= <- <-]; split; [done|lia]|].
    destruct (convert_coin HT s1 b b x) as [s2 r2] eqn:Hcc.
    destruct (coin_convert_coin _ _ _ _ _ _ n Hinv1 Hcc) as [Hinv2 Hg2].
    destruct r2; intros [= <- <-]; split; (done || lia).
  Qed.

  (** every operation keeps the invariant and moves the gap escrow - totalSupply
      by exactly what a holder burned of his own tokens *)
  Theorem coin_step (s : st ledger) o s' r : InvCoin s -> step HT cf s o = (s', r) ->
    InvCoin s' /\ gap s' = gap s + burn_of o r.
  Proof.
    intros Hinv. destruct o as [a x|a b x|a b x|a b x|a c|a b x|a x| |e h|mint smod esc b x|success mint esc b x|mint esc b x|a cs|ow x];
      cbn [step].
    - destruct (credit s true 0 a x) as [s1|] eqn:Hc; intros [= <- <-]; [|split; [done|cbn; lia]].
      destruct (coin_credit _ _ _ _ _ _ Hinv Hc). split; [done|cbn; lia].
    - destruct (credit s false a b x) as [s1|] eqn:Hc; intros [= <- <-]; [|split; [done|cbn; lia]].
      destruct (coin_credit _ _ _ _ _ _ Hinv Hc). split; [done|cbn; lia].
    - unfold msg_convert_coin. destruct (x <=? 0); [intros [= <- <-]; split; [done|cbn; lia]|].
      destruct (N.eqb_spec a MODULE); [intros [= <- <-]; split; [done|cbn; lia]|].
      intros H. destruct (coin_convert_coin _ _ _ _ _ _ n Hinv H). split; [done|cbn; lia].
    - unfold msg_convert_erc20. destruct (x <=? 0); [intros [= <- <-]; split; [done|cbn; lia]|].
      destruct (N.eqb_spec a MODULE); [intros [= <- <-]; split; [done|cbn; lia]|].
      intros H. destruct (coin_convert_erc20 _ _ _ _ _ _ Hinv H). split; [done|cbn; lia].
    - apply coin_eth. done.
    - intros H. destruct (coin_send _ _ _ _ _ _ Hinv H). split; [done|cbn; lia].
    - intros [= <- <-]. split; [done|cbn; lia].
    - destruct Hinv as [Hown Hmin Hwf Hback]. destruct (reg s); intros [= <- <-]; (split; [|cbn; unfold gap; sst; lia]);
        split; sst; done.
    - destruct Hinv as [Hown Hmin Hwf Hback]. intros [= <- <-]. split; [|cbn; unfold gap; sst; lia]. split; sst; done.
    - intros H. destruct (coin_flat_recv _ _ _ _ _ _ _ _ Hinv H). split; [done|cbn; lia].
    - destruct (N.eqb b MODULE); [intros [= <- <-]; split; [done|cbn; lia]|].
      destruct success; [intros [= <- <-]; split; [done|cbn; lia]|].
      intros H. destruct (coin_refund _ _ _ _ _ _ _ Hinv H). split; [done|cbn; lia].
    - intros H. destruct (coin_refund _ _ _ _ _ _ _ Hinv H). split; [done|cbn; lia].
    - intros H. destruct (coin_batch _ _ _ _ _ Hinv H). split; [done|cbn; lia].
    - (* Spend: the honest token gives nobody an allowance *)
      hsimp. cbn [honest_user]. destruct (x <=? 0); intros [= <- <-]; (split; [done|cbn; lia]).
  Qed.
End HonestCoin.

(** ** token-origin pair with an honest external token *)
Record InvExt (s : st ledger) : Prop := {
  ie_own : own_mod s = false;
  ie_back : supply s <= zget (lbal (tok s)) MODULE
}.

Lemma ext_convert_coin (s : st ledger) a b x s' r : InvExt s ->
  convert_coin HT s a b x = (s', r) -> InvExt s'.
Proof.
  intros [Hown Hback] H.
  destruct (h_convert_coin _ _ _ _ _ _ H) as [[_ ->]|(_ & Hbl & _ & cb & l1 & lg & Hbs & Hrest)]; [done|].
  rewrite Hown in Hrest. destruct Hrest as [Htr ->]. apply blocked_false in Hbl.
  destruct (std_transfer_spec _ _ _ _ _ _ Htr) as (_ & _ & _ & _ & _ & _ & Hz & _).
  split; sst; [done|]. rewrite Hz, ind_same, (ind_diff b MODULE) by done. lia.
Qed.

Lemma ext_convert_erc20 (s : st ledger) a b x s' r : InvExt s ->
  convert_erc20 HT s a b x = (s', r) -> InvExt s'.
Proof.
  intros [Hown Hback] H.
  destruct (h_convert_erc20 _ _ _ _ _ _ H) as [[_ ->]|(_ & _ & _ & l1 & lg & Hrest)]; [done|].
  rewrite Hown in Hrest. destruct Hrest as (_ & Hm & _ & ->). split; sst; [done|lia].
Qed.

Lemma ext_credit (s : st ledger) mint esc to x s1 : InvExt s -> credit s mint esc to x = Some s1 -> InvExt s1.
Proof.
  intros [Hown Hback] H. destruct (credit_spec _ _ _ _ _ _ H) as (_ & _ & Ht & (_ & Ho & _) & _ & Hs).
  destruct mint; [destruct Hs; congruence|]. split; [congruence|]. rewrite Ht, Hs. done.
Qed.

Section HonestExt.
  Variable cf : cfg.

  (** what the hook does with the single log of an honest call that has already
      moved [d] tokens to the module (d = amount if the log goes to the module) *)
  Lemma ext_hook_one (s : st ledger) l1 from to x : own_mod s = false ->
    supply s + (if decide (to = MODULE) then x else 0) <= zget (lbal l1) MODULE ->
    supply s <= zget (lbal l1) MODULE ->
    match hook HT cf (set_tok s l1) [tlog from to x] with
    | None => True
    | Some s2 => InvExt s2
    end.
  Proof.
    intros Hown Hto Hle. unfold hook. sst.
    destruct (erc20_on s && hook_on s); cbn [negb fold_left]; [|split; sst; done].
    unfold hook_log. cbn [tlog lk lamt lto lfrom]. sst. rewrite Hown.
    destruct (x <=? 0); [split; sst; done|].
    destruct (reg s); cbn [negb]; [|split; sst; done].
    destruct (N.eqb_spec to MODULE) as [->|]; cbn [negb]; [|split; sst; done].
    destruct (en s); cbn [negb]; [|split; sst; done].
    destruct (hook_ext cf); cbn [negb]; [|split; sst; done].
    destruct (MAXU <? supply s + x); [done|].
    rewrite decide_True in Hto by done.
    destruct (blocked from); [split; sst; [done|lia]|].
    destruct (bank_send _ MODULE from x); split; sst; (done || lia).
  Qed.

  Lemma ext_eth (s : st ledger) a c s' r : InvExt s -> eth_tx HT cf s a c = (s', r) -> InvExt s'.
  Proof.
    intros Hinv. pose proof Hinv as [Hown Hback]. unfold eth_tx.
    destruct (has_key a) eqn:Hk; cbn [negb]; [|intros [= <- <-]; done].
    apply has_key_not_module in Hk. hsimp.
    destruct c as [to x|x|to x|m| | |ow x]; cbn [honest_user]; try (intros [= <- <-]; done).
    - destruct (std_transfer (tok s) a to x) as [[l1 lg]|] eqn:Htr; [|intros [= <- <-]; done].
      destruct (std_transfer_spec _ _ _ _ _ _ Htr) as (_ & _ & Hx & -> & _ & _ & Hz & _).
      pose proof (ext_hook_one s l1 a to x Hown) as Hh.
      destruct (hook HT cf (set_tok s l1) [tlog a to x]) as [s2|]; intros [= <- <-]; [|done].
      apply Hh; rewrite Hz, (ind_diff a MODULE) by done; unfold ind; destruct (decide (to = MODULE)); lia.
    - destruct (std_burn (tok s) a x) as [[l1 lg]|] eqn:Hb; [|intros [= <- <-]; done].
      destruct (std_burn_spec _ _ _ _ _ Hb) as (_ & Hx & -> & _ & _ & Hz & _).
      pose proof (ext_hook_one s l1 a ZERO x Hown) as Hh.
      destruct (hook HT cf (set_tok s l1) [tlog a ZERO x]) as [s2|]; intros [= <- <-]; [|done].
      apply Hh; rewrite Hz, (ind_diff a MODULE) by done; rewrite ?decide_False by done; lia.
    - destruct (std_mint (tok s) a to x) as [[l1 lg]|] eqn:Hm; [|intros [= <- <-]; done].
      destruct (std_mint_spec _ _ _ _ _ _ Hm) as (_ & _ & Hx & -> & _ & _ & Hz & _).
      pose proof (ext_hook_one s l1 ZERO to x Hown) as Hh.
      destruct (hook HT cf (set_tok s l1) [tlog ZERO to x]) as [s2|]; intros [= <- <-]; [|done].
      apply Hh; rewrite Hz; unfold ind; destruct (decide (to = MODULE)); lia.
  Qed.

  (** the hook on ANY log with a non-negative amount: coins are created only for a
      log addressed to the module, by that log's own amount; the token is untouched *)
  Lemma ext_hook_log (s : st ledger) g : own_mod s = false -> 0 <= lamt g ->
    match hook_log HT cf s g with
    | None => True
    | Some s' => own_mod s' = false /\ tok s' = tok s /\
                 supply s' <= supply s + (if N.eqb (lto g) MODULE then lamt g else 0)
    end.
  Proof.
    intros Hown Hx. unfold hook_log. rewrite Hown.
    destruct (lk g); try (split; [done|split; [done|destruct (N.eqb _ _); lia]]).
    destruct (lamt g <=? 0); [split; [done|split; [done|destruct (N.eqb _ _); lia]]|].
    destruct (negb (reg s)); [split; [done|split; [done|destruct (N.eqb _ _); lia]]|].
    destruct (N.eqb (lto g) MODULE); cbn [negb]; [|split; [done|split; [done|lia]]].
    destruct (negb (en s)); [split; [done|split; [done|lia]]|].
    destruct (negb (hook_ext cf)); [split; [done|split; [done|lia]]|].
    destruct (MAXU <? supply s + lamt g); [done|].
    destruct (blocked (lfrom g)); [split; sst; [done|split; [done|lia]]|].
    destruct (bank_send _ MODULE (lfrom g) (lamt g)); split; sst; (done || (split; [done|lia])).
  Qed.

  Lemma ext_hook_fold logs : forall (s : st ledger), own_mod s = false ->
    Forall (fun g => 0 <= lamt g) logs ->
    supply s + to_mod logs <= zget (lbal (tok s)) MODULE ->
    match hfold HT cf logs (Some s) with None => True | Some s' => InvExt s' end.
  Proof.
    induction logs as [|g r IH]; intros s Hown Hf Hle; cbn [fold_left].
    - cbn in Hle. split; [done|lia].
    - inversion Hf as [|? ? Hg Hr]; subst.
      pose proof (ext_hook_log s g Hown Hg) as Hl.
      destruct (hook_log HT cf s g) as [s1|]; [|rewrite hfold_none; done].
      destruct Hl as (Hown1 & Ht1 & Hs1). apply IH; [done|done|].
      rewrite Ht1. cbn [to_mod] in Hle. lia.
  Qed.

  Lemma ext_batch (s : st ledger) a cs s' r : InvExt s -> batch_tx HT cf s a cs = (s', r) -> InvExt s'.
  Proof.
    intros Hinv. pose proof Hinv as [Hown Hback]. unfold batch_tx.
    destruct (has_key a); cbn [negb]; [|intros [= <- <-]; done].
    destruct (batch_calls HT (tok s) SCRIPT cs) as [[l1 lg]|] eqn:Hb; [|intros [= <- <-]; done].
    assert (Hsm : SCRIPT <> MODULE) by done.
    destruct (h_batch_calls _ _ Hsm _ _ _ Hb) as (_ & _ & _ & Hf & Hm).
    assert (Hf' : Forall (fun g => 0 <= lamt g) lg).
    { eapply Forall_impl; [exact Hf|]. intros g [_ ?]. done. }
    pose proof (ext_hook_fold lg (set_tok s l1) Hown Hf') as Hh. sst.
    unfold hook. sst. destruct (negb _).
    - intros [= <- <-]. pose proof (to_mod_nonneg lg Hf'). split; sst; [done|lia].
    - destruct (hfold HT cf lg (Some (set_tok s l1))) as [s2|]; intros [= <- <-]; [|done].
      apply Hh. lia.
  Qed.

  Lemma ext_send (s : st ledger) a b x s' r : InvExt s -> msg_send HT cf s a b x = (s', r) -> InvExt s'.
  Proof.
    intros Hinv. pose proof Hinv as [Hown Hback]. unfold msg_send.
    destruct (x <=? 0); [intros [= <- <-]; done|].
    destruct (N.eqb_spec a MODULE); [intros [= <- <-]; done|].
    destruct (blocked b) eqn:Hbl; [intros [= <- <-]; done|]. apply blocked_false in Hbl.
    destruct (erc20_on s && reg s && en s); cbn [negb].
    - hsimp. destruct (MAXU <? _); [intros [= <- <-]; done|].
      destruct (_ <? x); [intros [= <- <-]; done|].
      assert (Hin : exists s1 r1, (if zget (cbal s) a =? 0 then (s, OK) else convert_coin HT s a a (zget (cbal s) a)) = (s1, r1)
                                  /\ InvExt s1).
      { destruct (zget (cbal s) a =? 0); [exists s, OK; done|].
        destruct (convert_coin HT s a a (zget (cbal s) a)) as [s1 r1] eqn:Hcc. exists s1, r1. split; [done|].
        exact (ext_convert_coin _ _ _ _ _ _ Hinv Hcc). }
      destruct Hin as (s1 & r1 & -> & [Hown1 Hback1]).
      destruct r1; [|intros [= <- <-]; done].
      destruct (std_transfer (tok s1) a b x) as [[l2 lg]|] eqn:Htr; cbn [with_ret]; [|intros [= <- <-]; done].
      destruct (negb _); [intros [= <- <-]; done|].
      destruct (std_transfer_spec _ _ _ _ _ _ Htr) as (_ & _ & _ & _ & _ & _ & Hz & _).
      destruct (approval_check_cases lg) as [Ha|[Ha|Ha]]; rewrite Ha; intros [= <- <-]; try done.
      split; sst; [done|]. rewrite Hz, !ind_diff by done. lia.
    - destruct (bank_send (cbal s) a b x) as [cb|] eqn:Hbs; intros [= <- <-]; [|done]. split; sst; done.
  Qed.

  Theorem ext_step (s : st ledger) o s' r : InvExt s -> step HT cf s o = (s', r) -> InvExt s'.
  Proof.
    intros Hinv. destruct o as [a x|a b x|a b x|a b x|a c|a b x|a x| |e h|mint smod esc b x|success mint esc b x|mint esc b x|a cs|ow x];
      cbn [step].
    - destruct (credit s true 0 a x) as [s1|] eqn:Hc; intros [= <- <-]; [|done]. eapply ext_credit; eauto.
    - destruct (credit s false a b x) as [s1|] eqn:Hc; intros [= <- <-]; [|done]. eapply ext_credit; eauto.
    - unfold msg_convert_coin. destruct (x <=? 0); [intros [= <- <-]; done|].
      destruct (N.eqb a MODULE); [intros [= <- <-]; done|]. apply ext_convert_coin. done.
    - unfold msg_convert_erc20. destruct (x <=? 0); [intros [= <- <-]; done|].
      destruct (N.eqb a MODULE); [intros [= <- <-]; done|]. apply ext_convert_erc20. done.
    - apply ext_eth. done.
    - apply ext_send. done.
    - intros [= <- <-]. done.
    - destruct Hinv as [Hown Hback]. destruct (reg s); intros [= <- <-]; split; sst; done.
    - destruct Hinv as [Hown Hback]. intros [= <- <-]. split; sst; done.
    - unfold ibc_recv. destruct (credit s mint esc b x) as [s1|] eqn:Hc; [|intros [= <- <-]; done].
      pose proof (ext_credit _ _ _ _ _ _ Hinv Hc) as Hinv1.
      destruct (_ || _); [intros [= <- <-]; done|].
      destruct (convert_coin HT s1 b b (zget (cbal s1) b)) as [s2 r2] eqn:Hcc.
      pose proof (ext_convert_coin _ _ _ _ _ _ Hinv1 Hcc). destruct r2; intros [= <- <-]; done.
    - destruct (N.eqb b MODULE); [intros [= <- <-]; done|].
      destruct success; [intros [= <- <-]; done|].
      unfold ibc_refund. destruct (N.eqb b MODULE); [intros [= <- <-]; done|].
      destruct (credit s mint esc b x) as [s1|] eqn:Hc; [|intros [= <- <-]; done].
      pose proof (ext_credit _ _ _ _ _ _ Hinv Hc) as Hinv1.
      destruct (_ || _); [intros [= <- <-]; done|].
      destruct (convert_coin HT s1 b b x) as [s2 r2] eqn:Hcc.
      pose proof (ext_convert_coin _ _ _ _ _ _ Hinv1 Hcc). destruct r2; intros [= <- <-]; done.
    - unfold ibc_refund. destruct (N.eqb b MODULE); [intros [= <- <-]; done|].
      destruct (credit s mint esc b x) as [s1|] eqn:Hc; [|intros [= <- <-]; done].
      pose proof (ext_credit _ _ _ _ _ _ Hinv Hc) as Hinv1.
      destruct (_ || _); [intros [= <- <-]; done|].
      destruct (convert_coin HT s1 b b x) as [s2 r2] eqn:Hcc.
      pose proof (ext_convert_coin _ _ _ _ _ _ Hinv1 Hcc). destruct r2; intros [= <- <-]; done.
    - apply ext_batch. done.
    - hsimp. cbn [honest_user]. destruct (x <=? 0); intros [= <- <-]; done.
  Qed.
End HonestExt.

(** * all histories *)
Lemma run_cons {T} (tk : token T) cf o ops s : run tk cf (o :: ops) s = run tk cf ops (fst (step tk cf s o)).
Proof. done. Qed.

Fixpoint holder_burns (cf : cfg) (ops : list op) (s : st ledger) : Z :=
  match ops with
  | [] => 0
  | o :: r => let '(s', res) := step HT cf s o in burn_of o res + holder_burns cf r s'
  end.

Definition no_holder_burn (ops : list op) : Prop :=
  forall a x, ~ In (Eth a (UBurn x)) ops.

Lemma holder_burns_none cf ops : no_holder_burn ops -> forall s, holder_burns cf ops s = 0.
Proof.
  induction ops as [|o r IH]; intros Hn s; cbn [holder_burns]; [done|].
  destruct (step HT cf s o) as [s' res]. rewrite IH.
  - destruct o as [| | | |a c| | | | | | | | |]; cbn; try lia. destruct c; cbn; try lia.
    exfalso. eapply Hn. left. done.
  - intros a x Hin. eapply Hn. right. exact Hin.
Qed.

Lemma holder_burns_nonneg cf ops : forall s, InvCoin s -> 0 <= holder_burns cf ops s.
Proof.
  induction ops as [|o r IH]; intros s Hinv; cbn [holder_burns]; [lia|].
  destruct (step HT cf s o) as [s' res] eqn:Hs.
  destruct (coin_step cf _ _ _ _ Hinv Hs) as [Hinv' Hg]. specialize (IH s' Hinv').
  assert (0 <= burn_of o res); [|lia].
  destruct o as [| | | |a c| | | | | | | | |]; cbn; try lia. destruct c; cbn; try lia.
  destruct (N.eqb res OK) eqn:E; [|lia].
  (* a successful burn has a non-negative amount *)
  cbn [step] in Hs. unfold eth_tx in Hs. destruct (has_key a); cbn [negb] in Hs; [|injection Hs as _ <-; discriminate].
  hsimp. cbn [honest_user] in Hs. destruct (std_burn (tok s) a x) as [[l1 lg]|] eqn:Hb.
  - destruct (std_burn_spec _ _ _ _ _ Hb) as (_ & Hx & _). lia.
  - injection Hs as _ <-. discriminate.
Qed.

Theorem coin_all_histories cf ops : forall s, InvCoin s ->
  InvCoin (run HT cf ops s) /\ gap (run HT cf ops s) = gap s + holder_burns cf ops s.
Proof.
  induction ops as [|o r IH]; intros s Hinv; [cbn; split; [done|lia]|].
  rewrite run_cons. cbn [holder_burns]. destruct (step HT cf s o) as [s' res] eqn:Hs. cbn [fst].
  destruct (coin_step cf _ _ _ _ Hinv Hs) as [Hinv' Hg].
  destruct (IH s' Hinv') as [Hi Hgr]. split; [done|lia].
Qed.

Theorem ext_all_histories cf ops : forall s, InvExt s -> InvExt (run HT cf ops s).
Proof.
  induction ops as [|o r IH]; intros s Hinv; [done|].
  rewrite run_cons. destruct (step HT cf s o) as [s' res] eqn:Hs. cbn [fst].
  apply IH. eapply ext_step; eauto.
Qed.

(** the property's backing statement *)
Definition backing_inv (s : st ledger) : Prop :=
  if own_mod s
  then ltotal (tok s) <= zget (cbal s) MODULE      (* ERC20 total supply <= coins escrowed in the module account *)
  else supply s <= zget (lbal (tok s)) MODULE.     (* coin supply <= tokens escrowed by the module *)

(** a freshly registered pair: nothing converted yet *)
Definition fresh (s : st ledger) : Prop :=
  if own_mod s
  then lminter (tok s) = MODULE /\ lbal (tok s) = ∅ /\ ltotal (tok s) = 0 /\ zget (cbal s) MODULE = 0
  else supply s = 0 /\ 0 <= zget (lbal (tok s)) MODULE.

Lemma fresh_inv s : fresh s -> if own_mod s then InvCoin s /\ gap s = 0 else InvExt s.
Proof.
  unfold fresh. destruct (own_mod s) eqn:Hown.
  - intros (Hm & Hb & Ht & Hc). split; [split; [done|done| |unfold gap; lia]|unfold gap; lia].
    split; [intros a; rewrite Hb, zget_empty; lia|rewrite Hb, msum_empty; lia].
  - intros [Hs Hm]. split; [done|lia].
Qed.

Theorem backing_inv_all_histories cf ops s : fresh s -> backing_inv (run HT cf ops s).
Proof.
  intros Hf. pose proof (fresh_inv s Hf) as Hi. unfold backing_inv. destruct (own_mod s) eqn:Hown.
  - destruct Hi as [Hinv Hg]. destruct (coin_all_histories cf ops s Hinv) as [[Hown' _ _ Hback] _].
    rewrite Hown'. unfold gap in Hback. lia.
  - destruct (ext_all_histories cf ops s Hi) as [Hown' Hback]. rewrite Hown'. done.
Qed.

(** coin-origin: escrow = total supply + what holders burned themselves; equality without burns *)
Theorem backing_coin_exact cf ops s : fresh s -> own_mod s = true ->
  let s' := run HT cf ops s in
  zget (cbal s') MODULE = ltotal (tok s') + holder_burns cf ops s /\ 0 <= holder_burns cf ops s.
Proof.
  intros Hf Hown. pose proof (fresh_inv s Hf) as Hi. rewrite Hown in Hi. destruct Hi as [Hinv Hg].
  destruct (coin_all_histories cf ops s Hinv) as [_ Hgap]. cbn zeta. unfold gap in *.
  split; [lia|]. apply holder_burns_nonneg. done.
Qed.

Theorem backing_coin_equal_without_burns cf ops s : fresh s -> own_mod s = true -> no_holder_burn ops ->
  let s' := run HT cf ops s in zget (cbal s') MODULE = ltotal (tok s').
Proof.
  intros Hf Hown Hn. destruct (backing_coin_exact cf ops s Hf Hown) as [He _]. cbn zeta in *.
  rewrite (holder_burns_none cf ops Hn) in He. lia.
Qed.

(** a rejected message changes nothing, whatever the token *)
Theorem failed_step_no_effect {T} (tk : token T) cf (s : st T) o s' r :
  step tk cf s o = (s', r) -> r <> OK -> s' = s.
Proof.
  intros H Hr. destruct o as [a x|a b x|a b x|a b x|a c|a b x|a x| |e h|mint smod esc b x|success mint esc b x|mint esc b x|a cs|ow x];
    cbn [step] in H.
  - destruct (credit s true 0 a x); injection H as <- <-; done.
  - destruct (credit s false a b x); injection H as <- <-; done.
  - destruct (msg_convert_coin_exact_or_error tk _ _ _ _ _ _ H) as [[_ ?]|[(? & _)|(? & _)]]; done.
  - destruct (msg_convert_erc20_exact_or_error tk _ _ _ _ _ _ H) as [[_ ?]|[(? & _)|(? & _)]]; done.
  - unfold eth_tx in H. destruct (negb (has_key a)); [injection H as <- <-; done|].
    destruct (call_user tk (tok s) a c) as [[t1 lg]|]; [|injection H as <- <-; done].
    destruct (hook tk cf (set_tok s t1) lg); injection H as <- <-; done.
  - unfold msg_send in H.
    repeat match type of H with
           | (if ?c then _ else _) = _ => destruct c
           | (match ?c with _ => _ end) = _ => destruct c eqn:?
           | (let '(_, _) := ?c in _) = _ => destruct c eqn:?
           end; try (injection H as <- <-; done).
  - injection H as <- <-; done.
  - destruct (reg s); injection H as <- <-; done.
  - injection H as <- <-; done.
  - unfold ibc_recv in H. destruct (credit s mint esc b x); [|injection H as <- <-; done].
    destruct (_ || _); [injection H as <- <-; done|].
    destruct (convert_coin tk s0 b b (zget (cbal s0) b)) as [s2 [|?]]; injection H as <- <-; done.
  - destruct (N.eqb b MODULE); [injection H as <- <-; done|]. destruct success; [injection H as <- <-; done|].
    unfold ibc_refund in H. destruct (N.eqb b MODULE); [injection H as <- <-; done|].
    destruct (credit s mint esc b x); [|injection H as <- <-; done].
    destruct (_ || _); [injection H as <- <-; done|].
    destruct (convert_coin tk s0 b b x) as [s2 [|?]]; injection H as <- <-; done.
  - unfold ibc_refund in H. destruct (N.eqb b MODULE); [injection H as <- <-; done|].
    destruct (credit s mint esc b x); [|injection H as <- <-; done].
    destruct (_ || _); [injection H as <- <-; done|].
    destruct (convert_coin tk s0 b b x) as [s2 [|?]]; injection H as <- <-; done.
  - unfold batch_tx in H. destruct (negb (has_key a)); [injection H as <- <-; done|].
    destruct (batch_calls tk (tok s) SCRIPT cs) as [[t1 lg]|]; [|injection H as <- <-; done].
    destruct (hook tk cf (set_tok s t1) lg); injection H as <- <-; done.
  - destruct (x <=? 0); [injection H as <- <-; done|].
    destruct (call_user tk (tok s) THIEF (USpend ow x)) as [[t1 lg]|]; injection H as <- <-; done.
Qed.

(** * the transfer-to-module hook *)

(** honest token: a holder's transfer of x > 0 tokens to the module address is an
    exact conversion of x tokens of the holder into x coins of the holder *)
Definition hook_active (s : st ledger) : Prop :=
  erc20_on s = true /\ hook_on s = true /\ reg s = true /\ en s = true.

Definition tok_moves (s s' : st ledger) (f : N -> Z) : Prop :=
  forall c, zget (lbal (tok s')) c = zget (lbal (tok s)) c + f c.

Theorem hook_honest_exact_coin cf (s : st ledger) a x s' r : InvCoin s -> hook_active s -> 0 < x ->
  eth_tx HT cf s a (UTransfer MODULE x) = (s', r) ->
  (r <> OK /\ s' = s) \/
  (r = OK /\ x <= zget (lbal (tok s)) a /\ a <> MODULE /\ same_pair s s' /\
   tok_moves s s' (fun c => - x * ind a c) /\ ltotal (tok s') = ltotal (tok s) - x /\
   coin_moves s s' (fun c => x * ind a c - x * ind MODULE c) /\ supply s' = supply s).
Proof.
  intros [Hown Hmin Hwf Hback] (Hon & Hhk & Hreg & Hen) Hx. unfold eth_tx.
  destruct (has_key a) eqn:Hk; cbn [negb]; [|intros [= <- <-]; left; done].
  apply has_key_not_module in Hk. hsimp. cbn [honest_user].
  destruct (std_transfer (tok s) a MODULE x) as [[l1 lg]|] eqn:Htr; [|intros [= <- <-]; left; done].
  destruct (std_transfer_spec _ _ _ _ _ _ Htr) as (_ & _ & Hxa & -> & Ht & Hmi & Hz & Hw).
  unfold hook. sst. rewrite Hon, Hhk. cbn [andb negb fold_left].
  unfold hook_log. cbn [tlog lk lamt lto lfrom]. sst. rewrite Hown, Hreg, Hen.
  destruct (Z.leb_spec x 0); [lia|]. cbn [negb]. change (N.eqb MODULE MODULE) with true. cbn [negb]. hsimp.
  assert (Hm1 : zget (lbal l1) MODULE = zget (lbal (tok s)) MODULE + x).
  { rewrite Hz, ind_same, (ind_diff a MODULE) by done. lia. }
  unfold std_burn. change (N.eqb MODULE ZERO) with false. cbn iota.
  destruct (Z.ltb_spec x 0); [lia|]. cbn [orb].
  destruct (Z.ltb_spec (zget (lbal l1) MODULE) x).
  { destruct Hwf as [Hnn _]. specialize (Hnn MODULE). lia. }
  sst. unfold blocked. destruct (N.eqb_spec a MODULE); [done|].
  assert (Hle : x <= zget (cbal s) MODULE).
  { destruct (Hw Hwf) as [Hnn1 Hs1]. pose proof (msum_ge (lbal l1) MODULE Hnn1). unfold gap in Hback. lia. }
  unfold bank_send. destruct (Z.leb_spec x 0); [lia|]. destruct (Z.ltb_spec (zget (cbal s) MODULE) x); [lia|].
  cbn [orb]. intros [= <- <-]. right. unfold same_pair, tok_moves, coin_moves. sst. cbn [lbal ltotal].
  do 4 (split; [done || lia|]). split; [|split; [lia|split; [|done]]].
  - intros c. rewrite zget_zset. destruct (decide (MODULE = c)) as [<-|Hn].
    + rewrite (ind_diff a MODULE) by done. lia.
    + rewrite Hz, (ind_diff MODULE c) by done. lia.
  - intros c. rewrite !zget_zset. unfold ind.
    destruct (decide (a = c)) as [->|]; destruct (decide (MODULE = c)) as [<-|]; try done; lia.
Qed.

Theorem hook_honest_exact_ext cf (s : st ledger) a x s' r : InvExt s -> hook_active s -> 0 < x -> hook_ext cf = true ->
  0 <= zget (cbal s) MODULE ->
  eth_tx HT cf s a (UTransfer MODULE x) = (s', r) ->
  (r <> OK /\ s' = s) \/
  (r = OK /\ x <= zget (lbal (tok s)) a /\ a <> MODULE /\ same_pair s s' /\
   tok_moves s s' (fun c => x * ind MODULE c - x * ind a c) /\ ltotal (tok s') = ltotal (tok s) /\
   coin_moves s s' (fun c => x * ind a c) /\ supply s' = supply s + x).
Proof.
  intros [Hown Hback] (Hon & Hhk & Hreg & Hen) Hx Hcf Hesc. unfold eth_tx.
  destruct (has_key a) eqn:Hk; cbn [negb]; [|intros [= <- <-]; left; done].
  apply has_key_not_module in Hk. hsimp. cbn [honest_user].
  destruct (std_transfer (tok s) a MODULE x) as [[l1 lg]|] eqn:Htr; [|intros [= <- <-]; left; done].
  destruct (std_transfer_spec _ _ _ _ _ _ Htr) as (_ & _ & Hxa & -> & Ht & Hmi & Hz & Hw).
  unfold hook. sst. rewrite Hon, Hhk. cbn [andb negb fold_left].
  unfold hook_log. cbn [tlog lk lamt lto lfrom]. sst. rewrite Hown, Hreg, Hen, Hcf.
  destruct (Z.leb_spec x 0); [lia|]. cbn [negb]. change (N.eqb MODULE MODULE) with true. cbn [negb].
  destruct (MAXU <? supply s + x); [intros [= <- <-]; left; done|].
  unfold blocked. destruct (N.eqb_spec a MODULE); [done|].
  unfold bank_send. rewrite zget_zset, decide_True by done.
  destruct (Z.leb_spec x 0); [lia|]. cbn [orb].
  destruct (Z.ltb_spec (zget (cbal s) MODULE + x) x); [lia|].
  intros [= <- <-]. right. unfold same_pair, tok_moves, coin_moves. sst.
  do 4 (split; [done || lia|]). split; [|split; [lia|split; [|done]]].
  - intros c. rewrite Hz. lia.
  - intros c. rewrite !zget_zset. unfold ind.
    destruct (decide (a = c)) as [->|]; destruct (decide (MODULE = c)) as [<-|]; try done; lia.
Qed.

(** ** several Transfer-to-module logs in ONE receipt (a contract that makes several transfers) *)
Fixpoint zsum (xs : list Z) : Z := match xs with [] => 0 | x :: r => x + zsum r end.

Lemma zsum_nonneg xs : Forall (fun x => 0 < x) xs -> 0 <= zsum xs.
Proof. induction 1 as [|x r Hx Hr IH]; cbn [zsum] in *; lia. Qed.

(** the amounts of the calls on this pair's token *)
Fixpoint mod_amounts (cs : list bcall) : list Z :=
  match cs with
  | [] => []
  | BXfer _ x _ :: r => x :: mod_amounts r
  | BForeign _ _ :: r => mod_amounts r
  end.

(** plain transfers of positive amounts to the module address on this pair's
    token, interleaved with calls to the tokens of other pairs *)
Definition plain_xfer (c : bcall) : Prop :=
  match c with
  | BXfer to x catch => to = MODULE /\ 0 < x /\ catch = false
  | BForeign _ _ => True
  end.

Definition xfers (xs : list Z) : list bcall := map (fun x => BXfer MODULE x false) xs.

Lemma batch_calls_plain {T} (tk : token T) c cs : Forall plain_xfer cs -> forall t,
  batch_calls tk t c cs = batch_calls tk t c (xfers (mod_amounts cs)).
Proof.
  induction 1 as [|[to x catch|k x] r Hc Hr IH]; intros t; cbn [batch_calls mod_amounts xfers map]; [done| |apply IH].
  destruct Hc as (-> & _ & ->). fold (xfers (mod_amounts r)).
  destruct (call_transfer tk t c MODULE x) as [[[t1 ?] lg]|]; [|done]. rewrite IH. done.
Qed.

Lemma plain_amounts_pos cs : Forall plain_xfer cs -> Forall (fun x => 0 < x) (mod_amounts cs).
Proof.
  induction 1 as [|[to x catch|k x] r Hc Hr IH]; cbn [mod_amounts]; [constructor| |done].
  destruct Hc as (_ & ? & _). constructor; done.
Qed.

Lemma same_pair_trans {T} (s1 s2 s3 : st T) : same_pair s1 s2 -> same_pair s2 s3 -> same_pair s1 s3.
Proof. unfold same_pair. intros (? & ? & ? & ? & ?) (? & ? & ? & ? & ?). repeat split; congruence. Qed.

(** the calls: every transfer moved its amount from the contract to the module *)
Lemma h_batch_xfers c xs : c <> MODULE -> forall l l1 lg, 0 <= zget (lbal l) c ->
  batch_calls HT l c (xfers xs) = Some (l1, lg) ->
  lg = map (fun x => tlog c MODULE x) xs /\ zsum xs <= zget (lbal l) c /\
  ltotal l1 = ltotal l /\ lminter l1 = lminter l /\
  (forall a, zget (lbal l1) a = zget (lbal l) a - zsum xs * ind c a + zsum xs * ind MODULE a) /\
  (wfl l -> wfl l1).
Proof.
  intros Hc. induction xs as [|x r IH]; intros l l1 lg Hnn; cbn [xfers map batch_calls].
  - intros [= <- <-]. cbn [zsum]. do 4 (split; [done|]). split; [intros a; lia|done].
  - fold (xfers r). hsimp.
    destruct (std_transfer l c MODULE x) as [[l2 g2]|] eqn:Htr; cbn [with_ret]; [|discriminate].
    destruct (batch_calls HT l2 c (xfers r)) as [[l3 g3]|] eqn:Hr; [|discriminate]. intros [= <- <-].
    destruct (std_transfer_spec _ _ _ _ _ _ Htr) as (_ & _ & Hx & -> & Ht & Hmi & Hz & Hw).
    assert (Hc2 : zget (lbal l2) c = zget (lbal l) c - x).
    { rewrite Hz, ind_same, (ind_diff MODULE c) by done. lia. }
    assert (Hnn2 : 0 <= zget (lbal l2) c) by lia.
    destruct (IH _ _ _ Hnn2 Hr) as (-> & Hle & Ht3 & Hmi3 & Hz3 & Hw3).
    cbn [zsum app].
    split; [done|]. split; [lia|]. split; [congruence|]. split; [congruence|]. split; [|auto].
    intros a. rewrite Hz3, Hz. lia.
Qed.

(** coin-origin: one log = burn of its own amount + payout of its own amount *)
Lemma coin_hook_log_exact cf (s : st ledger) from x : InvCoin s -> reg s = true -> en s = true ->
  0 < x -> x <= zget (lbal (tok s)) MODULE -> from <> MODULE ->
  exists s', hook_log HT cf s (tlog from MODULE x) = Some s' /\ InvCoin s' /\ same_pair s s' /\
    tok_moves s s' (fun c => - x * ind MODULE c) /\ ltotal (tok s') = ltotal (tok s) - x /\
    coin_moves s s' (fun c => x * ind from c - x * ind MODULE c) /\ supply s' = supply s.
Proof.
  intros Hinv Hreg Hen Hx Hle Hf. pose proof Hinv as [Hown Hmin Hwf Hback].
  unfold hook_log. cbn [tlog lk lamt lto lfrom]. rewrite Hown, Hreg, Hen.
  destruct (Z.leb_spec x 0); [lia|]. cbn [negb]. change (N.eqb MODULE MODULE) with true. cbn [negb]. hsimp.
  unfold std_burn. change (N.eqb MODULE ZERO) with false. cbn iota.
  destruct (Z.ltb_spec x 0); [lia|]. cbn [orb].
  destruct (Z.ltb_spec (zget (lbal (tok s)) MODULE) x); [lia|].
  sst. unfold blocked. destruct (N.eqb_spec from MODULE); [done|].
  assert (Hle2 : x <= zget (cbal s) MODULE).
  { destruct Hwf as [Hnn Hs]. pose proof (msum_ge (lbal (tok s)) MODULE Hnn). unfold gap in Hback. lia. }
  unfold bank_send. destruct (Z.leb_spec x 0); [lia|]. destruct (Z.ltb_spec (zget (cbal s) MODULE) x); [lia|].
  cbn [orb]. eexists. split; [reflexivity|].
  assert (Hcm : forall c, zget (zset (zset (cbal s) MODULE (zget (cbal s) MODULE - x)) from
                        (zget (zset (cbal s) MODULE (zget (cbal s) MODULE - x)) from + x)) c
                      = zget (cbal s) c + (x * ind from c - x * ind MODULE c)).
  { intros c. rewrite !zget_zset. unfold ind.
    destruct (decide (from = c)) as [->|]; destruct (decide (MODULE = c)) as [<-|]; try done; lia. }
  assert (Htm : forall c, zget (zset (lbal (tok s)) MODULE (zget (lbal (tok s)) MODULE - x)) c
                      = zget (lbal (tok s)) c + - x * ind MODULE c).
  { intros c. rewrite zget_zset. unfold ind. destruct (decide (MODULE = c)) as [<-|]; lia. }
  unfold same_pair, tok_moves, coin_moves. sst. cbn [lbal ltotal lminter].
  split.
  { split; sst; cbn [lbal ltotal lminter]; [done|done| |].
    - destruct Hwf as [Hnn Hs]. split; cbn [lbal ltotal].
      + intros c. rewrite Htm. specialize (Hnn c). unfold ind. destruct (decide (MODULE = c)) as [<-|]; lia.
      + rewrite msum_zset. lia.
    - unfold gap in *. sst. cbn [ltotal]. rewrite Hcm, ind_same, (ind_diff from MODULE) by done. lia. }
  do 1 (split; [done|]). split; [exact Htm|]. split; [done|]. split; [exact Hcm|done].
Qed.

Lemma coin_hook_fold_exact cf from xs : from <> MODULE -> forall (s : st ledger), InvCoin s -> reg s = true -> en s = true ->
  Forall (fun x => 0 < x) xs -> zsum xs <= zget (lbal (tok s)) MODULE ->
  exists s', hfold HT cf (map (fun x => tlog from MODULE x) xs) (Some s) = Some s' /\ InvCoin s' /\ same_pair s s' /\
    tok_moves s s' (fun c => - zsum xs * ind MODULE c) /\ ltotal (tok s') = ltotal (tok s) - zsum xs /\
    coin_moves s s' (fun c => zsum xs * ind from c - zsum xs * ind MODULE c) /\ supply s' = supply s.
Proof.
  intros Hf. induction xs as [|x r IH]; intros s Hinv Hreg Hen Hpos Hle; cbn [map fold_left zsum] in *.
  - exists s. unfold same_pair, tok_moves, coin_moves. do 3 (split; [done|]).
    split; [intros c; lia|]. split; [lia|]. split; [intros c; lia|done].
  - inversion Hpos as [|? ? Hx Hr]; subst. pose proof (zsum_nonneg r Hr) as Hnn.
    destruct (coin_hook_log_exact cf s from x Hinv Hreg Hen Hx ltac:(lia) Hf)
      as (s1 & -> & Hinv1 & Hsp1 & Htm1 & Ht1 & Hcm1 & Hs1).
    pose proof Hsp1 as (Hr1 & _ & He1 & _ & _).
    destruct (IH s1 Hinv1 ltac:(congruence) ltac:(congruence) Hr) as (s2 & -> & Hinv2 & Hsp2 & Htm2 & Ht2 & Hcm2 & Hs2).
    { rewrite Htm1, ind_same. lia. }
    exists s2. split; [done|]. split; [done|]. split; [eapply same_pair_trans; eauto|].
    split; [intros c; rewrite Htm2, Htm1; lia|]. split; [lia|].
    split; [intros c; rewrite Hcm2, Hcm1; lia|lia].
Qed.

(** honest token, coin-origin pair: ONE transaction in which the script contract
    transfers x1, x2, ... to the module address (calls to other pairs' tokens in
    between): exactly x1 + x2 + ... of its tokens are burned and exactly
    x1 + x2 + ... escrowed coins are paid to it: every log converts its own amount *)
Theorem hook_honest_exact_coin_batch cf (s : st ledger) a cs s' r : InvCoin s -> hook_active s ->
  Forall plain_xfer cs -> let X := zsum (mod_amounts cs) in
  batch_tx HT cf s a cs = (s', r) ->
  (r <> OK /\ s' = s) \/
  (r = OK /\ X <= zget (lbal (tok s)) SCRIPT /\ same_pair s s' /\
   tok_moves s s' (fun c => - X * ind SCRIPT c) /\ ltotal (tok s') = ltotal (tok s) - X /\
   coin_moves s s' (fun c => X * ind SCRIPT c - X * ind MODULE c) /\ supply s' = supply s).
Proof.
  intros Hinv (Hon & Hhk & Hreg & Hen) Hplain X. pose proof Hinv as [Hown Hmin Hwf Hback]. unfold batch_tx.
  destruct (has_key a); cbn [negb]; [|intros [= <- <-]; left; done].
  rewrite (batch_calls_plain HT SCRIPT cs Hplain).
  destruct (batch_calls HT (tok s) SCRIPT (xfers (mod_amounts cs))) as [[l1 lg]|] eqn:Hb; [|intros [= <- <-]; left; done].
  assert (Hsm : SCRIPT <> MODULE) by done.
  pose proof Hwf as [Hnn _].
  destruct (h_batch_xfers SCRIPT _ Hsm _ _ _ (Hnn SCRIPT) Hb) as (-> & Hle & Ht & Hmi & Hz & Hw). fold X in Hle, Hz.
  assert (Hinv1 : InvCoin (set_tok s l1)).
  { split; sst; [done|congruence|auto|unfold gap in *; sst; lia]. }
  pose proof (plain_amounts_pos cs Hplain) as Hpos.
  destruct (coin_hook_fold_exact cf SCRIPT (mod_amounts cs) Hsm (set_tok s l1) Hinv1 Hreg Hen Hpos)
    as (s2 & Hfold & _ & Hsp & Htm & Htot & Hcm & Hsup).
  { sst. fold X. rewrite Hz, ind_same, (ind_diff SCRIPT MODULE) by done. specialize (Hnn MODULE). lia. }
  fold X in Htm, Htot, Hcm.
  unfold hook. sst. rewrite Hon, Hhk. cbn [andb negb]. rewrite Hfold. intros [= <- <-]. right.
  split; [done|]. split; [done|]. split; [exact Hsp|].
  unfold tok_moves, coin_moves in *. sst.
  split; [intros c; rewrite Htm, Hz; lia|]. split; [lia|]. split; [exact Hcm|done].
Qed.

(** token-origin: one log = mint of its own amount to the sender; the token is not touched *)
Lemma ext_hook_log_exact cf (s : st ledger) from x : own_mod s = false -> reg s = true -> en s = true ->
  hook_ext cf = true -> 0 < x -> 0 <= zget (cbal s) MODULE -> from <> MODULE ->
  match hook_log HT cf s (tlog from MODULE x) with
  | None => True
  | Some s' => same_pair s s' /\ tok s' = tok s /\ coin_moves s s' (fun c => x * ind from c) /\ supply s' = supply s + x
  end.
Proof.
  intros Hown Hreg Hen Hcf Hx Hesc Hf. unfold hook_log. cbn [tlog lk lamt lto lfrom]. rewrite Hown, Hreg, Hen, Hcf.
  destruct (Z.leb_spec x 0); [lia|]. cbn [negb]. change (N.eqb MODULE MODULE) with true. cbn [negb].
  destruct (MAXU <? supply s + x); [done|].
  unfold blocked. destruct (N.eqb_spec from MODULE); [done|].
  unfold bank_send. rewrite zget_zset, decide_True by done.
  destruct (Z.leb_spec x 0); [lia|]. cbn [orb].
  destruct (Z.ltb_spec (zget (cbal s) MODULE + x) x); [lia|].
  unfold same_pair, coin_moves. sst. do 2 (split; [done|]). split; [|done].
  intros c. rewrite !zget_zset. unfold ind.
  destruct (decide (from = c)) as [->|]; destruct (decide (MODULE = c)) as [<-|]; try done; lia.
Qed.

Lemma ext_hook_fold_exact cf from xs : from <> MODULE -> hook_ext cf = true -> forall (s : st ledger),
  own_mod s = false -> reg s = true -> en s = true -> Forall (fun x => 0 < x) xs -> 0 <= zget (cbal s) MODULE ->
  match hfold HT cf (map (fun x => tlog from MODULE x) xs) (Some s) with
  | None => True
  | Some s' => same_pair s s' /\ tok s' = tok s /\ coin_moves s s' (fun c => zsum xs * ind from c) /\
               supply s' = supply s + zsum xs
  end.
Proof.
  intros Hf Hcf. induction xs as [|x r IH]; intros s Hown Hreg Hen Hpos Hesc; cbn [map fold_left zsum].
  - unfold same_pair, coin_moves. do 2 (split; [done|]). split; [intros c; lia|lia].
  - inversion Hpos as [|? ? Hx Hr]; subst.
    pose proof (ext_hook_log_exact cf s from x Hown Hreg Hen Hcf Hx Hesc Hf) as H1.
    destruct (hook_log HT cf s (tlog from MODULE x)) as [s1|]; [|rewrite hfold_none; done].
    destruct H1 as (Hsp1 & Ht1 & Hcm1 & Hs1). pose proof Hsp1 as (Hr1 & Ho1 & He1 & _ & _).
    assert (Hesc1 : 0 <= zget (cbal s1) MODULE).
    { rewrite Hcm1, (ind_diff from MODULE) by done. lia. }
    pose proof (IH s1 ltac:(congruence) ltac:(congruence) ltac:(congruence) Hr Hesc1) as H2.
    destruct (hfold HT cf (map (fun x => tlog from MODULE x) r) (Some s1)) as [s2|]; [|done].
    destruct H2 as (Hsp2 & Ht2 & Hcm2 & Hs2).
    split; [eapply same_pair_trans; eauto|]. split; [congruence|].
    split; [intros c; rewrite Hcm2, Hcm1; lia|lia].
Qed.

(** honest token, token-origin pair: x1 + x2 + ... tokens move from the script
    contract to the module, exactly x1 + x2 + ... coins are minted to it *)
Theorem hook_honest_exact_ext_batch cf (s : st ledger) a cs s' r : InvExt s -> hook_active s ->
  Forall plain_xfer cs -> hook_ext cf = true -> 0 <= zget (cbal s) MODULE -> 0 <= zget (lbal (tok s)) SCRIPT ->
  let X := zsum (mod_amounts cs) in
  batch_tx HT cf s a cs = (s', r) ->
  (r <> OK /\ s' = s) \/
  (r = OK /\ X <= zget (lbal (tok s)) SCRIPT /\ same_pair s s' /\
   tok_moves s s' (fun c => X * ind MODULE c - X * ind SCRIPT c) /\ ltotal (tok s') = ltotal (tok s) /\
   coin_moves s s' (fun c => X * ind SCRIPT c) /\ supply s' = supply s + X).
Proof.
  intros [Hown Hback] (Hon & Hhk & Hreg & Hen) Hplain Hcf Hesc Hnn X. unfold batch_tx.
  destruct (has_key a); cbn [negb]; [|intros [= <- <-]; left; done].
  rewrite (batch_calls_plain HT SCRIPT cs Hplain).
  destruct (batch_calls HT (tok s) SCRIPT (xfers (mod_amounts cs))) as [[l1 lg]|] eqn:Hb; [|intros [= <- <-]; left; done].
  assert (Hsm : SCRIPT <> MODULE) by done.
  destruct (h_batch_xfers SCRIPT _ Hsm _ _ _ Hnn Hb) as (-> & Hle & Ht & Hmi & Hz & _). fold X in Hle, Hz.
  pose proof (plain_amounts_pos cs Hplain) as Hpos.
  pose proof (ext_hook_fold_exact cf SCRIPT (mod_amounts cs) Hsm Hcf (set_tok s l1) Hown Hreg Hen Hpos Hesc) as Hfold.
  unfold hook. sst. rewrite Hon, Hhk. cbn [andb negb].
  destruct (hfold HT cf (map (fun x => tlog SCRIPT MODULE x) (mod_amounts cs)) (Some (set_tok s l1))) as [s2|];
    intros [= <- <-]; [|left; done].
  destruct Hfold as (Hsp & Htk & Hcm & Hsup). fold X in Hcm, Hsup. right.
  split; [done|]. split; [done|]. split; [exact Hsp|].
  unfold tok_moves, coin_moves in *. sst. rewrite Htk. sst.
  split; [intros c; rewrite Hz; lia|]. split; [done|]. split; [exact Hcm|done].
Qed.

(** finding K7: an externally owned token that only emits Transfer(caller, module, 1000):
    one transaction, coin supply 0 -> 1000 in the caller's hands, nothing escrowed *)
Definition k7_state : st unit := init false ∅ 0 tt.

Theorem hook_external_log_only_refuted :
  let s' := fst (step fakelog_token impl k7_state (Eth 1 UOther)) in
  snd (step fakelog_token impl k7_state (Eth 1 UOther)) = OK /\
  supply k7_state = 0 /\ supply s' = 1000 /\ zget (cbal s') 1 = 1000 /\
  balance_of fakelog_token (tok k7_state) MODULE = None /\ balance_of fakelog_token (tok s') MODULE = None.
Proof. vm_compute. repeat split. Qed.

(** the same with a token that keeps a real ledger and lies only after having
    behaved (delayed-malicious): the module's token balance is reported as 0
    before and after, yet 33 coins exist *)
Definition k7_delayed : list op :=
  [Eth 1 (UMint 1 100); Eth 1 (UTransfer 2 10); Eth 1 (UMode 1); Eth 1 (UTransfer MODULE 33)].

Theorem hook_external_delayed_refuted :
  let s' := run cham_token impl k7_delayed (init false ∅ 0 (mkcham 0 ∅ 0 true)) in
  supply s' = 33 /\ zget (cbal s') 1 = 33 /\
  balance_of cham_token (tok s') MODULE = Some 0 /\ balance_of cham_token (tok s') 1 = Some 90.
Proof. vm_compute. repeat split. Qed.

(** ... while the message path rejects the very same token state *)
Theorem message_path_rejects_fake_transfer :
  let s := run cham_token impl [Eth 1 (UMint 1 100); Eth 1 (UMode 1)] (init false ∅ 0 (mkcham 0 ∅ 0 true)) in
  snd (step cham_token impl s (CE 1 1 33)) = EBalance.
Proof. vm_compute. done. Qed.

(** what the property demands of every coin creation for an externally owned
    pair: the token reports the same amount arriving at the module, in the same
    step.  Without the log-driven mint for external pairs ([spec]) this holds
    against ANY token, in every step. *)
Definition mint_witnessed {T} (tk : token T) (s s' : st T) : Prop :=
  supply s < supply s' -> reported tk (tok s) (tok s') MODULE (supply s' - supply s).

Lemma convert_coin_supply {T} (tk : token T) (s : st T) a b x s' r : own_mod s = false ->
  convert_coin tk s a b x = (s', r) -> supply s' <= supply s /\ own_mod s' = false.
Proof.
  intros Hown H. destruct (convert_coin_spec tk _ _ _ _ _ _ H) as [[_ ->]|[(_ & _ & ->)|(_ & _ & Hp)]];
    [split; [lia|done]|split; [cbn; lia|done]|].
  destruct Hp as (Hx & _ & _ & (_ & Ho & _) & _ & Hrest). rewrite Hown in Hrest. destruct Hrest as [_ ->].
  split; [lia|congruence].
Qed.

Lemma hook_spec_ext_no_bank {T} (tk : token T) cf logs : hook_ext cf = false -> forall (s : st T), own_mod s = false ->
  match hook tk cf s logs with
  | None => True
  | Some s2 => supply s2 = supply s /\ tok s2 = tok s
  end.
Proof.
  intros Hcf s Hown. unfold hook. destruct (negb _); [done|].
  assert (Hgen : forall logs (acc : option (st T)),
             match acc with None => True | Some s1 => supply s1 = supply s /\ tok s1 = tok s /\ own_mod s1 = false end ->
             match fold_left (fun acc l => match acc with None => None | Some s => hook_log tk cf s l end) logs acc with
             | None => True
             | Some s2 => supply s2 = supply s /\ tok s2 = tok s
             end).
  { clear logs. induction logs as [|l r IH]; intros acc Hacc; cbn [fold_left].
    - destruct acc as [s1|]; [|done]. destruct Hacc as (? & ? & _). done.
    - apply IH. destruct acc as [s1|]; [|done]. destruct Hacc as (Hs & Ht & Ho).
      unfold hook_log. rewrite Ho, Hcf. cbn [negb].
      destruct (lk l); try done.
      destruct (lamt l <=? 0); [done|]. destruct (negb (reg s1)); [done|].
      destruct (negb (N.eqb (lto l) MODULE)); [done|]. destruct (negb (en s1)); done. }
  apply Hgen. done.
Qed.

Theorem mint_witnessed_spec {T} (tk : token T) cf (s : st T) o s' r :
  hook_ext cf = false -> own_mod s = false -> step tk cf s o = (s', r) -> mint_witnessed tk s s'.
Proof.
  intros Hcf Hown H Hlt.
  destruct o as [a x|a b x|a b x|a b x|a c|a b x|a x| |e h|mint smod esc b x|success mint esc b x|mint esc b x|a cs|ow x];
    cbn [step] in H.
  - destruct (credit s true 0 a x) as [s1|] eqn:Hc; injection H as <- <-; [|lia].
    destruct (credit_spec _ _ _ _ _ _ Hc) as (_ & _ & _ & _ & _ & Ho & _). congruence.
  - destruct (credit s false a b x) as [s1|] eqn:Hc; injection H as <- <-; [|lia].
    destruct (credit_spec _ _ _ _ _ _ Hc) as (_ & _ & _ & _ & _ & Hs). lia.
  - unfold msg_convert_coin in H. destruct (x <=? 0); [injection H as <- <-; lia|].
    destruct (N.eqb a MODULE); [injection H as <- <-; lia|].
    destruct (convert_coin_supply tk _ _ _ _ _ _ Hown H). lia.
  - destruct (msg_convert_erc20_exact_or_error tk _ _ _ _ _ _ H) as [[_ ->]|[(_ & _ & ->)|(_ & _ & _ & _ & Hp)]];
      [lia|cbn in Hlt; lia|].
    destruct Hp as (_ & _ & Hrest). rewrite Hown in Hrest. destruct Hrest as (Hrep & _ & Hs & _).
    rewrite Hs. replace (supply s + x - supply s) with x by lia. done.
  - unfold eth_tx in H. destruct (negb (has_key a)); [injection H as <- <-; lia|].
    destruct (call_user tk (tok s) a c) as [[t1 lg]|]; [|injection H as <- <-; lia].
    pose proof (hook_spec_ext_no_bank tk cf lg Hcf (set_tok s t1) Hown) as Hh.
    destruct (hook tk cf (set_tok s t1) lg) as [s2|]; injection H as <- <-; [|lia].
    destruct Hh as [Hs _]. cbn in Hs. lia.
  - unfold msg_send in H.
    destruct (x <=? 0); [injection H as <- <-; lia|].
    destruct (N.eqb a MODULE); [injection H as <- <-; lia|].
    destruct (blocked b); [injection H as <- <-; lia|].
    destruct (negb _).
    + destruct (bank_send (cbal s) a b x); injection H as <- <-; [cbn in Hlt|]; lia.
    + destruct (balance_of tk (tok s) a); [|injection H as <- <-; lia].
      destruct (MAXU <? _); [injection H as <- <-; lia|]. destruct (_ <? x); [injection H as <- <-; lia|].
      assert (Hin : exists s1 r1, (if zget (cbal s) a =? 0 then (s, OK) else convert_coin tk s a a (zget (cbal s) a)) = (s1, r1)
                                  /\ supply s1 <= supply s).
      { destruct (zget (cbal s) a =? 0); [exists s, OK; split; [done|lia]|].
        destruct (convert_coin tk s a a (zget (cbal s) a)) as [s1 r1] eqn:Hcc. exists s1, r1. split; [done|].
        destruct (convert_coin_supply tk _ _ _ _ _ _ Hown Hcc). done. }
      destruct Hin as (s1 & r1 & Heq & Hle). rewrite Heq in H.
      destruct r1; [|injection H as <- <-; lia].
      repeat match type of H with
             | (if ?c then _ else _) = _ => destruct c
             | (match ?c with _ => _ end) = _ => destruct c eqn:?
             end; injection H as <- <-; cbn in Hlt; lia.
  - injection H as <- <-. lia.
  - destruct (reg s); injection H as <- <-; cbn in Hlt; lia.
  - injection H as <- <-. cbn in Hlt. lia.
  - unfold ibc_recv in H. destruct (credit s mint esc b x) as [s1|] eqn:Hc; [|injection H as <- <-; lia].
    destruct (credit_spec _ _ _ _ _ _ Hc) as (_ & _ & _ & (_ & Ho & _) & _ & Hs).
    destruct mint; [destruct Hs; congruence|].
    destruct (_ || _); [injection H as <- <-; lia|].
    destruct (convert_coin tk s1 b b (zget (cbal s1) b)) as [s2 r2] eqn:Hcc.
    assert (own_mod s1 = false) by congruence.
    destruct (convert_coin_supply tk _ _ _ _ _ _ H0 Hcc). destruct r2; injection H as <- <-; lia.
  - destruct (N.eqb b MODULE); [injection H as <- <-; lia|]. destruct success; [injection H as <- <-; lia|].
    unfold ibc_refund in H. destruct (N.eqb b MODULE); [injection H as <- <-; lia|].
    destruct (credit s mint esc b x) as [s1|] eqn:Hc; [|injection H as <- <-; lia].
    destruct (credit_spec _ _ _ _ _ _ Hc) as (_ & _ & _ & (_ & Ho & _) & _ & Hs).
    destruct mint; [destruct Hs; congruence|].
    destruct (_ || _); [injection H as <- <-; lia|].
    destruct (convert_coin tk s1 b b x) as [s2 r2] eqn:Hcc.
    assert (own_mod s1 = false) by congruence.
    destruct (convert_coin_supply tk _ _ _ _ _ _ H0 Hcc). destruct r2; injection H as <- <-; lia.
  - unfold ibc_refund in H. destruct (N.eqb b MODULE); [injection H as <- <-; lia|].
    destruct (credit s mint esc b x) as [s1|] eqn:Hc; [|injection H as <- <-; lia].
    destruct (credit_spec _ _ _ _ _ _ Hc) as (_ & _ & _ & (_ & Ho & _) & _ & Hs).
    destruct mint; [destruct Hs; congruence|].
    destruct (_ || _); [injection H as <- <-; lia|].
    destruct (convert_coin tk s1 b b x) as [s2 r2] eqn:Hcc.
    assert (own_mod s1 = false) by congruence.
    destruct (convert_coin_supply tk _ _ _ _ _ _ H0 Hcc). destruct r2; injection H as <- <-; lia.
  - unfold batch_tx in H. destruct (negb (has_key a)); [injection H as <- <-; lia|].
    destruct (batch_calls tk (tok s) SCRIPT cs) as [[t1 lg]|]; [|injection H as <- <-; lia].
    pose proof (hook_spec_ext_no_bank tk cf lg Hcf (set_tok s t1) Hown) as Hh.
    destruct (hook tk cf (set_tok s t1) lg) as [s2|]; injection H as <- <-; [|lia].
    destruct Hh as [Hs _]. cbn in Hs. lia.
  - destruct (x <=? 0); [injection H as <- <-; lia|].
    destruct (call_user tk (tok s) THIEF (USpend ow x)) as [[t1 lg]|]; injection H as <- <-; cbn in Hlt; lia.
Qed.

(** ... and the pinned tree violates it (K7) *)
Theorem mint_witnessed_impl_refuted :
  ~ mint_witnessed fakelog_token k7_state (fst (step fakelog_token impl k7_state (Eth 1 UOther))).
Proof.
  intros H. assert (Hlt : supply k7_state < supply (fst (step fakelog_token impl k7_state (Eth 1 UOther)))) by (vm_compute; done).
  destruct (H Hlt) as (b0 & Hb & _). vm_compute in Hb. discriminate.
Qed.

(** the MsgSend wrapper before the fix 1c369cb and a token whose transfer answers false:
    success, nothing moved; now (and in [spec]) the message fails *)
Definition wrap_state : st cham :=
  run cham_token impl [Eth 1 (UMint 1 10); Eth 1 (UMode 2)] (init false ∅ 0 (mkcham 0 ∅ 0 true)).

Theorem wrapper_false_return_refuted :
  let '(s', r) := msg_send cham_token pre_fix wrap_state 1 2 7 in
  r = OK /\ s' = wrap_state /\
  balance_of cham_token (tok s') 2 = Some 0 /\ balance_of cham_token (tok s') 1 = Some 10.
Proof. vm_compute. repeat split. Qed.

Theorem wrapper_false_return_fixed :
  msg_send cham_token impl wrap_state 1 2 7 = (wrap_state, EFalse).
Proof. vm_compute. done. Qed.

(** * non-vacuity: histories in which every kind of conversion succeeds *)
Fixpoint codes {T} (tk : token T) cf (ops : list op) (s : st T) : list N :=
  match ops with [] => [] | o :: r => let '(s', c) := step tk cf s o in c :: codes tk cf r s' end.

Definition coin0 : st ledger := init true {[FAR := 1]} 1 (mkledger ∅ 0 MODULE).
Definition ext0 : st ledger := init false ∅ 0 (mkledger {[1%N := 500]} 500 DEPLOYER).

Lemma coin0_fresh : fresh coin0.
Proof. cbn. repeat split. Qed.
Lemma ext0_fresh : fresh ext0.
Proof. cbn. split; [done|]. vm_compute. discriminate. Qed.

(** coin-origin pair: fund, ConvertCoin, ConvertERC20, MsgSend wrapper, hook,
    holder burn, IBC receive / error-ack / timeout all succeed; then the pair is
    disabled and a conversion is refused *)
Definition coin_history : list op :=
  [Fund 1 100; CC 1 2 40; CE 2 3 15; Send 1 3 50; Eth 3 (UTransfer MODULE 20); Eth 2 (UBurn 5);
   Recv true false 0 2 9; Ack false true 0 3 4; Timeout true 0 3 6; Toggle; CC 1 1 1].

Example coin_history_runs :
  codes HT impl coin_history coin0 = [OK; OK; OK; OK; OK; OK; OK; OK; OK; OK; EDisabled] /\
  observe HT (run HT impl coin_history coin0) OK =
    mkobs OK true false true true [84; 0; 0; 35; 0; 0; 0; 0] 120
          [Some 0; Some 10; Some 29; Some 40; Some 0; Some 0; Some 0; Some 0] (Some 79) true /\
  holder_burns impl coin_history coin0 = 5.
Proof. vm_compute. repeat split. Qed.

(** token-origin pair with an honest token *)
Definition ext_history : list op :=
  [CE 1 2 200; CC 2 3 50; Send 2 3 30; Eth 1 (UTransfer MODULE 100); RawSend 1 2 10;
   Recv false false 1 3 20; Timeout false 1 2 5; CE 1 1 1000].

Example ext_history_runs :
  codes HT impl ext_history ext0 = [OK; OK; OK; OK; OK; OK; OK; EOther] /\
  observe HT (run HT impl ext_history ext0) OK =
    mkobs OK true true true true [0; 65; 10; 0; 0; 0; 0; 0] 75
          [Some 75; Some 200; Some 125; Some 100; Some 0; Some 0; Some 0; Some 0] (Some 500) true.
Proof. vm_compute. repeat split. Qed.

(** one transaction with several transfers to the module (coin-origin): holder 1
    converts 100 coins, gives the script contract 12 tokens; ONE transaction
    transfers 5 and 7 to the module (a call to another pair's token in between):
    12 tokens burned, 12 coins paid, escrow = totalSupply = 88 *)
Definition coin_batch_state : st ledger := run HT impl [Fund 1 100; CC 1 1 100; Eth 1 (UTransfer SCRIPT 12)] coin0.
Definition coin_batch_calls : list bcall := [BXfer MODULE 5 false; BForeign 1 3; BXfer MODULE 7 false].

Example coin_batch_runs :
  InvCoin coin_batch_state /\ hook_active coin_batch_state /\ Forall plain_xfer coin_batch_calls /\
  zsum (mod_amounts coin_batch_calls) = 12 /\
  snd (step HT impl coin_batch_state (Batch 1 coin_batch_calls)) = OK /\
  observe HT coin_batch_state OK =
    mkobs OK true true true true [100; 0; 0; 0; 0; 0; 0; 0] 101
          [Some 0; Some 88; Some 0; Some 0; Some 0; Some 0; Some 0; Some 12] (Some 100) true /\
  observe HT (fst (step HT impl coin_batch_state (Batch 1 coin_batch_calls))) OK =
    mkobs OK true true true true [88; 0; 0; 0; 0; 0; 0; 12] 101
          [Some 0; Some 88; Some 0; Some 0; Some 0; Some 0; Some 0; Some 0] (Some 88) true.
Proof.
  split.
  { pose proof (fresh_inv coin0 coin0_fresh) as [Hi _].
    exact (proj1 (coin_all_histories impl [Fund 1 100; CC 1 1 100; Eth 1 (UTransfer SCRIPT 12)] coin0 Hi)). }
  split; [vm_compute; repeat split|].
  split; [repeat constructor; done|].
  vm_compute. repeat split.
Qed.

(** token-origin, arbitrary calls: a transfer to a third party, a tolerated
    failing transfer (more than the contract holds: no log), two transfers to the
    module: 20 + 6 coins minted to the contract against 26 tokens at the module *)
Definition ext_batch_state : st ledger := run HT impl [Eth 1 (UTransfer SCRIPT 50)] ext0.
Definition ext_batch_calls : list bcall :=
  [BXfer MODULE 20 false; BForeign 2 3; BXfer 3 4 false; BXfer MODULE 100 true; BXfer MODULE 6 false].

Example ext_batch_runs :
  InvExt ext_batch_state /\ hook_active ext_batch_state /\
  snd (step HT impl ext_batch_state (Batch 2 ext_batch_calls)) = OK /\
  observe HT (fst (step HT impl ext_batch_state (Batch 2 ext_batch_calls))) OK =
    mkobs OK true true true true [0; 0; 0; 0; 0; 0; 0; 26] 26
          [Some 26; Some 450; Some 0; Some 4; Some 0; Some 0; Some 0; Some 20] (Some 500) true /\
  (* a transfer that is not tolerated and fails reverts the whole transaction *)
  step HT impl ext_batch_state (Batch 2 [BXfer MODULE 20 false; BXfer MODULE 100 false]) = (ext_batch_state, EVMFail) /\
  (* the plain case of the exactness theorem *)
  Forall plain_xfer [BXfer MODULE 20 false; BXfer MODULE 6 false] /\
  snd (step HT impl ext_batch_state (Batch 2 [BXfer MODULE 20 false; BXfer MODULE 6 false])) = OK.
Proof.
  split.
  { pose proof (fresh_inv ext0 ext0_fresh) as Hi. exact (ext_all_histories impl [Eth 1 (UTransfer SCRIPT 50)] ext0 Hi). }
  split; [vm_compute; repeat split|].
  split; [vm_compute; done|]. split; [vm_compute; done|]. split; [vm_compute; done|].
  split; [repeat constructor; done|]. vm_compute. done.
Qed.

(** a self-destructed token: the next conversion drops the pair and does nothing else *)
Example selfdestructed_pair_dropped :
  let s := run cham_token impl [Eth 1 (UMint 1 100); CE 1 1 60; Eth 2 UKill] (init false ∅ 0 (mkcham 0 ∅ 0 true)) in
  let '(s', r) := step cham_token impl s (CC 1 1 10) in
  r = OK /\ reg s = true /\ reg s' = false /\ supply s' = supply s /\ supply s = 60 /\ cbal s' = cbal s.
Proof. vm_compute. repeat split. Qed.

(** * honest token: both sides of a successful message conversion *)
Theorem honest_convert_coin_both_sides (s : st ledger) a b x s' :
  msg_convert_coin HT s a b x = (s', OK) ->
  0 < x /\ x <= zget (cbal s) a /\ a <> MODULE /\ b <> MODULE /\
  if own_mod s
  then (* escrow + mint *)
       coin_moves s s' (fun c => x * ind MODULE c - x * ind a c) /\ supply s' = supply s /\
       tok_moves s s' (fun c => x * ind b c) /\ ltotal (tok s') = ltotal (tok s) + x
  else (* escrow + release of escrowed tokens + burn of the coins *)
       coin_moves s s' (fun c => - x * ind a c) /\ supply s' = supply s - x /\
       tok_moves s s' (fun c => x * ind b c - x * ind MODULE c) /\ ltotal (tok s') = ltotal (tok s).
Proof.
  unfold msg_convert_coin. destruct (Z.leb_spec x 0); [discriminate|].
  destruct (N.eqb_spec a MODULE); [discriminate|]. intros Hc.
  destruct (h_convert_coin _ _ _ _ _ _ Hc) as [[Hne _]|(_ & Hbl & _ & cb & l1 & lg & Hbs & Hrest)]; [done|].
  apply blocked_false in Hbl. destruct (bank_send_spec _ _ _ _ _ Hbs) as (_ & Hle & Hz).
  do 4 (split; [done|]). unfold coin_moves, tok_moves. destruct (own_mod s).
  - destruct Hrest as [Hm ->]. destruct (std_mint_spec _ _ _ _ _ _ Hm) as (_ & _ & _ & _ & Ht & _ & Hzt & _). sst.
    split; [intros c; rewrite Hz; lia|]. split; [done|]. split; [intros c; rewrite Hzt; lia|done].
  - destruct Hrest as [Htr ->]. destruct (std_transfer_spec _ _ _ _ _ _ Htr) as (_ & _ & _ & _ & Ht & _ & Hzt & _). sst.
    split.
    { intros c. rewrite zget_zset. destruct (decide (MODULE = c)) as [<-|Hn].
      - rewrite Hz, ind_same, (ind_diff a MODULE) by done. lia.
      - rewrite Hz, (ind_diff MODULE c) by done. lia. }
    split; [done|]. split; [intros c; rewrite Hzt; lia|done].
Qed.

Theorem honest_convert_erc20_both_sides (s : st ledger) a b x s' :
  msg_convert_erc20 HT s a b x = (s', OK) ->
  0 < x /\ x <= zget (lbal (tok s)) a /\ a <> MODULE /\ b <> MODULE /\
  if own_mod s
  then (* burn + release of escrowed coins *)
       coin_moves s s' (fun c => x * ind b c - x * ind MODULE c) /\ supply s' = supply s /\
       tok_moves s s' (fun c => - x * ind a c) /\ ltotal (tok s') = ltotal (tok s) - x
  else (* escrow of the tokens + mint of the coins *)
       coin_moves s s' (fun c => x * ind b c) /\ supply s' = supply s + x /\
       tok_moves s s' (fun c => x * ind MODULE c - x * ind a c) /\ ltotal (tok s') = ltotal (tok s).
Proof.
  unfold msg_convert_erc20. destruct (Z.leb_spec x 0); [discriminate|].
  destruct (N.eqb_spec a MODULE); [discriminate|]. intros Hc.
  destruct (h_convert_erc20 _ _ _ _ _ _ Hc) as [[Hne _]|(_ & Hbl & _ & l1 & lg & Hrest)]; [done|].
  apply blocked_false in Hbl. unfold coin_moves, tok_moves. destruct (own_mod s).
  - destruct Hrest as (cb & _ & Hb & Hbs & ->).
    destruct (std_burn_spec _ _ _ _ _ Hb) as (_ & Hx & _ & Ht & _ & Hzt & _).
    destruct (bank_send_spec _ _ _ _ _ Hbs) as (_ & _ & Hz). sst.
    do 4 (split; [done || lia|]). split; [intros c; rewrite Hz; lia|]. split; [done|].
    split; [intros c; rewrite Hzt; lia|done].
  - destruct Hrest as (Htr & _ & _ & ->).
    destruct (std_transfer_spec _ _ _ _ _ _ Htr) as (_ & _ & Hx & _ & Ht & _ & Hzt & _). sst.
    do 4 (split; [done || lia|]). split.
    { intros c. rewrite zget_zset. unfold ind. destruct (decide (b = c)) as [->|]; lia. }
    split; [done|]. split; [intros c; rewrite Hzt; lia|done].
Qed.
