(** Proofs about the ERC20 peg model (property C10). *)
From Coq Require Import ZArith List Lia.
From stdpp Require Import gmap.
From HV Require Import Erc20.PegModel.
Import ListNotations.
Local Open Scope Z_scope.

(** * maps *)
Lemma zget_zset m a v b : zget (zset m a v) b = if decide (a = b) then v else zget m b.
Proof.
  unfold zget, zset. destruct (decide (a = b)) as [->|Hn].
  - by rewrite lookup_insert.
  - by rewrite lookup_insert_ne.
Qed.

Lemma zget_empty a : zget ∅ a = 0.
Proof. unfold zget. by rewrite lookup_empty. Qed.

(** indicator *)
Definition ind (a c : N) : Z := if decide (a = c) then 1 else 0.
Lemma ind_same a : ind a a = 1.
Proof. unfold ind. by rewrite decide_True. Qed.
Lemma ind_diff a c : a <> c -> ind a c = 0.
Proof. intros. unfold ind. by rewrite decide_False. Qed.

Lemma bank_send_spec b f t x b' : bank_send b f t x = Some b' ->
  0 < x /\ x <= zget b f /\ forall c, zget b' c = zget b c - x * ind f c + x * ind t c.
Proof.
  unfold bank_send. destruct (Z.leb_spec x 0); cbn [orb]; [discriminate|].
  destruct (Z.ltb_spec (zget b f) x); [discriminate|]. intros [= <-].
  split; [lia|]. split; [lia|]. intros c. rewrite !zget_zset. unfold ind.
  destruct (decide (t = c)) as [->|]; destruct (decide (f = c)) as [->|]; rewrite ?zget_zset, ?decide_True, ?decide_False by done; lia.
Qed.

Lemma neqb_eq a b : N.eqb a b = true <-> a = b.
Proof. apply N.eqb_eq. Qed.

Ltac sst := cbn [cbal supply tok set_all set_bank set_tok drop_pair reg own_mod en erc20_on hook_on] in *.

(** * what a successful conversion looks like, against ANY token *)
Definition coin_moves {T} (s s' : st T) (f : N -> Z) : Prop :=
  forall c, zget (cbal s') c = zget (cbal s) c + f c.
Definition same_pair {T} (s s' : st T) : Prop :=
  reg s' = reg s /\ own_mod s' = own_mod s /\ en s' = en s /\ erc20_on s' = erc20_on s /\ hook_on s' = hook_on s.
(** the balance the token reports for [a] moved by [d] *)
Definition reported {T} (tk : token T) (t t' : T) (a : N) (d : Z) : Prop :=
  exists b0, balance_of tk t a = Some b0 /\ balance_of tk t' a = Some (b0 + d).

(** coin -> token *)
Definition cc_post {T} (tk : token T) (s s' : st T) (a b : N) (x : Z) : Prop :=
  0 < x /\ x <= zget (cbal s) a /\ minting_enabled s b = OK /\ same_pair s s' /\
  reported tk (tok s) (tok s') b x /\
  if own_mod s
  then coin_moves s s' (fun c => x * ind MODULE c - x * ind a c) /\ supply s' = supply s
  else coin_moves s s' (fun c => - x * ind a c) /\ supply s' = supply s - x.

(** token -> coin *)
Definition ce_post {T} (tk : token T) (s s' : st T) (a b : N) (x : Z) : Prop :=
  minting_enabled s b = OK /\ same_pair s s' /\
  if own_mod s
  then 0 < x /\ x <= zget (cbal s) MODULE /\ reported tk (tok s) (tok s') a (- x) /\
       coin_moves s s' (fun c => x * ind b c - x * ind MODULE c) /\ supply s' = supply s
  else reported tk (tok s) (tok s') MODULE x /\
       coin_moves s s' (fun c => x * ind b c) /\ supply s' = supply s + x /\ supply s' <= MAXU.

Section Any.
  Context {T : Type}.
  Variable tk : token T.

  Lemma minting_enabled_ok (s : st T) b : minting_enabled s b = OK ->
    erc20_on s = true /\ reg s = true /\ en s = true /\ blocked b = false.
  Proof.
    unfold minting_enabled.
    destruct (erc20_on s), (reg s), (en s), (blocked b); cbn; try discriminate. done.
  Qed.

  Lemma approval_check_cases l : approval_check l = OK \/ approval_check l = EApproval \/ approval_check l = EOther.
  Proof. induction l as [|x r IH]; cbn; [auto|]. destruct (lk x); auto. Qed.

  Lemma cc_native_coin_spec (s : st T) a b x s' r : own_mod s = true -> minting_enabled s b = OK ->
    cc_native_coin tk s a b x = (s', r) -> (r <> OK /\ s' = s) \/ (r = OK /\ cc_post tk s s' a b x).
  Proof.
    intros Hown Hme. unfold cc_native_coin.
    destruct (balance_of tk (tok s) b) as [b0|] eqn:Hb0; [|intros [= <- <-]; left; done].
    destruct (bank_send (cbal s) a MODULE x) as [cb|] eqn:Hbs; [|intros [= <- <-]; left; done].
    destruct (call_mint tk (tok s) b x) as [[t1 lg]|] eqn:Hm; [|intros [= <- <-]; left; done].
    destruct (balance_of tk t1 b) as [b1|] eqn:Hb1; [|intros [= <- <-]; left; done].
    destruct (Z.eqb_spec b1 (b0 + x)) as [->|]; cbn [negb]; [|intros [= <- <-]; left; done].
    intros [= <- <-]. right. split; [done|].
    destruct (bank_send_spec _ _ _ _ _ Hbs) as (Hx & Hle & Hz).
    unfold cc_post. rewrite Hown. unfold same_pair, reported, coin_moves. sst.
    split; [done|]. split; [done|]. split; [done|]. split; [done|].
    split; [exists b0; done|]. split; [|done].
    intros c. rewrite Hz. lia.
  Qed.

  Lemma cc_native_erc20_spec (s : st T) a b x s' r : own_mod s = false -> minting_enabled s b = OK ->
    cc_native_erc20 tk s a b x = (s', r) -> (r <> OK /\ s' = s) \/ (r = OK /\ cc_post tk s s' a b x).
  Proof.
    intros Hown Hme. unfold cc_native_erc20.
    destruct (balance_of tk (tok s) b) as [b0|] eqn:Hb0; [|intros [= <- <-]; left; done].
    destruct (bank_send (cbal s) a MODULE x) as [cb|] eqn:Hbs; [|intros [= <- <-]; left; done].
    destruct (call_transfer tk (tok s) MODULE b x) as [[[t1 ret] lg]|] eqn:Hm; [|intros [= <- <-]; left; done].
    destruct ret as [[|]|]; [|intros [= <- <-]; left; done|intros [= <- <-]; left; done].
    destruct (balance_of tk t1 b) as [b1|] eqn:Hb1; [|intros [= <- <-]; left; done].
    destruct (Z.eqb_spec b1 (b0 + x)) as [->|]; cbn [negb]; [|intros [= <- <-]; left; done].
    destruct (approval_check_cases lg) as [Ha|[Ha|Ha]]; rewrite Ha; [|intros [= <- <-]; left; done..].
    intros [= <- <-]. right. split; [done|].
    destruct (bank_send_spec _ _ _ _ _ Hbs) as (Hx & Hle & Hz).
    unfold cc_post. rewrite Hown. unfold same_pair, reported, coin_moves. sst.
    split; [done|]. split; [done|]. split; [done|]. split; [done|].
    split; [exists b0; done|]. split; [|done].
    intros c. rewrite zget_zset. destruct (decide (MODULE = c)) as [<-|Hn].
    - rewrite Hz. rewrite ind_same. lia.
    - rewrite Hz. rewrite (ind_diff MODULE c) by done. lia.
  Qed.

  Lemma ce_native_coin_spec (s : st T) a b x s' r : own_mod s = true -> minting_enabled s b = OK ->
    ce_native_coin tk s a b x = (s', r) -> (r <> OK /\ s' = s) \/ (r = OK /\ ce_post tk s s' a b x).
  Proof.
    intros Hown Hme. unfold ce_native_coin.
    destruct (minting_enabled_ok _ _ Hme) as (_ & _ & _ & Hbl). rewrite Hbl.
    destruct (balance_of tk (tok s) a) as [b0|] eqn:Hb0; [|intros [= <- <-]; left; done].
    destruct (call_burn_coins tk (tok s) a x) as [[t1 lg]|] eqn:Hm; [|intros [= <- <-]; left; done].
    destruct (bank_send (cbal s) MODULE b x) as [cb|] eqn:Hbs; [|intros [= <- <-]; left; done].
    destruct (balance_of tk t1 a) as [b1|] eqn:Hb1; [|intros [= <- <-]; left; done].
    destruct (Z.eqb_spec b1 (b0 - x)) as [->|]; cbn [negb]; [|intros [= <- <-]; left; done].
    intros [= <- <-]. right. split; [done|].
    destruct (bank_send_spec _ _ _ _ _ Hbs) as (Hx & Hle & Hz).
    unfold ce_post. rewrite Hown. unfold same_pair, reported, coin_moves. sst.
    split; [done|]. split; [done|]. split; [done|]. split; [done|].
    split; [exists b0; split; [done|]; rewrite Hb1; f_equal; lia|]. split; [|done].
    intros c. rewrite Hz. lia.
  Qed.

  Lemma ce_native_token_spec (s : st T) a b x s' r : own_mod s = false -> minting_enabled s b = OK ->
    ce_native_token tk s a b x = (s', r) -> (r <> OK /\ s' = s) \/ (r = OK /\ ce_post tk s s' a b x).
  Proof.
    intros Hown Hme. unfold ce_native_token.
    destruct (balance_of tk (tok s) MODULE) as [b0|] eqn:Hb0; [|intros [= <- <-]; left; done].
    destruct (call_transfer tk (tok s) a MODULE x) as [[[t1 ret] lg]|] eqn:Hm; [|intros [= <- <-]; left; done].
    destruct ret as [[|]|]; [|intros [= <- <-]; left; done|intros [= <- <-]; left; done].
    destruct (balance_of tk t1 MODULE) as [b1|] eqn:Hb1; [|intros [= <- <-]; left; done].
    destruct (Z.eqb_spec b1 (b0 + x)) as [->|]; cbn [negb]; [|intros [= <- <-]; left; done].
    destruct (Z.ltb_spec MAXU (supply s + x)); [intros [= <- <-]; left; done|].
    destruct (approval_check_cases lg) as [Ha|[Ha|Ha]]; rewrite Ha; [|intros [= <- <-]; left; done..].
    intros [= <- <-]. right. split; [done|].
    unfold ce_post. rewrite Hown. unfold same_pair, reported, coin_moves. sst.
    split; [done|]. split; [done|].
    split; [exists b0; done|]. split; [|split; [done|lia]].
    intros c. rewrite zget_zset. unfold ind. destruct (decide (b = c)) as [->|]; lia.
  Qed.

  (** keeper-level ConvertCoin / ConvertERC20: failure without effect, or the
      pair of a self-destructed contract is dropped, or an exact conversion *)
  Definition conv_outcome (post : Prop) (s s' : st T) (r : N) : Prop :=
    (r <> OK /\ s' = s) \/
    (r = OK /\ is_contract tk (tok s) = false /\ s' = drop_pair s) \/
    (r = OK /\ is_contract tk (tok s) = true /\ post).

  Lemma convert_coin_spec (s : st T) a b x s' r :
    convert_coin tk s a b x = (s', r) -> conv_outcome (cc_post tk s s' a b x) s s' r.
  Proof.
    unfold convert_coin, conv_outcome.
    destruct (minting_enabled s b) eqn:Hme.
    2:{ intros [= <- <-]. left. done. }
    destruct (is_contract tk (tok s)) eqn:Hc; cbn [negb].
    2:{ intros [= <- <-]. right. left. done. }
    destruct (own_mod s) eqn:Hown; intros H.
    - destruct (cc_native_coin_spec _ _ _ _ _ _ Hown Hme H) as [?|[? ?]]; [left; done|right; right; done].
    - destruct (cc_native_erc20_spec _ _ _ _ _ _ Hown Hme H) as [?|[? ?]]; [left; done|right; right; done].
  Qed.

  Lemma convert_erc20_spec (s : st T) a b x s' r :
    convert_erc20 tk s a b x = (s', r) -> conv_outcome (ce_post tk s s' a b x) s s' r.
  Proof.
    unfold convert_erc20, conv_outcome.
    destruct (minting_enabled s b) eqn:Hme.
    2:{ intros [= <- <-]. left. done. }
    destruct (is_contract tk (tok s)) eqn:Hc; cbn [negb].
    2:{ intros [= <- <-]. right. left. done. }
    destruct (own_mod s) eqn:Hown; intros H.
    - destruct (ce_native_coin_spec _ _ _ _ _ _ Hown Hme H) as [?|[? ?]]; [left; done|right; right; done].
    - destruct (ce_native_token_spec _ _ _ _ _ _ Hown Hme H) as [?|[? ?]]; [left; done|right; right; done].
  Qed.

  (** the two messages *)
  Theorem msg_convert_coin_exact_or_error (s : st T) a b x s' r :
    msg_convert_coin tk s a b x = (s', r) -> conv_outcome (a <> MODULE /\ cc_post tk s s' a b x) s s' r.
  Proof.
    unfold msg_convert_coin. destruct (x <=? 0); [intros [= <- <-]; left; done|].
    destruct (N.eqb_spec a MODULE); [intros [= <- <-]; left; done|].
    intros H. destruct (convert_coin_spec _ _ _ _ _ _ H) as [?|[?|(? & ? & ?)]];
      [left; done|right; left; done|right; right; done].
  Qed.

  Theorem msg_convert_erc20_exact_or_error (s : st T) a b x s' r :
    msg_convert_erc20 tk s a b x = (s', r) -> conv_outcome (0 < x /\ a <> MODULE /\ ce_post tk s s' a b x) s s' r.
  Proof.
    unfold msg_convert_erc20. destruct (Z.leb_spec x 0); [intros [= <- <-]; left; done|].
    destruct (N.eqb_spec a MODULE); [intros [= <- <-]; left; done|].
    intros H0. destruct (convert_erc20_spec _ _ _ _ _ _ H0) as [?|[?|(? & ? & ?)]];
      [left; done|right; left; done|right; right; done].
  Qed.

  (** the bank MsgSend wrapper: everything spendable is converted exactly, then
      the token is asked to move [x] and must report it at the recipient *)
  Definition send_post (s s' : st T) (a b : N) (x : Z) : Prop :=
    0 < x /\ a <> MODULE /\ blocked b = false /\
    if erc20_on s && reg s && en s then
      exists s1,
        ((zget (cbal s) a = 0 /\ s1 = s) \/
         (zget (cbal s) a <> 0 /\ is_contract tk (tok s) = false /\ s1 = drop_pair s) \/
         (0 < zget (cbal s) a /\ is_contract tk (tok s) = true /\ cc_post tk s s1 a a (zget (cbal s) a))) /\
        cbal s' = cbal s1 /\ supply s' = supply s1 /\ same_pair s1 s' /\ reported tk (tok s1) (tok s') b x
    else tok s' = tok s /\ same_pair s s' /\ supply s' = supply s /\
         coin_moves s s' (fun c => x * ind b c - x * ind a c).

  Theorem msg_send_exact_or_error cf (s : st T) a b x s' r : wrap_false_ok cf = false ->
    msg_send tk cf s a b x = (s', r) -> (r <> OK /\ s' = s) \/ (r = OK /\ send_post s s' a b x).
  Proof.
    intros Hcf. unfold msg_send.
    destruct (Z.leb_spec x 0); [intros [= <- <-]; left; done|].
    destruct (N.eqb_spec a MODULE); [intros [= <- <-]; left; done|].
    destruct (blocked b) eqn:Hbl; [intros [= <- <-]; left; done|].
    unfold send_post. rewrite Hbl.
    destruct (erc20_on s && reg s && en s) eqn:Hconv; cbn [negb].
    - destruct (balance_of tk (tok s) a) as [eb|] eqn:Heb; [|intros [= <- <-]; left; done].
      destruct (MAXU <? zget (cbal s) a + eb); [intros [= <- <-]; left; done|].
      destruct (zget (cbal s) a + eb <? x); [intros [= <- <-]; left; done|].
      assert (Hinner : exists s1 r1,
        (if zget (cbal s) a =? 0 then (s, OK) else convert_coin tk s a a (zget (cbal s) a)) = (s1, r1) /\
        (r1 <> OK \/ (r1 = OK /\
          ((zget (cbal s) a = 0 /\ s1 = s) \/
           (zget (cbal s) a <> 0 /\ is_contract tk (tok s) = false /\ s1 = drop_pair s) \/
           (0 < zget (cbal s) a /\ is_contract tk (tok s) = true /\ cc_post tk s s1 a a (zget (cbal s) a)))))).
      { destruct (Z.eqb_spec (zget (cbal s) a) 0) as [Hz|Hz].
        - exists s, OK. split; [done|]. right. split; [done|]. left. done.
        - destruct (convert_coin tk s a a (zget (cbal s) a)) as [s1 r1] eqn:Hcc. exists s1, r1. split; [done|].
          destruct (convert_coin_spec _ _ _ _ _ _ Hcc) as [[Hr _]|[(Hr & Hc & Hs)|(Hr & Hc & Hp)]].
          + left. done.
          + right. split; [done|]. right. left.
            done.
          + right. split; [done|]. right. right. split; [|done]. destruct Hp as (Hpos & _). done. }
      destruct Hinner as (s1 & r1 & -> & Hr1).
      destruct Hr1 as [Hne|[-> Hs1]].
      { destruct r1; [done|]. intros [= <- <-]. left. done. }
      cbn [OK].
      destruct (balance_of tk (tok s1) b) as [b0|] eqn:Hb0; [|intros [= <- <-]; left; done].
      destruct (call_transfer tk (tok s1) a b x) as [[[t2 ret] lg]|] eqn:Htr; [|intros [= <- <-]; left; done].
      destruct ret as [[|]|]; [|rewrite Hcf; intros [= <- <-]; left; done|intros [= <- <-]; left; done].
      destruct (balance_of tk t2 b) as [b1|] eqn:Hb1; [|intros [= <- <-]; left; done].
      destruct (Z.eqb_spec b1 (b0 + x)) as [->|]; cbn [negb]; [|intros [= <- <-]; left; done].
      destruct (approval_check_cases lg) as [Ha|[Ha|Ha]]; rewrite Ha; [|intros [= <- <-]; left; done..].
      intros [= <- <-]. right. split; [done|]. split; [done|]. split; [done|]. split; [done|].
      exists s1. split; [done|]. unfold same_pair, reported. sst. do 3 (split; [done|]). exists b0. done.
    - destruct (bank_send (cbal s) a b x) as [cb|] eqn:Hbs; [|intros [= <- <-]; left; done].
      intros [= <- <-]. right. split; [done|]. split; [done|]. split; [done|]. split; [done|].
      destruct (bank_send_spec _ _ _ _ _ Hbs) as (_ & _ & Hz).
      unfold same_pair, coin_moves. sst. do 3 (split; [done|]). intros c. rewrite Hz. lia.
  Qed.
End Any.

(** * the honest token *)
Definition msum (m : gmap N Z) : Z := map_fold (fun _ v acc => v + acc) 0 m.

Lemma msum_empty : msum ∅ = 0.
Proof. unfold msum. by rewrite map_fold_empty. Qed.

Lemma msum_insert_fresh m a v : m !! a = None -> msum (<[a := v]> m) = v + msum m.
Proof. intros H. unfold msum. rewrite map_fold_insert_L; [done| |done]. intros. lia. Qed.

Lemma msum_zset m a v : msum (zset m a v) = msum m - zget m a + v.
Proof.
  unfold zset, zget. destruct (m !! a) as [w|] eqn:E; cbn.
  - rewrite <- (insert_delete_insert m a v).
    rewrite msum_insert_fresh by apply lookup_delete.
    rewrite <- (insert_delete m a w) at 2 by done.
    rewrite msum_insert_fresh by apply lookup_delete. lia.
  - rewrite msum_insert_fresh by done. lia.
Qed.

Lemma msum_nonneg m : (forall c, 0 <= zget m c) -> 0 <= msum m.
Proof.
  induction m as [|i x m Hi IH] using map_ind; intros H.
  - rewrite msum_empty. lia.
  - rewrite msum_insert_fresh by done.
    assert (0 <= x). { specialize (H i). unfold zget in H. rewrite lookup_insert in H. done. }
    assert (0 <= msum m).
    { apply IH. intros c. destruct (decide (i = c)) as [<-|Hn].
      - unfold zget. rewrite Hi. done.
      - specialize (H c). unfold zget in *. rewrite lookup_insert_ne in H by done. done. }
    lia.
Qed.

Lemma msum_ge m a : (forall c, 0 <= zget m c) -> zget m a <= msum m.
Proof.
  intros H. assert (0 <= msum (zset m a 0)).
  { apply msum_nonneg. intros c. rewrite zget_zset. destruct (decide (a = c)); [lia|apply H]. }
  rewrite msum_zset in H0. lia.
Qed.

(** well-formed ledger: no negative balance, balances add up to the total supply *)
Definition wfl (l : ledger) : Prop := (forall a, 0 <= zget (lbal l) a) /\ msum (lbal l) = ltotal l.

Lemma std_transfer_spec l f t x l' lg : std_transfer l f t x = Some (l', lg) ->
  f <> ZERO /\ t <> ZERO /\ 0 <= x <= zget (lbal l) f /\ lg = [tlog f t x] /\
  ltotal l' = ltotal l /\ lminter l' = lminter l /\
  (forall c, zget (lbal l') c = zget (lbal l) c - x * ind f c + x * ind t c) /\
  (wfl l -> wfl l').
Proof.
  unfold std_transfer. destruct (N.eqb_spec f ZERO); cbn [orb]; [discriminate|].
  destruct (N.eqb_spec t ZERO); [discriminate|].
  destruct (Z.ltb_spec x 0); cbn [orb]; [discriminate|].
  destruct (Z.ltb_spec (zget (lbal l) f) x); [discriminate|]. intros [= <- <-]. cbn.
  assert (Hz : forall c, zget (zset (zset (lbal l) f (zget (lbal l) f - x)) t
                 (zget (zset (lbal l) f (zget (lbal l) f - x)) t + x)) c
               = zget (lbal l) c - x * ind f c + x * ind t c).
  { intros c. rewrite !zget_zset. unfold ind.
    destruct (decide (t = c)) as [->|]; destruct (decide (f = c)) as [->|];
      rewrite ?decide_True, ?decide_False by done; lia. }
  do 6 (split; [done || lia|]). split; [exact Hz|].
  intros [Hnn Hs]. split; cbn.
  - intros c. rewrite Hz. specialize (Hnn c). unfold ind.
    destruct (decide (f = c)) as [->|]; destruct (decide (t = c)); lia.
  - rewrite !msum_zset, zget_zset. destruct (decide (f = t)); lia.
Qed.

Lemma std_mint_spec l caller t x l' lg : std_mint l caller t x = Some (l', lg) ->
  caller = lminter l /\ t <> ZERO /\ 0 <= x /\ lg = [tlog ZERO t x] /\
  ltotal l' = ltotal l + x /\ lminter l' = lminter l /\
  (forall c, zget (lbal l') c = zget (lbal l) c + x * ind t c) /\
  (wfl l -> wfl l').
Proof.
  unfold std_mint. destruct (N.eqb_spec caller (lminter l)); cbn [negb]; [|discriminate].
  destruct (N.eqb_spec t ZERO); [discriminate|].
  destruct (Z.ltb_spec x 0); cbn [orb]; [discriminate|].
  destruct (MAXU <? ltotal l + x); [discriminate|]. intros [= <- <-]. cbn.
  assert (Hz : forall c, zget (zset (lbal l) t (zget (lbal l) t + x)) c = zget (lbal l) c + x * ind t c).
  { intros c. rewrite zget_zset. unfold ind. destruct (decide (t = c)) as [->|]; lia. }
  do 6 (split; [done|]). split; [exact Hz|].
  intros [Hnn Hs]. split; cbn.
  - intros c. rewrite Hz. specialize (Hnn c). unfold ind. destruct (decide (t = c)); lia.
  - rewrite msum_zset. lia.
Qed.

Lemma std_burn_spec l f x l' lg : std_burn l f x = Some (l', lg) ->
  f <> ZERO /\ 0 <= x <= zget (lbal l) f /\ lg = [tlog f ZERO x] /\
  ltotal l' = ltotal l - x /\ lminter l' = lminter l /\
  (forall c, zget (lbal l') c = zget (lbal l) c - x * ind f c) /\
  (wfl l -> wfl l').
Proof.
  unfold std_burn. destruct (N.eqb_spec f ZERO); [discriminate|].
  destruct (Z.ltb_spec x 0); cbn [orb]; [discriminate|].
  destruct (Z.ltb_spec (zget (lbal l) f) x); [discriminate|]. intros [= <- <-]. cbn.
  assert (Hz : forall c, zget (zset (lbal l) f (zget (lbal l) f - x)) c = zget (lbal l) c - x * ind f c).
  { intros c. rewrite zget_zset. unfold ind. destruct (decide (f = c)) as [->|]; lia. }
  do 5 (split; [done || lia|]). split; [exact Hz|].
  intros [Hnn Hs]. split; cbn.
  - intros c. rewrite Hz. specialize (Hnn c). unfold ind. destruct (decide (f = c)) as [->|]; lia.
  - rewrite msum_zset. lia.
Qed.

Notation HT := honest_token.
Ltac hsimp := cbn [honest_token is_contract balance_of total_supply call_mint call_burn_coins call_burn call_transfer call_user with_ret] in *.

Lemma h_convert_coin (s : st ledger) a b x s' r : convert_coin HT s a b x = (s', r) ->
  (r <> OK /\ s' = s) \/
  (r = OK /\ blocked b = false /\ reg s = true /\ exists cb l1 lg, bank_send (cbal s) a MODULE x = Some cb /\
     if own_mod s
     then std_mint (tok s) MODULE b x = Some (l1, lg) /\ s' = set_all s cb (supply s) l1
     else std_transfer (tok s) MODULE b x = Some (l1, lg) /\
          s' = set_all s (zset cb MODULE (zget cb MODULE - x)) (supply s - x) l1).
Proof.
  unfold convert_coin. destruct (minting_enabled s b) eqn:Hme; [|intros [= <- <-]; left; done].
  destruct (minting_enabled_ok _ _ Hme) as (_ & Hreg & _ & Hbl). hsimp. cbn [negb].
  destruct (own_mod s) eqn:Hown.
  - unfold cc_native_coin. hsimp.
    destruct (bank_send (cbal s) a MODULE x) as [cb|] eqn:Hbs; [|intros [= <- <-]; left; done].
    destruct (std_mint (tok s) MODULE b x) as [[l1 lg]|] eqn:Hm; [|intros [= <- <-]; left; done].
    destruct (negb _); intros [= <- <-]; [left; done|]. right. do 3 (split; [done|]). exists cb, l1, lg. done.
  - unfold cc_native_erc20. hsimp.
    destruct (bank_send (cbal s) a MODULE x) as [cb|] eqn:Hbs; [|intros [= <- <-]; left; done].
    destruct (std_transfer (tok s) MODULE b x) as [[l1 lg]|] eqn:Hm; cbn [with_ret]; [|intros [= <- <-]; left; done].
    destruct (negb _); [intros [= <- <-]; left; done|].
    destruct (approval_check_cases lg) as [Ha|[Ha|Ha]]; rewrite Ha; intros [= <- <-]; [|left; done..].
    right. do 3 (split; [done|]). exists cb, l1, lg. done.
Qed.

Lemma h_convert_erc20 (s : st ledger) a b x s' r : convert_erc20 HT s a b x = (s', r) ->
  (r <> OK /\ s' = s) \/
  (r = OK /\ blocked b = false /\ reg s = true /\ exists l1 lg,
     if own_mod s
     then exists cb, lminter (tok s) = MODULE /\ std_burn (tok s) a x = Some (l1, lg) /\
          bank_send (cbal s) MODULE b x = Some cb /\ s' = set_all s cb (supply s) l1
     else std_transfer (tok s) a MODULE x = Some (l1, lg) /\
          zget (lbal l1) MODULE = zget (lbal (tok s)) MODULE + x /\ supply s + x <= MAXU /\
          s' = set_all s (zset (cbal s) b (zget (cbal s) b + x)) (supply s + x) l1).
Proof.
  unfold convert_erc20. destruct (minting_enabled s b) eqn:Hme; [|intros [= <- <-]; left; done].
  destruct (minting_enabled_ok _ _ Hme) as (_ & Hreg & _ & Hbl). hsimp. cbn [negb].
  destruct (own_mod s) eqn:Hown.
  - unfold ce_native_coin. hsimp. rewrite Hbl.
    destruct (N.eqb_spec MODULE (lminter (tok s))) as [Hmin|]; [|intros [= <- <-]; left; done].
    destruct (std_burn (tok s) a x) as [[l1 lg]|] eqn:Hm; [|intros [= <- <-]; left; done].
    destruct (bank_send (cbal s) MODULE b x) as [cb|] eqn:Hbs; [|intros [= <- <-]; left; done].
    destruct (negb _); intros [= <- <-]; [left; done|]. right. do 3 (split; [done|]). exists l1, lg, cb. done.
  - unfold ce_native_token. hsimp.
    destruct (std_transfer (tok s) a MODULE x) as [[l1 lg]|] eqn:Hm; cbn [with_ret]; [|intros [= <- <-]; left; done].
    destruct (Z.eqb_spec (zget (lbal l1) MODULE) (zget (lbal (tok s)) MODULE + x)) as [He|]; cbn [negb];
      [|intros [= <- <-]; left; done].
    destruct (Z.ltb_spec MAXU (supply s + x)); [intros [= <- <-]; left; done|].
    destruct (approval_check_cases lg) as [Ha|[Ha|Ha]]; rewrite Ha; intros [= <- <-]; [|left; done..].
    right. do 3 (split; [done|]). exists l1, lg. done.
Qed.

(** ** coin-origin pair with the module's own (honest) contract *)
Definition gap (s : st ledger) : Z := zget (cbal s) MODULE - ltotal (tok s).

Record InvCoin (s : st ledger) : Prop := {
  ic_own : own_mod s = true;
  ic_minter : lminter (tok s) = MODULE;
  ic_wfl : wfl (tok s);
  ic_back : 0 <= gap s
}.

(** tokens that holders destroyed themselves: the only way the escrow can exceed the supply *)
Definition burn_of (o : op) (r : N) : Z :=
  match o with Eth _ (UBurn x) => if N.eqb r OK then x else 0 | _ => 0 end.

Lemma has_key_not_module a : has_key a = true -> a <> MODULE.
Proof. intros H ->. discriminate. Qed.

Lemma blocked_false a : blocked a = false -> a <> MODULE.
Proof. unfold blocked. intros H ->. discriminate. Qed.

Lemma coin_convert_coin (s : st ledger) a b x s' r : a <> MODULE -> InvCoin s ->
  convert_coin HT s a b x = (s', r) -> InvCoin s' /\ gap s' = gap s.
Proof.
  intros Ha [Hown Hmin Hwf Hback] H.
  destruct (h_convert_coin _ _ _ _ _ _ H) as [[_ ->]|(_ & _ & _ & cb & l1 & lg & Hbs & Hrest)]; [split; [done|lia]|].
  rewrite Hown in Hrest. destruct Hrest as [Hm ->].
  destruct (std_mint_spec _ _ _ _ _ _ Hm) as (_ & _ & _ & _ & Ht & Hmi & _ & Hw).
  destruct (bank_send_spec _ _ _ _ _ Hbs) as (_ & _ & Hz).
  assert (Hg : gap (set_all s cb (supply s) l1) = gap s).
  { unfold gap. sst. rewrite Hz, Ht, ind_same, (ind_diff a MODULE) by done. lia. }
  split; [|done]. split; sst; [done|congruence|auto|lia].
Qed.

Lemma coin_convert_erc20 (s : st ledger) a b x s' r : InvCoin s ->
  convert_erc20 HT s a b x = (s', r) -> InvCoin s' /\ gap s' = gap s.
Proof.
  intros [Hown Hmin Hwf Hback] H.
  destruct (h_convert_erc20 _ _ _ _ _ _ H) as [[_ ->]|(_ & Hbl & _ & l1 & lg & Hrest)]; [split; [done|lia]|].
  rewrite Hown in Hrest. destruct Hrest as (cb & _ & Hb & Hbs & ->).
  destruct (std_burn_spec _ _ _ _ _ Hb) as (_ & _ & _ & Ht & Hmi & _ & Hw).
  destruct (bank_send_spec _ _ _ _ _ Hbs) as (_ & _ & Hz).
  apply blocked_false in Hbl.
  assert (Hg : gap (set_all s cb (supply s) l1) = gap s).
  { unfold gap. sst. rewrite Hz, Ht, ind_same, (ind_diff b MODULE) by done. lia. }
  split; [|done]. split; sst; [done|congruence|auto|lia].
Qed.

Lemma credit_spec {T} (s : st T) mint esc to x s1 : credit s mint esc to x = Some s1 ->
  to <> MODULE /\ 0 < x /\ tok s1 = tok s /\ same_pair s s1 /\ zget (cbal s1) MODULE = zget (cbal s) MODULE /\
  (if mint then own_mod s = true /\ supply s1 = supply s + x else supply s1 = supply s).
Proof.
  unfold credit. destruct (Z.leb_spec x 0); cbn [orb]; [discriminate|].
  destruct (N.eqb_spec to MODULE); cbn [orb]; [discriminate|].
  destruct mint; cbn [negb andb orb].
  - destruct (own_mod s); cbn [negb]; [|discriminate].
    destruct (MAXU <? supply s + x); [discriminate|]. intros [= <-]. unfold same_pair. sst.
    do 4 (split; [done|]). rewrite zget_zset, decide_False by done. done.
  - destruct (N.eqb_spec esc MODULE); [discriminate|].
    destruct (bank_send (cbal s) esc to x) as [cb|] eqn:Hbs; [|discriminate]. intros [= <-].
    destruct (bank_send_spec _ _ _ _ _ Hbs) as (_ & _ & Hz). unfold same_pair. sst.
    do 4 (split; [done|]). rewrite Hz, !ind_diff by done. split; [lia|done].
Qed.

Lemma coin_credit (s : st ledger) mint esc to x s1 : InvCoin s -> credit s mint esc to x = Some s1 ->
  InvCoin s1 /\ gap s1 = gap s.
Proof.
  intros [Hown Hmin Hwf Hback] H. destruct (credit_spec _ _ _ _ _ _ H) as (_ & _ & Ht & (Hr & Ho & _) & Hm & _).
  assert (gap s1 = gap s) by (unfold gap; rewrite Hm, Ht; done).
  split; [|done]. split; [congruence|rewrite Ht; done|rewrite Ht; done|lia].
Qed.

Section HonestCoin.
  Variable cf : cfg.

  Lemma coin_eth (s : st ledger) a c s' r : InvCoin s ->
    eth_tx HT cf s a c = (s', r) -> InvCoin s' /\ gap s' = gap s + burn_of (Eth a c) r.
  Proof.
    intros Hinv. pose proof Hinv as [Hown Hmin Hwf Hback]. unfold eth_tx.
    destruct (has_key a) eqn:Hk; cbn [negb]; [|intros [= <- <-]; split; [done|destruct c; cbn; lia]].
    apply has_key_not_module in Hk. hsimp.
    destruct c as [to x|x|to x|m| |]; cbn [honest_user];
      try (intros [= <- <-]; split; [done|cbn; lia]).
    - (* transfer *)
      destruct (std_transfer (tok s) a to x) as [[l1 lg]|] eqn:Htr; [|intros [= <- <-]; split; [done|cbn; lia]].
      destruct (std_transfer_spec _ _ _ _ _ _ Htr) as (_ & _ & Hx & -> & Ht & Hmi & Hz & Hw).
      assert (Hinv1 : InvCoin (set_tok s l1) /\ gap (set_tok s l1) = gap s).
      { split; [split; sst; [done|congruence|auto|unfold gap in *; sst; lia]|unfold gap; sst; lia]. }
      cbn [burn_of]. unfold hook. sst.
      destruct (erc20_on s && hook_on s); cbn [negb fold_left].
      2:{ intros [= <- <-]. destruct Hinv1. split; [done|lia]. }
      unfold hook_log. cbn [tlog lk lamt lto lfrom]. sst. rewrite Hown.
      destruct (Z.leb_spec x 0). { intros [= <- <-]. destruct Hinv1. split; [done|lia]. }
      destruct (reg s); cbn [negb]. 2:{ intros [= <- <-]. destruct Hinv1. split; [done|lia]. }
      destruct (N.eqb_spec to MODULE) as [->|]; cbn [negb]. 2:{ intros [= <- <-]. destruct Hinv1. split; [done|lia]. }
      destruct (en s); cbn [negb]. 2:{ intros [= <- <-]. destruct Hinv1. split; [done|lia]. }
      hsimp.
      destruct (std_burn l1 MODULE x) as [[l2 lg2]|] eqn:Hb. 2:{ intros [= <- <-]. destruct Hinv1. split; [done|lia]. }
      destruct (std_burn_spec _ _ _ _ _ Hb) as (_ & Hx2 & _ & Ht2 & Hmi2 & _ & Hw2).
      unfold blocked. destruct (N.eqb_spec a MODULE); [done|].
      assert (Hle : x <= zget (cbal s) MODULE).
      { destruct (Hw Hwf) as [Hnn1 Hs1]. pose proof (msum_ge (lbal l1) MODULE Hnn1). unfold gap in Hback. lia. }
      unfold bank_send. destruct (Z.leb_spec x 0); [lia|]. destruct (Z.ltb_spec (zget (cbal s) MODULE) x); [lia|].
      cbn [orb]. intros [= <- <-].
      match goal with |- InvCoin ?S /\ _ => assert (Hg : gap S = gap s) end.
      { unfold gap. sst. rewrite !zget_zset. rewrite (decide_False (P := a = MODULE)) by done.
        rewrite decide_True by done. lia. }
      split; [|lia]. split; sst; [done|congruence|auto|lia].
    - (* burn *)
      destruct (std_burn (tok s) a x) as [[l1 lg]|] eqn:Hb; [|intros [= <- <-]; split; [done|cbn; lia]].
      destruct (std_burn_spec _ _ _ _ _ Hb) as (_ & Hx & -> & Ht & Hmi & _ & Hw).
      assert (Hinv1 : InvCoin (set_tok s l1) /\ gap (set_tok s l1) = gap s + x).
      { split; [split; sst; [done|congruence|auto|unfold gap in *; sst; lia]|unfold gap; sst; lia]. }
      unfold hook. sst. destruct (erc20_on s && hook_on s); cbn [negb fold_left];
        [unfold hook_log; cbn [tlog lk lamt lto lfrom]; sst;
         destruct (x <=? 0); [|destruct (reg s); cbn [negb]; [change (N.eqb ZERO MODULE) with false; cbn [negb]|]]|];
        intros [= <- <-]; destruct Hinv1; (split; [done|cbn; lia]).
    - (* mint: only the module holds the minter role *)
      unfold std_mint. rewrite Hmin. destruct (N.eqb_spec a MODULE); [done|]. cbn [negb].
      intros [= <- <-]. split; [done|cbn; lia].
  Qed.

  Lemma coin_send (s : st ledger) a b x s' r : InvCoin s ->
    msg_send HT cf s a b x = (s', r) -> InvCoin s' /\ gap s' = gap s.
  Proof.
    intros Hinv. pose proof Hinv as [Hown Hmin Hwf Hback]. unfold msg_send.
    destruct (x <=? 0); [intros [= <- <-]; split; [done|lia]|].
    destruct (N.eqb_spec a MODULE); [intros [= <- <-]; split; [done|lia]|].
    destruct (blocked b) eqn:Hbl; [intros [= <- <-]; split; [done|lia]|]. apply blocked_false in Hbl.
    destruct (erc20_on s && reg s && en s); cbn [negb].
    - hsimp. destruct (MAXU <? _); [intros [= <- <-]; split; [done|lia]|].
      destruct (_ <? x); [intros [= <- <-]; split; [done|lia]|].
      assert (Hin : exists s1 r1, (if zget (cbal s) a =? 0 then (s, OK) else convert_coin HT s a a (zget (cbal s) a)) = (s1, r1)
                                  /\ InvCoin s1 /\ gap s1 = gap s).
      { destruct (zget (cbal s) a =? 0); [exists s, OK; done|].
        destruct (convert_coin HT s a a (zget (cbal s) a)) as [s1 r1] eqn:Hcc. exists s1, r1. split; [done|].
        exact (coin_convert_coin _ _ _ _ _ _ n Hinv Hcc). }
      destruct Hin as (s1 & r1 & -> & Hinv1 & Hg1).
      destruct r1; [|intros [= <- <-]; split; [done|lia]].
      destruct (std_transfer (tok s1) a b x) as [[l2 lg]|] eqn:Htr; cbn [with_ret]; [|intros [= <- <-]; split; [done|lia]].
      destruct (negb _); [intros [= <- <-]; split; [done|lia]|].
      destruct (std_transfer_spec _ _ _ _ _ _ Htr) as (_ & _ & _ & _ & Ht & Hmi & _ & Hw).
      destruct Hinv1 as [Hown1 Hmin1 Hwf1 Hback1].
      destruct (approval_check_cases lg) as [Ha|[Ha|Ha]]; rewrite Ha; intros [= <- <-]; try (split; [done|lia]).
      assert (gap (set_tok s1 l2) = gap s1) by (unfold gap; sst; lia).
      split; [|lia]. split; sst; [done|congruence|auto|lia].
    - destruct (bank_send (cbal s) a b x) as [cb|] eqn:Hbs; [|intros [= <- <-]; split; [done|lia]].
      intros [= <- <-]. destruct (bank_send_spec _ _ _ _ _ Hbs) as (_ & _ & Hz).
      assert (gap (set_bank s cb (supply s)) = gap s).
      { unfold gap. sst. rewrite Hz, !ind_diff by done. lia. }
      split; [|done]. split; sst; [done|done|done|lia].
  Qed.

  Lemma coin_flat_recv (s : st ledger) mint smod esc b x s' r : InvCoin s ->
    ibc_recv HT s mint smod esc b x = (s', r) -> InvCoin s' /\ gap s' = gap s.
  Proof.
    intros Hinv. unfold ibc_recv.
    destruct (credit s mint esc b x) as [s1|] eqn:Hc; [|intros [= <- <-]; split; [done|lia]].
    destruct (coin_credit _ _ _ _ _ _ Hinv Hc) as [Hinv1 Hg1].
    destruct (credit_spec _ _ _ _ _ _ Hc) as (Hb & _).
    destruct (_ || _); [intros [= <- <-]; split; [done|lia]|].
    destruct (convert_coin HT s1 b b (zget (cbal s1) b)) as [s2 r2] eqn:Hcc.
    destruct (coin_convert_coin _ _ _ _ _ _ Hb Hinv1 Hcc) as [Hinv2 Hg2].
    destruct r2; intros [= <- <-]; split; (done || lia).
  Qed.

  Lemma coin_refund (s : st ledger) mint esc b x s' r : InvCoin s ->
    ibc_refund HT s mint esc b x = (s', r) -> InvCoin s' /\ gap s' = gap s.
  Proof.
    intros Hinv. unfold ibc_refund.
    destruct (N.eqb_spec b MODULE); [intros [= <- <-]; split; [done|lia]|].
    destruct (credit s mint esc b x) as [s1|] eqn:Hc; [|intros [= <- <-]; split; [done|lia]].
    destruct (coin_credit _ _ _ _ _ _ Hinv Hc) as [Hinv1 Hg1].
    destruct (_ || _); [intros [= <- <-]; split; [done|lia]|].
    destruct (convert_coin HT s1 b b x) as [s2 r2] eqn:Hcc.
    destruct (coin_convert_coin _ _ _ _ _ _ n Hinv1 Hcc) as [Hinv2 Hg2].
    destruct r2; intros [= <- <-]; split; (done || lia).
  Qed.

  (** every operation keeps the invariant and moves the gap escrow - totalSupply
      by exactly what a holder burned of his own tokens *)
  Theorem coin_step (s : st ledger) o s' r : InvCoin s -> step HT cf s o = (s', r) ->
    InvCoin s' /\ gap s' = gap s + burn_of o r.
  Proof.
    intros Hinv. destruct o as [a x|a b x|a b x|a b x|a c|a b x|a x| |e h|mint smod esc b x|success mint esc b x|mint esc b x];
      cbn [step].
    - destruct (credit s true 0 a x) as [s1|] eqn:Hc; intros [= <- <-]; [|split; [done|cbn; lia]].
      destruct (coin_credit _ _ _ _ _ _ Hinv Hc). split; [done|cbn; lia].
    - destruct (credit s false a b x) as [s1|] eqn:Hc; intros [= <- <-]; [|split; [done|cbn; lia]].
      destruct (coin_credit _ _ _ _ _ _ Hinv Hc). split; [done|cbn; lia].
    - unfold msg_convert_coin. destruct (x <=? 0); [intros [= <- <-]; split; [done|cbn; lia]|].
      destruct (N.eqb_spec a MODULE); [intros [= <- <-]; split; [done|cbn; lia]|].
      intros H. destruct (coin_convert_coin _ _ _ _ _ _ n Hinv H). split; [done|cbn; lia].
    - unfold msg_convert_erc20. destruct (x <=? 0); [intros [= <- <-]; split; [done|cbn; lia]|].
      destruct (N.eqb_spec a MODULE); [intros [= <- <-]; split; [done|cbn; lia]|].
      intros H. destruct (coin_convert_erc20 _ _ _ _ _ _ Hinv H). split; [done|cbn; lia].
    - apply coin_eth. done.
    - intros H. destruct (coin_send _ _ _ _ _ _ Hinv H). split; [done|cbn; lia].
    - intros [= <- <-]. split; [done|cbn; lia].
    - destruct Hinv as [Hown Hmin Hwf Hback]. destruct (reg s); intros [= <- <-]; (split; [|cbn; unfold gap; sst; lia]);
        split; sst; done.
    - destruct Hinv as [Hown Hmin Hwf Hback]. intros [= <- <-]. split; [|cbn; unfold gap; sst; lia]. split; sst; done.
    - intros H. destruct (coin_flat_recv _ _ _ _ _ _ _ _ Hinv H). split; [done|cbn; lia].
    - destruct (N.eqb b MODULE); [intros [= <- <-]; split; [done|cbn; lia]|].
      destruct success; [intros [= <- <-]; split; [done|cbn; lia]|].
      intros H. destruct (coin_refund _ _ _ _ _ _ _ Hinv H). split; [done|cbn; lia].
    - intros H. destruct (coin_refund _ _ _ _ _ _ _ Hinv H). split; [done|cbn; lia].
  Qed.
End HonestCoin.
