(** Liquid vesting (property C11): executable model of the pure schedule
    functions of x/liquidvesting/types/schedule.go.  Definitions only; the
    proofs are in SplitProofs.v.

    A period is the pair (length in seconds, amount of the denomination that is
    being split).  [SubtractAmountFromPeriods] only reads and writes
    [Amount.AmountOf(denom)] of every period, so the model is the projection of
    the Go function on that denomination (other denominations of a period are
    copied to the decreased list and are absent from the diff list; the harness
    oracle checks that on the real function).  int64 / 256-bit overflow of the
    Go types is outside the model (times are Unix seconds, amounts < 2^256). *)
From Coq Require Import ZArith List Bool.
Import ListNotations.
Local Open Scope Z_scope.

Notation period := (Z * Z)%type (only parsing).
Definition plen (p : period) : Z := fst p.
Definition pamt (p : period) : Z := snd p.

(** Periods.TotalAmount().AmountOf(denom) and Periods.TotalLength() *)
Fixpoint total (ps : list period) : Z :=
  match ps with [] => 0 | p :: r => pamt p + total r end.
Fixpoint total_len (ps : list period) : Z :=
  match ps with [] => 0 | p :: r => plen p + total_len r end.

(** ---- SubtractAmountFromPeriods ---- *)

(** [minuendCoinAmount.Mul(subtrahendAmount).Quo(minuendTotalAmount)]:
    math.Int.Quo is big.Int.Quo, truncated division. *)
Definition prop_part (sub tot a : Z) : Z := Z.quot (a * sub) tot.

(** first loop: every period gives its proportional share (rounded down) *)
Definition split_prop (sub tot : Z) (ps : list period) : list period * list period :=
  (map (fun p => (plen p, pamt p - prop_part sub tot (pamt p))) ps,
   map (fun p => (plen p, prop_part sub tot (pamt p))) ps).

(** second loop: [for i := len-1; i >= 0; i--], the residue is taken from the
    tail.  The recursion reaches the end of the list first, so the last period
    is handled first, exactly as the Go loop; the first component of the result
    is [Some r] while the loop is still running with residue [r] and [None] once
    it has left through [break]. *)
Fixpoint push_residue (res : Z) (dec diff : list period)
  : option Z * list period * list period :=
  match dec, diff with
  | d :: ds, f :: fs =>
      match push_residue res ds fs with
      | (None, ds', fs') => (None, d :: ds', f :: fs')
      | (Some r, ds', fs') =>
          if pamt d <? r then
            (Some (r - pamt d), (plen d, pamt d - pamt d) :: ds', (plen f, pamt f + pamt d) :: fs')
          else
            (None, (plen d, pamt d - r) :: ds', (plen f, pamt f + r) :: fs')
      end
  | _, _ => (Some res, dec, diff)
  end.

(** [None] = the error "insufficient locked up funds" *)
Definition subtract_amount (ps : list period) (sub : Z) : option (list period * list period) :=
  let tot := total ps in
  if (tot <? sub) || (tot =? 0) then None else
  let '(dec, diff) := split_prop sub tot ps in
  let residue := sub - total diff in
  let '(_, dec', diff') := push_residue residue dec diff in
  Some (dec', diff').

(** the residue that the second loop distributes *)
Definition residue_of (ps : list period) (sub : Z) : Z :=
  sub - total (snd (split_prop sub (total ps) ps)).

(** ---- ReadPastPeriodCount, ExtractUpcomingPeriods, ExtractPastPeriods ---- *)
Fixpoint past_count_loop (elapsed t : Z) (ps : list period) : nat :=
  match ps with
  | [] => O
  | p :: r => if t <? elapsed + plen p then O else S (past_count_loop (elapsed + plen p) t r)
  end.
Definition past_count (s e : Z) (ps : list period) (t : Z) : nat :=
  if t <=? s then O else if e <=? t then length ps else past_count_loop s t ps.

Definition extract_upcoming (s e : Z) (ps : list period) (t : Z) : list period :=
  skipn (past_count s e ps t) ps.
Definition extract_past (s e : Z) (ps : list period) (t : Z) : list period :=
  firstn (past_count s e ps t) ps.

(** ---- ReplacePeriodsTail ---- *)
Definition replace_tail (ps repl : list period) : list period :=
  if (length ps <=? length repl)%nat then repl
  else firstn (length ps - length repl) ps ++ repl.

(** ---- CurrentPeriodShift ---- *)
Fixpoint shift_loop (elapsed now : Z) (ps : list period) : Z :=
  match ps with
  | [] => 0
  | p :: r => if now <? elapsed + plen p then now - elapsed else shift_loop (elapsed + plen p) now r
  end.
Definition current_period_shift (s now : Z) (ps : list period) : Z :=
  if now <=? s then 0 else shift_loop s now ps.

(** [diffPeriods[0].Length -= shift] *)
Definition shorten_first (shift : Z) (ps : list period) : list period :=
  match ps with [] => [] | p :: r => (plen p - shift, pamt p) :: r end.

(** ---- correspondence cases for the pure functions ---- *)
Inductive pcase :=
| PSub (ps : list period) (sub : Z) (res : option (list period * list period))
| PExtract (s e : Z) (ps : list period) (t : Z) (upcoming past : list period)
| PTail (ps repl res : list period)
| PShift (s now : Z) (ps : list period) (res : Z).

Definition zz_eqb (a b : Z * Z) : bool := (fst a =? fst b) && (snd a =? snd b).
Fixpoint pl_eqb (a b : list period) : bool :=
  match a, b with
  | [], [] => true
  | x :: a', y :: b' => zz_eqb x y && pl_eqb a' b'
  | _, _ => false
  end.

Definition check_pcase (c : pcase) : bool :=
  match c with
  | PSub ps sub res =>
      match subtract_amount ps sub, res with
      | None, None => true
      | Some (d, f), Some (d', f') => pl_eqb d d' && pl_eqb f f'
      | _, _ => false
      end
  | PExtract s e ps t up pa =>
      pl_eqb (extract_upcoming s e ps t) up && pl_eqb (extract_past s e ps t) pa
  | PTail ps repl res => pl_eqb (replace_tail ps repl) res
  | PShift s now ps res => current_period_shift s now ps =? res
  end.

Fixpoint pmismatches_from (i : nat) (cs : list pcase) : list nat :=
  match cs with
  | [] => []
  | c :: r => if check_pcase c then pmismatches_from (S i) r else i :: pmismatches_from (S i) r
  end.
Definition pmismatches (cs : list pcase) : list nat := pmismatches_from 0 cs.
