(** Proofs about the pure schedule functions of liquid vesting (property C11). *)
From Coq Require Import ZArith List Bool Lia.
From HV Require Import Liquid.SplitModel Liquid.VestingLite.
Import ListNotations.
Local Open Scope Z_scope.

(** [split3 orig dec diff]: the three lists have the same length, the same
    period lengths, and at every index dec + diff = orig with both parts >= 0. *)
Inductive split3 : list period -> list period -> list period -> Prop :=
| split3_nil : split3 [] [] []
| split3_cons o d f os ds fs :
    plen d = plen o -> plen f = plen o ->
    pamt d + pamt f = pamt o -> 0 <= pamt d -> 0 <= pamt f ->
    split3 os ds fs -> split3 (o :: os) (d :: ds) (f :: fs).

Definition amounts_nonneg (ps : list period) : Prop := Forall (fun p => 0 <= pamt p) ps.
Definition lens_nonneg (ps : list period) : Prop := Forall (fun p => 0 <= plen p) ps.

Lemma total_nonneg ps : amounts_nonneg ps -> 0 <= total ps.
Proof. induction 1; cbn; lia. Qed.

Lemma total_app a b : total (a ++ b) = total a + total b.
Proof. induction a; cbn; lia. Qed.
Lemma total_len_app a b : total_len (a ++ b) = total_len a + total_len b.
Proof. induction a; cbn; lia. Qed.

(** ---- the proportional pass ---- *)
Lemma prop_part_bounds sub tot a :
  0 <= a -> 0 <= sub <= tot -> 0 < tot ->
  0 <= prop_part sub tot a <= a /\
  0 <= a * sub - tot * prop_part sub tot a <= tot - 1.
Proof.
  intros Ha Hs Ht. unfold prop_part.
  rewrite Z.quot_div_nonneg by nia.
  pose proof (Z.div_mod (a * sub) tot ltac:(lia)) as E.
  pose proof (Z.mod_pos_bound (a * sub) tot Ht) as B.
  assert (0 <= a * sub / tot) by (apply Z.div_pos; nia).
  assert (a * sub / tot <= a).
  { apply Z.div_le_upper_bound; nia. }
  lia.
Qed.

Lemma split_prop_split3 sub tot ps :
  amounts_nonneg ps -> 0 <= sub <= tot -> 0 < tot ->
  split3 ps (fst (split_prop sub tot ps)) (snd (split_prop sub tot ps)).
Proof.
  intros Hn Hs Ht. induction Hn as [|p r Hp Hr IH]; cbn; constructor; cbn; auto;
    destruct (prop_part_bounds sub tot (pamt p) Hp Hs Ht); lia.
Qed.

(** sub * (sum of amounts) - tot * (sum of the floors) lies in [0, (tot-1) * n] *)
Lemma prop_sum_bounds sub tot ps :
  amounts_nonneg ps -> 0 <= sub <= tot -> 0 < tot ->
  0 <= sub * total ps - tot * total (snd (split_prop sub tot ps))
    <= (tot - 1) * Z.of_nat (length ps).
Proof.
  intros Hn Hs Ht. induction Hn as [|p r Hp Hr IH].
  - cbn. lia.
  - cbn [split_prop snd map total length pamt] in *.
    destruct (prop_part_bounds sub tot (pamt p) Hp Hs Ht) as [_ B].
    rewrite Nat2Z.inj_succ. cbn [snd] in *. nia.
Qed.

(** The residue left by the proportional pass is non-negative and smaller than
    the number of periods. *)
Lemma residue_bounds ps sub :
  amounts_nonneg ps -> 0 <= sub <= total ps -> 0 < total ps ->
  0 <= residue_of ps sub /\ residue_of ps sub < Z.of_nat (length ps) /\
  residue_of ps sub <= total (fst (split_prop sub (total ps) ps)).
Proof.
  intros Hn Hs Ht. unfold residue_of.
  pose proof (prop_sum_bounds sub (total ps) ps Hn Hs Ht) as B.
  set (q := total (snd (split_prop sub (total ps) ps))) in *.
  assert (0 <= sub - q) by nia.
  assert (Hlen : (0 < length ps)%nat).
  { destruct ps; cbn in *; lia. }
  assert (sub - q < Z.of_nat (length ps)) by nia.
  repeat split; try lia.
  (* total dec = total ps - q >= sub - q *)
  assert (E : forall l, total (fst (split_prop sub (total ps) l)) =
                        total l - total (snd (split_prop sub (total ps) l))).
  { induction l as [|p r IH]; cbn in *; [lia|]. rewrite IH. cbn. lia. }
  rewrite E. fold q. lia.
Qed.

(** ---- the residue loop ---- *)
Lemma push_residue_spec orig : forall dec diff res,
  split3 orig dec diff -> 0 <= res ->
  let '(r, dec', diff') := push_residue res dec diff in
  split3 orig dec' diff' /\
  match r with
  | Some r' => 0 <= r' /\ r' = res - total dec /\ total dec' = 0 /\ total diff' = total diff + total dec
  | None => total dec' = total dec - res /\ total diff' = total diff + res
  end.
Proof.
  intros dec diff res H. revert res. induction H as [|o d f os ds fs Hd Hf Hs Hdn Hfn Hr IH]; intros res Hres.
  - cbn. split; [constructor|]. lia.
  - cbn [push_residue]. specialize (IH res Hres).
    destruct (push_residue res ds fs) as [[r ds'] fs']. destruct IH as [IH1 IH2].
    destruct r as [r'|].
    + destruct IH2 as (Hr0 & Hr' & Hz & Ht).
      destruct (pamt d <? r') eqn:Hlt.
      * apply Z.ltb_lt in Hlt. split.
        -- constructor; cbn; auto; lia.
        -- cbn [total pamt snd]. lia.
      * apply Z.ltb_ge in Hlt. split.
        -- constructor; cbn; auto; lia.
        -- cbn [total pamt snd]. lia.
    + split; [constructor; auto|]. cbn [total]. lia.
Qed.

(** ---- SubtractAmountFromPeriods ---- *)

(** the error guard, exactly *)
Lemma subtract_amount_none ps sub :
  subtract_amount ps sub = None <-> total ps < sub \/ total ps = 0.
Proof.
  unfold subtract_amount.
  destruct (Z.ltb_spec (total ps) sub) as [A|A]; cbn [orb].
  { split; [lia|reflexivity]. }
  destruct (Z.eqb_spec (total ps) 0) as [B|B].
  { split; [lia|reflexivity]. }
  destruct (split_prop sub (total ps) ps) as [dec diff].
  destruct (push_residue (sub - total diff) dec diff) as [[r d'] f'].
  split; [discriminate|lia].
Qed.

Theorem split_exact ps sub dec diff :
  amounts_nonneg ps -> 0 <= sub ->
  subtract_amount ps sub = Some (dec, diff) ->
  split3 ps dec diff /\ total diff = sub /\ total dec = total ps - sub.
Proof.
  intros Hn Hs. unfold subtract_amount.
  destruct (total ps <? sub) eqn:A; [discriminate|].
  destruct (total ps =? 0) eqn:B; [discriminate|]. cbn [orb].
  apply Z.ltb_ge in A. apply Z.eqb_neq in B.
  pose proof (total_nonneg ps Hn) as Tn.
  assert (Ht : 0 < total ps) by lia.
  pose proof (split_prop_split3 sub (total ps) ps Hn (conj Hs A) Ht) as S3.
  pose proof (residue_bounds ps sub Hn (conj Hs A) Ht) as (R0 & _ & R2).
  unfold residue_of in *.
  destruct (split_prop sub (total ps) ps) as [dec0 diff0] eqn:E. cbn [fst snd] in *.
  pose proof (push_residue_spec ps dec0 diff0 (sub - total diff0) S3 R0) as P.
  destruct (push_residue (sub - total diff0) dec0 diff0) as [[r d'] f'].
  intros [= <- <-]. destruct P as [P1 P2]. split; [exact P1|].
  assert (Tsum : forall o d f, split3 o d f -> total d + total f = total o).
  { induction 1; cbn; lia. }
  pose proof (Tsum _ _ _ S3). pose proof (Tsum _ _ _ P1).
  destruct r as [r'|]; lia.
Qed.

(** consequences of [split3], in index form *)
Lemma split3_length o d f : split3 o d f -> length d = length o /\ length f = length o.
Proof. induction 1; cbn; lia. Qed.

Lemma split3_lens o d f : split3 o d f -> map plen d = map plen o /\ map plen f = map plen o.
Proof. induction 1 as [|? ? ? ? ? ? ? ? ? ? ? ? [IH1 IH2]]; cbn; [auto|]. split; congruence. Qed.

Lemma split3_nth o d f : split3 o d f -> forall i, (i < length o)%nat ->
  let po := nth i o (0, 0) in let pd := nth i d (0, 0) in let pf := nth i f (0, 0) in
  plen pd = plen po /\ plen pf = plen po /\
  pamt pd + pamt pf = pamt po /\ 0 <= pamt pd /\ 0 <= pamt pf.
Proof.
  induction 1; intros i Hi; cbn in Hi; [lia|].
  destruct i; cbn; [auto|]. apply IHsplit3. lia.
Qed.

Lemma split3_amounts o d f : split3 o d f -> amounts_nonneg d /\ amounts_nonneg f /\ amounts_nonneg o.
Proof.
  induction 1 as [|? ? ? ? ? ? ? ? ? ? ? ? (A & B & C)]; [repeat split; constructor|].
  repeat split; constructor; auto; lia.
Qed.

Lemma split3_total o d f : split3 o d f -> total d + total f = total o.
Proof. induction 1; cbn; lia. Qed.

Lemma split3_total_len o d f : split3 o d f -> total_len d = total_len o /\ total_len f = total_len o.
Proof. induction 1; cbn; lia. Qed.

(** the two parts of a split release, together, exactly what the original
    released, at every time (event times are kept) *)
Lemma split3_ev o d f : split3 o d f -> forall s t, ev s d t + ev s f t = ev s o t.
Proof.
  induction 1 as [|o d f os ds fs Hd Hf Hs Hdn Hfn Hr IH]; intros s t; cbn; [lia|].
  rewrite Hd, Hf. specialize (IH (s + plen o) t). destruct (s + plen o <=? t); lia.
Qed.

Lemma ev_nonneg ps : amounts_nonneg ps -> forall s t, 0 <= ev s ps t.
Proof.
  induction 1 as [|p r Hp Hr IH]; intros s t; cbn; [lia|].
  specialize (IH (s + plen p) t). destruct (s + plen p <=? t); lia.
Qed.

Lemma split3_ev_le o d f : split3 o d f -> forall s t, ev s f t <= ev s o t /\ ev s d t <= ev s o t.
Proof.
  intros H s t. pose proof (split3_ev _ _ _ H s t).
  destruct (split3_amounts _ _ _ H) as (A & B & _).
  pose proof (ev_nonneg _ A s t). pose proof (ev_nonneg _ B s t). lia.
Qed.

(** no call of [sdk.NewCoin] / [Coins.Sub] inside SubtractAmountFromPeriods can
    panic: every proportional share is within [0, amount], the residue is
    non-negative and never exceeds what is left in the decreased periods. *)
Theorem split_no_panic ps sub :
  amounts_nonneg ps -> 0 <= sub <= total ps -> 0 < total ps ->
  Forall (fun p => 0 <= prop_part sub (total ps) (pamt p) <= pamt p) ps /\
  0 <= residue_of ps sub /\
  residue_of ps sub <= total (fst (split_prop sub (total ps) ps)).
Proof.
  intros Hn Hs Ht. split.
  - apply Forall_impl with (P := fun p => 0 <= pamt p); [|exact Hn].
    intros p Hp. apply prop_part_bounds; auto.
  - pose proof (residue_bounds ps sub Hn Hs Ht). tauto.
Qed.

(** ---- extract / replace_tail / shift ---- *)
Lemma extract_app s e ps t : extract_past s e ps t ++ extract_upcoming s e ps t = ps.
Proof. apply firstn_skipn. Qed.

Lemma past_count_le s e ps t : (past_count s e ps t <= length ps)%nat.
Proof.
  unfold past_count. destruct (t <=? s); [lia|]. destruct (e <=? t); [lia|].
  generalize s as el. induction ps as [|p r IH]; intros el; cbn; [lia|].
  destruct (t <? el + plen p); [lia|]. specialize (IH (el + plen p)). lia.
Qed.

(** replacing the tail by a list as long as the upcoming part keeps the past part *)
Lemma replace_tail_upcoming ps k repl :
  (k <= length ps)%nat -> length repl = (length ps - k)%nat ->
  replace_tail ps repl = firstn k ps ++ repl.
Proof.
  intros Hk Hl. unfold replace_tail.
  destruct (length ps <=? length repl)%nat eqn:E.
  - apply Nat.leb_le in E. assert (k = 0)%nat by lia. subst. reflexivity.
  - apply Nat.leb_gt in E. f_equal. f_equal. lia.
Qed.

(** the loop of CurrentPeriodShift and the loop of ReadPastPeriodCount stop at
    the same period *)
Lemma shift_loop_spec ps : forall el t,
  let k := past_count_loop el t ps in
  match skipn k ps with
  | [] => shift_loop el t ps = 0
  | u :: _ => shift_loop el t ps = t - (el + total_len (firstn k ps)) /\
              t < el + total_len (firstn k ps) + plen u
  end.
Proof.
  induction ps as [|p r IH]; intros el t; cbn; [reflexivity|].
  destruct (t <? el + plen p) eqn:E; cbn.
  - apply Z.ltb_lt in E. lia.
  - specialize (IH (el + plen p) t). cbn in IH.
    destruct (skipn (past_count_loop (el + plen p) t r) r); [exact IH|]. lia.
Qed.

Lemma shift_loop_ext ps ps' : map plen ps = map plen ps' ->
  forall el t, shift_loop el t ps = shift_loop el t ps'.
Proof.
  revert ps'. induction ps as [|p r IH]; intros [|p' r'] H el t; try discriminate; [reflexivity|].
  cbn in *. injection H as H1 H2. rewrite H1. destruct (t <? el + plen p'); [reflexivity|].
  apply IH, H2.
Qed.

Lemma ev_app a b s t : ev s (a ++ b) t = ev s a t + ev (s + total_len a) b t.
Proof.
  revert s. induction a as [|p r IH]; intros s; cbn.
  - f_equal. lia.
  - rewrite IH. replace (s + plen p + total_len r) with (s + (plen p + total_len r)) by lia. lia.
Qed.

(** shortening the first period by [sh] and starting [sh] later keeps every
    event at its absolute time *)
Lemma ev_shorten_first sh ps s t : ev (s + sh) (shorten_first sh ps) t = ev s ps t.
Proof.
  destruct ps as [|p r]; cbn; [reflexivity|].
  replace (s + sh + (plen p - sh)) with (s + plen p) by lia. reflexivity.
Qed.

Lemma total_shorten_first sh ps : total (shorten_first sh ps) = total ps.
Proof. destruct ps; reflexivity. Qed.

Lemma total_len_shorten_first sh ps : ps <> [] -> total_len (shorten_first sh ps) = total_len ps - sh.
Proof. destruct ps; [congruence|]. cbn. lia. Qed.

(** ---- ReadSchedule against the reference [ev] ---- *)
Lemma read_loop_ev ps : lens_nonneg ps -> forall s t, read_loop s t ps = ev s ps t.
Proof.
  induction 1 as [|p r Hp Hr IH]; intros s t; cbn; [reflexivity|].
  destruct (t <? s + plen p) eqn:E.
  - apply Z.ltb_lt in E. destruct (s + plen p <=? t) eqn:F; [apply Z.leb_le in F; lia|].
    (* no later event can have happened *)
    assert (G : forall l, lens_nonneg l -> forall s', t < s' -> ev s' l t = 0).
    { induction 1 as [|q l Hq Hl IHl]; intros s' Hs'; cbn; [reflexivity|].
      destruct (s' + plen q <=? t) eqn:X; [apply Z.leb_le in X; lia|].
      rewrite IHl by lia. reflexivity. }
    rewrite G by (auto; lia). reflexivity.
  - apply Z.ltb_ge in E. destruct (s + plen p <=? t) eqn:F; [|apply Z.leb_gt in F; lia].
    rewrite IH. reflexivity.
Qed.

Lemma ev_before ps : lens_nonneg ps -> forall s t, t < s -> ev s ps t = 0.
Proof.
  induction 1 as [|q l Hq Hl IHl]; intros s' t Hs'; cbn; [reflexivity|].
  destruct (s' + plen q <=? t) eqn:X; [apply Z.leb_le in X; lia|].
  rewrite IHl by lia. reflexivity.
Qed.

Lemma ev_after ps : lens_nonneg ps -> forall s t, s + total_len ps <= t -> ev s ps t = total ps.
Proof.
  induction 1 as [|q l Hq Hl IHl]; intros s t Ht; cbn in *; [reflexivity|].
  assert (0 <= total_len l).
  { clear -Hl. induction Hl; cbn; lia. }
  destruct (s + plen q <=? t) eqn:X; [|apply Z.leb_gt in X; lia].
  rewrite IHl by lia. reflexivity.
Qed.

Lemma total_len_nonneg ps : lens_nonneg ps -> 0 <= total_len ps.
Proof. induction 1; cbn; lia. Qed.

(** ReadSchedule never reports more than the event sum, and reports exactly the
    event sum except at [t = start] (where a zero-length first period is not yet
    counted by the code). *)
Lemma read_schedule_le_ev s e ps tot t :
  lens_nonneg ps -> amounts_nonneg ps -> tot = total ps -> s + total_len ps <= e ->
  read_schedule s e ps tot t <= ev s ps t.
Proof.
  intros Hl Ha -> He. unfold read_schedule.
  destruct (t <=? s) eqn:A. { apply ev_nonneg, Ha. }
  destruct (e <=? t) eqn:B.
  - apply Z.leb_le in B. rewrite ev_after by (auto; lia). lia.
  - rewrite read_loop_ev by auto. lia.
Qed.

Lemma read_schedule_eq_ev s e ps tot t :
  lens_nonneg ps -> tot = total ps -> s + total_len ps <= e -> t <> s ->
  read_schedule s e ps tot t = ev s ps t.
Proof.
  intros Hl -> He Hne. unfold read_schedule.
  destruct (t <=? s) eqn:A.
  { apply Z.leb_le in A. rewrite ev_before by (auto; lia). reflexivity. }
  destruct (e <=? t) eqn:B.
  - apply Z.leb_le in B. rewrite ev_after by (auto; lia). reflexivity.
  - apply read_loop_ev, Hl.
Qed.

(** [split_exact] in index form *)
Theorem split_exact_nth ps sub dec diff :
  amounts_nonneg ps -> 0 <= sub -> subtract_amount ps sub = Some (dec, diff) ->
  length dec = length ps /\ length diff = length ps /\
  (forall i, (i < length ps)%nat ->
     plen (nth i dec (0, 0)) = plen (nth i ps (0, 0)) /\
     plen (nth i diff (0, 0)) = plen (nth i ps (0, 0)) /\
     pamt (nth i dec (0, 0)) + pamt (nth i diff (0, 0)) = pamt (nth i ps (0, 0)) /\
     0 <= pamt (nth i dec (0, 0)) /\ 0 <= pamt (nth i diff (0, 0))) /\
  total diff = sub /\ total dec = total ps - sub.
Proof.
  intros Hn Hs H. destruct (split_exact _ _ _ _ Hn Hs H) as (S3 & T1 & T2).
  destruct (split3_length _ _ _ S3) as [L1 L2].
  repeat split; auto; apply (split3_nth _ _ _ S3 i); auto.
Qed.

(** a successful split is a split in time as well: the two parts release
    together, at every time, what the original released *)
Theorem split_time ps sub dec diff :
  amounts_nonneg ps -> 0 <= sub -> subtract_amount ps sub = Some (dec, diff) ->
  forall s t, ev s dec t + ev s diff t = ev s ps t /\ 0 <= ev s dec t /\ 0 <= ev s diff t.
Proof.
  intros Hn Hs H s t. destruct (split_exact _ _ _ _ Hn Hs H) as (S3 & _ & _).
  destruct (split3_amounts _ _ _ S3) as (A & B & _).
  split; [apply split3_ev, S3|]. split; apply ev_nonneg; auto.
Qed.
