(** Proofs about the liquid vesting keeper model (property C11). *)
From Coq Require Import ZArith List Bool Lia.
From stdpp Require Import gmap.
From HV Require Import Liquid.SplitModel Liquid.VestingLite Liquid.KeeperModel
                       Liquid.SplitProofs Liquid.VestingLiteProofs.
Import ListNotations.
Local Open Scope Z_scope.

(** * finite maps of amounts *)
Definition msum (m : gmap N Z) : Z := map_fold (fun _ v acc => v + acc) 0 m.

Lemma zget_empty k : zget ∅ k = 0.
Proof. unfold zget. by rewrite lookup_empty. Qed.

Lemma zget_insert (m : gmap N Z) k v k' :
  zget (<[k := v]> m) k' = if decide (k = k') then v else zget m k'.
Proof.
  unfold zget. destruct (decide (k = k')) as [->|].
  - by rewrite lookup_insert.
  - by rewrite lookup_insert_ne.
Qed.

Lemma msum_empty : msum ∅ = 0.
Proof. unfold msum. by rewrite map_fold_empty. Qed.

Lemma msum_insert_fresh m k v : m !! k = None -> msum (<[k := v]> m) = v + msum m.
Proof. intros H. unfold msum. rewrite map_fold_insert_L; [done| |done]. intros. lia. Qed.

Lemma msum_insert m k v : msum (<[k := v]> m) = msum m - zget m k + v.
Proof.
  unfold zget. destruct (m !! k) as [v0|] eqn:E; cbn.
  - rewrite <- (insert_delete_insert m k v).
    rewrite msum_insert_fresh by apply lookup_delete.
    rewrite <- (insert_delete m k v0) at 2 by done.
    rewrite msum_insert_fresh by apply lookup_delete. lia.
  - rewrite msum_insert_fresh by done. lia.
Qed.

Lemma msum_nonneg_zero m : (forall k, 0 <= zget m k) -> msum m = 0 -> forall k, zget m k = 0.
Proof.
  induction m as [|i x m Hi IH] using map_ind; intros Hn Hs k.
  - apply zget_empty.
  - rewrite msum_insert_fresh in Hs by done.
    assert (Hx : 0 <= x). { specialize (Hn i). by rewrite zget_insert, decide_True in Hn. }
    assert (Hm : forall k, 0 <= zget m k).
    { intros k'. specialize (Hn k'). rewrite zget_insert in Hn.
      destruct (decide (i = k')) as [<-|]; [|done]. unfold zget. by rewrite Hi. }
    assert (0 <= msum m).
    { clear -Hm. induction m as [|j y m Hj IHm] using map_ind; [by rewrite msum_empty|].
      rewrite msum_insert_fresh by done.
      assert (0 <= y). { specialize (Hm j). by rewrite zget_insert, decide_True in Hm. }
      assert (0 <= msum m); [|lia]. apply IHm. intros k'. specialize (Hm k'). rewrite zget_insert in Hm.
      destruct (decide (j = k')) as [<-|]; [|done]. unfold zget. by rewrite Hj. }
    rewrite zget_insert. destruct (decide (i = k)); [lia|]. apply IH; [done|lia].
Qed.

Lemma lookup_insert_dec {A} (m : gmap N A) k v k' :
  <[k := v]> m !! k' = if decide (k = k') then Some v else m !! k'.
Proof.
  destruct (decide (k = k')) as [->|]; [by rewrite lookup_insert|by rewrite lookup_insert_ne].
Qed.

Lemma lookup_delete_dec {A} (m : gmap N A) k k' :
  delete k m !! k' = if decide (k = k') then None else m !! k'.
Proof.
  destruct (decide (k = k')) as [->|]; [by rewrite lookup_delete|by rewrite lookup_delete_ne].
Qed.

Lemma holders_set_hold l d a v d' :
  default ∅ (set_hold l d a v !! d') =
  if decide (d = d') then <[a := v]> (default ∅ (l !! d)) else default ∅ (l !! d').
Proof. unfold set_hold. rewrite lookup_insert_dec. by destruct (decide (d = d')). Qed.

(** * well-formed accounts and denoms (the schedule conditions of Validate) *)
Definition acct_ok (a : acct) : Prop :=
  lens_nonneg (a_lock a) /\ amounts_nonneg (a_lock a) /\ total (a_lock a) = a_orig a /\
  a_start a + total_len (a_lock a) <= a_end a /\
  lens_nonneg (a_vest a) /\ amounts_nonneg (a_vest a) /\ total (a_vest a) = a_orig a /\
  a_start a + total_len (a_vest a) <= a_end a.

Definition den_ok (d : denom) : Prop :=
  lens_nonneg (d_periods d) /\ amounts_nonneg (d_periods d) /\
  d_end d = d_start d + total_len (d_periods d).

Record Inv (s : st) : Prop := {
  inv_accts : forall a va, accts s !! a = Some va -> acct_ok va;
  inv_dens : forall d den, denoms s !! d = Some den ->
               den_ok den /\ total (d_periods den) = zget (supply s) d /\
               0 < zget (supply s) d /\ (d < counter s)%N;
  inv_nodens : forall d, denoms s !! d = None -> zget (supply s) d = 0;
  inv_hold : forall d, msum (holders_of s d) = zget (supply s) d;
  inv_hold_nonneg : forall d a, 0 <= hold s d a;
  inv_backing : msum (supply s) = escrow s
}.

Lemma inv_init : Inv init.
Proof.
  split; cbn; try done.
  all: intros; unfold hold, holders_of; cbn; rewrite ?lookup_empty; cbn;
    rewrite ?msum_empty, ?zget_empty; done.
Qed.

(** * small list facts *)
Lemma lens_ext a b : map plen a = map plen b -> lens_nonneg b -> lens_nonneg a.
Proof.
  revert b. induction a as [|p r IH]; intros [|q b] H Hb; try discriminate; [constructor|].
  injection H as H1 H2. inversion Hb; subst. constructor; [lia|]. eapply IH; eauto.
Qed.

Lemma total_len_ext a b : map plen a = map plen b -> total_len a = total_len b.
Proof.
  revert b. induction a as [|p r IH]; intros [|q b] H; try discriminate; [reflexivity|].
  injection H as H1 H2. cbn. rewrite H1, (IH _ H2). reflexivity.
Qed.

Lemma Forall_split_at {A} (P : A -> Prop) k l : Forall P l -> Forall P (firstn k l) /\ Forall P (skipn k l).
Proof. intros H. rewrite <- (firstn_skipn k l) in H. by apply Forall_app in H. Qed.

Lemma nonneg_periods_spec ps : nonneg_periods ps = true -> lens_nonneg ps /\ amounts_nonneg ps.
Proof.
  unfold nonneg_periods. rewrite forallb_forall. intros H. split; apply Forall_forall; intros p Hp;
    apply elem_of_list_In, H in Hp; apply andb_prop in Hp as [A B]; apply Z.leb_le in A, B; done.
Qed.

Lemma past_loop_le el t ps : (past_count_loop el t ps <= length ps)%nat.
Proof.
  revert el. induction ps as [|p r IH]; intros el; cbn; [lia|].
  destruct (t <? el + plen p); [lia|]. specialize (IH (el + plen p)). lia.
Qed.

Lemma past_loop_all ps : forall el t, past_count_loop el t ps = length ps -> ev el ps t = total ps.
Proof.
  induction ps as [|p r IH]; intros el t H; cbn in *; [reflexivity|].
  destruct (t <? el + plen p) eqn:E; [discriminate|]. apply Z.ltb_ge in E.
  destruct (el + plen p <=? t) eqn:F; [|apply Z.leb_gt in F; lia].
  rewrite IH by lia. reflexivity.
Qed.

(** * Liquidate *)
Definition liq_acct (va : acct) (dec decv : list period) (x : Z) : acct :=
  mkacct (a_start va) (a_end va) (a_orig va - x)
         (replace_tail (a_lock va) dec) (replace_tail (a_vest va) decv).

Definition liq_denom (va : acct) (t : Z) (dec diff : list period) : denom :=
  let diff' := shorten_first (current_period_shift (a_start va) t (replace_tail (a_lock va) dec)) diff in
  mkdenom t (t + total_len diff') diff'.

Lemma liquidate_ok s t from to x s' : liquidate s t from to x = (s', OK) ->
  exists va dec diff decv dv,
    0 < x /\ enabled s = true /\ minliq s <= x /\
    accts s !! from = Some va /\
    a_orig va - vested_at va t = 0 /\
    0 < a_orig va - unlocked_at va t /\ x <= a_orig va - unlocked_at va t /\
    subtract_amount (extract_upcoming (a_start va) (a_end va) (a_lock va) t) x = Some (dec, diff) /\
    subtract_amount (a_vest va) x = Some (decv, dv) /\
    x <= zget (bank s) from - locked_coins (liq_acct va dec decv x) t /\
    s' = mkst (<[from := liq_acct va dec decv x]> (accts s))
              (<[from := zget (bank s) from - x]> (bank s))
              (escrow s + x)
              (<[counter s := liq_denom va t dec diff]> (denoms s))
              (counter s + 1)%N
              (set_hold (liq s) (counter s) to (zget (default ∅ (liq s !! counter s)) to + x))
              (<[counter s := zget (supply s) (counter s) + x]> (supply s))
              (enabled s) (minliq s).
Proof.
  unfold liquidate. intros H.
  destruct (x <=? 0) eqn:Hx; [by inversion H|]. apply Z.leb_gt in Hx.
  destruct (enabled s) eqn:He; cbn in H; [|by inversion H].
  destruct (x <? minliq s) eqn:Hm; [by inversion H|]. apply Z.ltb_ge in Hm.
  destruct (accts s !! from) as [va|] eqn:Hva; [|by inversion H].
  destruct (a_orig va - vested_at va t =? 0) eqn:Hv; cbn in H; [|by inversion H]. apply Z.eqb_eq in Hv.
  destruct (a_orig va - unlocked_at va t <=? 0) eqn:Hl; [by inversion H|]. apply Z.leb_gt in Hl.
  destruct (a_orig va - unlocked_at va t <? x) eqn:Hlx; [by inversion H|]. apply Z.ltb_ge in Hlx.
  destruct (subtract_amount (extract_upcoming _ _ _ _) x) as [[dec diff]|] eqn:Hs; [|by inversion H].
  destruct (subtract_amount (a_vest va) x) as [[decv dv]|] eqn:Hsv; [|by inversion H].
  match type of H with (if ?c then _ else _) = _ => destruct c eqn:Hb end; [by inversion H|].
  apply Z.ltb_ge in Hb.
  exists va, dec, diff, decv, dv. inversion H; subst s'; clear H.
  repeat split; try done.
Qed.

Lemma liquidate_fail s t from to x s' r : liquidate s t from to x = (s', r) -> r <> OK -> s' = s.
Proof.
  unfold liquidate. intros H Hr.
  repeat match type of H with
         | (if ?c then _ else _) = _ => destruct c; [try by inversion H|try by inversion H]
         | match ?c with _ => _ end = _ => destruct c; [try by inversion H|try by inversion H]
         | (let '(_, _) := ?c in _) = _ => destruct c
         end.
  all: try (inversion H; subst; done).
Qed.

Lemma liq_time va t :
  a_orig va - vested_at va t = 0 -> 0 < a_orig va - unlocked_at va t -> a_start va < t < a_end va.
Proof.
  unfold vested_at, unlocked_at, read_schedule. intros H1 H2.
  destruct (t <=? a_start va) eqn:A; [lia|]. apply Z.leb_gt in A.
  destruct (a_end va <=? t) eqn:B; [lia|]. apply Z.leb_gt in B. lia.
Qed.

(** the shape of a successful split of the upcoming periods *)
Lemma liq_shape va t x dec diff :
  a_start va < t < a_end va -> amounts_nonneg (a_lock va) -> 0 <= x ->
  subtract_amount (extract_upcoming (a_start va) (a_end va) (a_lock va) t) x = Some (dec, diff) ->
  let k := past_count_loop (a_start va) t (a_lock va) in
  let base := a_start va + total_len (firstn k (a_lock va)) in
  split3 (skipn k (a_lock va)) dec diff /\ total diff = x /\
  replace_tail (a_lock va) dec = firstn k (a_lock va) ++ dec /\
  current_period_shift (a_start va) t (replace_tail (a_lock va) dec) = t - base /\
  exists u us f fs, skipn k (a_lock va) = u :: us /\ diff = f :: fs /\ t < base + plen u.
Proof.
  intros [T1 T2] Ha Hx Hs k base.
  assert (Hup : extract_upcoming (a_start va) (a_end va) (a_lock va) t = skipn k (a_lock va)).
  { unfold extract_upcoming, past_count.
    destruct (t <=? a_start va) eqn:A; [apply Z.leb_le in A; lia|].
    destruct (a_end va <=? t) eqn:B; [apply Z.leb_le in B; lia|]. reflexivity. }
  rewrite Hup in Hs.
  destruct (Forall_split_at _ k _ Ha) as [_ Hau].
  destruct (split_exact _ _ _ _ Hau Hx Hs) as (S3 & Td & _).
  assert (Hk : (k <= length (a_lock va))%nat) by apply past_loop_le.
  destruct (split3_length _ _ _ S3) as [Ld Lf]. rewrite skipn_length in Ld, Lf.
  assert (Hrt : replace_tail (a_lock va) dec = firstn k (a_lock va) ++ dec)
    by (apply replace_tail_upcoming; lia).
  assert (Hne : skipn k (a_lock va) <> []).
  { intros E. rewrite E in Hs.
    assert (subtract_amount [] x = None) by (apply subtract_amount_none; right; reflexivity).
    congruence. }
  pose proof (shift_loop_spec (a_lock va) (a_start va) t) as SP. cbv zeta in SP. fold k in SP.
  destruct (skipn k (a_lock va)) as [|u us] eqn:Eu; [done|].
  inversion S3; subst.
  assert (Hsh : current_period_shift (a_start va) t (replace_tail (a_lock va) (d :: ds)) = t - base).
  { unfold current_period_shift. destruct (t <=? a_start va) eqn:A; [apply Z.leb_le in A; lia|].
    rewrite (shift_loop_ext _ (a_lock va)); [apply SP|].
    rewrite Hrt. rewrite <- (firstn_skipn k (a_lock va)) at 2. rewrite Eu, !map_app. f_equal.
    destruct (split3_lens _ _ _ S3) as [-> _]. reflexivity. }
  repeat split; try done.
  exists u, us, f, fs. repeat split; try done. apply SP.
Qed.

(** Liquidating splits the lockup schedule in time exactly: at every time what
    the liquid denom's schedule has released plus what the account's remaining
    schedule has released is what the original schedule had released. *)
Lemma liq_time_split va t x dec diff :
  a_start va < t < a_end va -> amounts_nonneg (a_lock va) -> 0 <= x ->
  subtract_amount (extract_upcoming (a_start va) (a_end va) (a_lock va) t) x = Some (dec, diff) ->
  forall tau,
    ev (d_start (liq_denom va t dec diff)) (d_periods (liq_denom va t dec diff)) tau
    + ev (a_start va) (replace_tail (a_lock va) dec) tau
    = ev (a_start va) (a_lock va) tau.
Proof.
  intros HT Ha Hx Hs tau.
  destruct (liq_shape va t x dec diff HT Ha Hx Hs) as (S3 & _ & Hrt & Hsh & _).
  unfold liq_denom. cbn [d_start d_periods]. rewrite Hsh, Hrt.
  set (k := past_count_loop (a_start va) t (a_lock va)) in *.
  set (base := a_start va + total_len (firstn k (a_lock va))) in *.
  pose proof (ev_shorten_first (t - base) diff base tau) as E1.
  replace (base + (t - base)) with t in E1 by lia.
  assert (E2 : ev (a_start va) (firstn k (a_lock va) ++ dec) tau
               = ev (a_start va) (firstn k (a_lock va)) tau + ev base dec tau) by apply ev_app.
  assert (E3 : ev (a_start va) (a_lock va) tau
               = ev (a_start va) (firstn k (a_lock va)) tau + ev base (skipn k (a_lock va)) tau).
  { rewrite <- (firstn_skipn k (a_lock va)) at 1. apply ev_app. }
  pose proof (split3_ev _ _ _ S3 base tau). lia.
Qed.

Lemma liq_acct_ok va t x dec diff decv dv :
  acct_ok va -> a_start va < t < a_end va -> 0 <= x ->
  subtract_amount (extract_upcoming (a_start va) (a_end va) (a_lock va) t) x = Some (dec, diff) ->
  subtract_amount (a_vest va) x = Some (decv, dv) ->
  acct_ok (liq_acct va dec decv x) /\ den_ok (liq_denom va t dec diff) /\
  total (d_periods (liq_denom va t dec diff)) = x.
Proof.
  intros (L1 & L2 & L3 & L4 & V1 & V2 & V3 & V4) HT Hx Hs Hsv.
  destruct (liq_shape va t x dec diff HT L2 Hx Hs) as (S3 & Td & Hrt & Hsh & (u & us & f & fs & Eu & Ef & Hu)).
  set (k := past_count_loop (a_start va) t (a_lock va)) in *.
  set (base := a_start va + total_len (firstn k (a_lock va))) in *.
  destruct (split_exact _ _ _ _ V2 Hx Hsv) as (S3v & _ & Tdv).
  destruct (split3_lens _ _ _ S3) as [Ml Mf]. destruct (split3_amounts _ _ _ S3) as (Ad & Af & _).
  destruct (split3_total_len _ _ _ S3) as [TLd TLf].
  pose proof (split3_total _ _ _ S3) as Tsum.
  destruct (Forall_split_at _ k _ L1) as [L1a L1b]. destruct (Forall_split_at _ k _ L2) as [L2a L2b].
  assert (Hvt : replace_tail (a_vest va) decv = decv).
  { unfold replace_tail. destruct (split3_length _ _ _ S3v) as [-> _]. by rewrite Nat.leb_refl. }
  assert (TL : total_len (a_lock va) = total_len (firstn k (a_lock va)) + total_len (skipn k (a_lock va))).
  { rewrite <- total_len_app, firstn_skipn. reflexivity. }
  assert (TA : total (a_lock va) = total (firstn k (a_lock va)) + total (skipn k (a_lock va))).
  { rewrite <- total_app, firstn_skipn. reflexivity. }
  split; [|split].
  - unfold acct_ok, liq_acct. cbn [a_start a_end a_orig a_lock a_vest]. rewrite Hrt, Hvt.
    destruct (split3_lens _ _ _ S3v) as [Mlv _]. destruct (split3_amounts _ _ _ S3v) as (Adv & _ & _).
    destruct (split3_total_len _ _ _ S3v) as [TLdv _].
    repeat split.
    + apply Forall_app. split; [done|]. eapply lens_ext; eauto.
    + apply Forall_app. split; done.
    + rewrite total_app. lia.
    + rewrite total_len_app. lia.
    + eapply lens_ext; eauto.
    + done.
    + lia.
    + lia.
  - unfold den_ok, liq_denom. cbn [d_start d_end d_periods]. rewrite Hsh. fold base.
    subst diff. rewrite Eu in *. inversion S3; subst. cbn [shorten_first].
    assert (Lfs : lens_nonneg (f :: fs)) by (eapply lens_ext; eauto).
    inversion Lfs; subst. inversion Af; subst.
    repeat split.
    + constructor; [cbn; lia|done].
    + constructor; [cbn; done|done].
  - unfold liq_denom. cbn [d_periods]. rewrite total_shorten_first. done.
Qed.

Lemma new_acct_ok start orig lock vest :
  lens_nonneg lock -> amounts_nonneg lock -> lens_nonneg vest -> amounts_nonneg vest ->
  total lock = orig -> total vest = orig -> acct_ok (new_acct start orig lock vest).
Proof.
  intros. unfold acct_ok, new_acct. cbn [a_start a_end a_orig a_lock a_vest].
  repeat split; try done; lia.
Qed.

Lemma add_grant_ok fixed va gs gl gv c va' :
  acct_ok va -> lens_nonneg gl -> amounts_nonneg gl -> lens_nonneg gv -> amounts_nonneg gv ->
  total gl = c -> total gv = c ->
  add_grant fixed va gs gl gv c = Some va' -> acct_ok va'.
Proof.
  intros (L1 & L2 & L3 & L4 & V1 & V2 & V3 & V4) G1 G2 G3 G4 G5 G6. unfold add_grant.
  destruct (disjunct (a_start va) (grant_start fixed (a_start va) gs) (a_lock va) gl) as [[ls le] lp] eqn:El.
  destruct (disjunct (a_start va) (grant_start fixed (a_start va) gs) (a_vest va) gv) as [[vs ve] vp] eqn:Ev.
  destruct (disjunct_ok _ _ _ _ _ _ _ L1 L2 G1 G2 El) as (-> & A1 & A2 & A3 & ->).
  destruct (disjunct_ok _ _ _ _ _ _ _ V1 V2 G3 G4 Ev) as (-> & B1 & B2 & B3 & ->).
  rewrite Z.eqb_refl. cbn [negb]. intros [= <-].
  unfold acct_ok. cbn [a_start a_end a_orig a_lock a_vest]. repeat split; try done; lia.
Qed.

Lemma add_grant_ev va gs gl gv c va' :
  add_grant true va gs gl gv c = Some va' ->
  a_orig va' = a_orig va + c /\
  forall tau, unlocked_ev va' tau = unlocked_ev va tau + ev gs gl tau.
Proof.
  unfold add_grant, grant_start.
  destruct (disjunct (a_start va) gs (a_lock va) gl) as [[ls le] lp] eqn:El.
  destruct (disjunct (a_start va) gs (a_vest va) gv) as [[vs ve] vp] eqn:Ev.
  destruct (disjunct_ev _ _ _ _ _ _ _ El) as [-> Hev].
  destruct (negb _); [discriminate|]. intros [= <-]. split; [reflexivity|].
  intros tau. unfold unlocked_ev. cbn [a_start a_lock]. apply Hev.
Qed.

(** * Redeem *)
Definition redeem_accts (fixed : bool) (s : st) (t : Z) (to : N) (den : denom)
           (diff : list period) (x : Z) : option (gmap N acct) :=
  match extract_upcoming (d_start den) (d_end den) diff t with
  | [] => Some (accts s)
  | _ :: _ =>
      match accts s !! to with
      | None => Some (<[to := new_acct (d_start den) x diff [(0, x)]]> (accts s))
      | Some va =>
          match add_grant fixed va (d_start den) diff [(0, x)] x with
          | None => None
          | Some va' => Some (<[to := va']> (accts s))
          end
      end
  end.

Lemma redeem_ok fixed s t from to d x s' : redeem fixed s t from to d x = (s', OK) ->
  exists den dec diff ac,
    0 < x /\ enabled s = true /\ denoms s !! d = Some den /\ x <= hold s d from /\
    subtract_amount (d_periods den) x = Some (dec, diff) /\ x <= escrow s /\
    redeem_accts fixed s t to den diff x = Some ac /\
    s' = mkst ac (<[to := zget (bank s) to + x]> (bank s)) (escrow s - x)
              (if total dec =? 0 then delete d (denoms s)
               else <[d := mkdenom (d_start den) (d_end den) dec]> (denoms s))
              (counter s) (set_hold (liq s) d from (hold s d from - x))
              (<[d := zget (supply s) d - x]> (supply s)) (enabled s) (minliq s).
Proof.
  unfold redeem. intros H.
  destruct (x <=? 0) eqn:Hx; [by inversion H|]. apply Z.leb_gt in Hx.
  destruct (enabled s) eqn:He; cbn in H; [|by inversion H].
  destruct (denoms s !! d) as [den|] eqn:Hd; [|by inversion H].
  destruct (hold s d from <? x) eqn:Hh; [by inversion H|]. apply Z.ltb_ge in Hh.
  destruct (subtract_amount (d_periods den) x) as [[dec diff]|] eqn:Hs; [|by inversion H].
  destruct (escrow s <? x) eqn:Hesc; [by inversion H|]. apply Z.ltb_ge in Hesc.
  assert (H' : match redeem_accts fixed s t to den diff x with
               | None => (s, ERedeemFailed)
               | Some ac =>
                   (mkst ac (<[to := zget (bank s) to + x]> (bank s)) (escrow s - x)
                         (if total dec =? 0 then delete d (denoms s)
                          else <[d := mkdenom (d_start den) (d_end den) dec]> (denoms s))
                         (counter s) (set_hold (liq s) d from (hold s d from - x))
                         (<[d := zget (supply s) d - x]> (supply s)) true (minliq s), OK)
               end = (s', OK)) by exact H.
  clear H. destruct (redeem_accts fixed s t to den diff x) as [ac|] eqn:Hac; [|by inversion H'].
  exists den, dec, diff, ac. inversion H'; subst s'. repeat split; done.
Qed.

Lemma redeem_fail fixed s t from to d x s' r : redeem fixed s t from to d x = (s', r) -> r <> OK -> s' = s.
Proof.
  unfold redeem. intros H Hr.
  repeat match type of H with
         | (if ?c then _ else _) = _ => destruct c; [try by inversion H|try by inversion H]
         | match ?c with _ => _ end = _ => destruct c; [try by inversion H|try by inversion H]
         | (let '(_, _) := ?c in _) = _ => destruct c
         end.
  all: try (inversion H; subst; done).
Qed.

Lemma redeem_accts_ok fixed s t to den dec diff x ac :
  Inv s -> den_ok den -> split3 (d_periods den) dec diff -> total diff = x -> 0 <= x ->
  redeem_accts fixed s t to den diff x = Some ac ->
  forall a va, ac !! a = Some va -> acct_ok va.
Proof.
  intros HI (D1 & D2 & D3) S3 Td Hx. unfold redeem_accts.
  destruct (split3_lens _ _ _ S3) as [_ Mf]. destruct (split3_amounts _ _ _ S3) as (_ & Af & _).
  assert (Lf : lens_nonneg diff) by (eapply lens_ext; eauto).
  assert (G3 : lens_nonneg [(0, x)]) by (constructor; [cbn; lia|constructor]).
  assert (G4 : amounts_nonneg [(0, x)]) by (constructor; [cbn; lia|constructor]).
  assert (G6 : total [(0, x)] = x) by (cbn; lia).
  destruct (extract_upcoming _ _ diff t).
  { intros [= <-]. apply (inv_accts _ HI). }
  destruct (accts s !! to) as [va|] eqn:Hto.
  - destruct (add_grant fixed va (d_start den) diff [(0, x)] x) as [va'|] eqn:Hg; [|discriminate].
    intros [= <-] a va0. rewrite lookup_insert_dec. destruct (decide (to = a)) as [<-|].
    + intros [= <-]. apply (add_grant_ok fixed va (d_start den) diff [(0, x)] x va'); auto.
      apply (inv_accts _ HI _ _ Hto).
    + apply (inv_accts _ HI).
  - intros [= <-] a va0. rewrite lookup_insert_dec. destruct (decide (to = a)) as [<-|].
    + intros [= <-]. apply new_acct_ok; auto.
    + apply (inv_accts _ HI).
Qed.

(** * the invariant is preserved by every step *)
Lemma fresh_supply s : Inv s -> zget (supply s) (counter s) = 0.
Proof.
  intros HI. apply (inv_nodens _ HI).
  destruct (denoms s !! counter s) as [den|] eqn:E; [|done].
  destruct (inv_dens _ HI _ _ E) as (_ & _ & _ & Hlt). lia.
Qed.

Lemma liquidate_inv s t from to x : Inv s -> Inv (fst (liquidate s t from to x)).
Proof.
  intros HI. destruct (liquidate s t from to x) as [s' r] eqn:E. cbn [fst].
  destruct (N.eq_dec r OK) as [->|Hr]; [|by rewrite (liquidate_fail _ _ _ _ _ _ _ E Hr)].
  destruct (liquidate_ok _ _ _ _ _ _ E) as
    (va & dec & diff & decv & dv & Hx & He & Hm & Hva & Hv & Hl0 & Hlx & Hs & Hsv & Hb & ->).
  pose proof (inv_accts _ HI _ _ Hva) as Hok.
  pose proof (liq_time _ _ Hv Hl0) as HT.
  destruct (liq_acct_ok va t x dec diff decv dv Hok HT ltac:(lia) Hs Hsv) as (A1 & A2 & A3).
  pose proof (fresh_supply s HI) as F0.
  split; cbn [accts bank escrow denoms counter liq supply].
  - intros a va0. rewrite lookup_insert_dec. destruct (decide (from = a)) as [<-|].
    + by intros [= <-].
    + apply (inv_accts _ HI).
  - intros d den. rewrite lookup_insert_dec, zget_insert. destruct (decide (counter s = d)) as [<-|].
    + intros [= <-]. split; [exact A2|]. split; [lia|]. split; lia.
    + intros Hd. destruct (inv_dens _ HI _ _ Hd) as (B1 & B2 & B3 & B4).
      split; [exact B1|]. split; [lia|]. split; lia.
  - intros d. rewrite lookup_insert_dec, zget_insert. destruct (decide (counter s = d)) as [<-|]; [done|].
    apply (inv_nodens _ HI).
  - intros d. unfold holders_of. cbn [liq]. rewrite holders_set_hold, zget_insert.
    destruct (decide (counter s = d)) as [<-|]; [|apply (inv_hold _ HI)].
    rewrite msum_insert. pose proof (inv_hold _ HI (counter s)) as Hh. unfold holders_of in Hh. lia.
  - intros d a. unfold hold, holders_of. cbn [liq]. rewrite holders_set_hold.
    destruct (decide (counter s = d)) as [<-|]; [|apply (inv_hold_nonneg _ HI)].
    rewrite zget_insert. pose proof (inv_hold_nonneg _ HI (counter s)) as Hn. unfold hold, holders_of in Hn.
    destruct (decide (to = a)) as [<-|]; [|apply Hn]. specialize (Hn to). lia.
  - rewrite msum_insert. pose proof (inv_backing _ HI). lia.
Qed.

Lemma redeem_inv fixed s t from to d x : Inv s -> Inv (fst (redeem fixed s t from to d x)).
Proof.
  intros HI. destruct (redeem fixed s t from to d x) as [s' r] eqn:E. cbn [fst].
  destruct (N.eq_dec r OK) as [->|Hr]; [|by rewrite (redeem_fail _ _ _ _ _ _ _ _ _ E Hr)].
  destruct (redeem_ok _ _ _ _ _ _ _ _ E) as
    (den & dec & diff & ac & Hx & He & Hd & Hh & Hs & Hesc & Hac & ->).
  destruct (inv_dens _ HI _ _ Hd) as (Dok & Dt & Dpos & Dlt).
  pose proof Dok as (D1 & D2 & D3).
  assert (Hx0 : 0 <= x) by lia.
  destruct (split_exact _ _ _ _ D2 Hx0 Hs) as (S3 & Tf & Td).
  destruct (split3_lens _ _ _ S3) as [Md _]. destruct (split3_amounts _ _ _ S3) as (Ad & _ & _).
  pose proof (total_nonneg _ Ad) as Tdn.
  split; cbn [accts bank escrow denoms counter liq supply].
  - eapply redeem_accts_ok; eauto.
  - intros d' den'. rewrite zget_insert. destruct (decide (d = d')) as [<-|].
    + destruct (total dec =? 0) eqn:Z0.
      * by rewrite lookup_delete.
      * rewrite lookup_insert. intros [= <-]. apply Z.eqb_neq in Z0. cbn [d_periods].
        repeat split; try done; try lia.
        -- cbn [d_periods]. eapply lens_ext; eauto.
        -- cbn [d_start d_end d_periods]. rewrite (total_len_ext _ _ Md). done.
    + intros Hd'. assert (Hd'' : denoms s !! d' = Some den').
      { destruct (total dec =? 0); [by rewrite lookup_delete_ne in Hd'|by rewrite lookup_insert_ne in Hd']. }
      apply (inv_dens _ HI _ _ Hd'').
  - intros d'. rewrite zget_insert. destruct (decide (d = d')) as [<-|].
    + destruct (total dec =? 0) eqn:Z0.
      * apply Z.eqb_eq in Z0. lia.
      * by rewrite lookup_insert.
    + intros Hd'. apply (inv_nodens _ HI).
      destruct (total dec =? 0); [by rewrite lookup_delete_ne in Hd'|by rewrite lookup_insert_ne in Hd'].
  - intros d'. unfold holders_of. cbn [liq]. rewrite holders_set_hold, zget_insert.
    destruct (decide (d = d')) as [<-|]; [|apply (inv_hold _ HI)].
    rewrite msum_insert. pose proof (inv_hold _ HI d) as Hh'. unfold holders_of in Hh'.
    unfold hold, holders_of. lia.
  - intros d' a. unfold hold, holders_of. cbn [liq]. rewrite holders_set_hold.
    destruct (decide (d = d')) as [<-|]; [|apply (inv_hold_nonneg _ HI)].
    rewrite zget_insert. unfold hold, holders_of in Hh.
    destruct (decide (from = a)) as [<-|]; [lia|]. apply (inv_hold_nonneg _ HI).
  - rewrite msum_insert. pose proof (inv_backing _ HI). lia.
Qed.

Lemma xfer_ok s from to d x s' : xfer s from to d x = (s', OK) ->
  0 < x /\ x <= hold s d from /\
  s' = mkst (accts s) (bank s) (escrow s) (denoms s) (counter s)
            (let l1 := set_hold (liq s) d from (hold s d from - x) in
             set_hold l1 d to (zget (default ∅ (l1 !! d)) to + x))
            (supply s) (enabled s) (minliq s).
Proof.
  unfold xfer. intros H.
  destruct (x <=? 0) eqn:Hx; [by inversion H|]. apply Z.leb_gt in Hx.
  destruct (hold s d from <? x) eqn:Hh; [by inversion H|]. apply Z.ltb_ge in Hh.
  inversion H; subst s'. done.
Qed.

Lemma xfer_fail s from to d x s' r : xfer s from to d x = (s', r) -> r <> OK -> s' = s.
Proof.
  unfold xfer. intros H Hr.
  destruct (x <=? 0); [by inversion H|]. destruct (hold s d from <? x); [by inversion H|].
  inversion H; subst; done.
Qed.

Lemma xfer_inv s from to d x : Inv s -> Inv (fst (xfer s from to d x)).
Proof.
  intros HI. destruct (xfer s from to d x) as [s' r] eqn:E. cbn [fst].
  destruct (N.eq_dec r OK) as [->|Hr]; [|by rewrite (xfer_fail _ _ _ _ _ _ _ E Hr)].
  destruct (xfer_ok _ _ _ _ _ _ E) as (Hx & Hh & ->).
  split; cbn [accts bank escrow denoms counter liq supply]; try apply HI.
  - intros d'. unfold holders_of. cbn [liq]. rewrite !holders_set_hold.
    destruct (decide (d = d')) as [<-|]; [|apply (inv_hold _ HI)].
    rewrite decide_True by done. rewrite !msum_insert, zget_insert.
    pose proof (inv_hold _ HI d) as Hs. unfold holders_of in Hs. unfold hold, holders_of.
    destruct (decide (from = to)) as [<-|]; lia.
  - intros d' a. unfold hold, holders_of. cbn [liq]. rewrite !holders_set_hold.
    destruct (decide (d = d')) as [<-|]; [|apply (inv_hold_nonneg _ HI)].
    rewrite decide_True by done. rewrite !zget_insert.
    pose proof (inv_hold_nonneg _ HI d) as Hn. unfold hold, holders_of in Hn, Hh.
    destruct (decide (to = a)) as [<-|].
    + destruct (decide (from = to)) as [<-|]; [lia|]. specialize (Hn to). lia.
    + destruct (decide (from = a)) as [<-|]; [lia|]. apply Hn.
Qed.

Lemma mk_vest_inv s a start lock vest : Inv s -> Inv (fst (mk_vest s a start lock vest)).
Proof.
  intros HI. unfold mk_vest. destruct (accts s !! a) eqn:Ha; [done|].
  destruct (nonneg_periods lock && nonneg_periods vest && (total lock =? total vest)) eqn:G; cbn [negb fst]; [|done].
  apply andb_prop in G as [G G3]. apply andb_prop in G as [G1 G2]. apply Z.eqb_eq in G3.
  destruct (nonneg_periods_spec _ G1). destruct (nonneg_periods_spec _ G2).
  split; cbn [accts bank escrow denoms counter liq supply]; try apply HI.
  intros a' va. rewrite lookup_insert_dec. destruct (decide (a = a')) as [<-|]; [|apply (inv_accts _ HI)].
  intros [= <-]. apply new_acct_ok; auto.
Qed.

Theorem step_inv fixed s o : Inv s -> Inv (fst (step fixed s o)).
Proof.
  intros HI. destruct o; cbn [step].
  - by apply mk_vest_inv.
  - destruct (x <? 0); [done|]. cbn [fst]. split; cbn; apply HI.
  - destruct (minl <=? 0); [done|]. cbn [fst]. split; cbn; apply HI.
  - by apply liquidate_inv.
  - by apply redeem_inv.
  - by apply xfer_inv.
  - done.
Qed.

Theorem run_inv fixed ops : forall s, Inv s -> Inv (run fixed ops s).
Proof.
  induction ops as [|o r IH]; intros s HI; [done|]. cbn. apply IH. by apply step_inv.
Qed.

Theorem step_fail fixed s o s' r : step fixed s o = (s', r) -> r <> OK -> s' = s.
Proof.
  destruct o; cbn [step].
  - unfold mk_vest. destruct (accts s !! a); [by inversion 1|].
    destruct (negb _); [by inversion 1|]. inversion 1; subst. done.
  - destruct (x <? 0); inversion 1; subst; done.
  - destruct (minl <=? 0); inversion 1; subst; done.
  - apply liquidate_fail.
  - apply redeem_fail.
  - apply xfer_fail.
  - inversion 1; subst; done.
Qed.

(** * exact effects *)
Theorem redeem_exact_amount fixed s t from to d x s' :
  step fixed s (Redeem t from to d x) = (s', OK) ->
  0 < x /\ x <= hold s d from /\
  (forall a, zget (bank s') a = zget (bank s) a + (if decide (to = a) then x else 0)) /\
  escrow s' = escrow s - x /\
  (forall d' a, hold s' d' a =
                hold s d' a - (if decide (d = d') then if decide (from = a) then x else 0 else 0)) /\
  (forall d', zget (supply s') d' = zget (supply s) d' - (if decide (d = d') then x else 0)).
Proof.
  cbn [step]. intros E.
  destruct (redeem_ok _ _ _ _ _ _ _ _ E) as (den & dec & diff & ac & Hx & He & Hd & Hh & Hs & Hesc & Hac & ->).
  cbn [bank escrow supply]. repeat split; try done.
  - intros a. rewrite zget_insert. destruct (decide (to = a)) as [<-|]; lia.
  - intros d' a. unfold hold, holders_of. cbn [liq]. rewrite holders_set_hold.
    destruct (decide (d = d')) as [<-|]; [|lia]. rewrite zget_insert.
    destruct (decide (from = a)) as [<-|]; lia.
  - intros d'. rewrite zget_insert. destruct (decide (d = d')) as [<-|]; lia.
Qed.

Theorem liquidate_exact_amount fixed s t from to x s' :
  step fixed s (Liquidate t from to x) = (s', OK) ->
  0 < x /\ minliq s <= x /\ counter s' = (counter s + 1)%N /\
  (forall a, zget (bank s') a = zget (bank s) a - (if decide (from = a) then x else 0)) /\
  escrow s' = escrow s + x /\
  (forall d' a, hold s' d' a =
                hold s d' a + (if decide (counter s = d') then if decide (to = a) then x else 0 else 0)) /\
  (forall d', zget (supply s') d' = zget (supply s) d' + (if decide (counter s = d') then x else 0)).
Proof.
  cbn [step]. intros E.
  destruct (liquidate_ok _ _ _ _ _ _ E) as
    (va & dec & diff & decv & dv & Hx & He & Hm & Hva & Hv & Hl0 & Hlx & Hs & Hsv & Hb & ->).
  cbn [bank escrow supply counter]. repeat split; try done.
  - intros a. rewrite zget_insert. destruct (decide (from = a)) as [<-|]; lia.
  - intros d' a. unfold hold, holders_of. cbn [liq]. rewrite holders_set_hold.
    destruct (decide (counter s = d')) as [<-|]; [|lia]. rewrite zget_insert.
    destruct (decide (to = a)) as [<-|]; lia.
  - intros d'. rewrite zget_insert. destruct (decide (counter s = d')) as [<-|]; lia.
Qed.

(** Liquidate: the periods already past are untouched, the upcoming ones are
    split period by period, the new denom records the moved parts, and in time
    the two schedules together release exactly what the original released. *)
Theorem liquidate_split fixed s t from to x s' :
  Inv s -> step fixed s (Liquidate t from to x) = (s', OK) ->
  exists va va' den k dec diff,
    accts s !! from = Some va /\ accts s' !! from = Some va' /\
    denoms s' !! counter s = Some den /\
    a_start va' = a_start va /\ a_end va' = a_end va /\ a_orig va' = a_orig va - x /\
    a_lock va' = firstn k (a_lock va) ++ dec /\
    split3 (skipn k (a_lock va)) dec diff /\ total diff = x /\
    map pamt (d_periods den) = map pamt diff /\ length (d_periods den) = length diff /\
    d_start den = t /\ a_start va < t < a_end va /\
    (forall tau, ev (d_start den) (d_periods den) tau + unlocked_ev va' tau = unlocked_ev va tau).
Proof.
  cbn [step]. intros HI E.
  destruct (liquidate_ok _ _ _ _ _ _ E) as
    (va & dec & diff & decv & dv & Hx & He & Hm & Hva & Hv & Hl0 & Hlx & Hs & Hsv & Hb & ->).
  pose proof (inv_accts _ HI _ _ Hva) as (L1 & L2 & _).
  pose proof (liq_time _ _ Hv Hl0) as HT.
  assert (Hx0 : 0 <= x) by lia.
  destruct (liq_shape va t x dec diff HT L2 Hx0 Hs) as (S3 & Td & Hrt & Hsh & _).
  exists va, (liq_acct va dec decv x), (liq_denom va t dec diff),
         (past_count_loop (a_start va) t (a_lock va)), dec, diff.
  cbn [accts denoms]. rewrite !lookup_insert.
  repeat split; try done; try lia.
  - unfold liq_denom. cbn [d_periods]. destruct diff; reflexivity.
  - unfold liq_denom. cbn [d_periods]. destruct diff; reflexivity.
  - intros tau. unfold unlocked_ev. cbn [liq_acct a_start a_lock].
    apply (liq_time_split va t x dec diff HT L2 Hx0 Hs).
Qed.

(** * Redeem releases nothing early *)
Definition lock_ev (s : st) (a : N) (t : Z) : Z :=
  match accts s !! a with Some va => unlocked_ev va t | None => 0 end.
Definition orig_of (s : st) (a : N) : Z :=
  match accts s !! a with Some va => a_orig va | None => 0 end.
(** coins of the account that its lockup schedule still holds at time t
    (none for an ordinary account) ... *)
Definition locked_ev (s : st) (a : N) (t : Z) : Z := orig_of s a - lock_ev s a t.
(** ... and the same as the code computes it: GetLockedUpCoins *)
Definition locked_real (s : st) (a : N) (t : Z) : Z :=
  match accts s !! a with Some va => a_orig va - unlocked_at va t | None => 0 end.

Lemma ev_mono ps : amounts_nonneg ps -> forall s t t', t <= t' -> ev s ps t <= ev s ps t'.
Proof.
  induction 1 as [|p r Hp Hr IH]; intros s t t' Ht; cbn; [lia|].
  specialize (IH (s + plen p) t t' Ht).
  destruct (s + plen p <=? t) eqn:A; destruct (s + plen p <=? t') eqn:B; lia.
Qed.

Lemma ev_le_total ps : amounts_nonneg ps -> forall s t, ev s ps t <= total ps.
Proof.
  induction 1 as [|p r Hp Hr IH]; intros s t; cbn; [lia|].
  specialize (IH (s + plen p) t). destruct (s + plen p <=? t); lia.
Qed.

Lemma upcoming_nil_released ds de diff t :
  lens_nonneg diff -> amounts_nonneg diff -> diff <> [] -> de = ds + total_len diff ->
  extract_upcoming ds de diff t = [] ->
  forall tau, t <= tau -> ev ds diff tau = total diff.
Proof.
  intros Hl Ha Hne He. unfold extract_upcoming, past_count.
  destruct (t <=? ds) eqn:A.
  { intros H. exfalso. apply Hne. exact H. }
  destruct (de <=? t) eqn:B.
  { apply Z.leb_le in B. intros _ tau Ht. apply ev_after; [done|lia]. }
  intros Hs tau Ht.
  assert (Hc : past_count_loop ds t diff = length diff).
  { pose proof (past_loop_le ds t diff). pose proof (skipn_length (past_count_loop ds t diff) diff) as SL.
    rewrite Hs in SL. cbn in SL. lia. }
  pose proof (past_loop_all _ _ _ Hc). pose proof (ev_mono _ Ha ds t tau Ht).
  pose proof (ev_le_total _ Ha ds tau). lia.
Qed.

Lemma unlocked_at_le_ev va t : acct_ok va -> unlocked_at va t <= unlocked_ev va t.
Proof.
  intros (L1 & L2 & L3 & L4 & _). unfold unlocked_at, unlocked_ev.
  apply read_schedule_le_ev; auto.
Qed.

Lemma locked_real_ge_ev s a t : Inv s -> locked_ev s a t <= locked_real s a t.
Proof.
  intros HI. unfold locked_ev, locked_real, orig_of, lock_ev.
  destruct (accts s !! a) as [va|] eqn:E; [|lia].
  pose proof (unlocked_at_le_ev va t (inv_accts _ HI _ _ E)). lia.
Qed.

Theorem redeem_no_early_unlock s t from to d x s' :
  Inv s -> step true s (Redeem t from to d x) = (s', OK) ->
  exists den dec diff,
    denoms s !! d = Some den /\
    subtract_amount (d_periods den) x = Some (dec, diff) /\
    split3 (d_periods den) dec diff /\ total diff = x /\
    (* the redeemed part is a part of the liquid denom's schedule *)
    (forall tau, ev (d_start den) diff tau <= ev (d_start den) (d_periods den) tau) /\
    (* the recipient's schedule releases nothing before the liquid schedule does *)
    (forall tau, lock_ev s' to tau <= lock_ev s to tau + ev (d_start den) diff tau) /\
    (* from now on the recipient holds locked exactly what it held locked before
       plus the part of the redeemed amount that the liquid schedule still locks *)
    (forall tau, t <= tau ->
       locked_ev s' to tau = locked_ev s to tau + (x - ev (d_start den) diff tau)) /\
    (* the same bound for the amount the code itself reports as locked *)
    (forall tau, t <= tau ->
       locked_ev s to tau + (x - ev (d_start den) diff tau) <= locked_real s' to tau).
Proof.
  intros HI E. pose proof (step_inv true s (Redeem t from to d x) HI) as HI'. rewrite E in HI'. cbn [fst] in HI'.
  cbn [step] in E.
  destruct (redeem_ok _ _ _ _ _ _ _ _ E) as (den & dec & diff & ac & Hx & He & Hd & Hh & Hs & Hesc & Hac & Hs').
  destruct (inv_dens _ HI _ _ Hd) as ((D1 & D2 & D3) & Dt & Dpos & Dlt).
  assert (Hx0 : 0 <= x) by lia.
  destruct (split_exact _ _ _ _ D2 Hx0 Hs) as (S3 & Tf & Td).
  destruct (split3_lens _ _ _ S3) as [_ Mf]. destruct (split3_amounts _ _ _ S3) as (_ & Af & _).
  assert (Lf : lens_nonneg diff) by (eapply lens_ext; eauto).
  assert (Hne : diff <> []) by (intros ->; cbn in Tf; lia).
  exists den, dec, diff. split; [done|]. split; [done|]. split; [done|]. split; [done|].
  split. { intros tau. apply (split3_ev_le _ _ _ S3). }
  assert (Hacc : accts s' = ac) by (subst s'; reflexivity).
  assert (Core : (forall tau, lock_ev s' to tau <= lock_ev s to tau + ev (d_start den) diff tau) /\
                 (forall tau, t <= tau ->
                    locked_ev s' to tau = locked_ev s to tau + (x - ev (d_start den) diff tau))).
  { unfold locked_ev, orig_of, lock_ev. rewrite Hacc. clear Hs' Hacc HI' E.
    unfold redeem_accts in Hac.
    destruct (extract_upcoming (d_start den) (d_end den) diff t) eqn:Hup.
    - injection Hac as <-. split.
      + intros tau. pose proof (ev_nonneg _ Af (d_start den) tau). lia.
      + intros tau Ht.
        rewrite (upcoming_nil_released (d_start den) (d_end den) diff t Lf Af Hne) ; try done; [lia|].
        rewrite D3. f_equal. destruct (split3_total_len _ _ _ S3) as [_ ->]. done.
    - destruct (accts s !! to) as [va|] eqn:Hto.
      + destruct (add_grant true va (d_start den) diff [(0, x)] x) as [va'|] eqn:Hg; [|discriminate].
        injection Hac as <-. rewrite lookup_insert.
        destruct (add_grant_ev _ _ _ _ _ _ Hg) as [Ho Hev].
        split; intros tau; [|intros _]; rewrite Hev; lia.
      + injection Hac as <-. rewrite lookup_insert. unfold unlocked_ev, new_acct. cbn [a_start a_lock a_orig].
        split; intros tau; [|intros _]; lia. }
  destruct Core as [C1 C2]. split; [exact C1|]. split; [exact C2|].
  intros tau Ht. rewrite <- (C2 tau Ht). apply locked_real_ge_ev, HI'.
Qed.

(** The earlier merge-start computation violated this (finding F1, repaired in
    /repo by commit 83e9993): redeeming into a vesting account that started
    before the liquid denom moves the redeemed coins' release earlier. *)
Definition f1_prefix : list op :=
  [MkVest 0%N 1000 [(1000, 600)] [(0, 600)];
   MkVest 1%N 100 [(5000, 100)] [(0, 100)];
   Liquidate 1100 0%N 2%N 600].
Definition f1_redeem : op := Redeem 1110 2%N 1%N 0%N 600.

Lemma redeem_no_early_unlock_refuted :
  let s := run false f1_prefix init in
  let s' := fst (step false s f1_redeem) in
  snd (step false s f1_redeem) = OK /\
  denoms s !! 0%N = Some (mkdenom 1100 2000 [(900, 600)]) /\
  lock_ev s 1%N 1500 = 0 /\ ev 1100 [(900, 600)] 1500 = 0 /\
  lock_ev s' 1%N 1500 = 600.
Proof. vm_compute. repeat split; reflexivity. Qed.

(** ... while the repaired computation keeps them locked until 2000 *)
Lemma redeem_no_early_unlock_witness_fixed :
  let s := run true f1_prefix init in
  let s' := fst (step true s f1_redeem) in
  snd (step true s f1_redeem) = OK /\
  lock_ev s' 1%N 1500 = 0 /\ lock_ev s' 1%N 1999 = 0 /\ lock_ev s' 1%N 2000 = 600.
Proof. vm_compute. repeat split; reflexivity. Qed.

(** the two computations only differ when the account started before the grant *)
Lemma merge_start_agree va gs gl gv c :
  gs <= a_start va -> add_grant false va gs gl gv c = add_grant true va gs gl gv c.
Proof. intros H. unfold add_grant, grant_start. rewrite Z.min_l by lia. reflexivity. Qed.

(** * non-vacuity: a history in which every kind of step succeeds *)
Definition run_codes (fixed : bool) (ops : list op) (s : st) : list N :=
  snd (fold_left (fun '(s, acc) o => let '(s', r) := step fixed s o in (s', acc ++ [r])) ops (s, [])).

Definition ex_history : list op :=
  [MkVest 0%N 1000 [(100, 30); (100, 30); (100, 30)] [(0, 90)];
   MkVest 1%N 500 [(3000, 100)] [(0, 100)];
   Liquidate 1050 0%N 2%N 40;
   Xfer 2%N 3%N 0%N 10;
   Redeem 1060 2%N 1%N 0%N 15;     (* into an existing vesting account with an earlier start *)
   Redeem 1070 3%N 3%N 0%N 4;      (* into an ordinary account *)
   Redeem 1300 2%N 2%N 0%N 15;     (* after the schedule's end: coins arrive free *)
   Redeem 1301 3%N 0%N 0%N 6].     (* last tokens: the denom is deleted *)

Example ex_history_all_ok : run_codes true ex_history init = [OK; OK; OK; OK; OK; OK; OK; OK].
Proof. vm_compute. reflexivity. Qed.

Example ex_history_final :
  let s := run true ex_history init in
  escrow s = 0 /\ denoms s !! 0%N = None /\ zget (bank s) 0%N = 56 /\ zget (bank s) 3%N = 4.
Proof. vm_compute. repeat split; reflexivity. Qed.

Example ex_split_nonvacuous :
  subtract_amount [(100, 10); (100, 0); (100, 1); (5, 1)] 7
  = Some ([(100, 5); (100, 0); (100, 0); (5, 0)], [(100, 5); (100, 0); (100, 1); (5, 1)])
  /\ residue_of [(100, 10); (100, 0); (100, 1); (5, 1)] 7 = 2.
Proof. vm_compute. split; reflexivity. Qed.

(** the event sum is what the account's own GetUnlockedCoins computes (except at
    the very second of the start time, where the code does not yet count a
    zero-length first period) *)
Lemma unlocked_at_eq_ev va t : acct_ok va -> t <> a_start va -> unlocked_at va t = unlocked_ev va t.
Proof.
  intros (L1 & L2 & L3 & L4 & _) Ht. unfold unlocked_at, unlocked_ev.
  apply read_schedule_eq_ev; auto.
Qed.

(** * statements over all histories (the forms closed in Props/C11.v) *)
Lemma inv_reachable ops : Inv (run true ops init).
Proof. exact (run_inv true ops init inv_init). Qed.

Lemma backing_all_histories ops :
  let s := run true ops init in
  msum (supply s) = escrow s /\
  (forall d, msum (holders_of s d) = zget (supply s) d) /\
  (forall d a, 0 <= hold s d a).
Proof.
  intros s. pose proof (inv_reachable ops) as H.
  exact (conj (inv_backing _ H) (conj (inv_hold _ H) (inv_hold_nonneg _ H))).
Qed.

Lemma schedule_sums_all_histories ops d :
  let s := run true ops init in
  match denoms s !! d with
  | Some den => total (d_periods den) = zget (supply s) d /\ 0 < zget (supply s) d /\
                (d < counter s)%N /\ den_ok den
  | None => zget (supply s) d = 0
  end.
Proof.
  intros s. pose proof (inv_reachable ops) as H. fold s in H.
  destruct (denoms s !! d) as [den|] eqn:E.
  - destruct (inv_dens _ H _ _ E) as (A & B & C & D). exact (conj B (conj C (conj D A))).
  - exact (inv_nodens _ H _ E).
Qed.

Lemma accounts_valid_all_histories ops a va : accts (run true ops init) !! a = Some va -> acct_ok va.
Proof. exact (inv_accts _ (inv_reachable ops) a va). Qed.

Lemma liquidate_split_all_histories ops t from to x s' :
  let s := run true ops init in
  step true s (Liquidate t from to x) = (s', OK) ->
  exists va va' den k dec diff,
    accts s !! from = Some va /\ accts s' !! from = Some va' /\
    denoms s' !! counter s = Some den /\
    a_start va' = a_start va /\ a_end va' = a_end va /\ a_orig va' = a_orig va - x /\
    a_lock va' = firstn k (a_lock va) ++ dec /\
    split3 (skipn k (a_lock va)) dec diff /\ total diff = x /\
    map pamt (d_periods den) = map pamt diff /\ length (d_periods den) = length diff /\
    d_start den = t /\ a_start va < t < a_end va /\
    (forall tau, ev (d_start den) (d_periods den) tau + unlocked_ev va' tau = unlocked_ev va tau).
Proof. intros s. exact (liquidate_split true s t from to x s' (inv_reachable ops)). Qed.

Lemma redeem_no_early_unlock_all_histories ops t from to d x s' :
  let s := run true ops init in
  step true s (Redeem t from to d x) = (s', OK) ->
  exists den dec diff,
    denoms s !! d = Some den /\
    subtract_amount (d_periods den) x = Some (dec, diff) /\
    split3 (d_periods den) dec diff /\ total diff = x /\
    (forall tau, ev (d_start den) diff tau <= ev (d_start den) (d_periods den) tau) /\
    (forall tau, lock_ev s' to tau <= lock_ev s to tau + ev (d_start den) diff tau) /\
    (forall tau, t <= tau ->
       locked_ev s' to tau = locked_ev s to tau + (x - ev (d_start den) diff tau)) /\
    (forall tau, t <= tau ->
       locked_ev s to tau + (x - ev (d_start den) diff tau) <= locked_real s' to tau).
Proof. intros s. exact (redeem_no_early_unlock s t from to d x s' (inv_reachable ops)). Qed.

Lemma split3_meaning o d f : split3 o d f ->
  length d = length o /\ length f = length o /\
  forall i, (i < length o)%nat ->
    plen (nth i d (0, 0)) = plen (nth i o (0, 0)) /\ plen (nth i f (0, 0)) = plen (nth i o (0, 0)) /\
    pamt (nth i d (0, 0)) + pamt (nth i f (0, 0)) = pamt (nth i o (0, 0)) /\
    0 <= pamt (nth i d (0, 0)) /\ 0 <= pamt (nth i f (0, 0)).
Proof.
  intros H. destruct (split3_length o d f H) as [A B]. split; [exact A|]. split; [exact B|].
  exact (split3_nth o d f H).
Qed.

Lemma event_sum_is_unlocked va t : acct_ok va ->
  unlocked_at va t <= unlocked_ev va t /\ (t <> a_start va -> unlocked_at va t = unlocked_ev va t).
Proof. intros H. exact (conj (unlocked_at_le_ev va t H) (unlocked_at_eq_ev va t H)). Qed.

Lemma nonvacuous_history :
  run_codes true ex_history init = [OK; OK; OK; OK; OK; OK; OK; OK] /\
  (let s := run true ex_history init in
   escrow s = 0 /\ denoms s !! 0%N = None /\ zget (bank s) 0%N = 56 /\ zget (bank s) 3%N = 4).
Proof. exact (conj ex_history_all_ok ex_history_final). Qed.

(** * a liquid denom's recorded schedule only ever shrinks, index-wise; its start
    and end never move; a deleted denom never comes back *)
Lemma step_denoms_cases fixed s o s' r :
  Inv s -> step fixed s o = (s', r) ->
  (counter s <= counter s')%N /\
  forall d, (d < counter s)%N ->
    match denoms s !! d, denoms s' !! d with
    | Some den, Some den' =>
        d_start den' = d_start den /\ d_end den' = d_end den /\
        forall tau, ev (d_start den') (d_periods den') tau <= ev (d_start den) (d_periods den) tau
    | None, Some _ => False
    | _, None => True
    end.
Proof.
  intros HI E.
  assert (Same : denoms s' = denoms s -> counter s' = counter s ->
          (counter s <= counter s')%N /\
          forall d, (d < counter s)%N ->
            match denoms s !! d, denoms s' !! d with
            | Some den, Some den' =>
                d_start den' = d_start den /\ d_end den' = d_end den /\
                forall tau, ev (d_start den') (d_periods den') tau <= ev (d_start den) (d_periods den) tau
            | None, Some _ => False
            | _, None => True
            end).
  { intros -> ->. split; [lia|]. intros d _. destruct (denoms s !! d); [|done]. repeat split; try done; intros; lia. }
  destruct (N.eq_dec r OK) as [->|Hr].
  2: { assert (s' = s) as -> by exact (step_fail _ _ _ _ _ E Hr). by apply Same. }
  destruct o; cbn [step] in E.
  - unfold mk_vest in E. destruct (accts s !! a); [by inversion E|].
    destruct (negb _); [by inversion E|]. inversion E; subst s'. by apply Same.
  - destruct (x <? 0); inversion E; subst s'; by apply Same.
  - destruct (minl <=? 0); inversion E; subst s'; by apply Same.
  - destruct (liquidate_ok _ _ _ _ _ _ E) as
      (va & dec & diff & decv & dv & Hx & He & Hm & Hva & Hv & Hl0 & Hlx & Hs & Hsv & Hb & ->).
    cbn [denoms counter]. split; [lia|]. intros d Hd. rewrite lookup_insert_ne by lia.
    destruct (denoms s !! d); [|done]. repeat split; try done; intros; lia.
  - destruct (redeem_ok _ _ _ _ _ _ _ _ E) as (den & dec & diff & ac & Hx & He & Hd & Hh & Hs & Hesc & Hac & ->).
    cbn [denoms counter]. split; [lia|]. intros d' Hd'.
    destruct (inv_dens _ HI _ _ Hd) as ((D1 & D2 & D3) & _).
    assert (Hx0 : 0 <= x) by lia.
    destruct (split_exact _ _ _ _ D2 Hx0 Hs) as (S3 & _ & _).
    destruct (decide (d = d')) as [<-|Hne].
    + rewrite Hd. destruct (total dec =? 0); [by rewrite lookup_delete|].
      rewrite lookup_insert. cbn [d_start d_end d_periods]. repeat split; try done.
      intros tau. apply (split3_ev_le _ _ _ S3).
    + assert (Hl : (if total dec =? 0 then delete d (denoms s)
                    else <[d := mkdenom (d_start den) (d_end den) dec]> (denoms s)) !! d' = denoms s !! d').
      { destruct (total dec =? 0); [by rewrite lookup_delete_ne|by rewrite lookup_insert_ne]. }
      rewrite Hl. destruct (denoms s !! d'); [|done]. repeat split; try done; intros; lia.
  - destruct (xfer_ok _ _ _ _ _ _ E) as (_ & _ & ->). by apply Same.
  - inversion E; subst s'. by apply Same.
Qed.

Theorem denom_schedule_only_shrinks fixed ops : forall s d den den',
  Inv s -> denoms s !! d = Some den -> denoms (run fixed ops s) !! d = Some den' ->
  d_start den' = d_start den /\ d_end den' = d_end den /\
  forall tau, ev (d_start den') (d_periods den') tau <= ev (d_start den) (d_periods den) tau.
Proof.
  assert (Dead : forall ops s d, Inv s -> (d < counter s)%N -> denoms s !! d = None ->
                                 denoms (run fixed ops s) !! d = None).
  { clear ops. induction ops as [|o r IH]; intros s d HI Hd Hn; [done|]. cbn [run fold_left].
    destruct (step fixed s o) as [s1 r1] eqn:E. cbn [fst].
    destruct (step_denoms_cases fixed s o s1 r1 HI E) as [Hc Hcases].
    pose proof (step_inv fixed s o HI) as HI1. rewrite E in HI1. cbn [fst] in HI1.
    apply (IH s1 d HI1); [lia|]. specialize (Hcases d Hd). rewrite Hn in Hcases.
    destruct (denoms s1 !! d); [done|done]. }
  induction ops as [|o r IH]; intros s d den den' HI Hd Hd'.
  - cbn in Hd'. rewrite Hd in Hd'. injection Hd' as <-. repeat split; try done; intros; lia.
  - cbn [run fold_left] in Hd'. destruct (step fixed s o) as [s1 r1] eqn:E. cbn [fst] in Hd'.
    destruct (step_denoms_cases fixed s o s1 r1 HI E) as [Hc Hcases].
    pose proof (step_inv fixed s o HI) as HI1. rewrite E in HI1. cbn [fst] in HI1.
    destruct (inv_dens _ HI _ _ Hd) as (_ & _ & _ & Hlt).
    specialize (Hcases d Hlt). rewrite Hd in Hcases.
    destruct (denoms s1 !! d) as [den1|] eqn:E1.
    + destruct Hcases as (A & B & C).
      destruct (IH s1 d den1 den' HI1 E1 Hd') as (A' & B' & C').
      repeat split; try congruence. intros tau. specialize (C tau). specialize (C' tau).
      rewrite A' in C'. rewrite A' , A in *. lia.
    + assert (Hlt1 : (d < counter s1)%N) by lia.
      pose proof (Dead r s1 d HI1 Hlt1 E1) as Hdead. fold (run fixed r s1) in Hd'. congruence.
Qed.

Lemma run_app fixed a b s : run fixed (a ++ b) s = run fixed b (run fixed a s).
Proof. unfold run. apply fold_left_app. Qed.

Lemma denom_shrinks_all_histories ops1 ops2 d den den' :
  denoms (run true ops1 init) !! d = Some den ->
  denoms (run true (ops1 ++ ops2) init) !! d = Some den' ->
  d_start den' = d_start den /\ d_end den' = d_end den /\
  forall tau, ev (d_start den') (d_periods den') tau <= ev (d_start den) (d_periods den) tau.
Proof.
  rewrite run_app. apply denom_schedule_only_shrinks, inv_reachable.
Qed.
