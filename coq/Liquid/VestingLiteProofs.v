(** DisjunctPeriods is the union of the events of its two arguments, at their
    absolute times (no hypothesis on the period lengths), and produces a
    well-formed schedule from well-formed ones. *)
From Coq Require Import ZArith List Bool Lia.
From HV Require Import Liquid.SplitModel Liquid.VestingLite Liquid.SplitProofs.
Import ListNotations.
Local Open Scope Z_scope.

Lemma disj_nil_l ta pb tb e : disj [] ta pb tb e = disj_rest pb tb e.
Proof. destruct pb; reflexivity. Qed.
Lemma disj_nil_r a ra ta tb e : disj (a :: ra) ta [] tb e = disj_rest (a :: ra) ta e.
Proof. reflexivity. Qed.
Lemma disj_cons a ra ta b rb tb e :
  disj (a :: ra) ta (b :: rb) tb e =
  let na := ta + plen a in
  let nb := tb + plen b in
  if na <? nb then
    let '(e', r) := disj ra na (b :: rb) tb na in (e', (na - e, pamt a) :: r)
  else if nb <? na then
    let '(e', r) := disj (a :: ra) ta rb nb nb in (e', (nb - e, pamt b) :: r)
  else
    let '(e', r) := disj ra na rb na na in (e', (na - e, pamt a + pamt b) :: r).
Proof. reflexivity. Qed.

Lemma ev_emit e n x r t : ev e ((n - e, x) :: r) t = (if n <=? t then x else 0) + ev n r t.
Proof. cbn. replace (e + (n - e)) with n by lia. reflexivity. Qed.

Lemma disj_rest_ev ps : forall t e tau, ev e (snd (disj_rest ps t e)) tau = ev t ps tau.
Proof.
  induction ps as [|p r IH]; intros t e tau; [reflexivity|].
  cbn [disj_rest]. specialize (IH (t + plen p) (t + plen p) tau).
  destruct (disj_rest r (t + plen p) (t + plen p)) as [e' r']. cbn [snd] in *.
  rewrite ev_emit, IH. reflexivity.
Qed.

Theorem disj_ev pa : forall ta pb tb e tau,
  ev e (snd (disj pa ta pb tb e)) tau = ev ta pa tau + ev tb pb tau.
Proof.
  induction pa as [|a ra IHa]; intros ta pb tb e tau.
  - rewrite disj_nil_l, disj_rest_ev. reflexivity.
  - revert tb e. induction pb as [|b rb IHb]; intros tb e.
    + rewrite disj_nil_r, disj_rest_ev. cbn [ev]. lia.
    + rewrite disj_cons. cbv zeta.
      destruct (ta + plen a <? tb + plen b) eqn:C1.
      * specialize (IHa (ta + plen a) (b :: rb) tb (ta + plen a) tau).
        destruct (disj ra (ta + plen a) (b :: rb) tb (ta + plen a)) as [e' r]. cbn [snd] in *.
        rewrite ev_emit, IHa. cbn [ev]. lia.
      * destruct (tb + plen b <? ta + plen a) eqn:C2.
        -- specialize (IHb (tb + plen b) (tb + plen b)).
           destruct (disj (a :: ra) ta rb (tb + plen b) (tb + plen b)) as [e' r]. cbn [snd] in *.
           rewrite ev_emit, IHb. cbn [ev]. lia.
        -- apply Z.ltb_ge in C1. apply Z.ltb_ge in C2.
           assert (E : tb + plen b = ta + plen a) by lia.
           specialize (IHa (ta + plen a) rb (ta + plen a) (ta + plen a) tau).
           destruct (disj ra (ta + plen a) rb (ta + plen a) (ta + plen a)) as [e' r]. cbn [snd] in *.
           rewrite ev_emit, IHa. cbn [ev]. rewrite E.
           destruct (ta + plen a <=? tau); lia.
Qed.

Corollary disjunct_ev sa sb pa pb s e ps :
  disjunct sa sb pa pb = (s, e, ps) ->
  s = Z.min sa sb /\ forall t, ev s ps t = ev sa pa t + ev sb pb t.
Proof.
  unfold disjunct. pose proof (disj_ev pa sa pb sb (Z.min sa sb)) as H.
  destruct (disj pa sa pb sb (Z.min sa sb)) as [e' ps']. cbn [snd] in H.
  intros [= <- <- <-]. split; [reflexivity|exact H].
Qed.

(** ---- well-formedness of the result ---- *)
Definition first_ge (e t : Z) (ps : list period) : Prop :=
  match ps with [] => True | p :: _ => e <= t + plen p end.

(** [wf_out e r]: lengths >= 0, amounts >= 0 *)
Record out_ok (tot : Z) (e : Z) (res : Z * list period) : Prop := {
  oo_lens : lens_nonneg (snd res);
  oo_amts : amounts_nonneg (snd res);
  oo_total : total (snd res) = tot;
  oo_end : fst res = e + total_len (snd res)
}.

Lemma disj_rest_ok ps : lens_nonneg ps -> amounts_nonneg ps ->
  forall t e, first_ge e t ps -> out_ok (total ps) e (disj_rest ps t e).
Proof.
  intros Hl Ha. induction Hl as [|p r Hp Hr IH]; intros t e Hf.
  - cbn. split; cbn; try constructor; lia.
  - inversion Ha as [|? ? Hpa Hra]; subst. cbn [disj_rest].
    specialize (IH Hra (t + plen p) (t + plen p)).
    assert (F : first_ge (t + plen p) (t + plen p) r).
    { destruct r as [|q r']; cbn; [exact I|]. inversion Hr; subst. lia. }
    specialize (IH F). destruct (disj_rest r (t + plen p) (t + plen p)) as [e' r'].
    destruct IH as [I1 I2 I3 I4]. cbn [fst snd] in *. cbn in Hf.
    split; cbn [fst snd total total_len plen pamt]; try (constructor; cbn; auto; lia); lia.
Qed.

Lemma first_ge_tail t p r : lens_nonneg (p :: r) -> first_ge (t + plen p) (t + plen p) r.
Proof.
  intros H. destruct r as [|q r']; cbn; [exact I|].
  inversion H as [|? ? _ H2]; subst. inversion H2; subst. lia.
Qed.

Lemma disj_ok pa : lens_nonneg pa -> amounts_nonneg pa ->
  forall ta pb, lens_nonneg pb -> amounts_nonneg pb ->
  forall tb e, first_ge e ta pa -> first_ge e tb pb ->
  out_ok (total pa + total pb) e (disj pa ta pb tb e).
Proof.
  intros Hla Haa. induction Hla as [|a ra Hpa Hra IHa]; intros ta pb Hlb Hab tb e Fa Fb.
  - rewrite disj_nil_l. cbn [total]. apply disj_rest_ok; auto.
  - inversion Haa as [|? ? Ha0 Har]; subst.
    revert tb e Fa Fb. induction Hlb as [|b rb Hpb Hrb IHb]; intros tb e Fa Fb.
    + rewrite disj_nil_r. cbn [total]. replace (pamt a + total ra + 0) with (total (a :: ra)) by (cbn; lia).
      apply disj_rest_ok; auto. constructor; auto.
    + inversion Hab as [|? ? Hb0 Hbr]; subst.
      rewrite disj_cons. cbv zeta. cbn in Fa, Fb.
      assert (Hla' : lens_nonneg (a :: ra)) by (constructor; auto).
      assert (Hlb' : lens_nonneg (b :: rb)) by (constructor; auto).
      destruct (ta + plen a <? tb + plen b) eqn:C1.
      * apply Z.ltb_lt in C1.
        assert (X := IHa Har (ta + plen a) (b :: rb) Hlb' Hab tb (ta + plen a)
                         (first_ge_tail ta a ra Hla') ltac:(cbn; lia)).
        destruct (disj ra (ta + plen a) (b :: rb) tb (ta + plen a)) as [e' r].
        destruct X as [I1 I2 I3 I4]. cbn [fst snd total] in *.
        split; cbn [fst snd total total_len plen pamt]; try (constructor; cbn; auto; lia); lia.
      * destruct (tb + plen b <? ta + plen a) eqn:C2.
        -- apply Z.ltb_lt in C2.
           assert (X := IHb Hbr (tb + plen b) (tb + plen b) ltac:(cbn; lia)
                            (first_ge_tail tb b rb Hlb')).
           destruct (disj (a :: ra) ta rb (tb + plen b) (tb + plen b)) as [e' r].
           destruct X as [I1 I2 I3 I4]. cbn [fst snd total] in *.
           split; cbn [fst snd total total_len plen pamt]; try (constructor; cbn; auto; lia); lia.
        -- apply Z.ltb_ge in C1. apply Z.ltb_ge in C2.
           assert (E : tb + plen b = ta + plen a) by lia.
           assert (Fb' : first_ge (ta + plen a) (ta + plen a) rb).
           { rewrite <- E. apply (first_ge_tail tb b rb Hlb'). }
           assert (X := IHa Har (ta + plen a) rb Hrb Hbr (ta + plen a) (ta + plen a)
                            (first_ge_tail ta a ra Hla') Fb').
           destruct (disj ra (ta + plen a) rb (ta + plen a) (ta + plen a)) as [e' r].
           destruct X as [I1 I2 I3 I4]. cbn [fst snd total] in *.
           split; cbn [fst snd total total_len plen pamt]; try (constructor; cbn; auto; lia); lia.
Qed.

Lemma first_ge_start s t ps : s <= t -> lens_nonneg ps -> first_ge s t ps.
Proof. intros H Hl. destruct ps; cbn; [exact I|]. inversion Hl; subst. lia. Qed.

Corollary disjunct_ok sa sb pa pb s e ps :
  lens_nonneg pa -> amounts_nonneg pa -> lens_nonneg pb -> amounts_nonneg pb ->
  disjunct sa sb pa pb = (s, e, ps) ->
  s = Z.min sa sb /\ lens_nonneg ps /\ amounts_nonneg ps /\
  total ps = total pa + total pb /\ e = s + total_len ps.
Proof.
  intros Hla Haa Hlb Hab. unfold disjunct.
  pose proof (disj_ok pa Hla Haa sa pb Hlb Hab sb (Z.min sa sb)
                      (first_ge_start _ _ _ (Z.le_min_l sa sb) Hla)
                      (first_ge_start _ _ _ (Z.le_min_r sa sb) Hlb)) as X.
  destruct (disj pa sa pb sb (Z.min sa sb)) as [e' ps']. destruct X as [I1 I2 I3 I4].
  cbn [fst snd] in *. intros [= <- <- <-]. auto.
Qed.
