(** The part of x/vesting that liquid vesting uses (property C11), written here
    with [lv_] / local names because the full vesting model (property C09) is
    built separately: ReadSchedule, DisjunctPeriods, the clawback vesting
    account's derived amounts, and the two cases of ApplyVestingSchedule that
    Redeem reaches.  One denomination (aISLM).  Definitions only. *)
From Coq Require Import ZArith List Bool.
From HV Require Import Liquid.SplitModel.
Import ListNotations.
Local Open Scope Z_scope.

(** x/vesting/types/schedule.go ReadSchedule: the loop ... *)
Fixpoint read_loop (elapsed t : Z) (ps : list period) : Z :=
  match ps with
  | [] => 0
  | p :: r => if t <? elapsed + plen p then 0 else pamt p + read_loop (elapsed + plen p) t r
  end.
(** ... and the two shortcuts *)
Definition read_schedule (s e : Z) (ps : list period) (tot t : Z) : Z :=
  if t <=? s then 0 else if e <=? t then tot else read_loop s t ps.

(** Reference semantics of a schedule (specification side, not code): the sum
    of the amounts of all events whose absolute time is <= t. *)
Fixpoint ev (s : Z) (ps : list period) (t : Z) : Z :=
  match ps with
  | [] => 0
  | p :: r => (if s + plen p <=? t then pamt p else 0) + ev (s + plen p) r t
  end.

(** DisjunctPeriods: the two-pointer merge with the accumulators of the Go
    closures ([ta], [tb] = time of the last merged event of each schedule, [e] =
    endTime = time of the last emitted event). *)
Fixpoint disj_rest (ps : list period) (t e : Z) : Z * list period :=
  match ps with
  | [] => (e, [])
  | p :: r => let n := t + plen p in
              let '(e', r') := disj_rest r n n in (e', (n - e, pamt p) :: r')
  end.

Fixpoint disj (pa : list period) (ta : Z) {struct pa} : list period -> Z -> Z -> Z * list period :=
  fix inner (pb : list period) (tb e : Z) {struct pb} : Z * list period :=
    match pa with
    | [] => disj_rest pb tb e
    | a :: ra =>
        match pb with
        | [] => disj_rest (a :: ra) ta e
        | b :: rb =>
            let na := ta + plen a in
            let nb := tb + plen b in
            if na <? nb then
              let '(e', r) := disj ra na (b :: rb) tb na in (e', (na - e, pamt a) :: r)
            else if nb <? na then
              let '(e', r) := inner rb nb nb in (e', (nb - e, pamt b) :: r)
            else
              let '(e', r) := disj ra na rb na na in (e', (na - e, pamt a + pamt b) :: r)
        end
    end.

(** (startTime, endTime, periods) *)
Definition disjunct (sa sb : Z) (pa pb : list period) : Z * Z * list period :=
  let s := Z.min sa sb in
  let '(e, ps) := disj pa sa pb sb s in (s, e, ps).

(** ClawbackVestingAccount, one denomination, nothing delegated *)
Record acct := mkacct {
  a_start : Z;
  a_end   : Z;
  a_orig  : Z;                 (* OriginalVesting *)
  a_lock  : list period;       (* LockupPeriods *)
  a_vest  : list period        (* VestingPeriods *)
}.

Definition unlocked_at (a : acct) (t : Z) : Z :=          (* GetUnlockedCoins *)
  read_schedule (a_start a) (a_end a) (a_lock a) (a_orig a) t.
Definition vested_at (a : acct) (t : Z) : Z :=            (* GetVestedCoins *)
  read_schedule (a_start a) (a_end a) (a_vest a) (a_orig a) t.
(** LockedCoins with DelegatedFree = DelegatedVesting = 0:
    OriginalVesting - min(unlocked, vested), the empty set if that is negative *)
Definition locked_coins (a : acct) (t : Z) : Z :=
  Z.max 0 (a_orig a - Z.min (unlocked_at a t) (vested_at a t)).

(** NewClawbackVestingAccount (AlignSchedules with equal start times) *)
Definition new_acct (start orig : Z) (lock vest : list period) : acct :=
  mkacct start (Z.max (start + total_len lock) (start + total_len vest)) orig lock vest.

(** addGrant as called by ApplyVestingSchedule's merge case.
    [fixed = true]: the grant keeps its own start time (the tree after commit
    83e9993); [fixed = false]: the earlier code passed
    min(grantStart, accountStart) as the start of the grant's periods. *)
Definition grant_start (fixed : bool) (acc_start gs : Z) : Z :=
  if fixed then gs else Z.min gs acc_start.

Definition add_grant (fixed : bool) (a : acct) (gs : Z) (glock gvest : list period) (coins : Z)
  : option acct :=
  let g := grant_start fixed (a_start a) gs in
  let '(ls, le, lp) := disjunct (a_start a) g (a_lock a) glock in
  let '(vs, ve, vp) := disjunct (a_start a) g (a_vest a) gvest in
  if negb (ls =? vs) then None else
  Some (mkacct ls (Z.max le ve) (a_orig a + coins) lp vp).

(** the event-sum view of an account's lockup schedule *)
Definition unlocked_ev (a : acct) (t : Z) : Z := ev (a_start a) (a_lock a) t.

(** The same merge with the account end computed as
    max(OLD account end, end of the merged VESTING periods) — a shape that looks
    harmless ("a grant can only move the end further away") but forgets the end of
    the merged LOCKUP periods.  Kept beside [add_grant] only to state what goes
    wrong with it (Props/C11.v, [C11_merge_end_rule_refuted]); [add_grant] above is
    the code of /repo. *)
Definition add_grant_oldend (a : acct) (gs : Z) (glock gvest : list period) (coins : Z)
  : option acct :=
  let '(ls, _, lp) := disjunct (a_start a) gs (a_lock a) glock in
  let '(_, ve, vp) := disjunct (a_start a) gs (a_vest a) gvest in
  Some (mkacct ls (Z.max (a_end a) ve) (a_orig a + coins) lp vp).

(** GetLockedUpCoins: OriginalVesting - GetUnlockedCoins *)
Definition lockedup_at (a : acct) (t : Z) : Z := a_orig a - unlocked_at a t.
