(** Liquid vesting (property C11): executable model of the message server
    x/liquidvesting/keeper/msg_server.go (Liquidate, Redeem), the denom registry
    keeper/denom.go, the module escrow and the liquid-token balances.
    Definitions only; proofs are in KeeperProofs.v.

    Abstractions (tied to /repo by the correspondence run, not verified):
    - one native denomination (aISLM); liquid denominations aLIQUID<n> are
      identified with their counter value n;
    - a holder's liquid tokens are the sum of the bank balance and the ERC20
      balance of the registered token pair (Liquidate converts the minted coins
      to ERC20, Redeem converts back what it needs);
    - nothing is delegated; every address used already has an (Eth) account;
    - a failed message has no effect (baseapp runs it on a cache). *)
From stdpp Require Import gmap.
From Coq Require Import ZArith List Bool.
From HV Require Import Liquid.SplitModel Liquid.VestingLite.
Import ListNotations.
Local Open Scope Z_scope.

Definition zget (m : gmap N Z) (k : N) : Z := default 0 (m !! k).

(** types.Denom: StartTime, EndTime, LockupPeriods (OriginalDenom is aISLM) *)
Record denom := mkdenom {
  d_start : Z;
  d_end : Z;
  d_periods : list period
}.

Record st := mkst {
  accts   : gmap N acct;          (* clawback vesting accounts; absent = ordinary account *)
  bank    : gmap N Z;             (* aISLM bank balances of the users *)
  escrow  : Z;                    (* aISLM bank balance of the liquidvesting module account *)
  denoms  : gmap N denom;         (* liquid denom registry *)
  counter : N;                    (* denom counter *)
  liq     : gmap N (gmap N Z);    (* liquid denom -> holder -> tokens *)
  supply  : gmap N Z;             (* bank supply of every liquid denom *)
  enabled : bool;                 (* params.EnableLiquidVesting *)
  minliq  : Z                     (* params.MinimumLiquidationAmount *)
}.

Definition init : st := mkst ∅ ∅ 0 ∅ 0%N ∅ ∅ true 1.

Definition holders_of (s : st) (d : N) : gmap N Z := default ∅ (liq s !! d).
Definition hold (s : st) (d a : N) : Z := zget (holders_of s d) a.
Definition set_hold (l : gmap N (gmap N Z)) (d a : N) (v : Z) : gmap N (gmap N Z) :=
  <[d := <[a := v]> (default ∅ (l !! d))]> l.

Inductive op :=
| MkVest (a : N) (start : Z) (lock vest : list period)   (* harness set-up: account + funding *)
| Fund (a : N) (x : Z)                                   (* harness set-up: free aISLM *)
| SetParams (en : bool) (minl : Z)
| Liquidate (t : Z) (from to : N) (x : Z)                (* MsgLiquidate at block time t *)
| Redeem (t : Z) (from to : N) (d : N) (x : Z)           (* MsgRedeem at block time t *)
| Xfer (from to : N) (d : N) (x : Z)                     (* liquid tokens change hands *)
| Probe (ts : list Z).                                   (* the block time advances through ts; no message *)

(* result codes, as the harness maps the Go errors *)
Definition OK : N := 0.
Definition EDisabled : N := 1.            (* ErrModuleIsDisabled *)
Definition EInvalidRequest : N := 2.      (* sdkerrors.ErrInvalidRequest *)
Definition ENotFound : N := 3.            (* sdkerrors.ErrNotFound *)
Definition ELiquidationFailed : N := 4.   (* ErrLiquidationFailed *)
Definition EInvalidCoins : N := 5.        (* ValidateBasic *)
Definition ERedeemFailed : N := 6.        (* ErrRedeemFailed *)
Definition EInsufficient : N := 7.        (* bank: insufficient funds *)
Definition ESetup : N := 8.               (* set-up op refused by the harness *)

Definition nonneg_periods (ps : list period) : bool :=
  forallb (fun p => (0 <=? plen p) && (0 <=? pamt p)) ps.

Definition mk_vest (s : st) (a : N) (start : Z) (lock vest : list period) : st * N :=
  match accts s !! a with
  | Some _ => (s, ESetup)
  | None =>
      if negb (nonneg_periods lock && nonneg_periods vest && (total lock =? total vest))
      then (s, ESetup) else
      let va := new_acct start (total lock) lock vest in
      (mkst (<[a := va]> (accts s)) (<[a := zget (bank s) a + total lock]> (bank s)) (escrow s)
            (denoms s) (counter s) (liq s) (supply s) (enabled s) (minliq s), OK)
  end.

Definition liquidate (s : st) (t : Z) (from to : N) (x : Z) : st * N :=
  if x <=? 0 then (s, EInvalidCoins) else
  if negb (enabled s) then (s, EDisabled) else
  if x <? minliq s then (s, EInvalidRequest) else
  match accts s !! from with
  | None => (s, EInvalidRequest)                                   (* "account is regular" *)
  | Some va =>
      if negb (a_orig va - vested_at va t =? 0) then (s, EInvalidRequest) else   (* vesting ongoing *)
      let locked := a_orig va - unlocked_at va t in
      if locked <=? 0 then (s, EInvalidRequest) else                (* no locked aISLM *)
      if locked <? x then (s, EInvalidRequest) else
      let upcoming := extract_upcoming (a_start va) (a_end va) (a_lock va) t in
      match subtract_amount upcoming x with
      | None => (s, ELiquidationFailed)
      | Some (dec, diff) =>
          let lock' := replace_tail (a_lock va) dec in
          match subtract_amount (a_vest va) x with
          | None => (s, ELiquidationFailed)
          | Some (decv, _) =>
              let va' := mkacct (a_start va) (a_end va) (a_orig va - x) lock'
                                (replace_tail (a_vest va) decv) in
              (* SendCoinsFromAccountToModule after SetAccount: spendable = balance - locked *)
              if zget (bank s) from - locked_coins va' t <? x then (s, ELiquidationFailed) else
              let diff' := shorten_first (current_period_shift (a_start va) t lock') diff in
              let id := counter s in
              let den := mkdenom t (t + total_len diff') diff' in
              (mkst (<[from := va']> (accts s))
                    (<[from := zget (bank s) from - x]> (bank s))
                    (escrow s + x)
                    (<[id := den]> (denoms s))
                    (id + 1)%N
                    (set_hold (liq s) id to (zget (default ∅ (liq s !! id)) to + x))
                    (<[id := zget (supply s) id + x]> (supply s))
                    (enabled s) (minliq s), OK)
          end
      end
  end.

(** [fixed] selects the merge-start computation of ApplyVestingSchedule, see
    VestingLite.grant_start. *)
Definition redeem (fixed : bool) (s : st) (t : Z) (from to d : N) (x : Z) : st * N :=
  if x <=? 0 then (s, EInvalidCoins) else
  if negb (enabled s) then (s, EDisabled) else
  match denoms s !! d with
  | None => (s, ENotFound)
  | Some den =>
      if hold s d from <? x then (s, ERedeemFailed) else
      match subtract_amount (d_periods den) x with
      | None => (s, ERedeemFailed)
      | Some (dec, diff) =>
          let denoms' := if total dec =? 0 then delete d (denoms s)
                         else <[d := mkdenom (d_start den) (d_end den) dec]> (denoms s) in
          if escrow s <? x then (s, ERedeemFailed) else
          let upcoming := extract_upcoming (d_start den) (d_end den) diff t in
          let accts' :=
            match upcoming with
            | [] => Some (accts s)
            | _ :: _ =>
                match accts s !! to with
                | None => Some (<[to := new_acct (d_start den) x diff [(0, x)]]> (accts s))
                | Some va =>
                    match add_grant fixed va (d_start den) diff [(0, x)] x with
                    | None => None
                    | Some va' => Some (<[to := va']> (accts s))
                    end
                end
            end in
          match accts' with
          | None => (s, ERedeemFailed)
          | Some ac =>
              (mkst ac
                    (<[to := zget (bank s) to + x]> (bank s))
                    (escrow s - x)
                    denoms'
                    (counter s)
                    (set_hold (liq s) d from (hold s d from - x))
                    (<[d := zget (supply s) d - x]> (supply s))
                    (enabled s) (minliq s), OK)
          end
      end
  end.

Definition xfer (s : st) (from to d : N) (x : Z) : st * N :=
  if x <=? 0 then (s, EInvalidCoins) else
  if hold s d from <? x then (s, EInsufficient) else
  let l1 := set_hold (liq s) d from (hold s d from - x) in
  let l2 := set_hold l1 d to (zget (default ∅ (l1 !! d)) to + x) in
  (mkst (accts s) (bank s) (escrow s) (denoms s) (counter s) l2 (supply s) (enabled s) (minliq s), OK).

Definition step (fixed : bool) (s : st) (o : op) : st * N :=
  match o with
  | MkVest a start lock vest => mk_vest s a start lock vest
  | Fund a x =>
      if x <? 0 then (s, ESetup) else
      (mkst (accts s) (<[a := zget (bank s) a + x]> (bank s)) (escrow s) (denoms s) (counter s)
            (liq s) (supply s) (enabled s) (minliq s), OK)
  | SetParams en minl =>
      if minl <=? 0 then (s, ESetup) else
      (mkst (accts s) (bank s) (escrow s) (denoms s) (counter s) (liq s) (supply s) en minl, OK)
  | Liquidate t from to x => liquidate s t from to x
  | Redeem t from to d x => redeem fixed s t from to d x
  | Xfer from to d x => xfer s from to d x
  | Probe _ => (s, OK)
  end.

Definition run (fixed : bool) (ops : list op) (s : st) : st :=
  fold_left (fun s o => fst (step fixed s o)) ops s.

(** ---- obligations (specification side, not code) ----
    What the lockup schedules of a history demand of every account, written down
    independently of the accounts' records: setting up a vesting account creates
    the obligation (start, lockup periods); a liquidation takes the new liquid
    token's schedule (as recorded at its creation) away from the liquidating
    account; a redeem adds the redeemed share of the token's recorded schedule,
    at the token's start time, to the recipient.  An obligation (a, sign, start,
    ps) demands at time tau that account a holds sign * (total ps - ev start ps
    tau) locked. *)
Definition obl : Type := N * Z * Z * list period.

Definition step_obl (s : st) (o : op) (s' : st) (r : N) : list obl :=
  if negb (r =? OK)%N then [] else
  match o with
  | MkVest a start lock _ => [(a, 1, start, lock)]
  | Liquidate _ from _ _ =>
      match denoms s' !! counter s with
      | Some den => [(from, -1, d_start den, d_periods den)]
      | None => []
      end
  | Redeem _ _ to d x =>
      match denoms s !! d with
      | Some den => match subtract_amount (d_periods den) x with
                    | Some (_, diff) => [(to, 1, d_start den, diff)]
                    | None => []
                    end
      | None => []
      end
  | _ => []
  end.

Fixpoint run_obl (fixed : bool) (ops : list op) (s : st) (g : list obl) : st * list obl :=
  match ops with
  | [] => (s, g)
  | o :: r => let '(s', res) := step fixed s o in run_obl fixed r s' (g ++ step_obl s o s' res)
  end.

Fixpoint need (g : list obl) (a : N) (tau : Z) : Z :=
  match g with
  | [] => 0
  | (a', sg, start, ps) :: r =>
      (if (a' =? a)%N then sg * (total ps - ev start ps tau) else 0) + need r a tau
  end.

(** every redeem of the history happened at or before tau *)
Fixpoint redeems_by (ops : list op) (tau : Z) : Prop :=
  match ops with
  | [] => True
  | Redeem t _ _ _ _ :: r => t <= tau /\ redeems_by r tau
  | _ :: r => redeems_by r tau
  end.

(** ---- observation, as the harness prints it ---- *)
Notation acct_obs := (option (Z * Z * Z * list (Z * Z) * list (Z * Z))) (only parsing).

Record obs := mkobs {
  o_res : N;
  o_bank : list Z;                                   (* aISLM of account 0 .. na-1 *)
  o_accts : list acct_obs;                           (* (start, end, original, lockup, vesting) *)
  o_escrow : Z;
  o_counter : N;
  o_denoms : list (N * (Z * Z * list (Z * Z)));      (* registry: id, start, end, periods *)
  o_liq : list (N * N * Z);                          (* denom, holder, tokens (non-zero) *)
  o_supply : list (N * Z);                           (* denom, supply (non-zero) *)
  o_locked : list (list Z)                           (* per block time of the op: LockedCoins of account 0 .. na-1 *)
}.
Global Instance obs_eq_dec : EqDecision obs.
Proof. solve_decision. Defined.

Definition nseq (n : nat) : list N := map N.of_nat (seq 0 n).

(** the block times at which an op makes the harness read LockedCoins *)
Definition op_times (o : op) : list Z :=
  match o with
  | Liquidate t _ _ _ => [t]
  | Redeem t _ _ _ _ => [t]
  | Probe ts => ts
  | _ => []
  end.

(** ClawbackVestingAccount.LockedCoins of every account (0 for an ordinary one) at time t *)
Definition locked_row (na : nat) (s : st) (t : Z) : list Z :=
  map (fun a => match accts s !! a with Some v => locked_coins v t | None => 0 end) (nseq na).

Definition observe (na : nat) (s : st) (res : N) (ts : list Z) : obs :=
  let ds := nseq (N.to_nat (counter s)) in
  mkobs res
    (map (fun a => zget (bank s) a) (nseq na))
    (map (fun a => match accts s !! a with
                   | None => None
                   | Some v => Some (a_start v, a_end v, a_orig v, a_lock v, a_vest v)
                   end) (nseq na))
    (escrow s)
    (counter s)
    (flat_map (fun d => match denoms s !! d with
                        | None => []
                        | Some den => [(d, (d_start den, d_end den, d_periods den))]
                        end) ds)
    (flat_map (fun d => flat_map (fun a =>
        let v := hold s d a in if v =? 0 then [] else [(d, a, v)]) (nseq na)) ds)
    (flat_map (fun d => let v := zget (supply s) d in if v =? 0 then [] else [(d, v)]) ds)
    (map (locked_row na s) ts).

Definition NA : nat := 4.

(** first step at which model and implementation differ *)
Fixpoint check_from (fixed : bool) (i : nat) (s : st) (h : list (op * obs)) : option nat :=
  match h with
  | [] => None
  | (o, ob) :: r =>
      let '(s', res) := step fixed s o in
      if bool_decide (observe NA s' res (op_times o) = ob) then check_from fixed (S i) s' r else Some i
  end.
Definition check_case (fixed : bool) (h : list (op * obs)) : option nat := check_from fixed 0 init h.

Fixpoint mismatches_from (fixed : bool) (i : nat) (cs : list (list (op * obs))) : list nat :=
  match cs with
  | [] => []
  | c :: r => match check_case fixed c with
              | None => mismatches_from fixed (S i) r
              | Some _ => i :: mismatches_from fixed (S i) r
              end
  end.
Definition mismatches (fixed : bool) cs := mismatches_from fixed 0 cs.
