(** Liquid vesting over time (property C11, last sentence): what the merge of a
    redeemed share into an EXISTING vesting account keeps locked, at every time —
    in particular between the end of the account's own schedule and the end of
    the redeemed one —, and the no-early-unlock invariant over all histories,
    stated against obligations that are written down independently of the
    accounts' records ([KeeperModel.step_obl]). *)
From Coq Require Import ZArith List Bool Lia.
From stdpp Require Import gmap.
From HV Require Import Liquid.SplitModel Liquid.VestingLite Liquid.KeeperModel
                       Liquid.SplitProofs Liquid.VestingLiteProofs Liquid.KeeperProofs.
Import ListNotations.
Local Open Scope Z_scope.

(** * the merge (addGrant) *)
Definition grant_ok (gl gv : list period) (c : Z) : Prop :=
  lens_nonneg gl /\ amounts_nonneg gl /\ lens_nonneg gv /\ amounts_nonneg gv /\
  total gl = c /\ total gv = c.

(** the bank's LockedCoins is never below GetLockedUpCoins *)
Lemma lockedup_le_locked_coins a t : lockedup_at a t <= locked_coins a t.
Proof. unfold locked_coins, lockedup_at. lia. Qed.

Lemma lockedup_ge_ev a t : acct_ok a -> a_orig a - unlocked_ev a t <= lockedup_at a t.
Proof. intros H. unfold lockedup_at. pose proof (unlocked_at_le_ev a t H). lia. Qed.

Lemma lockedup_ev_nonneg a t : acct_ok a -> 0 <= a_orig a - unlocked_ev a t.
Proof.
  intros (L1 & L2 & L3 & _). unfold unlocked_ev. pose proof (ev_le_total _ L2 (a_start a) t). lia.
Qed.

Theorem merge_locks_both va gs gl gv c va' :
  acct_ok va -> grant_ok gl gv c -> add_grant true va gs gl gv c = Some va' ->
  forall t,
    (a_orig va - unlocked_ev va t) + (c - ev gs gl t) <= lockedup_at va' t /\
    lockedup_at va' t <= locked_coins va' t /\
    (t <> a_start va -> t <> gs ->
       lockedup_at va t + lockedup_at (new_acct gs c gl gv) t <= lockedup_at va' t) /\
    (a_start va < a_end va <= t -> lockedup_at va t = 0 /\ c - ev gs gl t <= locked_coins va' t).
Proof.
  intros Hva (G1 & G2 & G3 & G4 & G5 & G6) Hg t.
  pose proof (add_grant_ok true va gs gl gv c va' Hva G1 G2 G3 G4 G5 G6 Hg) as Hva'.
  destruct (add_grant_ev va gs gl gv c va' Hg) as [Ho Hev].
  pose proof (lockedup_ge_ev va' t Hva') as H1. rewrite Ho, Hev in H1.
  pose proof (lockedup_le_locked_coins va' t) as H2.
  split; [lia|]. split; [exact H2|]. split.
  - intros N1 N2.
    assert (Hn : acct_ok (new_acct gs c gl gv)) by (apply new_acct_ok; auto).
    unfold lockedup_at at 1 2.
    rewrite (unlocked_at_eq_ev va t Hva N1).
    rewrite (unlocked_at_eq_ev (new_acct gs c gl gv) t Hn) by (cbn [new_acct a_start]; exact N2).
    unfold unlocked_ev at 2. cbn [new_acct a_start a_lock a_orig]. lia.
  - intros He. pose proof (lockedup_ev_nonneg va t Hva) as H0. split; [|lia].
    unfold lockedup_at, unlocked_at, read_schedule.
    destruct (t <=? a_start va) eqn:A; [apply Z.leb_le in A; lia|].
    destruct (a_end va <=? t) eqn:B; [lia|]. apply Z.leb_gt in B. lia.
Qed.

(** With the account end computed as max(OLD end, end of the merged VESTING
    periods) the statement is false.  Account: 100 coins, lockup event at 1100
    (start 1000), so end = 1100.  Redeemed share: 500 coins due at 2000 (start
    1000), vesting instant.  The period lists of the two merges are identical —
    only the end differs (1100 instead of 2000) — and ReadSchedule's shortcut
    "t >= end: everything" reports all 600 coins unlocked at 1100: LockedCoins is
    0 although the share's 500 coins are due at 2000 only.  The code of /repo
    ([add_grant true]) keeps them locked until 2000. *)
Definition er_acct : acct := new_acct 1000 100 [(100, 100)] [(0, 100)].
Definition er_lock : list period := [(1000, 500)].
Definition er_vest : list period := [(0, 500)].

Example merge_end_rule_refuted :
  exists v_old v_new,
    add_grant_oldend er_acct 1000 er_lock er_vest 500 = Some v_old /\
    add_grant true er_acct 1000 er_lock er_vest 500 = Some v_new /\
    acct_ok er_acct /\ grant_ok er_lock er_vest 500 /\
    a_lock v_old = a_lock v_new /\ a_vest v_old = a_vest v_new /\
    a_start v_old = a_start v_new /\ a_orig v_old = a_orig v_new /\
    a_end er_acct = 1100 /\ a_end v_old = 1100 /\ a_end v_new = 2000 /\
    (* the obligation at 1100 .. 1999: the account's own coins are free, the share is locked *)
    (a_orig er_acct - unlocked_ev er_acct 1100) + (500 - ev 1000 er_lock 1100) = 500 /\
    (a_orig er_acct - unlocked_ev er_acct 1999) + (500 - ev 1000 er_lock 1999) = 500 /\
    locked_coins v_old 1099 = 600 /\ locked_coins v_old 1100 = 0 /\ locked_coins v_old 1999 = 0 /\
    locked_coins v_new 1099 = 600 /\ locked_coins v_new 1100 = 500 /\ locked_coins v_new 1999 = 500 /\
    locked_coins v_new 2000 = 0.
Proof.
  eexists. eexists. split; [vm_compute; reflexivity|]. split; [vm_compute; reflexivity|].
  split. { unfold acct_ok, er_acct, new_acct; cbn. repeat split; try lia; repeat constructor; cbn; lia. }
  split. { unfold grant_ok, er_lock, er_vest. repeat split; try reflexivity; repeat constructor; cbn; lia. }
  vm_compute. repeat split; reflexivity.
Qed.

(** * obligations over histories *)
Definition locked_bank (s : st) (a : N) (t : Z) : Z :=
  match accts s !! a with Some va => locked_coins va t | None => 0 end.

Lemma locked_real_le_bank s a t : locked_real s a t <= locked_bank s a t.
Proof.
  unfold locked_real, locked_bank. destruct (accts s !! a) as [va|]; [|lia].
  apply (lockedup_le_locked_coins va t).
Qed.

Lemma need_app g1 g2 a tau : need (g1 ++ g2) a tau = need g1 a tau + need g2 a tau.
Proof.
  induction g1 as [|[[[a' sg] st0] ps] r IH]; cbn [need app]; [lia|]. rewrite IH. lia.
Qed.

Lemma total_map_pamt a : forall b, map pamt a = map pamt b -> total a = total b.
Proof.
  induction a as [|p r IH]; intros [|q b] H; try discriminate; [reflexivity|].
  injection H as H1 H2. cbn [total]. rewrite H1, (IH b H2). reflexivity.
Qed.

Lemma locked_ev_same s s' a tau : accts s' !! a = accts s !! a -> locked_ev s' a tau = locked_ev s a tau.
Proof. intros H. unfold locked_ev, orig_of, lock_ev. rewrite H. reflexivity. Qed.

Lemma redeem_accts_other fixed s t to den diff x ac a :
  redeem_accts fixed s t to den diff x = Some ac -> a <> to -> ac !! a = accts s !! a.
Proof.
  unfold redeem_accts. intros H Hne.
  destruct (extract_upcoming _ _ diff t); [by injection H as <-|].
  destruct (accts s !! to) as [va|].
  - destruct (add_grant fixed va (d_start den) diff [(0, x)] x); [|discriminate].
    injection H as <-. by rewrite lookup_insert_ne.
  - injection H as <-. by rewrite lookup_insert_ne.
Qed.

(** one step: the amount an account's lockup schedule holds locked changes by
    exactly the obligations the step creates (for a redeem: from its block time on) *)
Lemma step_need s o s' r a tau :
  Inv s -> step true s o = (s', r) ->
  match o with Redeem t _ _ _ _ => t <= tau | _ => True end ->
  locked_ev s' a tau = locked_ev s a tau + need (step_obl s o s' r) a tau.
Proof.
  intros HI E Ht. unfold step_obl.
  destruct (N.eqb_spec r OK) as [->|Hr]; cbn [negb].
  2: { assert (s' = s) as -> by exact (step_fail _ _ _ _ _ E Hr). cbn [need]. lia. }
  destruct o as [a0 start lock vest|a0 x|en minl|t from to x|t from to d x|from to d x|ts].
  - (* MkVest *)
    cbn [step] in E. unfold mk_vest in E. destruct (accts s !! a0) eqn:Ha; [by inversion E|].
    destruct (negb _); [by inversion E|]. inversion E; subst s'; clear E.
    cbn [need]. destruct (N.eqb_spec a0 a) as [->|Hne].
    + unfold locked_ev, orig_of, lock_ev. cbn [accts]. rewrite lookup_insert, Ha.
      unfold unlocked_ev, new_acct. cbn [a_orig a_start a_lock]. lia.
    + rewrite (locked_ev_same s _ a tau); [lia|]. cbn [accts]. by rewrite lookup_insert_ne.
  - cbn [step] in E. destruct (x <? 0); inversion E; subst s'. cbn [need].
    rewrite (locked_ev_same s _ a tau); [lia|reflexivity].
  - cbn [step] in E. destruct (minl <=? 0); inversion E; subst s'. cbn [need].
    rewrite (locked_ev_same s _ a tau); [lia|reflexivity].
  - (* Liquidate *)
    destruct (liquidate_split true s t from to x s' HI E) as
      (va & va' & den & k & dec & diff & Hva & Hva' & Hden & _ & _ & Ho & _ & _ & Td & Hm & _ & _ & _ & Hev).
    rewrite Hden. cbn [need].
    destruct (N.eqb_spec from a) as [->|Hne].
    + unfold locked_ev, orig_of, lock_ev. rewrite Hva, Hva'.
      rewrite (total_map_pamt _ _ Hm), Td. specialize (Hev tau). lia.
    + cbn [step] in E.
      destruct (liquidate_ok _ _ _ _ _ _ E) as
        (va0 & dec0 & diff0 & decv & dv & _ & _ & _ & _ & _ & _ & _ & _ & _ & _ & ->).
      rewrite (locked_ev_same s _ a tau); [lia|]. cbn [accts]. by rewrite lookup_insert_ne.
  - (* Redeem *)
    destruct (redeem_no_early_unlock s t from to d x s' HI E) as
      (den & dec & diff & Hd & Hs & _ & Td & _ & _ & C2 & _).
    rewrite Hd, Hs. cbn [need].
    destruct (N.eqb_spec to a) as [->|Hne].
    + rewrite (C2 tau Ht), Td. lia.
    + cbn [step] in E.
      destruct (redeem_ok _ _ _ _ _ _ _ _ E) as (den0 & dec0 & diff0 & ac & _ & _ & _ & _ & _ & _ & Hac & ->).
      rewrite (locked_ev_same s _ a tau); [lia|]. cbn [accts].
      apply (redeem_accts_other _ _ _ _ _ _ _ _ _ Hac). congruence.
  - cbn [step] in E. destruct (xfer_ok _ _ _ _ _ _ E) as (_ & _ & ->). cbn [need].
    rewrite (locked_ev_same s _ a tau); [lia|reflexivity].
  - cbn [step] in E. inversion E; subst s'. cbn [need]. lia.
Qed.

Lemma run_obl_fst fixed ops : forall s g, fst (run_obl fixed ops s g) = run fixed ops s.
Proof.
  induction ops as [|o r IH]; intros s g; [reflexivity|].
  cbn [run_obl run fold_left]. destruct (step fixed s o) as [s1 r1]. cbn [fst]. apply IH.
Qed.

Lemma run_obl_need ops : forall s g a tau,
  Inv s -> redeems_by ops tau ->
  locked_ev (fst (run_obl true ops s g)) a tau - need (snd (run_obl true ops s g)) a tau
  = locked_ev s a tau - need g a tau.
Proof.
  induction ops as [|o r IH]; intros s g a tau HI Hr; [reflexivity|].
  cbn [run_obl]. destruct (step true s o) as [s1 r1] eqn:E.
  pose proof (step_inv true s o HI) as HI1. rewrite E in HI1. cbn [fst] in HI1.
  assert (Ho : match o with Redeem t _ _ _ _ => t <= tau | _ => True end)
    by (destruct o; cbn [redeems_by] in Hr; tauto).
  assert (Hr' : redeems_by r tau) by (destruct o; cbn [redeems_by] in Hr; tauto).
  rewrite (IH s1 _ a tau HI1 Hr'), need_app.
  rewrite (step_need s o s1 r1 a tau HI E Ho). lia.
Qed.

(** Over every history, for every account and every time from the last redeem
    on: the obligations — the account's own set-up schedule, minus what it
    liquidated, plus every share redeemed into it at the share's ORIGINAL
    absolute times — are exactly what the account's lockup schedule holds locked,
    which is at most what GetLockedUpCoins reports, which is at most the bank's
    LockedCoins.  Nothing is spendable before its original release. *)
Theorem no_early_unlock_obligations ops a tau :
  redeems_by ops tau ->
  let s := run true ops init in
  let g := snd (run_obl true ops init []) in
  need g a tau = locked_ev s a tau /\
  locked_ev s a tau <= locked_real s a tau /\
  locked_real s a tau <= locked_bank s a tau.
Proof.
  intros Hr s g.
  pose proof (run_obl_need ops init [] a tau inv_init Hr) as H.
  rewrite run_obl_fst in H. fold s g in H.
  assert (H0 : locked_ev init a tau = 0).
  { unfold locked_ev, orig_of, lock_ev. cbn [accts init]. rewrite lookup_empty. lia. }
  cbn [need] in H. split; [lia|]. split.
  - apply locked_real_ge_ev, inv_reachable.
  - apply locked_real_le_bank.
Qed.

(** Non-vacuity: two source accounts with different schedule ends (0: events at
    1100/1200/1300, 1: one event at 1040); holder 2 redeems the SHORT token first
    into the fresh account 3, then the LONG one, and probes.  Between the ends
    (t = 1040 .. 1099) the account of the short token is over (end 1040 before the
    second redeem) and all 60 coins of the long token are still locked; the
    obligations say so, and so does LockedCoins of the merged account. *)
Definition tw_history : list op :=
  [MkVest 0%N 1000 [(100, 30); (100, 30); (100, 30)] [(0, 90)];
   MkVest 1%N 1000 [(40, 50)] [(0, 50)];
   Liquidate 1010 0%N 2%N 60;
   Liquidate 1011 1%N 2%N 20;
   Redeem 1020 2%N 3%N 1%N 20;
   Probe [1039; 1040];
   Redeem 1030 2%N 3%N 0%N 60;
   Probe [1039; 1040; 1041; 1099; 1100; 1199; 1200; 1299; 1300]].

Example tw_history_ok :
  run_codes true tw_history init = [OK; OK; OK; OK; OK; OK; OK; OK] /\
  (let s5 := run true (firstn 5 tw_history) init in
   exists v, accts s5 !! 3%N = Some v /\ a_end v = 1040) /\
  (let s := run true tw_history init in
   let g := snd (run_obl true tw_history init []) in
   redeems_by tw_history 1030 /\
   (exists v, accts s !! 3%N = Some v /\ a_end v = 1300) /\
   map (fun t => need g 3%N t) [1030; 1039; 1040; 1099; 1100; 1199; 1200; 1299; 1300]
     = [80; 80; 60; 60; 40; 40; 20; 20; 0] /\
   map (locked_bank s 3%N) [1030; 1039; 1040; 1099; 1100; 1199; 1200; 1299; 1300]
     = [80; 80; 60; 60; 40; 40; 20; 20; 0] /\
   need g 0%N 1050 = 30 /\ locked_bank s 0%N 1050 = 30).
Proof.
  split; [vm_compute; reflexivity|]. split.
  - eexists. split; vm_compute; reflexivity.
  - cbv zeta. split; [cbn; lia|]. split; [eexists; split; vm_compute; reflexivity|].
    vm_compute. repeat split; reflexivity.
Qed.

(** * the bank's view when the account's OWN vesting is still running
    LockedCoins = OriginalVesting - min(unlocked, vested) over the MERGED
    schedules.  A redeemed share is vested on arrival and locked; if the account's
    own coins are unlocked but not yet vested, the two free each other.  Reference
    amount the bank held locked of the own grant: original - min(unlocked events,
    vested events). *)
Definition vested_ev (a : acct) (t : Z) : Z := ev (a_start a) (a_vest a) t.
Definition locked_ref (a : acct) (t : Z) : Z := a_orig a - Z.min (unlocked_ev a t) (vested_ev a t).

(** As long as the account's own vesting is not behind its own lockup, the merged
    account locks all of it plus the share. *)
Theorem merge_bank_locked va gs gl gv c va' t :
  acct_ok va -> grant_ok gl gv c -> add_grant true va gs gl gv c = Some va' ->
  unlocked_ev va t <= vested_ev va t ->
  locked_ref va t + (c - ev gs gl t) <= locked_coins va' t.
Proof.
  intros Hva Hg Ha Hv.
  destruct (merge_locks_both va gs gl gv c va' Hva Hg Ha t) as (H1 & H2 & _).
  unfold locked_ref. rewrite Z.min_l by exact Hv. lia.
Qed.

(** Without that hypothesis the statement is false for the code as it is: own
    grant of 100 unlocked at 1010 but vesting only at 6000; a share of 50 due at
    2000 arrives.  Before: the bank locks all 100 own coins, the share's 50 are
    locked in the token; after the merge LockedCoins is 100, not 150: 50 coins are
    spendable 500 s before the share's release (and 4500 s before the own vesting
    event). *)
Definition uv_acct : acct := new_acct 1000 100 [(10, 100)] [(5000, 100)].

Example merge_bank_locked_unvested_refuted :
  exists va',
    add_grant true uv_acct 1100 [(900, 50)] [(0, 50)] 50 = Some va' /\
    acct_ok uv_acct /\ grant_ok [(900, 50)] [(0, 50)] 50 /\
    locked_coins uv_acct 1500 = 100 /\ locked_ref uv_acct 1500 = 100 /\
    50 - ev 1100 [(900, 50)] 1500 = 50 /\
    locked_coins va' 1500 = 100 /\
    ~ (locked_ref uv_acct 1500 + (50 - ev 1100 [(900, 50)] 1500) <= locked_coins va' 1500) /\
    (* the lockup obligations alone are met *)
    (a_orig uv_acct - unlocked_ev uv_acct 1500) + (50 - ev 1100 [(900, 50)] 1500) <= locked_coins va' 1500.
Proof.
  eexists. split; [vm_compute; reflexivity|].
  split. { unfold acct_ok, uv_acct, new_acct; cbn. repeat split; try lia; repeat constructor; cbn; lia. }
  split. { unfold grant_ok. repeat split; try reflexivity; repeat constructor; cbn; lia. }
  repeat split; try (vm_compute; reflexivity).
  - vm_compute. intros H. apply H. reflexivity.
  - vm_compute. intros H. discriminate H.
Qed.
