package main

// Driver "restart" (property C20): a node that is stopped after committing any
// block and restarted from its database continues exactly like a node that
// never stopped.
//
// One case = one random block history executed in lock-step by
//   L1  the continuous node (own MemDB); it records the transaction bytes;
//   L2  a node that is stopped and re-opened (a new app.NewHaqq on the SAME
//       database: the same MemDB object, or the same goleveldb directory after
//       closing the handle) at EVERY block boundary;
//   Ck  for every boundary k: a node opened on a byte copy of L1's database as
//       of boundary k, which then executes ALL following blocks.
// At every boundary each freshly opened instance must report L1's height and app
// hash (Info), answer the state query set identically (same header given to both),
// and every later block must give identical DeliverTx / EndBlock results and app hashes.
// What a freshly opened instance answers through baseapp's own Query / CheckTx
// entry points before its first block is reported separately (own classes).
//
// The driver also scans /repo's non-test sources: which keeper methods write
// in-memory keeper fields, and who calls AddEVMExtensions / RegisterERC20Extensions
// / WithPrecompiles (the model's "registry is a constant of construction").

import (
	"crypto/sha256"
	"encoding/hex"
	"encoding/json"
	"fmt"
	"go/ast"
	"go/parser"
	"go/printer"
	"go/token"
	"math/big"
	"os"
	"path/filepath"
	"sort"
	"strings"
	"time"

	dbm "github.com/cometbft/cometbft-db"
	abci "github.com/cometbft/cometbft/abci/types"
	"github.com/cometbft/cometbft/libs/log"
	tmproto "github.com/cometbft/cometbft/proto/tendermint/types"
	sdk "github.com/cosmos/cosmos-sdk/types"
	"github.com/cosmos/cosmos-sdk/store/rootmulti"
	"github.com/cosmos/cosmos-sdk/types/query"
	authtypes "github.com/cosmos/cosmos-sdk/x/auth/types"
	banktypes "github.com/cosmos/cosmos-sdk/x/bank/types"
	"github.com/ethereum/go-ethereum/common"
	"github.com/gogo/protobuf/proto"

	"github.com/haqq-network/haqq/app"
	haqqtypes "github.com/haqq-network/haqq/types"
	feemarkettypes "github.com/haqq-network/haqq/x/feemarket/types"
	vestingtypes "github.com/haqq-network/haqq/x/vesting/types"
)

func init() { register("restart", restartDriver) }

var bigOne = big.NewInt(1)

const (
	classQueryCtx = "restart:query-context-header-not-restored"
	classCheckTx  = "restart:checktx-before-first-block"
	classPreAnte  = "restart:gas-used-of-tx-failing-before-ante"
)

// ---------------------------------------------------------------- block observations
type txObs struct {
	Code      uint32 `json:"code"`
	GasUsed   int64  `json:"gas_used"`
	GasWanted int64  `json:"gas_wanted"`
	Data      string `json:"data"`   // sha256 of the response data
	Events    string `json:"events"` // sha256 of the canonical event list
	Log       string `json:"log,omitempty"`
}

type blockObs struct {
	Height  int64    `json:"height"`
	Begin   string   `json:"begin_events"`
	Txs     []txObs  `json:"txs"`
	End     string   `json:"end"` // validator updates + events
	AppHash string   `json:"app_hash"`
	Ops     []string `json:"-"`
	// in-memory keeper fields around the block (compared with the Coq model, not between nodes)
	ChainBefore, ChainAfter *big.Int `json:"-"`
	Registry                []string `json:"-"`
	PWrites                 []string `json:"-"` // evm / feemarket parameter updates that reached a handler, in order
	Params                  pProj    `json:"-"` // projection of the stored parameters after the block
	Fee                     *feeStep `json:"-"` // what this block's BeginBlock did to the base fee (restart_fee.go)
	Stores                  map[string]string `json:"-"` // commit hash of every mounted store after the block
}

func hashEvents(evs []abci.Event) string {
	h := sha256.New()
	for _, e := range evs {
		h.Write([]byte(e.Type))
		h.Write([]byte{0})
		for _, a := range e.Attributes {
			h.Write([]byte(a.Key))
			h.Write([]byte{1})
			h.Write([]byte(a.Value))
			h.Write([]byte{2})
		}
	}
	return hex.EncodeToString(h.Sum(nil))[:16]
}

func short(b []byte) string {
	s := sha256.Sum256(b)
	return hex.EncodeToString(s[:])[:16]
}

// runBlock executes one block of the history on lineage h (its own hist state).
func runBlock(h *hist, b hBlock) (ob blockObs, err error) {
	defer func() {
		if r := recover(); r != nil {
			err = fmt.Errorf("block panicked: %v", r)
		}
	}()
	c := h.c
	dt := b.Dt
	if dt <= 0 {
		dt = 1
	}
	ob.ChainBefore = c.App.EvmKeeper.ChainID()
	h.pw = nil
	parent := feeParentOf(c)
	bb := c.Begin(time.Duration(dt) * time.Second)
	ob.Height = c.Hdr.Height
	ob.Begin = hashEvents(bb.Events)
	ob.Fee = feeStepOf(c, parent)
	if os.Getenv("HVDEBUG") != "" {
		for _, e := range bb.Events {
			fmt.Fprintf(os.Stderr, "DBG h=%d begin %s %v\n", ob.Height, e.Type, e.Attributes)
		}
	}
	for _, op := range b.Ops {
		label := op.Op
		if op.Mod != "" {
			label += "/" + op.Mod
		}
		if e := h.applyRestartOp(op); e != nil {
			ob.Ops = append(ob.Ops, label+":err")
			h.errs = append(h.errs, label+": "+trunc(e.Error(), 120))
		} else {
			ob.Ops = append(ob.Ops, label+":ok")
		}
	}
	for _, r := range c.Resp {
		t := txObs{Code: r.Code, GasUsed: r.GasUsed, GasWanted: r.GasWanted, Data: short(r.Data), Events: hashEvents(r.Events)}
		if r.Code != 0 {
			t.Log = trunc(r.Log, 100)
		}
		ob.Txs = append(ob.Txs, t)
	}
	eb, hash := c.End()
	vu, _ := json.Marshal(eb.ValidatorUpdates)
	ob.End = short(vu) + "/" + hashEvents(eb.Events)
	ob.AppHash = hex.EncodeToString(hash)
	ob.ChainAfter = c.App.EvmKeeper.ChainID()
	ob.PWrites = h.pw
	ob.Params = projParams(c.App, committedCtx(c.App, c.Hdr))
	ob.Stores = storeHashes(c.App)
	for _, ad := range c.App.EvmKeeper.GetAvailablePrecompileAddrs() {
		ob.Registry = append(ob.Registry, new(big.Int).SetBytes(ad.Bytes()).String()+"%N")
	}
	return ob, nil
}

func diffBlock(a, b blockObs) string {
	if a.AppHash != b.AppHash {
		ja, _ := json.Marshal(a)
		jb, _ := json.Marshal(b)
		if a.Begin == b.Begin && fmt.Sprint(a.Txs) == fmt.Sprint(b.Txs) && a.End == b.End {
			return fmt.Sprintf("app hash %s vs %s with identical results", trunc(a.AppHash, 16), trunc(b.AppHash, 16))
		}
		return fmt.Sprintf("app hash and results differ: %s vs %s", trunc(string(ja), 300), trunc(string(jb), 300))
	}
	if a.Begin != b.Begin {
		return "BeginBlock events differ"
	}
	if len(a.Txs) != len(b.Txs) {
		return fmt.Sprintf("%d vs %d transactions", len(a.Txs), len(b.Txs))
	}
	for i := range a.Txs {
		if a.Txs[i] != b.Txs[i] {
			return fmt.Sprintf("DeliverTx %d: %+v vs %+v", i, a.Txs[i], b.Txs[i])
		}
	}
	if a.End != b.End {
		return "EndBlock (validator updates / events) differs"
	}
	return ""
}

// ---------------------------------------------------------------- K16: gas of a transaction that fails before the ante handler
func preAnte(t txObs) bool { return t.Code != 0 && t.GasWanted == 0 }

func hasPreAnte(ob blockObs) bool {
	for _, t := range ob.Txs {
		if preAnte(t) {
			return true
		}
	}
	return false
}

// storeHashes: the commit hash of every mounted store after the last commit.
func storeHashes(a *app.Haqq) map[string]string {
	out := map[string]string{}
	rs, ok := a.CommitMultiStore().(*rootmulti.Store)
	if !ok {
		return out
	}
	for name, key := range rs.StoreKeysByName() {
		if cs := rs.GetCommitStore(key); cs != nil {
			out[name] = hex.EncodeToString(cs.LastCommitID().Hash)
		}
	}
	return out
}

// explainPreAnte: a (continuous node), b (a node in its first block after a
// restart) executed the same block, which contains a transaction that failed
// before the ante handler.  known: the recorded difference (GasUsed of such
// responses; when the block gas meter exceeds the limited gas wanted also the
// fee market's block gas: its EndBlock event, its store, the app hash).
// unexplained: any other difference.
func explainPreAnte(a, b blockObs) (known, unexplained string) {
	if a.Begin != b.Begin {
		return "", "BeginBlock events differ"
	}
	if len(a.Txs) != len(b.Txs) {
		return "", fmt.Sprintf("%d vs %d transactions", len(a.Txs), len(b.Txs))
	}
	gas := []string{}
	for i := range a.Txs {
		x, y := a.Txs[i], b.Txs[i]
		if preAnte(x) && preAnte(y) && x.GasUsed != y.GasUsed {
			gas = append(gas, fmt.Sprintf("DeliverTx %d (code %d, gas wanted 0): gas used %d, the continuous node %d", i, y.Code, y.GasUsed, x.GasUsed))
			y.GasUsed = x.GasUsed
		}
		if x != y {
			return "", fmt.Sprintf("DeliverTx %d: %+v vs %+v", i, a.Txs[i], b.Txs[i])
		}
	}
	if len(gas) == 0 {
		return "", diffBlock(a, b)
	}
	known = strings.Join(gas, "; ")
	vuA, vuB := strings.SplitN(a.End, "/", 2)[0], strings.SplitN(b.End, "/", 2)[0]
	if vuA != vuB {
		return "", "validator updates differ"
	}
	if a.AppHash == b.AppHash {
		if a.End != b.End {
			return "", "EndBlock events differ with equal app hashes"
		}
		return known, ""
	}
	// app hashes differ: only the fee market's store (block gas) may differ
	ha, hb := a.Stores, b.Stores
	other := []string{}
	for name, h := range ha {
		if hb[name] != h && name != feemarkettypes.StoreKey {
			other = append(other, name)
		}
	}
	sort.Strings(other)
	if len(other) > 0 || len(ha) == 0 {
		return "", fmt.Sprintf("app hash differs and stores other than the fee market's differ: %v", other)
	}
	return known + "; the fee market stores another block gas: EndBlock event and app hash differ (every other store is identical)", ""
}

// ---------------------------------------------------------------- databases
func copyMemDB(src dbm.DB) dbm.DB {
	dst := dbm.NewMemDB()
	it, err := src.Iterator(nil, nil)
	if err != nil {
		panic(err)
	}
	defer it.Close()
	for ; it.Valid(); it.Next() {
		k := append([]byte{}, it.Key()...)
		v := append([]byte{}, it.Value()...)
		if err := dst.Set(k, v); err != nil {
			panic(err)
		}
	}
	return dst
}

// ---------------------------------------------------------------- lineages
type lineage struct {
	name      string
	h         *hist
	from      int64    // first height this lineage executes
	trace     []string // Coq: per executed block (chain id before, after, registry after, parameter updates, parameters after)
	start     string   // Coq: chain id cached when the lineage's current instance was constructed / initialised
	startProj string   // Coq: projection of the stored parameters when the instance was opened
	segs      []string // Coq: finished (start, parameters at start, trace) segments: one per application instance
	fees      []feeStep // base-fee updates of the current application instance
	feeSegs   []feeSeg  // finished: one per application instance
	newProc   bool      // the current instance runs in an operating-system process of its own (restart_proc.go)
	// restart schedule: how many times in a row the process is stopped and started at boundary i (0 = keeps running)
	reopenAt  func(i int) int
	dir       string // goleveldb directory ("" = MemDB)
	full      bool   // also compare ABCI Query / CheckTx of the fresh instance (the known start-up classes)
	restarted bool   // the current instance has not executed a block yet
}

func coqOptBig(x *big.Int) string {
	if x == nil {
		return "None"
	}
	return "(Some " + coqZ(x) + ")"
}

func traceEntry(ob blockObs) string {
	return fmt.Sprintf("(%s, %s, %s, %s, %s)", coqOptBig(ob.ChainBefore), coqOptBig(ob.ChainAfter), coqList(ob.Registry),
		coqList(ob.PWrites), ob.Params.coq())
}

func (l *lineage) record(ob blockObs) {
	l.trace = append(l.trace, traceEntry(ob))
	if ob.Fee != nil {
		l.fees = append(l.fees, *ob.Fee)
	}
	l.restarted = false
}

// openProj: the parameters an instance finds in its database when it is opened
// (before the first commit of a new chain: the state InitChain prepared).
func openProj(c *Chain) pProj {
	if c.Height == 0 {
		return projParams(c.App, c.App.BaseApp.NewContext(false, tmproto.Header{ChainID: chainID}))
	}
	return projParams(c.App, committedCtx(c.App, c.header(c.Height, c.Time)))
}

// newInstance closes the segment of the previous application instance.
func (l *lineage) newInstance() {
	if l.start != "" {
		l.segs = append(l.segs, fmt.Sprintf("(%s, %s, %s)", l.start, l.startProj, coqList(l.trace)))
		l.feeSegs = append(l.feeSegs, feeSeg{NewProc: l.newProc, Steps: l.fees})
	}
	l.trace = nil
	l.fees = nil
	l.start = coqOptBig(l.h.c.App.EvmKeeper.ChainID())
	l.startProj = openProj(l.h.c).coq()
}

// reopen: a new application instance on the lineage's database (= restart).
// With goleveldb the handle is closed and the directory opened again.
func (l *lineage) reopen() error {
	c := l.h.c
	db := c.DB
	dir := l.dir
	l.restarted = true
	if dir != "" {
		if err := db.Close(); err != nil {
			return err
		}
		ndb, err := dbm.NewGoLevelDB("application", dir)
		if err != nil {
			return err
		}
		db = ndb
	}
	a := openApp(db)
	nc := c.attach(a)
	nc.DB = db
	l.h.c = nc
	l.newInstance()
	return nil
}

// ---------------------------------------------------------------- the case
type restartObs struct {
	Blocks       int               `json:"blocks"`
	Ops          []string          `json:"ops"`
	Errs         []string          `json:"errs,omitempty"`
	Boundaries   int               `json:"boundaries_checked"`
	Lineages     int               `json:"lineages"`
	BlocksRun    int               `json:"blocks_executed"`
	NQueries     int               `json:"queries_per_boundary"`
	DB           string            `json:"db"`
	AppHashes    []string          `json:"app_hashes"`
	NodeQuery    map[string]string `json:"node_query_diffs,omitempty"`
	CheckTx      []string          `json:"checktx_diffs,omitempty"`
	Diverged     []string          `json:"tx_construction_diverged,omitempty"`
	UpgradesDone []string          `json:"upgrades_applied,omitempty"`
	Restarts     int               `json:"restarts"`
	PreAnteGas   []string          `json:"gas_of_tx_failing_before_ante_diffs,omitempty"`
	PreAnteShape int               `json:"blocks_first_after_restart_with_tx_failing_before_ante"`
	Dropped      []string          `json:"lineages_dropped_after_known_divergence,omitempty"`
	Halted       string            `json:"chain_halted_on_every_node,omitempty"`
	FeeRegime    string            `json:"fee_market_regime,omitempty"`       // genesis x/feemarket parameters and consensus Block.MaxGas ("" = the defaults of chain.go)
	BaseFees     string            `json:"base_fee_by_block,omitempty"`       // continuous node: height:value[branch of the update]
	FeeChecked   int               `json:"base_fee_updates_checked_by_model"` // BeginBlock updates of all application instances re-evaluated by calc_base_fee in Coq
	ProcRestarts []string          `json:"restarted_as_new_os_process,omitempty"` // per child process: boundary, blocks executed, queries compared
	ProcBlocks   int               `json:"blocks_executed_in_restarted_processes"`
}

// freshChecks compares a freshly opened instance (lineage l, at boundary k) with the continuous node.
func freshChecks(l1 *lineage, l *lineage, qs []qReq, msgs *[]string, nodeQ map[string]string, chk *[]string, probeTxs [][]byte, probeNames []string, probeCodes []uint32) {
	c1, c := l1.h.c, l.h.c
	tag := fmt.Sprintf("boundary %d, %s", c1.Height, l.name)
	// (a) Info
	i1, i2 := c1.App.Info(abci.RequestInfo{}), c.App.Info(abci.RequestInfo{})
	if i1.LastBlockHeight != i2.LastBlockHeight || string(i1.LastBlockAppHash) != string(i2.LastBlockAppHash) {
		*msgs = append(*msgs, fmt.Sprintf("%s: Info reports height %d hash %x, the continuous node %d %x", tag, i2.LastBlockHeight, i2.LastBlockAppHash, i1.LastBlockHeight, i1.LastBlockAppHash))
	}
	// (b) the state answers every query identically (both given the header of the last block)
	hdr := c1.header(c1.Height, c1.Time)
	ctx1, ctx2 := committedCtx(c1.App, hdr), committedCtx(c.App, hdr)
	nd := 0
	for _, q := range qs {
		r1, r2 := runQuery(c1.App, ctx1, q), runQuery(c.App, ctx2, q)
		if r1 != r2 {
			nd++
			if nd <= 3 {
				*msgs = append(*msgs, fmt.Sprintf("%s: query %s answers %s, the continuous node %s", tag, q.Name, trunc(r2, 60), trunc(r1, 60)))
			}
		}
	}
	if !l.full {
		return
	}
	// (c) the node's own Query entry point (baseapp builds the context)
	for _, q := range qs {
		bz, _ := proto.Marshal(q.Req)
		a1 := c1.App.Query(abci.RequestQuery{Path: q.Path, Data: bz})
		a2 := c.App.Query(abci.RequestQuery{Path: q.Path, Data: bz})
		if a1.Code != a2.Code || string(a1.Value) != string(a2.Value) {
			if _, ok := nodeQ[q.Path]; !ok {
				nodeQ[q.Path] = fmt.Sprintf("%s: %s: code %d %s vs continuous code %d %s", tag, q.Name, a2.Code, renderAnswer(q.Path, a2.Value), a1.Code, renderAnswer(q.Path, a1.Value))
			}
		}
	}
	// (d) CheckTx of the probe transactions (the continuous node's verdicts are taken once per boundary)
	for i, tx := range probeTxs {
		r2 := c.App.CheckTx(abci.RequestCheckTx{Tx: tx, Type: abci.CheckTxType_New})
		if probeCodes[i] != r2.Code {
			*chk = append(*chk, fmt.Sprintf("%s: CheckTx(%s) code %d (%s), the continuous node code %d", tag, probeNames[i], r2.Code, trunc(r2.Log, 160), probeCodes[i]))
		}
	}
}

func renderAnswer(path string, v []byte) string {
	switch path {
	case "/haqq.vesting.v1.Query/Balances":
		var r vestingtypes.QueryBalancesResponse
		if proto.Unmarshal(v, &r) == nil {
			return fmt.Sprintf("{locked %s unvested %s vested %s}", r.Locked, r.Unvested, r.Vested)
		}
	case "/cosmos.bank.v1beta1.Query/SpendableBalances":
		var r banktypes.QuerySpendableBalancesResponse
		if proto.Unmarshal(v, &r) == nil {
			return fmt.Sprintf("{spendable %s}", r.Balances)
		}
	}
	return short(v)
}

// committedCtx: a context over the last committed state (not the check state,
// which CheckTx mutates), with the given header.
func committedCtx(a *app.Haqq, hdr tmproto.Header) sdk.Context {
	ms := a.CommitMultiStore().CacheMultiStore()
	return sdk.NewContext(ms, hdr, true, log.NewNopLogger()).WithGasMeter(sdk.NewInfiniteGasMeter())
}

func restartQuerySet(ctx sdk.Context, a *app.Haqq, h *hist) []qReq {
	qs := querySet(ctx, a, h)
	page := &query.PageRequest{Limit: 1000, CountTotal: true}
	qs = append(qs,
		qReq{"auth/accounts", "/cosmos.auth.v1beta1.Query/Accounts", &authtypes.QueryAccountsRequest{Pagination: page}},
		qReq{"bank/params", "/cosmos.bank.v1beta1.Query/Params", &banktypes.QueryParamsRequest{}},
	)
	qs = append(qs, paramsQueries()...)
	for _, v := range h.vest {
		qs = append(qs, qReq{"bank/spendable/" + v.String(), "/cosmos.bank.v1beta1.Query/SpendableBalances", &banktypes.QuerySpendableBalancesRequest{Address: v.String(), Pagination: page}})
		qs = append(qs, qReq{"vesting/balances2/" + v.String(), "/haqq.vesting.v1.Query/Balances", &vestingtypes.QueryBalancesRequest{Address: v.String()}})
	}
	return qs
}

// judgeBlock compares what a restarted node (ob; first: its first block after the restart) and the continuous node
// (ob1) report for the same block.  msg: a violation; shape: the block has the shape of K16 (first block after a
// restart, carrying a transaction that fails before the ante handler); known: the recorded K16 difference, drop: the
// app hashes differ in that recorded way (the lineage is not compared any further).
func judgeBlock(height int, name string, first bool, ob1, ob blockObs) (msg string, shape bool, known string, drop bool) {
	shape = first && hasPreAnte(ob1)
	d := diffBlock(ob1, ob)
	switch {
	case d != "" && shape:
		// Known: the GasUsed of such a transaction (and what x/feemarket derives from the block gas meter) differs.
		// Anything else that differs is a new violation.
		k, unexplained := explainPreAnte(ob1, ob)
		if unexplained != "" {
			return fmt.Sprintf("height %d, %s (first block after its restart: true): %s", height, name, unexplained), shape, "", false
		}
		return "", shape, fmt.Sprintf("height %d, %s: %s", height, name, k), ob.AppHash != ob1.AppHash
	case d != "":
		return fmt.Sprintf("height %d, %s (first block after its restart: %v): %s", height, name, first, d), shape, "", false
	case ob.Params.coq() != ob1.Params.coq():
		return fmt.Sprintf("height %d, %s: stored evm / fee market parameters %s, the continuous node %s", height, name, ob.Params.coq(), ob1.Params.coq()), shape, "", false
	}
	return "", shape, "", false
}

// restartChain: a fresh application on db, InitChain with the deterministic genesis in the fee-market regime of the input.
func restartChain(db dbm.DB, in hInput) *Chain {
	if in.Fee == nil {
		return newChain(db, nil)
	}
	cp := *chainConsensusParams
	mg := in.Fee.MaxGas
	if mg < -1 {
		mg = -1
	}
	cp.Block = &tmproto.BlockParams{MaxBytes: chainConsensusParams.Block.MaxBytes, MaxGas: mg}
	return newChainCP(db, &cp, func(gs haqqtypes.GenesisState) {
		fg := feemarkettypes.DefaultGenesisState()
		fg.Params = in.Fee.params()
		gs[feemarkettypes.ModuleName] = chainEnc.Codec.MustMarshalJSON(fg)
	})
}

// pendingCase: a history whose lock-step part is done; its restarted PROCESSES (if any) may still be running.
type pendingCase struct {
	finish func() []Case
}

func restartRunCase(id string, in hInput, useLevelDB bool, maxCopies int, r *Rng) []Case {
	return restartStartCase(id, in, useLevelDB, maxCopies, r).finish()
}

func restartStartCase(id string, in hInput, useLevelDB bool, maxCopies int, r *Rng) *pendingCase {
	kb, _ := json.Marshal(in)
	mk := func(suffix, kind string) Case {
		return Case{ID: id + suffix, Kind: kind, Input: in, Key: string(kb) + suffix, OracleOK: true}
	}
	main := mk("", "history")
	obs := restartObs{Blocks: len(in.Blocks), NodeQuery: map[string]string{}, DB: "memdb"}
	msgs := []string{}
	done := func(cs []Case) *pendingCase { return &pendingCase{finish: func() []Case { return cs }} }
	fail := func(m string) *pendingCase {
		main.OracleOK, main.OracleMsg, main.Obs = false, m, obs
		return done([]Case{main})
	}
	if in.Fee != nil {
		fj, _ := json.Marshal(in.Fee)
		obs.FeeRegime = string(fj)
	}

	// L1: continuous, records the transactions
	var c1 *Chain
	if err := func() (err error) {
		defer func() {
			if r := recover(); r != nil {
				err = fmt.Errorf("%v", r)
			}
		}()
		c1 = restartChain(dbm.NewMemDB(), in)
		return nil
	}(); err != nil {
		return fail("InitChain of the continuous node: " + err.Error())
	}
	c1.Tape = &txTape{}
	l1 := &lineage{name: "continuous", h: &hist{c: c1, slots: map[common.Address]map[uint64]bool{}}, from: 1}
	l1.newInstance()
	// L2: restarted at every boundary (twice in a row at every third), on the same database
	var db2 dbm.DB = dbm.NewMemDB()
	dir := ""
	cleanup := []func(){}
	runCleanup := func() {
		for i := len(cleanup) - 1; i >= 0; i-- {
			cleanup[i]()
		}
		cleanup = nil
	}
	if useLevelDB {
		d, err := os.MkdirTemp("", "hv-restart-")
		if err != nil {
			return fail("temp dir: " + err.Error())
		}
		dir = d
		cleanup = append(cleanup, func() { os.RemoveAll(d) })
		ldb, err := dbm.NewGoLevelDB("application", dir)
		if err != nil {
			runCleanup()
			return fail("goleveldb: " + err.Error())
		}
		db2 = ldb
		obs.DB = "goleveldb"
	}
	fromGenesis := func(name string, db dbm.DB, sched func(i int) int) *lineage {
		c := restartChain(db, in)
		c.Tape = &txTape{Replay: true}
		l := &lineage{name: name, h: &hist{c: c, slots: map[common.Address]map[uint64]bool{}}, from: 1, reopenAt: sched}
		l.newInstance()
		return l
	}
	lins := []*lineage{}
	inproc := !restartNoInProcess // harness validation only: no in-process restarts, the separate processes alone
	var l2 *lineage
	if inproc {
		l2 = fromGenesis("restarted-at-every-boundary", db2, func(i int) int {
			if i%3 == 0 {
				return 2
			}
			return 1
		})
		l2.dir, l2.full = dir, true
		lins = append(lins, l2)
	}
	if dir != "" {
		cleanup = append(cleanup, func() {
			if l2 != nil {
				l2.h.c.DB.Close()
			} else {
				db2.Close()
			}
		})
	}
	droppedSegs := []string{}
	_ = droppedSegs
	// L3: keeps running for two blocks, then is stopped and started twice in a row;
	// thorough: also the other phase, and a node restarted after every third block
	if inproc {
		lins = append(lins, fromGenesis("restarted-twice-at-even-boundaries", dbm.NewMemDB(), func(i int) int { return 2 * ((i + 1) % 2) }))
	}
	if inproc && maxCopies >= len(in.Blocks) {
		lins = append(lins, fromGenesis("restarted-at-odd-boundaries", dbm.NewMemDB(), func(i int) int { return i % 2 }))
		if len(in.Blocks) > 3 {
			lins = append(lins, fromGenesis("restarted-at-every-third-boundary", dbm.NewMemDB(), func(i int) int {
				if i%3 == 0 {
					return 1
				}
				return 0
			}))
		}
	}
	// Ck: opened on a copy of the continuous node's database at boundary k, runs on, and is
	// restarted again two blocks later.  k: every boundary, or (quick) the boundaries right after
	// and one block after the first parameter update, plus random ones
	copyAt := map[int]bool{}
	if maxCopies >= len(in.Blocks) {
		for k := 1; k <= len(in.Blocks); k++ {
			copyAt[k] = true
		}
	} else {
		for b, blk := range in.Blocks {
			hit := false
			for _, o := range blk.Ops {
				hit = hit || o.Op == "params" || strings.HasSuffix(o.Op, "params")
			}
			if hit {
				copyAt[b+1] = true
				if b+2 < len(in.Blocks) && maxCopies > 1 {
					copyAt[b+2] = true
				}
				break
			}
		}
		for len(copyAt) < maxCopies {
			copyAt[1+r.Intn(len(in.Blocks))] = true
		}
	}
	if !inproc {
		copyAt = map[int]bool{}
	}
	// Pk: restarted as a NEW OPERATING-SYSTEM PROCESS at boundary k (the blocks flagged "proc"): a snapshot of the
	// continuous node's database and of the run-time bookkeeping is taken at the boundary; the child process is
	// started once the continuous node has executed (and recorded the transactions of) all blocks
	procs := []*procSnap{}
	procDir := ""

	nBlocks := len(in.Blocks)
	ob1s := make([]*blockObs, nBlocks) // the continuous node's observations, per block index
	tapeStarts := make([]int, nBlocks+1)
	haltedAt := -1
	dropped := map[*lineage]bool{} // lineages whose state diverged in a recorded way (K16): no further comparison
	for i := 0; i <= nBlocks; i++ {
		if len(dropped) > 0 {
			keep := lins[:0]
			for _, l := range lins {
				if !dropped[l] {
					keep = append(keep, l)
				} else {
					l.newInstance()
					droppedSegs = append(droppedSegs, l.segs...)
				}
			}
			lins = keep
			dropped = map[*lineage]bool{}
		}
		// ---- boundary i (height i committed), i >= 1: stop / restart
		if i >= 1 {
			var qs []qReq
			var probes [][]byte
			var names []string
			var codes []uint32
			prepare := func() {
				if qs != nil {
					return
				}
				qctx := committedCtx(l1.h.c.App, l1.h.c.header(l1.h.c.Height, l1.h.c.Time))
				qs = restartQuerySet(qctx, l1.h.c.App, l1.h)
				obs.NQueries = len(qs)
				// probe transactions for CheckTx: an eth transfer and a bank send, built on the continuous node's committed state
				if bz, _, err := l1.h.c.EthTx(qctx, 5, &[]common.Address{chainAcct(4).Eth}[0], bigOne, nil, 100_000, 0); err == nil {
					probes, names = append(probes, bz), append(names, "eth transfer")
				}
				if bz, err := l1.h.c.CosmosTx(qctx, 4, 300_000, banktypes.NewMsgSend(chainAcct(4).Acc, chainAcct(3).Acc, sdk.NewCoins(coinOf("aISLM", bigOne)))); err == nil {
					probes, names = append(probes, bz), append(names, "bank send")
				}
				for _, tx := range probes {
					codes = append(codes, l1.h.c.App.CheckTx(abci.RequestCheckTx{Tx: tx, Type: abci.CheckTxType_New}).Code)
				}
			}
			for _, l := range lins {
				n := 0
				if l.reopenAt != nil {
					n = l.reopenAt(i)
				}
				for j := 0; j < n; j++ {
					if err := l.reopen(); err != nil {
						runCleanup()
						return fail(fmt.Sprintf("%s: cannot reopen the database: %v", l.name, err))
					}
					prepare()
					freshChecks(l1, l, qs, &msgs, obs.NodeQuery, &obs.CheckTx, probes, names, codes)
					obs.Boundaries++
					obs.Restarts++
				}
			}
			if copyAt[i] && i < nBlocks {
				cdb := copyMemDB(c1.DB)
				cc := c1.attach(openApp(cdb))
				cc.DB = cdb // its own database from here on (it is restarted again later)
				cc.Tape = &txTape{Replay: true}
				nh := *l1.h // same run-time bookkeeping (contracts, vesting accounts, denoms) as the continuous node so far
				nh.c = cc
				nh.contracts = append([]common.Address{}, l1.h.contracts...)
				nh.vest = append([]sdk.AccAddress{}, l1.h.vest...)
				nh.vestKey = append([]int{}, l1.h.vestKey...)
				nh.small = append([]common.Address{}, l1.h.small...)
				nh.planned = append([]common.Address{}, l1.h.planned...)
				nh.liquid = append([]string{}, l1.h.liquid...)
				nh.coins = append([]string{}, l1.h.coins...)
				nh.slots = map[common.Address]map[uint64]bool{}
				for k, v := range l1.h.slots {
					m := map[uint64]bool{}
					for kk := range v {
						m[kk] = true
					}
					nh.slots[k] = m
				}
				again := i + 2
				ln := &lineage{name: fmt.Sprintf("opened-on-copy-at-%d", i), h: &nh, from: int64(i + 1), full: true, restarted: true,
					reopenAt: func(j int) int {
						if j == again {
							return 1
						}
						return 0
					}}
				ln.newInstance()
				lins = append(lins, ln)
				prepare()
				freshChecks(l1, ln, qs, &msgs, obs.NodeQuery, &obs.CheckTx, probes, names, codes)
				obs.Boundaries++
				obs.Restarts++
			}
			if i < nBlocks && in.Blocks[i].Proc && !restartNoProcess {
				if procDir == "" {
					d, err := os.MkdirTemp("", "hv-restart-proc-")
					if err != nil {
						runCleanup()
						return fail("temp dir: " + err.Error())
					}
					procDir = d
					cleanup = append(cleanup, func() { os.RemoveAll(d) })
				}
				prepare()
				ps, err := takeProcSnap(l1, i, qs, procDir)
				if err != nil {
					runCleanup()
					return fail("snapshot for the restarted process: " + err.Error())
				}
				procs = append(procs, ps)
			}
		}
		if i == nBlocks {
			break
		}
		// ---- block i+1 on every lineage
		b := in.Blocks[i]
		tapeStart := len(c1.Tape.Txs)
		tapeStarts[i] = tapeStart
		ob1, err := runBlock(l1.h, b)
		if err != nil {
			// a block that the node that never stopped cannot execute (a panic in BeginBlock / EndBlock halts the
			// chain): not a statement about restarts, unless a restarted node gets through it
			for _, l := range lins {
				t := l.h.c.Tape
				t.Txs, t.Pos = c1.Tape.Txs, tapeStart
				if _, e2 := runBlock(l.h, b); e2 == nil {
					msgs = append(msgs, fmt.Sprintf("height %d, %s executes the block; the continuous node: %v", i+1, l.name, err))
				}
			}
			obs.Halted = fmt.Sprintf("height %d: %v", i+1, err)
			haltedAt = i
			break
		}
		obs.BlocksRun++
		l1.record(ob1)
		ob1c := ob1
		ob1s[i] = &ob1c
		obs.Ops = append(obs.Ops, ob1.Ops...)
		obs.AppHashes = append(obs.AppHashes, trunc(ob1.AppHash, 12))
		stop := false
		for _, l := range lins {
			t := l.h.c.Tape
			t.Txs, t.Pos = c1.Tape.Txs, tapeStart
			first := l.restarted
			ob, err := runBlock(l.h, b)
			obs.BlocksRun++
			if err != nil {
				msgs = append(msgs, fmt.Sprintf("height %d, %s: %v (the continuous node executed the block)", i+1, l.name, err))
				stop = true
				break
			}
			l.record(ob)
			if t.Pos != len(c1.Tape.Txs) {
				t.Diverged = append(t.Diverged, fmt.Sprintf("height %d: built %d transactions, the continuous node %d", i+1, t.Pos-tapeStart, len(c1.Tape.Txs)-tapeStart))
			}
			msg, shape, known, drop := judgeBlock(i+1, l.name, first, ob1, ob)
			if shape {
				obs.PreAnteShape++
			}
			if msg != "" {
				msgs = append(msgs, msg)
			}
			if known != "" {
				obs.PreAnteGas = append(obs.PreAnteGas, known)
				if drop {
					dropped[l] = true
					obs.Dropped = append(obs.Dropped, fmt.Sprintf("%s after height %d", l.name, i+1))
				}
			}
		}
		if stop {
			tapeStarts[i+1] = len(c1.Tape.Txs)
			break
		}
	}
	tapeStarts[nBlocks] = len(c1.Tape.Txs)
	// ---- the restarted processes: started now, collected by finish()
	waits := launchProcs(procs, in, c1.Tape.Txs, tapeStarts, ob1s, haltedAt, useLevelDB)
	return &pendingCase{finish: func() []Case {
		defer runCleanup()
		var procSegs []string
		var procFees []feeSeg
		for k, w := range waits {
			res := <-w
			pm, segs, fsegs := judgeProc(procs[k], res, ob1s, haltedAt, &obs)
			msgs = append(msgs, pm...)
			procSegs = append(procSegs, segs...)
			procFees = append(procFees, fsegs...)
		}
		return finishRestart(main, obs, msgs, l1, lins, mk, procSegs, procFees)
	}}
}

func finishRestart(main Case, obs restartObs, msgs []string, l1 *lineage, lins []*lineage, mk func(string, string) Case, procSegs []string, procFees []feeSeg) []Case {
	obs.Lineages = 1 + len(lins)
	obs.Errs = l1.h.errs
	for _, l := range lins {
		for _, d := range l.h.c.Tape.Diverged {
			obs.Diverged = append(obs.Diverged, l.name+": "+d)
		}
	}
	for _, d := range obs.Diverged {
		msgs = append(msgs, "transaction construction: "+d)
	}
	ctx := l1.h.c.QueryCtx()
	for i := 0; i < hvUpgradeNames; i++ {
		n := fmt.Sprintf("hvnoop%d", i)
		if l1.h.c.App.UpgradeKeeper.GetDoneHeight(ctx, n) > 0 {
			obs.UpgradesDone = append(obs.UpgradesDone, n)
		}
	}
	// Coq: the in-memory fields of every application instance, block by block
	segs := []string{}
	static := "[]"
	feeSegs := []feeSeg{}
	for _, l := range append([]*lineage{l1}, lins...) {
		l.newInstance()
		segs = append(segs, l.segs...)
		feeSegs = append(feeSegs, l.feeSegs...)
	}
	segs = append(segs, procSegs...)
	feeSegs = append(feeSegs, procFees...)
	regs := []string{}
	for _, ad := range l1.h.c.App.EvmKeeper.GetAvailablePrecompileAddrs() {
		regs = append(regs, new(big.Int).SetBytes(ad.Bytes()).String()+"%N")
	}
	static = coqList(regs)
	main.Coq = fmt.Sprintf("(%s, %s,\n   %s)", coqZ(l1.h.c.EthChain), static, coqList(segs))
	main.CoqList = "cases"
	var bfs []string
	for _, st := range l1Fees(l1) {
		bfs = append(bfs, fmt.Sprintf("%d:%s[%s]", st.Height, st.After, st.Kind))
	}
	obs.BaseFees = strings.Join(bfs, " ")
	for _, fs := range feeSegs {
		obs.FeeChecked += len(fs.Steps)
	}
	main.Obs = obs
	if len(msgs) > 6 {
		msgs = msgs[:6]
	}
	main.OracleOK = len(msgs) == 0
	main.OracleMsg = strings.Join(msgs, "; ")
	nOK := 0
	tags := map[string]bool{}
	for _, o := range obs.Ops {
		tags[o] = true
		if strings.HasSuffix(o, ":ok") {
			nOK++
		}
	}
	if len(obs.UpgradesDone) > 0 {
		tags["upgrade-applied"] = true
	}
	if obs.Halted != "" {
		tags["chain-halted-on-every-node"] = true
	}
	tags["db:"+obs.DB] = true
	for _, t := range feeTags(l1Fees(l1), inputOf(main), len(lins) > 0) {
		tags[t] = true
	}
	if obs.FeeRegime != "" {
		tags["fee-regime:low-base-fee"] = true
	}
	if len(obs.ProcRestarts) > 0 {
		tags["restarted-as-new-os-process"] = true
		tags[fmt.Sprintf("new-os-processes=%d", len(obs.ProcRestarts))] = true
	}
	for t := range tags {
		main.Tags = append(main.Tags, t)
	}
	sort.Strings(main.Tags)
	main.Nontrivial = nOK >= 3 && obs.Boundaries >= 2
	out := []Case{main}

	// what a freshly started node answers through its own entry points before its first block
	q := mk("#node-query", "history/abci-query-of-a-freshly-started-node")
	q.Class = classQueryCtx
	q.Nontrivial = obs.Boundaries > 0
	paths := []string{}
	for p := range obs.NodeQuery {
		paths = append(paths, p)
	}
	sort.Strings(paths)
	q.Obs = map[string]interface{}{"differing_query_paths": paths, "examples": obs.NodeQuery}
	q.Tags = []string{"node-query"}
	if len(paths) > 0 {
		q.OracleOK = false
		q.OracleMsg = fmt.Sprintf("ABCI Query on a freshly started node answers differently from the continuous node for %d path(s): %s; e.g. %s", len(paths), strings.Join(paths, ", "), obs.NodeQuery[paths[0]])
	}
	out = append(out, q)

	ck := mk("#checktx", "history/checktx-on-a-freshly-started-node")
	ck.Class = classCheckTx
	ck.Nontrivial = obs.Boundaries > 0
	ck.Obs = map[string]interface{}{"diffs": obs.CheckTx}
	ck.Tags = []string{"checktx"}
	if len(obs.CheckTx) > 0 {
		ck.OracleOK = false
		ck.OracleMsg = fmt.Sprintf("%d CheckTx verdict(s) differ, e.g. %s", len(obs.CheckTx), obs.CheckTx[0])
	}
	out = append(out, ck)

	// K16: gas reported for a transaction that fails before the ante handler, in the first block after a restart
	pg := mk("#gas-before-ante", "history/gas-of-tx-failing-before-ante-after-restart")
	pg.Class = classPreAnte
	pg.Nontrivial = obs.PreAnteShape > 0
	pg.Obs = map[string]interface{}{"diffs": obs.PreAnteGas, "dropped": obs.Dropped, "blocks_of_this_shape": obs.PreAnteShape}
	pg.Tags = []string{"gas-before-ante"}
	if len(obs.PreAnteGas) > 0 {
		pg.OracleOK = false
		pg.OracleMsg = fmt.Sprintf("%d block(s) executed first after a restart report another GasUsed for a transaction that failed before the ante handler, e.g. %s", len(obs.PreAnteGas), obs.PreAnteGas[0])
	}
	out = append(out, pg)

	// the base-fee update of every BeginBlock of every application instance, for the model: the value stored is the one
	// calc_base_fee gives, whatever the life of the process was (App/ProcRestartModel.v)
	fc := mk("#fee", "history/base-fee-updates-of-every-application-instance")
	items := []string{}
	nsteps, nproc := 0, 0
	for _, fs := range feeSegs {
		items = append(items, fs.coq())
		nsteps += len(fs.Steps)
		if fs.NewProc {
			nproc++
		}
	}
	fc.Coq, fc.CoqList = coqList(items), "fees"
	fc.Obs = map[string]interface{}{"application_instances": len(feeSegs), "in_processes_of_their_own": nproc, "base_fee_updates": nsteps,
		"regime": obs.FeeRegime, "continuous_node": obs.BaseFees}
	fc.Tags = []string{"fee-updates"}
	fc.Nontrivial = nsteps >= 2 && obs.OracleRelevantFee()
	out = append(out, fc)
	return out
}

func l1Fees(l1 *lineage) []feeStep {
	var out []feeStep
	for _, s := range l1.feeSegs {
		out = append(out, s.Steps...)
	}
	return append(out, l1.fees...)
}

func inputOf(c Case) hInput {
	in, _ := c.Input.(hInput)
	return in
}

// OracleRelevantFee: the continuous node took a branch of the update other than "unchanged / disabled" at least once.
func (o restartObs) OracleRelevantFee() bool {
	return strings.Contains(o.BaseFees, "[increase") || strings.Contains(o.BaseFees, "[decrease")
}

// ---------------------------------------------------------------- generator
func genRestartHistory(r *Rng, nBlocks, opsPerBlock int) hInput {
	in := genHistory(r, nBlocks, opsPerBlock)
	// C20's own ingredients: staking precompile calls, upgrade plans, more parameter changes
	for b := range in.Blocks {
		if r.Chance(45) {
			in.Blocks[b].Ops = append(in.Blocks[b].Ops, hOp{Op: "stakingpc", A: r.Intn(chainNAccts), Amt: islm(int64(1 + r.Intn(50))).String()})
		}
		if r.Chance(30) {
			in.Blocks[b].Ops = append(in.Blocks[b].Ops, hOp{Op: "evmparams", K: uint64(r.Intn(5))})
		}
		if r.Chance(18) {
			in.Blocks[b].Ops = append(in.Blocks[b].Ops, hOp{Op: "upgrade", K: uint64(b), V: uint64(r.Intn(3))})
		}
	}
	// the parameter space: updates through the modules' governance handlers, and traffic behind them
	return addParamSpace(r, in)
}

// ---------------------------------------------------------------- source scan
type scanResult struct {
	FieldWrites []string `json:"keeper_field_writes"`
	Callers     []string `json:"callers"`
	Fields      []string `json:"long_lived_struct_fields"` // census: "dir:Type.field type"
	FieldTests  []string `json:"conditions_on_mutable_keeper_fields"` // latch census: conditions that read a field written after construction
}

// scanSources walks /repo's non-test Go sources (x/, app/, precompiles/):
// (1) methods with a pointer receiver that assign to a field of the receiver
// (in-memory state that changes after construction), (2) every call of the
// registry-changing functions.
func scanSources(root string) (scanResult, error) {
	res := scanResult{}
	watched := map[string]bool{"AddEVMExtensions": true, "RegisterERC20Extensions": true, "WithPrecompiles": true, "WithChainID": true}
	fset := token.NewFileSet()
	mutable := map[string]bool{} // "dir:Type.field" written by a method after construction
	tests := [][2]string{}       // (field key, description) of every condition reading a receiver field
	for _, sub := range []string{"x", "app", "precompiles"} {
		err := filepath.Walk(filepath.Join(root, sub), func(path string, info os.FileInfo, err error) error {
			if err != nil {
				return err
			}
			if info.IsDir() || !strings.HasSuffix(path, ".go") || strings.HasSuffix(path, "_test.go") || strings.HasSuffix(path, ".pb.go") || strings.HasSuffix(path, ".pb.gw.go") {
				return nil
			}
			rel, _ := filepath.Rel(root, path)
			if strings.Contains(rel, "/mocks/") || strings.Contains(rel, "testutil") {
				return nil
			}
			f, err := parser.ParseFile(fset, path, nil, 0)
			if err != nil {
				return err
			}
			for _, d := range f.Decls {
				if gd, ok := d.(*ast.GenDecl); ok && gd.Tok == token.TYPE {
					for _, sp := range gd.Specs {
						ts, ok := sp.(*ast.TypeSpec)
						if !ok || !longLived[ts.Name.Name] {
							continue
						}
						st, ok := ts.Type.(*ast.StructType)
						if !ok {
							continue
						}
						for _, fl := range st.Fields.List {
							var tb strings.Builder
							_ = printer.Fprint(&tb, fset, fl.Type)
							names := []string{"(embedded)"}
							if len(fl.Names) > 0 {
								names = names[:0]
								for _, n := range fl.Names {
									names = append(names, n.Name)
								}
							}
							for _, n := range names {
								res.Fields = append(res.Fields, fmt.Sprintf("%s:%s.%s %s", filepath.Dir(rel), ts.Name.Name, n, tb.String()))
							}
						}
					}
				}
				fd, ok := d.(*ast.FuncDecl)
				if !ok || fd.Body == nil {
					continue
				}
				recvName, recvType, ptr := "", "", false
				if fd.Recv != nil && len(fd.Recv.List) == 1 {
					if len(fd.Recv.List[0].Names) == 1 {
						recvName = fd.Recv.List[0].Names[0].Name
					}
					switch t := fd.Recv.List[0].Type.(type) {
					case *ast.StarExpr:
						ptr = true
						if id, ok := t.X.(*ast.Ident); ok {
							recvType = id.Name
						}
					case *ast.Ident:
						recvType = t.Name
					}
				}
				// latch census: conditions (if / switch / == / !=) that read a field of a long-lived receiver
				noteTests := func(e ast.Expr) {
					if e == nil || recvName == "" || !longLived[recvType] {
						return
					}
					ast.Inspect(e, func(n ast.Node) bool {
						if se, ok := n.(*ast.SelectorExpr); ok {
							if id, ok := se.X.(*ast.Ident); ok && id.Name == recvName {
								tests = append(tests, [2]string{filepath.Dir(rel) + ":" + recvType + "." + se.Sel.Name,
									fmt.Sprintf("%s:(%s).%s tests %s", filepath.Dir(rel), recvType, fd.Name.Name, se.Sel.Name)})
							}
						}
						return true
					})
				}
				ast.Inspect(fd.Body, func(n ast.Node) bool {
					switch x := n.(type) {
					case *ast.IfStmt:
						noteTests(x.Cond)
					case *ast.SwitchStmt:
						noteTests(x.Tag)
					case *ast.BinaryExpr:
						if x.Op == token.EQL || x.Op == token.NEQ {
							noteTests(x.X)
							noteTests(x.Y)
						}
					case *ast.AssignStmt:
						// long-lived objects only: keepers, precompiles, modules, the app
						if !ptr || recvName == "" || !longLived[recvType] {
							return true
						}
						for _, lhs := range x.Lhs {
							if se, ok := lhs.(*ast.SelectorExpr); ok {
								if id, ok := se.X.(*ast.Ident); ok && id.Name == recvName {
									res.FieldWrites = append(res.FieldWrites, fmt.Sprintf("%s:(*%s).%s writes %s", filepath.Dir(rel), recvType, fd.Name.Name, se.Sel.Name))
									mutable[filepath.Dir(rel)+":"+recvType+"."+se.Sel.Name] = true
								}
							}
						}
					case *ast.CallExpr:
						name, on := "", ""
						switch fn := x.Fun.(type) {
						case *ast.SelectorExpr:
							name = fn.Sel.Name
							switch b := fn.X.(type) {
							case *ast.Ident:
								on = b.Name
							case *ast.SelectorExpr:
								on = b.Sel.Name
							}
						case *ast.Ident:
							name = fn.Name
						}
						if watched[name] {
							where := fd.Name.Name
							if recvType != "" {
								where = recvType + "." + where
							}
							res.Callers = append(res.Callers, fmt.Sprintf("%s called on %s in %s:%s", name, on, rel, where))
						}
					}
					return true
				})
			}
			return nil
		})
		if err != nil {
			return res, err
		}
	}
	for _, t := range tests {
		if mutable[t[0]] {
			res.FieldTests = append(res.FieldTests, t[1])
		}
	}
	sort.Strings(res.FieldTests)
	res.FieldTests = uniq(res.FieldTests)
	sort.Strings(res.FieldWrites)
	sort.Strings(res.Callers)
	sort.Strings(res.Fields)
	res.Fields = uniq(res.Fields)
	res.FieldWrites = uniq(res.FieldWrites)
	res.Callers = uniq(res.Callers)
	return res, nil
}

func uniq(xs []string) []string {
	out := []string{}
	for i, x := range xs {
		if i == 0 || x != xs[i-1] {
			out = append(out, x)
		}
	}
	return out
}

var longLived = map[string]bool{"Keeper": true, "BaseKeeper": true, "Precompile": true, "AppModule": true, "Haqq": true,
	"tpsCounter": true, "Migrator": true, "IBCMiddleware": true, "IBCModule": true, "HaqqAnteHandlerDecorator": true}

// what the model's table of in-memory fields accounts for
var allowedFieldWrites = map[string]string{
	"x/evm/keeper:(*Keeper).WithChainID writes eip155ChainID":    "re-derived in every BeginBlock (chainid_initial_irrelevant)",
	"x/evm/keeper:(*Keeper).WithPrecompiles writes precompiles":  "construction only (panics when set twice)",
	"x/evm/keeper:(*Keeper).AddEVMExtensions writes precompiles": "must have no non-test caller",
	"x/evm/keeper:(*Keeper).SetHooks writes hooks":               "construction only",
	"x/evm/keeper:(*Keeper).CleanHooks writes hooks":             "test helper",
	"x/epochs/keeper:(*Keeper).SetHooks writes hooks":            "construction only",
	"app:(*tpsCounter).start writes reportPeriod":                "telemetry",
}

// latch census: every condition that reads an in-memory field which some method writes after
// construction.  A new one (e.g. "first block after start": `if k.eip155ChainID == nil` in a
// BeginBlocker) is a once-per-process latch candidate the restart model does not cover.
var allowedFieldTests = map[string]string{
	"x/evm/keeper:(Keeper).WithChainID tests eip155ChainID":  "guards against a different chain id; the value is overwritten with the header's id either way (chainid_initial_irrelevant)",
	"x/evm/keeper:(Keeper).WithPrecompiles tests precompiles": "construction only: panics when set twice",
	"x/evm/keeper:(Keeper).SetHooks tests hooks":              "construction only: panics when set twice",
	"x/epochs/keeper:(Keeper).SetHooks tests hooks":           "construction only: panics when set twice",
	"x/evm/keeper:(Keeper).ApplyTransaction tests hooks":      "hooks are a constant of construction (SetHooks in NewHaqq)",
	"x/evm/keeper:(Keeper).PostTxProcessing tests hooks":      "hooks are a constant of construction (SetHooks in NewHaqq)",
}

var allowedCallers = map[string]string{
	"AddEVMExtensions called on evmKeeper in x/erc20/keeper/precompiles.go:Keeper.RegisterERC20Extensions": "RegisterERC20Extensions itself has no caller",
	"WithPrecompiles called on evmKeeper in app/app.go:NewHaqq":                                            "construction",
	"WithPrecompiles called on evm in x/evm/keeper/state_transition.go:Keeper.ApplyMessageWithConfig":      "the per-transaction vm.EVM object, filled from the keeper's registry",
	"WithChainID called on k in x/evm/keeper/abci.go:Keeper.BeginBlock":                                    "every block",
	"WithChainID called on k in x/evm/genesis.go:InitGenesis":                                              "InitChain",
}

func scanCase(root string) Case {
	c := Case{ID: "source-scan", Kind: "source-scan", Input: map[string]string{"scan": root}, Key: "source-scan", OracleOK: true, Nontrivial: true, Tags: []string{"source-scan"}, Obligation: true}
	res, err := scanSources(root)
	if err != nil {
		c.OracleOK, c.OracleMsg = false, "cannot scan sources: "+err.Error()
		return c
	}
	c.Obs = res
	msgs := []string{}
	for _, w := range res.FieldWrites {
		if strings.HasPrefix(w, "app:(*Haqq)") {
			continue
		}
		if _, ok := allowedFieldWrites[w]; !ok {
			msgs = append(msgs, "in-memory field written after construction, not covered by the restart model: "+w)
		}
	}
	for _, t := range res.FieldTests {
		if _, ok := allowedFieldTests[t]; !ok {
			msgs = append(msgs, "condition on an in-memory field that changes after construction (a once-per-process latch?), not covered by the restart model: "+t)
		}
	}
	for _, cl := range res.Callers {
		if _, ok := allowedCallers[cl]; !ok {
			msgs = append(msgs, "registry / chain-id writer reachable from unexpected code: "+cl)
		}
	}
	// census of the fields of long-lived objects (keepers, precompiles, modules, the app): every
	// field is in-memory state of the node.  A field that is neither in the committed census
	// (corpus/C20/long_lived_fields.txt, each entry classified by the restart model's table) nor of
	// an obviously immutable / store-backed kind is an obligation the restart theorem does not cover.
	known := map[string]bool{}
	if bz, err := os.ReadFile(filepath.Join(verifRoot(), "corpus", "C20", "long_lived_fields.txt")); err == nil {
		for _, l := range strings.Split(string(bz), "\n") {
			if l = strings.TrimSpace(l); l != "" && !strings.HasPrefix(l, "#") {
				known[l] = true
			}
		}
	} else {
		msgs = append(msgs, "cannot read the field census corpus/C20/long_lived_fields.txt")
	}
	for _, f := range res.Fields {
		if known[f] {
			continue
		}
		typ := f[strings.Index(f, " ")+1:]
		harmless := false
		for _, pat := range []string{"Keeper", "StoreKey", "codec.", "Codec", "Subspace", "Hooks", "Router", "ConsensusParam"} {
			if strings.Contains(typ, pat) {
				harmless = true
			}
		}
		switch typ {
		case "string", "bool", "sdk.AccAddress", "uint64", "int64", "uint", "int":
			harmless = true
		}
		if !harmless {
			msgs = append(msgs, "new in-memory field on a long-lived object, not covered by the restart model (is it rebuilt from the database on start?): "+f)
		}
	}
	if len(res.FieldWrites) == 0 || len(res.Callers) == 0 {
		msgs = append(msgs, "the scan found nothing: sources not readable?")
	}
	c.OracleOK = len(msgs) == 0
	c.OracleMsg = strings.Join(msgs, "; ")
	return c
}

func restartDriver(cfg Config, out *Out) error {
	emit := func(cs []Case) {
		for _, c := range cs {
			out.Emit(c)
		}
	}
	repo := os.Getenv("VERIF_REPO")
	if repo == "" {
		repo = "/repo"
	}
	restartNoInProcess = cfg.Args["inproc"] == "0"
	restartNoProcess = cfg.Args["proc"] == "0"
	// a history whose restarted processes are still running is finished (and emitted) after the lock-step part of the
	// next one: the child processes run beside it
	var pend *pendingCase
	next := func(p *pendingCase) {
		if pend != nil {
			emit(pend.finish())
		}
		pend = p
	}
	if cfg.Replay != "" {
		i := 0
		err := readReplayInputs(cfg.Replay, func(raw json.RawMessage) error {
			var probe map[string]json.RawMessage
			_ = json.Unmarshal(raw, &probe)
			if _, ok := probe["scan"]; ok {
				next(nil)
				out.Emit(scanCase(repo))
				return nil
			}
			var in hInput
			if err := json.Unmarshal(raw, &in); err != nil {
				return err
			}
			next(restartStartCase(fmt.Sprintf("replay-%d", i), in, cfg.Args["db"] == "leveldb", len(in.Blocks), NewRng(1)))
			i++
			return nil
		})
		next(nil)
		return err
	}
	out.Emit(scanCase(repo))
	r := NewRng(cfg.Seed)
	for i := 0; i < cfg.N; i++ {
		cr := r.Fork()
		// the generators of the regime / process dimensions are split off without advancing the main one: the base
		// histories are the ones this driver produced before the dimensions existed
		fr := &Rng{s: cr.s ^ 0x5fee5fee5fee5fee}
		nb, per, copies := 4+cr.Intn(3), 3, 3
		lvl := false
		if cfg.Tier == "thorough" {
			nb, per, copies = 4+cr.Intn(7), 4, 100
			lvl = i%2 == 1
		}
		if cfg.Args["db"] == "leveldb" {
			lvl = true
		}
		in := genRestartHistory(cr, nb, per)
		switch {
		case i%4 == 1:
			// low base fee, finite block gas, heavy blocks: minimum steps of the base fee with restarts (in the process
			// and as new processes) between them
			in = restartFeeRegime(fr, in)
		case i%3 == 0:
			in = restartProcPoints(fr, in)
		}
		next(restartStartCase(fmt.Sprintf("s%d-%d", cfg.Seed, i), in, lvl, copies, cr))
	}
	next(nil)
	return nil
}
