// Command hq is the correspondence harness: it drives the real haqq code
// (module replaced by /repo's working tree) on generated inputs / histories and
// prints one JSON record per case: the input, what the implementation did, the
// verdict of the property oracle, and a Coq term pairing input and observation
// which the model re-evaluates inside Coq.
package main

import (
	"bufio"
	"encoding/json"
	"flag"
	"fmt"
	"os"
	"sort"
	"strings"
)

// Case is one line of harness output.
type Case struct {
	ID         string      `json:"id"`
	Kind       string      `json:"kind"`
	Input      interface{} `json:"input"`
	Obs        interface{} `json:"obs,omitempty"`
	Coq        string      `json:"coq,omitempty"`         // Coq term (input paired with observation)
	CoqList    string      `json:"coq_list,omitempty"`    // name of the Coq case list this term belongs to
	OracleOK   bool        `json:"oracle_ok"`             // property predicate on the implementation's behaviour
	OracleMsg  string      `json:"oracle_msg,omitempty"`  // what the property demanded vs what happened
	Class      string      `json:"class,omitempty"`       // known-finding class key this input falls in ("" = none)
	Nontrivial bool        `json:"nontrivial"`            // exercises a non-error path of the modelled core
	Key        string      `json:"key"`                   // distinctness key
	Tags       []string    `json:"tags,omitempty"`        // distribution tags (op kinds, error kinds, sizes)
	Obligation bool        `json:"obligation,omitempty"`  // a failure of this case is an undischarged proof/correspondence obligation (e.g. a source scan), not an observed violation
}

// Config is what every driver receives.
type Config struct {
	Seed   uint64
	N      int
	Tier   string
	Replay string // path of a replay / corpus file (JSON lines of inputs), "" = generate
	Args   map[string]string
}

type Out struct {
	w *bufio.Writer
	n int
}

func (o *Out) Emit(c Case) {
	b, err := json.Marshal(c)
	if err != nil {
		panic(err)
	}
	o.w.Write(b)
	o.w.WriteByte('\n')
	o.n++
}

type Driver func(cfg Config, out *Out) error

var drivers = map[string]Driver{}

func register(name string, d Driver) { drivers[name] = d }

func main() {
	if len(os.Args) < 2 {
		names := []string{}
		for k := range drivers {
			names = append(names, k)
		}
		sort.Strings(names)
		fmt.Fprintln(os.Stderr, "usage: hq <driver> [-seed N] [-n N] [-tier quick|thorough] [-replay file] [-arg k=v,...]\ndrivers:", strings.Join(names, " "))
		os.Exit(2)
	}
	name := os.Args[1]
	fs := flag.NewFlagSet(name, flag.ExitOnError)
	seed := fs.Uint64("seed", 1, "PRNG seed")
	n := fs.Int("n", 100, "number of cases")
	tier := fs.String("tier", "quick", "tier")
	replay := fs.String("replay", "", "replay file")
	args := fs.String("arg", "", "k=v,k=v")
	fs.Parse(os.Args[2:])
	d, ok := drivers[name]
	if !ok {
		fmt.Fprintln(os.Stderr, "unknown driver", name)
		os.Exit(2)
	}
	cfg := Config{Seed: *seed, N: *n, Tier: *tier, Replay: *replay, Args: map[string]string{}}
	for _, kv := range strings.Split(*args, ",") {
		if i := strings.IndexByte(kv, '='); i > 0 {
			cfg.Args[kv[:i]] = kv[i+1:]
		}
	}
	out := &Out{w: bufio.NewWriterSize(os.Stdout, 1<<20)}
	err := d(cfg, out)
	out.w.Flush()
	if err != nil {
		fmt.Fprintln(os.Stderr, "driver error:", err)
		os.Exit(3)
	}
}

// readReplayInputs reads a JSON-lines file and hands each line's "input" (or the
// whole line if it has no such key) to f.
func readReplayInputs(path string, f func(raw json.RawMessage) error) error {
	// a replay file written by the orchestrator is one indented JSON object with an "input" key
	if whole, err := os.ReadFile(path); err == nil {
		var probe map[string]json.RawMessage
		if json.Unmarshal(whole, &probe) == nil {
			if in, ok := probe["input"]; ok {
				return f(in)
			}
		}
	}
	fh, err := os.Open(path)
	if err != nil {
		return err
	}
	defer fh.Close()
	sc := bufio.NewScanner(fh)
	sc.Buffer(make([]byte, 1<<20), 1<<28)
	for sc.Scan() {
		line := strings.TrimSpace(sc.Text())
		if line == "" || line[0] == '#' {
			continue
		}
		var probe map[string]json.RawMessage
		if err := json.Unmarshal([]byte(line), &probe); err != nil {
			return err
		}
		raw := json.RawMessage(line)
		if in, ok := probe["input"]; ok {
			raw = in
		}
		if err := f(raw); err != nil {
			return err
		}
	}
	return sc.Err()
}
