package main

// Block-history machinery shared by the drivers "invariants" (C15) and
// "replicas" (C01): a real application per replica on its own MemDB, real ABCI
// blocks (BeginBlock with header time / proposer / last-commit votes /
// double-sign evidence, DeliverTx with really signed Cosmos and Ethereum
// transactions, EndBlock, Commit), a validator-set tracker that applies
// EndBlock updates with CometBFT's two-block delay, and a generator that picks
// mostly valid operations by looking at the state of the replica it drives.

import (
	"encoding/hex"
	"encoding/json"
	"fmt"
	"math/big"
	"sort"
	"strings"
	"time"

	sdkmath "cosmossdk.io/math"
	dbm "github.com/cometbft/cometbft-db"
	abci "github.com/cometbft/cometbft/abci/types"
	"github.com/cometbft/cometbft/libs/log"
	tmproto "github.com/cometbft/cometbft/proto/tendermint/types"
	"github.com/cosmos/cosmos-sdk/baseapp"
	"github.com/cosmos/cosmos-sdk/client"
	clienttx "github.com/cosmos/cosmos-sdk/client/tx"
	codectypes "github.com/cosmos/cosmos-sdk/codec/types"
	authtx "github.com/cosmos/cosmos-sdk/x/auth/tx"
	"github.com/cosmos/cosmos-sdk/crypto/keys/ed25519"
	"github.com/cosmos/cosmos-sdk/store"
	pruningtypes "github.com/cosmos/cosmos-sdk/store/pruning/types"
	simtestutil "github.com/cosmos/cosmos-sdk/testutil/sims"
	sdk "github.com/cosmos/cosmos-sdk/types"
	"github.com/cosmos/cosmos-sdk/types/tx/signing"
	authsigning "github.com/cosmos/cosmos-sdk/x/auth/signing"
	authtypes "github.com/cosmos/cosmos-sdk/x/auth/types"
	sdkvesting "github.com/cosmos/cosmos-sdk/x/auth/vesting/types"
	"github.com/cosmos/cosmos-sdk/x/authz"
	banktypes "github.com/cosmos/cosmos-sdk/x/bank/types"
	distrtypes "github.com/cosmos/cosmos-sdk/x/distribution/types"
	govtypes "github.com/cosmos/cosmos-sdk/x/gov/types"
	govv1 "github.com/cosmos/cosmos-sdk/x/gov/types/v1"
	govv1beta1 "github.com/cosmos/cosmos-sdk/x/gov/types/v1beta1"
	slashingtypes "github.com/cosmos/cosmos-sdk/x/slashing/types"
	stakingtypes "github.com/cosmos/cosmos-sdk/x/staking/types"
	upgradetypes "github.com/cosmos/cosmos-sdk/x/upgrade/types"
	"github.com/ethereum/go-ethereum/accounts/abi"
	"github.com/ethereum/go-ethereum/common"
	ethtypes "github.com/ethereum/go-ethereum/core/types"
	"github.com/ethereum/go-ethereum/crypto"

	"github.com/haqq-network/haqq/app"
	"github.com/haqq-network/haqq/crypto/ethsecp256k1"
	"github.com/haqq-network/haqq/encoding"
	distprecompile "github.com/haqq-network/haqq/precompiles/distribution"
	stakingprecompile "github.com/haqq-network/haqq/precompiles/staking"
	srvflags "github.com/haqq-network/haqq/server/flags"
	testtx "github.com/haqq-network/haqq/testutil/tx"
	haqqtypes "github.com/haqq-network/haqq/types"
	"github.com/haqq-network/haqq/utils"
	coinomicstypes "github.com/haqq-network/haqq/x/coinomics/types"
	erc20types "github.com/haqq-network/haqq/x/erc20/types"
	evmtypes "github.com/haqq-network/haqq/x/evm/types"
	feemarkettypes "github.com/haqq-network/haqq/x/feemarket/types"
	liquidvestingtypes "github.com/haqq-network/haqq/x/liquidvesting/types"
	ucdaotypes "github.com/haqq-network/haqq/x/ucdao/types"
	vestingtypes "github.com/haqq-network/haqq/x/vesting/types"
)

// ---------------------------------------------------------------- actors
const (
	bhNU = 8 // users U0..U7 (ethsecp256k1 keys); U0..U3 operate the genesis validators
	bhNC = 3 // script contracts (code set at genesis)
	bhNV = 4 // genesis validators at most
	// actor indices used by EVM programs: 0..7 users, 8..10 contracts
)

const testDenom = "utest" // a second native coin, registered as an ERC20 pair through governance

// Further denominations every user holds when the genesis asks for them (bhGenesis.Extra): an IBC
// voucher, and two plain coins chosen for their place in the bank's byte-wise denomination order
//
//	USDX < aISLM < aLIQUIDn < ibc/… < utest < zcoin
//
// so that a coin list (a governance deposit, the community pool) can meet a denomination that sorts
// before, between and after the ones it already holds.
var bhExtraDenoms = []string{"ibc/27394FB092D2ECCD56123C74F36E4C1F926001CEADA9CA97EA622B25F41E5EB2", "USDX", "zcoin"}

const bhExtraAmount = 2_000_000_000

var (
	bhUserKey     [bhNU]*ethsecp256k1.PrivKey
	bhUserEth     [bhNU]common.Address
	bhUserAcc     [bhNU]sdk.AccAddress
	bhContract    [bhNC]common.Address
	bhValKey      [bhNV + bhNU]*ed25519.PrivKey // consensus keys: genesis validators 0..3, then one per user for create-validator
	addrStakingPC = common.HexToAddress("0x0000000000000000000000000000000000000800")
	addrDistrPC   = common.HexToAddress("0x0000000000000000000000000000000000000801")
)

func init() {
	for i := 0; i < bhNU; i++ {
		k := crypto.Keccak256([]byte(fmt.Sprintf("verif-user-key-%d", i)))
		bhUserKey[i] = &ethsecp256k1.PrivKey{Key: k}
		ec, err := bhUserKey[i].ToECDSA()
		if err != nil {
			panic(err)
		}
		bhUserEth[i] = crypto.PubkeyToAddress(ec.PublicKey)
		bhUserAcc[i] = sdk.AccAddress(bhUserEth[i].Bytes())
	}
	for i := 0; i < bhNC; i++ {
		bhContract[i] = common.BytesToAddress(append([]byte{0xC0 + byte(i)}, make([]byte, 18)...))
		bhContract[i][19] = byte(i + 1)
	}
	for i := range bhValKey {
		bhValKey[i] = ed25519.GenPrivKeyFromSecret([]byte(fmt.Sprintf("verif-validator-key-%d", i)))
	}
}

func actorAddr(i int) common.Address {
	if i < 0 {
		i = 0
	}
	if i < bhNU {
		return bhUserEth[i]
	}
	if i < bhNU+bhNC {
		return bhContract[i-bhNU]
	}
	if a, ok := blockedActor(i); ok { // module accounts and precompile addresses (blockparams.go)
		return a
	}
	if i >= 1000 {
		// a fresh address that has no account yet: a call with value creates it
		var a common.Address
		a[0], a[1] = 0xF5, 0xE5
		a[17], a[18], a[19] = byte(i>>16), byte(i>>8), byte(i)
		return a
	}
	return bhUserEth[i%bhNU]
}

func valOper(v int) sdk.ValAddress { // validator v is operated by user v (genesis) or by user v-bhNV (created later)
	if v < bhNV {
		return sdk.ValAddress(bhUserAcc[v])
	}
	return sdk.ValAddress(bhUserAcc[(v-bhNV)%bhNU])
}
func valCons(v int) sdk.ConsAddress {
	return sdk.ConsAddress(bhValKey[v%len(bhValKey)].PubKey().Address())
}

// ---------------------------------------------------------------- input
type bhInstr struct {
	Op    string    `json:"op"` // sstore log revert balance call pcall selfdestruct (T = beneficiary; ends the frame)
	K     uint64    `json:"k,omitempty"`
	V     uint64    `json:"v,omitempty"`
	T     int       `json:"t,omitempty"` // balance / call target (actor)
	A     string    `json:"a,omitempty"` // value; for a precompile call also the amount argument
	NV    bool      `json:"nv,omitempty"` // precompile call: attach no value (A is the amount argument only)
	Catch bool      `json:"catch,omitempty"`
	B     []bhInstr `json:"b,omitempty"`
	M     string    `json:"m,omitempty"` // precompile method
	W     int       `json:"w,omitempty"` // delegator argument (actor)
	Val   int       `json:"val,omitempty"`
	Val2  int       `json:"val2,omitempty"`
}

type bhTx struct {
	K  string      `json:"k"`
	F  int         `json:"f"`
	T  int         `json:"t,omitempty"`
	V  int         `json:"v,omitempty"`
	V2 int         `json:"v2,omitempty"`
	A  string      `json:"a,omitempty"`
	D  string      `json:"d,omitempty"`
	X  [][2]string `json:"x,omitempty"` // further coins [denomination, amount] beside A of D: propose / deposit / fundpool
	N  int64       `json:"n,omitempty"`
	N2 int64       `json:"n2,omitempty"`
	S  string      `json:"s,omitempty"`
	B  []bhInstr   `json:"b,omitempty"`
}

type bhEvidence struct {
	Val  int   `json:"val"`
	Back int64 `json:"back"` // infraction height = current height - back
}

type bhBlock struct {
	DT       int64        `json:"dt"`       // seconds since the previous block
	Proposer int          `json:"proposer"` // index into the active validator set (mod size)
	Absent   []int        `json:"absent,omitempty"`
	Evidence []bhEvidence `json:"evidence,omitempty"`
	Txs      []bhTx       `json:"txs"`
	Pre      []bhPerturb  `json:"pre,omitempty"` // C01: what happens to single replicas before this block that is not a block input (replica_perturb.go)
}

type bhGenesis struct {
	NVal       int         `json:"nval"`
	MaxVals    int         `json:"maxvals"`
	Coinomics  bool        `json:"coinomics"`
	Window     int         `json:"window"`           // slashing signed-blocks window
	UnbondSecs int         `json:"unbondsecs"`       // staking unbonding time
	VoteSecs   int         `json:"votesecs"`         // gov voting period
	Extra      bool        `json:"extra,omitempty"`  // every user also holds the denominations of bhExtraDenoms
	MinDep     [][2]string `json:"mindep,omitempty"` // further coins [denomination, amount] of the gov min deposit beside 10 ISLM
	NoBurn     int         `json:"noburn,omitempty"` // gov burn switches turned off: 1 quorum, 2 deposit-prevote, 4 veto
	Hist       *uint32     `json:"hist,omitempty"`   // staking HistoricalEntries (nil = the SDK default, 10000)
	Fee        *bhFeeMarket `json:"fee,omitempty"`   // fee-market regime: x/feemarket genesis parameters and the consensus block MaxGas (nil = defaults, MaxGas -1); feeregime.go
}

type bhInput struct {
	Gen    bhGenesis `json:"gen"`
	Blocks []bhBlock `json:"blocks"`
	Focus  string    `json:"focus,omitempty"` // generator bias recorded for the evidence
	Proc   *procPlan `json:"proc,omitempty"`  // C01: how the replicas' application objects are constructed (replica_perturb.go)
}

// ---------------------------------------------------------------- genesis
func coinsOf(denom string, amt *big.Int) sdk.Coins {
	return sdk.NewCoins(sdk.NewCoin(denom, sdkmath.NewIntFromBigInt(amt)))
}

func mulE18(n int64) *big.Int { return new(big.Int).Mul(big.NewInt(n), e18) }

// coinsFromPairs builds a valid (sorted, merged) coin list from [denomination, amount] pairs;
// pairs with a non-positive amount are dropped, a malformed denomination is an error.
func coinsFromPairs(ps [][2]string) (sdk.Coins, error) {
	out := sdk.NewCoins()
	for _, p := range ps {
		if err := sdk.ValidateDenom(p[0]); err != nil {
			return nil, err
		}
		if amt := intA(p[1]); amt.IsPositive() {
			out = out.Add(sdk.NewCoin(p[0], amt))
		}
	}
	return out, nil
}

func bhGenesisState(a *app.Haqq, g bhGenesis) []byte {
	cdc := a.AppCodec()
	gs := app.NewDefaultGenesisState()
	emptyHash := crypto.Keccak256Hash(nil).String()
	scriptHash := crypto.Keccak256Hash(scriptCode).String()

	// accounts
	var accs []authtypes.GenesisAccount
	var balances []banktypes.Balance
	supply := sdk.NewCoins()
	for i := 0; i < bhNU; i++ {
		accs = append(accs, &haqqtypes.EthAccount{BaseAccount: authtypes.NewBaseAccount(bhUserAcc[i], nil, 0, 0), CodeHash: emptyHash})
		c := sdk.NewCoins(sdk.NewCoin(utils.BaseDenom, sdkmath.NewIntFromBigInt(mulE18(5_000_000))), sdk.NewCoin(testDenom, sdkmath.NewInt(1_000_000_000)))
		if g.Extra {
			for _, d := range bhExtraDenoms {
				c = c.Add(sdk.NewCoin(d, sdkmath.NewInt(bhExtraAmount)))
			}
		}
		balances = append(balances, banktypes.Balance{Address: bhUserAcc[i].String(), Coins: c})
		supply = supply.Add(c...)
	}
	var evmAccs []evmtypes.GenesisAccount
	for i := 0; i < bhNC; i++ {
		addr := sdk.AccAddress(bhContract[i].Bytes())
		accs = append(accs, &haqqtypes.EthAccount{BaseAccount: authtypes.NewBaseAccount(addr, nil, 0, 1), CodeHash: scriptHash})
		c := coinsOf(utils.BaseDenom, mulE18(10))
		balances = append(balances, banktypes.Balance{Address: addr.String(), Coins: c})
		supply = supply.Add(c...)
		evmAccs = append(evmAccs, evmtypes.GenesisAccount{Address: bhContract[i].Hex(), Code: hex.EncodeToString(scriptCode)})
	}
	gs[authtypes.ModuleName] = cdc.MustMarshalJSON(authtypes.NewGenesisState(authtypes.DefaultParams(), accs))

	// staking: validators operated and self-delegated by U0..U(n-1), different powers
	sp := stakingtypes.DefaultParams()
	sp.BondDenom = utils.BaseDenom
	sp.MaxValidators = uint32(g.MaxVals)
	sp.UnbondingTime = time.Duration(g.UnbondSecs) * time.Second
	if g.Hist != nil {
		sp.HistoricalEntries = *g.Hist
	}
	var vals []stakingtypes.Validator
	var dels []stakingtypes.Delegation
	var infos []slashingtypes.SigningInfo
	bonded := big.NewInt(0)
	for v := 0; v < g.NVal; v++ {
		tokens := mulE18(int64(1000 * (v + 1)))
		pkAny, err := codectypes.NewAnyWithValue(bhValKey[v].PubKey())
		if err != nil {
			panic(err)
		}
		rate := sdk.NewDecWithPrec(int64(5*v), 2)
		vals = append(vals, stakingtypes.Validator{
			OperatorAddress: valOper(v).String(), ConsensusPubkey: pkAny, Status: stakingtypes.Bonded,
			Tokens: sdkmath.NewIntFromBigInt(tokens), DelegatorShares: sdk.NewDecFromBigInt(tokens),
			Description: stakingtypes.Description{Moniker: fmt.Sprintf("v%d", v)}, UnbondingTime: time.Unix(0, 0).UTC(),
			Commission:        stakingtypes.NewCommission(rate, sdk.NewDecWithPrec(50, 2), sdk.NewDecWithPrec(10, 2)),
			MinSelfDelegation: sdkmath.OneInt(),
		})
		dels = append(dels, stakingtypes.NewDelegation(bhUserAcc[v], valOper(v), sdk.NewDecFromBigInt(tokens)))
		bonded.Add(bonded, tokens)
		infos = append(infos, slashingtypes.SigningInfo{Address: valCons(v).String(),
			ValidatorSigningInfo: slashingtypes.NewValidatorSigningInfo(valCons(v), 0, 0, time.Unix(0, 0).UTC(), false, 0)})
	}
	gs[stakingtypes.ModuleName] = cdc.MustMarshalJSON(stakingtypes.NewGenesisState(sp, vals, dels))
	balances = append(balances, banktypes.Balance{Address: authtypes.NewModuleAddress(stakingtypes.BondedPoolName).String(), Coins: coinsOf(utils.BaseDenom, bonded)})
	supply = supply.Add(coinsOf(utils.BaseDenom, bonded)...)

	slp := slashingtypes.DefaultParams()
	slp.SignedBlocksWindow = int64(g.Window)
	slp.MinSignedPerWindow = sdk.NewDecWithPrec(5, 1)
	slp.DowntimeJailDuration = 5 * time.Second
	gs[slashingtypes.ModuleName] = cdc.MustMarshalJSON(slashingtypes.NewGenesisState(slp, infos, nil))

	meta := []banktypes.Metadata{{
		Description: "test coin", Base: testDenom, Display: "test", Name: testDenom, Symbol: "TEST",
		DenomUnits: []*banktypes.DenomUnit{{Denom: testDenom, Exponent: 0}, {Denom: "test", Exponent: 6}},
	}}
	gs[banktypes.ModuleName] = cdc.MustMarshalJSON(banktypes.NewGenesisState(banktypes.DefaultGenesisState().Params, balances, supply, meta, nil))

	// governance: short periods, every burn switch on (burns of deposits are redirected to the community pool)
	gp := govv1.DefaultParams()
	gp.MinDeposit = coinsOf(utils.BaseDenom, mulE18(10))
	if extra, err := coinsFromPairs(g.MinDep); err == nil {
		gp.MinDeposit = sdk.NewCoins(gp.MinDeposit...).Add(extra...)
	}
	md, vp := 40*time.Second, time.Duration(g.VoteSecs)*time.Second
	gp.MaxDepositPeriod, gp.VotingPeriod = &md, &vp
	gp.BurnVoteQuorum, gp.BurnProposalDepositPrevote, gp.BurnVoteVeto = g.NoBurn&1 == 0, g.NoBurn&2 == 0, g.NoBurn&4 == 0
	gs[govtypes.ModuleName] = cdc.MustMarshalJSON(govv1.NewGenesisState(1, gp))

	cp := coinomicstypes.DefaultParams()
	cp.EnableCoinomics = g.Coinomics
	cg := coinomicstypes.NewGenesisState(cp, sdk.NewCoin(utils.BaseDenom, sdkmath.NewIntFromBigInt(mulE18(100_000_000_000))))
	gs[coinomicstypes.ModuleName] = cdc.MustMarshalJSON(&cg)

	eg := evmtypes.DefaultGenesisState()
	eg.Accounts = evmAccs
	gs[evmtypes.ModuleName] = cdc.MustMarshalJSON(eg)

	if g.Fee != nil {
		fg := feemarkettypes.DefaultGenesisState()
		fg.Params = g.Fee.params()
		gs[feemarkettypes.ModuleName] = cdc.MustMarshalJSON(fg)
	}

	lg := liquidvestingtypes.DefaultGenesisState()
	lg.Params.MinimumLiquidationAmount = sdkmath.NewInt(1000)
	gs[liquidvestingtypes.ModuleName] = cdc.MustMarshalJSON(lg)

	bz, err := json.Marshal(gs)
	if err != nil {
		panic(err)
	}
	return bz
}

// ---------------------------------------------------------------- replica
// repOpts are the node-local settings: none of them is a block input.
type repOpts struct {
	MinGasPrices    string
	Home            string
	InvCheckPeriod  uint
	IAVLCacheSize   int
	InterBlockCache bool
	Pruning         string // "", nothing, everything, default
	MaxTxGasWanted  uint64
	IndexEvents     []string
	Trace           bool
	EVMTracer       string // node-local app option evm.tracer ("", json, struct, access_list, markdown)
}

type Replica struct {
	App    *app.Haqq
	Opts   repOpts
	TxCfg  client.TxConfig
	Hdr    tmproto.Header
	Height int64
	Time   time.Time
	Hash   []byte
	sABI   abi.ABI
	dABI   abi.ABI
	inBlk  bool
	DB     dbm.DB         // the node's database (a restart opens a new application on it)
	Probe  common.Address // environment-probe contract once this replica built its deployment (envprobe.go)
}

var genesisTime = time.Unix(1_700_000_000, 0).UTC()

func newReplica(g bhGenesis, o repOpts) *Replica {
	enc := encoding.MakeConfig(app.ModuleBasics)
	home := o.Home
	if home == "" {
		home = app.DefaultNodeHome
	}
	ao := simtestutil.AppOptionsMap{"home": home}
	if o.MaxTxGasWanted != 0 {
		ao[srvflags.EVMMaxTxGasWanted] = o.MaxTxGasWanted
	}
	if o.EVMTracer != "" {
		ao[srvflags.EVMTracer] = o.EVMTracer
	}
	bopts := []func(*baseapp.BaseApp){baseapp.SetChainID(chainID)}
	if o.MinGasPrices != "" {
		bopts = append(bopts, baseapp.SetMinGasPrices(o.MinGasPrices))
	}
	if o.IAVLCacheSize > 0 {
		bopts = append(bopts, baseapp.SetIAVLCacheSize(o.IAVLCacheSize))
	}
	if o.InterBlockCache {
		bopts = append(bopts, baseapp.SetInterBlockCache(store.NewCommitKVStoreCacheManager()))
	}
	switch o.Pruning {
	case "nothing":
		bopts = append(bopts, baseapp.SetPruning(pruningtypes.NewPruningOptions(pruningtypes.PruningNothing)))
	case "everything":
		bopts = append(bopts, baseapp.SetPruning(pruningtypes.NewPruningOptions(pruningtypes.PruningEverything)))
	case "default":
		bopts = append(bopts, baseapp.SetPruning(pruningtypes.NewPruningOptions(pruningtypes.PruningDefault)))
	}
	if len(o.IndexEvents) > 0 {
		bopts = append(bopts, baseapp.SetIndexEvents(o.IndexEvents))
	}
	if o.Trace {
		bopts = append(bopts, baseapp.SetTrace(true))
	}
	db := dbm.NewMemDB()
	a := app.NewHaqq(log.NewNopLogger(), db, nil, true, map[int64]bool{}, home, o.InvCheckPeriod, enc, ao, bopts...)
	res := a.InitChain(abci.RequestInitChain{
		ChainId: chainID, Time: genesisTime, ConsensusParams: bhConsensusParams(g),
		Validators: []abci.ValidatorUpdate{}, AppStateBytes: bhGenesisState(a, g), InitialHeight: 1,
	})
	r := &Replica{App: a, Opts: o, TxCfg: enc.TxConfig, Height: 0, Time: genesisTime, DB: db}
	r.Hash = res.AppHash
	r.Hdr = tmproto.Header{ChainID: chainID, Height: 1, Time: genesisTime}
	pcs := a.EvmKeeper.Precompiles(addrStakingPC, addrDistrPC)
	r.sABI = pcs[addrStakingPC].(*stakingprecompile.Precompile).ABI
	r.dABI = pcs[addrDistrPC].(*distprecompile.Precompile).ABI
	return r
}

// initValUpdates is what InitChain returned (the genesis validator set), recomputed from the genesis.
func bhInitialValSet(g bhGenesis) []valEntry {
	var out []valEntry
	for v := 0; v < g.NVal; v++ {
		out = append(out, valEntry{Cons: valCons(v), Power: int64(1000 * (v + 1))})
	}
	sortVals(out)
	if len(out) > g.MaxVals {
		out = out[:g.MaxVals]
	}
	return out
}

// ctx returns a context on the deliver state of the block in progress.
func (r *Replica) ctx() sdk.Context {
	return r.App.BaseApp.NewContext(false, r.Hdr).WithGasMeter(sdk.NewInfiniteGasMeter())
}

// committedCtx reads the committed multistore (after Commit).
func (r *Replica) committedCtx() sdk.Context {
	return r.App.BaseApp.NewUncachedContext(false, r.Hdr).WithGasMeter(sdk.NewInfiniteGasMeter())
}

// ---------------------------------------------------------------- validator set tracking (CometBFT semantics)
type valEntry struct {
	Cons  sdk.ConsAddress
	Power int64
	Pub   string
}

func sortVals(vs []valEntry) {
	sort.SliceStable(vs, func(i, j int) bool {
		if vs[i].Power != vs[j].Power {
			return vs[i].Power > vs[j].Power
		}
		return strings.Compare(string(vs[i].Cons), string(vs[j].Cons)) < 0
	})
}

// valTracker: with h the next height to run, sets[0] = validators of block h-1 (their votes are the
// LastCommitInfo of block h), sets[1] = validators of block h (the proposer is one of them), sets[2] =
// validators of block h+1.  EndBlock(h) updates produce the set of block h+2.
type valTracker struct {
	sets [3][]valEntry
}

func applyUpdates(set []valEntry, ups []abci.ValidatorUpdate) []valEntry {
	out := append([]valEntry{}, set...)
	for _, u := range ups {
		pk, err := encodingPubKeyAddr(u)
		if err != nil {
			continue
		}
		found := false
		for i := range out {
			if out[i].Cons.Equals(pk) {
				found = true
				if u.Power == 0 {
					out = append(out[:i], out[i+1:]...)
				} else {
					out[i].Power = u.Power
				}
				break
			}
		}
		if !found && u.Power > 0 {
			out = append(out, valEntry{Cons: pk, Power: u.Power})
		}
	}
	sortVals(out)
	return out
}

func encodingPubKeyAddr(u abci.ValidatorUpdate) (sdk.ConsAddress, error) {
	if ed := u.PubKey.GetEd25519(); ed != nil {
		pk := ed25519.PubKey{Key: ed}
		return sdk.ConsAddress(pk.Address()), nil
	}
	return nil, fmt.Errorf("unsupported key")
}

// ---------------------------------------------------------------- results
type txResult struct {
	Kind      string `json:"kind"`
	Code      uint32 `json:"code"`
	Codespace string `json:"codespace,omitempty"`
	GasWanted int64  `json:"gas_wanted"`
	GasUsed   int64  `json:"gas_used"`
	NEvents   int    `json:"n_events"`
	Log       string `json:"log,omitempty"`
	Digest    string `json:"digest"` // keccak of the deterministic protobuf encoding of the whole ResponseDeliverTx
	Direct    string `json:"direct,omitempty"`
	VmErr     string `json:"vm_err,omitempty"`
	Ret       string `json:"ret,omitempty"` // return data of an environment-probe call (hex)
}

type blockResult struct {
	Height     int64      `json:"height"`
	BeginDig   string     `json:"begin_digest"`
	BaseFee    string     `json:"base_fee,omitempty"` // x/feemarket BaseFee parameter after BeginBlock (named in the report when the BeginBlock responses differ)
	Txs        []txResult `json:"txs"`
	ValUpdates []string   `json:"val_updates"`
	EndDig     string     `json:"end_digest"`
	AppHash    string     `json:"app_hash"`
	Panic      string     `json:"panic,omitempty"`
}

func digest(bz []byte) string { return hex.EncodeToString(crypto.Keccak256(bz)[:12]) }

func shortLog(s string) string {
	if len(s) > 200 {
		return s[:200]
	}
	return s
}

// ---------------------------------------------------------------- block execution
type rawBlock struct {
	Hdr   tmproto.Header
	Votes []abci.VoteInfo
	Evid  []abci.Misbehavior
	Txs   [][]byte // nil entry = direct operation (executed from the op description)
}

func (r *Replica) beginBlock(rb *rawBlock) (res abci.ResponseBeginBlock, pan string) {
	defer func() {
		if x := recover(); x != nil {
			pan = fmt.Sprintf("BeginBlock panic: %v", x)
		}
	}()
	r.Hdr = rb.Hdr
	r.Height = rb.Hdr.Height
	r.Time = rb.Hdr.Time
	r.inBlk = true
	res = r.App.BeginBlock(abci.RequestBeginBlock{Hash: headerHash(rb.Hdr), Header: rb.Hdr, LastCommitInfo: abci.CommitInfo{Votes: rb.Votes}, ByzantineValidators: rb.Evid})
	return
}

func (r *Replica) deliver(bz []byte) (res abci.ResponseDeliverTx, pan string) {
	defer func() {
		if x := recover(); x != nil {
			pan = fmt.Sprintf("DeliverTx panic: %v", x)
		}
	}()
	res = r.App.DeliverTx(abci.RequestDeliverTx{Tx: bz})
	return
}

func (r *Replica) endBlock() (res abci.ResponseEndBlock, pan string) {
	defer func() {
		if x := recover(); x != nil {
			pan = fmt.Sprintf("EndBlock panic: %v", x)
		}
	}()
	res = r.App.EndBlock(abci.RequestEndBlock{Height: r.Height})
	return
}

func (r *Replica) commit() (hash []byte, pan string) {
	defer func() {
		if x := recover(); x != nil {
			pan = fmt.Sprintf("Commit panic: %v", x)
		}
	}()
	res := r.App.Commit()
	r.Hash = res.Data
	r.inBlk = false
	return res.Data, ""
}

// direct runs fn on a branch of the deliver state and writes it back only on success
// (the all-or-nothing semantics of a message).
func (r *Replica) direct(fn func(ctx sdk.Context) error) (msg string) {
	defer func() {
		if x := recover(); x != nil {
			msg = fmt.Sprintf("panic: %v", x)
		}
	}()
	cctx, write := r.ctx().CacheContext()
	if err := fn(cctx); err != nil {
		return "error: " + shortLog(err.Error())
	}
	write()
	return "ok"
}

// ---------------------------------------------------------------- transactions
func (r *Replica) baseFee(ctx sdk.Context) *big.Int {
	bf := r.App.FeeMarketKeeper.GetBaseFee(ctx)
	if bf == nil {
		return big.NewInt(0)
	}
	return bf
}

func (r *Replica) signCosmos(ctx sdk.Context, signer int, gas uint64, msgs ...sdk.Msg) ([]byte, error) {
	priv := bhUserKey[signer]
	b := r.TxCfg.NewTxBuilder()
	if err := b.SetMsgs(msgs...); err != nil {
		return nil, err
	}
	b.SetGasLimit(gas)
	// the fee follows the fee market of the state the transaction is built on: gas x max(base fee, MinGasPrice)
	fee := new(big.Int).Mul(r.priceFloor(ctx), new(big.Int).SetUint64(gas))
	if fee.Sign() > 0 {
		b.SetFeeAmount(sdk.Coins{sdk.NewCoin(utils.BaseDenom, sdkmath.NewIntFromBigInt(fee))})
	}
	acc := r.App.AccountKeeper.GetAccount(ctx, bhUserAcc[signer])
	if acc == nil {
		return nil, fmt.Errorf("signer account missing")
	}
	seq, num := acc.GetSequence(), acc.GetAccountNumber()
	sig := signing.SignatureV2{PubKey: priv.PubKey(), Data: &signing.SingleSignatureData{SignMode: signing.SignMode_SIGN_MODE_DIRECT}, Sequence: seq}
	if err := b.SetSignatures(sig); err != nil {
		return nil, err
	}
	sd := authsigning.SignerData{ChainID: chainID, AccountNumber: num, Sequence: seq}
	sig, err := clienttx.SignWithPrivKey(signing.SignMode_SIGN_MODE_DIRECT, sd, b, priv, r.TxCfg, seq)
	if err != nil {
		return nil, err
	}
	if err := b.SetSignatures(sig); err != nil {
		return nil, err
	}
	return r.TxCfg.TxEncoder()(b.GetTx())
}

func (r *Replica) signEth(ctx sdk.Context, signer int, to common.Address, value *big.Int, data []byte, gas uint64, dynamic bool) ([]byte, error) {
	chain := r.App.EvmKeeper.ChainID()
	nonce := r.App.EvmKeeper.GetNonce(ctx, bhUserEth[signer])
	args := &evmtypes.EvmTxArgs{ChainID: chain, Nonce: nonce, To: &to, Amount: value, GasLimit: gas, Input: data}
	r.ethPrices(ctx, args, dynamic)
	msg := evmtypes.NewTx(args)
	msg.From = bhUserEth[signer].Hex()
	if err := msg.Sign(ethtypes.LatestSignerForChainID(chain), testtx.NewSigner(bhUserKey[signer])); err != nil {
		return nil, err
	}
	msg.From = ""
	tx, err := msg.BuildTx(r.TxCfg.NewTxBuilder(), utils.BaseDenom)
	if err != nil {
		return nil, err
	}
	return r.TxCfg.TxEncoder()(tx)
}

// signEthBatch: one Cosmos transaction on the Ethereum route carrying 2-3 MsgEthereumTx (plain transfers by consecutive
// users, legacy pricing).  t.N, read in base 4, says per message how it is signed: 0 properly, 1 without replay
// protection (Homestead signer: refused unless the chain allows unprotected transactions), 2 with the signature value
// R zeroed, 3 for another chain id.  With two messages invalid in different ways the transaction's result must name
// the FIRST invalid one, on every node.
func (r *Replica) signEthBatch(ctx sdk.Context, signer int, t bhTx) ([]byte, error) {
	chain := r.App.EvmKeeper.ChainID()
	n := 2 + int(t.V%2)
	code := t.N
	var msgs []sdk.Msg
	fee, gasSum := new(big.Int), uint64(0)
	for i := 0; i < n; i++ {
		u := (signer + i) % bhNU
		how := code % 4
		code /= 4
		to := actorAddr(((t.T + i) % bhNU + bhNU) % bhNU)
		args := &evmtypes.EvmTxArgs{ChainID: chain, Nonce: r.App.EvmKeeper.GetNonce(ctx, bhUserEth[u]), To: &to, Amount: bigA(t.A), GasLimit: 100_000}
		r.ethPrices(ctx, args, false)
		var es ethtypes.Signer = ethtypes.LatestSignerForChainID(chain)
		switch how {
		case 1:
			args.ChainID = nil
			es = ethtypes.HomesteadSigner{}
		case 3:
			other := new(big.Int).Add(chain, big.NewInt(1))
			args.ChainID = other
			es = ethtypes.LatestSignerForChainID(other)
		}
		msg := evmtypes.NewTx(args)
		msg.From = bhUserEth[u].Hex()
		if err := msg.Sign(es, testtx.NewSigner(bhUserKey[u])); err != nil {
			return nil, err
		}
		msg.From = ""
		if how == 2 {
			td, err := evmtypes.UnpackTxData(msg.Data)
			if err != nil {
				return nil, err
			}
			if l, ok := td.(*evmtypes.LegacyTx); ok {
				l.R = []byte{}
				any, err := evmtypes.PackTxData(l)
				if err != nil {
					return nil, err
				}
				msg.Data = any
				msg.Hash = msg.AsTransaction().Hash().Hex()
			}
		}
		msgs = append(msgs, msg)
		fee.Add(fee, new(big.Int).Mul(args.GasPrice, new(big.Int).SetUint64(args.GasLimit)))
		gasSum += args.GasLimit
	}
	b := r.TxCfg.NewTxBuilder()
	eb, ok := b.(authtx.ExtensionOptionsTxBuilder)
	opt, err := codectypes.NewAnyWithValue(&evmtypes.ExtensionOptionsEthereumTx{})
	if !ok || err != nil {
		return nil, fmt.Errorf("no extension options builder")
	}
	eb.SetExtensionOptions(opt)
	if err := b.SetMsgs(msgs...); err != nil {
		return nil, err
	}
	b.SetFeeAmount(sdk.NewCoins(sdk.NewCoin(utils.BaseDenom, sdkmath.NewIntFromBigInt(fee))))
	b.SetGasLimit(gasSum)
	return r.TxCfg.TxEncoder()(b.GetTx())
}

func bigA(s string) *big.Int {
	if s == "" {
		return big.NewInt(0)
	}
	v, ok := new(big.Int).SetString(s, 10)
	if !ok {
		return big.NewInt(0)
	}
	return v
}

func intA(s string) sdkmath.Int { return sdkmath.NewIntFromBigInt(bigA(s)) }

func (r *Replica) packP(in bhInstr) (common.Address, []byte, error) {
	who := actorAddr(in.W)
	switch in.M {
	case "delegate", "undelegate":
		d, err := r.sABI.Pack(in.M, who, valOper(in.Val).String(), bigA(in.A))
		return addrStakingPC, d, err
	case "redelegate":
		d, err := r.sABI.Pack("redelegate", who, valOper(in.Val).String(), valOper(in.Val2).String(), bigA(in.A))
		return addrStakingPC, d, err
	case "withdraw":
		d, err := r.dABI.Pack("withdrawDelegatorRewards", who, valOper(in.Val).String())
		return addrDistrPC, d, err
	case "setwithdraw":
		d, err := r.dABI.Pack("setWithdrawAddress", who, sdk.AccAddress(actorAddr(in.T).Bytes()).String())
		return addrDistrPC, d, err
	case "claim":
		d, err := r.dABI.Pack("claimRewards", who, uint32(8))
		return addrDistrPC, d, err
	case "commission":
		d, err := r.dABI.Pack("withdrawValidatorCommission", valOper(in.Val).String())
		return addrDistrPC, d, err
	}
	return common.Address{}, nil, fmt.Errorf("bad precompile method %q", in.M)
}

func (r *Replica) encodeProgram(body []bhInstr) ([]byte, error) {
	out := []byte{}
	for _, in := range body {
		switch in.Op {
		case "sstore":
			out = append(out, encSStore(in.K, in.V)...)
		case "log":
			out = append(out, encLog()...)
		case "revert":
			out = append(out, encRevert()...)
		case "balance":
			out = append(out, encBalance(actorAddr(in.T).Bytes())...)
		case "selfdestruct":
			out = append(out, encSelfdestruct(actorAddr(in.T).Bytes())...)
		case "call":
			var flags byte
			if in.Catch {
				flags |= 1
			}
			payload, err := r.encodeProgram(in.B)
			if err != nil {
				return nil, err
			}
			if in.T < bhNU || in.T >= 1000 {
				payload = nil
			}
			out = append(out, encCall(flags, actorAddr(in.T).Bytes(), bigA(in.A), payload)...)
		case "pcall":
			flags := byte(4)
			if in.Catch {
				flags |= 1
			}
			t, data, err := r.packP(in)
			if err != nil {
				return nil, err
			}
			val := bigA(in.A)
			if in.NV {
				val = big.NewInt(0) // value attached to a stateful precompile makes its flush fail (K5): most calls attach none
			}
			out = append(out, encCall(flags, t.Bytes(), val, data)...)
		default:
			return nil, fmt.Errorf("bad instr %q", in.Op)
		}
	}
	return out, nil
}

func periodsOf(total sdk.Coins, length int64, n int) sdkvesting.Periods {
	if n <= 1 || len(total) != 1 {
		return sdkvesting.Periods{{Length: length, Amount: total}}
	}
	out := sdkvesting.Periods{}
	amt := total[0].Amount
	part := amt.QuoRaw(int64(n))
	acc := sdkmath.ZeroInt()
	for i := 0; i < n; i++ {
		p := part
		if i == n-1 {
			p = amt.Sub(acc)
		}
		acc = acc.Add(p)
		out = append(out, sdkvesting.Period{Length: length, Amount: sdk.NewCoins(sdk.NewCoin(total[0].Denom, p))})
	}
	return out
}

// buildTx turns an operation into transaction bytes signed against the state in ctx.
// A nil result with nil error means the operation is a direct one.
func (r *Replica) buildTx(ctx sdk.Context, t bhTx) ([]byte, error) {
	f := ((t.F % bhNU) + bhNU) % bhNU
	from := bhUserAcc[f]
	toAcc := sdk.AccAddress(actorAddr(t.T).Bytes())
	denom := t.D
	if denom == "" {
		denom = utils.BaseDenom
	}
	coin := func() sdk.Coin { return sdk.Coin{Denom: denom, Amount: intA(t.A)} }
	// coins: the coin list of a deposit / community-pool funding.  Without further coins it is the single
	// coin as written (a zero amount then makes the message invalid, which is wanted now and then); with
	// further coins (t.X) the positive ones are merged into a valid list, as a client would build it.
	coins := func() (sdk.Coins, error) {
		if len(t.X) == 0 {
			return sdk.Coins{coin()}, nil
		}
		if err := sdk.ValidateDenom(denom); err != nil {
			return nil, err
		}
		return coinsFromPairs(append([][2]string{{denom, bigA(t.A).String()}}, t.X...))
	}
	gas := uint64(400_000)
	var msgs []sdk.Msg
	switch t.K {
	case "send":
		msgs = []sdk.Msg{&banktypes.MsgSend{FromAddress: from.String(), ToAddress: toAcc.String(), Amount: sdk.Coins{coin()}}}
	case "delegate":
		msgs = []sdk.Msg{&stakingtypes.MsgDelegate{DelegatorAddress: from.String(), ValidatorAddress: valOper(t.V).String(), Amount: coin()}}
	case "undelegate":
		msgs = []sdk.Msg{&stakingtypes.MsgUndelegate{DelegatorAddress: from.String(), ValidatorAddress: valOper(t.V).String(), Amount: coin()}}
	case "redelegate":
		msgs = []sdk.Msg{&stakingtypes.MsgBeginRedelegate{DelegatorAddress: from.String(), ValidatorSrcAddress: valOper(t.V).String(), ValidatorDstAddress: valOper(t.V2).String(), Amount: coin()}}
	case "cancelunbond":
		msgs = []sdk.Msg{&stakingtypes.MsgCancelUnbondingDelegation{DelegatorAddress: from.String(), ValidatorAddress: valOper(t.V).String(), Amount: coin(), CreationHeight: t.N}}
	case "withdraw":
		msgs = []sdk.Msg{&distrtypes.MsgWithdrawDelegatorReward{DelegatorAddress: from.String(), ValidatorAddress: valOper(t.V).String()}}
	case "commission":
		msgs = []sdk.Msg{&distrtypes.MsgWithdrawValidatorCommission{ValidatorAddress: sdk.ValAddress(from).String()}}
	case "setwithdraw":
		msgs = []sdk.Msg{&distrtypes.MsgSetWithdrawAddress{DelegatorAddress: from.String(), WithdrawAddress: toAcc.String()}}
	case "fundpool":
		cs, err := coins()
		if err != nil {
			return nil, err
		}
		msgs = []sdk.Msg{&distrtypes.MsgFundCommunityPool{Depositor: from.String(), Amount: cs}}
	case "unjail":
		msgs = []sdk.Msg{&slashingtypes.MsgUnjail{ValidatorAddr: sdk.ValAddress(from).String()}}
	case "createval":
		m, err := stakingtypes.NewMsgCreateValidator(sdk.ValAddress(from), bhValKey[bhNV+f].PubKey(), coin(),
			stakingtypes.Description{Moniker: fmt.Sprintf("u%d", f)},
			stakingtypes.NewCommissionRates(sdk.NewDecWithPrec(10, 2), sdk.NewDecWithPrec(50, 2), sdk.NewDecWithPrec(5, 2)), sdkmath.OneInt())
		if err != nil {
			return nil, err
		}
		msgs = []sdk.Msg{m}
	case "propose":
		gas = 6_000_000
		dep, err := coins()
		if err != nil {
			return nil, err
		}
		if len(dep) == 1 && !dep[0].Amount.IsPositive() {
			dep = sdk.Coins{}
		}
		switch t.S {
		case "registercoin":
			ctn := erc20types.NewRegisterCoinProposal("register "+testDenom, "pair for the test coin", banktypes.Metadata{
				Description: "test coin", Base: testDenom, Display: "test", Name: testDenom, Symbol: "TEST",
				DenomUnits: []*banktypes.DenomUnit{{Denom: testDenom, Exponent: 0}, {Denom: "test", Exponent: 6}}})
			m, err := govv1beta1.NewMsgSubmitProposal(ctn, dep, from)
			if err != nil {
				return nil, err
			}
			msgs = []sdk.Msg{m}
		case "spend": // community pool spend through a v1 proposal message
			inner := &distrtypes.MsgCommunityPoolSpend{Authority: authtypes.NewModuleAddress(govtypes.ModuleName).String(), Recipient: toAcc.String(), Amount: coinsOf(utils.BaseDenom, big.NewInt(1000))}
			m, err := govv1.NewMsgSubmitProposal([]sdk.Msg{inner}, dep, from.String(), "", "spend", "community pool spend")
			if err != nil {
				return nil, err
			}
			msgs = []sdk.Msg{m}
		default:
			m, err := govv1.NewMsgSubmitProposal(nil, dep, from.String(), "text", "text", "a text proposal")
			if err != nil {
				return nil, err
			}
			msgs = []sdk.Msg{m}
		}
	case "deposit":
		cs, err := coins()
		if err != nil {
			return nil, err
		}
		msgs = []sdk.Msg{govv1.NewMsgDeposit(from, uint64(t.N), cs)}
	case "vote":
		msgs = []sdk.Msg{govv1.NewMsgVote(from, uint64(t.N), govv1.VoteOption(t.V), "")}
	case "vest":
		total := sdk.NewCoins(coin())
		m := &vestingtypes.MsgConvertIntoVestingAccount{
			FromAddress: from.String(), ToAddress: toAcc.String(), StartTime: time.Unix(r.Time.Unix()+t.N2, 0).UTC(),
			LockupPeriods: periodsOf(total, t.N, 2), VestingPeriods: periodsOf(total, maxI64(t.N/4, 0), 1+int(t.V%3)),
			Merge: strings.Contains(t.S, "merge"), Stake: strings.Contains(t.S, "stake"), ValidatorAddress: valOper(t.V2).String(),
		}
		if len(t.X) > 0 {
			// further denominations: unlocked and vested by a first short period of their own
			extra, err := coinsFromPairs(t.X)
			if err != nil {
				return nil, err
			}
			if extra = extra.Sub(sdk.NewCoin(denom, extra.AmountOf(denom))); !extra.IsZero() {
				first := sdkvesting.Period{Length: 1, Amount: extra}
				m.LockupPeriods = append(sdkvesting.Periods{first}, m.LockupPeriods...)
				m.VestingPeriods = append(sdkvesting.Periods{first}, m.VestingPeriods...)
			}
		}
		msgs = []sdk.Msg{m}
	case "clawback":
		msgs = []sdk.Msg{vestingtypes.NewMsgClawback(from, toAcc, nil)}
	case "convertvest":
		msgs = []sdk.Msg{vestingtypes.NewMsgConvertVestingAccount(from)}
	case "liquidate":
		gas = 6_000_000
		msgs = []sdk.Msg{liquidvestingtypes.NewMsgLiquidate(from, toAcc, coin())}
	case "redeem":
		gas = 3_000_000
		msgs = []sdk.Msg{liquidvestingtypes.NewMsgRedeem(from, toAcc, coin())}
	case "daofund":
		msgs = []sdk.Msg{ucdaotypes.NewMsgFund(sdk.Coins{coin()}, from)}
	case "daotransfer":
		msgs = []sdk.Msg{ucdaotypes.NewMsgTransferOwnership(from, toAcc)}
	case "daotransferamt":
		msgs = []sdk.Msg{ucdaotypes.NewMsgTransferOwnershipWithAmount(from, toAcc, sdk.Coins{coin()})}
	case "convertcoin":
		gas = 2_000_000
		msgs = []sdk.Msg{erc20types.NewMsgConvertCoin(coin(), actorAddr(t.T), from)}
	case "converterc20":
		gas = 2_000_000
		id := r.App.Erc20Keeper.GetTokenPairID(ctx, denom)
		pair, ok := r.App.Erc20Keeper.GetTokenPair(ctx, id)
		if !ok {
			return nil, fmt.Errorf("no token pair for %s", denom)
		}
		msgs = []sdk.Msg{erc20types.NewMsgConvertERC20(intA(t.A), toAcc, pair.GetERC20Contract(), bhUserEth[f])}
	case "authzgrant":
		at := stakingtypes.AuthorizationType_AUTHORIZATION_TYPE_DELEGATE
		if t.S == "undelegate" {
			at = stakingtypes.AuthorizationType_AUTHORIZATION_TYPE_UNDELEGATE
		}
		sa, err := stakingtypes.NewStakeAuthorization([]sdk.ValAddress{valOper(t.V)}, nil, at, nil)
		if err != nil {
			return nil, err
		}
		exp := r.Time.Add(time.Hour)
		m, err := authz.NewMsgGrant(from, toAcc, sa, &exp)
		if err != nil {
			return nil, err
		}
		msgs = []sdk.Msg{m}
	case "authzexec":
		inner := &stakingtypes.MsgDelegate{DelegatorAddress: toAcc.String(), ValidatorAddress: valOper(t.V).String(), Amount: coin()}
		m := authz.NewMsgExec(from, []sdk.Msg{inner})
		msgs = []sdk.Msg{&m}
	case "ethsend":
		return r.signEth(ctx, f, actorAddr(t.T), bigA(t.A), nil, 100_000, t.N%2 == 1)
	case "ethcall":
		data, err := r.encodeProgram(t.B)
		if err != nil {
			return nil, err
		}
		c := bhNU + (((t.T-bhNU)%bhNC)+bhNC)%bhNC
		return r.signEth(ctx, f, actorAddr(c), bigA(t.A), data, 4_000_000, t.N%2 == 1)
	case "ethpcall":
		if len(t.B) != 1 {
			return nil, fmt.Errorf("ethpcall needs one instruction")
		}
		to, data, err := r.packP(t.B[0])
		if err != nil {
			return nil, err
		}
		return r.signEth(ctx, f, to, bigA(t.A), data, 3_000_000, t.N%2 == 1)
	case "ethbatch":
		return r.signEthBatch(ctx, f, t)
	case "probedeploy":
		return r.signProbeDeploy(ctx, f, t.N%2 == 1)
	case "probe":
		return r.signProbeCall(ctx, f, t.S, t.N%2 == 1)
	case "upgrade", "fundrewards":
		return nil, nil // direct operations
	default:
		return r.buildTxExt(ctx, t, f) // further kinds: blockparams.go
	}
	return r.signCosmos(ctx, f, gas, msgs...)
}

func maxI64(a, b int64) int64 {
	if a > b {
		return a
	}
	return b
}

// runDirect executes the operations that are not transactions.
func (r *Replica) runDirect(t bhTx) string {
	switch t.K {
	case "upgrade": // schedule a software upgrade for the next height (what a passed upgrade proposal does)
		return r.direct(func(ctx sdk.Context) error {
			return r.App.UpgradeKeeper.ScheduleUpgrade(ctx, upgradetypes.Plan{Name: t.S, Height: r.Height + 1})
		})
	}
	return r.runDirectExt(t) // further direct operations: blockparams.go
}

// ---------------------------------------------------------------- history runner
type histRun struct {
	risk   map[string]bool // validators the history has made miss blocks or double-sign (at least two others stay untouched)
	clamp  int             // blocks whose time step is forced to 1 s (a validator just left the set, see runBlock)
	Rep    *Replica
	Track  valTracker
	Blocks []blockResult
	Raw    []rawBlock
	Dead   string
	Stop   bool // history ended early for a reason that is not a finding
}

func newHistRun(g bhGenesis, o repOpts) *histRun {
	h := &histRun{Rep: newReplica(g, o)}
	set := bhInitialValSet(g)
	h.Track = valTracker{sets: [3][]valEntry{nil, set, set}}
	return h
}

// header builds the header and commit info of the next block from the block description.
func (h *histRun) makeRaw(b bhBlock) rawBlock {
	prevSigners := h.Track.sets[0]
	r := h.Rep
	dt := b.DT
	if dt < 1 {
		dt = 1
	}
	cur := h.Track.sets[1]
	prop := sdk.ConsAddress{}
	if len(cur) > 0 {
		prop = cur[((b.Proposer%len(cur))+len(cur))%len(cur)].Cons
	}
	hdr := tmproto.Header{ChainID: chainID, Height: r.Height + 1, Time: r.Time.Add(time.Duration(dt) * time.Second), ProposerAddress: prop, AppHash: r.Hash}
	rb := rawBlock{Hdr: hdr}
	// never endanger the last two validators: an empty validator set halts CometBFT, it is not a block input
	if h.risk == nil {
		h.risk = map[string]bool{}
	}
	mayTarget := func(v valEntry) bool {
		k := string(v.Cons)
		if h.risk[k] {
			return true
		}
		safe := 0
		for _, x := range h.Track.sets[2] {
			if !h.risk[string(x.Cons)] {
				safe++
			}
		}
		if safe >= 3 {
			h.risk[k] = true
			return true
		}
		return false
	}
	absent := map[int]bool{}
	for _, a := range b.Absent {
		if len(prevSigners) > 0 {
			i := ((a % len(prevSigners)) + len(prevSigners)) % len(prevSigners)
			if mayTarget(prevSigners[i]) {
				absent[i] = true
			}
		}
	}
	total := int64(0)
	for _, v := range prevSigners {
		total += v.Power
	}
	if hdr.Height > 1 {
		for i, v := range prevSigners {
			rb.Votes = append(rb.Votes, abci.VoteInfo{Validator: abci.Validator{Address: v.Cons, Power: v.Power}, SignedLastBlock: !absent[i]})
		}
	}
	for _, e := range b.Evidence {
		if len(prevSigners) == 0 || hdr.Height < 2 {
			continue
		}
		v := prevSigners[((e.Val%len(prevSigners))+len(prevSigners))%len(prevSigners)]
		if !mayTarget(v) {
			continue
		}
		back := e.Back
		if back < 1 {
			back = 1
		}
		ih := hdr.Height - back
		if ih < 1 {
			ih = 1
		}
		rb.Evid = append(rb.Evid, abci.Misbehavior{Type: abci.MisbehaviorType_DUPLICATE_VOTE, Validator: abci.Validator{Address: v.Cons, Power: v.Power},
			Height: ih, Time: hdr.Time.Add(-time.Duration(back) * time.Second), TotalVotingPower: total})
	}
	return rb
}

func mustProto(m interface{ Marshal() ([]byte, error) }) []byte {
	bz, err := m.Marshal()
	if err != nil {
		panic(err)
	}
	return bz
}

// stepHooks lets a driver look at the replica between the ABCI calls.
type stepHooks struct {
	AfterBeginBlock func(h *histRun, height int64) // after BeginBlock, before the first transaction
	BeforeEndBlock func(h *histRun, height int64) // after the last DeliverTx (the EndBlockers have not run yet)
	AfterEndBlock  func(h *histRun, height int64)
	AfterCommit    func(h *histRun, height int64)
	BeforeTx       func(h *histRun, height int64, t *bhTx)               // before the transaction is built and delivered
	AfterTx        func(h *histRun, height int64, t *bhTx, tr *txResult) // after DeliverTx / the direct operation
	// GenTx, when set, produces the transactions of the block while it is executed
	// (generation looks at the state); the block description is filled in place.
	GenTx func(h *histRun, b *bhBlock, i int) *bhTx
	NTx   func(b *bhBlock) int
	// TweakRaw, when set, completes the header built by makeRaw (leading replica only)
	TweakRaw func(h *histRun, rb *rawBlock)
}

// runBlock executes one block.  With raw != nil the recorded header / votes /
// transaction bytes are used (a follower replica); otherwise they are built
// from the description against this replica's own state and returned.
func (h *histRun) runBlock(b *bhBlock, raw *rawBlock, hooks *stepHooks) (blockResult, rawBlock) {
	r := h.Rep
	var rb rawBlock
	if raw != nil {
		rb = *raw
	} else {
		if h.clamp > 0 {
			// CometBFT keeps a removed validator in the commit info for two more blocks; a real chain's
			// unbonding time (weeks) is far longer than that.  With the seconds-long unbonding time used
			// here the same relation is kept by not letting time jump while a removed validator still votes.
			b.DT = 1
			h.clamp--
		}
		rb = h.makeRaw(*b)
		if hooks != nil && hooks.TweakRaw != nil {
			hooks.TweakRaw(h, &rb)
		}
	}
	br := blockResult{Height: rb.Hdr.Height}
	fail := func(p string) (blockResult, rawBlock) {
		br.Panic = p
		h.Dead = p
		h.Blocks = append(h.Blocks, br)
		return br, rb
	}
	bres, pan := r.beginBlock(&rb)
	if pan != "" {
		return fail(pan)
	}
	br.BeginDig = digest(mustProto(&bres))
	if bf := r.App.FeeMarketKeeper.GetParams(r.ctx()).BaseFee; !bf.IsNil() {
		br.BaseFee = bf.String()
	}
	if hooks != nil && hooks.AfterBeginBlock != nil {
		hooks.AfterBeginBlock(h, br.Height)
	}
	n := len(b.Txs)
	if hooks != nil && hooks.GenTx != nil && raw == nil {
		n = hooks.NTx(b)
		b.Txs = nil
	}
	for i := 0; i < n; i++ {
		var t bhTx
		if hooks != nil && hooks.GenTx != nil && raw == nil {
			g := hooks.GenTx(h, b, i)
			if g == nil {
				continue
			}
			t = *g
			b.Txs = append(b.Txs, t)
		} else {
			t = b.Txs[i]
		}
		idx := len(br.Txs)
		var bz []byte
		var err error
		if hooks != nil && hooks.BeforeTx != nil {
			hooks.BeforeTx(h, br.Height, &t)
		}
		if raw != nil {
			if idx < len(raw.Txs) {
				bz = raw.Txs[idx]
			}
		} else {
			bz, err = r.buildTx(r.ctx(), t)
			rb.Txs = append(rb.Txs, bz)
		}
		tr := txResult{Kind: t.K}
		if raw == nil && err != nil {
			rb.Txs[len(rb.Txs)-1] = []byte{} // empty, not nil: "could not be built", skipped by every replica
			bz = []byte{}
			tr.Log = shortLog(err.Error())
		}
		switch {
		case bz != nil && len(bz) == 0:
			tr.Direct = "not-built"
			tr.Digest = digest([]byte(tr.Direct))
		case bz == nil:
			tr.Direct = r.runDirect(t)
			tr.Digest = digest([]byte(tr.Direct))
		default:
			res, pan := r.deliver(bz)
			if pan != "" {
				br.Txs = append(br.Txs, tr)
				return fail(pan)
			}
			tr.Code, tr.Codespace, tr.GasWanted, tr.GasUsed, tr.NEvents = res.Code, res.Codespace, res.GasWanted, res.GasUsed, len(res.Events)
			tr.Log = ""
			if res.Code != 0 {
				tr.Log = shortLog(res.Log)
			}
			if res.Code == 0 && strings.HasPrefix(t.K, "eth") {
				if er, err := evmtypes.DecodeTxResponse(res.Data); err == nil && er.VmError != "" {
					tr.VmErr = shortLog(er.VmError)
				}
			}
			if res.Code == 0 && t.K == "probe" {
				tr.Ret = probeRet(res.Data)
			}
			// log and info are documented as non-deterministic and are not part of the results hash
			res.Log, res.Info = "", ""
			tr.Digest = digest(mustProto(&res))
		}
		if hooks != nil && hooks.AfterTx != nil {
			hooks.AfterTx(h, br.Height, &t, &tr)
		}
		br.Txs = append(br.Txs, tr)
	}
	if hooks != nil && hooks.BeforeEndBlock != nil {
		hooks.BeforeEndBlock(h, br.Height)
	}
	eres, pan := r.endBlock()
	if pan != "" {
		return fail(pan)
	}
	br.EndDig = digest(mustProto(&eres))
	for _, u := range eres.ValidatorUpdates {
		br.ValUpdates = append(br.ValUpdates, fmt.Sprintf("%s:%d", hex.EncodeToString(u.PubKey.GetEd25519()), u.Power))
	}
	if hooks != nil && hooks.AfterEndBlock != nil {
		hooks.AfterEndBlock(h, br.Height)
	}
	hash, pan := r.commit()
	if pan != "" {
		return fail(pan)
	}
	br.AppHash = hex.EncodeToString(hash)
	// updates of this block take effect two heights later
	for _, u := range eres.ValidatorUpdates {
		if u.Power == 0 {
			h.clamp = 2
		}
	}
	h.Track.sets = [3][]valEntry{h.Track.sets[1], h.Track.sets[2], applyUpdates(h.Track.sets[2], eres.ValidatorUpdates)}
	if hooks != nil && hooks.AfterCommit != nil {
		hooks.AfterCommit(h, br.Height)
	}
	if len(h.Track.sets[2]) == 0 {
		h.Dead = "validator set became empty (CometBFT halts; not a block input of this harness)"
		h.Stop = true
	}
	h.Blocks = append(h.Blocks, br)
	h.Raw = append(h.Raw, rb)
	return br, rb
}
